import RoutinatorModel.Drv.Main
import RoutinatorModel.Drv.Engine
import RoutinatorModel.Drv.Engine2
open RoutinatorModel.Drv

def dispatch (comp arg : String) : String :=
  match comp with
  | "engine" => runEngine arg
  | "engine2" => runEngine2 arg
  | _ => "bad-component"

def main : IO Unit := mainWith dispatch
