import RoutinatorModel.Drv.Main
import RoutinatorModel.Drv.Validity
import RoutinatorModel.Drv.Snapshot
open RoutinatorModel.Drv

def dispatch (comp arg : String) : String :=
  match comp with
  | "c20" => runC20 arg
  | "c09" => runC09 arg
  | "c08" => runC09 arg
  | _ => "bad-component"

def main : IO Unit := mainWith dispatch
