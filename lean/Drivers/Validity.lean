import RoutinatorModel.Drv.Main
import RoutinatorModel.Drv.Validity
open RoutinatorModel.Drv

def dispatch (comp arg : String) : String :=
  match comp with
  | "c20" => runC20 arg
  | _ => "bad-component"

def main : IO Unit := mainWith dispatch
