import RoutinatorModel.Drv.Main
import RoutinatorModel.Drv.Config
open RoutinatorModel.Drv

def dispatch (comp arg : String) : String :=
  match comp with
  | "c35" => runC35 arg
  | _ => "bad-component"

def main : IO Unit := mainWith dispatch
