import RoutinatorModel.Drv.Main
import RoutinatorModel.Drv.Store
import RoutinatorModel.Drv.Cleanup
import RoutinatorModel.Drv.FsCrash
open RoutinatorModel.Drv

def dispatch (comp arg : String) : String :=
  match comp with
  | "store" => runStore arg
  | "cleanup" => runCleanup arg
  | "fscrash" => runFsCrash arg
  | _ => "bad-component"

def main : IO Unit := mainWith dispatch
