import RoutinatorModel.Drv.Main
import RoutinatorModel.Drv.Store
import RoutinatorModel.Drv.Cleanup
open RoutinatorModel.Drv

def dispatch (comp arg : String) : String :=
  match comp with
  | "store" => runStore arg
  | "cleanup" => runCleanup arg
  | _ => "bad-component"

def main : IO Unit := mainWith dispatch
