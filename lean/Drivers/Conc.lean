import RoutinatorModel.Drv.Main
import RoutinatorModel.Drv.Once
import RoutinatorModel.Drv.Registry
import RoutinatorModel.Drv.Listener
open RoutinatorModel.Drv

def dispatch (comp arg : String) : String :=
  match comp with
  | "c37" => runC37 arg
  | "c37n" => runC37n arg
  | "c36" => runC36 arg
  | "c36n" => runC36n arg
  | "c19" => runC19 arg
  | _ => "bad-component"

def main : IO Unit := mainWith dispatch
