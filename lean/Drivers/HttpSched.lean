import RoutinatorModel.Drv.Main
import RoutinatorModel.Drv.HttpSched
import RoutinatorModel.Drv.Http304
import RoutinatorModel.Drv.ServerSched
open RoutinatorModel.Drv

def dispatch (comp arg : String) : String :=
  match comp with
  | "c17" => runC17 arg
  | "c16" => C16.runC16 arg
  | "c15" => C15.runC15 arg
  | _ => "bad-component"

def main : IO Unit := mainWith dispatch
