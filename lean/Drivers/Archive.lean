import RoutinatorModel.Drv.Main
import RoutinatorModel.Drv.Archive
open RoutinatorModel.Drv

def dispatch (comp arg : String) : String :=
  match comp with
  | "c26" => runC26 arg
  | _ => "bad-component"

def main : IO Unit := mainWith dispatch
