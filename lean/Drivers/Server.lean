import RoutinatorModel.Drv.Main
import RoutinatorModel.Drv.Server
open RoutinatorModel.Drv

def dispatch (comp arg : String) : String :=
  match comp with
  | "c32" => runC32 arg
  | "c33" => runC33 arg
  | _ => "bad-component"

def main : IO Unit := mainWith dispatch
