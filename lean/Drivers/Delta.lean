import RoutinatorModel.Drv.Main
import RoutinatorModel.Drv.Delta
open RoutinatorModel.Drv

def dispatch (comp arg : String) : String :=
  match comp with
  | "c11" => runC11 arg
  | "c12" => runC12 arg
  | _ => "bad-component"

def main : IO Unit := mainWith dispatch
