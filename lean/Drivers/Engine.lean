import RoutinatorModel.Drv.Main
import RoutinatorModel.Drv.Engine
open RoutinatorModel.Drv

def dispatch (comp arg : String) : String :=
  match comp with
  | "engine" => runEngine arg
  | _ => "bad-component"

def main : IO Unit := mainWith dispatch
