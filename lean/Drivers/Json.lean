import RoutinatorModel.Drv.Main
import RoutinatorModel.Drv.Json
import RoutinatorModel.Drv.Stream
import RoutinatorModel.Drv.Output
open RoutinatorModel.Drv

def dispatch (comp arg : String) : String :=
  match comp with
  | "c22b" => runC22b arg
  | "c22p" => runC22p arg
  | "c18d" => runC18d arg
  | "c18s" => runC18s arg
  | "c21" => runC21 arg
  | "jrec" => runJrec arg
  | "prec" => runPrec arg
  | _ => "bad-component"

def main : IO Unit := mainWith dispatch
