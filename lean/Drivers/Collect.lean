import RoutinatorModel.Drv.Main
import RoutinatorModel.Drv.Collect
open RoutinatorModel.Drv

def dispatch (comp arg : String) : String :=
  match comp with
  | "c30" => runC30 arg
  | "c31" => runC31 arg
  | "c29" => runC29 arg
  | "c38" => runC38 arg
  | _ => "bad-component"

def main : IO Unit := mainWith dispatch
