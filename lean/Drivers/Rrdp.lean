import RoutinatorModel.Drv.Main
import RoutinatorModel.Drv.Rrdp
open RoutinatorModel.Drv

def dispatch (comp arg : String) : String :=
  match comp with
  | "c25" => runC25 arg
  | "c24inv" => runC24Inv arg
  | _ => "bad-component"

def main : IO Unit := mainWith dispatch
