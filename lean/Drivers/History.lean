import RoutinatorModel.Drv.Main
import RoutinatorModel.Drv.History
open RoutinatorModel.Drv

def dispatch (comp arg : String) : String :=
  match comp with
  | "c13" => runHistory arg
  | "c14" => runHistory arg
  | "c34" => runC34 arg
  | _ => "bad-component"

def main : IO Unit := mainWith dispatch
