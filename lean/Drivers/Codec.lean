import RoutinatorModel.Drv.Main
import RoutinatorModel.Drv.Codec
open RoutinatorModel.Drv

def dispatch (comp arg : String) : String :=
  match comp with
  | "c28" => runC28 arg
  | "c28uri" => runC28Uri arg
  | "c28file" => runC28File arg
  | "c27" => runC27 arg
  | "c27open" => runC27Open arg
  | "c27quiet" => runC27Quiet arg
  | "c27status" => runC27Status arg
  | "c27archive" => runC27Archive arg
  | _ => "bad-component"

def main : IO Unit := mainWith dispatch
