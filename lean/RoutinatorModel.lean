-- Root of the `RoutinatorModel` library: every property module.
import RoutinatorModel.Props.C11
import RoutinatorModel.Props.C12
