-- Root of the `RoutinatorModel` library: every property module.
import RoutinatorModel.Props.C11
import RoutinatorModel.Props.C12
import RoutinatorModel.Props.C20
import RoutinatorModel.Props.C32
import RoutinatorModel.Props.C13
import RoutinatorModel.Props.C14
import RoutinatorModel.Props.C34
import RoutinatorModel.Props.C22
import RoutinatorModel.Props.C33
import RoutinatorModel.Props.C09
import RoutinatorModel.Props.C08
import RoutinatorModel.Props.C03
import RoutinatorModel.Props.C18
import RoutinatorModel.Props.C35
