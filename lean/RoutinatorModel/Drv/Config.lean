import RoutinatorModel.Model.Config
import RoutinatorModel.Generated.ConfigKeys
import RoutinatorModel.Drv.Util
/-!
Driver for C35. One request per line:

`c35 cur=<s> path=<s> dir=<s> home=<s> vt=<n> ua=<s> fields=<name,…> canon=<ty~in~out;…|-> file=<-|+key~val;…> args=<-|opt~aval;…>`

* `<s>`: a string as lower-case hex of its UTF-8 bytes, `.` for the empty string;
* `val`: `T`/`F`, `i<int>`, `s<s>`, `a<s>/<s>…` (array of strings, `a` = empty array),
  `p<s>:<s>/…` (array of string pairs), `?` (anything else);
* `aval`: `f` (flag), `n<dec>`, `s<s>`, `c<n>` (flag given n times);
* `canon`: `Display ∘ FromStr` of the Rust type named `ty` on `in` (`!` = parse error).

Reply: `rej:clap` | `rej:file` | `rej:apply` |
`ok eg=<envGood> cfg=<dump> toml=<doc> back=<rej|dump> same=<0|1>`.
-/
namespace RoutinatorModel.Drv
open RoutinatorModel.Config RoutinatorModel.Generated

def fresh : Str := [102, 114, 101, 115, 104]
def cfgFile : Str := [99, 111, 110, 102, 105, 103, 95, 102, 105, 108, 101]

/-- The ids of the documented command-line-only fields (`fresh`, `config_file`). -/
def cliOnlyIds (names : List Str) : List Nat :=
  (List.range names.length).filter (fun i => [fresh, cfgFile].contains (names.getD i []))

/-- The table the driver (and `Props/C35.lean`) works with. -/
def c35Table : Table := { configTable with cliOnly := cliOnlyIds configNames }

/-! ### encoding -/

def hexDigit (c : Char) : Option Nat :=
  if '0' ≤ c ∧ c ≤ '9' then some (c.toNat - 48)
  else if 'a' ≤ c ∧ c ≤ 'f' then some (c.toNat - 87)
  else none

def hexBytes : List Char → Option (List Nat)
  | [] => some []
  | a :: b :: rest => do
    let x ← hexDigit a
    let y ← hexDigit b
    let r ← hexBytes rest
    pure ((x * 16 + y) :: r)
  | _ => none

def parseS (s : String) : Option Str :=
  if s == "." then some [] else if s == "" then none else hexBytes s.toList

def hexChar (n : Nat) : Char := if n < 10 then Char.ofNat (48 + n) else Char.ofNat (87 + n)

def showS (s : Str) : String :=
  if s.isEmpty then "." else String.ofList (s.flatMap (fun b => [hexChar (b / 16), hexChar (b % 16)]))

def bytesOf (s : String) : Str := s.toUTF8.toList.map (·.toNat)

def strLt : Str → Str → Bool
  | [], [] => false
  | [], _ :: _ => true
  | _ :: _, [] => false
  | a :: as, b :: bs => if a < b then true else if b < a then false else strLt as bs

def insertBy {α : Type} (lt : α → α → Bool) (x : α) : List α → List α
  | [] => [x]
  | y :: ys => if lt x y then x :: y :: ys else y :: insertBy lt x ys

def sortBy {α : Type} (lt : α → α → Bool) (l : List α) : List α := l.foldl (fun acc x => insertBy lt x acc) []

def dropPrefix (s : String) (n : Nat) : String := String.ofList (s.toList.drop n)

def parseInt (s : String) : Option Int :=
  match s.toList with
  | '-' :: rest => (String.ofList rest).toNat?.map (fun n => -(n : Int))
  | _ => s.toNat?.map (fun n => (n : Int))

def parsePair (s : String) : Option (Str × Str) :=
  match s.splitOn ":" with
  | [a, b] => do pure ((← parseS a), (← parseS b))
  | _ => none

def parseVal (s : String) : Option Val :=
  match s.toList with
  | ['T'] => some (.bool true)
  | ['F'] => some (.bool false)
  | ['?'] => some .other
  | 'i' :: rest => (parseInt (String.ofList rest)).map .int
  | 's' :: rest => (parseS (String.ofList rest)).map .str
  | ['a'] => some (.strs [])
  | 'a' :: rest => ((String.ofList rest).splitOn "/").mapM parseS |>.map .strs
  | 'p' :: rest => ((String.ofList rest).splitOn "/").mapM parsePair |>.map .pairs
  | _ => none

def showVal : Val → String
  | .bool b => if b then "T" else "F"
  | .int i => "i" ++ toString i
  | .str s => "s" ++ showS s
  | .strs l => "a" ++ joinWith "/" (l.map showS)
  | .pairs l => "p" ++ joinWith "/" ((sortBy (fun a b => strLt a.1 b.1) l).map (fun p => showS p.1 ++ ":" ++ showS p.2))
  | .other => "?"

def showLogKind : LogKind → String
  | .dflt => "d" | .syslog => "y" | .stderr => "e" | .file => "f"

def showOpt {α : Type} (f : α → String) : Option α → String
  | none => "-"
  | some a => f a

def showFVal : FVal → String
  | .bool b => if b then "T" else "F"
  | .nat n => "n" ++ toString n
  | .optNat o => showOpt (fun n => "n" ++ toString n) o
  | .str s => "s" ++ showS s
  | .optStr o => showOpt (fun s => "s" ++ showS s) o
  | .strs l => "a" ++ joinWith "/" (l.map showS)
  | .optStrs o => showOpt (fun l => "a" ++ joinWith "/" (l.map showS)) o
  | .pairs l => "p" ++ joinWith "/" ((sortBy (fun a b => strLt a.1 b.1) l).map (fun p => showS p.1 ++ ":" ++ showS p.2))
  | .log k a => "L" ++ showLogKind k ++ ":" ++ showS a

/-! ### names -/

def indexOf? (names : List Str) (s : Str) : Option Nat :=
  let rec go : List Str → Nat → Option Nat
    | [], _ => none
    | x :: xs, i => if x == s then some i else go xs (i + 1)
  go names 0

/-- The id of a name; names outside the table get fresh ids. -/
def intern (names : List Str) (s : Str) : Nat × List Str :=
  match indexOf? names s with
  | some i => (i, names)
  | none => (names.length, names ++ [s])

def parseDoc (names : List Str) (s : String) : Option (Doc × List Str) :=
  if s == "" then some ([], names) else
  (s.splitOn ";").foldlM (fun (acc : Doc × List Str) ent =>
    match ent.splitOn "~" with
    | [k, v] => do
      let k ← parseS k
      let v ← parseVal v
      let (id, names') := intern acc.2 k
      pure (acc.1 ++ [(id, v)], names')
    | _ => none) ([], names)

def parseAVal (s : String) : Option AVal :=
  match s.toList with
  | ['f'] => some .flag
  | 'n' :: rest => (String.ofList rest).toNat?.map .nat
  | 's' :: rest => (parseS (String.ofList rest)).map .str
  | 'c' :: rest => (String.ofList rest).toNat?.map .count
  | _ => none

def parseArgs (names : List Str) (s : String) : Option (List Arg × List Str) :=
  (s.splitOn ";").foldlM (fun (acc : List Arg × List Str) ent =>
    match ent.splitOn "~" with
    | [o, v] => do
      let o ← parseS o
      let v ← parseAVal v
      let (id, names') := intern acc.2 o
      pure (acc.1 ++ [⟨id, v⟩], names')
    | _ => none) ([], names)

def parseCanon (s : String) : Option (List (Nat × Str × Option Str)) :=
  if s == "-" then some [] else
  (s.splitOn ";").mapM (fun ent =>
    match ent.splitOn "~" with
    | [ty, i, o] => do
      let ty ← parseS ty
      let i ← parseS i
      let o ← if o == "!" then pure none else (parseS o).map some
      let tyId := (indexOf? configTypes ty).getD 1000
      pure (tyId, i, o)
    | _ => none)

def kvs (arg : String) : List (String × String) :=
  (words arg).filterMap (fun w =>
    match w.splitOn "=" with
    | [k, v] => some (k, v)
    | _ => none)

def showDoc (names : List Str) (d : Doc) : String :=
  let ents := d.map (fun kv => (names.getD kv.1 [], kv.2))
  joinWith ";" ((sortBy (fun a b => strLt a.1 b.1) ents).map (fun kv => showS kv.1 ++ "~" ++ showVal kv.2))

def showConfig (t : Table) (names : List Str) (fields : List Str) (c : Config) : String :=
  let vals := (t.rows.zip c).map (fun rv => (names.getD rv.1.field [], rv.2))
  joinWith "," (fields.filterMap (fun f =>
    (vals.find? (fun nv => nv.1 == f)).map (fun nv => String.ofList (f.map Char.ofNat) ++ ":" ++ showFVal nv.2)))

def runC35 (arg : String) : String :=
  let kv := kvs arg
  let get := fun k => (kv.find? (fun p => p.1 == k)).map (·.2)
  let t := c35Table
  match get "cur" >>= parseS, get "path" >>= parseS, get "dir" >>= parseS, get "home" >>= parseS,
        get "vt" >>= String.toNat?, get "ua" >>= parseS, get "fields", get "canon" >>= parseCanon,
        get "file", get "args" with
  | some cur, some path, some dir, some home, some vt, some ua, some fields, some canonTbl,
    some file, some args =>
    let fields := (fields.splitOn ",").map bytesOf
    let names := configNames
    let fileDoc : Option (Option (Doc × List Str)) :=
      if file == "-" then some none
      else match file.toList with
        | '+' :: rest => (parseDoc names (String.ofList rest)).map some
        | _ => none
    match fileDoc with
    | none => "bad-op"
    | some fileDoc =>
      let names := match fileDoc with | some (_, n) => n | none => names
      let argsP : Option (List Arg × List Str) := if args == "-" then some ([], names) else parseArgs names args
      match argsP with
      | none => "bad-op"
      | some (args, _) =>
        let env : Env := {
          canon := fun ty s => ((canonTbl.find? (fun e => e.1 == ty && e.2.1 == s)).map (·.2.2)).getD none
          cur := cur, cfgPath := path, cfgDir := dir
          dyn := fun i =>
            if i == 0 then .str (joinPath home (bytesOf ".routinator.conf"))
            else if i == 1 then .str (joinPath home (bytesOf ".rpki-cache/repository"))
            else if i == 2 then .nat vt
            else .str ua }
        if !clapOk t env args then "rej:clap" else
        let base : Option Config :=
          match fileDoc with
          | none => some (defaultConfig t env)
          | some (d, _) => read t env d
        match base with
        | none => "rej:file"
        | some c0 =>
          match applyArgs t env c0 args with
          | none => "rej:apply"
          | some c1 =>
            let d1 := print t c1
            let back := read t env d1
            let same := back == some (reset t env c1)
            s!"ok eg={showBool (envGood t env)} cfg={showConfig t configNames fields c1} toml={showDoc configNames d1} back={match back with | none => "rej" | some c2 => showConfig t configNames fields c2} same={showBool same}"
  | _, _, _, _, _, _, _, _, _, _ => "bad-op"

end RoutinatorModel.Drv
