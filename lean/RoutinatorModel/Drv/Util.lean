/-! Line-protocol helpers shared by all driver components (no Mathlib). -/
namespace RoutinatorModel.Drv

def splitOn (s : String) (sep : String) : List String := s.splitOn sep

def words (s : String) : List String :=
  (s.splitOn " ").filter (fun w => w ≠ "")

def nats (s : String) : Option (List Nat) :=
  (words s).mapM (fun w => w.toNat?)

def natsD (s : String) : List Nat := (nats s).getD []

def commaNats (s : String) : Option (List Nat) :=
  ((s.splitOn ",").filter (fun w => w ≠ "")).mapM (fun w => w.toNat?)

def joinWith (sep : String) (l : List String) : String := sep.intercalate l

def showNats (l : List Nat) : String := joinWith " " (l.map toString)

def showCommaNats (l : List Nat) : String := joinWith "," (l.map toString)

def showOptNat : Option Nat → String
  | none => "-"
  | some n => toString n

def showBool (b : Bool) : String := if b then "1" else "0"

end RoutinatorModel.Drv
