import RoutinatorModel.Model.JsonBuilder
import RoutinatorModel.Model.JsonRec
import RoutinatorModel.Model.Prom
import RoutinatorModel.Drv.Util
/-!
Driver for the "json" group.

Texts travel as dot-separated decimal code points (`_` = empty text). Large outputs are
compared by length (in code points) and a 64-bit FNV-1a-style checksum over code points.

* `c22b <call tokens>` — `JsonBuilder` call tree: `mo k`, `ma k`, `ms k v`, `mr k v`, `ao`, `aa`,
  `as v`, `ar v`, `e` (end of scope). Reply `len=… h=… wt=… json=…`.
* `c22p <entry tokens>` — Prometheus writer calls: `h pfx name help0 help1 type`,
  `s pfx name value`, `m pfx name value n (labelname labelvalue)*`. Reply `len=… h=… ok=… expo=…`.
* `jrec <text>` / `prec <text>` — run the JSON / exposition recogniser on a text.
-/
namespace RoutinatorModel.Drv
open RoutinatorModel.Json

def parseText (w : String) : Option Text :=
  if w == "_" then some []
  else (w.splitOn ".").mapM (fun x => x.toNat?)

def hashText (s : Text) : UInt64 :=
  s.foldl (fun h c => (h ^^^ UInt64.ofNat c) * 1099511628211) 14695981039346656037

def showSum (s : Text) : String := s!"len={s.length} h={hashText s}"

/-- Parses the calls of one scope up to its `e`; returns the scope and the remaining
words. -/
def parseCalls : Nat → List String → Option (Calls × List String)
  | 0, _ => none
  | _ + 1, [] => none
  | fuel + 1, w :: ws =>
    match w, ws with
    | "e", ws => some (.done, ws)
    | "mo", k :: ws => do
      let k ← parseText k
      let (body, ws) ← parseCalls fuel ws
      let (rest, ws) ← parseCalls fuel ws
      pure (.memberObject k body rest, ws)
    | "ma", k :: ws => do
      let k ← parseText k
      let (body, ws) ← parseCalls fuel ws
      let (rest, ws) ← parseCalls fuel ws
      pure (.memberArray k body rest, ws)
    | "ms", k :: v :: ws => do
      let k ← parseText k
      let v ← parseText v
      let (rest, ws) ← parseCalls fuel ws
      pure (.memberStr k v rest, ws)
    | "mr", k :: v :: ws => do
      let k ← parseText k
      let v ← parseText v
      let (rest, ws) ← parseCalls fuel ws
      pure (.memberRaw k v rest, ws)
    | "ao", ws => do
      let (body, ws) ← parseCalls fuel ws
      let (rest, ws) ← parseCalls fuel ws
      pure (.arrayObject body rest, ws)
    | "aa", ws => do
      let (body, ws) ← parseCalls fuel ws
      let (rest, ws) ← parseCalls fuel ws
      pure (.arrayArray body rest, ws)
    | "as", v :: ws => do
      let v ← parseText v
      let (rest, ws) ← parseCalls fuel ws
      pure (.arrayStr v rest, ws)
    | "ar", v :: ws => do
      let v ← parseText v
      let (rest, ws) ← parseCalls fuel ws
      pure (.arrayRaw v rest, ws)
    | _, _ => none

def runC22b (arg : String) : String :=
  let ws := words arg
  match parseCalls (ws.length + 1) ws with
  | some (body, []) =>
    let text := build body
    s!"{showSum text} wt={showBool (wtB .obj body)} json={showBool (recognise text)}"
  | _ => "bad-op"

open RoutinatorModel.Prom in
def parseEntries : Nat → List String → Option (List Entry)
  | 0, _ => none
  | _ + 1, [] => some []
  | fuel + 1, w :: ws =>
    match w, ws with
    | "h", p :: n :: h0 :: h1 :: t :: ws => do
      let e := Entry.header (← parseText p) (← parseText n) (← parseText h0) (← parseText h1) (← parseText t)
      let rest ← parseEntries fuel ws
      pure (e :: rest)
    | "s", p :: n :: v :: ws => do
      let e := Entry.single (← parseText p) (← parseText n) (← parseText v)
      let rest ← parseEntries fuel ws
      pure (e :: rest)
    | "m", p :: n :: v :: k :: ws => do
      let k ← k.toNat?
      if ws.length < 2 * k then none else
      let lw := ws.take (2 * k)
      let rec pairs : List String → Option (List (Text × Text))
        | a :: b :: r => do
          let a ← parseText a
          let b ← parseText b
          let r ← pairs r
          pure ((a, b) :: r)
        | [] => some []
        | _ => none
      let labels ← pairs lw
      let e := Entry.multi (← parseText p) (← parseText n) labels (← parseText v)
      let rest ← parseEntries fuel (ws.drop (2 * k))
      pure (e :: rest)
    | _, _ => none

open RoutinatorModel.Prom in
def runC22p (arg : String) : String :=
  let ws := words arg
  match parseEntries (ws.length + 1) ws with
  | some es =>
    let text := render es
    s!"{showSum text} ok={showBool (es.all entryOkB)} expo={showBool (isExpositionB text)}"
  | none => "bad-op"

def runJrec (arg : String) : String :=
  match parseText arg.trimAscii.toString with
  | some t => s!"{showSum t} json={showBool (recognise t)}"
  | none => "bad-op"

def runPrec (arg : String) : String :=
  match parseText arg.trimAscii.toString with
  | some t => s!"{showSum t} expo={showBool (Prom.isExpositionB t)}"
  | none => "bad-op"

end RoutinatorModel.Drv
