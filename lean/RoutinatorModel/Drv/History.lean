import RoutinatorModel.Model.History
import RoutinatorModel.Drv.Util
import RoutinatorModel.Drv.Delta
/-!
Driver for C13 / C14 / C34.

`c13 <keep> <session>#<op>;<op>;…` (also registered as `c14`) replays a history script on
the model and prints one result per op, joined by `;`:

* `U o|r|a`        update with a data set              → `u<added> <serial> [<delta serials>]`
* `S n`            hook `verif_seed_serial(n)`          → `s<done> <serial> [<delta serials>]`
* `Q sess serial`  `PayloadSource::diff`               → `q -` | `q <sess> <serial> <delta>`
* `H sess serial`  `GET /json-delta?session=&serial=`  → `h init` | `h reset …` | `h delta …`
* `H -`            `GET /json-delta`

`c34 <now0 ns> <now1 ns> <refresh ns> <min-refresh ns|-> <expiry ns|->`: `mark_update_done` at
`now0`, then `refresh_wait` at `now0` and at `now1` → `<wait at now0 ns> <wait at now1 ns>`.

`c34 seq <t0 ns> <refresh ns> <min-refresh ns|-> (<dur ns> <lag ns> <expiry ns|->)*`: a sequence of
successful regular runs of the server loop → `<waits> | <run starts>` (`schedWaits`, `schedStarts`).
-/
namespace RoutinatorModel.Drv
open RoutinatorModel

def showSerials (h : History) : String :=
  "[" ++ showCommaNats (h.deltas.map (·.serial)) ++ "]"

def showSnapshot (s : Snapshot) : String :=
  "O=" ++ showNats s.origins ++ "|R=" ++ showNats s.routerKeys ++ "|A=" ++
    joinWith " " (s.aspas.map fun (c, ps) => toString c ++ ":" ++ showCommaNats ps)

def showActions (d : PayloadDelta) : String :=
  s!"O={showStd d.origins}|R={showStd d.routerKeys}|A={showAspaItems d.aspas}"

def serialOk (n : Nat) : Bool := n < serialMod

/-- One op; `none` = unparsable. -/
def histOp (h : History) (op : String) : Option (History × String) :=
  let op := op.trimAscii.toString
  if op.startsWith "U " then
    match parseSnap3 (op.drop 2).toString with
    | some s =>
      let (h', added) := h.update s
      some (h', s!"u{showBool added} {h'.serial} {showSerials h'}")
    | none => none
  else if op.startsWith "S " then
    match (op.drop 2).toString.trimAscii.toString.toNat? with
    | some x =>
      if serialOk x then
        let (h', done) := h.seed x
        some (h', s!"s{showBool done} {h'.serial} {showSerials h'}")
      else none
    | none => none
  else if op.startsWith "Q " then
    match nats (op.drop 2).toString with
    | some [sess, c] =>
      if serialOk c && sess < 65536 then
        match h.rtrDiff sess c with
        | none => some (h, "q -")
        | some (rs, ser, d) => some (h, s!"q {rs} {ser} {showDelta d}")
      else none
    | _ => none
  else if op == "H -" then
    match h.httpDelta none with
    | .initial => some (h, "h init")
    | .reset sess ser data => some (h, s!"h reset {sess} {ser} {showSnapshot data}")
    | .delta sess f t d => some (h, s!"h delta {sess} {f} {t} {showActions d}")
  else if op.startsWith "H " then
    match nats (op.drop 2).toString with
    | some [sess, c] =>
      if serialOk c && sess < 18446744073709551616 then
        match h.httpDelta (some (sess, c)) with
        | .initial => some (h, "h init")
        | .reset sess ser data => some (h, s!"h reset {sess} {ser} {showSnapshot data}")
        | .delta sess f t d => some (h, s!"h delta {sess} {f} {t} {showActions d}")
      else none
    | _ => none
  else none

def histOps : History → List String → List String → Option (List String)
  | _, [], acc => some acc.reverse
  | h, op :: ops, acc =>
    match histOp h op with
    | some (h', out) => histOps h' ops (out :: acc)
    | none => none

def runHistory (arg : String) : String :=
  match arg.splitOn "#" with
  | [hdr, script] =>
    match nats hdr with
    | some [keep, session] =>
      let ops := (script.splitOn ";").filter (fun o => o.trimAscii.toString ≠ "")
      match histOps (History.init keep session) ops [] with
      | some outs => joinWith ";" outs
      | none => "bad-op"
    | _ => "bad-op"
  | _ => "bad-op"

def optNat (w : String) : Option (Option Nat) :=
  if w == "-" then some none else w.toNat?.map some

/-- `d l e d l e …` → runs; `none` on a malformed word or a dangling tail. -/
def parseRuns : List String → Option (List SchedRun)
  | [] => some []
  | d :: l :: e :: rest =>
    match d.toNat?, l.toNat?, optNat e, parseRuns rest with
    | some d, some l, some e, some rs => some (⟨d, l, e⟩ :: rs)
    | _, _, _, _ => none
  | _ => none

def runC34 (arg : String) : String :=
  match words arg with
  | "seq" :: t0 :: r :: m :: runs =>
    match t0.toNat?, r.toNat?, optNat m, parseRuns runs with
    | some t0, some refresh, some minR, some runs =>
      joinWith " " ((schedWaits refresh minR t0 runs).map toString) ++ " | " ++
        joinWith " " ((schedStarts refresh minR t0 runs).map toString)
    | _, _, _, _ => "bad-op"
  | [n0, n1, r, m, e] =>
    match n0.toNat?, n1.toNat?, r.toNat?, optNat m, optNat e with
    | some now0, some now1, some refresh, some minR, some expiry =>
      let next := nextUpdateStart now0 refresh expiry
      s!"{refreshWait next now0 refresh minR} {refreshWait next now1 refresh minR}"
    | _, _, _, _, _ => "bad-op"
  | _ => "bad-op"

end RoutinatorModel.Drv
