import RoutinatorModel.Model.Records
import RoutinatorModel.Model.ArchiveRead
import RoutinatorModel.Generated.RecordLayouts
import RoutinatorModel.Drv.Util
/-!
Driver for the codec group (C27, C28). Requests (no spaces inside the argument):

* `c28 <rec>|<field>=<value>;…|<trailing hex>` — encode the record with the extracted *write*
  layout, append the trailing bytes, decode with the extracted *read* layout.
  Reply `enc=<hex> dec=<outcome>`.
* `c28uri <hex>` — the two URI validators. Reply `rsync=<0|1> https=<0|1>`.
* `c28file <hex>` — a whole stored-point file: header, manifest, objects to EOF.
* `c27 <rec>|<maxalloc>|<hex>` — decode arbitrary bytes as the record; `maxalloc` is the largest
  single allocation the real decoder was observed to make. Reply `<outcome> within=<0|1>` where
  `within` says whether that observation is covered by the model's allocation requests.
* `c27open <maxalloc>|<hex>` / `c27quiet …` / `c27status …` — file-level outcome classes.

Values: integers decimal; byte strings hex (`.` = empty); `~` = None; times `secs.nanos`;
maps `key:hex,key:hex` (`.` = empty); update status `S<time>` / `A<time>`.
-/
namespace RoutinatorModel.Drv
open RoutinatorModel.Codec

def hexDigit (n : Nat) : Char := if n < 10 then Char.ofNat (48 + n) else Char.ofNat (87 + n)

def showHex (b : Bytes) : String :=
  if b.isEmpty then "." else
  String.ofList (b.foldr (fun x acc => hexDigit (x.toNat / 16) :: hexDigit (x.toNat % 16) :: acc) [])

def hexVal (ch : Char) : Option Nat :=
  let n := ch.toNat
  if 48 ≤ n && n ≤ 57 then some (n - 48)
  else if 97 ≤ n && n ≤ 102 then some (n - 87)
  else none

def parseHexList : List Char → Option Bytes
  | [] => some []
  | a :: b :: rest => do
    let x ← hexVal a
    let y ← hexVal b
    let r ← parseHexList rest
    pure (UInt8.ofNat (x * 16 + y) :: r)
  | _ => none

def parseHex (s : String) : Option Bytes :=
  if s == "." then some [] else if s.isEmpty then none else parseHexList s.toList

def parseOpt {α : Type} (f : String → Option α) (s : String) : Option (Option α) :=
  if s == "~" then some none else (f s).map some

def parseTime (s : String) : Option (Int × Nat) :=
  match s.splitOn "." with
  | [a, b] => do pure (← a.toInt?, ← b.toNat?)
  | _ => none

def parsePair (s : String) : Option (Nat × Bytes) :=
  match s.splitOn ":" with
  | [k, h] => do pure (← k.toNat?, ← parseHex h)
  | _ => none

def parseVal (ty : FT) (s : String) : Option Val :=
  match ty with
  | .u8 | .u32 | .u64 => s.toNat?.map .n
  | .i64 => s.toInt?.map .i
  | .optI64 => (parseOpt String.toInt? s).map .oi
  | .rsync | .https | .bytes | .uuid | .hash | .serial => (parseHex s).map .b
  | .optHttps | .optBytes | .optMftHash => (parseOpt parseHex s).map .ob
  | .time => (parseTime s).map (fun p => .t p.1 p.2)
  | .optTime => (parseOpt parseTime s).map .ot
  | .mapU64Hash => if s == "." then some (.m []) else ((s.splitOn ",").mapM parsePair).map .m
  | .updStatus =>
    match s.toList with
    | 'S' :: rest => (parseTime (String.ofList rest)).map (fun p => .st true p.1 p.2)
    | 'A' :: rest => (parseTime (String.ofList rest)).map (fun p => .st false p.1 p.2)
    | _ => none

def showTime (secs : Int) (nanos : Nat) : String := s!"{secs}.{nanos}"

def showVal : Val → String
  | .n v => toString v
  | .i v => toString v
  | .oi none => "~"
  | .oi (some v) => toString v
  | .b v => showHex v
  | .ob none => "~"
  | .ob (some v) => showHex v
  | .t s n => showTime s n
  | .ot none => "~"
  | .ot (some (s, n)) => showTime s n
  | .m l =>
    -- a decoded map has no order on the Rust side: shown sorted by key
    let l := l.mergeSort (fun a b => a.1 ≤ b.1)
    if l.isEmpty then "." else joinWith "," (l.map fun (k, h) => s!"{k}:{showHex h}")
  | .st true s n => "S" ++ showTime s n
  | .st false s n => "A" ++ showTime s n

/-- Fields sorted by name (the harness prints them the same way, whatever the source order). -/
def showRecord (r : Record) : String :=
  let r := r.mergeSort (fun a b => !(b.1 < a.1))
  joinWith ";" (r.map fun (n, v) => n ++ "=" ++ showVal v)

def fieldType : List Item → String → Option FT
  | [], _ => none
  | .const _ :: rest, n => fieldType rest n
  | .field n' ty :: rest, n => if n' == n then some ty else fieldType rest n

def parseField (L : RecLayout) (s : String) : Option (String × Val) :=
  match s.splitOn "=" with
  | [n, v] => do
    let ty ← (fieldType L.read n).orElse (fun _ => fieldType L.write n)
    pure (n, ← parseVal ty v)
  | _ => none

def parseRecord (L : RecLayout) (s : String) : Option Record :=
  if s.isEmpty then some [] else (s.splitOn ";").mapM (parseField L)

def layoutOf (name : String) : Option RecLayout :=
  match name with
  | "header" => some Generated.storedPointHeader
  | "manifest" => some Generated.storedManifest
  | "object" => some Generated.storedObject
  | "status" => some Generated.storedStatus
  | "state" => some Generated.repositoryState
  | _ => none

def showErr : DErr → String
  | .eof => "eof"
  | .format => "format"

def showRecRes (res : Except DErr (Record × Bytes)) : String :=
  match res with
  | .error e => "err " ++ showErr e
  | .ok (r, rest) => s!"ok {showRecord r} rest={showHex rest}"

def showObjRes (res : Except DErr (Option Record × Bytes)) : String :=
  match res with
  | .error e => "err " ++ showErr e
  | .ok (none, _) => "ok none"
  | .ok (some r, rest) => s!"ok some {showRecord r} rest={showHex rest}"

def P : Params := Generated.params

def decodeShow (kind : String) (L : RecLayout) (bytes : Bytes) : String × List Nat :=
  if kind == "object" then
    let o := decodeObjOpt P L bytes
    (showObjRes o.res, o.allocs)
  else
    let o := decodeRec P L bytes
    (showRecRes o.res, o.allocs)

def runC28 (arg : String) : String :=
  match arg.splitOn "|" with
  | [kind, fields, trail] =>
    match layoutOf kind, parseHex trail with
    | some L, some trail =>
      match parseRecord L fields with
      | some r =>
        match encodeRec P L r with
        | none => "enc=none"
        | some bs => s!"enc={showHex bs} dec={(decodeShow kind L (bs ++ trail)).1}"
      | none => "bad-op"
    | _, _ => "bad-op"
  | _ => "bad-op"

def runC28Uri (arg : String) : String :=
  match parseHex arg with
  | some u => s!"rsync={showBool (validRsync u)} https={showBool (validHttps u)}"
  | none => "bad-op"

def runC28File (arg : String) : String :=
  match parseHex arg with
  | some file =>
    match decodePointFile P Generated.pointLayouts file with
    | .error e => "err " ++ showErr e
    | .ok (h, m, objs) =>
      s!"ok H[{showRecord h}] M[{showRecord m}] n={objs.length}" ++
        String.join (objs.map fun o => s!" O[{showRecord o}]")
  | none => "bad-op"

/-- The largest observed allocation is explained by the model: it is at most the largest
modelled request plus a fixed slack for what the model does not track (boxed error values and
their messages, the decoded value itself being moved into `Bytes`/`Arc`s). -/
def allocSlack : Nat := 1024

def within (observed : Nat) (allocs : List Nat) : Bool :=
  decide (observed ≤ allocs.foldl max 0 + allocSlack)

def runC27 (arg : String) : String :=
  match arg.splitOn "|" with
  | [kind, obs, hex] =>
    match layoutOf kind, obs.toNat?, parseHex hex with
    | some L, some obs, some bytes =>
      let (shown, allocs) := decodeShow kind L bytes
      s!"{shown} within={showBool (within obs allocs)}"
    | _, _, _ => "bad-op"
  | _ => "bad-op"

/-- Iterating the objects behind the manifest: how many are read and how the iteration ends
(`end` = `Ok(None)`, otherwise the error class of the first failing read). -/
def countObjects : Nat → Bytes → Nat → Nat × String
  | 0, _, n => (n, "endless")
  | fuel+1, s, n =>
    match (decodeObjOpt P Generated.storedObject s).res with
    | .error e => (n, showErr e)
    | .ok (none, _) => (n, "end")
    | .ok (some _, s') => countObjects fuel s' (n + 1)

def showObjects (rest : Bytes) : String :=
  let (n, how) := countObjects (rest.length + 1) rest 0
  s!"objects={n} end={how}"

/-- `StoredPoint::open` stamps a `LastAttempt` header with the current time. -/
def restamp (h : Record) (now : Int) : Record :=
  h.map fun (n, v) => if n == "update_status" then (n, Val.st false now 0) else (n, v)

def showOpen (now : Int) : OpenOutcome → String
  | .loaded h m ob => s!"loaded H[{showRecord h}] M[{showRecord m}] {showObjects ob}"
  | .attempt h => s!"attempt H[{showRecord (restamp h now)}] M[~]"
  | .recreated => "recreated"
  | .failed => "failed"

def runC27Open (arg : String) : String :=
  match arg.splitOn "|" with
  | [obs, now, hex] =>
    match obs.toNat?, now.toInt?, parseHex hex with
    | some _, some now, some file => showOpen now (openPoint P Generated.pointLayouts file).1
    | _, _, _ => "bad-op"
  | _ => "bad-op"

def runC27Quiet (arg : String) : String :=
  match arg.splitOn "|" with
  | [obs, now, hex] =>
    match obs.toNat?, now.toInt?, parseHex hex with
    | some _, some _, some file =>
      match (loadQuietly P Generated.pointLayouts file).1 with
      | none => "none"
      | some (h, none, rest) => s!"some H[{showRecord h}] M[~] {showObjects rest}"
      | some (h, some m, rest) => s!"some H[{showRecord h}] M[{showRecord m}] {showObjects rest}"
    | _, _, _ => "bad-op"
  | _ => "bad-op"

def runC27Status (arg : String) : String :=
  match arg.splitOn "|" with
  | [obs, now, hex] =>
    match obs.toNat?, now.toInt?, parseHex hex with
    | some _, some _, some file =>
      match (readStatus P Generated.storedStatus Generated.statusUnreadableIsNone file).1 with
      | .failed => "failed"
      | .missing => "missing"
      | .ok r => s!"ok {showRecord r}"
    | _, _, _ => "bad-op"
  | _ => "bad-op"

/-! ## Archives (C27) -/

/-- `<len>:<offset>=<hex>,…` — everything else is zero. -/
def parseSparse (s : String) : Option ByteArray :=
  match s.splitOn ":" with
  | [len, chunks] => do
    let len ← len.toNat?
    if len > 67108864 then none
    let base := ByteArray.mk (Array.replicate len 0)
    if chunks.isEmpty then pure base else
    (chunks.splitOn ",").foldlM (fun (acc : ByteArray) (c : String) =>
      match c.splitOn "=" with
      | [off, hex] => do
        let off ← off.toNat?
        let bytes ← parseHex hex
        if off + bytes.length > len then none
        pure ((ByteArray.mk bytes.toArray).copySlice 0 acc off bytes.length)
      | _ => none) base
  | _ => none

def AP : ArchiveParams := Generated.archiveParams

def showAErr : AErr → String
  | .io => "io"
  | .corrupt => "corrupt"
  | .panic => "panic"
  | .hang => "hang"

/-- `archive_err`: a corrupt archive is deleted and the run retried; an I/O error is fatal. -/
def showRunFailed (deletes : Bool) : AErr → String
  | .io => "fatal"
  | .corrupt => if deletes then "retry deleted" else "retry"
  | .panic => "panic"
  | .hang => "hang"

def showOpenErr (e : AErr) : String := "open-" ++ showRunFailed true e

def archVerify (file : ByteArray) : String :=
  match openArchive AP file with
  | .error e => showAErr e
  | .ok a =>
    match verify AP a with
    | .error e => showAErr e
    | .ok (n, m) => s!"ok objects={n} empties={m}"

def valNat : Option Val → String
  | some (.n v) => toString v
  | _ => "?"

def valMapLen : Option Val → String
  | some (.m l) => toString l.length
  | _ => "?"

def archState (file : ByteArray) : String :=
  match openArchive AP file with
  | .error e => showOpenErr e
  | .ok a =>
    match loadState AP P Generated.repositoryState a with
    | .error e => showRunFailed true e
    | .ok r => s!"ok serial={valNat (r.lookup "serial")} deltas={valMapLen (r.lookup "delta_state")}"

def archObjects (file : ByteArray) : String :=
  match openArchive AP file with
  | .error e => showOpenErr e
  | .ok a =>
    match getIndex a 0 with
    | .error e => showRunFailed false e
    | .ok _ =>
      match objects AP a with
      | (.error e, n) => s!"{showRunFailed false e} after={n}"
      | (.ok (n, bytes), _) => s!"ok n={n} bytes={bytes}"

def archLoad (file : ByteArray) (probe : Bytes) : String :=
  match openArchive AP file with
  | .error e => showOpenErr e
  | .ok a =>
    match fetch AP a probe with
    | .error e => showRunFailed true e
    | .ok none => "none"
    | .ok (some d) => s!"some len={d.length}"

def runC27Archive (arg : String) : String :=
  match arg.splitOn "|" with
  | [probe, sparse] =>
    match parseHex probe, parseSparse sparse with
    | some probe, some file =>
      let base := s!"verify=[{archVerify file}] state=[{archState file}] objects=[{archObjects file}]"
      if validRsync probe then base ++ s!" load=[{archLoad file probe}]" else base
    | _, _ => "bad-op"
  | _ => "bad-op"

end RoutinatorModel.Drv
