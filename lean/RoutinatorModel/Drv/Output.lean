import RoutinatorModel.Model.Output
import RoutinatorModel.Drv.Json
import RoutinatorModel.Drv.Stream
/-!
Driver for C21: `c21 FMT FLAGS MORE SEL GEN TIME | origins | keys | aspas`.

* FMT: `csv csvcompat csvext json jsonext slurm slurm2 openbgpd bird1 bird2 rpsl summary none`,
  FLAGS: three `0`/`1` (route origins, router keys, ASPAs enabled), MORE: `0`/`1`,
  SEL: `-` or comma-separated `a<asn>` / `p<4|6>:<bits>:<len>`.
* items are separated by `;`, fields by blanks; optional fields are `-` when absent; free text
  (TAL names, comments, paths, URIs) is dot-separated code points (`_` = empty); infos are
  comma-separated `P~uri~tal~nb~na~cnb~cna~stale` / `E~path~comment`.

Reply: `listed=o:<indices>;k:<indices>;a:<indices>` and, for the JSON formats,
`len=… h=… ok=… json=…` of the rendered document.
-/
namespace RoutinatorModel.Drv
open RoutinatorModel.Json RoutinatorModel.Output

def parseFormat : String → Option Format
  | "csv" => some .csv | "csvcompat" => some .csvcompat | "csvext" => some .csvext
  | "json" => some .json | "jsonext" => some .jsonext | "slurm" => some .slurm
  | "slurm2" => some .slurm2 | "openbgpd" => some .openbgpd | "bird1" => some .bird1
  | "bird2" => some .bird2 | "rpsl" => some .rpsl | "summary" => some .summary
  | "none" => some .none | _ => none

def parseBit : String → Option Bool
  | "0" => some false | "1" => some true | _ => none

def parseOptText (w : String) : Option (Option Text) :=
  if w == "-" then some none else (parseText w).map some

def parseOptAscii (w : String) : Option Text := if w == "-" then none else some (asciiText w)

def parseSel (w : String) : Option Sel :=
  if w.startsWith "a" then (w.drop 1).toString.toNat?.map Sel.asn
  else if w.startsWith "p" then
    match (w.drop 1).toString.splitOn ":" with
    | [fam, bits, len] => do
      let bits ← bits.toNat?
      let len ← len.toNat?
      if fam == "4" then pure (Sel.prefix ⟨true, bits, len⟩)
      else if fam == "6" then pure (Sel.prefix ⟨false, bits, len⟩) else none
    | _ => none
  else none

def parseSelection (w : String) : Option (Option (List Sel)) :=
  if w == "-" then some none else ((w.splitOn ",").mapM parseSel).map some

def parseInfo (w : String) : Option Info :=
  match w.splitOn "~" with
  | ["P", uri, tal, nb, na, cnb, cna, stale] => do
    let uri ← parseOptText uri
    let tal ← parseText tal
    pure (.pub uri tal (asciiText nb) (asciiText na) (asciiText cnb) (asciiText cna) (asciiText stale))
  | ["E", path, comment] => do
    let path ← parseOptText path
    let comment ← parseOptText comment
    pure (.exc path comment)
  | _ => none

def parseInfos (w : String) : Option (List Info) :=
  if w == "-" then some [] else (w.splitOn ",").mapM parseInfo

def parseList (w : String) : List Text := if w == "-" then [] else (w.splitOn ",").map asciiText

def parseOrigin (s : String) : Option OriginI :=
  match words s with
  | [asn, fam, bits, len, asnT, asnNumT, addrT, lenT, maxT, maxLenT, ta, infos] => do
    let asn ← asn.toNat?
    let bits ← bits.toNat?
    let len ← len.toNat?
    let v4 ← if fam == "4" then some true else if fam == "6" then some false else none
    let ta ← parseOptText ta
    let infos ← parseInfos infos
    pure ⟨asn, ⟨v4, bits, len⟩, asciiText asnT, asciiText asnNumT, asciiText addrT, asciiText lenT,
      asciiText maxT, parseOptAscii maxLenT, ta, infos⟩
  | _ => none

def parseKey (s : String) : Option KeyI :=
  match words s with
  | [asn, asnT, asnNumT, skiHex, infoB64, skiSlurm, infoSlurm, ta, infos] => do
    let asn ← asn.toNat?
    let ta ← parseOptText ta
    let infos ← parseInfos infos
    pure ⟨asn, asciiText asnT, asciiText asnNumT, asciiText skiHex, asciiText infoB64,
      asciiText skiSlurm, asciiText infoSlurm, ta, infos⟩
  | _ => none

def parseAspa (s : String) : Option AspaI :=
  match words s with
  | [cust, custT, custNumT, provT, provNumT, ta, infos] => do
    let cust ← cust.toNat?
    let ta ← parseOptText ta
    let infos ← parseInfos infos
    pure ⟨cust, asciiText custT, asciiText custNumT, parseList provT, parseList provNumT, ta, infos⟩
  | _ => none

def parseItems' {α : Type} (p : String → Option α) (s : String) : Option (List α) :=
  if (words s).isEmpty then some [] else (s.splitOn ";").mapM p

def indexOf {α : Type} [DecidableEq α] (l : List α) (x : α) : Nat := l.idxOf x

def showListed (d : Data) (l : List Item) : String :=
  let os := l.filterMap fun | .o x => some (indexOf d.origins x) | _ => none
  let ks := l.filterMap fun | .k x => some (indexOf d.keys x) | _ => none
  let as := l.filterMap fun | .a x => some (indexOf d.aspas x) | _ => none
  s!"listed=o:{showCommaNats os};k:{showCommaNats ks};a:{showCommaNats as}"

def runC21 (arg : String) : String :=
  match arg.splitOn "|" with
  | [head, os, ks, as] =>
    match words head with
    | [fmt, flags, more, sel, gen, time] =>
      match parseFormat fmt, flags.toList.map (fun c => parseBit c.toString), parseBit more,
          parseSelection sel, parseItems' parseOrigin os, parseItems' parseKey ks,
          parseItems' parseAspa as with
      | some fmt, [some ro, some rk, some ra], some more, some sel, some os, some ks, some as =>
        let d : Data := ⟨asciiText gen, asciiText time, os, ks, as⟩
        let out : Output := ⟨sel, more, ro, rk, ra⟩
        let l := showListed d (listed fmt out d)
        if fmt.isJson then
          let text := render fmt out d
          s!"{l} {showSum text} ok={showBool d.okB} json={showBool (recognise text)}"
        else l
      | _, _, _, _, _, _, _ => "bad-op"
    | _ => "bad-op"
  | _ => "bad-op"

end RoutinatorModel.Drv
