import RoutinatorModel.Model.Rrdp
import RoutinatorModel.Drv.Util
/-! Driver for C25 (and the model part of C24):
`c25 <maxDeltaCount> <maxListLen> <now> <draw>|<local>|<nresp>|<files>` → `<result>|<local'>|<trace>`. -/
namespace RoutinatorModel.Drv
open RoutinatorModel.Rrdp

def optNat (s : String) : Option (Option Nat) :=
  if s == "-" then some none else s.toNat?.map some

def showOpt : Option Nat → String
  | none => "-"
  | some n => toString n

def parsePairs (s : String) (sep : String) : Option (List (Nat × Nat)) :=
  if s == "-" then some [] else
  (s.splitOn ",").mapM fun item =>
    match item.splitOn sep with
    | [a, b] => do pure ((← a.toNat?), (← b.toNat?))
    | _ => none

def parseLocal (s : String) : Option (Option Local) :=
  if s == "none" then some none else
  match s.splitOn ";" with
  | [objs, session, serial, etag, lm, upd, bb, ds] => do
    let objs ← parsePairs objs ":"
    let st : RState := {
      session := (← session.toNat?), serial := (← serial.toNat?),
      etag := (← optNat etag), lm := (← optNat lm),
      updated := (← upd.toNat?), bestBefore := (← bb.toNat?),
      deltaState := (← parsePairs ds ":") }
    pure (some { objs := objs, state := st })
  | _ => none

def parseEntry (s : String) : Option DeltaEntry :=
  match s.splitOn ":" with
  | [serial, file, hash, foreign] => do
    pure { serial := (← serial.toNat?), file := (← file.toNat?), hash := (← hash.toNat?),
           foreign := (← foreign.toNat?) != 0 }
  | _ => none

def parseEntries (s : String) : Option (List DeltaEntry) :=
  if s == "-" then some [] else (s.splitOn ",").mapM parseEntry

def parseBool (s : String) : Option Bool := s.toNat?.map (· != 0)

def parseNResp (s : String) : Option NResp :=
  match s.splitOn ";" with
  | ["fail"] => some .fail
  | ["force304"] => some .force304
  | ["bad", etag, lm, cond] => do
    pure (.ok (← optNat etag) (← optNat lm) (← parseBool cond) none)
  | ["ok", etag, lm, cond, session, serial, originOk, snap, deltas] => do
    let (sf, sh) ← match snap.splitOn ":" with
      | [a, b] => do pure ((← a.toNat?), (← b.toNat?))
      | _ => none
    let n : Notif := {
      session := (← session.toNat?), serial := (← serial.toNat?),
      snapOriginOk := (← parseBool originOk), snapFile := sf, snapHash := sh,
      deltas := (← parseEntries deltas) }
    pure (.ok (← optNat etag) (← optNat lm) (← parseBool cond) (some n))
  | _ => none

def parseElem (s : String) : Option Elem :=
  match s.splitOn "." with
  | ["p", u, c] => do pure (.publish (← u.toNat?) (← c.toNat?))
  | ["u", u, h, c] => do pure (.update (← u.toNat?) (← h.toNat?) (← c.toNat?))
  | ["w", u, h] => do pure (.withdraw (← u.toNat?) (← h.toNat?))
  | _ => none

def parseElems (s : String) : Option (List Elem) :=
  if s == "-" then some [] else (s.splitOn ",").mapM parseElem

def parseFile (s : String) : Option (Option Doc) :=
  if s == "fail" then some none else
  match s.splitOn ";" with
  | [kind, hash, session, serial, endOk, elems] => do
    let isSnap ← (if kind == "S" then some true else if kind == "D" then some false else none)
    pure (some { isSnapshot := isSnap, hash := (← hash.toNat?), session := (← session.toNat?),
                 serial := (← serial.toNat?), endOk := (← parseBool endOk),
                 elems := (← parseElems elems) })
  | _ => none

def parseFiles (s : String) : Option Files :=
  if s == "-" then some [] else (s.splitOn "#").mapM parseFile

def insertObj (p : Nat × Nat) : List (Nat × Nat) → List (Nat × Nat)
  | [] => [p]
  | x :: r => if p.1 < x.1 then p :: x :: r else x :: insertObj p r

def sortObjs (l : List (Nat × Nat)) : List (Nat × Nat) := l.foldr insertObj []

def showPairs (l : List (Nat × Nat)) : String :=
  if l.isEmpty then "-" else joinWith "," (l.map fun (a, b) => s!"{a}:{b}")

def showLocal : Option Local → String
  | none => "none"
  | some l =>
    let st := l.state
    s!"{showPairs (sortObjs l.objs)};{st.session};{st.serial};{showOpt st.etag};{showOpt st.lm};{st.updated};{st.bestBefore};{showPairs st.deltaState}"

def showResult : Result → String
  | .updated => "updated"
  | .current => "current"
  | .stale => "stale"
  | .unavailable => "unavailable"
  | .runRetry => "run-retry"

def runC25 (arg : String) : String :=
  match arg.splitOn "|" with
  | [head, loc, nresp, files] =>
    match nats head, parseLocal loc, parseNResp nresp, parseFiles files with
    | some [mc, ml, now, draw], some loc, some nresp, some files =>
      let cfg : Cfg := { maxDeltaCount := mc, maxListLen := ml, gapCheck := true }
      let out := update cfg now draw loc nresp files
      let trace := s!"n[{showOpt out.inm}/{showOpt out.ims}]" :: out.fetched.map (fun i => s!"f{i}")
      s!"{showResult out.result}|{showLocal out.loc}|{joinWith "," trace}"
    | _, _, _, _ => "bad-op"
  | _ => "bad-op"

/-- `c24inv <touched>|<viaSnapshot>|<pre>|<done>|<observed>` → `ok` / `broken`. -/
def runC24Inv (arg : String) : String :=
  match arg.splitOn "|" with
  | [touched, via, pre, done, obs] =>
    let touched := if touched.trimAscii.toString == "-" then some [] else commaNats touched
    match touched, parseBool via, parseLocal pre, parseLocal done, parseLocal obs with
    | some t, some v, some pre, some done, some obs =>
      if crashInvOk t v pre done obs then "ok" else "broken"
    | _, _, _, _, _ => "bad-op"
  | _ => "bad-op"

end RoutinatorModel.Drv
