import RoutinatorModel.Model.Store
import RoutinatorModel.Drv.Engine
/-! Driver for the file-level store model: `store ( <engine request> ( <extras>* ) )`.

`<engine request>` is the request of the `engine` component (see
`harness/rpkitest/src/model.rs`); `<extras>`, one per run, is a list of `( uri kind )` applied
to the store before the run: kind `0` overwrites the point's file with bytes that are not a
stored point, kind `1` removes the file.

Reply, per run (runs joined by ` | `):
`i=<items> f=<uri>:A<t> ; <uri>:G ; <uri>:S<t>:<mft>:<number>:<thisUpdate>:<notAfter>:<name/hash,…> t=<uri:id;…> x=<0|1>`
with the stored objects in file order; `x=1` iff the shared engine model (`Engine.runFull`)
gives the same payload and the same stored versions as the projection of the file-level
model. -/
namespace RoutinatorModel.Drv
open RoutinatorModel.Engine RoutinatorModel.StoreFile

namespace StoreDrv
open EngineDrv

structure Extra where
  uri : Uri
  kind : Nat

def extra? : Sexp → Option Extra
  | .list [uri, kind] => do pure ⟨← uri.nat?, ← kind.nat?⟩
  | _ => none

def extras? (s : Sexp) : Option (List Extra) := do (← s.list?).mapM extra?

def showFile (p : Uri × PointFile) : String :=
  match p.2 with
  | .absent => s!"{p.1}:-"
  | .garbage => s!"{p.1}:G"
  | .attempt t => s!"{p.1}:A{t}"
  | .success t s =>
    s!"{p.1}:S{t}:{s.mft.id}:{s.number}:{s.thisUpdate}:{s.notAfter}:" ++
      joinWith "," (s.objects.map fun o => s!"{o.name}/{o.file.hash}")

def showRunF (out : List Item × FStore) (agree : Bool) : String :=
  let files := sortBy (fun (p : Uri × PointFile) => p.1) out.2.files
  let tas := sortBy (fun (p : Uri × TaFile) => p.1) out.2.tas
  "i=" ++ joinWith "," ((sortDedup out.1).map toString) ++
  " f=" ++ joinWith ";" (files.map showFile) ++
  " t=" ++ joinWith ";" (tas.map fun p => s!"{p.1}:{p.2.id}") ++
  " x=" ++ (if agree then "1" else "0")

def applyTamperF (s : FStore) (t : Tamper) : FStore :=
  match s.file t.uri with
  | .success time st =>
    s.setFile t.uri (.success time { st with number := t.number, thisUpdate := t.thisUpdate })
  | _ => s

def applyExtraF (s : FStore) (e : Extra) : Option FStore :=
  match e.kind with
  | 0 => some (s.setFile e.uri .garbage)
  | 1 => some { s with files := s.files.filter (fun p => p.1 != e.uri) }
  | _ => none

def applyExtra (s : Store) (e : Extra) : Store := s.setPoint e.uri none

/-- The stored versions of the file-level store, sorted by URI. -/
def projection (s : FStore) : List (Uri × Stored) :=
  sortBy (fun (p : Uri × Stored) => p.1)
    (s.files.filterMap fun p => p.2.stored.map fun st => (p.1, st))

def agrees (e : List Item × Store) (f : List Item × FStore) : Bool :=
  sortDedup e.1 == sortDedup f.1
    && sortBy (fun (p : Uri × Stored) => p.1) e.2.points == projection f.2
    && sortBy (fun (p : Uri × TaFile) => p.1) e.2.tas
        == sortBy (fun (p : Uri × TaFile) => p.1) f.2.tas

def runAllF (cfg : Cfg) (tals : List Tal) :
    List (RunReq × List Extra) → Store → FStore → Option (List String)
  | [], _, _ => some []
  | (r, extras) :: rest, store, fstore => do
    let store := r.tampers.foldl applyTamper store
    let store := extras.foldl applyExtra store
    let fstore := r.tampers.foldl applyTamperF fstore
    let fstore ← extras.foldlM applyExtraF fstore
    let eout := runFull true cfg tals r.run store
    let fout := runFullF cfg tals r.run fstore
    let tail ← runAllF cfg tals rest eout.2 fout.2
    pure (showRunF fout (agrees eout fout) :: tail)

end StoreDrv

open EngineDrv StoreDrv in
def runStore (arg : String) : String :=
  match Sexp.parse arg with
  | some (.list [.list [_fix, cfg, tals, runs], extras]) =>
    match cfg? cfg, tals.list?.bind (·.mapM tal?), runs.list?.bind (·.mapM run?),
        extras.list?.bind (·.mapM extras?) with
    | some cfg, some tals, some runs, some extras =>
      if runs.length != extras.length then "bad-op"
      else match runAllF cfg tals (runs.zip extras) ⟨[], []⟩ ⟨[], []⟩ with
        | some lines => joinWith " | " lines
        | none => "bad-op"
    | _, _, _, _ => "bad-op"
  | _ => "bad-op"

end RoutinatorModel.Drv
