import RoutinatorModel.Model.Engine
import RoutinatorModel.Drv.Sexp
import RoutinatorModel.Drv.Util
/-! Driver for the engine model: `engine <s-expression>` (format: see
`harness/rpkitest/src/model.rs`). Replies, per run,
`i=<items> s=<uri:mft:number:thisUpdate:name/hash,…;…> t=<uri:id;…>`, runs joined by ` | `. -/
namespace RoutinatorModel.Drv
open RoutinatorModel.Engine

namespace EngineDrv

def cert? : Sexp → Option CertAttr
  | .list [ok, serial, nb, na, crl] => do
    pure ⟨← ok.bool?, ← serial.nat?, ← nb.int?, ← na.int?, ← crl.optNat?⟩
  | _ => none

def ext? : Sexp → Option Ext
  | .atom "0" => some .cer
  | .atom "1" => some .roa
  | .atom "2" => some .asa
  | .atom "3" => some .gbr
  | .atom "4" => some .crl
  | .atom "5" => some .other
  | _ => none

def content? : Sexp → Option Content
  | .list [.atom "crl", sigOk, next, revoked] => do
    pure (.crl (← sigOk.bool?) (← next.int?) (← revoked.nats?))
  | .list [.atom "roa", c, items] => do pure (.roa (← cert? c) (← items.nats?))
  | .list [.atom "asa", c, items] => do pure (.asa (← cert? c) (← items.nats?))
  | .list [.atom "gbr", c] => do pure (.gbr (← cert? c))
  | .list [.atom "router", c, items] => do pure (.router (← cert? c) (← items.nats?))
  | .list [.atom "ca", c, key, repo, mft] => do
    pure (.ca (← cert? c) ⟨← key.nat?, ← repo.nat?, ← mft.nat?⟩)
  | .list [.atom "junk"] => some .junk
  | _ => none

def entry? : Sexp → Option Entry
  | .list [name, ext, hash, ok] => do pure ⟨← name.nat?, ← ext? ext, ← hash.nat?, ← ok.bool?⟩
  | _ => none

def file? : Sexp → Option (Name × File)
  | .list [name, hash, content] => do pure (← name.nat?, ⟨← hash.nat?, ← content? content⟩)
  | _ => none

def mftFile? : Sexp → Option (Option MftFile)
  | .list [] => some none
  | .list [id] => do pure (some ⟨← id.nat?, none⟩)
  | .list [id, c, crlName, number, thisU, nextU, entries] => do
    let es ← (← entries.list?).mapM entry?
    pure (some ⟨← id.nat?,
      some ⟨← cert? c, ← crlName.optNat?, ← number.nat?, ← thisU.int?, ← nextU.int?, es⟩⟩)
  | _ => none

def point? : Sexp → Option (Uri × Fetched)
  | .list [uri, mft, files, order] => do
    let fs ← (← files.list?).mapM file?
    pure (← uri.nat?, ⟨← mftFile? mft, fs, ← order.nats?⟩)
  | _ => none

def taFile? : Sexp → Option (Uri × TaFile)
  | .list [uri, id] => do pure (← uri.nat?, ⟨← id.nat?, none⟩)
  | .list [uri, id, .list [key, ok, nb, na, repo, mft]] => do
    let k ← key.nat?
    pure (← uri.nat?, ⟨← id.nat?,
      some ⟨k, ← ok.bool?, ← nb.int?, ← na.int?, ⟨k, ← repo.nat?, ← mft.nat?⟩⟩⟩)
  | _ => none

structure Tamper where
  uri : Uri
  number : Nat
  thisUpdate : Int

def tamper? : Sexp → Option Tamper
  | .list [uri, number, thisU] => do pure ⟨← uri.nat?, ← number.nat?, ← thisU.int?⟩
  | _ => none

structure RunReq where
  run : Run
  tampers : List Tamper
  /-- the TALs installed during this run, if they differ from the scenario's -/
  tals : Option (List Tal) := none

def tal? : Sexp → Option Tal
  | .list [key, uris] => do pure ⟨← key.nat?, ← uris.nats?⟩
  | _ => none

def run? : Sexp → Option RunReq
  | .list [now, hasView, cleanup, tas, points, tampers] => do
    let tas ← (← tas.list?).mapM taFile?
    let points ← (← points.list?).mapM point?
    let tampers ← (← tampers.list?).mapM tamper?
    let view : View := ⟨tas, points⟩
    pure ⟨⟨← now.int?, if ← hasView.bool? then some view else none, ← cleanup.bool?⟩, tampers, none⟩
  | .list [now, hasView, cleanup, tas, points, tampers, tals] => do
    let tas ← (← tas.list?).mapM taFile?
    let points ← (← points.list?).mapM point?
    let tampers ← (← tampers.list?).mapM tamper?
    let tals ← (← tals.list?).mapM tal?
    let view : View := ⟨tas, points⟩
    pure ⟨⟨← now.int?, if ← hasView.bool? then some view else none, ← cleanup.bool?⟩, tampers,
      some tals⟩
  | _ => none

def policy? : Sexp → Option Policy
  | .atom "0" => some .reject
  | .atom "1" => some .warn
  | .atom "2" => some .accept
  | _ => none

def cfg? : Sexp → Option Cfg
  | .list [stale, depth, aspa, bgpsec] => do
    pure ⟨← policy? stale, ← depth.nat?, ← aspa.bool?, ← bgpsec.bool?⟩
  | _ => none

/-- Insertion sort with duplicates removed. -/
def insertNat (x : Nat) : List Nat → List Nat
  | [] => [x]
  | y :: ys => if x < y then x :: y :: ys else if x = y then y :: ys else y :: insertNat x ys

def sortDedup (l : List Nat) : List Nat := l.foldr insertNat []

def insertBy {α : Type} (key : α → Nat) (x : α) : List α → List α
  | [] => [x]
  | y :: ys => if key x ≤ key y then x :: y :: ys else y :: insertBy key x ys

def sortBy {α : Type} (key : α → Nat) (l : List α) : List α := l.foldr (insertBy key) []

def showPoint (p : Uri × Stored) : String :=
  let objs := sortBy (fun (o : StoredObj) => o.name) p.2.objects
  s!"{p.1}:{p.2.mft.id}:{p.2.number}:{p.2.thisUpdate}:" ++
    joinWith "," (objs.map fun o => s!"{o.name}/{o.file.hash}")

def showRun (out : List Item × Store) : String :=
  let points := sortBy (fun (p : Uri × Stored) => p.1) out.2.points
  let tas := sortBy (fun (p : Uri × TaFile) => p.1) out.2.tas
  "i=" ++ joinWith "," ((sortDedup out.1).map toString) ++
  " s=" ++ joinWith ";" (points.map showPoint) ++
  " t=" ++ joinWith ";" (tas.map fun p => s!"{p.1}:{p.2.id}")

def applyTamper (s : Store) (t : Tamper) : Store :=
  match s.point t.uri with
  | some st => s.setPoint t.uri (some { st with number := t.number, thisUpdate := t.thisUpdate })
  | none => s

/-- `runMany` with the store tampered with before each run as requested. -/
def runAll (fix : Bool) (cfg : Cfg) (tals : List Tal) : List RunReq → Store → List String
  | [], _ => []
  | r :: rest, store =>
    let store := r.tampers.foldl applyTamper store
    let out := runFull fix cfg (r.tals.getD tals) r.run store
    showRun out :: runAll fix cfg tals rest out.2

end EngineDrv

open EngineDrv in
def runEngine (arg : String) : String :=
  match Sexp.parse arg with
  | some (.list [fix, cfg, tals, runs]) =>
    match fix.bool?, cfg? cfg, tals.list?.bind (·.mapM tal?), runs.list?.bind (·.mapM run?) with
    | some fix, some cfg, some tals, some runs =>
      joinWith " | " (runAll fix cfg tals runs ⟨[], []⟩)
    | _, _, _, _ => "bad-op"
  | _ => "bad-op"

end RoutinatorModel.Drv
