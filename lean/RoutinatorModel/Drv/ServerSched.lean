import RoutinatorModel.Model.ServerSched
import RoutinatorModel.Drv.Util
/-!
Driver for C15: `c15 <keep> <prelude ids> <run ids> <kind> <client> [<kind2> <client2>] | <schedule>`.
The prelude runs are executed completely; then the schedule (actors `U`, `Q`, `Q2`) is replayed on
`ServerSched.sys keep`, printing per step the points reached (vocabulary of the harness scheduler)
and the served serial, then each request's result.
-/
namespace RoutinatorModel.Drv
namespace C15
open RoutinatorModel RoutinatorModel.ServerSched

def parseIds (s : String) : Option (List Nat) :=
  if s == "-" then some [] else commaNats s

def showServed (s : State) : String := toString s.serial ++ (if s.active then "a" else "i")

def showPayload : Payload → String
  | .none => "none"
  | .full s d => s!"full:{s}:{d}"
  | .delta f t fd td => s!"delta:{f}:{t}:{fd}:{td}"
  | .same c s => s!"same:{c}:{s}"
  | .version s => s!"version:{s}"
  | .refused => "refused"

/-- One step of a request actor: the events it logs and, if it reads the history, the request. -/
structure QStep where
  events : String
  read : Option Kind

/-- The remaining steps of a request, given what its last read returned. -/
def planOf (kind : String) (client : Nat) : Option (List QStep) :=
  match kind with
  | "data" => some [⟨"@history:read", none⟩, ⟨"http-payload:read-done,done", some .httpData⟩]
  | "delta" => some [⟨"@history:read", none⟩, ⟨"done", some (.httpDelta true client)⟩]
  | "delta-foreign" => some [⟨"@history:read", none⟩, ⟨"done", some (.httpDelta false client)⟩]
  | "delta-noversion" => some [⟨"@history:read", none⟩, ⟨"done", some .httpDeltaNoVersion⟩]
  | "notify" => some [⟨"@http-notify:subscribed", none⟩, ⟨"@http-notify:checked", none⟩,
      ⟨"@history:read", none⟩, ⟨"done", some .httpNotifyAnswer⟩]
  | "rtr-reset" => some [⟨"@history:read", none⟩, ⟨"@history:read", some .rtrReady⟩,
      ⟨"done", some .rtrFull⟩]
  | "rtr-serial" => some [⟨"@history:read", none⟩, ⟨"@history:read", some .rtrReady⟩,
      ⟨"done", some (.rtrDiff true client)⟩]
  | "rtr-serial-foreign" => some [⟨"@history:read", none⟩, ⟨"@history:read", some .rtrReady⟩,
      ⟨"done", some (.rtrDiff false client)⟩]
  | "rtr-notify" => some [⟨"@history:read", none⟩, ⟨"done", some .rtrNotify⟩]
  | _ => none

structure QRun where
  name : String
  plan : List QStep
  result : Option Payload
  finished : Bool

structure Run where
  st : State
  runs : List Nat
  ustarted : Bool
  udone : Bool
  qs : List QRun
  out : List String

def fullRun (s : State) (d : Nat) : Option State := do
  let s ← if s.upc == .idle then step s (.u d) else some s
  if s.upc != .start then none else
  let s ← step s (.u d)
  let s ← step s (.u d)
  let s ← step s (.u d)
  let s ← step s (.u d)
  step s (.u d)

def stepQ (r : Run) (name : String) : Option Run :=
  match r.qs.find? (fun q => q.name == name) with
  | none => none
  | some q =>
    if q.finished then none else
    match q.plan with
    | [] => none
    | st :: rest =>
      let upd (st' : State) (q' : QRun) (events : String) : Run :=
        { r with st := st', qs := r.qs.map (fun x => if x.name == name then q' else x),
                 out := r.out ++ [name ++ "[" ++ events ++ "]=" ++ showServed st'] }
      match st.read with
      | none => some (upd r.st { q with plan := rest } st.events)
      | some k =>
        match step r.st (.req k) with
        | none => none
        | some st' =>
          let p := respond r.st k
          -- the ready() gate of the RTR server: not ready ⇒ the request ends here
          if k == .rtrReady then
            if p == .none then some (upd st' { q with plan := [], result := some p, finished := true } "done")
            else some (upd st' { q with plan := rest } st.events)
          else
            some (upd st' { q with plan := rest, result := some p, finished := rest.isEmpty } st.events)

def c15Step (r : Run) (actor : String) : Option Run :=
  let emit (r : Run) (s' : State) (rec : String) : Run :=
    { r with st := s', out := r.out ++ [rec ++ "=" ++ showServed s'] }
  if actor == "U" then
    if r.udone then none else
    match r.runs with
    | [] => none
    | d :: rest =>
      if !r.ustarted then
        match (if r.st.upc == .idle then step r.st (.u d) else some r.st) with
        | none => none
        | some s' => some (emit { r with ustarted := true } s' "U[run,@history:write]")
      else
        match r.st.upc with
        | .idle => none
        | .start => (step r.st (.u d)).map fun s' => emit r s' "U[@history:read]"
        | .read => (step r.st (.u d)).map fun s' => emit r s' "U[@history:write]"
        | .install => (step r.st (.u d)).map fun s' => emit r s' "U[server:updated,@history:write]"
        | .mark => (step r.st (.u d)).map fun s' => emit r s' "U[@server:marked-done]"
        | .notify =>
          match step r.st (.u d) with
          | none => none
          | some s' =>
            if rest.isEmpty then some (emit { r with runs := rest, udone := true } s' "U[server:notified,done]")
            else some (emit { r with runs := rest } s' "U[server:notified,run,@history:write]")
  else stepQ r actor

def parseReqs : List String → Option (List (String × Nat))
  | [] => some []
  | [_] => none
  | k :: c :: rest => do
    let c ← c.toNat?
    let more ← parseReqs rest
    pure ((k, c) :: more)

def runC15 (arg : String) : String :=
  match arg.splitOn " | " with
  | [hd, sched] =>
    match words hd with
    | keep :: prelude :: runs :: reqs =>
      match keep.toNat?, parseIds prelude, parseIds runs, parseReqs reqs with
      | some keep, some prelude, some runs, some reqs =>
        if reqs.isEmpty || reqs.length > 2 then "bad-op" else
        match prelude.foldlM fullRun (init keep) with
        | none => "bad-op"
        | some s0 =>
          let names := ["Q", "Q2"]
          let qs := (reqs.zip names).mapM fun ((k, c), n) =>
            (planOf k c).map fun plan => ({ name := n, plan := plan, result := none, finished := false } : QRun)
          match qs with
          | none => "bad-op"
          | some qs =>
            let r0 : Run := { st := s0, runs := runs, ustarted := false, udone := false, qs := qs, out := [] }
            match (words sched).foldlM c15Step r0 with
            | none => "not-enabled"
            | some r =>
              let showQ (q : QRun) : String :=
                q.name ++ "=" ++ (if q.finished then (q.result.map showPayload).getD "?" else "unfinished")
              let u := if r.udone then joinWith "," (List.replicate runs.length "ok")
                       else if runs.isEmpty then "" else "unfinished"
              joinWith " ; " r.out ++ " | " ++ joinWith " " (r.qs.map showQ) ++ " U=" ++ u
      | _, _, _, _ => "bad-op"
    | _ => "bad-op"
  | _ => "bad-op"

end C15
end RoutinatorModel.Drv
