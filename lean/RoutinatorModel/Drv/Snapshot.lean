import RoutinatorModel.Model.Snapshot
import RoutinatorModel.Drv.Validity
/-!
Driver for C09 / C08: one validation run's accepted publication points, rejected CA
certificates and local exceptions → the served snapshot.

`c09 <settings>|<rejected certs>|<points>|<exceptions>|<origin ranks>|<key ranks>` (same for `c08`)
* settings: `<bgpsec 0/1> <aspa 0/1> <limit v4 or -> <limit v6 or -> <r|w|a>`
* rejected certs, `;`-separated: `<v4 blocks>/<v6 blocks>`, blocks space-separated `min,max,<prefix len or ->`
* points, `;`-separated: `<roas>/<router certs>/<aspas>`; roas `~`-separated, each a space-separated
  list of `fam,len,bits,<maxlen or ->,asn`; router certs space-separated `ski,info,lo-hi+lo-hi…`;
  aspas space-separated `customer:providers` (providers `,`-separated, `a-b` = consecutive run)
* exceptions: `<prefix filters>/<bgpsec filters>/<prefix assertions>/<bgpsec assertions>` with
  `<fam.len.bits or ->,<asn or ->` · `<ski or ->,<asn or ->` · vrps · `ski,asn,info`
* ranks: `rank=fam,len,bits,resolved,asn` and `rank=ski,asn,info` (rank in Rust's `Ord`)
Reply: `O=<fam.len.bits.max.asn,…> K=<ski.asn.info,…> A=<customer:providers;…>`.
-/
namespace RoutinatorModel.Drv
open RoutinatorModel

def fields (s : String) (sep : String) : List String :=
  (s.splitOn sep).map (fun x => x.trimAscii.toString) |>.filter (· ≠ "")

def parseBool01 (s : String) : Option Bool :=
  if s == "1" then some true else if s == "0" then some false else none

def parsePolicy (s : String) : Option FilterPolicy :=
  if s == "r" then some .reject else if s == "w" then some .warn
  else if s == "a" then some .accept else none

def parseSettings (s : String) : Option Settings :=
  match words s with
  | [b, a, l4, l6, p] => do
    pure ⟨← parseBool01 b, ← parseBool01 a, ← parseOptNat l4, ← parseOptNat l6, ← parsePolicy p⟩
  | _ => none

def parseBlock (s : String) : Option IpBlock :=
  match s.splitOn "," with
  | [mn, mx, pl] => do
    let mn ← mn.toNat?
    let mx ← mx.toNat?
    if mn > mx || mx ≥ 2 ^ 128 then none
    pure ⟨mn, mx, ← parseOptNat pl⟩
  | _ => none

/-- Splits into exactly `n` parts (keeping empty ones). -/
def partsN (s : String) (sep : String) (n : Nat) : Option (List String) :=
  let l := s.splitOn sep
  if l.length == n then some l else none

def parseCert (s : String) : Option CertResources :=
  match s.splitOn "/" with
  | [a, b] => do pure ⟨← (words a).mapM parseBlock, ← (words b).mapM parseBlock⟩
  | _ => none

def parseAsBlock (s : String) : Option (Nat × Nat) :=
  match s.splitOn "-" with
  | [lo, hi] => do
    let lo ← lo.toNat?
    let hi ← hi.toNat?
    if lo > hi then none
    pure (lo, hi)
  | _ => none

def parseRouterCert (s : String) : Option PubRouterKey :=
  match s.splitOn "," with
  | [ski, info, blocks] => do
    pure ⟨← (fields blocks "+").mapM parseAsBlock, ← ski.toNat?, ← info.toNat?⟩
  | _ => none

/-- `a-b` is the run `a, a+1, …, b`. -/
def parseRun (s : String) : Option (List Nat) :=
  match s.splitOn "-" with
  | [a] => do pure [← a.toNat?]
  | [a, b] => do
    let a ← a.toNat?
    let b ← b.toNat?
    if a > b then none
    pure ((List.range (b + 1 - a)).map (· + a))
  | _ => none

def parseProviders (s : String) : Option (List Nat) := do
  let runs ← (fields s ",").mapM parseRun
  pure runs.flatten

def strictlyAscending : List Nat → Bool
  | a :: b :: l => decide (a < b) && strictlyAscending (b :: l)
  | _ => true

def parseAspa9 (s : String) : Option PubAspa :=
  match s.splitOn ":" with
  | [c, ps] => do
    let ps ← parseProviders ps
    -- `ProviderAsSet` / `SmallAsnSet`: ascending without duplicates
    if !strictlyAscending ps then none
    pure ⟨← c.toNat?, ps⟩
  | _ => none

def parsePoint (s : String) : Option RawPoint :=
  match s.splitOn "/" with
  | [roas, certs, aspas] => do
    let roas ← (fields roas "~").mapM (fun r => (words r).mapM parseVrp)
    pure ⟨roas, ← (words certs).mapM parseRouterCert, ← (words aspas).mapM parseAspa9⟩
  | _ => none

def parseOptPrefix (s : String) : Option (Option Prefix) :=
  if s == "-" then some none
  else match s.splitOn "." with
    | [fam, len, bits] => (parsePrefix3 fam len bits).map some
    | _ => none

def parsePrefixFilter (s : String) : Option PrefixFilter :=
  match s.splitOn "," with
  | [p, a] => do pure ⟨← parseOptPrefix p, ← parseOptNat a⟩
  | _ => none

def parseKeyFilter (s : String) : Option BgpsecFilter :=
  match s.splitOn "," with
  | [k, a] => do pure ⟨← parseOptNat k, ← parseOptNat a⟩
  | _ => none

def parseRouterKey (s : String) : Option RouterKey :=
  match s.splitOn "," with
  | [k, a, i] => do pure ⟨← k.toNat?, ← a.toNat?, ← i.toNat?⟩
  | _ => none

def parseExceptions (s : String) : Option Exceptions :=
  match s.splitOn "/" with
  | [pf, kf, oa, ka] => do
    let oa ← (words oa).mapM parseVrp
    pure ⟨← (words pf).mapM parsePrefixFilter, ← (words kf).mapM parseKeyFilter,
      oa.map Vrp.toOrigin, ← (words ka).mapM parseRouterKey⟩
  | _ => none

def parseOriginRank (s : String) : Option (Origin × Nat) :=
  match s.splitOn "=" with
  | [r, item] =>
    match item.splitOn "," with
    | [fam, len, bits, ml, asn] => do
      let p ← parsePrefix3 fam len bits
      pure (⟨p, ← ml.toNat?, ← asn.toNat?⟩, ← r.toNat?)
    | _ => none
  | _ => none

def parseKeyRank (s : String) : Option (RouterKey × Nat) :=
  match s.splitOn "=" with
  | [r, item] => do pure (← parseRouterKey item, ← r.toNat?)
  | _ => none

def showOrigin (o : Origin) : String :=
  s!"{showFam o.pfx.v4}.{o.pfx.len}.{o.pfx.bits.toNat}.{o.maxLen}.{o.asn}"

def showRouterKey (k : RouterKey) : String := s!"{k.keyId}.{k.asn}.{k.info}"

/-- Maximal runs of consecutive numbers as `a-b`. -/
def showRuns : List Nat → List String
  | [] => []
  | a :: l => go a a l
where
  go (first last : Nat) : List Nat → List String
    | [] => [fin first last]
    | x :: l => if x == last + 1 then go first x l else fin first last :: go x x l
  fin (first last : Nat) : String :=
    if first == last then toString first else s!"{first}-{last}"

def showAspaItem (e : Nat × List Nat) : String := s!"{e.1}:{joinWith "," (showRuns e.2)}"

def showSnapshot (s : Snapshot) : String :=
  s!"O={joinWith "," (s.origins.map showOrigin)} K={joinWith "," (s.routerKeys.map showRouterKey)} A={joinWith ";" (s.aspas.map showAspaItem)}"

/-- Every origin / router key that can end up in the snapshot must have a rank. -/
def allRanked (s : Settings) (points : List RawPoint) (e : Exceptions)
    (ro : List (Origin × Nat)) (rk : List (RouterKey × Nat)) : Bool :=
  let os := (points.flatMap (fun p => p.roas.flatten.map Vrp.toOrigin)) ++ e.originAssertions
  let ks := (points.flatMap (fun p => p.routerCerts.flatMap (fun c =>
      (iterAsns c.asns).map (fun a => (⟨c.keyId, a, c.info⟩ : RouterKey))))) ++ e.routerKeyAssertions
  let _ := s
  os.all (fun o => (ro.lookup o).isSome) && ks.all (fun k => (rk.lookup k).isSome)

def injectiveRanks {α : Type} [DecidableEq α] (t : List (α × Nat)) : Bool :=
  let rs := t.map Prod.snd
  let ks := t.map Prod.fst
  rs.eraseDups.length == rs.length && ks.eraseDups.length == ks.length

def runC09 (arg : String) : String :=
  match arg.splitOn "|" with
  | [settings, certs, points, exc, oranks, kranks] =>
    match parseSettings settings, (fields certs ";").mapM parseCert,
        (fields points ";").mapM parsePoint, parseExceptions exc,
        (words oranks).mapM parseOriginRank, (words kranks).mapM parseKeyRank with
    | some s, some certs, some points, some e, some ro, some rk =>
      if !allRanked s points e ro rk || !injectiveRanks ro || !injectiveRanks rk then "bad-op"
      else
        let κo := fun o => (ro.lookup o).getD 0
        let κk := fun k => (rk.lookup k).getD 0
        showSnapshot (served s κo κk points certs e)
    | _, _, _, _, _, _ => "bad-op"
  | _ => "bad-op"

end RoutinatorModel.Drv
