import RoutinatorModel.Model.Delta
import RoutinatorModel.Drv.Util
/-! Driver for C11 / C12: `c11 <serial>|oo|on|ro|rn|ao|an`, `c12 <serial>|snap;snap;…`. -/
namespace RoutinatorModel.Drv
open RoutinatorModel

def parseAspa (tok : String) : Option (Nat × List Nat) :=
  match tok.splitOn ":" with
  | [c, ps] => do
    let c ← c.toNat?
    let ps ← commaNats ps
    pure (c, ps)
  | _ => none

def parseAspas (s : String) : Option AspaSet := (words s).mapM parseAspa

def showAct : Action → String
  | .announce => "+"
  | .withdraw => "-"

def showStd (l : List (Nat × Action)) : String :=
  joinWith " " (l.map fun (k, a) => toString k ++ showAct a)

def showAspaItems (l : AspaItems) : String :=
  joinWith " " (l.map fun (c, (ps, a)) => toString c ++ ":" ++ showCommaNats ps ++ showAct a.toAction)

def showDelta (d : PayloadDelta) : String :=
  s!"s={d.serial} a={d.announceLen} w={d.withdrawLen} O={showStd d.origins}|R={showStd d.routerKeys}|A={showAspaItems d.aspas}"

def parseSnapshot (o r a : String) : Option Snapshot := do
  let o ← nats o
  let r ← nats r
  let a ← parseAspas a
  pure ⟨o, r, a⟩

def runC11 (arg : String) : String :=
  match arg.splitOn "|" with
  | [ser, oo, on, ro, rn, ao, an] =>
    match ser.trimAscii.toString.toNat?, parseSnapshot oo ro ao, parseSnapshot on rn an with
    | some ser, some old, some new =>
      match PayloadDelta.construct old new ser with
      | none => "none"
      | some d => showDelta d
    | _, _, _ => "bad-op"
  | _ => "bad-op"

def parseSnap3 (s : String) : Option Snapshot :=
  match s.splitOn "|" with
  | [o, r, a] => parseSnapshot o r a
  | _ => none

/-- Fold `merge` over the consecutive non-empty deltas, exactly as the harness does with the
real `PayloadDelta::construct` / `merge`; print the merged delta's actions. -/
def runC12 (arg : String) : String :=
  match arg.splitOn "#" with
  | [ser, snaps] =>
    match ser.trimAscii.toString.toNat?, (snaps.splitOn ";").mapM parseSnap3 with
    | some ser, some (s0 :: rest) =>
      let step := fun (acc : Snapshot × Nat × Option PayloadDelta) (t : Snapshot) =>
        let (cur, ser, merged) := acc
        match PayloadDelta.construct cur t ser with
        | none => (t, ser, merged)
        | some d =>
          (t, d.serial, match merged with
                        | none => some d
                        | some m => some (m.merge d))
      let (_, _, merged) := rest.foldl step (s0, ser, none)
      match merged with
      | none => "none"
      | some d => showDelta d
    | _, _ => "bad-op"
  | _ => "bad-op"

end RoutinatorModel.Drv
