import RoutinatorModel.Model.Paths
import RoutinatorModel.Model.Dubious
import RoutinatorModel.Model.Collector
import RoutinatorModel.Model.Limit
import RoutinatorModel.Drv.Util
import RoutinatorModel.Drv.Sha256
/-! Driver components of group "collect": `c30` (paths). -/
namespace RoutinatorModel.Drv
open RoutinatorModel.Paths

def toStr (s : String) : Str := s.toList.map Char.toNat
def ofStr (s : Str) : String := String.ofList (s.map Char.ofNat)

/-- `Rsync::from_bytes` (structure only; the harness sends URIs rpki accepted). -/
def parseRsync (s : Str) : Option Rsync :=
  let scheme := s.take 8
  if canon scheme ≠ sRsyncScheme then none else
  match split (s.drop 8) with
  | a :: m :: t :: rest =>
    let tail := t :: rest
    let segs := if tail.getLast? = some [] then tail.dropLast else tail
    let dir := tail.getLast? = some [] && !segs.isEmpty
    let okS := fun (x : Str) => decide (okSeg x)
    if okS a && okS m && segs.all okS then some ⟨scheme, a, m, segs, dir⟩ else none
  | _ => none

/-- `Https::from_bytes`. -/
def parseHttps (s : Str) : Option Https :=
  let scheme := s.take 8
  if canon scheme ≠ sHttpsScheme then none else
  let rest := s.drop 8
  some ⟨scheme, rest.takeWhile (· ≠ 47), rest.dropWhile (· ≠ 47)⟩

def sha : Str → List Nat := Sha256.sha256

def cacheBase : Str := [47, 67]   -- "/C"
def dumpBase : Str := [47, 68]    -- "/D"

def showPath (p : Str) : String :=
  ofStr p ++ " => /" ++ joinWith "/" ((resolve p).map ofStr)

/-- Only the resolved location (dump files are found by walking the real directory tree). -/
def showResolved (p : Str) : String :=
  "=> /" ++ joinWith "/" ((resolve p).map ofStr)

def parseReg (w : String) : Option Str :=
  if w.startsWith "=" then some (toStr (w.drop 1).toString) else none

def runC30 (arg : String) : String :=
  match words arg with
  | ["ta-rsync", u] =>
    match parseRsync (toStr u) with
    | some u => showPath (pathOf sha cacheBase (.taRsync u))
    | none => "bad-op"
  | ["ta-https", n] =>
    match parseHttps (toStr n) with
    | some n => showPath (pathOf sha cacheBase (.taHttps n))
    | none => "bad-op"
  | ["point", "-", m] =>
    match parseRsync (toStr m) with
    | some m => showPath (pathOf sha cacheBase (.point none m))
    | none => "bad-op"
  | ["point", n, m] =>
    match parseHttps (toStr n), parseRsync (toStr m) with
    | some n, some m => showPath (pathOf sha cacheBase (.point (some n) m))
    | _, _ => "bad-op"
  | ["rsync-file", u] =>
    match parseRsync (toStr u) with
    | some u => showPath (pathOf sha cacheBase (.rsyncFile u))
    | none => "bad-op"
  | ["rsync-module", u] =>
    match parseRsync (toStr u) with
    | some u => showPath (rsyncModulePath cacheBase u)
    | none => "bad-op"
  | ["rrdp-archive", n] =>
    match parseHttps (toStr n) with
    | some n => showPath (pathOf sha cacheBase (.rrdpArchive n))
    | none => "bad-op"
  | ["dump-store", reg, u] =>
    match parseReg reg, parseRsync (toStr u) with
    | some reg, some u => showResolved (dumpPathOf dumpBase (.storeObj reg u))
    | _, _ => "bad-op"
  | ["dump-rrdp", reg, u] =>
    match parseReg reg, parseRsync (toStr u) with
    | some reg, some u => showResolved (dumpPathOf dumpBase (.rrdpObj reg u))
    | _, _ => "bad-op"
  | "dumpreg" :: uris =>
    match uris.mapM (fun u => parseHttps (toStr u)) with
    | some ns =>
      match Registry.new.run ns with
      | some (names, _) => joinWith " " (names.map fun x => "=" ++ ofStr x)
      | none => "no-free-name"
    | none => "bad-op"
  | _ => "bad-op"

/-! ## c31 -/
open RoutinatorModel.Dubious in
def parseReq (w : String) : Option Req :=
  if w.startsWith "m:" then
    (parseRsync (toStr (w.drop 2).toString)).map fun u => Req.module u.auth u.module
  else if w.startsWith "r:" then
    (parseHttps (toStr (w.drop 2).toString)).map fun n => Req.repository n.auth n.path
  else none

open RoutinatorModel.Dubious in
/-- Runs the requests on one `Run`; every update attempt fails without a local copy (the
harness's proxy refuses), so `net` is constantly `unavailable`. -/
def runC31Reqs (filter : Bool) (reqs : List Req) : String :=
  let net : Str × Str → Load := fun _ => .unavailable
  let rec go (r : Run) : List Req → List String
    | [] => []
    | q :: qs =>
      match q with
      | .module a m =>
        let (f, r') := loadModule filter true r a m
        ("m" ++ toString f.length) :: go r' qs
      | .repository a p =>
        let (f, res, r') := loadRepository filter net r a p
        let tag := match res with
          | .unavailable => "U" | .stale => "S" | .current => "C" | .updated => "D"
        ("r" ++ toString f.length ++ tag) :: go r' qs
  joinWith " " (go Run.empty reqs)

open RoutinatorModel.Dubious in
def runC31 (arg : String) : String :=
  match words arg with
  | ["classify", "rsync", u] =>
    match parseRsync (toStr u) with
    | some u => "dubious=" ++ showBool (hasDubiousAuthority u.auth)
    | none => "bad-op"
  | ["classify", "https", n] =>
    match parseHttps (toStr n) with
    | some n => "dubious=" ++ showBool (hasDubiousAuthority n.auth)
    | none => "bad-op"
  | "run" :: filter :: reqs =>
    match filter, reqs.mapM parseReq with
    | "1", some reqs => runC31Reqs true reqs
    | "0", some reqs => runC31Reqs false reqs
    | _, _ => "bad-op"
  | _ => "bad-op"

/-! ## c29 -/
open RoutinatorModel.Collector in
/-- `c29 <never|stale|new> <rrdp 0/1> <rsync 0/1> <notify 0/1> <update ok 0/1> <stored best-before|->
<now> <refresh> <rrdp-fallback-time> <notify rejected as dubious 0/1>`: the outcome is classified by the model from what is stored
and the clock, then the transport is decided. -/
def runC29 (arg : String) : String :=
  let bool? : String → Option Bool := fun w => if w == "1" then some true else if w == "0" then some false else none
  match words arg with
  | [p, re, rs, hn, ok, bb, now, refresh, fallback, rejected] =>
    let p? : Option Policy := match p with
      | "never" => some .never | "stale" => some .stale | "new" => some .new | _ => none
    let bb? : Option (Option Nat) := if bb == "-" then some none else bb.toNat?.map some
    match p?, bool? re, bool? rs, bool? hn, bool? ok, bb?, now.toNat?, refresh.toNat?, fallback.toNat?, bool? rejected with
    | some p, some re, some rs, some hn, some ok, some bb, some now, some refresh, some fallback, some rejected =>
      let out := loadOutcome ⟨refresh, fallback⟩ rejected ok bb now
      let t := match repository p re rs hn out with
        | .rrdp => "rrdp" | .rsync => "rsync" | .none => "none"
      let o := match out with
        | .updated => "updated" | .current => "current" | .stale => "stale" | .unavailable => "unavailable"
      let asks := asksRrdp re hn
      s!"transport={t} asks={showBool asks} outcome={if asks then o else "-"}"
    | _, _, _, _, _, _, _, _, _, _ => "bad-op"
  | _ => "bad-op"

/-! ## c38 -/
def parseOptNat (w : String) : Option (Option Nat) :=
  if w == "none" || w == "-" then some none else w.toNat?.map some

open RoutinatorModel.Limit in
def parseEvs (ws : List String) : Option (List Ev) :=
  ws.mapM fun w => if w == "F" then some Ev.fail else w.toNat?.map fun n => Ev.data (List.replicate n 0)

open RoutinatorModel.Limit in
def runC38 (arg : String) : String :=
  match words arg with
  | "read" :: l :: evs =>
    match parseOptNat l, parseEvs evs with
    | some l, some evs =>
      match readAll l evs with
      | .ok b => s!"ok {b.length}"
      | .tooLarge b => s!"large {b.length}"
      | .readError b => s!"readerr {b.length}"
    | _, _ => "bad-op"
  | ["ta", l, cl, size] =>
    match parseOptNat l, parseOptNat cl, size.toNat? with
    | some l, some cl, some size =>
      match loadTa l cl [Ev.data (List.replicate size 0)] with
      | none => "none"
      | some b => if b.length = size then "full" else "partial"
    | _, _, _ => "bad-op"
  | ["object", l, size] =>
    match parseOptNat l, size.toNat? with
    | some l, some size =>
      if (readAll l [Ev.data (List.replicate size 0)]).isOk then "accept" else "refuse"
    | _, _ => "bad-op"
  | ["config", file, cli] =>
    match parseOptNat file, parseOptNat cli with
    | some file, some cli => showOptNat (configLimit file cli)
    | _, _ => "bad-op"
  | ["rsync-arg", l] =>
    match parseOptNat l with
    | some l =>
      match rsyncMaxSizeArg l with
      | some n => s!"--max-size={n}"
      | none => "-"
    | none => "bad-op"
  | _ => "bad-op"

end RoutinatorModel.Drv
