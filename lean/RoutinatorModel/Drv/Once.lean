import RoutinatorModel.Model.Once
import RoutinatorModel.Drv.Util
/-!
Driver for C37.

`c37 <variant>|<calls>|<schedule>` — `variant` ∈ {rsync, rrdp, rsync-old}; `calls` = per thread the
keys it loads in order (`0,1;0` = thread 0 loads key 0 then key 1, thread 1 loads key 0);
`schedule` = thread ids, one per replayed segment. Reply: the hook point reached after every
segment (`<tid>:<point>/<key>`), then per key started/completed/updated, then `fin=1` iff every
thread finished all its calls. A segment that the model does not enable gives `disabled@<i>`.

`c37n <variant>|<calls>` — number of maximal schedules of the scenario in the model (all
interleavings at hook-point granularity) and how many of them end stuck.
-/
namespace RoutinatorModel.Drv
open RoutinatorModel RoutinatorModel.Once

structure DSt where
  st : St
  calls : List (List Nat)    -- remaining calls per thread

def parseVariant : String → Option Variant
  | "rsync" => some rsyncFixed
  | "rrdp" => some Once.rrdp
  | "rsync-old" => some rsyncOld
  | _ => none

def parseCalls (s : String) : Option (List (List Nat)) :=
  (s.splitOn ";").mapM (fun t => commaNats t)

def pcName : Pc → String
  | .idle => "ret"
  | .check k => s!"check/{k}"
  | .getm k => s!"getm/{k}"
  | .lock k _ => s!"lock/{k}"
  | .locked k _ => s!"locked/{k}"
  | .hit k _ => s!"hit/{k}"
  | .ret2 k _ => s!"ret2/{k}"
  | .fetch k _ => s!"fetch/{k}"
  | .fetching k _ => s!"fetching/{k}"
  | .fetched k _ => s!"fetched/{k}"
  | .between k _ => s!"between/{k}"
  | .done k _ => s!"done/{k}"

/-- One replayed segment of thread `t`; returns the new state and the event text. -/
def dstep (v : Variant) (d : DSt) (t : Nat) : Option (DSt × String) :=
  match d.st.pc t with
  | .idle =>
    match d.calls[t]? with
    | some (k :: rest) =>
      match macroStep v d.st (t, .call k) with
      | some st' => some ({ st := st', calls := d.calls.set t rest }, s!"{t}:{pcName (st'.pc t)}")
      | none => none
    | _ => none
  | pc =>
    match macroStep v d.st (t, .step) with
    | some st' =>
      let ev := match st'.pc t with
        | .idle => s!"{t}:ret/{(pc.key).getD 0}"
        | p => s!"{t}:{pcName p}"
      some ({ d with st := st' }, ev)
    | none => none

def allKeys (calls : List (List Nat)) : List Nat :=
  let ks := calls.foldl (· ++ ·) []
  (List.range (ks.foldl max 0 + 1)).filter (fun k => ks.contains k)

def finished (d : DSt) : Bool :=
  (List.range d.calls.length).all (fun t => (d.st.pc t == .idle) && (d.calls[t]? == some []))

def summary (keys : List Nat) (d : DSt) : String :=
  let f := showCommaNats (keys.map d.st.started)
  let c := showCommaNats (keys.map d.st.completed)
  let u := showCommaNats (keys.map (fun k => if d.st.updated k then 1 else 0))
  s!"F={f} C={c} U={u} fin={showBool (finished d)}"

def replay (v : Variant) : DSt → List Nat → Nat → List String → Except String (DSt × List String)
  | d, [], _, acc => .ok (d, acc.reverse)
  | d, t :: ts, i, acc =>
    match dstep v d t with
    | some (d', ev) => replay v d' ts (i + 1) (ev :: acc)
    | none => .error s!"disabled@{i}"

def runC37 (arg : String) : String :=
  match arg.splitOn "|" with
  | [v, calls, sched] =>
    match parseVariant v.trimAscii.toString, parseCalls calls.trimAscii.toString, nats sched with
    | some v, some calls, some sched =>
      if sched.any (fun t => t ≥ calls.length) then "bad-op" else
      match replay v { st := St.init, calls := calls } sched 0 [] with
      | .ok (d, evs) => s!"T={joinWith " " evs} | {summary (allKeys calls) d}"
      | .error e => e
    | _, _, _ => "bad-op"
  | _ => "bad-op"

/-- Number of maximal schedules and of those ending stuck (some thread unfinished, none enabled). -/
def countRuns (v : Variant) : Nat → DSt → Nat × Nat
  | 0, _ => (0, 0)
  | fuel + 1, d =>
    let nexts := (List.range d.calls.length).filterMap (fun t => (dstep v d t).map (·.1))
    if nexts.isEmpty then (1, if finished d then 0 else 1)
    else nexts.foldl (fun acc d' => let r := countRuns v fuel d'; (acc.1 + r.1, acc.2 + r.2)) (0, 0)

def runC37n (arg : String) : String :=
  match arg.splitOn "|" with
  | [v, calls] =>
    match parseVariant v.trimAscii.toString, parseCalls calls.trimAscii.toString with
    | some v, some calls =>
      let total := (calls.map List.length).foldl (· + ·) 0
      let r := countRuns v (total * 10 + 1) { st := St.init, calls := calls }
      s!"n={r.1} stuck={r.2}"
    | _, _ => "bad-op"
  | _ => "bad-op"

end RoutinatorModel.Drv
