/-! A minimal s-expression reader for driver requests: tokens are separated by blanks,
`(` and `)` are tokens of their own. -/
namespace RoutinatorModel.Drv

inductive Sexp
  | atom (s : String)
  | list (l : List Sexp)
  deriving Repr, Inhabited

namespace Sexp

/-- Parses a token list; `stack` holds the (reversed) contents of the open lists. -/
def parseTokens : List String → List (List Sexp) → Option Sexp
  | [], [[x]] => some x
  | [], _ => none
  | "(" :: rest, stack => parseTokens rest ([] :: stack)
  | ")" :: rest, top :: next :: stack => parseTokens rest ((Sexp.list top.reverse :: next) :: stack)
  | ")" :: _, _ => none
  | tok :: rest, top :: stack => parseTokens rest ((Sexp.atom tok :: top) :: stack)
  | _ :: _, [] => none

def parse (s : String) : Option Sexp :=
  parseTokens ((s.splitOn " ").filter (fun w => w ≠ "")) [[]]

def nat? : Sexp → Option Nat
  | atom s => s.toNat?
  | _ => none

def int? : Sexp → Option Int
  | atom s => s.toInt?
  | _ => none

def bool? : Sexp → Option Bool
  | atom "1" => some true
  | atom "0" => some false
  | _ => none

/-- `-` stands for an absent value. -/
def optNat? : Sexp → Option (Option Nat)
  | atom "-" => some none
  | atom s => s.toNat?.map some
  | _ => none

def list? : Sexp → Option (List Sexp)
  | list l => some l
  | _ => none

def nats? (s : Sexp) : Option (List Nat) := do
  let l ← s.list?
  l.mapM nat?

end Sexp
end RoutinatorModel.Drv
