import RoutinatorModel.Model.Listener
import RoutinatorModel.Drv.Util
/-!
Driver for C19: `c19 <fixed|old> <seq|burst> <ok bits>` — one listener, one connection per bit
(`1` = the per-connection setup succeeds). `seq`: every connection arrives after the previous
one was dealt with; `burst`: all arrive before the server runs again. Reply: per connection
`served` / `closed`, or `hang` for the first connection the server never gets to (the reply
stops there, like the client does).
-/
namespace RoutinatorModel.Drv
open RoutinatorModel RoutinatorModel.Listener

def parseBits (ws : List String) : Option (List Bool) :=
  ws.mapM fun w => match w with
    | "1" => some true
    | "0" => some false
    | _ => none

/-- Results of the connections handled between two states, in order, from the outcomes. -/
def handledResults (n : Nat) (os : List Bool) : List String :=
  (os.take n).map fun o => if o then "served" else "closed"

def runSeq (w : Bool) : St → List Bool → List String → List String
  | _, [], acc => acc.reverse
  | s, o :: rest, acc =>
    match step w s .arrive with
    | none => (("bad-op") :: acc).reverse
    | some s1 =>
      let (s2, _) := quiesce w 16 s1 [o]
      if s2.served + s2.closed = s.served + s.closed + 1 then
        runSeq w s2 rest ((if o then "served" else "closed") :: acc)
      else ("hang" :: acc).reverse

def runBurst (w : Bool) (s0 : St) (os : List Bool) : List String :=
  let s1 := os.foldl (fun s _ => (step w s .arrive).getD s) s0
  let (s2, _) := quiesce w (8 * os.length + 16) s1 os
  let handled := s2.served + s2.closed - (s0.served + s0.closed)
  handledResults handled os ++ (if handled < os.length then ["hang"] else [])

def runC19 (arg : String) : String :=
  match words arg with
  | v :: mode :: bitsWs =>
    match (if v == "fixed" then some true else if v == "old" then some false else none),
          parseBits bitsWs with
    | some w, some os =>
      if os.isEmpty then "bad-op" else
      -- the freshly spawned listener task polls once and parks
      let (s0, _) := quiesce w 4 St.init []
      match mode with
      | "seq" => joinWith " " (runSeq w s0 os [])
      | "burst" => joinWith " " (runBurst w s0 os)
      | _ => "bad-op"
    | _, _ => "bad-op"
  | _ => "bad-op"

end RoutinatorModel.Drv
