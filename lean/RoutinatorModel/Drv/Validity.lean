import RoutinatorModel.Model.Validity
import RoutinatorModel.Drv.Util
/-!
Driver for C20.

`c20 <route>|<asn>|<vrp>;<vrp>;…` with `<route> = <fam>,<len>,<bits>` (`fam` 4 or 6, `bits` the
128-bit integer in decimal) and `<vrp> = <fam>,<len>,<bits>,<maxlen or ->,<asn>`, in the order of
`PayloadSnapshot::origins()`.
Reply: `<state> reason=<r> desc=<d> M=<items> A=<items> L=<items>`, an item being
`<fam>.<len>.<bits>.<resolved max len>.<asn>`, items separated by `,`.
-/
namespace RoutinatorModel.Drv
open RoutinatorModel

def parseFam (s : String) : Option Bool :=
  if s == "4" then some true else if s == "6" then some false else none

def parsePrefix3 (fam len bits : String) : Option Prefix := do
  let v4 ← parseFam fam
  let len ← len.toNat?
  let bits ← bits.toNat?
  if bits ≥ 2 ^ 128 then none
  let p : Prefix := ⟨v4, len, BitVec.ofNat 128 bits⟩
  if p.wfB then some p else none

def parseOptNat (s : String) : Option (Option Nat) :=
  if s == "-" then some none else s.toNat?.map some

def parseVrp (s : String) : Option Vrp :=
  match s.splitOn "," with
  | [fam, len, bits, ml, asn] => do
    let p ← parsePrefix3 fam len bits
    let ml ← parseOptNat ml
    let asn ← asn.toNat?
    -- `MaxLenPrefix::new`: prefix.len() ≤ max_len ≤ family maximum
    match ml with
    | some m => if m < p.len || m > Prefix.famLen p.v4 then none
    | none => pure ()
    pure ⟨p, ml, asn⟩
  | _ => none

def parseVrps (s : String) : Option (List Vrp) :=
  if s.trimAscii.toString == "" then some []
  else (s.splitOn ";").mapM parseVrp

def showFam (v4 : Bool) : String := if v4 then "4" else "6"

def showVrp (v : Vrp) : String :=
  s!"{showFam v.pfx.v4}.{v.pfx.len}.{v.pfx.bits.toNat}.{v.resolvedMaxLen}.{v.asn}"

def showVrps (l : List Vrp) : String := joinWith "," (l.map showVrp)

def showState : RouteState → String
  | .valid => "valid"
  | .invalid => "invalid"
  | .notFound => "not-found"

def showDesc : RouteValidity.Description → String
  | .valid => "valid"
  | .badAsn => "as"
  | .badLen => "length"
  | .notFound => "not-found"

def showValidity (r : RouteValidity) : String :=
  s!"{showState r.state} reason={r.reason.getD "-"} desc={showDesc r.description} M={showVrps r.matched} A={showVrps r.badAsn} L={showVrps r.badLen}"

def runC20 (arg : String) : String :=
  match arg.splitOn "|" with
  | [route, asn, vrps] =>
    match route.trimAscii.toString.splitOn ",", asn.trimAscii.toString.toNat?, parseVrps vrps with
    | [fam, len, bits], some asn, some vrps =>
      match parsePrefix3 fam len bits with
      | some p => showValidity (RouteValidity.new p asn vrps)
      | none => "bad-op"
    | _, _, _ => "bad-op"
  | _ => "bad-op"

end RoutinatorModel.Drv
