import RoutinatorModel.Model.Retry
import RoutinatorModel.Model.Server
import RoutinatorModel.Drv.Util
/-! Driver for the "server" group.

`c32 <cmd> <limit> <break|-> <script>`: `cmd` ∈ vrps, vrps-n, validate, validate-n, update,
server; `limit` = watchdog limit (`VERIF_RUN_LIMIT`, the model's fuel); `break` = run number
(1-based) at whose start the harness removes the RRDP working directory (`-` = never);
`script` = string over `o`/`r`/`f`. Reply: `runs=<run-start events> exit=<status>`. -/
namespace RoutinatorModel.Drv
open RoutinatorModel

def parseOutcome : Char → Option Outcome
  | 'o' => some .ok
  | 'r' => some .retry
  | 'f' => some .fatal
  | _ => none

def parseScript (s : String) : Option (List Outcome) :=
  match s.toList.mapM parseOutcome with
  | some [] => none
  | r => r

/-- The outcome stream the child process really sees: the script, except that from the run
at whose start the RRDP directory is removed, a run told to proceed fails fatally for real
(`run.cleanup()` cannot read the collector's directory). The server's initial run (run 0)
does not use the collector and is not affected. -/
def effStream (server : Bool) (l : List Outcome) (breakAt : Option Nat) (i : Nat) : Outcome :=
  let oc := scriptStream l i
  match breakAt with
  | some k => if k ≤ i + 1 ∧ oc = .ok ∧ ¬ (server ∧ i = 0) then .fatal else oc
  | none => oc

/-- What the harness observes: the watchdog fires when run `limit + 1` starts (status 99,
`limit + 1` run-start events). -/
def showCmd (limit : Nat) (r : CmdResult) : String :=
  match r.exit with
  | .success => s!"runs={r.runs} exit=0"
  | .error => s!"runs={r.runs} exit=1"
  | .running => s!"runs={limit + 1} exit=99"

def showSrv (limit : Nat) (r : SrvResult) : String :=
  if r.stopped then s!"runs={r.runs} exit=1" else s!"runs={limit + 1} exit=99"

def runC32 (arg : String) : String :=
  match words arg with
  | [cmd, limit, brk, script] =>
    match limit.toNat?, parseScript script,
        (if brk == "-" then some none else brk.toNat?.map some) with
    | some limit, some l, some brk =>
      let o := effStream (cmd == "server") l brk
      let san := sanStream brk
      match cmd with
      | "vrps" => showCmd limit (vrps o san limit)
      | "vrps-n" => if brk.isSome then "bad-op" else showCmd limit (vrps o san limit)
      | "validate" => showCmd limit (oneShot o)
      | "validate-n" => if brk.isSome then "bad-op" else showCmd limit (oneShot o)
      | "update" => showCmd limit (oneShot o)
      | "server" => showSrv limit (server o san limit)
      -- the loop as on the pinned commit, for exploration only
      | "vrps-old" => showCmd limit (vrpsOld o san limit)
      | _ => "bad-op"
    | _, _, _ => "bad-op"
  | _ => "bad-op"

/-! `c33 <keep> <t0secs> <t0nanos>|<step>;<step>;…` with `step = <o|r|f|F> <secs> <nanos> <ids|->`
(`F` = a fatal failure provoked for real, `I` = a real initial-mode run failing retryably). Reply: one record per step, `;`-separated:
`ok=<0|1> cur=<ids|none> ser=<n> ses=<n> cr=<secs.nanos|none> d=<target serials of the retained deltas, newest first|-> n=<notifications> done=<secs.nanos|none>`. -/

def showTime (t : Time) : String := s!"{t.secs}.{t.nanos}"

def showOptTime : Option Time → String
  | none => "none"
  | some t => showTime t

def showHist (ok : Bool) (h : Hist) : String :=
  let cur := match h.current with
    | none => "none"
    | some l => "[" ++ showCommaNats l ++ "]"
  s!"ok={showBool ok} cur={cur} ser={h.serial} ses={h.session} cr={showOptTime h.created} d={if h.deltas.isEmpty then "-" else showCommaNats h.deltas} n={h.notified} done={showOptTime h.lastUpdateDone}"

def parseStep (s : String) : Option RunStep :=
  match words s with
  | [oc, secs, nanos, ids] => do
    let oc ← match oc with
      | "o" => some Outcome.ok
      | "r" => some Outcome.retry
      | "f" => some Outcome.fatal
      | "F" => some Outcome.fatal
      | "I" => some Outcome.retry
      | _ => none
    let secs ← secs.toNat?
    let nanos ← nanos.toNat?
    let ids ← if ids == "-" then some [] else commaNats ids
    pure ⟨oc, ids, ⟨secs, nanos⟩⟩
  | _ => none

def runC33 (arg : String) : String :=
  match arg.splitOn "|" with
  | [hd, steps] =>
    match nats hd, (steps.splitOn ";").mapM parseStep with
    | some [keep, t0s, t0n], some steps =>
      let (_, out) := steps.foldl (fun (acc : Hist × List String) st =>
        let (h, ok) := processOnce acc.1 st.outcome st.data st.now
        (h, showHist ok h :: acc.2)) (Hist.new keep ⟨t0s, t0n⟩, [])
      joinWith ";" out.reverse
    | _, _ => "bad-op"
  | _ => "bad-op"

end RoutinatorModel.Drv
