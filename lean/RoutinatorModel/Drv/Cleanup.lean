import RoutinatorModel.Model.Cleanup
import RoutinatorModel.Drv.Store
/-! Driver for the cleanup model: `cleanup ( <engine request> ( ( uri key )* ) )`.

`<engine request>` is the request of the `engine` component; the second list maps every URI
(manifest URIs, caRepository URIs, trust anchor URIs) to the key of its rsync module.

Reply, per run (runs joined by ` | `): the reply of the `store` component without `x=`, followed
by ` m=<keys of the local copies that exist, sorted>`. -/
namespace RoutinatorModel.Drv
open RoutinatorModel.Engine RoutinatorModel.StoreFile RoutinatorModel.Cleanup

namespace CleanupDrv
open EngineDrv StoreDrv

def sentinel : Nat := 4294967295

def pair? : Sexp → Option (Nat × Nat)
  | .list [a, b] => do pure (← a.nat?, ← b.nat?)
  | _ => none

def showRunC (out : List Item × Cache) : String :=
  let files := sortBy (fun (p : Uri × PointFile) => p.1) out.2.store.files
  let tas := sortBy (fun (p : Uri × TaFile) => p.1) out.2.store.tas
  "i=" ++ joinWith "," ((sortDedup out.1).map toString) ++
  " f=" ++ joinWith ";" (files.map showFile) ++
  " t=" ++ joinWith ";" (tas.map fun p => s!"{p.1}:{p.2.id}") ++
  " m=" ++ joinWith "," ((sortDedup out.2.repos).map toString)

def runAllC (keyOf : Uri → RepoKey) (cfg : Cfg) (tals : List Tal) :
    List RunReq → Cache → List String
  | [], _ => []
  | r :: rest, c =>
    let store := r.tampers.foldl applyTamperF c.store
    let out := runFullC keyOf keyOf false cfg tals r.run { c with store := store }
    showRunC out :: runAllC keyOf cfg tals rest out.2

end CleanupDrv

open EngineDrv CleanupDrv in
def runCleanup (arg : String) : String :=
  match Sexp.parse arg with
  | some (.list [.list [_fix, cfg, tals, runs], keys]) =>
    match cfg? cfg, tals.list?.bind (·.mapM tal?), runs.list?.bind (·.mapM run?),
        keys.list?.bind (·.mapM pair?) with
    | some cfg, some tals, some runs, some keys =>
      let keyOf : Uri → Cleanup.RepoKey := fun u => (lookup u keys).getD sentinel
      let lines := runAllC keyOf cfg tals runs ⟨⟨[], []⟩, []⟩
      let text := joinWith " | " lines
      if (text.splitOn (toString sentinel)).length > 1 then "bad-op" else text
    | _, _, _, _ => "bad-op"
  | _ => "bad-op"

end RoutinatorModel.Drv
