import RoutinatorModel.Model.Registry
import RoutinatorModel.Drv.Util
/-!
Driver for C36.

`c36 <pre>|<conns>|<schedule>` — `pre` = addresses (ranks) registered one after the other by
complete connect/close cycles before the threads start; `conns` = per thread the addresses it
connects from, one connection after the other (`3,5;3` = thread 0 connects from 3, closes,
connects from 5, closes; thread 1 connects from 3, closes); `schedule` = thread ids, one per
replayed segment. Reply: after every segment `<tid>:<point>[<addr>:<count>,…|<global>]` (the
point reached, the published list with the open-connection counts, the global count), then
`fin=1` iff every thread has finished. A segment the model does not enable gives `disabled@<i>`.

`c36n <pre>|<conns>` — number of maximal schedules of the scenario and how many end stuck.
-/
namespace RoutinatorModel.Drv
open RoutinatorModel RoutinatorModel.Registry

structure RSt where
  st : St
  conns : List (List Nat)

def rPcName : Pc → String
  | .idle => "end"
  | .start _ => "start"
  | .lockw _ => "lock"
  | .locked _ => "locked"
  | .relret .. => "relret"
  | .store .. => "store"
  | .stored .. => "stored"
  | .got .. => "got"
  | .incC .. => "incC"
  | .open .. => "open"
  | .decC .. => "decC"

def showReg (s : St) : String :=
  let items := s.cell.map fun (a, e) => s!"{a}:{s.cnt e}"
  s!"[{joinWith "," items}|{s.global}]"

def rstep (d : RSt) (t : Nat) : Option (RSt × String) :=
  match d.st.pc t with
  | .idle =>
    match d.conns[t]? with
    | some (a :: rest) =>
      match macroStep d.st (t, .connect a) with
      | some st' =>
        some ({ st := st', conns := d.conns.set t rest }, s!"{t}:{rPcName (st'.pc t)}{showReg st'}")
      | none => none
    | _ => none
  | _ =>
    match macroStep d.st (t, .step) with
    | some st' => some ({ d with st := st' }, s!"{t}:{rPcName (st'.pc t)}{showReg st'}")
    | none => none

/-- A complete connect/close cycle of a setup thread (ids above the scenario's threads). -/
def registerPre (st : St) (tid a : Nat) : Option St := do
  let s ← macroStep st (tid, .connect a)
  let rec go (fuel : Nat) (s : St) : Option St :=
    match fuel with
    | 0 => none
    | fuel + 1 =>
      match s.pc tid with
      | .idle => some s
      | _ => match macroStep s (tid, .step) with
        | some s' => go fuel s'
        | none => none
  go 12 s

def rfinished (d : RSt) : Bool :=
  (List.range d.conns.length).all (fun t => (d.st.pc t == .idle) && (d.conns[t]? == some []))

def rreplay : RSt → List Nat → Nat → List String → Except String (RSt × List String)
  | d, [], _, acc => .ok (d, acc.reverse)
  | d, t :: ts, i, acc =>
    match rstep d t with
    | some (d', ev) => rreplay d' ts (i + 1) (ev :: acc)
    | none => .error s!"disabled@{i}"

def parseConns (s : String) : Option (List (List Nat)) :=
  (s.splitOn ";").mapM (fun t => commaNats t)

def rinit (pre : List Nat) (conns : List (List Nat)) : Option RSt := do
  let n := conns.length
  let st ← (pre.zipIdx).foldlM (fun st (a, i) => registerPre st (n + i) a) St.init
  pure { st := st, conns := conns }

def runC36 (arg : String) : String :=
  match arg.splitOn "|" with
  | [pre, conns, sched] =>
    match commaNats pre.trimAscii.toString, parseConns conns.trimAscii.toString, nats sched with
    | some pre, some conns, some sched =>
      if sched.any (fun t => t ≥ conns.length) then "bad-op" else
      match rinit pre conns with
      | none => "bad-op"
      | some d0 =>
        match rreplay d0 sched 0 [] with
        | .ok (d, evs) => s!"I={showReg d0.st} T={joinWith " " evs} fin={showBool (rfinished d)}"
        | .error e => e
    | _, _, _ => "bad-op"
  | _ => "bad-op"

def rcount : Nat → RSt → Nat × Nat
  | 0, _ => (0, 0)
  | fuel + 1, d =>
    let nexts := (List.range d.conns.length).filterMap (fun t => (rstep d t).map (·.1))
    if nexts.isEmpty then (1, if rfinished d then 0 else 1)
    else nexts.foldl (fun acc d' => let r := rcount fuel d'; (acc.1 + r.1, acc.2 + r.2)) (0, 0)

def runC36n (arg : String) : String :=
  match arg.splitOn "|" with
  | [pre, conns] =>
    match commaNats pre.trimAscii.toString, parseConns conns.trimAscii.toString with
    | some pre, some conns =>
      match rinit pre conns with
      | none => "bad-op"
      | some d0 =>
        let total := (conns.map List.length).foldl (· + ·) 0
        let r := rcount (total * 10 + 1) d0
        s!"n={r.1} stuck={r.2}"
    | _, _ => "bad-op"
  | _ => "bad-op"

end RoutinatorModel.Drv
