import RoutinatorModel.Model.Stream
import RoutinatorModel.Drv.Json
/-!
Driver for C18.

* `c18d <tau> <session> <to> <from> <generated> <time> <actions…>` with actions `+o asn addr len max`,
  `-o …`, `±k keyid asn info`, `±a customer n p1 … pn` in delta order,
* `c18s <tau> <session> <to> <generated> <time> <items…>` with items `o …`, `k …`, `a …`.

Fields are ASCII words. Reply: `chunks=<lengths> len=… h=… ok=… json=…`.
-/
namespace RoutinatorModel.Drv
open RoutinatorModel.Json RoutinatorModel.Stream

def asciiText (w : String) : Text := w.toList.map Char.toNat

/-- Parses items; `signed` = each item is preceded by `+`/`-` glued to its type letter. -/
def parseItems (signed : Bool) : Nat → List String → Option (List (Item × Bool))
  | 0, _ => none
  | _ + 1, [] => some []
  | fuel + 1, w :: ws =>
    let (ann, kind) :=
      if signed then (w.startsWith "+", (w.drop 1).toString) else (true, w)
    if signed && !(w.startsWith "+" || w.startsWith "-") then none else
    match kind, ws with
    | "o", asn :: addr :: len :: max :: rest => do
      let r ← parseItems signed fuel rest
      pure ((.origin (asciiText asn) (asciiText addr) (asciiText len) (asciiText max), ann) :: r)
    | "k", keyId :: asn :: info :: rest => do
      let r ← parseItems signed fuel rest
      pure ((.routerKey (asciiText keyId) (asciiText asn) (asciiText info), ann) :: r)
    | "a", cust :: n :: rest => do
      let n ← n.toNat?
      if rest.length < n then none else
      let r ← parseItems signed fuel (rest.drop n)
      pure ((.aspa (asciiText cust) ((rest.take n).map asciiText), ann) :: r)
    | _, _ => none

def showChunks (cs : List Text) : String := showCommaNats (cs.map List.length)

def runC18d (arg : String) : String :=
  match words arg with
  | tau :: session :: toS :: frm :: gen :: time :: items =>
    match tau.toNat?, parseItems true (items.length + 1) items with
    | some tau, some actions =>
      let d : Delta := ⟨asciiText session, asciiText toS, asciiText frm, asciiText gen,
        asciiText time, actions⟩
      let cs := deltaChunks tau d
      let doc := cs.flatten
      s!"chunks={showChunks cs} {showSum doc} ok={showBool d.okB} json={showBool (recognise doc)}"
    | _, _ => "bad-op"
  | _ => "bad-op"

def runC18s (arg : String) : String :=
  match words arg with
  | tau :: session :: toS :: gen :: time :: items =>
    match tau.toNat?, parseItems false (items.length + 1) items with
    | some tau, some items =>
      let s : Snapshot := ⟨asciiText session, asciiText toS, asciiText gen, asciiText time,
        items.map (·.1)⟩
      let cs := snapshotChunks tau s
      let doc := cs.flatten
      s!"chunks={showChunks cs} {showSum doc} ok={showBool s.okB} json={showBool (recognise doc)}"
    | _, _ => "bad-op"
  | _ => "bad-op"

end RoutinatorModel.Drv
