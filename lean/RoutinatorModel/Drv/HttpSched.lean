import RoutinatorModel.Model.Notify
import RoutinatorModel.Drv.Util
/-!
Driver for the schedule properties of group "httpsched".

`c17 <active|inactive> <serial0> <presented> <runs> | <schedule>`: replays a schedule (a list of
actor names, `U` = updater, `H` = notify handler; one entry = "run this actor to its next point")
on `Notify.sys` (repaired order) and prints, per step, the points reached — in the vocabulary of the
harness scheduler's event log — and the served serial, then the results. After every step a blocked
handler with a pending notification is woken (as the tokio runtime does).
-/
namespace RoutinatorModel.Drv
open RoutinatorModel RoutinatorModel.Notify

def c17Presented (kind : String) (serial0 : Nat) : Option (Option (Nat × Nat)) :=
  match kind with
  | "current" => some (some (0, serial0))
  | "older" => some (some (0, (serial0 + 4294967295) % 4294967296))
  | "older2" => some (some (0, (serial0 + 4294967294) % 4294967296))
  | "older3" => some (some (0, (serial0 + 4294967293) % 4294967296))
  | "next" => some (some (0, (serial0 + 1) % 4294967296))
  | "other-session" => some (some (1, serial0))
  | "none" => some none
  | _ => none

structure C17Run where
  st : State
  runs : List Char
  udone : Bool
  out : List String

def showServed (s : State) : String := toString s.serial ++ (if s.active then "a" else "i")

/-- Events of a handler step, from the program counters before and after. -/
def hEvents (before after : State) : String :=
  match after.hpc with
  | .subscribed => "@http-notify:subscribed"
  | .reading => "@history:read"
  | .checked => "@http-notify:checked"
  | .blocked => "blocked"
  | .answering =>
    if before.wait && (before.hpc == .checked || before.hpc == .blocked)
    then "http-notify:woken,@history:read" else "@history:read"
  | .done => "done"
  | .new => "?"

def c17Step (p : Params) (r : C17Run) (actor : String) : Option C17Run :=
  let wakeAfter (r : C17Run) (rec : String) : C17Run :=
    match step p r.st .wake with
    | some s' =>
      { r with st := s', out := r.out ++ [rec ++ "+H[" ++ hEvents r.st s' ++ "]=" ++ showServed s'] }
    | none => { r with out := r.out ++ [rec ++ "=" ++ showServed r.st] }
  match actor with
  | "U" =>
    if r.udone then none else
    match r.runs with
    | [] => none
    | c :: rest =>
      match step p r.st (.u (c == 'c')) with
      | none => none
      | some s' =>
        match r.st.upc with
        | .idle => some (wakeAfter { r with st := s' } "U[run,@history:write]")
        | .start => some (wakeAfter { r with st := s' } "U[@history:read]")
        | .read => some (wakeAfter { r with st := s' } "U[@history:write]")
        | .install =>
          -- the run's kind must agree with the history: 'f' iff this is the first install
          if (c == 'f') != (!r.st.active) then none
          else some (wakeAfter { r with st := s' } "U[server:updated,@history:write]")
        | .mark => some (wakeAfter { r with st := s' } "U[@server:marked-done]")
        | .notify =>
          if rest.isEmpty then
            some (wakeAfter { r with st := s', runs := rest, udone := true } "U[server:notified,done]")
          else
            some (wakeAfter { r with st := s', runs := rest } "U[server:notified,run,@history:write]")
  | "H" =>
    match step p r.st .h with
    | none => none
    | some s' => some { r with st := s', out := r.out ++ ["H[" ++ hEvents r.st s' ++ "]=" ++ showServed s'] }
  | _ => none

def c17Result (r : C17Run) (nruns : Nat) : String :=
  let h := match r.st.hpc, r.st.answer with
    | .done, some (sess, ser) => "200:" ++ (if sess == 0 then "same" else toString sess) ++ ":" ++ toString ser
    | .blocked, _ => "blocked"
    | _, _ => "unfinished"
  let u := if r.udone then joinWith "," (List.replicate nruns "ok") else "unfinished"
  joinWith " ; " r.out ++ " | H=" ++ h ++ " U=" ++ u

def runC17 (arg : String) : String :=
  match arg.splitOn " | " with
  | [hd, sched] =>
    match words hd with
    | [act, ser, kind, runs] =>
      match ser.toNat?, c17Presented kind 0 with
      | some serial0, some _ =>
        match c17Presented kind serial0 with
        | none => "bad-op"
        | some pres =>
          if act != "active" && act != "inactive" then "bad-op" else
          let p : Params := { order := .subscribeFirst, session := 0, presented := pres }
          let runs := if runs == "-" then [] else runs.toList
          if runs.any (fun c => c != 'c' && c != 'n' && c != 'f') then "bad-op" else
          let r0 : C17Run := { st := init (act == "active") serial0, runs := runs, udone := false, out := [] }
          match (words sched).foldlM (c17Step p) r0 with
          | none => "not-enabled"
          | some r => c17Result r runs.length
      | _, _ => "bad-op"
    | _ => "bad-op"
  | _ => "bad-op"

end RoutinatorModel.Drv
