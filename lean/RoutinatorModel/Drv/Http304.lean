import RoutinatorModel.Model.Http304
import RoutinatorModel.Drv.Util
namespace RoutinatorModel.Drv
open RoutinatorModel

/-! ### C16

`c16 <clock0> <prelude> <runs> <from> <etag> <ims> | <schedule>` with `<prelude>`/`<runs>` =
comma-separated `<clock ns>:<f|c|n>` (`-` for none). The prelude runs are executed completely, each
followed by an unconditional request whose validators can be presented by the scheduled request
`P` (`from` = index of the prelude response). Replays on `Http304.sys .repaired`. -/
namespace C16
open RoutinatorModel.Http304

def parseRuns (s : String) : Option (List (Nat × Char)) :=
  if s == "-" then some [] else
  (s.splitOn ",").mapM fun item =>
    match item.splitOn ":" with
    | [t, k] =>
      match t.toNat?, k.toList with
      | some t, [c] => if c == 'f' || c == 'c' || c == 'n' then some (t, c) else none
      | _, _ => none
    | _ => none

def showServed (s : State) : String :=
  toString (serialOf s.ver) ++ (if s.active then "a" else "i")

def showResp (r : Resp) : String :=
  match r.validators with
  | some v => toString r.status ++ ":" ++ (if v.etag.1 == 0 then "same" else "other") ++ ":" ++
      toString v.etag.2 ++ ":" ++ toString v.lm
  | none => toString r.status

def stp (s : State) (l : Label) : Option State := step .repaired 0 s l

/-- A complete run from wherever the updater is parked between runs. -/
def fullRun (s : State) (t : Nat) (c : Char) : Option State := do
  let s ← stp s (.clock t)
  let s ← if s.upc == .idle then stp s (.u false) else some s
  if s.upc != .start then none else
  if (c == 'f') != (!s.active) then none else
  let ch := c == 'c'
  let s ← stp s (.u ch)
  let s ← stp s (.u ch)
  let s ← stp s (.u ch)
  let s ← stp s (.u ch)
  stp s (.u ch)

structure Run where
  st : State
  runs : List (Nat × Char)
  ustarted : Bool
  udone : Bool
  pstate : Nat          -- 0 new, 1 parked at history:read, 2 done
  req : Request
  out : List String

def c16Step (r : Run) (actor : String) : Option Run :=
  let emit (r : Run) (s' : State) (rec : String) : Run :=
    { r with st := s', out := r.out ++ [rec ++ "=" ++ showServed s'] }
  match actor with
  | "U" =>
    if r.udone then none else
    match r.runs with
    | [] => none
    | (t, c) :: rest =>
      if !r.ustarted then
        -- thread start: set the clock, run to the first lock
        match stp r.st (.clock t) with
        | none => none
        | some s =>
          match (if s.upc == .idle then stp s (.u false) else some s) with
          | none => none
          | some s' => some (emit { r with ustarted := true } s' "U[run,@history:write]")
      else
        match r.st.upc with
        | .idle => none
        | .start => (stp r.st (.u false)).map fun s' => emit r s' "U[@history:read]"
        | .read => (stp r.st (.u false)).map fun s' => emit r s' "U[@history:write]"
        | .install =>
          if (c == 'f') != (!r.st.active) then none
          else (stp r.st (.u (c == 'c'))).map fun s' => emit r s' "U[server:updated,@history:write]"
        | .mark => (stp r.st (.u false)).map fun s' => emit r s' "U[@server:marked-done]"
        | .notify =>
          match stp r.st (.u false), rest with
          | none, _ => none
          | some s', [] => some (emit { r with runs := rest, udone := true } s' "U[server:notified,done]")
          | some s', (t2, _) :: _ =>
            (stp s' (.clock t2)).map fun s'' =>
              emit { r with runs := rest } s'' "U[server:notified,run,@history:write]"
  | "P" =>
    match r.pstate with
    | 0 => some (emit { r with pstate := 1 } r.st "P[@history:read]")
    | 1 => (stp r.st (.req r.req)).map fun s' =>
        emit { r with pstate := 2 } s' "P[http-payload:read-done,done]"
    | _ => none
  | _ => none

def runC16 (arg : String) : String :=
  match arg.splitOn " | " with
  | [hd, sched] =>
    match words hd with
    | [clock0, prelude, runs, fromS, etagS, imsS] =>
      match clock0.toNat?, parseRuns prelude, parseRuns runs, fromS.toNat?, etagS.toNat?, imsS.toNat? with
      | some clock0, some prelude, some runs, some frm, some etag, some ims =>
        -- the prelude: complete runs, each followed by an unconditional request
        let plain : Request := { inm := [], star := false, ims := none }
        let pre := prelude.foldlM (fun (acc : State × List Resp) (tc : Nat × Char) => do
          let s ← fullRun acc.1 tc.1 tc.2
          let s ← stp s (.req plain)
          match s.resps with
          | r :: _ => some (s, acc.2 ++ [r])
          | [] => none) (init clock0, [])
        match pre with
        | none => "bad-op"
        | some (s0, pres) =>
          match pres[frm]? with
          | none => "bad-op"
          | some pr =>
            match pr.validators with
            | none => "bad-op"
            | some v =>
              let req : Request :=
                { inm := if etag == 1 then [v.etag] else [], star := false,
                  ims := if ims == 1 then some v.lm else none }
              let r0 : Run := { st := s0, runs := runs, ustarted := false, udone := false,
                                pstate := 0, req := req, out := [] }
              match (words sched).foldlM c16Step r0 with
              | none => "not-enabled"
              | some r =>
                let p := if r.pstate == 2 then
                    match r.st.resps with
                    | x :: _ => showResp x
                    | [] => "?"
                  else "unfinished"
                let u := if r.udone then joinWith "," (List.replicate runs.length "ok") else "unfinished"
                "pre=" ++ joinWith "," (pres.map showResp) ++ " ; " ++ joinWith " ; " r.out ++
                  " | P=" ++ p ++ " U=" ++ u
      | _, _, _, _, _, _ => "bad-op"
    | _ => "bad-op"
  | _ => "bad-op"

end C16

end RoutinatorModel.Drv
