import RoutinatorModel.Model.FsCrash
import RoutinatorModel.Drv.Sexp
import RoutinatorModel.Drv.Util
/-! Driver for the crash model: `fscrash ( ( ( path size )* ) ( op* ) k ( version* ) )`.

`( path size )`: the files that exist before the run (`size` in bytes); `op` is `( c p )`
create/truncate, `( w p n )` write of `n` bytes, `( r p q )` rename, `( u p )` unlink; `k` the
number of operations completed before the kill; `version*` the point files that hold a complete
stored version after the uninterrupted run. Path numbers carry the class of the path:
1000… stored publication points, 2000… trust anchor certificates, 3000 the status file, 4000…
temporary files, 5000… everything else in the cache directory.

Reply: `steps=<class counts of the protocol steps recognised in the whole trace>[,deviation=<n>:
n stored versions were written in place instead of through a temporary file] state=<path:size
or path:- for every non-temporary path of the trace after k operations>`. -/
namespace RoutinatorModel.Drv
open RoutinatorModel.FsCrash

namespace FsCrashDrv

def op? : Sexp → Option TOp
  | .list [.atom "c", p] => do pure (.create (← p.nat?))
  | .list [.atom "w", p, n] => do pure (.write (← p.nat?) (← n.nat?))
  | .list [.atom "r", p, q] => do pure (.rename (← p.nat?) (← q.nat?))
  | .list [.atom "u", p] => do pure (.unlink (← p.nat?))
  | _ => none

def init? : Sexp → Option (Path × Option Nat)
  | .list [p, size] => do pure (← p.nat?, some (← size.nat?))
  | _ => none

def classOf (p : Path) : String :=
  if p < 1000 then "bad" else if p < 2000 then "point" else if p < 3000 then "ta"
  else if p < 4000 then "status" else if p < 5000 then "tmp" else "other"

def shapeKey : Shape → String
  | .replace _ p => "replace/" ++ classOf p
  | .rewrite p => "rewrite/" ++ classOf p
  | .remove p => "remove/" ++ classOf p
  | .stray _ => "stray"

def keys : List String :=
  ["replace/point", "rewrite/point", "remove/point", "replace/ta", "rewrite/ta", "remove/ta",
   "replace/status", "rewrite/status", "remove/status", "replace/other", "rewrite/other",
   "remove/other", "replace/tmp", "rewrite/tmp", "remove/tmp", "stray"]

def opPaths : TOp → List Path
  | .create p => [p]
  | .write p _ => [p]
  | .rename p q => [p, q]
  | .unlink p => [p]

def insertNatS (x : Nat) : List Nat → List Nat
  | [] => [x]
  | y :: ys => if x < y then x :: y :: ys else if x = y then y :: ys else y :: insertNatS x ys

def showState (init : Sizes) (ops : List TOp) (k : Nat) : String :=
  let st := traceState init ops k
  let paths := (init.map (·.1) ++ ops.flatMap opPaths).foldr insertNatS []
  let shown := paths.filter (fun p => classOf p != "tmp")
  joinWith "," (shown.map fun p =>
    match sizeOf st p with
    | some n => s!"{p}:{n}"
    | none => s!"{p}:-")

def showSteps (ops : List TOp) (versions : List Path) : String :=
  let recognised := recognise ops []
  let shapes := recognised.map shapeKey
  let counts := keys.filterMap fun key =>
    let n := (shapes.filter (· == key)).length
    if n == 0 then none else some s!"{key}={n}"
  let bad := (inPlaceVersions recognised versions).length
  joinWith "," (counts ++ (if bad == 0 then [] else [s!"deviation={bad}"]))

end FsCrashDrv

open FsCrashDrv in
def runFsCrash (arg : String) : String :=
  match Sexp.parse arg with
  | some (.list [inits, ops, k, versions]) =>
    match inits.list?.bind (·.mapM init?), ops.list?.bind (·.mapM op?), k.nat?, versions.nats? with
    | some inits, some ops, some k, some versions =>
      if k > ops.length then "bad-op"
      else "steps=" ++ showSteps ops versions ++ " state=" ++ showState inits ops k
    | _, _, _, _ => "bad-op"
  | _ => "bad-op"

end RoutinatorModel.Drv
