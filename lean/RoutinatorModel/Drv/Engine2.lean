import RoutinatorModel.Model.Engine2
import RoutinatorModel.Drv.Engine
/-! Driver for the engine model with bookkeeping: `engine2 <s-expression>` (same request as
`engine`). Replies the `engine` reply, then ` || `, then per run `r=<refresh> d=<bound>`
(`-` = none) joined by ` | `: the snapshot's refresh time and the minimum of the dates on the
chains of the contributing publication points (the ghost `dates`). -/
namespace RoutinatorModel.Drv
open RoutinatorModel.Engine

namespace Engine2Drv
open EngineDrv

/-- The earliest date on the chains of the contributing points. -/
def boundOf (visits : List Visit) : Option Int :=
  ((visits.filter Visit.contributes).flatMap (·.point.dates)).foldl minOpt none

def showOpt : Option Int → String
  | none => "-"
  | some x => toString x

def runAllX (cfg : Cfg) (tals : List Tal) : List RunReq → Store → List String
  | [], _ => []
  | r :: rest, store =>
    let store := r.tampers.foldl applyTamper store
    let out := runFullX cfg (r.tals.getD tals) r.run store
    s!"r={showOpt (snapshotRefresh out.1)} d={showOpt (boundOf out.1)}"
      :: runAllX cfg tals rest out.2

end Engine2Drv

open EngineDrv Engine2Drv in
def runEngine2 (arg : String) : String :=
  match Sexp.parse arg with
  | some (.list [fix, cfg, tals, runs]) =>
    match fix.bool?, cfg? cfg, tals.list?.bind (·.mapM tal?), runs.list?.bind (·.mapM run?) with
    | some true, some cfg, some tals, some runs =>
      runEngine arg ++ " || " ++ joinWith " | " (runAllX cfg tals runs ⟨[], []⟩)
    | _, _, _, _ => "bad-op"
  | _ => "bad-op"

end RoutinatorModel.Drv
