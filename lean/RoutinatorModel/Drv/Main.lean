import RoutinatorModel.Drv.Util
/-! The common driver loop: one request per input line `<component> <args…>`, one reply line. -/
namespace RoutinatorModel.Drv

def splitRequest (line : String) : String × String :=
  let line := line.trimAscii.toString
  match line.splitOn " " with
  | [] => ("", "")
  | c :: rest => (c, " ".intercalate rest)

partial def loop (dispatch : String → String → String) (h out : IO.FS.Stream) : IO Unit := do
  let line ← h.getLine
  if line.isEmpty then return ()
  let (comp, arg) := splitRequest line
  out.putStrLn (if comp == "skip" then "skip" else dispatch comp arg)
  loop dispatch h out

def mainWith (dispatch : String → String → String) : IO Unit := do
  let stdin ← IO.getStdin
  let stdout ← IO.getStdout
  loop dispatch stdin stdout

end RoutinatorModel.Drv
