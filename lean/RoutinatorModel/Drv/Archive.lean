import RoutinatorModel.Model.Archive
import RoutinatorModel.Drv.Util
/-!
Driver for C26: `c26 <mode>|<msz>|<hex:bucket …>|<op …>`.

* mode `full` prints the layout after every operation, `hash` prints its FNV-1a-64 instead
  (and the full layout once at the end);
* names are given once as a table (`-` = the empty name) with the *real* bucket of each
  name; operations refer to names by index;
* op tokens: `A,i,meta,data` (AppendArchive::publish), `Z` (finalize + open),
  `P,i,meta,data`, `U,i,meta,data,exp`, `D,i,exp`, `F,i`, `G,i,exp`, `R`;
  `meta` is hex (`-` = empty), `data` is `len.b` (bytes `(b+j) % 251`), `exp` is `*` (check
  always passes) or hex (check passes iff the stored meta equals it).
Reply: one `result@layout` per operation (`=` for an unchanged layout), joined by `;`, then
`;L=<final layout>;V=<verify>;O=<names in objects() order>`.
-/
namespace RoutinatorModel.Drv
open RoutinatorModel.Archive

def hexVal (c : Char) : Option Nat :=
  if '0' ≤ c ∧ c ≤ '9' then some (c.toNat - '0'.toNat)
  else if 'a' ≤ c ∧ c ≤ 'f' then some (c.toNat - 'a'.toNat + 10)
  else none

def hexList : List Char → Option (List Nat)
  | [] => some []
  | [_] => none
  | a :: b :: r => do
    let x ← hexVal a
    let y ← hexVal b
    let rest ← hexList r
    pure ((x * 16 + y) :: rest)

def parseHex (s : String) : Option Bytes :=
  if s == "-" then some [] else if s == "" then none else hexList s.toList

def hexDigit (n : Nat) : Char :=
  if n < 10 then Char.ofNat ('0'.toNat + n) else Char.ofNat ('a'.toNat + n - 10)

def showHex (b : Bytes) : String :=
  if b.isEmpty then "-" else String.ofList (b.flatMap fun x => [hexDigit (x / 16), hexDigit (x % 16)])

def pattern (len b : Nat) : Bytes := (List.range len).map fun j => (b + j) % 251

def parseData (s : String) : Option Bytes :=
  match s.splitOn "." with
  | [l, b] => do
    let l ← l.toNat?
    let b ← b.toNat?
    pure (pattern l b)
  | _ => none

def showData (d : Bytes) : String :=
  let b := d.headD 0
  if d == pattern d.length b then s!"{d.length}.{b}" else "x" ++ showHex d

def parseExp (s : String) : Option (Bytes → Bool) :=
  if s == "*" then some (fun _ => true)
  else (parseHex s).map fun e => fun m => m == e

structure Table where
  names : List (Bytes × Nat)

def Table.hash (t : Table) (n : Bytes) : Nat :=
  match t.names.find? (fun e => e.1 == n) with
  | some e => e.2
  | none => 0

def Table.idx (t : Table) (n : Bytes) : String :=
  match t.names.findIdx? (fun e => e.1 == n) with
  | some i => toString i
  | none => "x" ++ showHex n

def parseTable (s : String) : Option Table := do
  let es ← (words s).mapM fun w =>
    match w.splitOn ":" with
    | [h, b] => do
      let n ← parseHex h
      let b ← b.toNat?
      pure (n, b)
    | _ => none
  pure ⟨es⟩

inductive DOp
  | app (n m d : Bytes)
  | fin
  | op (o : Op)

def parseOp (t : Table) (tok : String) : Option DOp := do
  let name := fun (s : String) => do
    let i ← s.toNat?
    let e ← t.names[i]?
    pure e.1
  match tok.splitOn "," with
  | ["A", i, m, d] => pure (.app (← name i) (← parseHex m) (← parseData d))
  | ["Z"] => pure .fin
  | ["P", i, m, d] => pure (.op (.publish (← name i) (← parseHex m) (← parseData d)))
  | ["U", i, m, d, e] => pure (.op (.update (← name i) (← parseHex m) (← parseData d) (← parseExp e)))
  | ["D", i, e] => pure (.op (.delete (← name i) (← parseExp e)))
  | ["F", i] => pure (.op (.fetch (← name i)))
  | ["G", i, e] => pure (.op (.fetchIf (← name i) (← parseExp e)))
  | ["R"] => pure (.op .reopen)
  | _ => none

def showOut : Out → String
  | .ok => "ok"
  | .data d => "data=" ++ showData d
  | .alreadyExists => "exists"
  | .notFound => "notfound"
  | .inconsistent => "inconsistent"
  | .corrupt => "corrupt"

def showBlock (t : Table) (b : Block) : String :=
  match b.body with
  | .empty => s!"{b.pos}:{b.size}:E"
  | .obj n m d => s!"{b.pos}:{b.size}:{t.idx n}:{showHex m}:{showData d}"

def dedupSorted : List Nat → List Nat
  | [] => []
  | [x] => [x]
  | x :: y :: r => if x = y then dedupSorted (y :: r) else x :: dedupSorted (y :: r)

def insertNat (x : Nat) : List Nat → List Nat
  | [] => [x]
  | y :: r => if x ≤ y then x :: y :: r else y :: insertNat x r

def tableBuckets (t : Table) : List Nat :=
  dedupSorted ((t.names.map (·.2)).foldr insertNat [])

def showStats (s : Stats) : String :=
  s!"{s.objectCount},{s.objectSize},{s.paddingSize},{s.emptyCount},{s.emptySize},{s.emptyMin},{s.emptyMax}"

def showLayout (c : Cfg) (t : Table) (f : File) : String :=
  let bl := joinWith " " (f.blocks.map (showBlock t))
  let bk := joinWith " " ((tableBuckets t).filterMap fun k =>
    let l := getB f.buckets k
    if l.isEmpty then none else some s!"{k}={showCommaNats l}")
  s!"{f.size}|{bl}|{bk}|{showCommaNats f.empties}|{showStats (stats c f)}"

def fnv (s : String) : UInt64 :=
  s.foldl (fun h ch => (h ^^^ ch.toNat.toUInt64) * 1099511628211) 14695981039346656037

def runC26 (arg : String) : String :=
  match arg.splitOn "|" with
  | [mode, msz, tab, ops] =>
    match msz.trimAscii.toString.toNat?, parseTable tab with
    | some msz, some t =>
      let mode := mode.trimAscii.toString
      if mode != "full" && mode != "hash" then "bad-op" else
      match (words ops).mapM (parseOp t) with
      | none => "bad-op"
      | some dops =>
        let c : Cfg := { hash := t.hash, msz := msz }
        -- the layout (or its hash), `=` when it is the same text as after the previous operation
        let lay := fun (prev : String) (f : File) =>
          let s := showLayout c t f
          (if s == prev then "=" else if mode == "full" then s else toString (fnv s).toNat, s)
        -- state: file, phase (0 = start, 1 = AppendArchive, 2 = Archive), outputs (reversed),
        -- previous layout, ok
        let (f, _, outs, _, ok) :=
          dops.foldl (fun (acc : File × Nat × List String × String × Bool) d =>
          let (f, phase, outs, prev, ok) := acc
          match d with
          | .app n m dd =>
            if phase ≤ 1 then
              let r := appendStep c f n m dd
              (r.1, 1, showOut r.2 :: outs, prev, ok)
            else (f, phase, outs, prev, false)
          | .fin =>
            if phase ≤ 1 then
              let l := lay prev f
              (f, 2, ("ok@" ++ l.1) :: outs, l.2, ok)
            else (f, phase, outs, prev, false)
          | .op o =>
            if phase = 1 then (f, phase, outs, prev, false)
            else
              let r := step c f o
              let l := lay prev r.1
              (r.1, 2, (showOut r.2 ++ "@" ++ l.1) :: outs, l.2, ok))
          (init, 0, [], "", true)
        if !ok then "bad-op"
        else
          let objs := match objects c f with
            | none => "corrupt"
            | some l => joinWith "," (l.map fun e => t.idx e.1)
          joinWith ";" outs.reverse ++ ";L=" ++ showLayout c t f ++ ";V=" ++ showBool (verify c f)
            ++ ";O=" ++ objs
    | _, _ => "bad-op"
  | _ => "bad-op"

end RoutinatorModel.Drv
