import RoutinatorModel.Model.Paths
/-! Helper lemmas for C30 (path confinement and distinctness). -/
namespace RoutinatorModel.Paths

/-! ## lower / canon -/
theorem lower_eq_47 {b : Nat} : lower b = 47 ↔ b = 47 := by
  unfold lower; split <;> omega
theorem lower_eq_46 {b : Nat} : lower b = 46 ↔ b = 46 := by
  unfold lower; split <;> omega

theorem canon_nil_iff {s : Str} : canon s = [] ↔ s = [] := by
  simp [canon]

theorem slash_mem_canon {s : Str} : 47 ∈ canon s ↔ 47 ∈ s := by
  induction s with
  | nil => simp [canon]
  | cons b t ih =>
    simp only [canon, List.map_cons, List.mem_cons] at ih ⊢
    rw [ih]
    constructor
    · rintro (h | h)
      · left; exact (lower_eq_47.mp h.symm).symm
      · right; exact h
    · rintro (h | h)
      · left; exact (lower_eq_47.mpr h.symm).symm
      · right; exact h

theorem canon_eq_dot {s : Str} : canon s = [46] ↔ s = [46] := by
  match s with
  | [] => simp [canon]
  | [b] => simp [canon, lower_eq_46]
  | _ :: _ :: _ => simp [canon]

theorem canon_eq_dotdot {s : Str} : canon s = [46, 46] ↔ s = [46, 46] := by
  match s with
  | [] => simp [canon]
  | [b] => simp [canon]
  | [a, b] => simp [canon, lower_eq_46]
  | _ :: _ :: _ :: _ => simp [canon]

theorem okSeg_canon {s : Str} (h : okSeg s) : okSeg (canon s) := by
  obtain ⟨h1, h2, h3, h4⟩ := h
  exact ⟨fun e => h1 (canon_nil_iff.mp e), fun e => h2 (slash_mem_canon.mp e),
    fun e => h3 (canon_eq_dot.mp e), fun e => h4 (canon_eq_dotdot.mp e)⟩

/-! ## split -/
theorem split_ne_nil (s : Str) : split s ≠ [] := by
  cases s with
  | nil => simp [split]
  | cons c cs =>
    simp only [split]
    split
    · simp
    · split <;> simp

theorem split_noslash {s : Str} (h : 47 ∉ s) : split s = [s] := by
  induction s with
  | nil => rfl
  | cons c cs ih =>
    have hc : c ≠ 47 := fun e => h (by simp [e])
    have hcs : 47 ∉ cs := fun e => h (by simp [e])
    simp [split, hc, ih hcs]

theorem split_append_slash (a b : Str) : split (a ++ 47 :: b) = split a ++ split b := by
  induction a with
  | nil => simp [split]
  | cons c cs ih =>
    by_cases hc : c = 47
    · simp [split, hc, ih]
    · simp only [List.cons_append, split, hc, if_false, ih]
      cases hs : split cs with
      | nil => exact absurd hs (split_ne_nil cs)
      | cons h t => simp

/-! ## step / resolveFrom -/
theorem step_nil (st : List Str) : step st [] = st := by simp [step]

theorem step_okSeg {st : List Str} {c : Str} (h : okSeg c) : step st c = st ++ [c] := by
  obtain ⟨h1, _, h3, h4⟩ := h
  simp [step, h1, h3, h4]

theorem resolveFrom_nil (st : List Str) : resolveFrom st [] = st := by
  simp [resolveFrom, split, step]

theorem resolveFrom_append_slash (st : List Str) (a b : Str) :
    resolveFrom st (a ++ 47 :: b) = resolveFrom (resolveFrom st a) b := by
  simp [resolveFrom, split_append_slash, List.foldl_append]

theorem resolveFrom_noslash {st : List Str} {a : Str} (h : 47 ∉ a) :
    resolveFrom st a = step st a := by
  simp [resolveFrom, split_noslash h]

theorem resolveFrom_okSeg {st : List Str} {a : Str} (h : okSeg a) :
    resolveFrom st a = st ++ [a] := by
  rw [resolveFrom_noslash h.2.1, step_okSeg h]

theorem resolveFrom_trailing_slash (st : List Str) (a : Str) :
    resolveFrom st (a ++ [47]) = resolveFrom st a := by
  rw [resolveFrom_append_slash, resolveFrom_nil]

theorem resolveFrom_joinSegs {segs : List Str} (h : ∀ s ∈ segs, okSeg s) (st : List Str) :
    resolveFrom st (joinSegs segs) = st ++ segs := by
  induction segs generalizing st with
  | nil => simp [joinSegs, resolveFrom_nil]
  | cons s t ih =>
    have hs : okSeg s := h s (by simp)
    have ht : ∀ x ∈ t, okSeg x := fun x hx => h x (by simp [hx])
    cases t with
    | nil => simp [joinSegs, resolveFrom_okSeg hs]
    | cons s2 t2 =>
      simp only [joinSegs]
      rw [resolveFrom_append_slash, resolveFrom_okSeg hs]
      have := ih ht (st ++ [s])
      rw [this]; simp

theorem resolveFrom_path {u : Rsync} (h : u.WF) (st : List Str) :
    resolveFrom st u.path = st ++ u.segs := by
  unfold Rsync.path
  cases hd : u.dir with
  | true =>
    simp only [if_true]
    rw [resolveFrom_trailing_slash, resolveFrom_joinSegs h.segs]
  | false =>
    simp [resolveFrom_joinSegs h.segs]

/-! ## heads (for `push`: the argument is never absolute) -/
theorem head_ne_slash_of_not_mem {s : Str} (h : 47 ∉ s) : s.head? ≠ some 47 := by
  cases s with
  | nil => simp
  | cons c cs =>
    intro e
    simp at e
    exact h (by simp [e])

theorem head_append_of_ne_nil {a b : Str} (h : a ≠ []) : (a ++ b).head? = a.head? := by
  cases a with
  | nil => exact absurd rfl h
  | cons c cs => simp

theorem joinSegs_head {segs : List Str} (h : ∀ s ∈ segs, okSeg s) :
    (joinSegs segs).head? ≠ some 47 := by
  match segs with
  | [] => simp [joinSegs]
  | [s] => exact head_ne_slash_of_not_mem (h s (by simp)).2.1
  | s :: s2 :: t =>
    have hs := h s (by simp)
    simp only [joinSegs]
    rw [head_append_of_ne_nil hs.1]
    exact head_ne_slash_of_not_mem hs.2.1

theorem path_head {u : Rsync} (h : u.WF) : u.path.head? ≠ some 47 := by
  unfold Rsync.path
  cases hs : u.segs with
  | nil =>
    have : u.dir = false := by
      cases hd : u.dir with
      | false => rfl
      | true => exact absurd hs (h.dir hd)
    simp [joinSegs, this]
  | cons s t =>
    have hne : joinSegs (s :: t) ≠ [] := by
      have := (h.segs s (by simp [hs])).1
      cases t <;> simp [joinSegs, this]
    rw [head_append_of_ne_nil hne]
    exact joinSegs_head (fun x hx => h.segs x (by simp [hs, hx]))

/-! ## push -/
theorem resolve_push {buf p : Str} (hp : p.head? ≠ some 47) :
    resolve (push buf p) = resolveFrom (resolve buf) p := by
  unfold push
  rw [if_neg hp]
  by_cases h1 : buf = []
  · simp [h1, resolve, resolveFrom_nil]
  · by_cases h2 : buf.getLast? = some 47
    · obtain ⟨b', hb⟩ := List.getLast?_eq_some_iff.mp h2
      simp only [h1, h2, or_true, if_true]
      subst hb
      unfold resolve
      rw [List.append_assoc]
      show resolveFrom [] (b' ++ 47 :: p) = _
      rw [resolveFrom_append_slash, resolveFrom_trailing_slash]
    · simp only [h1, h2, or_self, if_false]
      unfold resolve
      rw [resolveFrom_append_slash]

/-! ## hex -/
theorem hexDigit_inj {a b : Nat} (ha : a < 16) (hb : b < 16) (h : hexDigit a = hexDigit b) :
    a = b := by
  unfold hexDigit at h
  split at h <;> split at h <;> omega

theorem hexByte_inj {a b : Nat} (ha : a < 256) (hb : b < 256) (h : hexByte a = hexByte b) :
    a = b := by
  simp only [hexByte, List.cons.injEq, and_true] at h
  have ha1 : a / 16 < 16 := by omega
  have hb1 : b / 16 < 16 := by omega
  have ha2 : a % 16 < 16 := Nat.mod_lt _ (by omega)
  have hb2 : b % 16 < 16 := Nat.mod_lt _ (by omega)
  have h1 := hexDigit_inj ha1 hb1 h.1
  have h2 := hexDigit_inj ha2 hb2 h.2
  omega

theorem hex_inj {d e : List Nat} (hd : ∀ b ∈ d, b < 256) (he : ∀ b ∈ e, b < 256)
    (h : hex d = hex e) : d = e := by
  induction d generalizing e with
  | nil =>
    cases e with
    | nil => rfl
    | cons b bs => simp [hex, hexByte] at h
  | cons a as ih =>
    cases e with
    | nil => simp [hex, hexByte] at h
    | cons b bs =>
      simp only [hex, hexByte, List.cons_append, List.nil_append, List.cons.injEq] at h
      have hab : a = b := hexByte_inj (hd a (by simp)) (he b (by simp))
        (by simp [hexByte, h.1, h.2.1])
      have := ih (fun x hx => hd x (by simp [hx])) (fun x hx => he x (by simp [hx])) h.2.2
      rw [hab, this]

theorem hex_length (d : List Nat) : (hex d).length = 2 * d.length := by
  induction d with
  | nil => rfl
  | cons a as ih => simp [hex, hexByte, ih]; omega

theorem hexDigit_ne_slash (n : Nat) : hexDigit n ≠ 47 := by
  unfold hexDigit; split <;> omega

theorem slash_not_mem_hex {d : List Nat} : 47 ∉ hex d := by
  induction d with
  | nil => simp [hex]
  | cons a as ih =>
    simp only [hex, hexByte, List.cons_append, List.nil_append, List.mem_cons, not_or]
    refine ⟨?_, ?_, ih⟩
    · exact fun e => hexDigit_ne_slash _ e.symm
    · exact fun e => hexDigit_ne_slash _ e.symm

/-! ## prefix-free concatenations (hash inputs determine the URI class) -/

/-- `a ++ '/' :: p = b ++ '/' :: q` with slash-free `a`, `b` splits uniquely. -/
theorem append_slash_inj {a b p q : Str} (ha : 47 ∉ a) (hb : 47 ∉ b)
    (h : a ++ 47 :: p = b ++ 47 :: q) : a = b ∧ p = q := by
  induction a generalizing b with
  | nil =>
    cases b with
    | nil => simpa using h
    | cons c cs =>
      simp only [List.nil_append, List.cons_append, List.cons.injEq] at h
      exact absurd (by simp [h.1]) hb
  | cons x xs ih =>
    cases b with
    | nil =>
      simp only [List.nil_append, List.cons_append, List.cons.injEq] at h
      exact absurd (by simp [h.1]) ha
    | cons c cs =>
      simp only [List.cons_append, List.cons.injEq] at h
      have := ih (fun e => ha (by simp [e])) (fun e => hb (by simp [e])) h.2
      exact ⟨by rw [h.1, this.1], this.2⟩

/-- Same with tails that are empty or start with a slash (`Https::path`). -/
theorem append_path_inj {a b p q : Str} (ha : 47 ∉ a) (hb : 47 ∉ b)
    (hp : p = [] ∨ p.head? = some 47) (hq : q = [] ∨ q.head? = some 47)
    (h : a ++ p = b ++ q) : a = b ∧ p = q := by
  induction a generalizing b with
  | nil =>
    cases b with
    | nil => simpa using h
    | cons c cs =>
      simp only [List.nil_append, List.cons_append] at h
      rcases hp with hp | hp
      · simp [hp] at h
      · rw [h] at hp; simp at hp
        exact absurd (by simp [hp]) hb
  | cons x xs ih =>
    cases b with
    | nil =>
      simp only [List.nil_append, List.cons_append] at h
      rcases hq with hq | hq
      · simp [hq] at h
      · rw [← h] at hq; simp at hq
        exact absurd (by simp [hq]) ha
    | cons c cs =>
      simp only [List.cons_append, List.cons.injEq] at h
      have := ih (fun e => ha (by simp [e])) (fun e => hb (by simp [e])) h.2
      exact ⟨by rw [h.1, this.1], this.2⟩

theorem append_left_cancel_of_length {a b p q : Str} (hl : a.length = b.length)
    (h : a ++ p = b ++ q) : a = b ∧ p = q :=
  List.append_inj h hl

/-- The path string determines the segments. -/
theorem path_inj {u v : Rsync} (hu : u.WF) (hv : v.WF) (h : u.path = v.path) : u.segs = v.segs := by
  have := congrArg (resolveFrom []) h
  rw [resolveFrom_path hu, resolveFrom_path hv] at this
  simpa using this

theorem rsyncHashInput_inj {u v : Rsync} (hu : u.WF) (hv : v.WF)
    (h : rsyncHashInput u = rsyncHashInput v) : u.equiv v := by
  unfold rsyncHashInput at h
  have h := List.append_cancel_left h
  have ha := okSeg_canon hu.auth
  have hb := okSeg_canon hv.auth
  obtain ⟨h1, h2⟩ := append_slash_inj ha.2.1 hb.2.1 h
  obtain ⟨h3, h4⟩ := append_slash_inj hu.module.2.1 hv.module.2.1 h2
  exact ⟨h1, h3, path_inj hu hv h4⟩

theorem httpsHashInput_inj {m n : Https} (hm : m.WF) (hn : n.WF)
    (h : httpsHashInput m = httpsHashInput n) : m.equiv n := by
  unfold httpsHashInput at h
  have h := List.append_cancel_left h
  exact append_slash_inj (fun e => hm.auth (slash_mem_canon.mp e))
    (fun e => hn.auth (slash_mem_canon.mp e)) h

theorem httpsRaw_inj {m n : Https} (hm : m.WF) (hn : n.WF) (h : m.raw = n.raw) :
    m.auth = n.auth ∧ m.path = n.path := by
  unfold Https.raw at h
  obtain ⟨_, h2⟩ := append_left_cancel_of_length (hm.scheme.trans hn.scheme.symm) h
  exact append_path_inj hm.auth hn.auth hm.path hn.path h2

end RoutinatorModel.Paths
