import RoutinatorModel.Model.Prom
import RoutinatorModel.Proofs.Json
/-! The Prometheus writer only produces expositions. -/
namespace RoutinatorModel.Prom
open RoutinatorModel.Json (Text IsNumber isNumberB isNumberB_sound)

theorem IsBlanks.nil : IsBlanks [] := by intro c h; cases h

theorem IsBlanks.single_space : IsBlanks [0x20] := by
  intro c h
  simp at h; subst h; decide

theorem IsExposition.append {a b : Text} (ha : IsExposition a) (hb : IsExposition b) :
    IsExposition (a ++ b) := by
  induction ha with
  | nil => exact hb
  | line hl _ ih =>
    have := IsExposition.line hl ih
    simpa [List.append_assoc] using this

theorem isHelpTextB_sound : ∀ {h : Text}, isHelpTextB h = true → IsHelpText h := by
  intro h
  fun_induction isHelpTextB h with
  | case1 => intro _; exact IsHelpText.nil
  | case2 c s ih =>
    intro hh
    simp only [Bool.and_eq_true, Bool.or_eq_true, beq_iff_eq] at hh
    exact IsHelpText.esc hh.1 (ih hh.2)
  | case3 c s hne ih =>
    intro hh
    simp only [Bool.and_eq_true, bne_iff_ne, ne_eq] at hh
    exact IsHelpText.plain hh.1.1 hh.1.2 (ih hh.2)

theorem isValueB_sound {v : Text} (h : isValueB v = true) : IsValue v := by
  simp only [isValueB, Bool.or_eq_true, beq_iff_eq] at h
  rcases h with ((h | h) | h) | h
  · exact Or.inl (isNumberB_sound h)
  · exact Or.inr (Or.inl h)
  · exact Or.inr (Or.inr (Or.inl h))
  · exact Or.inr (Or.inr (Or.inr h))

theorem IsLabelChars.append {a b : Text} (ha : IsLabelChars a) (hb : IsLabelChars b) :
    IsLabelChars (a ++ b) := by
  induction ha with
  | nil => exact hb
  | plain h1 h2 h3 _ ih => exact IsLabelChars.plain h1 h2 h3 ih
  | esc h _ ih => exact IsLabelChars.esc h ih

theorem isLabelChars_escLabelChar (c : Nat) : IsLabelChars (escLabelChar c) := by
  unfold escLabelChar
  split
  · exact IsLabelChars.esc (Or.inl rfl) IsLabelChars.nil
  · split
    · exact IsLabelChars.esc (Or.inr (Or.inl rfl)) IsLabelChars.nil
    · split
      · exact IsLabelChars.esc (Or.inr (Or.inr rfl)) IsLabelChars.nil
      · rename_i h1 h2 h3
        exact IsLabelChars.plain h2 h1 h3 IsLabelChars.nil

/-- **Escaped label values are always valid label content**, whatever the value. -/
theorem isLabelChars_escLabel (v : Text) : IsLabelChars (escLabel v) := by
  induction v with
  | nil => exact IsLabelChars.nil
  | cons c s ih =>
    simpa [escLabel, List.flatMap_cons] using IsLabelChars.append (isLabelChars_escLabelChar c) ih

theorem renderLabels_false (esc : Text → Text) (l : Text × Text) (rest : List (Text × Text)) :
    renderLabels esc false (l :: rest) = 0x2C :: (0x20 :: renderLabels esc true (l :: rest)) := by
  obtain ⟨n, v⟩ := l
  simp [renderLabels]

theorem isLabels_render (labels : List (Text × Text)) (hne : labels ≠ [])
    (hn : ∀ l ∈ labels, isLabelNameB l.1 = true) (a : Text) (ha : IsBlanks a) :
    IsLabels (a ++ renderLabels escLabel true labels) := by
  induction labels generalizing a with
  | nil => exact absurd rfl hne
  | cons l rest ih =>
    obtain ⟨n, v⟩ := l
    have hpair : IsLabelPair (a ++ (n ++ (0x3D :: 0x22 :: (escLabel v ++ [0x22])))) :=
      ⟨a, n, [], [], escLabel v, [], by simp, ha, hn (n, v) List.mem_cons_self, IsBlanks.nil,
        IsBlanks.nil, isLabelChars_escLabel v, IsBlanks.nil⟩
    cases rest with
    | nil =>
      have := IsLabels.one hpair
      simpa [renderLabels] using this
    | cons l2 rest2 =>
      have hrest := ih (by simp) (fun x hx => hn x (List.mem_cons_of_mem _ hx)) [0x20]
        IsBlanks.single_space
      have := IsLabels.cons hpair hrest
      have e : renderLabels escLabel true ((n, v) :: l2 :: rest2) =
          n ++ (0x3D :: 0x22 :: (escLabel v ++ (0x22 :: renderLabels escLabel false (l2 :: rest2)))) := by
        simp [renderLabels]
      rw [e, renderLabels_false]
      simpa [List.append_assoc] using this

theorem isExposition_entry {e : Entry} (h : entryOkB e = true) : IsExposition (renderEntry e) := by
  cases e with
  | header pfx name help0 help1 mtype =>
    simp only [entryOkB, Bool.and_eq_true, Bool.or_eq_true, beq_iff_eq] at h
    have l1 := IsLine.help h.1.1 (isHelpTextB_sound h.1.2)
    have l2 := IsLine.type (t := mtype) h.1.1 h.2
    have := IsExposition.line l1 (IsExposition.line l2 IsExposition.nil)
    simpa [renderEntry, renderEntryWith, List.append_assoc] using this
  | single pfx name value =>
    simp only [entryOkB, Bool.and_eq_true] at h
    have l1 := IsLine.plain (b := [0x20]) h.1 (by simp) IsBlanks.single_space (isValueB_sound h.2)
    have := IsExposition.line l1 IsExposition.nil
    simpa [renderEntry, renderEntryWith, List.append_assoc] using this
  | multi pfx name labels value =>
    simp only [entryOkB, Bool.and_eq_true, List.all_eq_true] at h
    by_cases hl : labels = []
    · subst hl
      have l1 := IsLine.labelled0 (l := []) (b := [0x20]) h.1.1 IsBlanks.nil IsBlanks.single_space
        (isValueB_sound h.1.2)
      have := IsExposition.line l1 IsExposition.nil
      simpa [renderEntry, renderEntryWith, renderLabels, List.append_assoc] using this
    · have hlab := isLabels_render labels hl h.2 [] IsBlanks.nil
      have l1 := IsLine.labelled (b := [0x20]) h.1.1 hlab IsBlanks.single_space (isValueB_sound h.1.2)
      have := IsExposition.line l1 IsExposition.nil
      simpa [renderEntry, renderEntryWith, List.append_assoc] using this

/-- Every sequence of writer calls whose static parts are well-formed produces an
exposition, for arbitrary label values. -/
theorem isExposition_render {es : List Entry} (h : ∀ e ∈ es, entryOkB e = true) :
    IsExposition (render es) := by
  induction es with
  | nil => exact IsExposition.nil
  | cons e rest ih =>
    have h1 := isExposition_entry (h e List.mem_cons_self)
    have h2 := ih (fun x hx => h x (List.mem_cons_of_mem _ hx))
    simpa [render, List.flatMap_cons] using IsExposition.append h1 h2

/-! ## Necessary condition used by the negation witness -/

/-- Number of `"` characters. -/
def quotes (s : Text) : Nat := s.count 0x22

end RoutinatorModel.Prom
