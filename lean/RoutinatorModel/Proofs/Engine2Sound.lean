import RoutinatorModel.Proofs.Engine2
/-!
# Justification of payload (C01) — definitions and the invariant of the walk

`Justified` spells out what the statement of C01 asks of a served item; `processCaX_rule` /
`runOnceX_rule` are the induction principles of the walk (an invariant of `processCa`), and
`runOnceX_justified` instantiates them.
-/
namespace RoutinatorModel.Engine

/-! ## What the checks are -/

theorem CertAttr.valid_iff (c : CertAttr) (now : Int) :
    c.valid now = true ↔ c.ok = true ∧ c.notBefore ≤ now ∧ now ≤ c.notAfter := by
  simp [CertAttr.valid, CertAttr.timeOk]

theorem ValidMft.checkCrl_iff (vm : ValidMft) (c : CertAttr) :
    vm.checkCrl c = true ↔ c.crlUri = some vm.crlUri ∧ c.serial ∉ vm.revoked := by
  unfold ValidMft.checkCrl
  cases h : c.crlUri with
  | none => simp
  | some u =>
    simp only [Bool.and_eq_true, beq_iff_eq, Bool.not_eq_eq_eq_not, Bool.not_true,
      List.contains_eq_mem, decide_eq_false_iff_not, Option.some.injEq]

/-- The object `(ext, content)`, validated at `now` against the CRL of `vm` under `cfg`,
carries the payload item `i`: its (EE or router) certificate is valid (the `rpki` crate's
verdict on signature, issuer and resources, and the validity period), names the manifest's
CRL and is not revoked by it, the object type is enabled, and `i` is in its content. -/
inductive Yields (cfg : Cfg) (now : Int) (vm : ValidMft) (ext : Ext) (content : Content)
    (i : Item) : Prop
  | roa (c : CertAttr) (items : List Item) (hext : ext = .roa) (hc : content = .roa c items)
      (hvalid : c.valid now = true) (hcrl : vm.checkCrl c = true) (hi : i ∈ items)
  | asa (c : CertAttr) (items : List Item) (hext : ext = .asa) (hc : content = .asa c items)
      (hvalid : c.valid now = true) (hcrl : vm.checkCrl c = true) (hon : cfg.aspa = true)
      (hi : i ∈ items)
  | router (c : CertAttr) (items : List Item) (hext : ext = .cer)
      (hc : content = .router c items)
      (hvalid : c.valid now = true) (hcrl : vm.checkCrl c = true) (hon : cfg.bgpsec = true)
      (hi : i ∈ items)

/-- The object is a CA certificate that `ca` accepts as issued by it: not a key already on
the chain, valid, names the manifest's CRL and is not revoked, within the depth limit. -/
structure Issues (cfg : Cfg) (now : Int) (ca : CaCtx) (vm : ValidMft) (ext : Ext)
    (content : Content) (c : CertAttr) (info : CaInfo) : Prop where
  hext : ext = .cer
  hc : content = .ca c info
  noLoop : ca.chain.contains info.key = false
  valid : c.valid now = true
  crl : vm.checkCrl c = true
  depth : ca.chainLen + 1 ≤ cfg.maxDepth

theorem Acc.addPayload_items (a : Acc) (items : List Item) (x : Int) (i : Item)
    (h : i ∈ (a.addPayload items x).items) : i ∈ a.items ∨ i ∈ items := by
  unfold Acc.addPayload at h
  split at h
  · exact Or.inl h
  · exact List.mem_append.mp h

theorem Acc.addPayload_kids (a : Acc) (items : List Item) (x : Int) :
    (a.addPayload items x).kids = a.kids := by
  unfold Acc.addPayload
  split <;> rfl

theorem processObjectX_items (cfg : Cfg) (now : Int) (ca : CaCtx) (vm : ValidMft) (pd : List Int)
    (ext : Ext) (content : Content) (a : Acc) (i : Item)
    (h : i ∈ (processObjectX cfg now ca vm pd ext content a).items) :
    i ∈ a.items ∨ Yields cfg now vm ext content i := by
  unfold processObjectX at h
  cases ext <;> cases content <;> simp only [] at h <;> try exact Or.inl h
  case cer.ca c info => (repeat' split at h) <;> exact Or.inl h
  case cer.router c items =>
    split at h
    · rename_i hc
      simp only [Bool.and_eq_true] at hc
      rcases Acc.addPayload_items _ _ _ _ h with h | h
      · exact Or.inl h
      · exact Or.inr (.router c items rfl rfl hc.1.1 hc.1.2 hc.2 h)
    · exact Or.inl h
  case roa.roa c items =>
    split at h
    · rename_i hc
      simp only [Bool.and_eq_true] at hc
      rcases Acc.addPayload_items _ _ _ _ h with h | h
      · exact Or.inl h
      · exact Or.inr (.roa c items rfl rfl hc.1 hc.2 h)
    · exact Or.inl h
  case asa.asa c items =>
    split at h
    · rename_i hc
      simp only [Bool.and_eq_true] at hc
      rcases Acc.addPayload_items _ _ _ _ h with h | h
      · exact Or.inl h
      · exact Or.inr (.asa c items rfl rfl hc.1.1 hc.1.2 hc.2 h)
    · exact Or.inl h

theorem processObjectX_kids (cfg : Cfg) (now : Int) (ca : CaCtx) (vm : ValidMft) (pd : List Int)
    (ext : Ext) (content : Content) (a : Acc) (k : CaX)
    (h : k ∈ (processObjectX cfg now ca vm pd ext content a).kids) :
    k ∈ a.kids ∨ ∃ c info, Issues cfg now ca vm ext content c info
      ∧ k = ⟨ca.child info, min a.refresh c.notAfter, pd ++ [c.notAfter]⟩ := by
  unfold processObjectX at h
  cases ext <;> cases content <;> simp only [] at h <;> try exact Or.inl h
  case cer.ca c info =>
    split at h
    · exact Or.inl h
    · rename_i h1
      split at h
      · exact Or.inl h
      · rename_i h2
        split at h
        · exact Or.inl h
        · rename_i h3
          split at h
          · exact Or.inl h
          · rename_i h4
            rcases List.mem_append.mp h with h | h
            · exact Or.inl h
            · refine Or.inr ⟨c, info, ⟨rfl, rfl, ?_, ?_, ?_, ?_⟩, ?_⟩
              · simpa using h1
              · simpa using h2
              · simpa using h3
              · omega
              · simpa using h
  case cer.router c items =>
    split at h
    · rw [Acc.addPayload_kids] at h; exact Or.inl h
    · exact Or.inl h
  case roa.roa c items =>
    split at h
    · rw [Acc.addPayload_kids] at h; exact Or.inl h
    · exact Or.inl h
  case asa.asa c items =>
    split at h
    · rw [Acc.addPayload_kids] at h; exact Or.inl h
    · exact Or.inl h

/-! ## Walking a list of objects -/

theorem runStoredObjectsX_items (cfg : Cfg) (now : Int) (ca : CaCtx) (vm : ValidMft) (pd : List Int)
    (l : List StoredObj) (a : Acc) (i : Item)
    (h : i ∈ (runStoredObjectsX cfg now ca vm pd l a).items) :
    i ∈ a.items ∨ ∃ o ∈ l, Yields cfg now vm o.ext o.file.content i := by
  induction l generalizing a with
  | nil => exact Or.inl h
  | cons o rest ih =>
    unfold runStoredObjectsX at h
    rcases ih _ h with h | ⟨o', ho', hy⟩
    · rcases processObjectX_items _ _ _ _ _ _ _ _ _ h with h | h
      · exact Or.inl h
      · exact Or.inr ⟨o, by simp, h⟩
    · exact Or.inr ⟨o', by simp [ho'], hy⟩

theorem runStoredObjectsX_kids (cfg : Cfg) (now : Int) (ca : CaCtx) (vm : ValidMft) (pd : List Int)
    (l : List StoredObj) (a : Acc) (k : CaX)
    (h : k ∈ (runStoredObjectsX cfg now ca vm pd l a).kids) :
    k ∈ a.kids ∨ ∃ o ∈ l, ∃ c info r, Issues cfg now ca vm o.ext o.file.content c info
      ∧ k = ⟨ca.child info, r, pd ++ [c.notAfter]⟩ := by
  induction l generalizing a with
  | nil => exact Or.inl h
  | cons o rest ih =>
    unfold runStoredObjectsX at h
    rcases ih _ h with h | ⟨o', ho', hy⟩
    · rcases processObjectX_kids _ _ _ _ _ _ _ _ _ h with h | ⟨c, info, hi, hk⟩
      · exact Or.inl h
      · exact Or.inr ⟨o, by simp, c, info, _, hi, hk⟩
    · exact Or.inr ⟨o', by simp [ho'], hy⟩

/-- If every listed file loads, walking the entries is walking the list of their files. -/
theorem runEntriesX_complete (cfg : Cfg) (now : Int) (ca : CaCtx) (vm : ValidMft) (pd : List Int)
    (files : List (Name × File)) (l : List Entry) (a : Acc) (objs : List StoredObj)
    (h : ∀ e ∈ l, e.loads files = true) :
    runEntriesX cfg now ca vm pd files l a objs
      = .complete (runStoredObjectsX cfg now ca vm pd (l.flatMap (entryObj files)) a)
          (objs ++ l.flatMap (entryObj files)) := by
  induction l generalizing a objs with
  | nil => simp [runEntriesX, runStoredObjectsX]
  | cons e rest ih =>
    have he := h e (by simp)
    have hrest : ∀ e' ∈ rest, e'.loads files = true := fun e' h' => h e' (by simp [h'])
    unfold Entry.loads at he
    unfold runEntriesX
    cases hl : lookup e.name files with
    | none => simp [hl] at he
    | some f =>
      simp only [hl, Bool.and_eq_true, beq_iff_eq] at he
      simp only [he.1, he.2, Bool.not_true, Bool.false_eq_true, ↓reduceIte, bne_self_eq_false]
      rw [ih _ _ hrest]
      simp [entryObj, hl, runStoredObjectsX, List.append_assoc]

/-- If walking the entries completes, every listed file loaded. -/
theorem runEntriesX_loads (cfg : Cfg) (now : Int) (ca : CaCtx) (vm : ValidMft) (pd : List Int)
    (files : List (Name × File)) (l : List Entry) (a : Acc) (objs : List StoredObj)
    {a' : Acc} {objs' : List StoredObj}
    (h : runEntriesX cfg now ca vm pd files l a objs = .complete a' objs') :
    ∀ e ∈ l, e.loads files = true := by
  induction l generalizing a objs with
  | nil => simp
  | cons e rest ih =>
    unfold runEntriesX at h
    by_cases hn : e.nameOk = true
    · simp only [hn, Bool.not_true, Bool.false_eq_true, ↓reduceIte] at h
      cases hl : lookup e.name files with
      | none => simp [hl] at h
      | some file =>
        simp only [hl] at h
        by_cases hh : (file.hash != e.hash) = true
        · simp [hh] at h
        · simp only [hh, Bool.false_eq_true, ↓reduceIte] at h
          intro e' he'
          rcases List.mem_cons.mp he' with rfl | hmem
          · simp only [Entry.loads, hn, hl, Bool.true_and]
            simpa using hh
          · exact ih _ _ h e' hmem
    · simp [hn] at h

/-- A file of the fetched version is listed on the manifest under its name with its hash. -/
theorem mem_entryObj_listed (files : List (Name × File)) (l : List Entry)
    (h : ∀ e ∈ l, e.loads files = true) (o : StoredObj) (ho : o ∈ l.flatMap (entryObj files)) :
    ∃ e ∈ l, e.name = o.name ∧ e.ext = o.ext ∧ e.hash = o.file.hash
      ∧ lookup e.name files = some o.file := by
  obtain ⟨e, he, hoe⟩ := List.mem_flatMap.mp ho
  have hl := h e he
  unfold Entry.loads at hl
  unfold entryObj at hoe
  cases hf : lookup e.name files with
  | none => simp [hf] at hoe
  | some f =>
    simp only [hf, List.mem_singleton] at hoe
    simp only [hf, Bool.and_eq_true, beq_iff_eq] at hl
    subst hoe
    exact ⟨e, he, rfl, rfl, hl.2.symm, hf⟩

/-! ## Versions of a publication point -/

/-- Every stored object is listed on the stored manifest under its name with its hash. -/
def StoredWf (s : Stored) : Prop :=
  ∃ m, s.mft.parsed = some m ∧
    ∀ o ∈ s.objects, ∃ e ∈ m.entries, e.name = o.name ∧ e.ext = o.ext ∧ e.hash = o.file.hash

/-- `(vm, crl, objs)` is a version of `ca`'s publication point that this run may use: either
the version offered by the collector — its manifest and CRL pass `validateCollected` and
every listed file was retrieved with the listed hash — or a version held by the store whose
manifest and CRL pass `validateStored` now. `objs` are its objects. -/
inductive ValidVersion (cfg : Cfg) (now : Int) (coll : Option Offer) (ca : CaCtx) :
    ValidMft → Content → List StoredObj → Prop
  | fetched (offer : Offer) (mf : MftFile) (vm : ValidMft) (crl : Content) (objs : List StoredObj)
      (hcoll : coll = some offer)
      (hmf : (offer.get ca.info.mft).mft = some mf)
      (hvalid : validateCollected cfg now (offer.get ca.info.mft) mf = some (vm, crl))
      (hloads : ∀ e ∈ vm.mft.entries, e.loads (offer.get ca.info.mft).files = true)
      (hobjs : objs.Perm (fetchedObjs vm (offer.get ca.info.mft).files)) :
      ValidVersion cfg now coll ca vm crl objs
  | stored (s : Stored) (vm : ValidMft)
      (hwf : StoredWf s)
      (hvalid : validateStored cfg now s = some vm) :
      ValidVersion cfg now coll ca vm s.crl s.objects

theorem validateStored_mft {cfg : Cfg} {now : Int} {s : Stored} {vm : ValidMft}
    (h : validateStored cfg now s = some vm) : s.mft.parsed = some vm.mft := by
  unfold validateStored at h
  cases hm : s.mft.parsed with
  | none => simp [hm] at h
  | some m =>
    simp only [hm] at h
    repeat' (split at h)
    all_goals (cases h; try rfl)

/-- Every object of a usable version is listed on its (validated) manifest with its hash. -/
theorem ValidVersion.listed {cfg : Cfg} {now : Int} {coll : Option Offer} {ca : CaCtx}
    {vm : ValidMft} {crl : Content} {objs : List StoredObj}
    (h : ValidVersion cfg now coll ca vm crl objs) :
    ∀ o ∈ objs, ∃ e ∈ vm.mft.entries, e.name = o.name ∧ e.ext = o.ext ∧ e.hash = o.file.hash := by
  cases h with
  | fetched offer mf _ _ _ hcoll hmf hvalid hloads hobjs =>
    intro o ho
    obtain ⟨e, he, h1, h2, h3, _⟩ :=
      mem_entryObj_listed _ _ hloads o (by simpa [fetchedObjs] using hobjs.mem_iff.mp ho)
    exact ⟨e, he, h1, h2, h3⟩
  | stored s _ hwf hvalid =>
    obtain ⟨m, hm, hl⟩ := hwf
    have := validateStored_mft hvalid
    rw [hm] at this
    cases this
    exact hl

/-! ## What a publication point result is -/

/-- The result of a publication point is that of walking the objects of one usable version,
or nothing. -/
inductive PointFrom (cfg : Cfg) (now : Int) (coll : Option Offer) (ca : CaX) : PointX → Prop
  | used (vm : ValidMft) (crl : Content) (objs : List StoredObj) (stored : Option Stored)
      (used : Used)
      (hversion : ValidVersion cfg now coll ca.ctx vm crl objs)
      (hstored : ∀ s, stored = some s → StoredWf s) :
      PointFrom cfg now coll ca
        (let pd := ca.dates ++ pointDates vm crl
         let a := runStoredObjectsX cfg now ca.ctx vm pd objs
            ⟨[], [], pointValidity ca.refresh vm crl, []⟩
         ⟨a.items, a.kids, true, stored, a.refresh, used, pd ++ a.objDates⟩)
  | none (stored : Option Stored) (hstored : ∀ s, stored = some s → StoredWf s) :
      PointFrom cfg now coll ca ⟨[], [], false, stored, ca.refresh, .none, ca.dates⟩

theorem processStoredX_from (cfg : Cfg) (now : Int) (coll : Option Offer) (ca : CaX)
    (st : Option Stored) (hst : ∀ s, st = some s → StoredWf s) :
    PointFrom cfg now coll ca (processStoredX cfg now ca st) := by
  unfold processStoredX
  cases st with
  | none => exact .none _ hst
  | some s =>
    simp only []
    cases hv : validateStored cfg now s with
    | none => exact .none _ hst
    | some vm =>
      exact .used vm s.crl s.objects (some s) _ (.stored s vm (hst s rfl) hv) hst

theorem processPointXWith_from (cfg : Cfg) (now : Int) (coll : Option Offer) (st : Option Stored)
    (ca : CaX) (reorder : List Entry → List Entry) (hperm : ∀ l, (reorder l).Perm l)
    (hst : ∀ s, st = some s → StoredWf s) :
    PointFrom cfg now coll ca (processPointXWith cfg now coll st ca reorder) := by
  unfold processPointXWith
  cases coll with
  | none => exact processStoredX_from cfg now none ca st hst
  | some offer =>
    simp only []
    have hfall : ∀ st', (st' = st ∨ st' = none) →
        PointFrom cfg now (some offer) ca (processStoredX cfg now ca st') := by
      intro st' h
      apply processStoredX_from
      rcases h with rfl | rfl
      · exact hst
      · intro s hs; cases hs
    unfold processCollectedX
    cases hm : (offer.get ca.ctx.info.mft).mft with
    | none => exact hfall _ (Or.inl rfl)
    | some mf =>
      simp only []
      by_cases hs : sameManifest st mf ca.ctx = true
      · simp only [hs, ↓reduceIte]; exact hfall _ (Or.inl rfl)
      · simp only [hs, Bool.false_eq_true, ↓reduceIte]
        cases hv : validateCollected cfg now (offer.get ca.ctx.info.mft) mf with
        | none => exact hfall _ (Or.inl rfl)
        | some p =>
          obtain ⟨vm, crl⟩ := p
          simp only []
          have hsnd := collectedIsNewer_snd vm.mft st
          cases hn : collectedIsNewer vm.mft st with
          | mk b st' =>
            rw [hn] at hsnd
            cases b with
            | false => exact hfall _ hsnd
            | true =>
              simp only []
              cases hr : runEntriesX cfg now ca.ctx vm (ca.dates ++ pointDates vm crl)
                  (offer.get ca.ctx.info.mft).files (reorder vm.mft.entries)
                  ⟨[], [], pointValidity ca.refresh vm crl, []⟩ [] with
              | aborted => exact hfall _ hsnd
              | complete a objs =>
                simp only []
                have hloads' := runEntriesX_loads _ _ _ _ _ _ _ _ _ hr
                have hloads : ∀ e ∈ vm.mft.entries,
                    e.loads (offer.get ca.ctx.info.mft).files = true :=
                  fun e he => hloads' e ((hperm _).mem_iff.mpr he)
                rw [runEntriesX_complete _ _ _ _ _ _ _ _ _ hloads'] at hr
                simp only [WalkX.complete.injEq, List.nil_append] at hr
                obtain ⟨rfl, rfl⟩ := hr
                have hobjs : ((reorder vm.mft.entries).flatMap
                      (entryObj (offer.get ca.ctx.info.mft).files)).Perm
                    (fetchedObjs vm (offer.get ca.ctx.info.mft).files) := by
                  simpa [fetchedObjs] using (hperm vm.mft.entries).flatMap_right _
                have hver : ValidVersion cfg now (some offer) ca.ctx vm crl
                    ((reorder vm.mft.entries).flatMap
                      (entryObj (offer.get ca.ctx.info.mft).files)) :=
                  .fetched offer mf vm crl _ rfl hm hv hloads hobjs
                refine .used vm crl _ _ _ hver ?_
                intro s hs
                cases hs
                refine ⟨vm.mft, validateCollected_mft hv, ?_⟩
                exact hver.listed

theorem processPointX_from (cfg : Cfg) (now : Int) (coll : Option Offer) (st : Option Stored)
    (ca : CaX) (hst : ∀ s, st = some s → StoredWf s) :
    PointFrom cfg now coll ca (processPointX cfg now coll st ca) := by
  unfold processPointX
  exact processPointXWith_from cfg now coll st ca _ (applyOrder_perm _) hst

/-! ## Induction principles of the walk -/

theorem lookup_mem {α : Type} {k : Nat} {l : List (Nat × α)} {v : α}
    (h : lookup k l = some v) : (k, v) ∈ l := by
  induction l with
  | nil => simp [lookup] at h
  | cons p rest ih =>
    obtain ⟨k', v'⟩ := p
    unfold lookup at h
    by_cases hk : k' = k
    · simp only [hk, ↓reduceIte, Option.some.injEq] at h
      subst h; subst hk; simp
    · simp only [hk, ↓reduceIte] at h
      exact List.mem_cons_of_mem _ (ih h)

theorem mem_setKey {α : Type} {k : Nat} {v : Option α} {l : List (Nat × α)} {p : Nat × α}
    (h : p ∈ setKey k v l) : p ∈ l ∨ ∃ w, v = some w ∧ p = (k, w) := by
  induction l with
  | nil =>
    cases v with
    | none => simp [setKey] at h
    | some w =>
      simp only [setKey, List.mem_singleton] at h
      exact Or.inr ⟨w, rfl, h⟩
  | cons q rest ih =>
    obtain ⟨k', v'⟩ := q
    unfold setKey at h
    by_cases hk : k' = k
    · simp only [hk, ↓reduceIte] at h
      cases v with
      | none => exact Or.inl (List.mem_cons_of_mem _ h)
      | some w =>
        simp only [List.mem_cons] at h
        rcases h with h | h
        · exact Or.inr ⟨w, rfl, h⟩
        · exact Or.inl (List.mem_cons_of_mem _ h)
    · simp only [hk, ↓reduceIte, List.mem_cons] at h
      rcases h with h | h
      · exact Or.inl (by simp [h])
      · rcases ih h with h | h
        · exact Or.inl (List.mem_cons_of_mem _ h)
        · exact Or.inr h

/-- Every stored publication point is well-formed. -/
def StoreWf (store : Store) : Prop := ∀ p ∈ store.points, StoredWf p.2

theorem StoreWf.point {store : Store} (h : StoreWf store) {u : Uri} {s : Stored}
    (hs : store.point u = some s) : StoredWf s :=
  h (u, s) (lookup_mem hs)

theorem StoreWf.setPoint {store : Store} (h : StoreWf store) (u : Uri) (v : Option Stored)
    (hv : ∀ s, v = some s → StoredWf s) : StoreWf (store.setPoint u v) := by
  intro p hp
  rcases mem_setKey hp with hp | ⟨w, hw, rfl⟩
  · exact h p hp
  · exact hv w hw

theorem StoreWf.empty : StoreWf ⟨[], []⟩ := by
  intro p hp
  simp at hp

end RoutinatorModel.Engine
