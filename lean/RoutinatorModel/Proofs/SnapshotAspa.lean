import RoutinatorModel.Proofs.Snapshot
/-! The ASPA lane: per-customer union. -/
namespace RoutinatorModel

theorem keys_replaceKey (m : List (Nat × List Nat)) (c : Nat) (ps : List Nat) :
    (replaceKey m c ps).map Prod.fst = m.map Prod.fst := by
  unfold replaceKey
  induction m with
  | nil => rfl
  | cons e m ih =>
    simp only [List.map_cons, ih]
    by_cases h : e.1 = c <;> simp [h]

theorem mem_replaceKey (m : List (Nat × List Nat)) (c : Nat) (ps : List Nat) (x : Nat × List Nat) :
    x ∈ replaceKey m c ps ↔ (x.1 ≠ c ∧ x ∈ m) ∨ (x = (c, ps) ∧ c ∈ m.map Prod.fst) := by
  unfold replaceKey
  simp only [List.mem_map]
  constructor
  · rintro ⟨e, he, rfl⟩
    by_cases h : e.1 = c
    · right; exact ⟨by simp [h], ⟨e, he, h⟩⟩
    · left; exact ⟨by simp [h], by simpa [h] using he⟩
  · rintro (⟨h, hx⟩ | ⟨rfl, e, he, h⟩)
    · exact ⟨x, hx, by simp [h]⟩
    · exact ⟨e, he, by simp [h]⟩

theorem lookup_none_iff (m : List (Nat × List Nat)) (c : Nat) :
    m.lookup c = none ↔ c ∉ m.map Prod.fst := by
  induction m with
  | nil => simp
  | cons e m ih =>
    obtain ⟨k, v⟩ := e
    by_cases h : c = k
    · subst h; simp [List.lookup]
    · have : (c == k) = false := by simp [h]
      simp [List.lookup, this, ih, h]

theorem lookup_some_mem (m : List (Nat × List Nat)) (c : Nat) (ps : List Nat)
    (h : m.lookup c = some ps) : (c, ps) ∈ m := by
  induction m with
  | nil => simp at h
  | cons e m ih =>
    obtain ⟨k, v⟩ := e
    by_cases hk : c = k
    · subst hk; simp [List.lookup] at h; subst h; exact List.mem_cons_self
    · have : (c == k) = false := by simp [hk]
      simp [List.lookup, this] at h
      exact List.mem_cons_of_mem _ (ih h)

/-- Keys without duplicates determine the value. -/
theorem value_unique {m : List (Nat × List Nat)} (hn : (m.map Prod.fst).Nodup) {c : Nat}
    {p q : List Nat} (hp : (c, p) ∈ m) (hq : (c, q) ∈ m) : p = q := by
  induction m with
  | nil => cases hp
  | cons e m ih =>
    simp only [List.map_cons, List.nodup_cons] at hn
    rcases List.mem_cons.1 hp with rfl | hp' <;> rcases List.mem_cons.1 hq with e2 | hq'
    · cases e2; rfl
    · exact absurd (List.mem_map.2 ⟨_, hq', rfl⟩) hn.1
    · subst e2; exact absurd (List.mem_map.2 ⟨_, hp', rfl⟩) hn.1
    · exact ih hn.2 hp' hq'

/-- The invariant of the ASPA map after processing the ASPAs `L`. -/
structure AspaInv (m : List (Nat × List Nat)) (L : List PubAspa) : Prop where
  keys_nodup : (m.map Prod.fst).Nodup
  keys : ∀ c, c ∈ m.map Prod.fst ↔ ∃ a ∈ L, a.customer = c
  vals : ∀ c ps, (c, ps) ∈ m →
    Ascending ps ∧ ∀ x, x ∈ ps ↔ ∃ a ∈ L, a.customer = c ∧ x ∈ a.providers

theorem AspaInv.nil : AspaInv [] [] :=
  ⟨by simp, by simp, by simp⟩

theorem AspaInv.step {m : List (Nat × List Nat)} {L : List PubAspa} (h : AspaInv m L)
    (a : PubAspa) (ha : Ascending a.providers) : AspaInv (aspaStep m a) (L ++ [a]) := by
  unfold aspaStep
  cases hl : m.lookup a.customer with
  | none =>
    have hnk : a.customer ∉ m.map Prod.fst := (lookup_none_iff m a.customer).1 hl
    have hnoL : ∀ b ∈ L, b.customer ≠ a.customer := by
      intro b hb e
      exact hnk ((h.keys a.customer).2 ⟨b, hb, e⟩)
    refine ⟨?_, ?_, ?_⟩
    · simp only [List.map_append, List.map_cons, List.map_nil]
      rw [List.nodup_append]
      refine ⟨h.keys_nodup, by simp, ?_⟩
      intro x hx y hy
      simp at hy; subst hy
      intro e; subst e; exact hnk hx
    · intro c
      simp only [List.map_append, List.map_cons, List.map_nil, List.mem_append, List.mem_singleton,
        h.keys c]
      constructor
      · rintro (⟨b, hb, e⟩ | rfl)
        · exact ⟨b, Or.inl hb, e⟩
        · exact ⟨a, Or.inr rfl, rfl⟩
      · rintro ⟨b, hb | rfl, e⟩
        · exact Or.inl ⟨b, hb, e⟩
        · exact Or.inr e.symm
    · intro c ps hmem
      rcases List.mem_append.1 hmem with hm | hm
      · have hc : c ≠ a.customer := by
          intro e; subst e; exact hnk (List.mem_map.2 ⟨_, hm, rfl⟩)
        obtain ⟨h1, h2⟩ := h.vals c ps hm
        refine ⟨h1, fun x => ?_⟩
        rw [h2 x]
        constructor
        · rintro ⟨b, hb, e⟩; exact ⟨b, List.mem_append.2 (Or.inl hb), e⟩
        · rintro ⟨b, hb, e1, e2⟩
          rcases List.mem_append.1 hb with hb | hb
          · exact ⟨b, hb, e1, e2⟩
          · simp at hb; subst hb; exact absurd e1.symm hc
      · simp at hm
        obtain ⟨rfl, rfl⟩ := hm
        refine ⟨ha, fun x => ?_⟩
        constructor
        · intro hx; exact ⟨a, by simp, rfl, hx⟩
        · rintro ⟨b, hb, e1, e2⟩
          rcases List.mem_append.1 hb with hb | hb
          · exact absurd e1 (hnoL b hb)
          · simp at hb; subst hb; exact e2
  | some old =>
    have hold : (a.customer, old) ∈ m := lookup_some_mem m _ _ hl
    have hkey : a.customer ∈ m.map Prod.fst := List.mem_map.2 ⟨_, hold, rfl⟩
    obtain ⟨ho1, ho2⟩ := h.vals _ _ hold
    refine ⟨?_, ?_, ?_⟩
    · rw [keys_replaceKey]; exact h.keys_nodup
    · intro c
      rw [keys_replaceKey, h.keys c]
      constructor
      · rintro ⟨b, hb, e⟩; exact ⟨b, List.mem_append.2 (Or.inl hb), e⟩
      · rintro ⟨b, hb, e⟩
        rcases List.mem_append.1 hb with hb | hb
        · exact ⟨b, hb, e⟩
        · simp at hb; subst hb; subst e; exact (h.keys _).1 hkey
    · intro c ps hmem
      rcases (mem_replaceKey m _ _ (c, ps)).1 hmem with ⟨hne, hm⟩ | ⟨heq, _⟩
      · obtain ⟨h1, h2⟩ := h.vals c ps hm
        refine ⟨h1, fun x => ?_⟩
        rw [h2 x]
        constructor
        · rintro ⟨b, hb, e⟩; exact ⟨b, List.mem_append.2 (Or.inl hb), e⟩
        · rintro ⟨b, hb, e1, e2⟩
          rcases List.mem_append.1 hb with hb | hb
          · exact ⟨b, hb, e1, e2⟩
          · simp at hb; subst hb; exact absurd e1.symm hne
      · cases heq
        refine ⟨ascending_asnUnion _ _ ho1 ha, fun x => ?_⟩
        rw [mem_asnUnion, ho2 x]
        constructor
        · rintro (⟨b, hb, e⟩ | hx)
          · exact ⟨b, List.mem_append.2 (Or.inl hb), e⟩
          · exact ⟨a, by simp, rfl, hx⟩
        · rintro ⟨b, hb, e1, e2⟩
          rcases List.mem_append.1 hb with hb | hb
          · exact Or.inl ⟨b, hb, e1, e2⟩
          · simp at hb; subst hb; exact Or.inr e2

theorem AspaInv.foldl {m : List (Nat × List Nat)} {L₀ : List PubAspa} (h : AspaInv m L₀)
    (L : List PubAspa) (hL : ∀ a ∈ L, Ascending a.providers) :
    AspaInv (L.foldl aspaStep m) (L₀ ++ L) := by
  induction L generalizing m L₀ with
  | nil => simpa using h
  | cons a L ih =>
    rw [List.foldl_cons]
    have := ih (h.step a (hL a List.mem_cons_self)) (fun b hb => hL b (List.mem_cons_of_mem _ hb))
    simpa [List.append_assoc] using this

/-- The ASPA map after a whole run. -/
theorem aspaInv_run (L : List PubAspa) (hL : ∀ a ∈ L, Ascending a.providers) :
    AspaInv (L.foldl aspaStep []) L := by
  simpa using AspaInv.nil.foldl L hL

end RoutinatorModel
