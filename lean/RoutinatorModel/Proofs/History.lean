import RoutinatorModel.Model.History
import RoutinatorModel.Proofs.Serial
import RoutinatorModel.Props.C12
/-!
Helper lemmas for C13 / C14: the loop of `delta_since` over a run of consecutive serials,
and the invariant of reachable histories.
-/
namespace RoutinatorModel

/-- Comparing two serials of the same run `a, a+1, …` (offsets `i j < 2^32`). -/
theorem serialPcmp_two (a i j : Nat) (hi : i < serialMod) (hj : j < serialMod) :
    serialPcmp ((a + i) % serialMod) ((a + j) % serialMod) =
      if (j + serialMod - i) % serialMod = 0 then some .eq
      else if (j + serialMod - i) % serialMod < serialHalf then some .lt
      else if (j + serialMod - i) % serialMod = serialHalf then none
      else some .gt := by
  have h := serialPcmp_offset (a + i) ((j + serialMod - i) % serialMod)
    (Nat.mod_lt _ (by unfold serialMod; omega))
  have e : (a + i + (j + serialMod - i) % serialMod) % serialMod = (a + j) % serialMod := by
    unfold serialMod at *; omega
  rw [e] at h
  exact h

/-- The serials of an oldest-first list of deltas count up from `a` (modulo 2^32). -/
def SerialsFrom (a : Nat) (r : List PayloadDelta) : Prop :=
  ∀ j (hj : j < r.length), (r[j]).serial = (a + j) % serialMod

theorem SerialsFrom.head {a : Nat} {d : PayloadDelta} {ds : List PayloadDelta}
    (h : SerialsFrom a (d :: ds)) : d.serial = a % serialMod := by
  have := h 0 (by simp); simpa using this

theorem SerialsFrom.tail {a : Nat} {d : PayloadDelta} {ds : List PayloadDelta}
    (h : SerialsFrom a (d :: ds)) : SerialsFrom (a + 1) ds := by
  intro j hj
  have := h (j + 1) (by simp; omega)
  simp only [List.getElem_cons_succ] at this
  rw [this]; congr 1; omega

/-- The loop stops at the delta whose serial equals the client's and leaves the newer ones. -/
theorem skipTo_found (r : List PayloadDelta) (a j : Nat) (hs : SerialsFrom a r)
    (hj : j < r.length) (hlt : j < serialHalf) :
    skipTo ((a + j) % serialMod) r = .rest (r.drop (j + 1)) := by
  induction r generalizing a j with
  | nil => simp at hj
  | cons d ds ih =>
    have hd := hs.head
    have hp := serialPcmp_two a 0 j (by unfold serialMod; omega) (by unfold serialMod serialHalf at *; omega)
    simp only [Nat.add_zero] at hp
    unfold skipTo
    rw [hd, hp]
    by_cases h0 : j = 0
    · subst h0; simp [serialMod]
    · have h1 : (j + serialMod - 0) % serialMod ≠ 0 := by unfold serialMod serialHalf at *; omega
      have h2 : (j + serialMod - 0) % serialMod < serialHalf := by unfold serialMod serialHalf at *; omega
      simp only [h1, h2, if_false, if_true]
      have := ih (a + 1) (j - 1) hs.tail (by simp at hj; omega) (by omega)
      have e : a + 1 + (j - 1) = a + j := by omega
      rw [e] at this
      rw [this]
      have e2 : j - 1 + 1 = j := by omega
      rw [e2]
      simp

/-- A client serial ahead of every delta (by less than 2^31) exhausts the loop. -/
theorem skipTo_ahead (r : List PayloadDelta) (a j : Nat) (hs : SerialsFrom a r)
    (hj : r.length ≤ j) (hlt : j < serialHalf) :
    skipTo ((a + j) % serialMod) r = .rest [] := by
  induction r generalizing a j with
  | nil => simp [skipTo]
  | cons d ds ih =>
    have hd := hs.head
    have hp := serialPcmp_two a 0 j (by unfold serialMod; omega) (by unfold serialMod serialHalf at *; omega)
    simp only [Nat.add_zero] at hp
    unfold skipTo
    rw [hd, hp]
    simp at hj
    have h1 : (j + serialMod - 0) % serialMod ≠ 0 := by unfold serialMod serialHalf at *; omega
    have h2 : (j + serialMod - 0) % serialMod < serialHalf := by unfold serialMod serialHalf at *; omega
    simp only [h1, h2, if_false, if_true]
    have := ih (a + 1) (j - 1) hs.tail (by omega) (by omega)
    have e : a + 1 + (j - 1) = a + j := by omega
    rw [e] at this
    exact this

/-- A client serial at distance ≥ 2^31 ahead of the oldest delta is refused at once
(repaired code: also at distance exactly 2^31). -/
theorem skipTo_refuse (d : PayloadDelta) (ds : List PayloadDelta) (a j : Nat)
    (hs : SerialsFrom a (d :: ds)) (h1 : serialHalf ≤ j) (h2 : j < serialMod) :
    skipTo ((a + j) % serialMod) (d :: ds) = .refuse := by
  have hd := hs.head
  have hp := serialPcmp_two a 0 j (by unfold serialMod; omega) h2
  simp only [Nat.add_zero] at hp
  unfold skipTo
  rw [hd, hp]
  have e1 : (j + serialMod - 0) % serialMod ≠ 0 := by unfold serialMod serialHalf at *; omega
  have e2 : ¬ (j + serialMod - 0) % serialMod < serialHalf := by unfold serialMod serialHalf at *; omega
  simp only [e1, e2, if_false]
  by_cases e3 : (j + serialMod - 0) % serialMod = serialHalf
  · simp only [e3, if_true]
  · simp only [e3, if_false]

/-! ### `delta_since` over a run of consecutive serials -/

theorem front_serial {a : Nat} {d : PayloadDelta} {rest : List PayloadDelta}
    (hs : SerialsFrom a (d :: rest).reverse) : d.serial = (a + rest.length) % serialMod := by
  have := hs rest.length (by simp)
  simpa [List.reverse_cons] using this

/-- A client at the current serial gets the empty delta (no hypothesis needed). -/
theorem deltaSince_serial (h : History) :
    h.deltaSince h.serial = some (PayloadDelta.empty h.serial) := by
  unfold History.deltaSince History.deltaSinceWith History.serial
  cases h.deltas with
  | nil => simp
  | cons d rest =>
    have : serialLt d.serial d.serial = false := by simp [serialLt, serialPcmp]
    simp [this]

/-- A client exactly one behind gets the newest delta itself. -/
theorem deltaSince_one_behind (h : History) (d : PayloadDelta) (rest : List PayloadDelta)
    (hd : h.deltas = d :: rest) (c : Nat) (hc : c < serialMod) (h1 : d.serial = serialAdd c 1) :
    h.deltaSince c = some d := by
  unfold History.deltaSince History.deltaSinceWith
  have hp := serialPcmp_offset (c + 1) (serialMod - 1) (by unfold serialMod; omega)
  have e : (c + 1 + (serialMod - 1)) % serialMod = c := by unfold serialMod at *; omega
  rw [e] at hp
  have hne : d.serial ≠ c := by rw [h1]; unfold serialAdd serialMod at *; omega
  have hlt : serialLt d.serial c = false := by
    rw [h1]; unfold serialAdd; unfold serialLt; rw [hp]
    simp [serialMod, serialHalf]
  simp only [hd]
  rw [if_neg (by simp [hlt]), if_neg hne, if_pos h1]

theorem oldest_serial {a : Nat} {ds : List PayloadDelta} (hs : SerialsFrom a ds.reverse)
    (h0 : ds ≠ []) : ds.reverse.head?.map (·.serial) = some (a % serialMod) := by
  cases hr : ds.reverse with
  | nil => simp at hr; exact absurd hr h0
  | cons x xs => rw [hr] at hs; simp [hs.head]

/-- A client at the serial of a retained delta that is not the newest gets the fold of
`merge` over all newer deltas. -/
theorem deltaSince_found (h : History) (a j : Nat) (hs : SerialsFrom a h.deltas.reverse)
    (hn : h.deltas.length < serialHalf) (hj : j + 1 < h.deltas.length) :
    ∃ x xs, h.deltas.reverse.drop (j + 1) = x :: xs ∧
      h.deltaSince ((a + j) % serialMod) = some (xs.foldl PayloadDelta.merge x) := by
  cases hds : h.deltas with
  | nil => simp [hds] at hj
  | cons d rest =>
    rw [hds] at hs hn hj
    simp only [List.length_cons] at hn hj
    have hd := front_serial hs
    have hp := serialPcmp_two a rest.length j (by unfold serialMod serialHalf at *; omega)
      (by unfold serialMod serialHalf at *; omega)
    have t1 : (j + serialMod - rest.length) % serialMod ≠ 0 := by
      unfold serialMod serialHalf at *; omega
    have t2 : ¬ (j + serialMod - rest.length) % serialMod < serialHalf := by
      unfold serialMod serialHalf at *; omega
    have t3 : (j + serialMod - rest.length) % serialMod ≠ serialHalf := by
      unfold serialMod serialHalf at *; omega
    simp only [t1, t2, t3, if_false] at hp
    have hlt : serialLt d.serial ((a + j) % serialMod) = false := by
      unfold serialLt; rw [hd, hp]; rfl
    have hne : d.serial ≠ (a + j) % serialMod := by
      rw [hd]; unfold serialMod serialHalf at *; omega
    unfold History.deltaSince History.deltaSinceWith
    simp only [hds, hlt, hne, if_false, Bool.false_eq_true]
    by_cases h1 : d.serial = serialAdd ((a + j) % serialMod) 1
    · -- one behind: the remaining list is just the newest delta
      have hj' : j + 1 = rest.length := by
        rw [hd] at h1; unfold serialAdd serialMod serialHalf at *; omega
      refine ⟨d, [], ?_, ?_⟩
      · rw [List.reverse_cons, hj', List.drop_append]; simp
      · simp [h1]
    · have hb : ((d :: rest).reverse.head?.map (·.serial)
          == some (serialAdd ((a + j) % serialMod) 1)) = false := by
        rw [oldest_serial hs (by simp)]
        simp; unfold serialAdd serialMod serialHalf at *; omega
      simp only [h1, if_false, hb, Bool.and_false, Bool.false_eq_true]
      have hf := skipTo_found (d :: rest).reverse a j hs (by simp; omega) (by omega)
      rw [hf]
      have hlen : j + 1 < ((d :: rest).reverse).length := by simp; omega
      rw [List.drop_eq_getElem_cons hlen]
      exact ⟨_, _, rfl, rfl⟩

/-- Every other client serial is refused (`n ≤ j`: not the serial of a retained delta, and
`j ≠ 2^32 - 1`: not the version the oldest retained delta starts from). -/
theorem deltaSince_refuse (h : History) (a j : Nat) (hs : SerialsFrom a h.deltas.reverse)
    (hn : h.deltas.length < serialHalf) (h0 : h.deltas ≠ [])
    (hj : h.deltas.length ≤ j) (hjm : j < serialMod)
    (hx : j ≠ serialMod - 1) :
    h.deltaSince ((a + j) % serialMod) = none := by
  cases hds : h.deltas with
  | nil => exact absurd hds h0
  | cons d rest =>
    rw [hds] at hs hn hj
    simp only [List.length_cons] at hn hj
    have hd := front_serial hs
    have hp := serialPcmp_two a rest.length j (by unfold serialMod serialHalf at *; omega) hjm
    have te : (j + serialMod - rest.length) % serialMod = j - rest.length := by
      unfold serialMod serialHalf at *; omega
    rw [te] at hp
    unfold History.deltaSince History.deltaSinceWith
    simp only [hds]
    by_cases hlt : j - rest.length < serialHalf
    · have t1 : j - rest.length ≠ 0 := by omega
      simp only [t1, hlt, if_false, if_true] at hp
      have : serialLt d.serial ((a + j) % serialMod) = true := by
        unfold serialLt; rw [hd, hp]; rfl
      simp [this]
    · have t1 : j - rest.length ≠ 0 := by unfold serialHalf at *; omega
      simp only [t1, hlt, if_false] at hp
      have hl : serialLt d.serial ((a + j) % serialMod) = false := by
        unfold serialLt; rw [hd, hp]; split <;> rfl
      have hne : d.serial ≠ (a + j) % serialMod := by
        rw [hd]; unfold serialMod serialHalf at *; omega
      have h1 : d.serial ≠ serialAdd ((a + j) % serialMod) 1 := by
        rw [hd]; unfold serialAdd; unfold serialMod serialHalf at *; omega
      have hb : ((d :: rest).reverse.head?.map (·.serial)
          == some (serialAdd ((a + j) % serialMod) 1)) = false := by
        rw [oldest_serial hs (by simp)]
        simp; unfold serialAdd serialMod serialHalf at *; omega
      simp only [hl, hne, h1, if_false, Bool.false_eq_true, hb, Bool.and_false]
      have hr : ∃ x xs, (d :: rest).reverse = x :: xs := by
        cases hrev : (d :: rest).reverse with
        | nil => simp at hrev
        | cons x xs => exact ⟨x, xs, rfl⟩
      obtain ⟨x, xs, hr⟩ := hr
      rw [hr] at hs ⊢
      rw [skipTo_refuse x xs a j hs (by unfold serialHalf at *; omega) hjm]

/-- A client at the version the oldest retained delta starts from (serial `a - 1`) gets the
fold of `merge` over **all** retained deltas (second repair; with a single delta this is
the "one behind" shortcut). -/
theorem deltaSince_base (h : History) (a : Nat) (hs : SerialsFrom a h.deltas.reverse)
    (hn : h.deltas.length < serialHalf) (h0 : h.deltas ≠ []) :
    ∃ x xs, h.deltas.reverse = x :: xs ∧
      h.deltaSince ((a + (serialMod - 1)) % serialMod) = some (xs.foldl PayloadDelta.merge x) := by
  cases hds : h.deltas with
  | nil => exact absurd hds h0
  | cons d rest =>
    rw [hds] at hs hn
    simp only [List.length_cons] at hn
    have hd := front_serial hs
    have hcl : (a + (serialMod - 1)) % serialMod < serialMod :=
      Nat.mod_lt _ (by unfold serialMod; omega)
    by_cases hr0 : rest = []
    · -- a single delta: one behind
      subst hr0
      have h1 : d.serial = serialAdd ((a + (serialMod - 1)) % serialMod) 1 := by
        rw [hd]; unfold serialAdd serialMod; simp; omega
      refine ⟨d, [], by simp, ?_⟩
      exact deltaSince_one_behind h d [] hds _ hcl h1
    · have hpos : 0 < rest.length := List.length_pos_iff.mpr hr0
      have hp := serialPcmp_two a rest.length (serialMod - 1)
        (by unfold serialMod serialHalf at *; omega) (by unfold serialMod; omega)
      have t1 : (serialMod - 1 + serialMod - rest.length) % serialMod ≠ 0 := by
        unfold serialMod serialHalf at *; omega
      have t2 : ¬ (serialMod - 1 + serialMod - rest.length) % serialMod < serialHalf := by
        unfold serialMod serialHalf at *; omega
      have t3 : (serialMod - 1 + serialMod - rest.length) % serialMod ≠ serialHalf := by
        unfold serialMod serialHalf at *; omega
      simp only [t1, t2, t3, if_false] at hp
      have hlt : serialLt d.serial ((a + (serialMod - 1)) % serialMod) = false := by
        unfold serialLt; rw [hd, hp]; rfl
      have hne : d.serial ≠ (a + (serialMod - 1)) % serialMod := by
        rw [hd]; unfold serialMod serialHalf at *; omega
      have h1 : d.serial ≠ serialAdd ((a + (serialMod - 1)) % serialMod) 1 := by
        rw [hd]; unfold serialAdd; unfold serialMod serialHalf at *; omega
      have hb : ((d :: rest).reverse.head?.map (·.serial)
          == some (serialAdd ((a + (serialMod - 1)) % serialMod) 1)) = true := by
        rw [oldest_serial hs (by simp)]
        simp; unfold serialAdd serialMod; omega
      unfold History.deltaSince History.deltaSinceWith
      simp only [hds, hlt, hne, h1, if_false, Bool.false_eq_true, hb, Bool.and_true, if_true]
      cases hrev : (d :: rest).reverse with
      | nil => simp at hrev
      | cons x xs => exact ⟨x, xs, rfl, rfl⟩

/-! ### `consecutive` (the deltas between the versions of a log) -/

theorem lastOf_nil (x : Snapshot × Nat) : lastOf x [] = x := rfl

theorem lastOf_cons (x v : Snapshot × Nat) (vs : List (Snapshot × Nat)) :
    lastOf x (v :: vs) = lastOf v vs := by
  unfold lastOf
  cases vs with
  | nil => simp
  | cons w ws =>
    simp only [List.getLast?_cons_cons]
    cases h : (w :: ws).getLast? with
    | none => simp at h
    | some y => rfl

theorem lastOf_append (x y : Snapshot × Nat) (vs : List (Snapshot × Nat)) :
    lastOf x (vs ++ [y]) = y := by
  unfold lastOf; simp

theorem lastOf_mem (x : Snapshot × Nat) (vs : List (Snapshot × Nat)) : lastOf x vs ∈ x :: vs := by
  induction vs generalizing x with
  | nil => simp [lastOf_nil]
  | cons v vs ih =>
    rw [lastOf_cons]
    have := ih v
    simp at this ⊢
    rcases this with h | h
    · right; left; exact h
    · right; right; exact h

theorem consecutive_length (s : Snapshot) (vs : List (Snapshot × Nat)) :
    (consecutive s vs).length = vs.length := by
  induction vs generalizing s with
  | nil => simp [consecutive]
  | cons v vs ih => obtain ⟨t, n⟩ := v; simp [consecutive, ih]

theorem consecutive_append (b x : Snapshot × Nat) (vs : List (Snapshot × Nat)) :
    consecutive b.1 (vs ++ [x]) =
      consecutive b.1 vs ++ [PayloadDelta.between (lastOf b vs).1 x.1 x.2] := by
  induction vs generalizing b with
  | nil => obtain ⟨t, n⟩ := x; simp [consecutive, lastOf_nil]
  | cons v vs ih =>
    obtain ⟨t, n⟩ := v
    simp only [List.cons_append, consecutive, lastOf_cons]
    rw [ih (t, n)]

theorem consecutive_getElem_serial (s : Snapshot) (vs : List (Snapshot × Nat)) (k : Nat)
    (hk : k < vs.length) :
    ((consecutive s vs)[k]'(by rw [consecutive_length]; exact hk)).serial = (vs[k]).2 := by
  induction vs generalizing s k with
  | nil => simp at hk
  | cons v vs ih =>
    obtain ⟨t, n⟩ := v
    cases k with
    | zero => simp [consecutive, PayloadDelta.between]
    | succ k => simp only [consecutive, List.getElem_cons_succ]; exact ih t k (by simpa using hk)

/-- The serials of a list of versions follow `p` one by one (modulo 2^32). -/
def SerialChain (p : Nat) : List (Snapshot × Nat) → Prop
  | [] => True
  | v :: vs => v.2 = (p + 1) % serialMod ∧ SerialChain v.2 vs

theorem SerialChain.getElem {p : Nat} {vs : List (Snapshot × Nat)} (h : SerialChain p vs)
    (k : Nat) (hk : k < vs.length) : (vs[k]).2 = (p + k + 1) % serialMod := by
  induction vs generalizing p k with
  | nil => simp at hk
  | cons v vs ih =>
    obtain ⟨h1, h2⟩ := h
    cases k with
    | zero => simpa using h1
    | succ k =>
      simp only [List.getElem_cons_succ]
      rw [ih h2 k (by simpa using hk), h1]
      unfold serialMod; omega

theorem SerialChain.append {p : Nat} {vs : List (Snapshot × Nat)} (h : SerialChain p vs)
    (b x : Snapshot × Nat) (hb : b.2 = p) (hx : x.2 = ((lastOf b vs).2 + 1) % serialMod) :
    SerialChain p (vs ++ [x]) := by
  induction vs generalizing p b with
  | nil => simp [SerialChain, lastOf_nil] at hx ⊢; rw [hx, hb]
  | cons v vs ih =>
    obtain ⟨h1, h2⟩ := h
    refine ⟨h1, ih h2 v rfl ?_⟩
    rw [lastOf_cons] at hx; exact hx

theorem SerialChain.last {p : Nat} {vs : List (Snapshot × Nat)} (h : SerialChain p vs)
    (b : Snapshot × Nat) (hb : b.2 = p) (hp : p < serialMod) :
    (lastOf b vs).2 = (p + vs.length) % serialMod := by
  induction vs generalizing p b with
  | nil => simp [lastOf_nil, hb]; exact (Nat.mod_eq_of_lt hp).symm
  | cons v vs ih =>
    obtain ⟨h1, h2⟩ := h
    rw [lastOf_cons, ih h2 v rfl (by rw [h1]; exact Nat.mod_lt _ (by unfold serialMod; omega)), h1]
    simp only [List.length_cons]
    unfold serialMod; omega

/-- Folding `merge` over the deltas newer than version `k+1` gives the direct delta from
that version to the last one (C12 lifted to a suffix of the retained deltas). -/
theorem fold_drop (b : Snapshot × Nat) (vs : List (Snapshot × Nat)) (k : Nat)
    (hk : k + 1 < vs.length) (hvs : ∀ v ∈ vs, v.1.WF) :
    ∃ x xs, (consecutive b.1 vs).drop (k + 1) = x :: xs ∧
      xs.foldl PayloadDelta.merge x
        = PayloadDelta.between (vs[k]).1 (lastOf b vs).1 (lastOf b vs).2 := by
  induction vs generalizing b k with
  | nil => simp at hk
  | cons v vs ih =>
    obtain ⟨t, n⟩ := v
    simp only [consecutive, List.drop_succ_cons, lastOf_cons]
    cases k with
    | zero =>
      cases vs with
      | nil => simp at hk
      | cons w ws =>
        obtain ⟨t', n'⟩ := w
        refine ⟨_, _, by simp [consecutive]; exact ⟨rfl, rfl⟩, ?_⟩
        have := C12_fold_merge t t' n' ws (hvs (t, n) (by simp)) (hvs (t', n') (by simp))
          (fun x hx => hvs x (by simp [hx]))
        simp only [List.getElem_cons_zero]
        rw [this, lastOf_cons]
    | succ k =>
      have := ih (t, n) k (by simpa using hk) (fun x hx => hvs x (by simp [hx]))
      obtain ⟨x, xs, h1, h2⟩ := this
      exact ⟨x, xs, h1, by simpa using h2⟩

theorem construct_eq_between {old new : Snapshot} {serial : Nat} {d : PayloadDelta}
    (h : PayloadDelta.construct old new serial = some d) :
    d = PayloadDelta.between old new (serialAdd serial 1) := by
  unfold PayloadDelta.construct at h
  dsimp only at h
  split at h
  · simp at h
  · simp at h; subst h; rfl

theorem between_self {s : Snapshot} (hs : s.WF) (n : Nat) :
    PayloadDelta.between s s n = PayloadDelta.empty n := by
  unfold PayloadDelta.between PayloadDelta.empty
  rw [(C11_std_empty_iff hs.origins hs.origins).2 rfl,
      (C11_std_empty_iff hs.routerKeys hs.routerKeys).2 rfl,
      (C11_aspa_empty_iff hs.aspas hs.aspas).2 rfl]

theorem apply_empty {s : Snapshot} (hs : s.WF) (n : Nat) : (PayloadDelta.empty n).apply s = s := by
  rw [← between_self hs n]; exact C12_apply_merged hs hs n

/-! ### The invariant of reachable histories -/

/-- Witnesses of the invariant for an active history: `b` is the version before the oldest
retained delta, `vs` the versions the retained deltas lead to (oldest first). -/
structure Chain (h : History) (cur : Snapshot) (b : Snapshot × Nat)
    (vs : List (Snapshot × Nat)) : Prop where
  base_lt : b.2 < serialMod
  base_wf : b.1.WF
  vs_wf : ∀ v ∈ vs, v.1.WF
  /-- every retained delta is the direct delta between two consecutive versions -/
  deltas : h.deltas.reverse = consecutive b.1 vs
  /-- serials step by one -/
  serials : SerialChain b.2 vs
  cur : (lastOf b vs).1 = cur
  /-- the versions are the newest entries of the ghost log -/
  log : ∃ older, h.log = (b :: vs).reverse ++ older
  bound : vs.length ≤ max h.keep 1
  /-- without deltas the serial is 0 -/
  fresh : vs = [] → b.2 = 0

/-- The invariant: an inactive history is empty; an active one is a `Chain`. The history
size is below 2^31 (the configuration file caps it at 65535). -/
def History.Wf (h : History) : Prop :=
  h.keep < serialHalf ∧
  match h.current with
  | none => h.deltas = [] ∧ h.log = []
  | some cur => ∃ b vs, Chain h cur b vs

theorem Chain.length {h : History} {cur : Snapshot} {b : Snapshot × Nat}
    {vs : List (Snapshot × Nat)} (hc : Chain h cur b vs) : h.deltas.length = vs.length := by
  have := congrArg List.length hc.deltas
  simpa [consecutive_length] using this

theorem Chain.serialsFrom {h : History} {cur : Snapshot} {b : Snapshot × Nat}
    {vs : List (Snapshot × Nat)} (hc : Chain h cur b vs) :
    SerialsFrom (b.2 + 1) h.deltas.reverse := by
  rw [hc.deltas]
  intro j hj
  rw [consecutive_length] at hj
  rw [consecutive_getElem_serial _ _ _ hj, hc.serials.getElem j hj]
  congr 1; omega

theorem Chain.cur_wf {h : History} {cur : Snapshot} {b : Snapshot × Nat}
    {vs : List (Snapshot × Nat)} (hc : Chain h cur b vs) : cur.WF := by
  rw [← hc.cur]
  have := lastOf_mem b vs
  simp at this
  rcases this with h1 | h1
  · rw [h1]; exact hc.base_wf
  · exact hc.vs_wf _ h1

theorem Chain.serial {h : History} {cur : Snapshot} {b : Snapshot × Nat}
    {vs : List (Snapshot × Nat)} (hc : Chain h cur b vs) : h.serial = (lastOf b vs).2 := by
  rw [hc.serials.last b rfl hc.base_lt]
  unfold History.serial
  cases hds : h.deltas with
  | nil =>
    have hl := hc.length; rw [hds] at hl; simp at hl
    have hv : vs = [] := List.eq_nil_of_length_eq_zero hl.symm
    rw [hv, hc.fresh hv]; simp [serialMod]
  | cons d rest =>
    have hs := hc.serialsFrom; rw [hds] at hs
    have hl := hc.length; rw [hds] at hl; simp at hl
    simp only
    rw [front_serial hs, ← hl]; congr 1; omega

theorem wf_init (keep session : Nat) (hk : keep < serialHalf) : (History.init keep session).Wf :=
  ⟨hk, by simp [History.init]⟩

theorem wf_update (h : History) (s : Snapshot) (hw : h.Wf) (hs : s.WF) : (h.update s).1.Wf := by
  obtain ⟨hk, hw⟩ := hw
  unfold History.update
  cases hcur : h.current with
  | none =>
    rw [hcur] at hw
    obtain ⟨hd, hl⟩ := hw
    have h0 : h.serial = 0 := by unfold History.serial; rw [hd]
    refine ⟨hk, (s, h.serial), [], ?_⟩
    exact {
      base_lt := by rw [h0]; unfold serialMod; omega
      base_wf := hs
      vs_wf := by simp
      deltas := by simp [hd, consecutive]
      serials := trivial
      cur := by simp [lastOf_nil]
      log := ⟨[], by simp [hl]⟩
      bound := by simp
      fresh := fun _ => h0 }
  | some cur =>
    rw [hcur] at hw
    obtain ⟨b, vs, hc⟩ := hw
    simp only
    cases hcon : PayloadDelta.construct cur s h.serial with
    | none =>
      have e : cur = s := (C11_construct_none_iff hc.cur_wf hs h.serial).1 hcon
      refine ⟨hk, b, vs, ?_⟩
      exact ⟨hc.base_lt, hc.base_wf, hc.vs_wf, hc.deltas, hc.serials, by rw [hc.cur, e], hc.log,
        hc.bound, hc.fresh⟩
    | some d =>
      have hd := construct_eq_between hcon
      have hser := hc.serial
      have hlen := hc.length
      have hlast := hc.serials.last b rfl hc.base_lt
      simp only
      by_cases hev : h.deltas.length ≥ max h.keep 1
      · -- the oldest delta is evicted
        cases vs with
        | nil => simp at hlen; rw [hlen] at hev; simp at hev
        | cons v0 vs0 =>
          obtain ⟨hs1, hs2⟩ := hc.serials
          refine ⟨hk, v0, vs0 ++ [(s, d.serial)], ?_⟩
          have hrev : (h.pushDelta d).deltas.reverse
              = consecutive v0.1 vs0 ++ [d] := by
            unfold History.pushDelta
            simp only [hev, if_true, List.reverse_cons]
            rw [← List.tail_reverse, hc.deltas]
            obtain ⟨t, n⟩ := v0
            simp [consecutive]
          exact {
            base_lt := by rw [hs1]; exact Nat.mod_lt _ (by unfold serialMod; omega)
            base_wf := hc.vs_wf v0 (by simp)
            vs_wf := by
              intro v hv; simp at hv
              rcases hv with hv | hv
              · exact hc.vs_wf v (by simp [hv])
              · rw [hv]; exact hs
            deltas := by
              show (h.pushDelta d).deltas.reverse = _
              rw [hrev, consecutive_append v0 (s, d.serial) vs0, hd]
              have : (lastOf v0 vs0).1 = cur := by rw [← lastOf_cons b]; exact hc.cur
              rw [this]
              simp [PayloadDelta.between]
            serials := by
              apply hs2.append v0 (s, d.serial) rfl
              rw [hd]; simp only [PayloadDelta.between]
              rw [hser, lastOf_cons]; rfl
            cur := by simp [lastOf_append]
            log := by
              obtain ⟨older, hl⟩ := hc.log
              refine ⟨b :: older, ?_⟩
              show (s, d.serial) :: h.log = _
              rw [hl]; simp
            bound := by
              show (vs0 ++ [(s, d.serial)]).length ≤ max (h.pushDelta d).keep 1
              have := hc.bound
              simp at this hlen ⊢
              unfold History.pushDelta; simp only
              omega
            fresh := by simp }
      · -- room left
        refine ⟨hk, b, vs ++ [(s, d.serial)], ?_⟩
        have hrev : (h.pushDelta d).deltas.reverse = consecutive b.1 vs ++ [d] := by
          unfold History.pushDelta
          simp only [hev, if_false, List.reverse_cons]
          rw [hc.deltas]
        exact {
          base_lt := hc.base_lt
          base_wf := hc.base_wf
          vs_wf := by
            intro v hv; simp at hv
            rcases hv with hv | hv
            · exact hc.vs_wf v hv
            · rw [hv]; exact hs
          deltas := by
            show (h.pushDelta d).deltas.reverse = _
            rw [hrev, consecutive_append b (s, d.serial) vs, hd, hc.cur]
            simp [PayloadDelta.between]
          serials := by
            apply hc.serials.append b (s, d.serial) rfl
            rw [hd]; simp only [PayloadDelta.between]
            rw [hser]; rfl
          cur := by simp [lastOf_append]
          log := by
            obtain ⟨older, hl⟩ := hc.log
            refine ⟨older, ?_⟩
            show (s, d.serial) :: h.log = _
            rw [hl]; simp
          bound := by
            show (vs ++ [(s, d.serial)]).length ≤ max (h.pushDelta d).keep 1
            simp at hev hlen ⊢
            unfold History.pushDelta; simp only
            omega
          fresh := by simp }

theorem wf_seed (h : History) (x : Nat) (hw : h.Wf) (hx : x < serialMod) : (h.seed x).1.Wf := by
  obtain ⟨hk, hw⟩ := hw
  unfold History.seed
  cases hcur : h.current with
  | none => simp only; exact ⟨hk, by rw [hcur] at hw ⊢; exact hw⟩
  | some cur =>
    rw [hcur] at hw
    obtain ⟨b, vs, hc⟩ := hw
    have hcw := hc.cur_wf
    simp only
    refine ⟨hk, ?_⟩
    have hm : ¬ (0 ≥ max h.keep 1) := by omega
    refine ⟨(cur, (x + serialMod - 1) % serialMod), [(cur, x)], ?_⟩
    exact {
      base_lt := Nat.mod_lt _ (by unfold serialMod; omega)
      base_wf := hcw
      vs_wf := by simp; exact hcw
      deltas := by
        simp [History.pushDelta, hm, consecutive, between_self hcw]
      serials := ⟨by simp only; unfold serialMod at *; omega, trivial⟩
      cur := by simp [lastOf]
      log := ⟨[], by simp⟩
      bound := by simp [History.pushDelta]; omega
      fresh := by simp }

/-! ### Runs: arbitrary sequences of updates (and restarts of the numbering) -/

/-- One step of a history script. `seed` is the harness hook; production code only updates. -/
inductive HistOp
  | update (s : Snapshot)
  | seed (x : Nat)

def HistOp.Ok : HistOp → Prop
  | .update s => s.WF
  | .seed x => x < serialMod

def History.step (h : History) : HistOp → History
  | .update s => (h.update s).1
  | .seed x => (h.seed x).1

def History.run (h : History) (ops : List HistOp) : History := ops.foldl History.step h

theorem wf_run (h : History) (ops : List HistOp) (hw : h.Wf) (hok : ∀ op ∈ ops, op.Ok) :
    (h.run ops).Wf := by
  unfold History.run
  induction ops generalizing h with
  | nil => exact hw
  | cons op ops ih =>
    simp only [List.foldl]
    apply ih
    · cases op with
      | update s => exact wf_update h s hw (hok (.update s) (by simp))
      | seed x => exact wf_seed h x hw (hok (.seed x) (by simp))
    · intro o ho; exact hok o (by simp [ho])

end RoutinatorModel
