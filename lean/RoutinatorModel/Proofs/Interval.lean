import RoutinatorModel.Model.Snapshot
import RoutinatorModel.Proofs.Prefix
/-! The address interval of a prefix (`min`/`max` of `rpki::repository::resources::Prefix`)
is the set of addresses that start with the prefix' bits. -/
namespace RoutinatorModel
namespace Prefix

theorem hostMask_toNat (len : Nat) (h : len ≤ 128) :
    (BitVec.allOnes 128 >>> len).toNat = 2 ^ (128 - len) - 1 := by
  rw [BitVec.toNat_ushiftRight, BitVec.toNat_allOnes]
  apply Nat.eq_of_testBit_eq
  intro i
  rw [Nat.testBit_shiftRight, Nat.testBit_two_pow_sub_one, Nat.testBit_two_pow_sub_one]
  congr 1
  apply propext
  omega

theorem lsb_of_msb (b : BitVec 128) (j : Nat) (hj : j < 128) :
    b.toNat.testBit j = b.getMsbD (127 - j) := by
  rw [BitVec.getMsbD_eq_getLsbD, BitVec.testBit_toNat]
  have : 127 - j < 128 := by omega
  simp only [this, decide_true, Bool.true_and]
  congr 1
  omega

theorem len_le_128 {p : Prefix} (hp : p.WF) : p.len ≤ 128 := by
  have := hp.len_le
  unfold famLen at this
  split at this <;> omega

theorem bits_mod_eq_zero {p : Prefix} (hp : p.WF) : p.bits.toNat % 2 ^ (128 - p.len) = 0 := by
  apply Nat.eq_of_testBit_eq
  intro j
  rw [Nat.testBit_mod_two_pow, Nat.zero_testBit]
  by_cases hj : j < 128 - p.len
  · have h128 : j < 128 := by omega
    rw [lsb_of_msb _ _ h128]
    have := hp.host_zero (127 - j) (by omega)
    simp only [bit] at this
    simp [this]
  · simp [hj]

theorem maxAddr_eq {p : Prefix} (hp : p.WF) :
    p.maxAddr = p.bits.toNat + (2 ^ (128 - p.len) - 1) := by
  have hlen := len_le_128 hp
  have hz : p.bits &&& (BitVec.allOnes 128 >>> p.len) = 0#128 := by
    have := (hostZeroB_iff p).2 hp.host_zero
    unfold hostZeroB at this
    exact beq_iff_eq.1 this
  unfold maxAddr
  rw [← BitVec.add_eq_or_of_and_eq_zero _ _ hz, BitVec.toNat_add, hostMask_toNat _ hlen]
  apply Nat.mod_eq_of_lt
  -- bits = 2^k * q with q < 2^len
  have hmod := bits_mod_eq_zero hp
  have hdvd : 2 ^ (128 - p.len) ∣ p.bits.toNat := Nat.dvd_of_mod_eq_zero hmod
  obtain ⟨q, hq⟩ := hdvd
  have hlt : p.bits.toNat < 2 ^ 128 := p.bits.isLt
  have hpow : (2 : Nat) ^ 128 = 2 ^ (128 - p.len) * 2 ^ p.len := by
    rw [← Nat.pow_add]; congr 1; omega
  have hkpos : 0 < 2 ^ (128 - p.len) := Nat.two_pow_pos _
  have hq' : q < 2 ^ p.len := by
    apply Nat.lt_of_mul_lt_mul_left (a := 2 ^ (128 - p.len))
    rw [← hq, ← hpow]; exact hlt
  have : 2 ^ (128 - p.len) * (q + 1) ≤ 2 ^ (128 - p.len) * 2 ^ p.len :=
    Nat.mul_le_mul_left _ hq'
  rw [Nat.mul_add, Nat.mul_one, ← hq, ← hpow] at this
  omega

/-- An address lies in `[minAddr, maxAddr]` iff its first `len` bits are the prefix' bits. -/
theorem mem_interval_iff {p : Prefix} (hp : p.WF) (x : Nat) (hx : x < 2 ^ 128) :
    (p.minAddr ≤ x ∧ x ≤ p.maxAddr) ↔
      ∀ i, i < p.len → (BitVec.ofNat 128 x).getMsbD i = p.bit i := by
  have hlen := len_le_128 hp
  have hkpos : 0 < 2 ^ (128 - p.len) := Nat.two_pow_pos _
  have hmod := bits_mod_eq_zero hp
  have hB : p.bits.toNat / 2 ^ (128 - p.len) * 2 ^ (128 - p.len) = p.bits.toNat := by
    rw [Nat.mul_comm]; exact Nat.mul_div_cancel' (Nat.dvd_of_mod_eq_zero hmod)
  have hX : (BitVec.ofNat 128 x).toNat = x := by
    rw [BitVec.toNat_ofNat]; exact Nat.mod_eq_of_lt hx
  -- interval ↔ quotients agree
  have hdiv : (p.minAddr ≤ x ∧ x ≤ p.maxAddr) ↔
      x / 2 ^ (128 - p.len) = p.bits.toNat / 2 ^ (128 - p.len) := by
    rw [Nat.div_eq_iff hkpos, hB, maxAddr_eq hp]
    unfold minAddr
    constructor
    · rintro ⟨h1, h2⟩; exact ⟨h1, by omega⟩
    · rintro ⟨h1, h2⟩; exact ⟨h1, by omega⟩
  rw [hdiv]
  constructor
  · intro h i hi
    have h128 : i < 128 := by omega
    have e1 := lsb_of_msb (BitVec.ofNat 128 x) (127 - i) (by omega)
    have e2 := lsb_of_msb p.bits (127 - i) (by omega)
    have hidx : 127 - (127 - i) = i := by omega
    rw [hidx] at e1 e2
    rw [hX] at e1
    unfold bit
    rw [← e1, ← e2]
    have hsplit : 127 - i = (p.len - 1 - i) + (128 - p.len) := by omega
    rw [hsplit, ← Nat.testBit_div_two_pow, ← Nat.testBit_div_two_pow, h]
  · intro h
    apply Nat.eq_of_testBit_eq
    intro j
    rw [Nat.testBit_div_two_pow, Nat.testBit_div_two_pow]
    by_cases hj : j < p.len
    · have e1 := lsb_of_msb (BitVec.ofNat 128 x) (j + (128 - p.len)) (by omega)
      have e2 := lsb_of_msb p.bits (j + (128 - p.len)) (by omega)
      rw [hX] at e1
      rw [e1, e2]
      exact h _ (by omega)
    · have hbig : (2 : Nat) ^ 128 ≤ 2 ^ (j + (128 - p.len)) :=
        Nat.pow_le_pow_right (by omega) (by omega)
      rw [Nat.testBit_lt_two_pow (Nat.lt_of_lt_of_le hx hbig),
        Nat.testBit_lt_two_pow (Nat.lt_of_lt_of_le p.bits.isLt hbig)]

end Prefix
end RoutinatorModel
