import RoutinatorModel.Model.Template
import RoutinatorModel.Proofs.JsonRec
/-!
# Filling an accepted template yields JSON

`fill_json`: if the recogniser accepts the template of a decoded format string, then the
format string filled with arguments of the holes' categories (`ArgsOk`) is a JSON text.
Also: comma-separated lists of elements.
-/
namespace RoutinatorModel.Json

/-- The i-th argument is a text of the category of the i-th hole. -/
def ArgsOk : List Seg → List Text → Prop
  | [], _ => True
  | .lit _ :: r, args => ArgsOk r args
  | .hole k :: r, a :: args => HoleOk (holeKindOf k) a ∧ ArgsOk r args
  | .hole _ :: _, [] => False

theorem inst_congr {σ σ' : Nat → Text} {t : Tmpl}
    (h : ∀ k id, Atom.hole k id ∈ t → σ id = σ' id) : inst σ t = inst σ' t := by
  induction t with
  | nil => rfl
  | cons a t ih =>
    have ht := ih (fun k id hm => h k id (List.mem_cons_of_mem _ hm))
    cases a with
    | ch c => simp [ht]
    | hole k id => simp [ht, h k id List.mem_cons_self]

theorem holesOk_congr {σ σ' : Nat → Text} {t : Tmpl}
    (h : ∀ k id, Atom.hole k id ∈ t → σ id = σ' id) (hok : HolesOk σ' t) : HolesOk σ t := by
  intro k id hm
  rw [h k id hm]
  exact hok k id hm

theorem ids_ge {segs : List Seg} {n : Nat} {k : HoleKind} {id : Nat}
    (h : Atom.hole k id ∈ toTmplFrom n segs) : n ≤ id := by
  induction segs generalizing n with
  | nil => simp [toTmplFrom] at h
  | cons s r ih =>
    cases s with
    | lit s =>
      simp only [toTmplFrom, List.mem_append] at h
      rcases h with h | h
      · simp [ofText] at h
      · exact ih h
    | hole k' =>
      simp only [toTmplFrom, List.mem_cons] at h
      rcases h with h | h
      · injection h with _ h2; omega
      · have := ih h; omega

theorem fill_spec (segs : List Seg) : ∀ (n : Nat) (args : List Text), ArgsOk segs args →
    inst (fun i => args.getD (i - n) []) (toTmplFrom n segs) = fillFrom segs args ∧
    HolesOk (fun i => args.getD (i - n) []) (toTmplFrom n segs) := by
  induction segs with
  | nil => intro n args _; exact ⟨rfl, HolesOk.nil _⟩
  | cons s r ih =>
    intro n args hok
    cases s with
    | lit s =>
      have := ih n args hok
      refine ⟨by simp only [toTmplFrom, fillFrom, inst_append, inst_ofText, this.1], ?_⟩
      intro k id hm
      simp only [toTmplFrom, List.mem_append] at hm
      rcases hm with hm | hm
      · simp [ofText] at hm
      · exact this.2 k id hm
    | hole kind =>
      cases args with
      | nil => exact absurd hok (by simp [ArgsOk])
      | cons a args =>
        simp only [ArgsOk] at hok
        have hrec := ih (n + 1) args hok.2
        have hcongr : ∀ k id, Atom.hole k id ∈ toTmplFrom (n + 1) r →
            (fun i => (a :: args).getD (i - n) []) id = (fun i => args.getD (i - (n + 1)) []) id := by
          intro k id hm
          have hge := ids_ge hm
          have : id - n = (id - (n + 1)) + 1 := by omega
          simp only [this, List.getD_cons_succ]
        refine ⟨?_, ?_⟩
        · simp only [toTmplFrom, inst_hole, fillFrom]
          rw [inst_congr hcongr, hrec.1]
          show (a :: args).getD (n - n) [] ++ _ = _
          rw [Nat.sub_self]; rfl
        · intro k id hm
          simp only [toTmplFrom, List.mem_cons] at hm
          rcases hm with hm | hm
          · injection hm with h1 h2
            subst h1 h2
            show HoleOk _ ((a :: args).getD (id - id) [])
            rw [Nat.sub_self]; exact hok.1
          · exact holesOk_congr hcongr hrec.2 k id hm

/-- **A format string whose template the recogniser accepts yields JSON for all arguments
of the right categories.** -/
theorem fill_json {segs : List Seg} {args : List Text} (h : pJson (toTmpl segs) = true)
    (hok : ArgsOk segs args) : IsJson (fillFrom segs args) := by
  have := fill_spec segs 0 args hok
  rw [← this.1]
  exact pJson_sound h _ this.2

theorem fill_value {segs : List Seg} {args : List Text} (h : pValueOnly (toTmpl segs) = true)
    (hok : ArgsOk segs args) : J .value (fillFrom segs args) := by
  have := fill_spec segs 0 args hok
  rw [← this.1]
  exact pValueOnly_sound h _ this.2

/-! ## Comma-separated elements -/

theorem elements_join {l : List Text} (hne : l ≠ []) (h : ∀ e ∈ l, J .element e) :
    J .elements (joinComma l) := by
  induction l with
  | nil => exact absurd rfl hne
  | cons e r ih =>
    cases r with
    | nil => exact J.el1 (h e List.mem_cons_self)
    | cons e2 r2 =>
      have hr := ih (by simp) (fun x hx => h x (List.mem_cons_of_mem _ hx))
      exact J.elS (h e List.mem_cons_self) hr

/-- What may stand in an `elems` hole: the comma-separated elements, or nothing. -/
theorem holeOk_join {l : List Text} (h : ∀ e ∈ l, J .element e) : HoleOk .elems (joinComma l) := by
  by_cases hne : l = []
  · subst hne; exact Or.inl IsWs.nil
  · exact Or.inr (elements_join hne h)

end RoutinatorModel.Json
