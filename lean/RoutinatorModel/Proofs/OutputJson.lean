import RoutinatorModel.Proofs.Output
import RoutinatorModel.Proofs.Stream
/-! The four JSON output formats produce JSON texts for all data. -/
namespace RoutinatorModel.Output
open RoutinatorModel.Json

/-! ## Alphabets -/

theorem isChars_of_plainB {s : Text} (h : plainB s = true) : IsChars s :=
  Stream.isChars_of_plainB h

theorem isInt_of_intB {s : Text} (h : intB s = true) : IsInt s := Stream.isInt_of_intB h

theorem isChars_taText {ta : Option Text} (h : optB scalarB ta = true) : IsChars (taText ta) := by
  apply isChars_jsonStr
  cases ta with
  | none => exact scalar_of_scalarB (by decide)
  | some s => exact scalar_of_scalarB h

/-! ## Loops with a `first` flag -/

theorem loopText_false {α : Type} (sep : Text) (f : α → Text) (l : List α) :
    loopText sep f false l = (l.map f).flatMap fun x => sep ++ x := by
  induction l with
  | nil => rfl
  | cons x rest ih => simp [loopText, ih]

/-- The elements of a `first`-flag loop whose separator is a comma followed by `w`. -/
def sepElems {α : Type} (w : Text) (f : α → Text) : List α → List Text
  | [] => []
  | x :: rest => f x :: rest.map fun y => w ++ f y

theorem loopText_join {α : Type} (w : Text) (f : α → Text) (l : List α) :
    loopText (0x2C :: w) f true l = joinComma (sepElems w f l) := by
  cases l with
  | nil => rfl
  | cons x rest =>
    simp only [loopText, sepElems, Stream.joinComma_cons, loopText_false]
    simp [List.flatMap_map]

theorem loopText_holeOk {α : Type} {w : Text} {f : α → Text} {l : List α} (hw : IsWs w)
    (h : ∀ x ∈ l, J .element (f x)) : HoleOk .elems (loopText (0x2C :: w) f true l) := by
  rw [loopText_join]
  apply holeOk_join
  cases l with
  | nil => intro e he; cases he
  | cons x rest =>
    intro e he
    simp only [sepElems, List.mem_cons, List.mem_map] at he
    rcases he with rfl | ⟨y, hy, rfl⟩
    · exact h x List.mem_cons_self
    · exact J.element_ws_left (h y (List.mem_cons_of_mem _ hy)) hw

/-! ## `payload_info` -/

def pubUriSegs : List Seg :=
  t_ExtendedJson_info_pub_head ++ (t_ExtendedJson_info_pub_uri ++ t_ExtendedJson_info_pub_rest)
def pubNoUriSegs : List Seg :=
  t_ExtendedJson_info_pub_head ++ (t_ExtendedJson_info_pub_nouri ++ t_ExtendedJson_info_pub_rest)
def excSegs (path comment : Bool) : List Seg :=
  t_ExtendedJson_info_exc_head ++
    ((if path then t_ExtendedJson_info_exc_path else t_ExtendedJson_info_exc_nopath) ++
    ((if comment then t_ExtendedJson_info_exc_comment else []) ++ t_ExtendedJson_info_exc_tail))

theorem pubUri_ok : pJson (toTmpl pubUriSegs) = true := by decide +kernel
theorem pubNoUri_ok : pJson (toTmpl pubNoUriSegs) = true := by decide +kernel
theorem exc_ok : ∀ p c, pJson (toTmpl (excSegs p c)) = true := by decide +kernel

theorem info_element {kind : Text} (hk : IsChars kind) {i : Info} (h : infoOkB i = true) :
    J .element (infoText kind i) := by
  cases i with
  | pub uri tal nb na cnb cna stale =>
    simp only [infoOkB, Bool.and_eq_true] at h
    obtain ⟨⟨⟨⟨⟨⟨hu, ht⟩, h1⟩, h2⟩, h3⟩, h4⟩, h5⟩ := h
    have htal := isChars_jsonStr (scalar_of_scalarB ht)
    cases uri with
    | some u =>
      have : infoText kind (.pub (some u) tal nb na cnb cna stale) =
          fillFrom pubUriSegs [kind, u, jsonStr tal, nb, na, cnb, cna, stale] := by
        simp [infoText, pubUriSegs, t_ExtendedJson_info_pub_head, t_ExtendedJson_info_pub_uri,
          t_ExtendedJson_info_pub_rest, fillFrom, List.append_assoc]
      rw [this]
      exact fill_json pubUri_ok ⟨hk, isChars_of_plainB hu, htal, isChars_of_plainB h1,
        isChars_of_plainB h2, isChars_of_plainB h3, isChars_of_plainB h4, isChars_of_plainB h5, trivial⟩
    | none =>
      have : infoText kind (.pub none tal nb na cnb cna stale) =
          fillFrom pubNoUriSegs [kind, jsonStr tal, nb, na, cnb, cna, stale] := by
        simp [infoText, pubNoUriSegs, t_ExtendedJson_info_pub_head, t_ExtendedJson_info_pub_nouri,
          t_ExtendedJson_info_pub_rest, fillFrom, lit, List.append_assoc]
      rw [this]
      exact fill_json pubNoUri_ok ⟨hk, htal, isChars_of_plainB h1,
        isChars_of_plainB h2, isChars_of_plainB h3, isChars_of_plainB h4, isChars_of_plainB h5, trivial⟩
  | exc path comment =>
    simp only [infoOkB, Bool.and_eq_true] at h
    cases path with
    | some p =>
      have hp := isChars_jsonStr (scalar_of_scalarB (s := p) h.1)
      cases comment with
      | some c =>
        have hc := isChars_jsonStr (scalar_of_scalarB (s := c) h.2)
        have : infoText kind (.exc (some p) (some c)) = fillFrom (excSegs true true) [jsonStr p, jsonStr c] := by
          simp [infoText, excSegs, t_ExtendedJson_info_exc_head, t_ExtendedJson_info_exc_path,
            t_ExtendedJson_info_exc_comment, t_ExtendedJson_info_exc_tail, fillFrom, lit, List.append_assoc]
        rw [this]
        exact fill_json (exc_ok true true) ⟨hp, hc, trivial⟩
      | none =>
        have : infoText kind (.exc (some p) none) = fillFrom (excSegs true false) [jsonStr p] := by
          simp [infoText, excSegs, t_ExtendedJson_info_exc_head, t_ExtendedJson_info_exc_path,
            t_ExtendedJson_info_exc_tail, fillFrom, lit, List.append_assoc]
        rw [this]
        exact fill_json (exc_ok true false) ⟨hp, trivial⟩
    | none =>
      cases comment with
      | some c =>
        have hc := isChars_jsonStr (scalar_of_scalarB (s := c) h.2)
        have : infoText kind (.exc none (some c)) = fillFrom (excSegs false true) [jsonStr c] := by
          simp [infoText, excSegs, t_ExtendedJson_info_exc_head, t_ExtendedJson_info_exc_nopath,
            t_ExtendedJson_info_exc_comment, t_ExtendedJson_info_exc_tail, fillFrom, lit, List.append_assoc]
        rw [this]
        exact fill_json (exc_ok false true) ⟨hc, trivial⟩
      | none =>
        have : infoText kind (.exc none none) = fillFrom (excSegs false false) [] := by
          simp [infoText, excSegs, t_ExtendedJson_info_exc_head, t_ExtendedJson_info_exc_nopath,
            t_ExtendedJson_info_exc_tail, fillFrom, lit, List.append_assoc]
        rw [this]
        exact fill_json (exc_ok false false) trivial

theorem infos_holeOk {kind : Text} (hk : IsChars kind) {infos : List Info}
    (h : infos.all infoOkB = true) : HoleOk .elems (infosText kind infos) := by
  have : lit t_ExtendedJson_info_sep = 0x2C :: [0x20] := by decide
  unfold infosText
  rw [this]
  exact loopText_holeOk (IsWs.of_all (by decide))
    (fun i hi => info_element hk (List.all_eq_true.mp h i hi))

/-! ## Items -/

theorem isChars_roa : IsChars (cp!"roa") := isChars_of_plainB (by decide)
theorem isChars_cer : IsChars (cp!"cer") := isChars_of_plainB (by decide)
theorem isChars_aspa : IsChars (cp!"aspa") := isChars_of_plainB (by decide)

def slurmOriginSegs (fmt : Format) (max : Bool) : List Seg :=
  h_origin_head fmt ++ ((if max then h_origin_maxlen fmt else []) ++ h_origin_tail fmt)

theorem origin_ok : pJson (toTmpl (h_origin .json)) = true ∧ pJson (toTmpl (h_origin .jsonext)) = true ∧
    (∀ m, pJson (toTmpl (slurmOriginSegs .slurm m)) = true) ∧
    (∀ m, pJson (toTmpl (slurmOriginSegs .slurm2 m)) = true) := by decide +kernel

theorem key_ok : pJson (toTmpl (h_router_key .json)) = true ∧
    pJson (toTmpl (h_router_key .jsonext)) = true ∧ pJson (toTmpl (h_router_key .slurm)) = true ∧
    pJson (toTmpl (h_router_key .slurm2)) = true := by decide +kernel

theorem origin_element {fmt : Format} (hf : fmt.isJson = true) {o : OriginI} (h : originOkB o = true) :
    J .element (originText fmt o) := by
  simp only [originOkB, Bool.and_eq_true] at h
  obtain ⟨⟨⟨⟨⟨⟨⟨h1, h2⟩, h3⟩, h4⟩, h5⟩, h6⟩, h7⟩, h8⟩ := h
  have c1 := isChars_of_plainB h1
  have c3 := isChars_of_plainB h3
  have i2 := isInt_of_intB h2
  have i4 := isInt_of_intB h4
  have i5 := isInt_of_intB h5
  have cta := isChars_taText h7
  cases fmt <;> simp only [Format.isJson] at hf <;> try (exact absurd hf (by decide))
  · exact fill_json origin_ok.1 ⟨c1, c3, i4, i5, cta, trivial⟩
  · exact fill_json origin_ok.2.1 ⟨c1, c3, i4, i5, infos_holeOk isChars_roa h8, trivial⟩
  · cases hm : o.maxLenT with
    | some m =>
      rw [hm] at h6
      have : originText .slurm o = fillFrom (slurmOriginSegs .slurm true) [o.asnNumT, o.addrT, o.lenT, m, taText o.ta] := by
        simp [originText, hm, slurmOriginSegs, h_origin_head, h_origin_maxlen, h_origin_tail,
          t_Slurm_origin_head, t_Slurm_origin_maxlen, t_Slurm_origin_tail, fillFrom, List.append_assoc]
      rw [this]
      exact fill_json (origin_ok.2.2.1 true) ⟨i2, c3, i4, isInt_of_intB h6, cta, trivial⟩
    | none =>
      have : originText .slurm o = fillFrom (slurmOriginSegs .slurm false) [o.asnNumT, o.addrT, o.lenT, taText o.ta] := by
        simp [originText, hm, slurmOriginSegs, h_origin_head, h_origin_tail,
          t_Slurm_origin_head, t_Slurm_origin_tail, fillFrom, List.append_assoc]
      rw [this]
      exact fill_json (origin_ok.2.2.1 false) ⟨i2, c3, i4, cta, trivial⟩
  · cases hm : o.maxLenT with
    | some m =>
      rw [hm] at h6
      have : originText .slurm2 o = fillFrom (slurmOriginSegs .slurm2 true) [o.asnNumT, o.addrT, o.lenT, m, taText o.ta] := by
        simp [originText, hm, slurmOriginSegs, h_origin_head, h_origin_maxlen, h_origin_tail,
          t_Slurm2_origin_head, t_Slurm2_origin_maxlen, t_Slurm2_origin_tail, fillFrom, List.append_assoc]
      rw [this]
      exact fill_json (origin_ok.2.2.2 true) ⟨i2, c3, i4, isInt_of_intB h6, cta, trivial⟩
    | none =>
      have : originText .slurm2 o = fillFrom (slurmOriginSegs .slurm2 false) [o.asnNumT, o.addrT, o.lenT, taText o.ta] := by
        simp [originText, hm, slurmOriginSegs, h_origin_head, h_origin_tail,
          t_Slurm2_origin_head, t_Slurm2_origin_tail, fillFrom, List.append_assoc]
      rw [this]
      exact fill_json (origin_ok.2.2.2 false) ⟨i2, c3, i4, cta, trivial⟩

theorem key_element {fmt : Format} (hf : fmt.isJson = true) {k : KeyI} (h : keyOkB k = true) :
    J .element (keyText fmt k) := by
  simp only [keyOkB, Bool.and_eq_true] at h
  obtain ⟨⟨⟨⟨⟨⟨⟨h1, h2⟩, h3⟩, h4⟩, h5⟩, h6⟩, h7⟩, h8⟩ := h
  have cta := isChars_taText h7
  cases fmt <;> simp only [Format.isJson] at hf <;> try (exact absurd hf (by decide))
  · exact fill_json key_ok.1 ⟨isChars_of_plainB h1, isChars_of_plainB h3, isChars_of_plainB h4, cta, trivial⟩
  · exact fill_json key_ok.2.1 ⟨isChars_of_plainB h1, isChars_of_plainB h3, isChars_of_plainB h4,
      infos_holeOk isChars_cer h8, trivial⟩
  · exact fill_json key_ok.2.2.1 ⟨isInt_of_intB h2, isChars_of_plainB h5, isChars_of_plainB h6, cta, trivial⟩
  · exact fill_json key_ok.2.2.2 ⟨isInt_of_intB h2, isChars_of_plainB h5, isChars_of_plainB h6, cta, trivial⟩

/-! ## ASPAs -/

def quoted (p : Text) : Text := 0x22 :: (p ++ [0x22])

def slurmProv (p : Text) : Text := cp!"\n          " ++ p

theorem provText_json (fmt : Format) (hf : fmt = .json ∨ fmt = .jsonext) (b : Bool) (ps : List Text) :
    provText fmt b ps = loopText (0x2C :: [0x20]) quoted b ps := by
  induction ps generalizing b with
  | nil => rfl
  | cons p rest ih =>
    rcases hf with rfl | rfl <;> cases b <;>
      simp [provText, loopText, ih, quoted, h_aspa_first, h_aspa_next, t_Json_aspa_first,
        t_Json_aspa_next, t_ExtendedJson_aspa_first, t_ExtendedJson_aspa_next, fillFrom]

theorem provText_slurm2 (b : Bool) (ps : List Text) :
    provText .slurm2 b ps = loopText (0x2C :: [0x20]) slurmProv b ps := by
  induction ps generalizing b with
  | nil => rfl
  | cons p rest ih =>
    cases b <;>
      simp [provText, loopText, ih, slurmProv, h_aspa_first, h_aspa_next, t_Slurm2_aspa_first,
        t_Slurm2_aspa_next, fillFrom]

theorem quoted_element {p : Text} (h : IsChars p) : J .element (quoted p) := by
  have := J.element IsWs.nil (J.str h) IsWs.nil
  simpa [quoted] using this

theorem slurmProv_element {p : Text} (h : IsInt p) : J .element (slurmProv p) := by
  have := J.element (a := cp!"\n          ") (IsWs.of_all (by decide)) (J.num (isNumber_of_int h)) IsWs.nil
  simpa [slurmProv] using this

def aspaSegs (fmt : Format) : List Seg := h_aspa_head fmt ++ (Seg.hole .elems :: h_aspa_tail fmt)

theorem aspa_ok : pJson (toTmpl (aspaSegs .json)) = true ∧ pJson (toTmpl (aspaSegs .jsonext)) = true ∧
    pJson (toTmpl (aspaSegs .slurm2)) = true := by decide +kernel

theorem aspa_element {fmt : Format} (hf : fmt = .json ∨ fmt = .jsonext ∨ fmt = .slurm2) {x : AspaI}
    (h : aspaOkB x = true) : J .element (aspaText fmt x) := by
  simp only [aspaOkB, Bool.and_eq_true] at h
  obtain ⟨⟨⟨⟨⟨h1, h2⟩, h3⟩, h4⟩, h5⟩, h6⟩ := h
  have cta := isChars_taText h5
  have hq : HoleOk .elems (loopText (0x2C :: [0x20]) quoted true x.provT) :=
    loopText_holeOk (IsWs.of_all (by decide))
      (fun p hp => quoted_element (isChars_of_plainB (List.all_eq_true.mp h3 p hp)))
  rcases hf with rfl | rfl | rfl
  · have : aspaText .json x = fillFrom (aspaSegs .json)
        [x.custT, loopText (0x2C :: [0x20]) quoted true x.provT, taText x.ta] := by
      simp [aspaText, provText_json .json (Or.inl rfl), aspaSegs, h_aspa_head, h_aspa_tail,
        t_Json_aspa_head, t_Json_aspa_tail, fillFrom, List.append_assoc]
    rw [this]
    exact fill_json aspa_ok.1 ⟨isChars_of_plainB h1, hq, cta, trivial⟩
  · have : aspaText .jsonext x = fillFrom (aspaSegs .jsonext)
        [x.custT, loopText (0x2C :: [0x20]) quoted true x.provT, infosText (cp!"aspa") x.infos] := by
      simp [aspaText, provText_json .jsonext (Or.inr rfl), aspaSegs, h_aspa_head, h_aspa_tail,
        t_ExtendedJson_aspa_head, t_ExtendedJson_aspa_tail, fillFrom, List.append_assoc]
    rw [this]
    exact fill_json aspa_ok.2.1 ⟨isChars_of_plainB h1, hq, infos_holeOk isChars_aspa h6, trivial⟩
  · have : aspaText .slurm2 x = fillFrom (aspaSegs .slurm2)
        [x.custNumT, loopText (0x2C :: [0x20]) slurmProv true x.provNumT, taText x.ta] := by
      simp [aspaText, provText_slurm2, aspaSegs, h_aspa_head, h_aspa_tail,
        t_Slurm2_aspa_head, t_Slurm2_aspa_tail, fillFrom, List.append_assoc]
    rw [this]
    exact fill_json aspa_ok.2.2 ⟨isInt_of_intB h2,
      loopText_holeOk (IsWs.of_all (by decide))
        (fun p hp => slurmProv_element (isInt_of_intB (List.all_eq_true.mp h4 p hp))), cta, trivial⟩

/-! ## Sections and the document -/

theorem section_origin (fmt : Format) (d : Data) (b : Bool) (l : List OriginI) :
    ((markFirst b l).map (fun p => Ev.origin p.1 p.2)).flatMap (evText fmt d) =
      loopText (lit (h_origin_delimiter fmt)) (originText fmt) b l := by
  induction l generalizing b with
  | nil => rfl
  | cons x rest ih => simp [markFirst, evText, loopText, ih, List.append_assoc]

theorem section_key (fmt : Format) (d : Data) (b : Bool) (l : List KeyI) :
    ((markFirst b l).map (fun p => Ev.key p.1 p.2)).flatMap (evText fmt d) =
      loopText (lit (h_router_key_delimiter fmt)) (keyText fmt) b l := by
  induction l generalizing b with
  | nil => rfl
  | cons x rest ih => simp [markFirst, evText, loopText, ih, List.append_assoc]

theorem section_aspa (fmt : Format) (d : Data) (b : Bool) (l : List AspaI) :
    ((markFirst b l).map (fun p => Ev.aspa p.1 p.2)).flatMap (evText fmt d) =
      loopText (lit (h_aspa_delimiter fmt)) (aspaText fmt) b l := by
  induction l generalizing b with
  | nil => rfl
  | cons x rest ih => simp [markFirst, evText, loopText, ih, List.append_assoc]

def secSegs (before after : List Seg) : List Seg := before ++ (Seg.hole .elems :: after)

/-- The document template of a format, given which sections are written. -/
def docSegs (fmt : Format) (o k a : Bool) : List Seg :=
  h_header fmt ++
    ((if o then secSegs (h_before_origins fmt) (h_after_origins fmt) else []) ++
    ((if k then secSegs (h_before_router_keys fmt) (h_after_router_keys fmt) else []) ++
    ((if a then secSegs (h_before_aspas fmt) (h_after_aspas fmt) else []) ++ h_footer fmt)))

theorem doc_ok : (∀ o k a, pJson (toTmpl (docSegs .json o k a)) = true) ∧
    (∀ o k a, pJson (toTmpl (docSegs .jsonext o k a)) = true) ∧
    pJson (toTmpl (docSegs .slurm true true false)) = true ∧
    pJson (toTmpl (docSegs .slurm2 true true true)) = true := by decide +kernel

theorem doc_json {segs : List Seg} {args : List Text} {text : Text} (h1 : pJson (toTmpl segs) = true)
    (h2 : ArgsOk segs args) (h3 : text = fillFrom segs args) : IsJson text := by
  rw [h3]; exact fill_json h1 h2

/-- A section: opening, items, closing — or nothing. -/
def secText (present : Bool) (before items after : Text) : Text :=
  if present then before ++ (items ++ after) else []

/-- The document in closed form. -/
def closedText (fmt : Format) (o k a : Bool) (gen time tO tK tA : Text) : Text :=
  fillFrom (h_header fmt) [gen, time] ++
    (secText o (lit (h_before_origins fmt)) tO (lit (h_after_origins fmt)) ++
    (secText k (lit (h_before_router_keys fmt)) tK (lit (h_after_router_keys fmt)) ++
    (secText a (lit (h_before_aspas fmt)) tA (lit (h_after_aspas fmt)) ++ lit (h_footer fmt))))

def headerArgs (fmt : Format) (gen time : Text) : List Text :=
  match fmt with
  | .json | .jsonext => [gen, time]
  | _ => []

def docArgs (fmt : Format) (o k a : Bool) (gen time tO tK tA : Text) : List Text :=
  headerArgs fmt gen time ++ ((if o then [tO] else []) ++ ((if k then [tK] else []) ++
    (if a then [tA] else [])))

set_option maxRecDepth 4000 in
theorem closed_fill (fmt : Format) (hf : fmt.isJson = true) (o k a : Bool) (gen time tO tK tA : Text) :
    closedText fmt o k a gen time tO tK tA =
      fillFrom (docSegs fmt o k a) (docArgs fmt o k a gen time tO tK tA) := by
  cases fmt <;> simp only [Format.isJson] at hf <;> try (exact absurd hf (by decide))
  all_goals
    cases o <;> cases k <;> cases a <;>
      simp [closedText, secText, docSegs, docArgs, headerArgs, secSegs, fillFrom, lit, h_header,
        h_before_origins, h_after_origins, h_before_router_keys, h_after_router_keys, h_before_aspas,
        h_after_aspas, h_footer, t_Json_header, t_Json_before_origins, t_Json_after_origins,
        t_Json_before_router_keys, t_Json_after_router_keys, t_Json_before_aspas, t_Json_after_aspas,
        t_Json_footer, t_ExtendedJson_header, t_ExtendedJson_before_origins,
        t_ExtendedJson_after_origins, t_ExtendedJson_before_router_keys,
        t_ExtendedJson_after_router_keys, t_ExtendedJson_before_aspas, t_ExtendedJson_after_aspas,
        t_ExtendedJson_footer, t_Slurm_header, t_Slurm_before_origins, t_Slurm_after_origins,
        t_Slurm_before_router_keys, t_Slurm_after_router_keys, t_Slurm_footer, t_Slurm2_header,
        t_Slurm2_before_origins, t_Slurm2_after_origins, t_Slurm2_before_router_keys,
        t_Slurm2_after_router_keys, t_Slurm2_before_aspas, t_Slurm2_after_aspas, t_Slurm2_footer,
        List.append_assoc]

set_option maxRecDepth 4000 in
theorem closed_args (fmt : Format) (hf : fmt.isJson = true) (o k a : Bool) {gen time tO tK tA : Text}
    (hg : IsNumber gen) (ht : IsChars time) (hO : HoleOk .elems tO) (hK : HoleOk .elems tK)
    (hA : HoleOk .elems tA) : ArgsOk (docSegs fmt o k a) (docArgs fmt o k a gen time tO tK tA) := by
  have hg' : HoleOk .num gen := hg
  have ht' : HoleOk .chars time := ht
  cases fmt <;> simp only [Format.isJson] at hf <;> try (exact absurd hf (by decide))
  all_goals
    cases o <;> cases k <;> cases a <;>
      simp [docSegs, docArgs, headerArgs, secSegs, ArgsOk, holeKindOf, h_header,
        h_before_origins, h_after_origins, h_before_router_keys, h_after_router_keys, h_before_aspas,
        h_after_aspas, h_footer, t_Json_header, t_Json_before_origins, t_Json_after_origins,
        t_Json_before_router_keys, t_Json_after_router_keys, t_Json_before_aspas, t_Json_after_aspas,
        t_Json_footer, t_ExtendedJson_header, t_ExtendedJson_before_origins,
        t_ExtendedJson_after_origins, t_ExtendedJson_before_router_keys,
        t_ExtendedJson_after_router_keys, t_ExtendedJson_before_aspas, t_ExtendedJson_after_aspas,
        t_ExtendedJson_footer, t_Slurm_header, t_Slurm_before_origins, t_Slurm_after_origins,
        t_Slurm_before_router_keys, t_Slurm_after_router_keys, t_Slurm_footer, t_Slurm2_header,
        t_Slurm2_before_origins, t_Slurm2_after_origins, t_Slurm2_before_router_keys,
        t_Slurm2_after_router_keys, t_Slurm2_before_aspas, t_Slurm2_after_aspas, t_Slurm2_footer,
        hg', ht', hO, hK, hA]

/-- Which sections a format writes for an output configuration, and their items. -/
def presO (fmt : Format) (out : Output) : Bool := fmt.sectionsAlways || out.routeOrigins
def presK (fmt : Format) (out : Output) : Bool := fmt.sectionsAlways || out.routerKeys
def presA (fmt : Format) (out : Output) : Bool :=
  match fmt with
  | .slurm => false
  | .slurm2 => true
  | _ => out.aspas

def itemsO (fmt : Format) (out : Output) (d : Data) : Text :=
  if out.routeOrigins then
    loopText (lit (h_origin_delimiter fmt)) (originText fmt) true (d.origins.filter (inclOrigin out))
  else []

def itemsK (fmt : Format) (out : Output) (d : Data) : Text :=
  if out.routerKeys then
    loopText (lit (h_router_key_delimiter fmt)) (keyText fmt) true (d.keys.filter (inclKey out))
  else []

def itemsA (fmt : Format) (out : Output) (d : Data) : Text :=
  if out.aspas && fmt.listsAspas then
    loopText (lit (h_aspa_delimiter fmt)) (aspaText fmt) true (d.aspas.filter (inclAspa out))
  else []

set_option linter.unusedSimpArgs false in
set_option maxRecDepth 4000 in
/-- The text the state machine writes, in closed form. -/
theorem render_closed (fmt : Format) (hf : fmt.isJson = true) (out : Output) (d : Data) :
    render fmt out d = closedText fmt (presO fmt out) (presK fmt out) (presA fmt out) d.generated
      d.generatedTime (itemsO fmt out d) (itemsK fmt out d) (itemsA fmt out d) := by
  obtain ⟨sel, more, ro, rk, ra⟩ := out
  cases fmt <;> simp only [Format.isJson] at hf <;> try (exact absurd hf (by decide))
  all_goals
    cases ro <;> cases rk <;> cases ra <;>
      simp only [render, events, run, next, flowOf, flowJson, flowSlurm, flowSlurm2, reduceCtorEq,
        ↓reduceIte, List.flatMap_append, List.flatMap_cons, List.flatMap_nil, section_origin,
        section_key, section_aspa, evText, beforeText, Format.sectionsAlways, Bool.or_true,
        Bool.or_false, Bool.false_or, Bool.true_or, List.append_nil, List.nil_append,
        Bool.false_eq_true, closedText, secText, presO, presK, presA, itemsO, itemsK, itemsA,
        Format.listsAspas, Bool.and_true, Bool.and_false, Bool.true_and, Bool.false_and,
        List.append_assoc]

theorem delim_eq (fmt : Format) (hf : fmt.isJson = true) :
    lit (h_origin_delimiter fmt) = 0x2C :: [0x0A] ∧ lit (h_router_key_delimiter fmt) = 0x2C :: [0x0A] ∧
    (fmt.listsAspas = true → lit (h_aspa_delimiter fmt) = 0x2C :: [0x0A]) := by
  cases fmt <;> simp only [Format.isJson] at hf <;> first | exact absurd hf (by decide) | decide

/-- **Every JSON output format yields a JSON text** for every data set (arbitrary TAL names,
exception comments and paths), every selection and every type exclusion. -/
theorem render_isJson (fmt : Format) (hf : fmt.isJson = true) (out : Output) (d : Data)
    (hd : d.okB = true) : IsJson (render fmt out d) := by
  simp only [Data.okB, Bool.and_eq_true] at hd
  obtain ⟨⟨⟨⟨hg, ht⟩, hO⟩, hK⟩, hA⟩ := hd
  have hdel := delim_eq fmt hf
  have hnl : IsWs [0x0A] := IsWs.of_all (by decide)
  have h1 : HoleOk .elems (itemsO fmt out d) := by
    unfold itemsO
    split
    · rw [hdel.1]
      exact loopText_holeOk hnl (fun o ho =>
        origin_element hf (List.all_eq_true.mp hO o (List.mem_filter.mp ho).1))
    · exact Or.inl IsWs.nil
  have h2 : HoleOk .elems (itemsK fmt out d) := by
    unfold itemsK
    split
    · rw [hdel.2.1]
      exact loopText_holeOk hnl (fun k hk =>
        key_element hf (List.all_eq_true.mp hK k (List.mem_filter.mp hk).1))
    · exact Or.inl IsWs.nil
  have h3 : HoleOk .elems (itemsA fmt out d) := by
    unfold itemsA
    split
    · rename_i hc
      simp only [Bool.and_eq_true] at hc
      rw [hdel.2.2 hc.2]
      have hfa : fmt = .json ∨ fmt = .jsonext ∨ fmt = .slurm2 := by
        cases fmt <;> simp [Format.listsAspas] at hc <;> simp
      exact loopText_holeOk hnl (fun x hx =>
        aspa_element hfa (List.all_eq_true.mp hA x (List.mem_filter.mp hx).1))
    · exact Or.inl IsWs.nil
  have hok : pJson (toTmpl (docSegs fmt (presO fmt out) (presK fmt out) (presA fmt out))) = true := by
    cases fmt <;> simp only [Format.isJson] at hf <;> try (exact absurd hf (by decide))
    · exact doc_ok.1 _ _ _
    · exact doc_ok.2.1 _ _ _
    · exact doc_ok.2.2.1
    · exact doc_ok.2.2.2
  rw [render_closed fmt hf]
  exact doc_json hok
    (closed_args fmt hf _ _ _ (isNumberB_sound hg) (isChars_of_plainB ht) h1 h2 h3)
    (closed_fill fmt hf _ _ _ _ _ _ _ _)

end RoutinatorModel.Output
