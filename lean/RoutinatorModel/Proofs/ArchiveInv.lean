import RoutinatorModel.Proofs.Archive
/-!
# The archive invariant, `find`, and the abstraction function (C26)
-/
namespace RoutinatorModel.Archive

/-- The layout invariant of an archive file. -/
structure Inv (c : Cfg) (f : File) : Prop where
  /-- the blocks tile `[idxEnd, size)`: sorted, contiguous, no overlap, sizes positive multiples
  of the page size -/
  tiles : Tiles idxEnd f.size f.blocks
  /-- the empties chain has no repetition … -/
  emptiesNodup : f.empties.Nodup
  /-- … and links exactly the empty blocks -/
  emptiesMem : ∀ p, p ∈ f.empties ↔ ∃ s, ⟨p, s, .empty⟩ ∈ f.blocks
  /-- every bucket chain has no repetition … -/
  bucketNodup : ∀ k, (getB f.buckets k).Nodup
  /-- … and links exactly the object blocks whose name hashes to the bucket -/
  bucketMem : ∀ k p, p ∈ getB f.buckets k ↔
    ∃ s n m d, ⟨p, s, .obj n m d⟩ ∈ f.blocks ∧ c.hash n = k
  /-- no two object blocks carry the same name -/
  names : ∀ p1 s1 p2 s2 n m1 d1 m2 d2, ⟨p1, s1, .obj n m1 d1⟩ ∈ f.blocks →
    ⟨p2, s2, .obj n m2 d2⟩ ∈ f.blocks → p1 = p2
  /-- an object block is exactly as large as its paged content -/
  sized : ∀ p s n m d, ⟨p, s, .obj n m d⟩ ∈ f.blocks → s = paged c n d

theorem inv_init (c : Cfg) : Inv c init := by
  constructor <;> simp [init, Tiles, getB]

/-! ## find -/

theorem findIn_found {bs : List Block} {n : Bytes} {ps : List Nat} {p s : Nat} {m d : Bytes}
    (h : findIn bs n ps = .found p s m d) : ⟨p, s, .obj n m d⟩ ∈ bs ∧ p ∈ ps := by
  induction ps with
  | nil => simp [findIn] at h
  | cons q ps ih =>
    unfold findIn at h
    split at h
    · rename_i q' s' n' m' d' hq
      have hb := blockAt_some hq
      split at h
      · rename_i hn
        injection h with e1 e2 e3 e4
        subst e1 e2 e3 e4 hn
        simp at hb
        rw [hb.2] at hb
        exact ⟨hb.1, List.mem_cons_self⟩
      · have := ih h
        exact ⟨this.1, List.mem_cons_of_mem _ this.2⟩
    · cases h

theorem findIn_missing {a z : Nat} {bs : List Block} (ht : Tiles a z bs) {n : Bytes}
    {ps : List Nat} (h : findIn bs n ps = .missing) :
    ∀ p ∈ ps, ∀ s m d, (⟨p, s, .obj n m d⟩ : Block) ∉ bs := by
  induction ps with
  | nil => simp
  | cons q ps ih =>
    unfold findIn at h
    split at h
    · rename_i q' s' n' m' d' hq
      have hb := blockAt_some hq
      split at h
      · cases h
      · rename_i hn
        intro p hp s m d hmem
        rcases List.mem_cons.mp hp with e | hp
        · subst e
          have := tiles_pos_inj ht hmem hb.1 (by have := hb.2; simp at this; simp [this])
          injection this with _ _ e3
          injection e3 with e4
          exact hn e4.symm
        · exact ih h p hp s m d hmem
    · cases h

theorem findIn_not_corrupt {a z : Nat} {bs : List Block} (ht : Tiles a z bs) {n : Bytes}
    {ps : List Nat} (hps : ∀ p ∈ ps, ∃ s n' m d, (⟨p, s, .obj n' m d⟩ : Block) ∈ bs) :
    findIn bs n ps ≠ .corrupt := by
  induction ps with
  | nil => simp [findIn]
  | cons q ps ih =>
    obtain ⟨s, n', m, d, hq⟩ := hps q List.mem_cons_self
    have := blockAt_of_mem ht hq
    simp only at this
    unfold findIn
    rw [this]
    simp only
    split
    · simp
    · exact ih (fun p hp => hps p (List.mem_cons_of_mem _ hp))

/-- What `find` returns on a consistent file. -/
inductive FindSpec (f : File) (n : Bytes) : Find → Prop
  | found {p s m d} : ⟨p, s, .obj n m d⟩ ∈ f.blocks → FindSpec f n (.found p s m d)
  | missing : (∀ p s m d, (⟨p, s, .obj n m d⟩ : Block) ∉ f.blocks) → FindSpec f n .missing

theorem find_spec {c : Cfg} {f : File} (h : Inv c f) (n : Bytes) : FindSpec f n (find c f n) := by
  unfold find
  cases hq : findIn f.blocks n (getB f.buckets (c.hash n)) with
  | found p s m d => exact .found (findIn_found hq).1
  | missing =>
    refine .missing ?_
    intro p s m d hmem
    have hp : p ∈ getB f.buckets (c.hash n) := (h.bucketMem _ p).mpr ⟨s, n, m, d, hmem, rfl⟩
    exact findIn_missing h.tiles hq p hp s m d hmem
  | corrupt =>
    exfalso
    refine findIn_not_corrupt h.tiles (n := n) (ps := getB f.buckets (c.hash n)) ?_ hq
    intro p hp
    obtain ⟨s, n', m, d, hm, _⟩ := (h.bucketMem _ p).mp hp
    exact ⟨s, n', m, d, hm⟩

/-! ## the abstraction function -/

theorem absBlocks_some {bs : List Block} {n m d : Bytes} (h : absBlocks bs n = some (m, d)) :
    ∃ p s, (⟨p, s, .obj n m d⟩ : Block) ∈ bs := by
  unfold absBlocks at h
  obtain ⟨b, hb, hf⟩ := List.exists_of_findSome?_eq_some h
  rcases b with ⟨p, s, body⟩
  cases body with
  | empty => simp at hf
  | obj n' m' d' =>
    simp only at hf
    split at hf
    · rename_i hn
      injection hf with e
      injection e with e1 e2
      subst hn e1 e2
      exact ⟨p, s, hb⟩
    · cases hf

theorem absBlocks_none {bs : List Block} {n : Bytes} (h : absBlocks bs n = none) :
    ∀ p s m d, (⟨p, s, .obj n m d⟩ : Block) ∉ bs := by
  unfold absBlocks at h
  rw [List.findSome?_eq_none_iff] at h
  intro p s m d hmem
  have := h _ hmem
  simp at this

/-- With unique names, `abs` is membership. -/
theorem absBlocks_iff {bs : List Block}
    (hu : ∀ p1 s1 p2 s2 n m1 d1 m2 d2, (⟨p1, s1, .obj n m1 d1⟩ : Block) ∈ bs →
      (⟨p2, s2, .obj n m2 d2⟩ : Block) ∈ bs → p1 = p2)
    {a z : Nat} (ht : Tiles a z bs) {n m d : Bytes} :
    absBlocks bs n = some (m, d) ↔ ∃ p s, (⟨p, s, .obj n m d⟩ : Block) ∈ bs := by
  constructor
  · exact absBlocks_some
  · rintro ⟨p, s, hmem⟩
    cases hq : absBlocks bs n with
    | none => exact absurd hmem (absBlocks_none hq p s m d)
    | some v =>
      obtain ⟨m', d'⟩ := v
      obtain ⟨p', s', hmem'⟩ := absBlocks_some hq
      have hp := hu _ _ _ _ _ _ _ _ _ hmem hmem'
      have := tiles_pos_inj ht hmem hmem' hp
      injection this with _ _ e3
      injection e3 with _ e5 e6
      rw [e5, e6]

theorem opt_ext {α : Type} {a b : Option α} (h : ∀ v, a = some v ↔ b = some v) : a = b := by
  cases a with
  | none =>
    cases b with
    | none => rfl
    | some v => exact absurd ((h v).mpr rfl) (by simp)
  | some v => exact ((h v).mp rfl).symm

theorem abs_iff {c : Cfg} {f : File} (h : Inv c f) {n m d : Bytes} :
    abs f n = some (m, d) ↔ ∃ p s, (⟨p, s, .obj n m d⟩ : Block) ∈ f.blocks :=
  absBlocks_iff h.names h.tiles

end RoutinatorModel.Archive
