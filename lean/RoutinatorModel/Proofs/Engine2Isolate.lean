import RoutinatorModel.Proofs.Engine2Rule
/-!
# Non-interference of the walk (C41)

Two universes (collector offers + stores) that differ only inside a region `A` of manifest
URIs which is closed under "child of" give the same visits outside `A`.
-/
namespace RoutinatorModel.Engine

/-- The result of a publication point depends on the collector's offer only through what is
offered for the point's own manifest URI. -/
theorem processPointX_congr (cfg : Cfg) (now : Int) (offer offer' : Offer) (st : Option Stored)
    (ca : CaX) (h : offer.get ca.ctx.info.mft = offer'.get ca.ctx.info.mft) :
    processPointX cfg now (some offer) st ca = processPointX cfg now (some offer') st ca := by
  simp only [processPointX, processPointXWith, h]

/-! ## Stores with unique keys -/

/-- No manifest URI is bound twice (true of the empty store, preserved by every update). -/
def KeysNodup {α : Type} (l : List (Nat × α)) : Prop := (l.map (·.1)).Nodup

theorem lookup_none_of_not_mem {α : Type} {k : Nat} {l : List (Nat × α)}
    (h : k ∉ l.map (·.1)) : lookup k l = none := by
  induction l with
  | nil => rfl
  | cons p rest ih =>
    obtain ⟨k', v'⟩ := p
    simp only [List.map_cons, List.mem_cons, not_or] at h
    unfold lookup
    have hne : ¬ k' = k := fun heq => h.1 heq.symm
    simp only [hne, ↓reduceIte]
    exact ih h.2

theorem lookup_setKey_none_self_nodup {α : Type} (k : Nat) (l : List (Nat × α))
    (h : KeysNodup l) : lookup k (setKey k none l) = none := by
  induction l with
  | nil => rfl
  | cons p rest ih =>
    obtain ⟨k', v'⟩ := p
    unfold KeysNodup at h
    simp only [List.map_cons, List.nodup_cons] at h
    unfold setKey
    by_cases hk : k' = k
    · subst hk
      simp only [↓reduceIte]
      exact lookup_none_of_not_mem h.1
    · simp only [hk, ↓reduceIte, lookup]
      exact ih h.2

theorem keysNodup_setKey {α : Type} (k : Nat) (v : Option α) (l : List (Nat × α))
    (h : KeysNodup l) : KeysNodup (setKey k v l) := by
  induction l with
  | nil =>
    cases v <;> simp [setKey, KeysNodup]
  | cons p rest ih =>
    obtain ⟨k', v'⟩ := p
    unfold KeysNodup at h ⊢
    simp only [List.map_cons, List.nodup_cons] at h
    unfold setKey
    by_cases hk : k' = k
    · subst hk
      cases v with
      | none => simpa using h.2
      | some w => simpa using h
    · simp only [hk, ↓reduceIte, List.map_cons, List.nodup_cons]
      refine ⟨?_, ih h.2⟩
      intro hmem
      obtain ⟨p, hp, hpk⟩ := List.mem_map.mp hmem
      rcases mem_setKey hp with hp | ⟨w, _, rfl⟩
      · exact h.1 (List.mem_map.mpr ⟨p, hp, hpk⟩)
      · exact hk hpk.symm

def StoreOk (s : Store) : Prop := KeysNodup s.points

theorem StoreOk.setPoint {s : Store} (h : StoreOk s) (u : Uri) (v : Option Stored) :
    StoreOk (s.setPoint u v) := keysNodup_setKey u v s.points h

theorem StoreOk.empty : StoreOk ⟨[], []⟩ := by simp [StoreOk, KeysNodup]

theorem point_setPoint_other (s : Store) (u u' : Uri) (v : Option Stored) (h : u' ≠ u) :
    (s.setPoint u v).point u' = s.point u' := by
  unfold Store.point Store.setPoint
  exact lookup_setKey_other _ _ _ _ h

theorem point_setPoint_self (s : Store) (hs : StoreOk s) (u : Uri) (v : Option Stored) :
    (s.setPoint u v).point u = v := by
  unfold Store.point Store.setPoint
  cases v with
  | some w => exact lookup_setKey_self _ _ _
  | none => exact lookup_setKey_none_self_nodup _ _ hs

/-! ## Agreement outside a region -/

/-- The stores agree on the trust anchors and on every publication point outside `A`. -/
def StoresAgree (A : Uri → Bool) (s s' : Store) : Prop :=
  s.tas = s'.tas ∧ ∀ u, A u = false → s.point u = s'.point u

theorem StoresAgree.refl (A : Uri → Bool) (s : Store) : StoresAgree A s s := ⟨rfl, fun _ _ => rfl⟩

theorem StoresAgree.symm {A : Uri → Bool} {s s' : Store} (h : StoresAgree A s s') :
    StoresAgree A s' s := ⟨h.1.symm, fun u hu => (h.2 u hu).symm⟩

theorem StoresAgree.trans {A : Uri → Bool} {s s' s'' : Store} (h : StoresAgree A s s')
    (h' : StoresAgree A s' s'') : StoresAgree A s s'' :=
  ⟨h.1.trans h'.1, fun u hu => (h.2 u hu).trans (h'.2 u hu)⟩

/-- Updating a point inside `A` is invisible outside. -/
theorem StoresAgree.setPoint_inside {A : Uri → Bool} (s : Store) (u : Uri) (v : Option Stored)
    (hu : A u = true) : StoresAgree A (s.setPoint u v) s := by
  refine ⟨rfl, fun u' hu' => point_setPoint_other _ _ _ _ ?_⟩
  intro he; subst he; simp [hu] at hu'

/-- The same update on both sides keeps the agreement. -/
theorem StoresAgree.setPoint_both {A : Uri → Bool} {s s' : Store} (h : StoresAgree A s s')
    (hs : StoreOk s) (hs' : StoreOk s') (u : Uri) (v : Option Stored) :
    StoresAgree A (s.setPoint u v) (s'.setPoint u v) := by
  refine ⟨h.1, fun u' hu' => ?_⟩
  by_cases he : u' = u
  · subst he
    rw [point_setPoint_self _ hs, point_setPoint_self _ hs']
  · rw [point_setPoint_other _ _ _ _ he, point_setPoint_other _ _ _ _ he]
    exact h.2 u' hu'

/-- `A` is closed under "child of" for the universe `coll`: whatever the store holds, a
publication point inside `A` only creates child tasks inside `A`. -/
def Closed (cfg : Cfg) (now : Int) (coll : Option Offer) (A : Uri → Bool) : Prop :=
  ∀ (ca : CaX) (st : Option Stored), A ca.ctx.info.mft = true →
    ∀ k ∈ (processPointX cfg now coll st ca).kids, A k.ctx.info.mft = true

/-- The visits outside `A`. -/
def outside (A : Uri → Bool) (l : List Visit) : List Visit :=
  l.filter (fun v => !A v.ca.ctx.info.mft)

theorem outside_append (A : Uri → Bool) (a b : List Visit) :
    outside A (a ++ b) = outside A a ++ outside A b := by
  simp [outside]

/-- A subtree rooted inside a closed region stays inside: all its visits are in `A`, and the
store outside `A` is not touched. -/
theorem processCaX_inside (cfg : Cfg) (now : Int) (coll : Option Offer) (A : Uri → Bool)
    (hclosed : Closed cfg now coll A) :
    ∀ fuel store ca, StoreOk store → A ca.ctx.info.mft = true →
      StoreOk (processCaX cfg now coll fuel store ca).2
      ∧ StoresAgree A (processCaX cfg now coll fuel store ca).2 store
      ∧ outside A (processCaX cfg now coll fuel store ca).1 = [] := by
  intro fuel
  induction fuel with
  | zero => intro store ca hs _; exact ⟨hs, StoresAgree.refl _ _, rfl⟩
  | succ fuel ih =>
    intro store ca hs hA
    rw [processCaX_succ]
    have hkids := hclosed ca (store.point ca.ctx.info.mft) hA
    have hfold : ∀ (ks : List CaX) (acc : List Visit × Store),
        (∀ k ∈ ks, A k.ctx.info.mft = true) → StoreOk acc.2 →
        StoreOk (ks.foldl (caStepX cfg now coll fuel) acc).2
        ∧ StoresAgree A (ks.foldl (caStepX cfg now coll fuel) acc).2 acc.2
        ∧ outside A (ks.foldl (caStepX cfg now coll fuel) acc).1 = outside A acc.1 := by
      intro ks
      induction ks with
      | nil => intro acc _ hs; exact ⟨hs, StoresAgree.refl _ _, rfl⟩
      | cons k rest ihk =>
        intro acc hk hs
        simp only [List.foldl_cons]
        obtain ⟨h1, h2, h3⟩ := ih acc.2 k hs (hk k (by simp))
        obtain ⟨g1, g2, g3⟩ := ihk (caStepX cfg now coll fuel acc k)
          (fun k' hk' => hk k' (by simp [hk'])) h1
        refine ⟨g1, g2.trans h2, ?_⟩
        rw [g3]
        simp only [caStepX, outside_append, h3, List.append_nil]
    obtain ⟨f1, f2, f3⟩ := hfold _
      ([⟨ca, store.point ca.ctx.info.mft,
          processPointX cfg now coll (store.point ca.ctx.info.mft) ca⟩],
        store.setPoint ca.ctx.info.mft
          (processPointX cfg now coll (store.point ca.ctx.info.mft) ca).stored)
      hkids (hs.setPoint _ _)
    refine ⟨f1, f2.trans (StoresAgree.setPoint_inside _ _ _ hA), ?_⟩
    rw [f3]
    simp [outside, hA]

/-- **Non-interference of `process_ca_task`.** Two universes whose offers agree outside a
region `A` closed in both, started from stores that agree outside `A`: the visits outside
`A` are identical and the stores still agree outside `A`. -/
theorem processCaX_isolated (cfg : Cfg) (now : Int) (offer offer' : Offer) (A : Uri → Bool)
    (hagree : ∀ u, A u = false → offer.get u = offer'.get u)
    (hclosed : Closed cfg now (some offer) A) (hclosed' : Closed cfg now (some offer') A) :
    ∀ fuel store store' ca, StoreOk store → StoreOk store' → StoresAgree A store store' →
      StoreOk (processCaX cfg now (some offer) fuel store ca).2
      ∧ StoreOk (processCaX cfg now (some offer') fuel store' ca).2
      ∧ StoresAgree A (processCaX cfg now (some offer) fuel store ca).2
          (processCaX cfg now (some offer') fuel store' ca).2
      ∧ outside A (processCaX cfg now (some offer) fuel store ca).1
          = outside A (processCaX cfg now (some offer') fuel store' ca).1 := by
  intro fuel
  induction fuel with
  | zero => intro store store' ca hs hs' ha; exact ⟨hs, hs', ha, rfl⟩
  | succ fuel ih =>
    intro store store' ca hs hs' ha
    by_cases hA : A ca.ctx.info.mft = true
    · -- the whole subtree is inside the region in both universes
      obtain ⟨a1, a2, a3⟩ := processCaX_inside cfg now (some offer) A hclosed (fuel + 1) store ca hs hA
      obtain ⟨b1, b2, b3⟩ := processCaX_inside cfg now (some offer') A hclosed' (fuel + 1) store' ca hs' hA
      exact ⟨a1, b1, (a2.trans ha).trans b2.symm, by rw [a3, b3]⟩
    · have hA' : A ca.ctx.info.mft = false := by simpa using hA
      rw [processCaX_succ, processCaX_succ]
      -- same point result in both universes
      have hst : store.point ca.ctx.info.mft = store'.point ca.ctx.info.mft := ha.2 _ hA'
      have hpt : processPointX cfg now (some offer) (store.point ca.ctx.info.mft) ca
          = processPointX cfg now (some offer') (store'.point ca.ctx.info.mft) ca := by
        rw [hst]
        exact processPointX_congr cfg now offer offer' _ ca (hagree _ hA')
      rw [hpt, hst]
      have hfold : ∀ (ks : List CaX) (acc acc' : List Visit × Store),
          StoreOk acc.2 → StoreOk acc'.2 → StoresAgree A acc.2 acc'.2 →
          outside A acc.1 = outside A acc'.1 →
          StoreOk (ks.foldl (caStepX cfg now (some offer) fuel) acc).2
          ∧ StoreOk (ks.foldl (caStepX cfg now (some offer') fuel) acc').2
          ∧ StoresAgree A (ks.foldl (caStepX cfg now (some offer) fuel) acc).2
              (ks.foldl (caStepX cfg now (some offer') fuel) acc').2
          ∧ outside A (ks.foldl (caStepX cfg now (some offer) fuel) acc).1
              = outside A (ks.foldl (caStepX cfg now (some offer') fuel) acc').1 := by
        intro ks
        induction ks with
        | nil => intro acc acc' h1 h2 h3 h4; exact ⟨h1, h2, h3, h4⟩
        | cons k rest ihk =>
          intro acc acc' h1 h2 h3 h4
          simp only [List.foldl_cons]
          obtain ⟨i1, i2, i3, i4⟩ := ih acc.2 acc'.2 k h1 h2 h3
          apply ihk
          · exact i1
          · exact i2
          · exact i3
          · simp only [caStepX, outside_append, h4, i4]
      apply hfold
      · exact hs.setPoint _ _
      · exact hs'.setPoint _ _
      · exact ha.setPoint_both hs hs' _ _
      · rfl

/-! ## Trust anchors -/

theorem loadTa_congr (view : Option View) (s s' : Store) (uri : Uri) (h : s.tas = s'.tas) :
    (loadTa view s uri).1 = (loadTa view s' uri).1
    ∧ (loadTa view s uri).2.tas = (loadTa view s' uri).2.tas
    ∧ (loadTa view s uri).2.points = s.points
    ∧ (loadTa view s' uri).2.points = s'.points := by
  rw [loadTa_eq, loadTa_eq]
  have hst : storedTaCert s uri = storedTaCert s' uri := by
    simp only [storedTaCert, Store.ta, h]
  cases download view uri with
  | none => exact ⟨hst, h, rfl, rfl⟩
  | some file =>
    simp only []
    cases file.cert with
    | none => exact ⟨hst, h, rfl, rfl⟩
    | some c =>
      refine ⟨rfl, ?_, rfl, rfl⟩
      simp only [Store.setTa, h]

theorem selectTa_congr (now : Int) (view : Option View) (tal : Tal) (uris : List Uri)
    (s s' : Store) (h : s.tas = s'.tas) :
    (selectTa now view tal uris s).1 = (selectTa now view tal uris s').1
    ∧ (selectTa now view tal uris s).2.tas = (selectTa now view tal uris s').2.tas
    ∧ (selectTa now view tal uris s).2.points = s.points
    ∧ (selectTa now view tal uris s').2.points = s'.points := by
  induction uris generalizing s s' with
  | nil => exact ⟨rfl, h, rfl, rfl⟩
  | cons uri rest ih =>
    unfold selectTa
    obtain ⟨l1, l2, l3, l4⟩ := loadTa_congr view s s' uri h
    cases h1 : loadTa view s uri with
    | mk oc t =>
      cases h2 : loadTa view s' uri with
      | mk oc' t' =>
        rw [h1, h2] at l1 l2
        rw [h1] at l3
        rw [h2] at l4
        simp only [] at l1 l2 l3 l4
        subst l1
        obtain ⟨r1, r2, r3, r4⟩ := ih t t' l2
        cases oc with
        | none => exact ⟨r1, r2, r3.trans l3, r4.trans l4⟩
        | some c =>
          simp only []
          split
          · exact ⟨r1, r2, r3.trans l3, r4.trans l4⟩
          · split
            · exact ⟨r1, r2, r3.trans l3, r4.trans l4⟩
            · exact ⟨rfl, l2, l3, l4⟩

theorem processCaX_tas (cfg : Cfg) (now : Int) (coll : Option Offer) :
    ∀ fuel store ca, (processCaX cfg now coll fuel store ca).2.tas = store.tas := by
  intro fuel
  induction fuel with
  | zero => intro store ca; rfl
  | succ fuel ih =>
    intro store ca
    rw [processCaX_succ]
    have hfold : ∀ (ks : List CaX) (acc : List Visit × Store),
        (ks.foldl (caStepX cfg now coll fuel) acc).2.tas = acc.2.tas := by
      intro ks
      induction ks with
      | nil => intro acc; rfl
      | cons k rest ihk =>
        intro acc
        simp only [List.foldl_cons]
        rw [ihk]
        exact ih _ _
    rw [hfold]
    rfl

/-- **Non-interference of a run.** Same TALs, same trust anchor downloads; the offers for
publication points agree outside a region `A` that is closed in both universes; the stores
agree outside `A`. Then the visits outside `A` are identical. -/
theorem runOnceX_isolated (cfg : Cfg) (now : Int) (tas : List (Uri × TaFile))
    (offer offer' : Offer) (tals : List Tal) (A : Uri → Bool)
    (hagree : ∀ u, A u = false → offer.get u = offer'.get u)
    (hclosed : Closed cfg now (some offer) A) (hclosed' : Closed cfg now (some offer') A)
    (store store' : Store) (hs : StoreOk store) (hs' : StoreOk store')
    (ha : StoresAgree A store store') :
    outside A (runOnceX cfg now (some ⟨tas, offer⟩) tals store).1
      = outside A (runOnceX cfg now (some ⟨tas, offer'⟩) tals store').1
    ∧ StoresAgree A (runOnceX cfg now (some ⟨tas, offer⟩) tals store).2
        (runOnceX cfg now (some ⟨tas, offer'⟩) tals store').2
    ∧ StoreOk (runOnceX cfg now (some ⟨tas, offer⟩) tals store).2
    ∧ StoreOk (runOnceX cfg now (some ⟨tas, offer'⟩) tals store').2 := by
  unfold runOnceX
  suffices h : ∀ (ts : List Tal) (acc acc' : List Visit × Store),
      StoreOk acc.2 → StoreOk acc'.2 → StoresAgree A acc.2 acc'.2 →
      outside A acc.1 = outside A acc'.1 →
      let out := ts.foldl (fun (acc : List Visit × Store) tal =>
            let r := processTalX cfg now (some ⟨tas, offer⟩) tal acc.2
            (acc.1 ++ r.1, r.2)) acc
      let out' := ts.foldl (fun (acc : List Visit × Store) tal =>
            let r := processTalX cfg now (some ⟨tas, offer'⟩) tal acc.2
            (acc.1 ++ r.1, r.2)) acc'
      outside A out.1 = outside A out'.1 ∧ StoresAgree A out.2 out'.2
        ∧ StoreOk out.2 ∧ StoreOk out'.2 by
    exact h tals ([], store) ([], store') hs hs' ha rfl
  intro ts
  induction ts with
  | nil => intro acc acc' h1 h2 h3 h4; exact ⟨h4, h3, h1, h2⟩
  | cons tal rest ih =>
    intro acc acc' h1 h2 h3 h4
    simp only [List.foldl_cons]
    -- one TAL
    have hstep : StoreOk (processTalX cfg now (some ⟨tas, offer⟩) tal acc.2).2
        ∧ StoreOk (processTalX cfg now (some ⟨tas, offer'⟩) tal acc'.2).2
        ∧ StoresAgree A (processTalX cfg now (some ⟨tas, offer⟩) tal acc.2).2
            (processTalX cfg now (some ⟨tas, offer'⟩) tal acc'.2).2
        ∧ outside A (processTalX cfg now (some ⟨tas, offer⟩) tal acc.2).1
            = outside A (processTalX cfg now (some ⟨tas, offer'⟩) tal acc'.2).1 := by
      -- `selectTa` looks only at the trust anchor downloads, which are the same
      have hsel : ∀ s, selectTa now (some ⟨tas, offer⟩) tal tal.uris s
          = selectTa now (some ⟨tas, offer'⟩) tal tal.uris s := by
        intro s
        have : ∀ uris s, selectTa now (some ⟨tas, offer⟩) tal uris s
            = selectTa now (some ⟨tas, offer'⟩) tal uris s := by
          intro uris
          induction uris with
          | nil => intro s; rfl
          | cons u r ihu =>
            intro s
            unfold selectTa
            have hl : loadTa (some ⟨tas, offer⟩) s u = loadTa (some ⟨tas, offer'⟩) s u := rfl
            rw [hl]
            cases loadTa (some ⟨tas, offer'⟩) s u with
            | mk oc t =>
              cases oc with
              | none => exact ihu t
              | some c =>
                simp only []
                split
                · exact ihu t
                · split
                  · exact ihu t
                  · rfl
        exact this _ s
      obtain ⟨c1, c2, c3, c4⟩ := selectTa_congr now (some ⟨tas, offer'⟩) tal tal.uris acc.2 acc'.2 h3.1
      unfold processTalX
      rw [hsel acc.2]
      cases e1 : selectTa now (some ⟨tas, offer'⟩) tal tal.uris acc.2 with
      | mk oc t =>
        cases e2 : selectTa now (some ⟨tas, offer'⟩) tal tal.uris acc'.2 with
        | mk oc' t' =>
          rw [e1, e2] at c1 c2
          rw [e1] at c3
          rw [e2] at c4
          simp only [] at c1 c2 c3 c4
          subst c1
          have t1 : StoreOk t := by unfold StoreOk; rw [c3]; exact h1
          have t2 : StoreOk t' := by unfold StoreOk; rw [c4]; exact h2
          have t3 : StoresAgree A t t' := by
            refine ⟨c2, fun u hu => ?_⟩
            have := h3.2 u hu
            unfold Store.point at this ⊢
            rw [c3, c4]; exact this
          cases oc with
          | none => exact ⟨t1, t2, t3, rfl⟩
          | some c =>
            exact processCaX_isolated cfg now offer offer' A hagree hclosed hclosed'
              (cfg.maxDepth + 1) t t' (CaX.root c) t1 t2 t3
    obtain ⟨s1, s2, s3, s4⟩ := hstep
    apply ih
    · exact s1
    · exact s2
    · exact s3
    · simp only [outside_append, h4, s4]

end RoutinatorModel.Engine
