import RoutinatorModel.Model.Config
/-! Lemmas for C35: printing a configuration and reading it back (see `Props/C35.lean`). -/
namespace RoutinatorModel.Config

def docKeys (d : Doc) : List Nat := d.map Prod.fst

theorem lookup_none_of_not_mem {d : Doc} {k : Nat} (h : k ∉ docKeys d) : d.lookup k = none := by
  rw [List.lookup_eq_none_iff]
  intro p hp
  simp only [bne_iff_ne, ne_eq]
  intro hk
  apply h
  simp only [docKeys, List.mem_map]
  exact ⟨p, hp, hk.symm⟩

theorem printRow_keys {r : Row} {v : FVal} {k : Nat} (h : k ∈ docKeys (printRow r v)) :
    ∃ p, r.printer = some p ∧ k ∈ p.keys := by
  unfold printRow at h
  split at h
  · simp [docKeys] at h
  · rename_i p hp
    refine ⟨p, hp, ?_⟩
    split at h <;> simp_all [docKeys]
    all_goals (first | (split at h <;> simp_all) | skip)
    all_goals (obtain ⟨x, hx | hx⟩ := h <;> simp [hx.1])


theorem clampInt_small {c : Bool} {n : Nat} (h : n ≤ i64Max) : clampInt c n = (n : Int) := by
  unfold clampInt
  have : ¬ i64Max < n := by omega
  simp [this]

theorem readNat_ofNat {max n : Nat} (h : n ≤ max) : readNat max (.int (n : Int)) = some n := by
  simp [readNat, h]

theorem joinPath_abs {b s : Str} (h : isAbs s = true) : joinPath b s = s := by
  simp [joinPath, h]

theorem readStr_good {t : Table} {env : Env} {sk : SKind} {s : Str}
    (h : strGood t env sk s = true) : readStr t env sk s = some s := by
  cases sk <;> simp_all [strGood, readStr, joinPath_abs]

theorem readStrs_good {t : Table} {env : Env} {sk : SKind} {l : List Str}
    (h : l.all (strGood t env sk) = true) : readStrs t env sk l = some l := by
  induction l with
  | nil => rfl
  | cons s rest ih =>
    simp only [List.all_cons, Bool.and_eq_true] at h
    simp [readStrs, readStr_good h.1, ih h.2]

theorem lits_ne : sSyslog ≠ sDefault ∧ sStderr ≠ sDefault ∧ sStderr ≠ sSyslog ∧ sFile ≠ sDefault
    ∧ sFile ≠ sSyslog ∧ sFile ≠ sStderr := by decide

theorem readRow_printRow (t : Table) (env : Env) (r : Row) (v : FVal) (d : Doc)
    (hok : rowOk t r = true) (hg : goodVal t env r v = true) (hnd : nodupB r.reader.keys = true)
    (hagree : ∀ k ∈ r.reader.keys, d.lookup k = (printRow r v).lookup k) :
    readRow t env r d = some (resetVal env r v) := by
  obtain ⟨field, ty, dflt, printer, reader, clis⟩ := r
  obtain ⟨kind, keys, codec, unit, sk, max, absent, single, const⟩ := reader
  cases kind
  case const =>
    simp only [rowOk, Bool.and_eq_true] at hok
    cases const <;> simp_all [readRow, resetVal, dfltVal]
  case filePath => simp [readRow, resetVal]
  case unknown => simp [rowOk] at hok
  case file =>
    cases printer with
    | none => simp [rowOk] at hok
    | some p =>
      obtain ⟨pkeys, pcodec, punit, pclamp⟩ := p
      simp only [rowOk, Bool.and_eq_true, beq_iff_eq, bne_iff_ne, decide_eq_true_eq] at hok
      obtain ⟨⟨⟨⟨⟨⟨h1, h2⟩, h3⟩, h4⟩, h5⟩, h6⟩, h7⟩ := hok
      subst h1 h2 h4
      cases pcodec <;>
        rcases pkeys with _ | ⟨k, _ | ⟨k2, _ | ⟨k3, _ | _⟩⟩⟩ <;>
        (try (simp [keysShape] at h3; done))
      case some.bool.cons.nil =>
        have hk := hagree k (by simp)
        cases v <;> simp [goodVal] at hg
        simp [printRow] at hk
        simp [readRow, resetVal, hk]
      case some.nat.cons.nil =>
        have hk := hagree k (by simp)
        cases v <;> simp [goodVal, natGood] at hg
        simp [printRow, clampInt_small hg.2] at hk
        simp [readRow, resetVal, hk, readNat_ofNat hg.1]
      case some.natZeroNone.cons.nil =>
        have hk := hagree k (by simp)
        cases v <;> simp [goodVal] at hg
        rename_i o
        cases o with
        | none =>
          simp [printRow, clampInt] at hk
          simp [readRow, resetVal, hk, readNat]
        | some n =>
          simp [goodVal, natGood] at hg
          simp [printRow, clampInt_small hg.2.2] at hk
          simp [readRow, resetVal, hk, readNat_ofNat hg.2.1, hg.1]
      case some.natPresent.cons.nil =>
        have hk := hagree k (by simp)
        cases v <;> simp [goodVal] at hg
        rename_i o
        cases o with
        | none =>
          replace hk : List.lookup k d = none := by simpa [printRow] using hk
          simp [absentMatches] at h6
          simp [readRow, resetVal, hk, absentVal, h6, dfltVal]
        | some n =>
          simp [goodVal, natGood] at hg
          simp [printRow, clampInt_small hg.2] at hk
          simp [readRow, resetVal, hk, readNat_ofNat hg.1]
      case some.str.cons.nil =>
        have hk := hagree k (by simp)
        cases v <;> simp [goodVal] at hg
        simp [printRow] at hk
        simp [readRow, resetVal, hk, readStr_good hg]
      case some.strPresent.cons.nil =>
        have hk := hagree k (by simp)
        cases v <;> simp [goodVal] at hg
        rename_i o
        cases o with
        | none =>
          replace hk : List.lookup k d = none := by simpa [printRow] using hk
          simp [absentMatches] at h6
          simp [readRow, resetVal, hk, absentVal, h6, dfltVal]
        | some n =>
          simp [goodVal] at hg
          simp [printRow] at hk
          simp [readRow, resetVal, hk, readStr_good hg]
      case some.strs.cons.nil =>
        have hk := hagree k (by simp)
        cases v <;> simp [goodVal] at hg
        simp [printRow] at hk
        have := readStrs_good (t := t) (env := env) (sk := sk) (l := _) (by simpa using hg)
        simp [readRow, resetVal, hk, this]
      case some.strsPresent.cons.nil =>
        have hk := hagree k (by simp)
        cases v <;> simp [goodVal] at hg
        rename_i o
        cases o with
        | none =>
          replace hk : List.lookup k d = none := by simpa [printRow] using hk
          simp [absentMatches] at h6
          simp [readRow, resetVal, hk, absentVal, h6, dfltVal]
        | some n =>
          simp [goodVal] at hg
          simp [printRow] at hk
          have := readStrs_good (t := t) (env := env) (sk := sk) (l := n) (by simpa using hg)
          simp [readRow, resetVal, hk, this]
      case some.pairsNonEmpty.cons.nil =>
        have hk := hagree k (by simp)
        cases v <;> simp [goodVal] at hg
        rename_i l
        cases l with
        | nil =>
          replace hk : List.lookup k d = none := by simpa [printRow] using hk
          simp [absentMatches] at h6
          simp [readRow, resetVal, hk, absentVal, h6, dfltVal]
        | cons p rest =>
          simp [printRow] at hk
          simp [readRow, resetVal, hk, hg]
      case some.log.cons.cons.cons.nil =>
        have hk1 := hagree k (by simp)
        have hk2 := hagree k2 (by simp)
        have hk3 := hagree k3 (by simp)
        simp [nodupB] at hnd
        obtain ⟨⟨n12, n13⟩, n23⟩ := hnd
        cases v <;> simp [goodVal] at hg
        rename_i kind a
        cases kind <;> simp at hg
        all_goals (
          have b21 : (k2 == k) = false := beq_eq_false_iff_ne.mpr (Ne.symm n12)
          have b31 : (k3 == k) = false := beq_eq_false_iff_ne.mpr (Ne.symm n13)
          have b32 : (k3 == k2) = false := beq_eq_false_iff_ne.mpr (Ne.symm n23)
          have b12 : (k == k2) = false := beq_eq_false_iff_ne.mpr n12
          have b13 : (k == k3) = false := beq_eq_false_iff_ne.mpr n13
          have b23 : (k2 == k3) = false := beq_eq_false_iff_ne.mpr n23
          obtain ⟨l1, l2, l3, l4, l5, l6⟩ := lits_ne
          simp only [printRow, List.lookup, b21, b31, b32, b12, b13, b23, beq_self_eq_true] at hk1 hk2 hk3
          simp [readRow, readLog, resetVal, hk1, hk2, hk3, hg, l1, l2, l3, l4, l5, l6])
        · obtain ⟨h1, h2⟩ := hg
          cases hc : canon t env t.facilityTy sDaemon <;> simp [hc] at h2 ⊢
          try exact h1.symm
        · obtain ⟨h1, h2⟩ := hg
          cases hc : canon t env t.facilityTy sDaemon <;> simp [hc] at h2 ⊢
          exact joinPath_abs h1

theorem nodupB_iff {l : List Nat} : nodupB l = true ↔ l.Nodup := by
  induction l with
  | nil => simp [nodupB]
  | cons a l ih => simp [nodupB, ih, List.nodup_cons]

theorem printRow_keys_reader {t : Table} {r : Row} {v : FVal} {k : Nat}
    (hok : rowOk t r = true) (h : k ∈ docKeys (printRow r v)) : k ∈ r.reader.keys := by
  obtain ⟨p, hp, hk⟩ := printRow_keys h
  unfold rowOk at hok
  split at hok
  · rw [hp] at hok
    simp only [Bool.and_eq_true, beq_iff_eq] at hok
    rw [← hok.1.1.1.1.1.1]; exact hk
  · simp [hp] at hok
  · simp [hp] at hok
  · simp at hok

def rowKeys (rs : List Row) : List Nat := rs.flatMap (fun r => r.reader.keys)

theorem printRows_keys {t : Table} : ∀ {rs : List Row} {vs : Config} {k : Nat},
    (∀ r ∈ rs, rowOk t r = true) → k ∈ docKeys (printRows rs vs) → k ∈ rowKeys rs := by
  intro rs
  induction rs with
  | nil => intro vs k _ h; simp [printRows, docKeys] at h
  | cons r rs ih =>
    intro vs k hok h
    cases vs with
    | nil => simp [printRows, docKeys] at h
    | cons v vs =>
      simp only [printRows, docKeys, List.map_append, List.mem_append] at h
      simp only [rowKeys, List.flatMap_cons, List.mem_append]
      rcases h with h | h
      · exact Or.inl (printRow_keys_reader (hok r (by simp)) h)
      · exact Or.inr (ih (fun r' hr' => hok r' (by simp [hr'])) h)

theorem lookup_printRows {t : Table} : ∀ {rs : List Row} {vs : Config},
    (∀ r ∈ rs, rowOk t r = true) → (rowKeys rs).Nodup →
    ∀ {r : Row} {v : FVal}, (r, v) ∈ rs.zip vs → ∀ {k : Nat}, k ∈ r.reader.keys →
    (printRows rs vs).lookup k = (printRow r v).lookup k := by
  intro rs
  induction rs with
  | nil => intro vs _ _ r v hm; simp at hm
  | cons r0 rs ih =>
    intro vs hok hnd r v hm k hk
    cases vs with
    | nil => simp at hm
    | cons v0 vs =>
      simp only [rowKeys, List.flatMap_cons] at hnd
      rw [List.nodup_append] at hnd
      obtain ⟨_, hnd2, hdisj⟩ := hnd
      simp only [List.zip_cons_cons, List.mem_cons, Prod.mk.injEq] at hm
      simp only [printRows, List.lookup_append]
      rcases hm with ⟨rfl, rfl⟩ | hm
      · have : (printRows rs vs).lookup k = none := by
          apply lookup_none_of_not_mem
          intro hin
          have := printRows_keys (t := t) (fun r' hr' => hok r' (by simp [hr'])) hin
          exact hdisj k hk k this rfl
        rw [this, Option.or_none]
      · have hr : r ∈ rs := (List.of_mem_zip hm).1
        have hk' : k ∈ rowKeys rs := by
          simp only [rowKeys, List.mem_flatMap]; exact ⟨r, hr, hk⟩
        have : (printRow r0 v0).lookup k = none := by
          apply lookup_none_of_not_mem
          intro hin
          have := printRow_keys_reader (hok r0 (by simp)) hin
          exact hdisj k this k hk' rfl
        rw [this, Option.none_or]
        exact ih (fun r' hr' => hok r' (by simp [hr'])) hnd2 hm hk


theorem readRows_of_agree {t : Table} {env : Env} {D : Doc} : ∀ (rs : List Row) (vs : Config),
    (∀ r ∈ rs, rowOk t r = true ∧ nodupB r.reader.keys = true) → goodRows t env rs vs = true →
    (∀ r v, (r, v) ∈ rs.zip vs → ∀ k ∈ r.reader.keys, D.lookup k = (printRow r v).lookup k) →
    readRows t env D rs = some (resetRows env rs vs) := by
  intro rs
  induction rs with
  | nil => intro vs _ hg _; cases vs <;> simp_all [goodRows, readRows, resetRows]
  | cons r rs ih =>
    intro vs hok hg hag
    cases vs with
    | nil => simp [goodRows] at hg
    | cons v vs =>
      simp only [goodRows, Bool.and_eq_true] at hg
      have h1 := readRow_printRow t env r v D (hok r (by simp)).1 hg.1 (hok r (by simp)).2
        (hag r v (by simp))
      have h2 := ih vs (fun r' hr' => hok r' (by simp [hr'])) hg.2
        (fun r' v' hm => hag r' v' (by simp [hm]))
      simp [readRows, resetRows, h1, h2]

theorem nodup_rowKeys_mem {rs : List Row} (h : (rowKeys rs).Nodup) {r : Row} (hr : r ∈ rs) :
    r.reader.keys.Nodup := by
  induction rs with
  | nil => simp at hr
  | cons r0 rs ih =>
    simp only [rowKeys, List.flatMap_cons] at h
    rw [List.nodup_append] at h
    rcases List.mem_cons.mp hr with rfl | hr
    · exact h.1
    · exact ih h.2.1 hr

theorem goodRows_length {t : Table} {env : Env} : ∀ {rs : List Row} {vs : Config},
    goodRows t env rs vs = true → rs.length = vs.length := by
  intro rs
  induction rs with
  | nil => intro vs h; cases vs <;> simp_all [goodRows]
  | cons r rs ih =>
    intro vs h
    cases vs with
    | nil => simp [goodRows] at h
    | cons v vs =>
      simp only [goodRows, Bool.and_eq_true] at h
      simp [ih h.2]

/-- **Round trip.** If the table passes `tableOk` then printing any configuration whose
fields hold round-trippable values and reading the result back yields the same
configuration, except that the command-line-only fields are reset. -/
theorem read_print {t : Table} {env : Env} (hok : tableOk t = true) {c : Config}
    (hg : Good t env c) : read t env (print t c) = some (reset t env c) := by
  simp only [tableOk, Bool.and_eq_true, List.all_eq_true, nodupB_iff] at hok
  obtain ⟨⟨⟨⟨⟨_, _⟩, hnd⟩, hrows⟩, _⟩, _⟩ := hok
  simp only [knownKeys] at hnd
  have hnd' := hnd
  rw [List.nodup_append] at hnd
  obtain ⟨hndr, _, hdisj⟩ := hnd
  have hndr' : (rowKeys t.rows).Nodup := hndr
  have hkeys : ∀ k, k ∈ docKeys (print t c) → k ∈ rowKeys t.rows :=
    fun k hk => printRows_keys (t := t) hrows hk
  have hign : ignoredOk t (print t c) = true := by
    simp only [ignoredOk, List.all_eq_true]
    intro k hk
    have : (print t c).lookup k = none := by
      apply lookup_none_of_not_mem
      intro hin
      exact hdisj k (hkeys k hin) k hk rfl
    simp [this]
  have hex : exhausted t (print t c) = true := by
    simp only [exhausted, Bool.or_eq_true, Bool.not_eq_true', List.all_eq_true]
    right
    intro kv hkv
    simp only [List.contains_iff_mem, knownKeys, List.mem_append]
    left
    exact hkeys kv.1 (by simp only [docKeys, List.mem_map]; exact ⟨kv, hkv, rfl⟩)
  simp only [read, hign, hex, Bool.and_self, if_true]
  apply readRows_of_agree
  · intro r hr
    exact ⟨hrows r hr, nodupB_iff.mpr (nodup_rowKeys_mem hndr' hr)⟩
  · exact hg
  · intro r v hm k hk
    exact lookup_printRows hrows hndr' hm hk


/-- What the reachability theorems assume about the environment: the decidable part
(`envGood`, evaluated by the driver on every case) and idempotence of `Display ∘ FromStr`
for the string-parsed types that are not extracted enumerations. -/
structure EnvOk (t : Table) (env : Env) : Prop where
  good : envGood t env = true
  idem : ∀ ty s s', env.canon ty s = some s' → env.canon ty s' = some s'

theorem lookup_mem {α β : Type} [BEq α] [LawfulBEq α] {l : List (α × β)} {k : α} {v : β}
    (h : l.lookup k = some v) : (k, v) ∈ l := by
  induction l with
  | nil => simp at h
  | cons p rest ih =>
    obtain ⟨a, b⟩ := p
    rw [List.lookup_cons] at h
    by_cases hk : k == a
    · simp only [hk] at h
      have : k = a := by simpa using hk
      subst this
      simp at h; subst h; simp
    · simp only [hk] at h
      exact List.mem_cons_of_mem _ (ih h)

theorem enum_canon_idem {e : EnumTbl} (hok : enumOk e = true) {s d : Str}
    (h : e.canon s = some d) : e.canon d = some d := by
  unfold EnumTbl.canon at h
  split at h
  · rename_i v hv
    have hm := lookup_mem h
    simp only [enumOk, List.all_eq_true, Bool.and_eq_true, beq_iff_eq] at hok
    have := hok (v, d) hm
    simp only [EnumTbl.canon, this.1, this.2]
  · simp at h

theorem canon_idem {t : Table} {env : Env} (hok : tableOk t = true) (he : EnvOk t env)
    {ty : Nat} {s s' : Str} (h : canon t env ty s = some s') : canon t env ty s' = some s' := by
  unfold canon at h ⊢
  split at h
  · rename_i e he'
    have hm := lookup_mem he'
    simp only [tableOk, Bool.and_eq_true, List.all_eq_true] at hok
    exact enum_canon_idem (hok.1.2 (ty, e) hm) h
  · exact he.idem ty s s' h

theorem isAbs_append {b s : Str} (h : isAbs b = true) : isAbs (b ++ s) = true := by
  cases b with
  | nil => simp [isAbs] at h
  | cons c b' => simpa [isAbs] using h

theorem isAbs_joinPath {b s : Str} (h : isAbs b = true) : isAbs (joinPath b s) = true := by
  unfold joinPath
  split
  · assumption
  · split
    · exact isAbs_append h
    · exact isAbs_append h

theorem strGood_of_readStr {t : Table} {env : Env} (hok : tableOk t = true) (he : EnvOk t env)
    (hdir : isAbs env.cfgDir = true)
    {sk : SKind} {s s' : Str} (h : readStr t env sk s = some s') : strGood t env sk s' = true := by
  cases sk with
  | raw => simp [strGood]
  | plainPath => simp [strGood]
  | path =>
    simp only [readStr, Option.some.injEq] at h
    subst h
    simpa [strGood] using isAbs_joinPath hdir
  | parsed ty =>
    simp only [readStr] at h
    simp [strGood, canon_idem hok he h]

theorem strsGood_of_readStrs {t : Table} {env : Env} (hok : tableOk t = true) (he : EnvOk t env)
    (hdir : isAbs env.cfgDir = true) {sk : SKind} :
    ∀ {l l' : List Str}, readStrs t env sk l = some l' → l'.all (strGood t env sk) = true := by
  intro l
  induction l with
  | nil => intro l' h; simp [readStrs] at h; subst h; simp
  | cons s rest ih =>
    intro l' h
    simp only [readStrs] at h
    split at h
    · rename_i a b ha hb
      simp only [Option.some.injEq] at h
      subst h
      simp [strGood_of_readStr hok he hdir ha, ih hb]
    · simp at h


theorem envGood_parts {t : Table} {env : Env} (h : envGood t env = true) :
    isAbs env.cur = true ∧ isAbs env.cfgDir = true
    ∧ goodRows t env t.rows (defaultConfig t env) = true
    ∧ (∀ r ∈ t.rows, ∀ v, r.reader.kind = .file → absentVal env r.reader = some v →
        goodVal t env r v = true)
    ∧ (∀ s ∈ [sDEBUG, sINFO, sOFF, sERROR], canon t env t.levelTy s = some s)
    ∧ canon t env t.facilityTy sDaemon = some sDaemon := by
  simp only [envGood, Bool.and_eq_true, List.all_eq_true, beq_iff_eq] at h
  obtain ⟨⟨⟨⟨⟨h1, h2⟩, h3⟩, h4⟩, h5⟩, h6⟩ := h
  refine ⟨h1, h2, h3, ?_, h5, h6⟩
  intro r hr v hk ha
  have := h4 r hr
  simp only [absentVal] at ha
  rw [hk] at this
  split at ha
  · rename_i d hd
    simp only [hd, ha] at this
    exact this
  · simp at ha

theorem readNat_le {max : Nat} {v : Val} {n : Nat} (h : readNat max v = some n) : n ≤ max := by
  unfold readNat at h
  split at h
  · split at h
    · rename_i hc; simp at h; omega
    · simp at h
  · simp at h

theorem goodVal_of_readRow {t : Table} {env : Env} (hok : tableOk t = true) (he : EnvOk t env)
    {r : Row} (hr : r ∈ t.rows) {d : Doc} {v : FVal} (h : readRow t env r d = some v) :
    goodVal t env r v = true := by
  obtain ⟨_, hdir, _, habs, _, hdaemon⟩ := envGood_parts he.good
  have hrow : rowOk t r = true := by
    simp only [tableOk, Bool.and_eq_true, List.all_eq_true] at hok
    exact hok.1.1.2 r hr
  have habs' := habs r hr
  clear habs hr
  obtain ⟨field, ty, dflt, printer, reader, clis⟩ := r
  obtain ⟨kind, keys, codec, unit, sk, max, absent, single, const⟩ := reader
  cases kind
  case const =>
    simp only [readRow] at h
    simp [goodVal, h]
  case filePath => simp [goodVal]
  case unknown => simp [readRow] at h
  case file =>
    have hmax : max ≤ i64Max := by
      cases printer with
      | none => simp [rowOk] at hrow
      | some p =>
        simp only [rowOk, Bool.and_eq_true, decide_eq_true_eq] at hrow
        exact hrow.2
    have habs'' := fun v hv => habs' v rfl hv
    clear habs' hrow
    cases codec <;>
      rcases keys with _ | ⟨k, _ | ⟨k2, _ | ⟨k3, _ | _⟩⟩⟩ <;>
      (try (simp [readRow] at h; done))
    case bool.cons.nil =>
      simp only [readRow] at h
      split at h
      · exact habs'' v h
      · simp at h; subst h; simp [goodVal]
      · simp at h
    case nat.cons.nil =>
      simp only [readRow] at h
      split at h
      · exact habs'' v h
      · rename_i val _
        cases hn : readNat max val with
        | none => simp [hn] at h
        | some n =>
          simp [hn] at h; subst h
          have := readNat_le hn
          simp [goodVal, natGood]; omega
    case natZeroNone.cons.nil =>
      simp only [readRow] at h
      split at h
      · exact habs'' v h
      · rename_i val _
        cases hn : readNat max val with
        | none => simp [hn] at h
        | some n =>
          simp [hn] at h; subst h
          have := readNat_le hn
          by_cases h0 : n = 0
          · simp [goodVal, h0]
          · simp [goodVal, natGood, h0]; omega
    case natPresent.cons.nil =>
      simp only [readRow] at h
      split at h
      · exact habs'' v h
      · rename_i val _
        cases hn : readNat max val with
        | none => simp [hn] at h
        | some n =>
          simp [hn] at h; subst h
          have := readNat_le hn
          simp [goodVal, natGood]; omega
    case str.cons.nil =>
      simp only [readRow] at h
      split at h
      · exact habs'' v h
      · rename_i s _
        cases hs : readStr t env sk s with
        | none => simp [hs] at h
        | some s' =>
          simp [hs] at h; subst h
          simpa [goodVal] using strGood_of_readStr hok he hdir hs
      · simp at h
    case strPresent.cons.nil =>
      simp only [readRow] at h
      split at h
      · exact habs'' v h
      · rename_i s _
        cases hs : readStr t env sk s with
        | none => simp [hs] at h
        | some s' =>
          simp [hs] at h; subst h
          simpa [goodVal] using strGood_of_readStr hok he hdir hs
      · simp at h
    case strs.cons.nil =>
      simp only [readRow] at h
      split at h
      · exact habs'' v h
      · rename_i l _
        cases hs : readStrs t env sk l with
        | none => simp [hs] at h
        | some l' =>
          simp [hs] at h; subst h
          simpa [goodVal] using strsGood_of_readStrs hok he hdir hs
      · rename_i s _
        split at h
        · cases hs : readStr t env sk s with
          | none => simp [hs] at h
          | some s' =>
            simp [hs] at h; subst h
            simpa [goodVal] using strGood_of_readStr hok he hdir hs
        · simp at h
      · simp at h
    case strsPresent.cons.nil =>
      simp only [readRow] at h
      split at h
      · exact habs'' v h
      · rename_i l _
        cases hs : readStrs t env sk l with
        | none => simp [hs] at h
        | some l' =>
          simp [hs] at h; subst h
          simpa [goodVal] using strsGood_of_readStrs hok he hdir hs
      · rename_i s _
        split at h
        · cases hs : readStr t env sk s with
          | none => simp [hs] at h
          | some s' =>
            simp [hs] at h; subst h
            simpa [goodVal] using strGood_of_readStr hok he hdir hs
        · simp at h
      · simp at h
    case pairsNonEmpty.cons.nil =>
      simp only [readRow] at h
      split at h
      · exact habs'' v h
      · rename_i l _
        split at h
        · rename_i hnd
          simp at h; subst h
          simpa [goodVal] using hnd
        · simp at h
      · simp at h; subst h; simp [goodVal, noDupKeys]
      · simp at h
    case log.cons.cons.cons.nil =>
      simp only [readRow, readLog] at h
      split at h
      · rename_i fac logt file _ _ _
        split at h
        · simp at h
        · rename_i fac' hfac
          have hidem := canon_idem hok he hfac
          split at h
          · simp at h; subst h; simp [goodVal, hidem]
          · rename_i s
            split at h
            · simp at h; subst h; simp [goodVal, hidem]
            · split at h
              · simp at h; subst h; simp [goodVal, hidem]
              · split at h
                · simp at h; subst h; simp [goodVal, hdaemon]
                · split at h
                  · split at h
                    · rename_i pp hp
                      simp at h; subst h
                      have habsp : isAbs pp = true := by
                        split at hp
                        · simp at hp
                        · simp at hp; rw [← hp]; exact isAbs_joinPath hdir
                        · simp at hp
                      simp [goodVal, habsp, hdaemon]
                    · simp at h
                  · simp at h
      · simp at h

theorem goodRows_of_readRows {t : Table} {env : Env} (hok : tableOk t = true) (he : EnvOk t env)
    {d : Doc} : ∀ (rs : List Row), (∀ r ∈ rs, r ∈ t.rows) → ∀ {c : Config},
    readRows t env d rs = some c → goodRows t env rs c = true := by
  intro rs
  induction rs with
  | nil => intro _ c h; simp [readRows] at h; subst h; rfl
  | cons r rs ih =>
    intro hsub c h
    simp only [readRows] at h
    split at h
    · rename_i v vs hv hvs
      simp only [Option.some.injEq] at h
      subst h
      simp only [goodRows, Bool.and_eq_true]
      exact ⟨goodVal_of_readRow hok he (hsub r (by simp)) hv,
        ih (fun r' hr' => hsub r' (by simp [hr'])) hvs⟩
    · simp at h

/-- Whatever `from_config_file` accepts is a configuration of round-trippable values. -/
theorem good_of_read {t : Table} {env : Env} (hok : tableOk t = true) (he : EnvOk t env)
    {d : Doc} {c : Config} (h : read t env d = some c) : Good t env c := by
  unfold read at h
  split at h
  · exact goodRows_of_readRows hok he t.rows (fun _ hr => hr) h
  · simp at h

theorem firstArg_mem {args : List Arg} {opt : Nat} {a : AVal} (h : firstArg args opt = some a) :
    ∃ x ∈ args, x.val = a := by
  unfold firstArg at h
  cases hf : args.find? (fun a => a.opt == opt) with
  | none => simp [hf] at h
  | some x =>
    simp [hf] at h
    exact ⟨x, List.mem_of_find?_eq_some hf, h⟩

theorem argsSmall_nat {args : List Arg} (h : argsSmall args = true) {opt n : Nat}
    (hf : firstArg args opt = some (.nat n)) : n ≤ i64Max := by
  obtain ⟨x, hx, hv⟩ := firstArg_mem hf
  simp only [argsSmall, List.all_eq_true] at h
  have := h x hx
  simp [hv] at this
  exact this

theorem strGood_cliStr {t : Table} {env : Env} (hok : tableOk t = true) (he : EnvOk t env)
    (hcur : isAbs env.cur = true) {csk rsk : SKind} (himp : skImplies csk rsk = true) {s : Str}
    (harg : strArgOk t env csk s = true) : strGood t env rsk (cliStr t env csk s) = true := by
  cases rsk with
  | raw => simp [strGood]
  | plainPath => simp [strGood]
  | path =>
    simp [skImplies] at himp; subst himp
    simpa [strGood, cliStr] using isAbs_joinPath hcur
  | parsed ty =>
    simp [skImplies] at himp; subst himp
    simp only [strArgOk] at harg
    cases hc : canon t env ty s with
    | none => simp [hc] at harg
    | some s' => simp [strGood, cliStr, hc, canon_idem hok he hc]

theorem strsGood_cliStr {t : Table} {env : Env} (hok : tableOk t = true) (he : EnvOk t env)
    (hcur : isAbs env.cur = true) {csk rsk : SKind} (himp : skImplies csk rsk = true) :
    ∀ {l : List Str}, l.all (strArgOk t env csk) = true →
      (l.map (cliStr t env csk)).all (strGood t env rsk) = true := by
  intro l
  induction l with
  | nil => simp
  | cons s rest ih =>
    intro h
    simp only [List.all_cons, Bool.and_eq_true] at h
    simp only [List.map_cons, List.all_cons, Bool.and_eq_true]
    exact ⟨strGood_cliStr hok he hcur himp h.1, ih h.2⟩

theorem goodVal_applyLog {t : Table} {env : Env} (hok : tableOk t = true) (he : EnvOk t env)
    {r : Row} (hkind : r.reader.kind = .file) (hcodec : r.reader.codec = .log)
    {v v' : FVal} {args : List Arg}
    (hg : goodVal t env r v = true) (h : applyLog t env r v args = some v') :
    goodVal t env r v' = true := by
  obtain ⟨hcur, _, _, _, _, hdaemon⟩ := envGood_parts he.good
  have hlog : ∀ k a, goodVal t env r (.log k a) =
      (match k with
        | .dflt => canon t env t.facilityTy a == some a
        | .syslog => canon t env t.facilityTy a == some a
        | .stderr => a == [] && (canon t env t.facilityTy sDaemon).isSome
        | .file => isAbs a && (canon t env t.facilityTy sDaemon).isSome) := by
    intro k a
    cases k <;> simp [goodVal, hkind, hcodec]
  unfold applyLog at h
  split at h
  · split at h
    · split at h
      · rename_i f _
        split at h
        · rename_i c hc
          simp at h; subst h
          rw [hlog]; simp [canon_idem hok he hc]
        · simp at h
      · split at h
        · simp at h; subst h; exact hg
        · simp at h; subst h
          rw [hlog]; simp [hdaemon]
    · split at h
      · split at h
        · simp at h; subst h
          rw [hlog]; simp [hdaemon]
        · simp at h; subst h
          rw [hlog]; simp [hdaemon, isAbs_joinPath hcur]
      · simp at h; subst h; exact hg
  · simp at h; subst h; exact hg

theorem goodVal_applyCli {t : Table} {env : Env} (hok : tableOk t = true) (he : EnvOk t env)
    {r : Row} (hrow : rowOk t r = true) {c : Cli} (hc : cliOk t r c = true)
    {v v' : FVal} {args : List Arg}
    (hb : numBound c = true ∨ argsSmall args = true)
    (hg : goodVal t env r v = true) (h : applyCli t env r c v args = some v') :
    goodVal t env r v' = true := by
  obtain ⟨hcur, _, _, _, hlevels, hdaemon⟩ := envGood_parts he.good
  have hnat : ∀ n, firstArg args c.opt = some (.nat n) → n ≤ c.max →
      (c.act = .nat ∨ c.act = .natZeroNone ∨ c.act = .natSome) → n ≤ i64Max := by
    intro n hf hn hact
    rcases hb with hb | hb
    · rcases hact with ha | ha | ha <;> simp [numBound, ha] at hb <;> omega
    · exact argsSmall_nat hb hf
  cases hk : r.reader.kind
  case const =>
    simp only [cliOk, hk] at hc
    have : r.field ∈ t.cliOnly := by simpa using hc
    simp [goodVal, hk, this]
  case filePath => simp [goodVal, hk]
  case unknown => simp [cliOk, hk] at hc
  case file =>
    simp only [cliOk, hk] at hc
    unfold applyCli at h
    cases hact : c.act <;> simp only [hact] at hc h
    case setTrue =>
      have hcd : r.reader.codec = .bool := by simpa using hc
      split at h
      · simp at h; subst h; simp [goodVal, hk, hcd]
      · simp at h
      · simp at h; subst h; exact hg
    case nat =>
      simp only [Bool.and_eq_true, beq_iff_eq, cliRange, decide_eq_true_eq] at hc
      obtain ⟨hcd, hrange, _⟩ := hc
      split at h
      · rename_i n hf
        split at h
        · rename_i hn
          simp at h; subst h
          have := hnat n hf hn (by simp [hact])
          simp [goodVal, hk, hcd, natGood]; omega
        · simp at h
      · simp at h
      · simp at h; subst h; exact hg
    case natZeroNone =>
      simp only [Bool.and_eq_true, beq_iff_eq, cliRange, decide_eq_true_eq] at hc
      obtain ⟨hcd, hrange, _⟩ := hc
      split at h
      · rename_i n hf
        split at h
        · rename_i hn
          simp at h; subst h
          have := hnat n hf hn (by simp [hact])
          by_cases h0 : n = 0
          · simp [goodVal, hk, hcd, h0]
          · simp [goodVal, hk, hcd, natGood, h0]; omega
        · simp at h
      · simp at h
      · simp at h; subst h; exact hg
    case natSome =>
      simp only [Bool.and_eq_true, beq_iff_eq, cliRange, decide_eq_true_eq] at hc
      obtain ⟨hcd, hrange, _⟩ := hc
      split at h
      · rename_i n hf
        split at h
        · rename_i hn
          simp at h; subst h
          have := hnat n hf hn (by simp [hact])
          simp [goodVal, hk, hcd, natGood]; omega
        · simp at h
      · simp at h
      · simp at h; subst h; exact hg
    case str =>
      simp only [Bool.and_eq_true, beq_iff_eq] at hc
      obtain ⟨hcd, himp⟩ := hc
      split at h
      · rename_i s hf
        split at h
        · rename_i hs
          simp at h; subst h
          simpa [goodVal, hk, hcd] using strGood_cliStr hok he hcur himp hs
        · simp at h
      · simp at h
      · simp at h; subst h; exact hg
    case strSome =>
      simp only [Bool.and_eq_true, beq_iff_eq] at hc
      obtain ⟨hcd, himp⟩ := hc
      split at h
      · rename_i s hf
        split at h
        · rename_i hs
          simp at h; subst h
          simpa [goodVal, hk, hcd] using strGood_cliStr hok he hcur himp hs
        · simp at h
      · simp at h
      · simp at h; subst h; exact hg
    case strs =>
      simp only [Bool.and_eq_true, beq_iff_eq] at hc
      obtain ⟨hcd, himp⟩ := hc
      split at h
      · simp at h; subst h; exact hg
      · rename_i l _
        split at h
        · rename_i hs
          simp at h; subst h
          simpa [goodVal, hk, hcd] using strsGood_cliStr hok he hcur himp hs
        · simp at h
    case logSyslog =>
      have hcd : r.reader.codec = .log := by simpa using hc
      exact goodVal_applyLog hok he hk hcd hg h
    case logFacility => simp at h; subst h; exact hg
    case logFile => simp at h; subst h; exact hg
    case quiet => simp at h; subst h; exact hg
    case unknown => simp at hc
    case verbose =>
      simp only [Bool.and_eq_true, beq_iff_eq] at hc
      obtain ⟨hcd, hsk⟩ := hc
      simp at h; subst h
      unfold applyLevel
      split
      · have hl : ∀ s ∈ [sDEBUG, sINFO, sOFF, sERROR],
            goodVal t env r (.str s) = true := by
          intro s hs
          simp [goodVal, hk, hcd, strGood, hsk, hlevels s hs]
        simp only []
        split
        · exact hl _ (by simp)
        · split
          · exact hl _ (by simp)
          · split
            · exact hl _ (by simp)
            · split
              · exact hl _ (by simp)
              · exact hg
      · exact hg


theorem goodVal_applyClis {t : Table} {env : Env} (hok : tableOk t = true) (he : EnvOk t env)
    {r : Row} (hrow : rowOk t r = true) {args : List Arg} : ∀ (cs : List Cli),
    (∀ c ∈ cs, cliOk t r c = true ∧ (numBound c = true ∨ argsSmall args = true)) →
    ∀ {v v' : FVal}, goodVal t env r v = true → applyClis t env r args cs v = some v' →
      goodVal t env r v' = true := by
  intro cs
  induction cs with
  | nil => intro _ v v' hg h; simp [applyClis] at h; subst h; exact hg
  | cons c cs ih =>
    intro hcs v v' hg h
    simp only [applyClis] at h
    split at h
    · rename_i v1 hv1
      have := goodVal_applyCli hok he hrow (hcs c (by simp)).1 (hcs c (by simp)).2 hg hv1
      exact ih (fun c' hc' => hcs c' (by simp [hc'])) this h
    · simp at h

theorem goodRows_applyRows {t : Table} {env : Env} (hok : tableOk t = true) (he : EnvOk t env)
    {args : List Arg} : ∀ (rs : List Row),
    (∀ r ∈ rs, rowOk t r = true ∧
      ∀ c ∈ r.clis, cliOk t r c = true ∧ (numBound c = true ∨ argsSmall args = true)) →
    ∀ {c c' : Config}, goodRows t env rs c = true → applyRows t env args rs c = some c' →
      goodRows t env rs c' = true := by
  intro rs
  induction rs with
  | nil =>
    intro _ c c' hg h
    cases c <;> simp [applyRows] at h <;> subst h <;> simp [goodRows]
  | cons r rs ih =>
    intro hrs c c' hg h
    cases c with
    | nil => simp [goodRows] at hg
    | cons v vs =>
      simp only [goodRows, Bool.and_eq_true] at hg
      simp only [applyRows] at h
      split at h
      · rename_i v1 vs1 hv1 hvs1
        simp only [Option.some.injEq] at h
        subst h
        simp only [goodRows, Bool.and_eq_true]
        exact ⟨goodVal_applyClis hok he (hrs r (by simp)).1 r.clis (hrs r (by simp)).2 hg.1 hv1,
          ih (fun r' hr' => hrs r' (by simp [hr'])) hg.2 hvs1⟩
      · simp at h

theorem tableOk_rows {t : Table} (hok : tableOk t = true) :
    ∀ r ∈ t.rows, rowOk t r = true ∧ ∀ c ∈ r.clis, cliOk t r c = true := by
  simp only [tableOk, Bool.and_eq_true, List.all_eq_true] at hok
  intro r hr
  exact ⟨hok.1.1.2 r hr, fun c hc => hok.2 r hr c hc⟩

/-- Options whose numbers fit a TOML integer keep the configuration round-trippable. -/
theorem good_applyArgs_partial {t : Table} {env : Env} (hok : tableOk t = true) (he : EnvOk t env)
    {args : List Arg} (hs : argsSmall args = true) {c c' : Config} (hg : Good t env c)
    (h : applyArgs t env c args = some c') : Good t env c' := by
  apply goodRows_applyRows hok he t.rows _ hg h
  intro r hr
  obtain ⟨h1, h2⟩ := tableOk_rows hok r hr
  exact ⟨h1, fun c hc => ⟨h2 c hc, Or.inr hs⟩⟩

/-- Full strength: if no option accepts a number above `i64::MAX`, *every* accepted command
line keeps the configuration round-trippable. -/
theorem good_applyArgs_full {t : Table} {env : Env} (hok : tableOkFull t = true) (he : EnvOk t env)
    {args : List Arg} {c c' : Config} (hg : Good t env c)
    (h : applyArgs t env c args = some c') : Good t env c' := by
  simp only [tableOkFull, Bool.and_eq_true, List.all_eq_true] at hok
  obtain ⟨hok, hb⟩ := hok
  apply goodRows_applyRows hok he t.rows _ hg h
  intro r hr
  obtain ⟨h1, h2⟩ := tableOk_rows hok r hr
  exact ⟨h1, fun c hc => ⟨h2 c hc, Or.inl (hb r hr c hc)⟩⟩


end RoutinatorModel.Config
