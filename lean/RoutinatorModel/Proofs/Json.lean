import RoutinatorModel.Model.Json
/-! Basic facts about the JSON grammar and `jsonStr`. -/
namespace RoutinatorModel.Json

/-! ## Whitespace -/

theorem IsWs.nil : IsWs [] := by intro c h; cases h

theorem IsWs.cons {c : Nat} {s : Text} (hc : isWsChar c = true) (hs : IsWs s) : IsWs (c :: s) := by
  intro x hx
  cases hx with
  | head => exact hc
  | tail _ h => exact hs x h

theorem IsWs.append {a b : Text} (ha : IsWs a) (hb : IsWs b) : IsWs (a ++ b) := by
  intro c hc
  rcases List.mem_append.mp hc with h | h
  · exact ha c h
  · exact hb c h

theorem IsWs.of_all {s : Text} (h : s.all isWsChar = true) : IsWs s := by
  intro c hc
  exact List.all_eq_true.mp h c hc

/-! ## String characters -/

theorem IsChars.append {a b : Text} (ha : IsChars a) (hb : IsChars b) : IsChars (a ++ b) := by
  induction ha with
  | nil => exact hb
  | plain hc _ ih => exact IsChars.plain hc ih
  | esc hc _ ih => exact IsChars.esc hc ih
  | uni h1 h2 h3 h4 _ ih => exact IsChars.uni h1 h2 h3 h4 ih

theorem isHex_hexDigit {n : Nat} (h : n < 16) : isHex (hexDigit n) = true := by
  have : ∀ m, m < 16 → isHex (hexDigit m) = true := by decide
  exact this n h

/-- Every escape sequence `json_str` writes for a scalar value is string content. -/
theorem isChars_escChar {c : Nat} (hc : c ≤ 0x10FFFF) : IsChars (escChar c) := by
  unfold escChar
  split
  · rename_i h
    refine IsChars.esc ?_ IsChars.nil
    rcases h with h | h <;> subst h <;> decide
  · split
    · rename_i h1 h2
      refine IsChars.uni (by decide) (by decide) (isHex_hexDigit (by omega)) (isHex_hexDigit (by omega)) IsChars.nil
    · rename_i h1 h2
      refine IsChars.plain ?_ IsChars.nil
      simp only [isUnescaped, Bool.and_eq_true, decide_eq_true_eq, bne_iff_ne, ne_eq]
      refine ⟨⟨⟨by omega, ?_⟩, ?_⟩, hc⟩
      · intro h; exact h1 (Or.inl h)
      · intro h; exact h1 (Or.inr h)

/-- **`json_str` output is always valid string content** (repaired tree). -/
theorem isChars_jsonStr {s : Text} (hs : Scalar s) : IsChars (jsonStr s) := by
  induction s with
  | nil => exact IsChars.nil
  | cons c s ih =>
    have h1 : IsChars (escChar c) := isChars_escChar (hs c (List.mem_cons_self))
    have h2 : IsChars (jsonStr s) := ih (fun x hx => hs x (List.mem_cons_of_mem _ hx))
    simpa [jsonStr, List.flatMap_cons] using IsChars.append h1 h2

theorem scalar_of_scalarB {s : Text} (h : scalarB s = true) : Scalar s := by
  intro c hc
  have := List.all_eq_true.mp h c hc
  simpa using this

/-- A character `json_str` leaves alone. -/
def isPlain (c : Nat) : Bool := decide (0x20 ≤ c) && c != 0x22 && c != 0x5C

theorem escChar_plain {c : Nat} (h : isPlain c = true) : escChar c = [c] := by
  simp only [isPlain, Bool.and_eq_true, decide_eq_true_eq, bne_iff_ne, ne_eq] at h
  unfold escChar
  rw [if_neg (by intro h'; rcases h' with h' | h'; exact h.1.2 h'; exact h.2 h'), if_neg (by omega)]

theorem jsonStr_plain {s : Text} (h : ∀ c ∈ s, isPlain c = true) : jsonStr s = s := by
  induction s with
  | nil => rfl
  | cons c s ih =>
    have h1 := escChar_plain (h c List.mem_cons_self)
    have h2 := ih (fun x hx => h x (List.mem_cons_of_mem _ hx))
    simp only [jsonStr, List.flatMap_cons] at h2 ⊢
    rw [h1, h2]; rfl

/-! ## The number recogniser is sound -/

theorem takeDigits_spec (s : Text) :
    s = (takeDigits s).1 ++ (takeDigits s).2 ∧ ∀ c ∈ (takeDigits s).1, isDigit c = true := by
  induction s with
  | nil => exact ⟨rfl, by intro c h; cases h⟩
  | cons c s ih =>
    unfold takeDigits
    split
    · rename_i h
      refine ⟨by simp only [List.cons_append]; rw [← ih.1], ?_⟩
      intro x hx
      cases hx with
      | head => exact h
      | tail _ h' => exact ih.2 x h'
    · exact ⟨rfl, by intro c h; cases h⟩

theorem stripMinus_spec (s : Text) :
    s = (stripMinus s).1 ++ (stripMinus s).2 ∧ ((stripMinus s).1 = [] ∨ (stripMinus s).1 = [0x2D]) := by
  unfold stripMinus
  split
  · exact ⟨rfl, Or.inr rfl⟩
  · exact ⟨rfl, Or.inl rfl⟩

theorem stripSign_spec (s : Text) :
    s = (stripSign s).1 ++ (stripSign s).2 ∧
      ((stripSign s).1 = [] ∨ (stripSign s).1 = [0x2B] ∨ (stripSign s).1 = [0x2D]) := by
  unfold stripSign
  split
  · exact ⟨rfl, Or.inr (Or.inl rfl)⟩
  · exact ⟨rfl, Or.inr (Or.inr rfl)⟩
  · exact ⟨rfl, Or.inl rfl⟩

theorem takeInt_spec {s i r : Text} (h : takeInt s = some (i, r)) : s = i ++ r ∧ IsInt i := by
  unfold takeInt at h
  split at h
  · cases h
  · rename_i c t
    split at h
    · rename_i hc
      injection h with h; injection h with h1 h2
      subst h1 h2 hc
      exact ⟨rfl, Or.inl rfl⟩
    · split at h
      · rename_i hc
        injection h with h; injection h with h1 h2
        subst h1 h2
        have := takeDigits_spec t
        refine ⟨by simp only [List.cons_append]; rw [← this.1], Or.inr ⟨c, _, rfl, hc.1, hc.2, this.2⟩⟩
      · cases h

theorem takeFrac_spec {s f r : Text} (h : takeFrac s = some (f, r)) : s = f ++ r ∧ IsFrac f := by
  unfold takeFrac at h
  split at h
  · injection h with h; injection h with h1 h2
    subst h1 h2
    exact ⟨rfl, Or.inl rfl⟩
  · rename_i c t
    split at h
    · rename_i hc
      split at h
      · cases h
      · rename_i hne
        injection h with h; injection h with h1 h2
        subst h1 h2 hc
        have := takeDigits_spec t
        exact ⟨by simp only [List.cons_append]; rw [← this.1], Or.inr ⟨_, rfl, hne, this.2⟩⟩
    · injection h with h; injection h with h1 h2
      subst h1 h2
      exact ⟨rfl, Or.inl rfl⟩

theorem takeExp_spec {s e r : Text} (h : takeExp s = some (e, r)) : s = e ++ r ∧ IsExp e := by
  unfold takeExp at h
  split at h
  · injection h with h; injection h with h1 h2
    subst h1 h2
    exact ⟨rfl, Or.inl rfl⟩
  · rename_i c t
    split at h
    · rename_i hc
      split at h
      · cases h
      · rename_i hne
        injection h with h; injection h with h1 h2
        subst h1 h2
        have h1 := stripSign_spec t
        have h2 := takeDigits_spec (stripSign t).2
        refine ⟨?_, Or.inr ⟨c, _, _, rfl, hc, h1.2, hne, h2.2⟩⟩
        simp only [List.cons_append, List.append_assoc]
        rw [← h2.1, ← h1.1]
    · injection h with h; injection h with h1 h2
      subst h1 h2
      exact ⟨rfl, Or.inl rfl⟩

theorem takeNumber_spec {s n r : Text} (h : takeNumber s = some (n, r)) : s = n ++ r ∧ IsNumber n := by
  unfold takeNumber at h
  split at h
  · cases h
  · rename_i i s2 hi
    split at h
    · cases h
    · rename_i f s3 hf
      split at h
      · cases h
      · rename_i e s4 he
        injection h with h; injection h with h1 h2
        subst h1 h2
        have a := stripMinus_spec s
        have b := takeInt_spec hi
        have c := takeFrac_spec hf
        have d := takeExp_spec he
        refine ⟨?_, ⟨_, i, f, e, rfl, a.2, b.2, c.2, d.2⟩⟩
        conv => lhs; rw [a.1, b.1, c.1, d.1]
        simp only [List.append_assoc]

theorem isNumberB_sound {s : Text} (h : isNumberB s = true) : IsNumber s := by
  unfold isNumberB at h
  split at h
  · rename_i n hn
    have := takeNumber_spec hn
    rw [this.1, List.append_nil]
    exact this.2
  · cases h

/-- The characters of a number are left alone by `json_str`. -/
theorem number_plain {s : Text} (h : IsNumber s) : ∀ c ∈ s, isPlain c = true := by
  have hd : ∀ c, isDigit c = true → isPlain c = true := by
    intro c hc
    simp only [isDigit, Bool.and_eq_true, decide_eq_true_eq] at hc
    simp only [isPlain, Bool.and_eq_true, decide_eq_true_eq, bne_iff_ne, ne_eq]
    omega
  obtain ⟨m, i, f, e, rfl, hm, hi, hf, he⟩ := h
  intro c hc
  simp only [List.mem_append] at hc
  rcases hc with ((hc | hc) | hc) | hc
  · rcases hm with rfl | rfl
    · cases hc
    · simp at hc; subst hc; decide
  · rcases hi with rfl | ⟨d, ds, rfl, h1, h2, h3⟩
    · simp at hc; subst hc; decide
    · cases hc with
      | head => exact hd c (by simp only [isDigit, Bool.and_eq_true, decide_eq_true_eq]; omega)
      | tail _ h => exact hd c (h3 c h)
  · rcases hf with rfl | ⟨ds, rfl, _, h2⟩
    · cases hc
    · cases hc with
      | head => decide
      | tail _ h => exact hd c (h2 c h)
  · rcases he with rfl | ⟨e', sg, ds, rfl, h1, h2, _, h4⟩
    · cases hc
    · cases hc with
      | head => rcases h1 with rfl | rfl <;> decide
      | tail _ h =>
        rcases List.mem_append.mp h with h | h
        · rcases h2 with rfl | rfl | rfl
          · cases h
          · simp at h; subst h; decide
          · simp at h; subst h; decide
        · exact hd c (h4 c h)

/-! ## Whitespace on the right of members / elements -/

theorem J.member_ws {m w : Text} (h : J .member m) (hw : IsWs w) : J .member (m ++ w) := by
  cases h with
  | member ha hk hb hc hv hd =>
    have := J.member ha hk hb hc hv (IsWs.append hd hw)
    simpa [List.append_assoc] using this

theorem J.element_ws {e w : Text} (h : J .element e) (hw : IsWs w) : J .element (e ++ w) := by
  cases h with
  | element ha hv hb =>
    have := J.element ha hv (IsWs.append hb hw)
    simpa [List.append_assoc] using this

theorem J.members_ws {m w : Text} (h : J .members m) (hw : IsWs w) : J .members (m ++ w) := by
  generalize hk : Kind.members = k at h
  induction h with
  | mem1 hm => exact J.mem1 (J.member_ws hm hw)
  | memS hm _ _ ih =>
    have := J.memS hm (ih hk)
    simpa [List.append_assoc] using this
  | _ => cases hk

theorem J.elements_ws {e w : Text} (h : J .elements e) (hw : IsWs w) : J .elements (e ++ w) := by
  generalize hk : Kind.elements = k at h
  induction h with
  | el1 he => exact J.el1 (J.element_ws he hw)
  | elS he _ _ ih =>
    have := J.elS he (ih hk)
    simpa [List.append_assoc] using this
  | _ => cases hk

theorem J.element_ws_left {e w : Text} (h : J .element e) (hw : IsWs w) : J .element (w ++ e) := by
  cases h with
  | element ha hv hb =>
    have := J.element (IsWs.append hw ha) hv hb
    simpa [List.append_assoc] using this

theorem IsJson.of_value {v : Text} (h : J .value v) : IsJson v := by
  have := J.element IsWs.nil h IsWs.nil
  simpa [IsJson] using this

/-! ## Control characters never occur raw in a JSON text

The only code points below 0x20 anywhere in a JSON text are TAB, LF and CR (as
insignificant whitespace). This is the necessary condition used for the negation
witnesses. -/

/-- No code point below 0x20 other than whitespace. -/
def NoRawControl (s : Text) : Prop := ∀ c ∈ s, c < 0x20 → isWsChar c = true

theorem NoRawControl.nil : NoRawControl [] := by intro c h; cases h

theorem NoRawControl.append {a b : Text} (ha : NoRawControl a) (hb : NoRawControl b) :
    NoRawControl (a ++ b) := by
  intro c hc
  rcases List.mem_append.mp hc with h | h
  · exact ha c h
  · exact hb c h

theorem NoRawControl.cons {c : Nat} {s : Text} (hc : c < 0x20 → isWsChar c = true)
    (hs : NoRawControl s) : NoRawControl (c :: s) := by
  intro x hx
  cases hx with
  | head => exact hc
  | tail _ h => exact hs x h

theorem NoRawControl.of_ws {s : Text} (h : IsWs s) : NoRawControl s := fun c hc _ => h c hc

theorem NoRawControl.of_ge {s : Text} (h : ∀ c ∈ s, 0x20 ≤ c) : NoRawControl s := by
  intro c hc hlt
  have := h c hc
  omega

theorem noRawControl_chars {s : Text} (h : IsChars s) : NoRawControl s := by
  induction h with
  | nil => exact NoRawControl.nil
  | plain hc _ ih =>
    refine NoRawControl.cons ?_ ih
    intro hlt
    simp only [isUnescaped, Bool.and_eq_true, decide_eq_true_eq] at hc
    omega
  | @esc c s hc _ ih =>
    refine NoRawControl.cons (by intro h; omega) (NoRawControl.cons ?_ ih)
    intro hlt
    have : ∀ x, x < 0x20 → isSimpleEscape x = false := by decide
    rw [this c hlt] at hc
    cases hc
  | @uni a b c d s h1 h2 h3 h4 _ ih =>
    have hx : ∀ x, x < 0x20 → isHex x = false := by decide
    refine NoRawControl.cons (by intro h; omega) (NoRawControl.cons (by intro h; omega) ?_)
    refine NoRawControl.cons ?_ (NoRawControl.cons ?_ (NoRawControl.cons ?_ (NoRawControl.cons ?_ ih)))
    · intro h; rw [hx a h] at h1; cases h1
    · intro h; rw [hx b h] at h2; cases h2
    · intro h; rw [hx c h] at h3; cases h3
    · intro h; rw [hx d h] at h4; cases h4

theorem isDigit_ge {c : Nat} (h : isDigit c = true) : 0x20 ≤ c := by
  simp only [isDigit, Bool.and_eq_true, decide_eq_true_eq] at h
  omega

theorem noRawControl_number {s : Text} (h : IsNumber s) : NoRawControl s := by
  obtain ⟨m, i, f, e, rfl, hm, hi, hf, he⟩ := h
  apply NoRawControl.of_ge
  intro c hc
  simp only [List.mem_append] at hc
  rcases hc with ((hc | hc) | hc) | hc
  · rcases hm with rfl | rfl
    · cases hc
    · simp at hc; omega
  · rcases hi with rfl | ⟨d, ds, rfl, h1, h2, h3⟩
    · simp at hc; omega
    · cases hc with
      | head => omega
      | tail _ h => exact isDigit_ge (h3 c h)
  · rcases hf with rfl | ⟨ds, rfl, _, h2⟩
    · cases hc
    · cases hc with
      | head => omega
      | tail _ h => exact isDigit_ge (h2 c h)
  · rcases he with rfl | ⟨e', sg, ds, rfl, h1, h2, _, h4⟩
    · cases hc
    · cases hc with
      | head => rcases h1 with rfl | rfl <;> omega
      | tail _ h =>
        rcases List.mem_append.mp h with h | h
        · rcases h2 with rfl | rfl | rfl
          · cases h
          · simp at h; omega
          · simp at h; omega
        · exact isDigit_ge (h4 c h)

/-- A JSON text (or any of its parts) contains no raw control character other than
TAB, LF, CR. -/
theorem noRawControl_of_J {k : Kind} {s : Text} (h : J k s) : NoRawControl s := by
  induction h with
  | null => exact NoRawControl.of_ge (by decide)
  | true => exact NoRawControl.of_ge (by decide)
  | false => exact NoRawControl.of_ge (by decide)
  | num h => exact noRawControl_number h
  | str h =>
    exact NoRawControl.cons (by intro h; omega)
      (NoRawControl.append (noRawControl_chars h) (NoRawControl.cons (by intro h; omega) NoRawControl.nil))
  | objE h =>
    exact NoRawControl.cons (by intro h; omega)
      (NoRawControl.append (NoRawControl.of_ws h) (NoRawControl.cons (by intro h; omega) NoRawControl.nil))
  | obj _ ih =>
    exact NoRawControl.cons (by intro h; omega)
      (NoRawControl.append ih (NoRawControl.cons (by intro h; omega) NoRawControl.nil))
  | arrE h =>
    exact NoRawControl.cons (by intro h; omega)
      (NoRawControl.append (NoRawControl.of_ws h) (NoRawControl.cons (by intro h; omega) NoRawControl.nil))
  | arr _ ih =>
    exact NoRawControl.cons (by intro h; omega)
      (NoRawControl.append ih (NoRawControl.cons (by intro h; omega) NoRawControl.nil))
  | member ha hk hb hc _ hd ih =>
    refine NoRawControl.append (NoRawControl.of_ws ha) (NoRawControl.cons (by intro h; omega) ?_)
    refine NoRawControl.append (noRawControl_chars hk) (NoRawControl.cons (by intro h; omega) ?_)
    refine NoRawControl.append (NoRawControl.of_ws hb) (NoRawControl.cons (by intro h; omega) ?_)
    exact NoRawControl.append (NoRawControl.of_ws hc) (NoRawControl.append ih (NoRawControl.of_ws hd))
  | mem1 _ ih => exact ih
  | memS _ _ ih1 ih2 => exact NoRawControl.append ih1 (NoRawControl.cons (by intro h; omega) ih2)
  | element ha _ hb ih =>
    exact NoRawControl.append (NoRawControl.of_ws ha) (NoRawControl.append ih (NoRawControl.of_ws hb))
  | el1 _ ih => exact ih
  | elS _ _ ih1 ih2 => exact NoRawControl.append ih1 (NoRawControl.cons (by intro h; omega) ih2)

/-- A text containing a code point below 0x20 other than TAB, LF, CR is not JSON. -/
theorem not_isJson_of_control {s : Text} {c : Nat} (hc : c ∈ s) (hlt : c < 0x20)
    (hws : isWsChar c = false) : ¬ IsJson s := by
  intro h
  have := noRawControl_of_J h c hc hlt
  rw [hws] at this
  cases this

end RoutinatorModel.Json
