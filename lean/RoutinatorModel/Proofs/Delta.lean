import RoutinatorModel.Model.Delta
import RoutinatorModel.Proofs.Keyed
/-! Helper lemmas for the delta algebra (C11, C12, C13). -/
namespace RoutinatorModel

/-- A standard data set: strictly increasing. -/
def Sorted (s : List Nat) : Prop := s.Pairwise (· < ·)

theorem keyed_map_fst (s : List Nat) : (keyed s).map Prod.fst = s := by
  unfold keyed; induction s with
  | nil => rfl
  | cons x s ih => simp only [List.map_cons, ih]

theorem ksorted_keyed {s : List Nat} (h : Sorted s) : KSorted (keyed s) := by
  unfold KSorted; rw [keyed_map_fst]; exact h

theorem lookup_keyed (s : List Nat) (k : Nat) :
    (keyed s).lookup k = if k ∈ s then some () else none := by
  unfold keyed; induction s with
  | nil => simp [List.lookup]
  | cons x s ih =>
    by_cases hk : k = x
    · simp [List.lookup, hk]
    · have : (k == x) = false := by simp [hk]
      simp only [List.map, List.lookup, this, ih]
      simp [hk]

theorem mem_of_lookup {V : Type} {l : List (Nat × V)} {k : Nat} {v : V}
    (h : l.lookup k = some v) : (k, v) ∈ l := by
  induction l with
  | nil => simp [List.lookup] at h
  | cons x l ih =>
    obtain ⟨a, b⟩ := x
    by_cases hk : k = a
    · simp [List.lookup, hk] at h; simp [hk, h]
    · have : (k == a) = false := by simp [hk]
      simp only [List.lookup, this] at h
      simp [ih h]

theorem lookup_of_mem {V : Type} {l : List (Nat × V)} (hs : KSorted l) {k : Nat} {v : V}
    (h : (k, v) ∈ l) : l.lookup k = some v := by
  induction l with
  | nil => simp at h
  | cons x l ih =>
    rw [lookup_cons_ksorted hs]
    simp at h
    rcases h with h | h
    · simp [← h]
    · have hlt := hs.head_lt (k, v) h
      simp at hlt
      have h1 : ¬ k = x.1 := by omega
      have h2 : ¬ k < x.1 := by omega
      simp [h1, h2]; exact ih hs.tail h

theorem mem_iff_lookup {V : Type} {l : List (Nat × V)} (hs : KSorted l) (k : Nat) (v : V) :
    (k, v) ∈ l ↔ l.lookup k = some v := ⟨lookup_of_mem hs, mem_of_lookup⟩

/-! ### Standard deltas -/

def stdW : Unit → Option Action := fun _ => some Action.withdraw
def stdA : Unit → Option Action := fun _ => some Action.announce
def stdN : Unit → Unit → Option Action := fun _ _ => none

theorem stdConstruct_eq (a b : List Nat) :
    stdConstruct a b = mergeH stdW stdA stdN (keyed a) (keyed b) := rfl

theorem ksorted_stdConstruct {a b : List Nat} (ha : Sorted a) (hb : Sorted b) :
    KSorted (stdConstruct a b) :=
  ksorted_mergeH _ _ _ _ _ (ksorted_keyed ha) (ksorted_keyed hb)

theorem lookup_stdConstruct {a b : List Nat} (ha : Sorted a) (hb : Sorted b) (k : Nat) :
    (stdConstruct a b).lookup k =
      combH stdW stdA stdN ((keyed a).lookup k) ((keyed b).lookup k) :=
  lookup_mergeH _ _ _ _ _ (ksorted_keyed ha) (ksorted_keyed hb) k

theorem std_comb_assoc (x y z : Option Unit) :
    combH some some stdMergeAct (combH stdW stdA stdN x y) (combH stdW stdA stdN y z)
      = combH stdW stdA stdN x z := by
  rcases x with _ | ⟨⟨⟩⟩ <;> rcases y with _ | ⟨⟨⟩⟩ <;> rcases z with _ | ⟨⟨⟩⟩ <;> rfl

theorem std_comb_apply (x y : Option Unit) :
    combH some stdApplyAct (fun _ a => stdApplyAct a) x (combH stdW stdA stdN x y) = y := by
  rcases x with _ | ⟨⟨⟩⟩ <;> rcases y with _ | ⟨⟨⟩⟩ <;> rfl

/-! ### ASPA deltas -/

def aspW : List Nat → Option (List Nat × AspaAction) := fun p => some ([], AspaAction.withdraw p)
def aspA : List Nat → Option (List Nat × AspaAction) := fun q => some (q, AspaAction.announce)
def aspU : List Nat → List Nat → Option (List Nat × AspaAction) :=
  fun p q => if p ≠ q then some (q, AspaAction.update p) else none

theorem ksorted_aspaConstruct {a b : AspaSet} (ha : KSorted a) (hb : KSorted b) :
    KSorted (aspaConstruct a b) := ksorted_mergeH _ _ _ _ _ ha hb

theorem lookup_aspaConstruct {a b : AspaSet} (ha : KSorted a) (hb : KSorted b) (k : Nat) :
    (aspaConstruct a b).lookup k = combH aspW aspA aspU (a.lookup k) (b.lookup k) :=
  lookup_mergeH _ _ _ _ _ ha hb k

theorem aspa_comb_assoc (x y z : Option (List Nat)) :
    combH some some aspaMergeAct (combH aspW aspA aspU x y) (combH aspW aspA aspU y z)
      = combH aspW aspA aspU x z := by
  rcases x with _ | p <;> rcases y with _ | q <;> rcases z with _ | r <;>
    simp [combH, aspW, aspA, aspU, aspaMergeAct, aspaMergeTable]
  · by_cases h : q = r <;> simp [h, combH, aspaMergeAct, aspaMergeTable]
  · by_cases h : p = r <;> simp [h, combH, aspaMergeAct, aspaMergeTable]
  · by_cases h : p = q <;> simp [h, combH, aspaMergeAct, aspaMergeTable]
  · by_cases h1 : p = q <;> by_cases h2 : q = r <;> by_cases h3 : p = r <;>
      simp_all [combH, aspaMergeAct, aspaMergeTable]

theorem aspa_comb_apply (x y : Option (List Nat)) :
    combH some aspaApplyAct (fun _ v => aspaApplyAct v) x (combH aspW aspA aspU x y) = y := by
  rcases x with _ | p <;> rcases y with _ | q <;> simp [combH, aspW, aspA, aspU, aspaApplyAct]
  by_cases h : p = q <;> simp [h, combH, aspaApplyAct]

/-! ### Counters -/

theorem ofItems_aux {V : Type} (isAnn : V → Bool) (l : List (Nat × V)) (d : Counted V) :
    (l.foldl (Counted.push isAnn) d).items = d.items ++ l ∧
    (l.foldl (Counted.push isAnn) d).announceLen
      = d.announceLen + (l.filter (fun x => isAnn x.2)).length ∧
    (l.foldl (Counted.push isAnn) d).withdrawLen
      = d.withdrawLen + (l.filter (fun x => !isAnn x.2)).length := by
  induction l generalizing d with
  | nil => simp
  | cons x l ih =>
    simp only [List.foldl]
    have := ih (Counted.push isAnn d x)
    obtain ⟨h1, h2, h3⟩ := this
    unfold Counted.push at h1 h2 h3 ⊢
    by_cases hx : isAnn x.2 = true
    · simp [hx] at h1 h2 h3 ⊢
      refine ⟨h1, ?_, h3⟩; omega
    · simp [hx] at h1 h2 h3 ⊢
      refine ⟨h1, h2, ?_⟩; omega

end RoutinatorModel
