import RoutinatorModel.Proofs.PathsKeys
/-! C30: injectivity of the resolved paths, dump paths, dump registry. -/
namespace RoutinatorModel.Paths

theorem not_long_lit : ¬ Long sHttps ∧ ¬ Long sRrdp ∧ ¬ Long sRsync := by
  unfold Long; decide

section
variable {sha : Str → List Nat}
  (hinj : Function.Injective sha)
  (hlen : ∀ x, (sha x).length = 32)
  (hbyte : ∀ x, ∀ b ∈ sha x, b < 256)
include hinj hlen hbyte

theorem hexsha_inj {x y ext : Str} (h : hex (sha x) ++ ext = hex (sha y) ++ ext) : x = y :=
  hinj (hex_inj (hbyte x) (hbyte y) (List.append_cancel_right h))

theorem hexsha_inj' {x y : Str} (h : hex (sha x) = hex (sha y)) : x = y :=
  hinj (hex_inj (hbyte x) (hbyte y) h)

/-- Keys of the same kind with the same resolved path are equivalent. -/
theorem relOf_inj_same {k1 k2 : Key} (h1 : k1.WF) (h2 : k2.WF)
    (h : relOf sha k1 = relOf sha k2) : k1.equiv k2 := by
  obtain ⟨nl1, nl2, nl3⟩ := not_long_lit
  have hk := congrArg kindOf h
  rw [kindOf_relOf hlen, kindOf_relOf hlen] at hk
  cases k1 with
  | taRsync u =>
    cases k2 with
    | taRsync v =>
      simp only [relOf, List.cons.injEq, and_true] at h
      exact rsyncHashInput_inj h1 h2 (hexsha_inj hinj hlen hbyte h.2.2.2.2)
    | taHttps _ => simp [Key.kind] at hk
    | point n _ => cases n <;> simp [Key.kind] at hk
    | rsyncFile _ => simp [Key.kind] at hk
    | rrdpArchive _ => simp [Key.kind] at hk
  | taHttps m =>
    cases k2 with
    | taHttps n =>
      simp only [relOf, step_triple, List.cons_append, List.cons.injEq, true_and] at h
      have := tailOf_hash_inj (r1 := []) (r2 := []) nl1
        (long_hex_ext hlen _ sCer) (long_hex_ext hlen _ sCer) (by simp) (by simp) h
      exact httpsHashInput_inj h1 h2 (hexsha_inj hinj hlen hbyte this.1)
    | taRsync _ => simp [Key.kind] at hk
    | point n _ => cases n <;> simp [Key.kind] at hk
    | rsyncFile _ => simp [Key.kind] at hk
    | rrdpArchive _ => simp [Key.kind] at hk
  | point m u =>
    cases k2 with
    | point n v =>
      cases m with
      | none =>
        cases n with
        | none =>
          simp only [relOf, List.cons_append, List.nil_append, List.cons.injEq, true_and] at h
          exact ⟨h.1, h.2.1, h.2.2⟩
        | some n => simp [Key.kind] at hk
      | some m =>
        cases n with
        | none => simp [Key.kind] at hk
        | some n =>
          simp only [relOf, step_pair, List.cons_append, List.append_assoc, List.nil_append,
            List.cons.injEq, true_and] at h
          have := tailOf_hash_inj nl2 (long_hex hlen _) (long_hex hlen _)
            (by intro x hx; simp at hx; exact hx ▸ nl3) (by intro x hx; simp at hx; exact hx ▸ nl3) h
          obtain ⟨e1, e2⟩ := this
          simp only [List.cons.injEq, true_and] at e2
          exact ⟨httpsHashInput_inj h1.1 h2.1 (hexsha_inj' hinj hlen hbyte e1), e2.1, e2.2.1, e2.2.2⟩
    | taRsync _ => cases m <;> simp [Key.kind] at hk
    | taHttps _ => cases m <;> simp [Key.kind] at hk
    | rsyncFile _ => cases m <;> simp [Key.kind] at hk
    | rrdpArchive _ => cases m <;> simp [Key.kind] at hk
  | rsyncFile u =>
    cases k2 with
    | rsyncFile v =>
      simp only [relOf, List.cons_append, List.nil_append, List.cons.injEq, true_and] at h
      exact ⟨h.1, h.2.1, h.2.2⟩
    | taRsync _ => simp [Key.kind] at hk
    | taHttps _ => simp [Key.kind] at hk
    | point n _ => cases n <;> simp [Key.kind] at hk
    | rrdpArchive _ => simp [Key.kind] at hk
  | rrdpArchive m =>
    cases k2 with
    | rrdpArchive n =>
      simp only [relOf, step_singleton] at h
      have := tailOf_hash_inj (r1 := []) (r2 := []) nl2
        (long_hex_ext hlen _ sBin) (long_hex_ext hlen _ sBin) (by simp) (by simp) h
      have := httpsRaw_inj h1 h2 (hexsha_inj hinj hlen hbyte this.1)
      exact ⟨by rw [this.1], this.2⟩
    | taRsync _ => simp [Key.kind] at hk
    | taHttps _ => simp [Key.kind] at hk
    | point n _ => cases n <;> simp [Key.kind] at hk
    | rsyncFile _ => simp [Key.kind] at hk

end

/-! ## Dump paths -/

theorem canon_of_not_hasUpper {a : Str} (h : hasUpper a = false) : canon a = a := by
  induction a with
  | nil => rfl
  | cons b t ih =>
    simp only [hasUpper, List.any_cons, Bool.or_eq_false_iff, decide_eq_false_iff_not] at h
    have : canon t = t := ih (by simpa [hasUpper] using h.2)
    simp only [canon, List.map_cons] at this ⊢
    rw [this]
    simp [lower, h.1]

/-- What the parser guarantees about the scheme as written: `rsync://` in any letter case. -/
def Rsync.SchemeOk (u : Rsync) : Prop := canon u.scheme = sRsyncScheme

theorem scheme_shape {s : Str} (h : canon s = sRsyncScheme) :
    s = s.take 6 ++ [47, 47] ∧ okSeg (s.take 6) := by
  match s, h with
  | [a, b, c, d, e, f, g, i], h =>
    simp only [canon, sRsyncScheme, List.map_cons, List.map_nil, List.cons.injEq, and_true] at h
    obtain ⟨ha, hb, hc, hd, he, hf, hg, hi⟩ := h
    have hg' := lower_eq_47.mp hg
    have hi' := lower_eq_47.mp hi
    subst hg' hi'
    refine ⟨by simp, ?_, ?_, ?_, ?_⟩
    · simp
    · simp only [List.take, List.mem_cons, List.not_mem_nil, or_false, not_or]
      refine ⟨?_, ?_, ?_, ?_, ?_, ?_⟩ <;> (intro e; subst e; simp [lower] at *)
    · simp
    · simp
  | [], h => simp [canon, sRsyncScheme] at h
  | [_], h => simp [canon, sRsyncScheme] at h
  | [_, _], h => simp [canon, sRsyncScheme] at h
  | [_, _, _], h => simp [canon, sRsyncScheme] at h
  | [_, _, _, _], h => simp [canon, sRsyncScheme] at h
  | [_, _, _, _, _], h => simp [canon, sRsyncScheme] at h
  | [_, _, _, _, _, _], h => simp [canon, sRsyncScheme] at h
  | [_, _, _, _, _, _, _], h => simp [canon, sRsyncScheme] at h
  | _ :: _ :: _ :: _ :: _ :: _ :: _ :: _ :: _ :: _, h => simp [canon, sRsyncScheme] at h

theorem resolveFrom_scheme_rest (st : List Str) {x : Str} (hx : okSeg x) (rest : Str) :
    resolveFrom st (x ++ 47 :: 47 :: rest) = resolveFrom (st ++ [x]) rest := by
  rw [resolveFrom_append_slash, resolveFrom_okSeg hx]
  show resolveFrom (st ++ [x]) ([] ++ 47 :: rest) = _
  rw [resolveFrom_append_slash, resolveFrom_nil]

theorem resolveFrom_canonicalModule (st : List Str) {u : Rsync} (hu : u.WF) (hs : u.SchemeOk) :
    resolveFrom st (canonicalModule u) = st ++ [schemeDir u, canon u.auth, u.module] := by
  unfold canonicalModule schemeDir
  cases hup : hasUpper u.auth with
  | true =>
    simp only [if_true]
    show resolveFrom st ([114,115,121,110,99,58] ++ 47 :: 47 :: (canon u.auth ++ 47 :: (u.module ++ [47])))
      = st ++ [[114,115,121,110,99,58], canon u.auth, u.module]
    rw [resolveFrom_scheme_rest _ (by decide), resolveFrom_append_slash,
      resolveFrom_trailing_slash, resolveFrom_okSeg (okSeg_canon hu.auth),
      resolveFrom_okSeg hu.module]
    simp
  | false =>
    simp only [Bool.false_eq_true, if_false]
    obtain ⟨e, hok⟩ := scheme_shape hs
    have hc := canon_of_not_hasUpper hup
    have : u.scheme ++ (u.auth ++ 47 :: (u.module ++ [47])) =
        u.scheme.take 6 ++ 47 :: 47 :: (u.auth ++ 47 :: (u.module ++ [47])) := by
      conv => lhs; rw [e]
      simp
    rw [this, resolveFrom_scheme_rest _ hok, resolveFrom_append_slash, resolveFrom_trailing_slash,
      resolveFrom_okSeg hu.auth, resolveFrom_okSeg hu.module, hc]
    simp

theorem canonicalModule_head {u : Rsync} (hs : u.SchemeOk) :
    (canonicalModule u).head? ≠ some 47 := by
  unfold canonicalModule
  split
  · rw [head_append_of_ne_nil (by decide)]; decide
  · obtain ⟨e, hok⟩ := scheme_shape hs
    have hne : u.scheme ≠ [] := by
      intro h; rw [h] at e; simp at e
    rw [head_append_of_ne_nil hne, e, head_append_of_ne_nil hok.1]
    exact head_okSeg hok

def DumpKey.WF : DumpKey → Prop
  | .storeObj reg u => 47 ∉ reg ∧ u.WF
  | .rrdpObj reg u => 47 ∉ reg ∧ u.WF ∧ u.SchemeOk

theorem resolve_dumpPathOf (dump : Str) {k : DumpKey} (hk : k.WF) :
    resolve (dumpPathOf dump k) = resolve dump ++ dumpRelOf k := by
  cases k with
  | storeObj reg u =>
    obtain ⟨hr, hu⟩ := hk
    unfold dumpPathOf
    have hc := okSeg_canon hu.auth
    have hh : (canon u.auth ++ 47 :: (u.module ++ 47 :: u.path)).head? ≠ some 47 := by
      rw [head_append_of_ne_nil hc.1]; exact head_okSeg hc
    rw [resolve_push hh, resolve_push (head_ne_slash_of_not_mem hr),
      resolve_push_okSeg _ okSeg_sStore, resolveFrom_noslash hr, resolveFrom_append_slash,
      resolveFrom_append_slash, resolveFrom_okSeg hc, resolveFrom_okSeg hu.module,
      resolveFrom_path hu, step_append_singleton]
    simp [dumpRelOf]
  | rrdpObj reg u =>
    obtain ⟨hr, hu, hs⟩ := hk
    unfold dumpPathOf
    rw [resolve_push (path_head hu), resolve_push (canonicalModule_head hs),
      resolve_push_okSeg _ okSeg_sRsync, resolve_push (head_ne_slash_of_not_mem hr),
      resolve_push_okSeg _ okSeg_sRrdp, resolveFrom_noslash hr, resolveFrom_path hu,
      resolveFrom_canonicalModule _ hu hs, step_append_singleton]
    simp [dumpRelOf]

/-- Same tree, same repository directory, equivalent object URIs. -/
def DumpKey.equiv : DumpKey → DumpKey → Prop
  | .storeObj r1 u, .storeObj r2 v => r1 = r2 ∧ u.equiv v
  | .rrdpObj r1 u, .rrdpObj r2 v => r1 = r2 ∧ u.equiv v
  | _, _ => False

def DumpKey.reg : DumpKey → Str
  | .storeObj r _ => r
  | .rrdpObj r _ => r

theorem dumpRelOf_inj {k1 k2 : DumpKey} (h1 : okSeg k1.reg) (h2 : okSeg k2.reg)
    (h : dumpRelOf k1 = dumpRelOf k2) : k1.equiv k2 := by
  have ne : sStore ≠ sRrdp := by decide
  cases k1 with
  | storeObj r1 u =>
    cases k2 with
    | storeObj r2 v =>
      simp only [DumpKey.reg] at h1 h2
      simp only [dumpRelOf, step_singleton, tailOf_okSeg h1, tailOf_okSeg h2, List.cons_append,
        List.nil_append, List.cons.injEq, true_and] at h
      exact ⟨h.1, h.2.1, h.2.2.1, h.2.2.2⟩
    | rrdpObj r2 v =>
      simp only [DumpKey.reg] at h1 h2
      simp [dumpRelOf, step_singleton, tailOf_okSeg h1, tailOf_okSeg h2, ne] at h
  | rrdpObj r1 u =>
    cases k2 with
    | storeObj r2 v =>
      simp only [DumpKey.reg] at h1 h2
      simp [dumpRelOf, step_singleton, tailOf_okSeg h1, tailOf_okSeg h2, ne.symm] at h
    | rrdpObj r2 v =>
      simp only [DumpKey.reg] at h1 h2
      simp only [dumpRelOf, step_singleton, tailOf_okSeg h1, tailOf_okSeg h2, List.cons_append,
        List.nil_append, List.cons.injEq, true_and] at h
      exact ⟨h.1, h.2.2.1, h.2.2.2.1, h.2.2.2.2⟩

/-! ## The dump registry -/

theorem findFree_not_mem {dirs : List Str} {a x : Str} {fuel i : Nat}
    (h : findFree dirs a fuel i = some x) : x ∉ dirs := by
  induction fuel generalizing i with
  | zero => simp [findFree] at h
  | succ f ih =>
    simp only [findFree] at h
    split at h
    · exact ih h
    · simp only [Option.some.injEq] at h
      subst h; assumption

theorem freshName_not_mem {dirs : List Str} {a x : Str} (h : freshName dirs a = some x) :
    x ∉ dirs := by
  unfold freshName at h
  split at h
  · exact findFree_not_mem h
  · simp only [Option.some.injEq] at h
    subst h; assumption

/-- Registry invariant: every handed-out name is recorded as used, names are pairwise different,
`rsync` is reserved, and no two entries are for equivalent URIs. -/
structure Registry.Inv (r : Registry) : Prop where
  used : ∀ e ∈ r.uris, e.2 ∈ r.dirs
  distinct : r.uris.Pairwise (fun e f => e.2 ≠ f.2)
  reserved : sRsync ∈ r.dirs

theorem Registry.inv_new : Registry.new.Inv :=
  ⟨by simp [Registry.new], by simp [Registry.new], by simp [Registry.new]⟩

theorem Registry.lookup_some {r : Registry} {n : Https} {x : Str} (h : r.lookup n = some x) :
    ∃ e ∈ r.uris, e.1.equiv n ∧ e.2 = x := by
  unfold Registry.lookup at h
  split at h
  · rename_i e he
    simp only [Option.some.injEq] at h
    exact ⟨e, List.mem_of_find?_eq_some he, by simpa using List.find?_some he, h⟩
  · simp at h

theorem Registry.lookup_none {r : Registry} {n : Https} (h : r.lookup n = none) :
    ∀ e ∈ r.uris, ¬ e.1.equiv n := by
  unfold Registry.lookup at h
  split at h
  · simp at h
  · rename_i he
    intro e hm
    simpa using List.find?_eq_none.mp he e hm

theorem Registry.get_inv {r r' : Registry} {n : Https} {x : Str} (hi : r.Inv)
    (h : r.get n = some (x, r')) : r'.Inv := by
  unfold Registry.get at h
  split at h
  · simp only [Option.some.injEq, Prod.mk.injEq] at h
    exact h.2 ▸ hi
  · split at h
    · rename_i name hf
      simp only [Option.some.injEq, Prod.mk.injEq] at h
      obtain ⟨_, rfl⟩ := h
      have hfresh := freshName_not_mem hf
      refine ⟨?_, ?_, ?_⟩
      · intro e he
        simp only [List.mem_cons] at he ⊢
        rcases he with rfl | he
        · exact Or.inl rfl
        · exact Or.inr (hi.used e he)
      · simp only [List.pairwise_cons]
        refine ⟨?_, hi.distinct⟩
        intro f hf2 e
        exact hfresh (e ▸ hi.used f hf2)
      · simp [hi.reserved]
    · simp at h

/-- The name handed out is the one found on later look-ups. -/
theorem Registry.get_lookup {r r' : Registry} {n : Https} {x : Str}
    (h : r.get n = some (x, r')) : r'.lookup n = some x := by
  unfold Registry.get at h
  split at h
  · rename_i name hl
    simp only [Option.some.injEq, Prod.mk.injEq] at h
    rw [← h.2, ← h.1]; exact hl
  · split at h
    · simp only [Option.some.injEq, Prod.mk.injEq] at h
      obtain ⟨rfl, rfl⟩ := h
      have : n.equiv n := ⟨rfl, rfl⟩
      simp [Registry.lookup, this]
    · simp at h

/-- Names already handed out stay as they are. -/
theorem Registry.get_stable {r r' : Registry} {n m : Https} {x y : Str}
    (h : r.get n = some (x, r')) (hm : r.lookup m = some y) : r'.lookup m = some y := by
  unfold Registry.get at h
  split at h
  · simp only [Option.some.injEq, Prod.mk.injEq] at h
    rw [← h.2]; exact hm
  · rename_i hnone
    split at h
    · simp only [Option.some.injEq, Prod.mk.injEq] at h
      obtain ⟨rfl, rfl⟩ := h
      obtain ⟨e, he, heq, _⟩ := Registry.lookup_some hm
      have hne : ¬ n.equiv m := by
        intro c
        exact Registry.lookup_none hnone e he (Https.equiv_trans heq (Https.equiv_symm c))
      unfold Registry.lookup at hm ⊢
      simp only [List.find?_cons, hne, decide_false]
      exact hm
    · simp at h

theorem pairwise_name_eq {l : List (Https × Str)} (h : l.Pairwise (fun e f => e.2 ≠ f.2))
    {e f : Https × Str} (he : e ∈ l) (hf : f ∈ l) (h2 : e.2 = f.2) : e = f := by
  induction l with
  | nil => simp at he
  | cons a t ih =>
    simp only [List.pairwise_cons] at h
    simp only [List.mem_cons] at he hf
    rcases he with rfl | he <;> rcases hf with rfl | hf
    · rfl
    · exact absurd h2 (h.1 f hf)
    · exact absurd h2.symm (h.1 e he)
    · exact ih h.2 he hf

/-- In a registry satisfying the invariant, a name identifies a URI class. -/
theorem Registry.names_distinct {r : Registry} (hi : r.Inv) {m n : Https} {x : Str}
    (hm : r.lookup m = some x) (hn : r.lookup n = some x) : m.equiv n := by
  obtain ⟨e, he, heq, hex⟩ := Registry.lookup_some hm
  obtain ⟨f, hf, hfq, hfx⟩ := Registry.lookup_some hn
  have hef : e = f := pairwise_name_eq hi.distinct he hf (hex.trans hfx.symm)
  subst hef
  exact Https.equiv_trans (Https.equiv_symm heq) hfq

/-- No RRDP repository is given the rsync repository's directory name. -/
theorem Registry.name_ne_rsync {r r' : Registry} (hi : r.Inv) {n : Https} {x : Str}
    (hl : r.lookup n = none) (h : r.get n = some (x, r')) : x ≠ sRsync := by
  unfold Registry.get at h
  rw [hl] at h
  simp only at h
  split at h
  · rename_i name hf
    simp only [Option.some.injEq, Prod.mk.injEq] at h
    intro e
    exact freshName_not_mem hf (h.1 ▸ e ▸ hi.reserved)
  · simp at h

end RoutinatorModel.Paths
