import RoutinatorModel.Proofs.Binio
import RoutinatorModel.Model.Records
/-! Generic layout lemmas: round trip of any `layoutOk` layout (C28), allocation bounds (C27). -/
namespace RoutinatorModel.Codec

/-! ## C28: round trip of item lists -/

theorem encodeItems_skip (P : Params) (items : List Item) (n : String) (v : Val) (r : Record)
    (h : n ∉ Item.names items) :
    encodeItems P items ((n, v) :: r) = encodeItems P items r := by
  induction items with
  | nil => rfl
  | cons it rest ih =>
    cases it with
    | const c =>
      simp only [Item.names] at h
      simp only [encodeItems, ih h]
    | field n' ty =>
      simp only [Item.names, List.mem_cons, not_or] at h
      have hne : (n' == n) = false := beq_eq_false_iff_ne.mpr (fun hc => h.1 (Eq.symm hc))
      simp only [encodeItems, List.lookup_cons, hne, ih h.2]

theorem items_roundtrip (P : Params) (hP : paramsOk P = true) (items : List Item)
    (hnd : (Item.names items).Nodup) (hc : constsOk items = true) (r : Record)
    (hwf : wfItems P items r = true) :
    ∃ bs, encodeItems P items r = some bs ∧
      ∀ rest, (decodeItems P items (bs ++ rest)).res = .ok (r, rest) := by
  induction items generalizing r with
  | nil =>
    cases r with
    | nil => exact ⟨[], rfl, fun rest => rfl⟩
    | cons e r => simp [wfItems] at hwf
  | cons it items ih =>
    cases it with
    | const c =>
      simp only [constsOk, Bool.and_eq_true, decide_eq_true_eq] at hc
      simp only [Item.names] at hnd
      have hwf' : wfItems P items r = true := by
        cases r <;> simpa [wfItems] using hwf
      obtain ⟨bs, hbs, hdec⟩ := ih hnd hc.2 r hwf'
      refine ⟨UInt8.ofNat c :: bs, by simp [encodeItems, encTag, hc.1, hbs], fun rest => ?_⟩
      simp only [decodeItems, List.cons_append]
      rw [bind_res_ok (tag_roundtrip hc.1 _)]
      simp only [↓reduceIte]
      exact hdec rest
    | field n ty =>
      cases r with
      | nil => simp [wfItems] at hwf
      | cons e r =>
        obtain ⟨n', v⟩ := e
        simp only [wfItems, Bool.and_eq_true, beq_iff_eq] at hwf
        obtain ⟨⟨rfl, hv⟩, hrest⟩ := hwf
        simp only [constsOk] at hc
        simp only [Item.names, List.nodup_cons] at hnd
        obtain ⟨bs, hbs, hdec⟩ := ih hnd.2 hc r hrest
        obtain ⟨fb, hfb, hfdec⟩ := field_roundtrip P hP ty v hv
        refine ⟨fb ++ bs, ?_, fun rest => ?_⟩
        · simp [encodeItems, List.lookup_cons, hfb, encodeItems_skip P items n v r hnd.1, hbs]
        · simp only [decodeItems]
          rw [List.append_assoc, bind_res_ok (hfdec _), bind_res_ok (hdec rest)]
          rfl

theorem record_roundtrip (P : Params) (hP : paramsOk P = true) (L : RecLayout)
    (hL : layoutOk L = true) (r : Record) (hwf : wfRec P L r = true) :
    ∃ bs, encodeRec P L r = some bs ∧
      ∀ rest, (decodeRec P L (bs ++ rest)).res = .ok (r, rest) := by
  simp only [layoutOk, Bool.and_eq_true, beq_iff_eq, decide_eq_true_eq] at hL
  obtain ⟨⟨hwr, hnd⟩, hc⟩ := hL
  unfold encodeRec decodeRec
  rw [hwr]
  exact items_roundtrip P hP L.read hnd hc r hwf

/-! ## Every field decoder needs at least one octet -/

theorem readExact_nil_eof {n : Nat} (h : 0 < n) : (readExact n []).res = .error .eof := by
  unfold readExact
  simp only [List.length_nil]
  rw [if_neg (by omega)]

theorem readBE_nil_eof {k : Nat} (h : 0 < k) : (readBE k []).res = .error .eof := by
  unfold readBE
  rw [bind_res_err (readExact_nil_eof h)]

theorem readI64_nil_eof : (readI64 []).res = .error .eof := by
  unfold readI64
  rw [bind_res_err (readBE_nil_eof (by decide))]

theorem dec_nil_eof (P : Params) (ty : FT) : (dec P ty []).res = .error .eof := by
  cases ty <;> simp only [dec, decTime]
  all_goals first
    | exact bind_res_err (readBE_nil_eof (by decide))
    | exact bind_res_err readI64_nil_eof
    | exact bind_res_err (readExact_nil_eof (by decide))
    | exact bind_res_err (bind_res_err readI64_nil_eof)

/-! ## Objects until EOF -/

theorem decodeObjOpt_nil (P : Params) (L : RecLayout) (n : String) (ty : FT) (rest : List Item)
    (h : L.read = .field n ty :: rest) :
    (decodeObjOpt P L []).res = .ok (none, []) := by
  unfold decodeObjOpt
  rw [h]
  simp only [dec_nil_eof]

theorem decodeObjOpt_roundtrip (P : Params) (hP : paramsOk P = true) (L : RecLayout)
    (hL : layoutOk L = true) (n : String) (ty : FT) (items : List Item)
    (hfirst : L.read = .field n ty :: items) (r : Record) (hwf : wfRec P L r = true) :
    ∃ bs, encodeRec P L r = some bs ∧ bs ≠ [] ∧
      ∀ rest, (decodeObjOpt P L (bs ++ rest)).res = .ok (some r, rest) := by
  obtain ⟨bs, hbs, hdec⟩ := record_roundtrip P hP L hL r hwf
  refine ⟨bs, hbs, ?_, fun rest => ?_⟩
  · intro hnil
    subst hnil
    have h1 := hdec []
    unfold decodeRec at h1
    rw [hfirst] at h1
    simp only [decodeItems, List.append_nil] at h1
    rw [bind_res_err (dec_nil_eof P ty)] at h1
    cases h1
  · have h1 := hdec rest
    unfold decodeRec at h1
    rw [hfirst] at h1
    simp only [decodeItems] at h1
    rw [bind_res] at h1
    unfold decodeObjOpt
    rw [hfirst]
    simp only
    cases hf : (dec P ty (bs ++ rest)).res with
    | error e => rw [hf] at h1; cases h1
    | ok p =>
      obtain ⟨v, s'⟩ := p
      rw [hf] at h1
      simp only at h1
      rw [bind_res] at h1
      simp only
      cases hm : (decodeItems P items s').res with
      | error e => rw [hm] at h1; cases h1
      | ok q =>
        obtain ⟨r', s''⟩ := q
        rw [hm] at h1
        simp only [pure_res, Except.ok.injEq, Prod.mk.injEq] at h1
        obtain ⟨rfl, rfl⟩ := h1
        rfl

theorem objects_roundtrip (P : Params) (hP : paramsOk P = true) (L : RecLayout)
    (hL : layoutOk L = true) (n : String) (ty : FT) (items : List Item)
    (hfirst : L.read = .field n ty :: items) (objs : List Record)
    (hwf : ∀ r ∈ objs, wfRec P L r = true) :
    ∃ bs, encodeObjects P L objs = some bs ∧
      ∀ fuel, objs.length < fuel → (decodeObjects P L fuel bs).res = .ok (objs, []) := by
  induction objs with
  | nil =>
    refine ⟨[], rfl, fun fuel hf => ?_⟩
    cases fuel with
    | zero => omega
    | succ fuel =>
      simp only [decodeObjects]
      rw [decodeObjOpt_nil P L n ty items hfirst]
  | cons r objs ih =>
    obtain ⟨bs, hbs, hdec⟩ := ih (fun r' hr' => hwf r' (List.mem_cons_of_mem _ hr'))
    obtain ⟨b1, hb1, _, hd1⟩ := decodeObjOpt_roundtrip P hP L hL n ty items hfirst r
      (hwf r List.mem_cons_self)
    refine ⟨b1 ++ bs, by simp [encodeObjects, hb1, hbs], fun fuel hf => ?_⟩
    cases fuel with
    | zero => simp at hf
    | succ fuel =>
      simp only [decodeObjects]
      rw [hd1 bs]
      simp only
      rw [hdec fuel (by simpa using hf)]

/-! ## C27: shrinking and allocation-bounded decoders -/

/-- A decoder never returns more input than it was given, and every allocation request it makes
on input `s` is at most `2 * |s| + c`. -/
structure Good {α : Type} (c : Nat) (m : Dec α) : Prop where
  shrink : ∀ s a s', (m s).res = .ok (a, s') → s'.length ≤ s.length
  bound : ∀ s, ∀ x ∈ (m s).allocs, x ≤ 2 * s.length + c

theorem Good.pure {α : Type} (c : Nat) (a : α) : Good c (pure a : Dec α) := by
  refine ⟨fun s a' s' h => ?_, fun s x hx => ?_⟩
  · simp only [pure_res, Except.ok.injEq, Prod.mk.injEq] at h
    rw [h.2]; exact Nat.le_refl _
  · simp at hx

theorem Good.fail {α : Type} (c : Nat) (e : DErr) : Good c (fail e : Dec α) := by
  refine ⟨fun s a' s' h => ?_, fun s x hx => ?_⟩
  · simp at h
  · simp at hx

theorem Good.bind {α β : Type} {c : Nat} {m : Dec α} {f : α → Dec β}
    (hm : Good c m) (hf : ∀ a, Good c (f a)) : Good c (m >>= f) := by
  refine ⟨fun s b s'' h => ?_, fun s x hx => ?_⟩
  · rw [bind_res] at h
    cases h1 : (m s).res with
    | error e => rw [h1] at h; cases h
    | ok p =>
      obtain ⟨a, s'⟩ := p
      rw [h1] at h
      exact Nat.le_trans ((hf a).shrink s' b s'' h) (hm.shrink s a s' h1)
  · rw [bind_allocs, List.mem_append] at hx
    rcases hx with hx | hx
    · exact hm.bound s x hx
    · cases h1 : (m s).res with
      | error e => rw [h1] at hx; simp at hx
      | ok p =>
        obtain ⟨a, s'⟩ := p
        rw [h1] at hx
        have := (hf a).bound s' x hx
        have hl := hm.shrink s a s' h1
        omega

theorem Good.ite {α : Type} {c : Nat} {p : Prop} [Decidable p] {m1 m2 : Dec α}
    (h1 : Good c m1) (h2 : Good c m2) : Good c (if p then m1 else m2) := by
  split <;> assumption

theorem Good.readExact (c n : Nat) : Good c (readExact n) := by
  refine ⟨fun s a s' h => (readExact_ok_length h).1, fun s x hx => ?_⟩
  rw [readExact_allocs] at hx; simp at hx

theorem Good.alloc {c n : Nat} (h : n ≤ c) : Good c (alloc n) := by
  refine ⟨fun s a s' h' => ?_, fun s x hx => ?_⟩
  · simp only [alloc_res, Except.ok.injEq, Prod.mk.injEq] at h'
    rw [h'.2]; exact Nat.le_refl _
  · simp only [alloc_allocs, List.mem_singleton] at hx
    omega

theorem Good.readVec {c : Nat} (hc : 32 ≤ c) (P : Params) (hP : P.readChecked = true) (n : Nat) :
    Good c (readVec P n) := by
  refine ⟨fun s a s' h => (readExact_ok_length (by rwa [readVec_res] at h)).1, fun s x hx => ?_⟩
  simp only [Codec.readVec, hP, ↓reduceIte, List.mem_singleton] at hx
  have : min n s.length ≤ s.length := Nat.min_le_right _ _
  omega

theorem Good.readBE (c k : Nat) : Good c (readBE k) := by
  unfold Codec.readBE
  exact Good.bind (Good.readExact c k) (fun a => Good.pure c _)

theorem Good.readI64 (c : Nat) : Good c readI64 := by
  unfold Codec.readI64
  exact Good.bind (Good.readBE c 8) (fun a => Good.pure c _)

theorem Good.decTime (c : Nat) : Good c decTime := by
  unfold Codec.decTime
  exact Good.bind (Good.readI64 c) (fun a => Good.ite (Good.pure c _) (Good.fail c _))

theorem Good.decUri {c : Nat} (hc : 32 ≤ c) (P : Params) (hP : P.readChecked = true)
    (valid : Bytes → Bool) (n : Nat) : Good c (decUri P valid n) := by
  unfold Codec.decUri
  exact Good.bind (Good.readVec hc P hP n) (fun a => Good.ite (Good.pure c _) (Good.fail c _))

theorem Good.decMapLoop (c n : Nat) (acc : List (Nat × Bytes)) : Good c (decMapLoop n acc) := by
  induction n generalizing acc with
  | zero => exact Good.pure c _
  | succ n ih =>
    simp only [Codec.decMapLoop]
    exact Good.bind (Good.readBE c 8) (fun k => Good.bind (Good.readExact c 32)
      (fun h => Good.ite (Good.fail c _) (ih _)))

/-! ### The pre-allocation of the map decoder -/

theorem nextPow2Aux_le (fuel p n : Nat) : nextPow2Aux fuel p n ≤ max p (2 * n) := by
  induction fuel generalizing p with
  | zero => simp only [nextPow2Aux]; exact Nat.le_max_left _ _
  | succ fuel ih =>
    simp only [nextPow2Aux]
    split
    · exact Nat.le_max_left _ _
    · have := ih (2 * p)
      omega

theorem hmBuckets_le (cap : Nat) : hmBuckets cap ≤ 3 * cap + 8 := by
  unfold hmBuckets nextPow2
  split
  · omega
  · split
    · omega
    · have := nextPow2Aux_le 64 1 (cap * 8 / 7)
      omega

theorem hmBytes_le (cap : Nat) : hmBytes cap ≤ 123 * cap + 359 := by
  unfold hmBytes
  split
  · omega
  · have := hmBuckets_le cap
    simp only
    omega

/-- The additive constant of the allocation bound. -/
def allocConst (P : Params) : Nat := 123 * P.mapCap + 359

theorem mapPrealloc_le (P : Params) (hP : P.mapCapMin = true) (len : Nat) :
    mapPrealloc P len ≤ allocConst P := by
  unfold mapPrealloc allocConst
  rw [hP]
  simp only [↓reduceIte]
  have h1 := hmBytes_le (min len P.mapCap)
  have h2 : min len P.mapCap ≤ P.mapCap := Nat.min_le_right _ _
  omega

theorem allocConst_ge (P : Params) : 32 ≤ allocConst P := by unfold allocConst; omega

theorem allocOk_iff (P : Params) : allocOk P = true ↔ P.readChecked = true ∧ P.mapCapMin = true := by
  simp [allocOk]

theorem Good.dec (P : Params) (hA : allocOk P = true) (ty : FT) : Good (allocConst P) (dec P ty) := by
  obtain ⟨hR, hM⟩ := (allocOk_iff P).mp hA
  have hc := allocConst_ge P
  cases ty <;> simp only [Codec.dec]
  case u8 => exact Good.bind (Good.readBE _ 1) (fun a => Good.pure _ _)
  case u32 => exact Good.bind (Good.readBE _ 4) (fun a => Good.pure _ _)
  case u64 => exact Good.bind (Good.readBE _ 8) (fun a => Good.pure _ _)
  case i64 => exact Good.bind (Good.readI64 _) (fun a => Good.pure _ _)
  case optI64 =>
    exact Good.bind (Good.readBE _ 1) (fun a => Good.ite (Good.pure _ _)
      (Good.ite (Good.bind (Good.readI64 _) (fun a => Good.pure _ _)) (Good.fail _ _)))
  case rsync =>
    exact Good.bind (Good.readBE _ 4) (fun a => Good.bind (Good.decUri hc P hR _ a) (fun a => Good.pure _ _))
  case https =>
    exact Good.bind (Good.readBE _ 4) (fun a => Good.bind (Good.decUri hc P hR _ a) (fun a => Good.pure _ _))
  case optHttps =>
    exact Good.bind (Good.readBE _ 4) (fun a => Good.ite (Good.pure _ _)
      (Good.bind (Good.decUri hc P hR _ a) (fun a => Good.pure _ _)))
  case bytes =>
    exact Good.bind (Good.readBE _ 8) (fun a => Good.bind (Good.readVec hc P hR a) (fun a => Good.pure _ _))
  case optBytes =>
    exact Good.bind (Good.readBE _ 8) (fun a => Good.ite (Good.pure _ _)
      (Good.bind (Good.readVec hc P hR a) (fun a => Good.pure _ _)))
  case uuid => exact Good.bind (Good.readExact _ 16) (fun a => Good.pure _ _)
  case hash => exact Good.bind (Good.readExact _ 32) (fun a => Good.pure _ _)
  case serial =>
    exact Good.bind (Good.readExact _ 20) (fun a => Good.ite (Good.pure _ _) (Good.fail _ _))
  case time => exact Good.bind (Good.decTime _) (fun a => Good.pure _ _)
  case optTime =>
    exact Good.bind (Good.readI64 _) (fun a => Good.ite (Good.pure _ _)
      (Good.ite (Good.pure _ _) (Good.fail _ _)))
  case mapU64Hash =>
    exact Good.bind (Good.readBE _ 8) (fun len => Good.bind (Good.alloc (mapPrealloc_le P hM len))
      (fun _ => Good.bind (Good.decMapLoop _ _ []) (fun a => Good.pure _ _)))
  case updStatus =>
    exact Good.bind (Good.readBE _ 1) (fun a => Good.ite
      (Good.bind (Good.decTime _) (fun a => Good.pure _ _))
      (Good.ite (Good.bind (Good.decTime _) (fun a => Good.pure _ _)) (Good.fail _ _)))
  case optMftHash =>
    exact Good.bind (Good.readBE _ 1) (fun a => Good.ite (Good.pure _ _)
      (Good.ite (Good.bind (Good.alloc hc) (fun _ =>
        Good.bind (Good.readExact _ 32) (fun a => Good.pure _ _))) (Good.fail _ _)))

theorem Good.decodeItems (P : Params) (hA : allocOk P = true) (items : List Item) :
    Good (allocConst P) (decodeItems P items) := by
  induction items with
  | nil => exact Good.pure _ _
  | cons it items ih =>
    cases it with
    | const v =>
      simp only [Codec.decodeItems]
      exact Good.bind (Good.readBE _ 1) (fun b => Good.ite ih (Good.fail _ _))
    | field n ty =>
      simp only [Codec.decodeItems]
      exact Good.bind (Good.dec P hA ty) (fun v => Good.bind ih (fun r => Good.pure _ _))

theorem Good.decodeObjOpt (P : Params) (hA : allocOk P = true) (L : RecLayout) :
    Good (allocConst P) (decodeObjOpt P L) := by
  refine ⟨fun s a s'' h => ?_, fun s x hx => ?_⟩
  · unfold Codec.decodeObjOpt at h
    split at h
    · rename_i n ty rest _
      simp only at h
      cases hf : (Codec.dec P ty s).res with
      | error e =>
        rw [hf] at h
        cases e <;> simp at h
        rw [h.2]; simp
      | ok p =>
        obtain ⟨v, s'⟩ := p
        rw [hf] at h
        simp only at h
        cases hm : (Codec.decodeItems P rest s').res with
        | error e => rw [hm] at h; cases h
        | ok q =>
          obtain ⟨r, s3⟩ := q
          rw [hm] at h
          simp only [Except.ok.injEq, Prod.mk.injEq] at h
          rw [← h.2]
          exact Nat.le_trans ((Good.decodeItems P hA rest).shrink s' r s3 hm)
            ((Good.dec P hA ty).shrink s v s' hf)
    · cases h
  · unfold Codec.decodeObjOpt at hx
    split at hx
    · rename_i n ty rest _
      simp only at hx
      cases hf : (Codec.dec P ty s).res with
      | error e =>
        rw [hf] at hx
        cases e <;> exact (Good.dec P hA ty).bound s x (by simpa using hx)
      | ok p =>
        obtain ⟨v, s'⟩ := p
        rw [hf] at hx
        simp only at hx
        have hx' : x ∈ (Codec.dec P ty s).allocs ++ (Codec.decodeItems P rest s').allocs := by
          cases hm : (Codec.decodeItems P rest s').res with
          | error e => rw [hm] at hx; exact hx
          | ok q => rw [hm] at hx; exact hx
        rw [List.mem_append] at hx'
        rcases hx' with hx' | hx'
        · exact (Good.dec P hA ty).bound s x hx'
        · have := (Good.decodeItems P hA rest).bound s' x hx'
          have hl := (Good.dec P hA ty).shrink s v s' hf
          omega
    · simp at hx

theorem Good.decodeObjects (P : Params) (hA : allocOk P = true) (L : RecLayout) (fuel : Nat) :
    Good (allocConst P) (decodeObjects P L fuel) := by
  induction fuel with
  | zero => exact Good.pure _ _
  | succ fuel ih =>
    have h1 := Good.decodeObjOpt P hA L
    refine ⟨fun s a s'' h => ?_, fun s x hx => ?_⟩
    · simp only [Codec.decodeObjects] at h
      cases ho : (Codec.decodeObjOpt P L s).res with
      | error e => rw [ho] at h; cases h
      | ok p =>
        obtain ⟨o, s'⟩ := p
        rw [ho] at h
        have hl := h1.shrink s o s' ho
        cases o with
        | none =>
          simp only [Except.ok.injEq, Prod.mk.injEq] at h
          rw [← h.2]; exact hl
        | some r =>
          simp only at h
          cases hm : (Codec.decodeObjects P L fuel s').res with
          | error e => rw [hm] at h; cases h
          | ok q =>
            obtain ⟨rs, s3⟩ := q
            rw [hm] at h
            simp only [Except.ok.injEq, Prod.mk.injEq] at h
            rw [← h.2]
            exact Nat.le_trans (ih.shrink s' rs s3 hm) hl
    · simp only [Codec.decodeObjects] at hx
      cases ho : (Codec.decodeObjOpt P L s).res with
      | error e => rw [ho] at hx; exact h1.bound s x hx
      | ok p =>
        obtain ⟨o, s'⟩ := p
        rw [ho] at hx
        have hl := h1.shrink s o s' ho
        cases o with
        | none => exact h1.bound s x hx
        | some r =>
          simp only at hx
          have hx' : x ∈ (Codec.decodeObjOpt P L s).allocs ++ (Codec.decodeObjects P L fuel s').allocs := by
            cases hm : (Codec.decodeObjects P L fuel s').res with
            | error e => rw [hm] at hx; exact hx
            | ok q => rw [hm] at hx; exact hx
          rw [List.mem_append] at hx'
          rcases hx' with hx' | hx'
          · exact h1.bound s x hx'
          · have := ih.bound s' x hx'
            omega

end RoutinatorModel.Codec
