import RoutinatorModel.Proofs.SnapshotSpec
/-! Characterisation of the ASPA lane and the extensionality (order independence) lemmas. -/
namespace RoutinatorModel

theorem nodup_of_keys_nodup {m : List (Nat × List Nat)} (h : (m.map Prod.fst).Nodup) : m.Nodup := by
  induction m with
  | nil => simp
  | cons e m ih =>
    simp only [List.map_cons, List.nodup_cons] at h ⊢
    exact ⟨fun he => h.1 (List.mem_map.2 ⟨e, he, rfl⟩), ih h.2⟩

theorem injOn_fst_of_keys_nodup {m : List (Nat × List Nat)} (h : (m.map Prod.fst).Nodup) :
    InjOn (fun x : Nat × List Nat => x.1) m := by
  intro a ha b hb e
  obtain ⟨c, p⟩ := a
  obtain ⟨c', q⟩ := b
  simp only at e
  subst e
  rw [value_unique h ha hb]

/-- What an entry of the ASPA map means. -/
def AspaEntry (L : List PubAspa) (c : Nat) (ps : List Nat) : Prop :=
  (∃ a ∈ L, a.customer = c) ∧ Ascending ps ∧
    ∀ x, x ∈ ps ↔ ∃ a ∈ L, a.customer = c ∧ x ∈ a.providers

theorem mem_of_aspaInv {m : List (Nat × List Nat)} {L : List PubAspa} (h : AspaInv m L)
    (c : Nat) (ps : List Nat) : (c, ps) ∈ m ↔ AspaEntry L c ps := by
  constructor
  · intro hm
    obtain ⟨h1, h2⟩ := h.vals c ps hm
    exact ⟨(h.keys c).1 (List.mem_map.2 ⟨_, hm, rfl⟩), h1, h2⟩
  · rintro ⟨hc, hasc, hmem⟩
    obtain ⟨⟨c', ps'⟩, hm, rfl⟩ := List.mem_map.1 ((h.keys c).2 hc)
    obtain ⟨h1, h2⟩ := h.vals _ _ hm
    have : ps' = ps := ascending_ext _ _ h1 hasc (fun x => by rw [h2 x, hmem x])
    subst this
    exact hm

theorem mem_aspaLane (s : Settings) (points : List RawPoint)
    (hasc : ∀ a ∈ validatedAspas s points, Ascending a.providers) (c : Nat) (ps : List Nat) :
    (c, ps) ∈ aspaLane s points ↔ AspaEntry (validatedAspas s points) c ps :=
  mem_of_aspaInv (aspaInv_run _ hasc) c ps

theorem keys_nodup_aspaLane (s : Settings) (points : List RawPoint)
    (hasc : ∀ a ∈ validatedAspas s points, Ascending a.providers) :
    ((aspaLane s points).map Prod.fst).Nodup :=
  (aspaInv_run _ hasc).keys_nodup

/-- The final ASPA list of `into_snapshot`. -/
def aspaFinal (s : Settings) (points : List RawPoint) : List (Nat × List Nat) :=
  sortBy (fun x => x.1) ((aspaLane s points).filter (fun x => decide (x.2.length ≤ maxProviders)))

theorem mem_aspaFinal (s : Settings) (points : List RawPoint)
    (hasc : ∀ a ∈ validatedAspas s points, Ascending a.providers) (c : Nat) (ps : List Nat) :
    (c, ps) ∈ aspaFinal s points ↔
      AspaEntry (validatedAspas s points) c ps ∧ ps.length ≤ maxProviders := by
  unfold aspaFinal
  rw [mem_sortBy, List.mem_filter, mem_aspaLane s points hasc]
  simp

theorem keys_nodup_filter {m : List (Nat × List Nat)} (p : Nat × List Nat → Bool)
    (h : (m.map Prod.fst).Nodup) : ((m.filter p).map Prod.fst).Nodup :=
  List.Nodup.sublist (List.Sublist.map _ List.filter_sublist) h

theorem aspaFinal_sorted (s : Settings) (points : List RawPoint)
    (hasc : ∀ a ∈ validatedAspas s points, Ascending a.providers) :
    (aspaFinal s points).Pairwise (fun a b => a.1 < b.1) := by
  unfold aspaFinal
  have hk := keys_nodup_filter (fun x => decide (x.2.length ≤ maxProviders))
    (keys_nodup_aspaLane s points hasc)
  exact strict_sortBy _ _ (nodup_of_keys_nodup hk) (injOn_fst_of_keys_nodup hk)

theorem aspaFinal_congr (s : Settings) (points points' : List RawPoint)
    (hasc : ∀ a ∈ validatedAspas s points, Ascending a.providers)
    (hasc' : ∀ a ∈ validatedAspas s points', Ascending a.providers)
    (h : ∀ c ps, AspaEntry (validatedAspas s points) c ps ↔ AspaEntry (validatedAspas s points') c ps) :
    aspaFinal s points = aspaFinal s points' := by
  apply eq_of_strict_of_mem_iff (fun x : Nat × List Nat => x.1) _ _
    (aspaFinal_sorted s points hasc) (aspaFinal_sorted s points' hasc')
  rintro ⟨c, ps⟩
  rw [mem_aspaFinal s points hasc, mem_aspaFinal s points' hasc', h]

/-- `AspaEntry` only depends on which customers occur and on the provider sets. -/
theorem aspaEntry_congr (L L' : List PubAspa)
    (hc : ∀ c, (∃ a ∈ L, a.customer = c) ↔ (∃ a ∈ L', a.customer = c))
    (hp : ∀ c x, (∃ a ∈ L, a.customer = c ∧ x ∈ a.providers)
      ↔ (∃ a ∈ L', a.customer = c ∧ x ∈ a.providers))
    (c : Nat) (ps : List Nat) : AspaEntry L c ps ↔ AspaEntry L' c ps := by
  unfold AspaEntry
  rw [hc c]
  constructor
  · rintro ⟨h1, h2, h3⟩; exact ⟨h1, h2, fun x => by rw [h3 x, hp c x]⟩
  · rintro ⟨h1, h2, h3⟩; exact ⟨h1, h2, fun x => by rw [h3 x, hp c x]⟩

end RoutinatorModel
