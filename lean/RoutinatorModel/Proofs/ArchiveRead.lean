import RoutinatorModel.Model.ArchiveRead
/-! Lemmas about reading corrupt archives (C27): no panic, no endless walk, bounded steps. -/
namespace RoutinatorModel.Codec

/-- The error classes the repaired reader can report. -/
def SafeErr (e : AErr) : Prop := e = .io ∨ e = .corrupt

def Safe {α : Type} (r : AResult α) : Prop := ∀ e, r = .error e → SafeErr e

theorem Safe.ok {α : Type} (a : α) : Safe (.ok a : AResult α) := by
  intro e h; cases h

theorem Safe.io {α : Type} : Safe (.error .io : AResult α) := by
  intro e h; cases h; exact Or.inl rfl

theorem Safe.corrupt {α : Type} : Safe (.error .corrupt : AResult α) := by
  intro e h; cases h; exact Or.inr rfl

theorem Safe.of_err {α β : Type} {r : AResult α} {e : AErr} (hs : Safe r) (h : r = .error e) :
    Safe (.error e : AResult β) := by
  intro e' h'; cases h'; exact hs e h

theorem readAt_safe (f : ByteArray) (p l : Nat) : Safe (readAt f p l) := by
  unfold readAt; split
  · exact Safe.ok _
  · exact Safe.io

theorem readU64_safe (f : ByteArray) (p : Nat) : Safe (readU64 f p) := by
  unfold readU64
  cases h : readAt f p 8 with
  | error e => exact Safe.of_err (readAt_safe f p 8) h
  | ok v => exact Safe.ok _

theorem parseBool_safe (l : List UInt8) : Safe (parseBool l) := by
  unfold parseBool
  split
  · exact Safe.ok _
  · exact Safe.ok _
  · exact Safe.corrupt

theorem readHeader_safe (f : ByteArray) (p : Nat) : Safe (readHeader f p) := by
  unfold readHeader
  split
  · exact Safe.io
  · cases h1 : readU64 f p with
    | error e => exact Safe.of_err (readU64_safe f p) h1
    | ok size =>
      simp only
      cases h2 : readU64 f (p + 8) with
      | error e => exact Safe.of_err (readU64_safe f _) h2
      | ok next =>
        simp only
        cases h3 : readAt f (p + 16) 1 with
        | error e => exact Safe.of_err (readAt_safe f _ _) h3
        | ok flag =>
          simp only
          cases h4 : parseBool flag with
          | error e => exact Safe.of_err (parseBool_safe flag) h4
          | ok b =>
            simp only
            cases h5 : readU64 f (p + 17) with
            | error e => exact Safe.of_err (readU64_safe f _) h5
            | ok nl =>
              simp only
              cases h6 : readU64 f (p + 25) with
              | error e => exact Safe.of_err (readU64_safe f _) h6
              | ok dl => exact Safe.ok _

theorem readHeaderName_safe (f : ByteArray) (p : Nat) : Safe (readHeaderName f p) := by
  unfold readHeaderName
  cases h1 : readHeader f p with
  | error e => exact Safe.of_err (readHeader_safe f p) h1
  | ok h =>
    simp only
    cases h2 : readAt f (p + headerSize) h.nameLen with
    | error e => exact Safe.of_err (readAt_safe f _ _) h2
    | ok n => exact Safe.ok _

/-! ## What a successful, validated `open` guarantees -/

structure IndexOk (a : Opened) : Prop where
  pos : 0 < a.bucketCount
  small : indexStart + (a.bucketCount + 1) * 8 < 2 ^ 64
  fits : indexStart + (a.bucketCount + 1) * 8 ≤ a.size

theorem openArchive_indexOk {A : ArchiveParams} {file : ByteArray} {a : Opened}
    (hA : A.checkIndex = true) (h : openArchive A file = .ok a) : IndexOk a ∧ a.file = file := by
  unfold openArchive at h
  cases h1 : readAt file 0 magicSize with
  | error e => rw [h1] at h; cases h
  | ok magic =>
    rw [h1] at h
    simp only at h
    split at h
    · cases h
    · cases h2 : readAt file magicSize 16 with
      | error e => rw [h2] at h; cases h
      | ok key =>
        rw [h2] at h
        simp only at h
        cases h3 : readU64 file (magicSize + 16) with
        | error e => rw [h3] at h; cases h
        | ok bc =>
          rw [h3] at h
          simp only at h
          split at h
          · cases h
          · rename_i hc
            cases h
            simp only [hA, true_and, not_or, Nat.not_le, Nat.not_lt] at hc
            refine ⟨⟨by simp only; omega, by simp only; omega, ?_⟩, rfl⟩
            simp only [Opened.size]; omega

theorem openArchive_safe (A : ArchiveParams) (file : ByteArray) : Safe (openArchive A file) := by
  unfold openArchive
  cases h1 : readAt file 0 magicSize with
  | error e => exact Safe.of_err (readAt_safe _ _ _) h1
  | ok magic =>
    simp only
    split
    · exact Safe.corrupt
    · cases h2 : readAt file magicSize 16 with
      | error e => exact Safe.of_err (readAt_safe _ _ _) h2
      | ok key =>
        simp only
        cases h3 : readU64 file (magicSize + 16) with
        | error e => exact Safe.of_err (readU64_safe _ _) h3
        | ok bc =>
          simp only
          split
          · exact Safe.corrupt
          · exact Safe.ok _

theorem hashName_ok {a : Opened} (h : IndexOk a) (name : List UInt8) :
    ∃ k, hashName a name = .ok k ∧ k < a.bucketCount := by
  unfold hashName
  have hp := h.pos
  rw [if_neg (by omega)]
  exact ⟨_, rfl, Nat.mod_lt _ hp⟩

theorem getIndex_safe {a : Opened} (h : IndexOk a) {idx : Nat} (hi : idx ≤ a.bucketCount) :
    Safe (getIndex a idx) := by
  unfold getIndex indexPos
  have hs := h.small
  have hf := h.fits
  have : ¬ (idx * 8 ≥ 2 ^ 64 ∨ indexStart + idx * 8 ≥ 2 ^ 64) := by
    unfold indexStart magicSize metaSize at *
    omega
  rw [if_neg this]
  exact readU64_safe _ _

/-! ## `find` -/

theorem outOfFuel_safe {A : ArchiveParams} (hB : A.boundWalks = true) : SafeErr (outOfFuel A) := by
  unfold outOfFuel; rw [hB]; exact Or.inr rfl

theorem findLoop_steps (A : ArchiveParams) (a : Opened) (name : List UInt8) (fuel pos steps : Nat) :
    (findLoop A a name fuel pos steps).2 ≤ steps + fuel := by
  induction fuel generalizing pos steps with
  | zero =>
    cases pos <;> simp [findLoop]
  | succ fuel ih =>
    cases pos with
    | zero => simp [findLoop]
    | succ p =>
      simp only [findLoop]
      cases h1 : readHeaderName a.file (p + 1) with
      | error e => simp only; omega
      | ok hn =>
        obtain ⟨h, n⟩ := hn
        simp only
        split
        · simp only; omega
        · have := ih h.next (steps + 1)
          omega

theorem findLoop_safe (A : ArchiveParams) (hB : A.boundWalks = true) (a : Opened)
    (name : List UInt8) (fuel pos steps : Nat) :
    Safe (findLoop A a name fuel pos steps).1 := by
  induction fuel generalizing pos steps with
  | zero =>
    cases pos with
    | zero => simp only [findLoop]; exact Safe.ok _
    | succ p =>
      simp only [findLoop]
      intro e h; cases h; exact outOfFuel_safe hB
  | succ fuel ih =>
    cases pos with
    | zero => simp only [findLoop]; exact Safe.ok _
    | succ p =>
      simp only [findLoop]
      cases h1 : readHeaderName a.file (p + 1) with
      | error e => exact Safe.of_err (readHeaderName_safe _ _) h1
      | ok hn =>
        obtain ⟨h, n⟩ := hn
        simp only
        split
        · exact Safe.ok _
        · exact ih h.next (steps + 1)

theorem walkFuel_bound {A : ArchiveParams} (hB : A.boundWalks = true) (a : Opened) :
    walkFuel A a = a.size / headerSize + 1 := by
  unfold walkFuel; rw [hB]; rfl

theorem find_safe (A : ArchiveParams) (hB : A.boundWalks = true) (a : Opened) (hI : IndexOk a)
    (name : List UInt8) :
    Safe (find A a name).1 ∧ (find A a name).2 ≤ a.size / headerSize + 1 := by
  unfold find
  obtain ⟨k, hk, hlt⟩ := hashName_ok hI name
  rw [hk]
  simp only
  cases h1 : getIndex a k with
  | error e =>
    exact ⟨Safe.of_err (getIndex_safe hI (Nat.le_of_lt hlt)) h1, Nat.zero_le _⟩
  | ok start =>
    simp only
    refine ⟨findLoop_safe A hB a name _ _ _, ?_⟩
    have := findLoop_steps A a name (walkFuel A a) start 0
    rw [walkFuel_bound hB] at this ⊢
    omega

theorem fetch_safe (A : ArchiveParams) (hB : A.boundWalks = true) (a : Opened) (hI : IndexOk a)
    (name : List UInt8) : Safe (fetch A a name) := by
  unfold fetch
  have hf := (find_safe A hB a hI name).1
  cases h1 : (find A a name).1 with
  | error e => exact Safe.of_err hf h1
  | ok o =>
    cases o with
    | none => exact Safe.ok _
    | some ph =>
      obtain ⟨pos, h⟩ := ph
      simp only
      cases h2 : readAt a.file (pos + headerSize + metaLen + h.nameLen) h.dataLen with
      | error e => exact Safe.of_err (readAt_safe _ _ _) h2
      | ok d => exact Safe.ok _

theorem loadState_safe (A : ArchiveParams) (hB : A.boundWalks = true) (P : Params) (L : RecLayout)
    (a : Opened) (hI : IndexOk a) : Safe (loadState A P L a) := by
  unfold loadState
  have hf := fetch_safe A hB a hI stateName
  cases h1 : fetch A a stateName with
  | error e => exact Safe.of_err hf h1
  | ok o =>
    cases o with
    | none => exact Safe.corrupt
    | some d =>
      simp only
      cases (decodeRec P L d).res with
      | error e => exact Safe.corrupt
      | ok p => exact Safe.ok _

/-! ## `verify` -/

theorem verifyChain_inv (A : ArchiveParams) (hB : A.boundWalks = true) (a : Opened) (hI : IndexOk a)
    (idx remaining pos : Nat) (acc : List (Nat × Nat)) :
    Safe (verifyChain A a idx remaining pos acc) ∧
    ∀ acc' rem', verifyChain A a idx remaining pos acc = .ok (acc', rem') →
      acc'.length + rem' = acc.length + remaining := by
  induction remaining generalizing pos acc with
  | zero =>
    cases pos with
    | zero =>
      simp only [verifyChain]
      exact ⟨Safe.ok _, fun acc' rem' h => by cases h; rfl⟩
    | succ p =>
      simp only [verifyChain]
      exact ⟨fun e h => by cases h; exact outOfFuel_safe hB, fun _ _ h => by cases h⟩
  | succ remaining ih =>
    cases pos with
    | zero =>
      simp only [verifyChain]
      exact ⟨Safe.ok _, fun acc' rem' h => by cases h; rfl⟩
    | succ p =>
      simp only [verifyChain]
      cases h1 : readHeaderName a.file (p + 1) with
      | error e => exact ⟨Safe.of_err (readHeaderName_safe _ _) h1, fun _ _ h => by cases h⟩
      | ok hn =>
        obtain ⟨h, n⟩ := hn
        simp only
        obtain ⟨k, hk, _⟩ := hashName_ok hI n
        rw [hk]
        simp only
        split
        · exact ⟨Safe.corrupt, fun _ _ h => by cases h⟩
        · obtain ⟨s1, s2⟩ := ih h.next ((p + 1, h.size) :: acc)
          refine ⟨s1, fun acc' rem' hr => ?_⟩
          have := s2 acc' rem' hr
          simp only [List.length_cons] at this
          omega

theorem verifyBuckets_inv (A : ArchiveParams) (hB : A.boundWalks = true) (a : Opened) (hI : IndexOk a)
    (todo idx remaining : Nat) (acc : List (Nat × Nat)) (hidx : idx + todo ≤ a.bucketCount) :
    Safe (verifyBuckets A a todo idx remaining acc) ∧
    ∀ acc' rem', verifyBuckets A a todo idx remaining acc = .ok (acc', rem') →
      acc'.length + rem' = acc.length + remaining := by
  induction todo generalizing idx remaining acc with
  | zero =>
    simp only [verifyBuckets]
    exact ⟨Safe.ok _, fun acc' rem' h => by cases h; rfl⟩
  | succ todo ih =>
    simp only [verifyBuckets]
    cases h1 : getIndex a idx with
    | error e => exact ⟨Safe.of_err (getIndex_safe hI (by omega)) h1, fun _ _ h => by cases h⟩
    | ok start =>
      simp only
      obtain ⟨c1, c2⟩ := verifyChain_inv A hB a hI idx remaining start acc
      cases h2 : verifyChain A a idx remaining start acc with
      | error e => exact ⟨Safe.of_err c1 h2, fun _ _ h => by cases h⟩
      | ok p =>
        obtain ⟨acc1, rem1⟩ := p
        simp only
        have e1 := c2 acc1 rem1 h2
        obtain ⟨s1, s2⟩ := ih (idx + 1) rem1 acc1 (by omega)
        refine ⟨s1, fun acc' rem' hr => ?_⟩
        have := s2 acc' rem' hr
        omega

theorem verifyEmpties_inv (A : ArchiveParams) (hB : A.boundWalks = true) (a : Opened)
    (remaining pos : Nat) (acc : List (Nat × Nat)) :
    Safe (verifyEmpties A a remaining pos acc) ∧
    ∀ acc', verifyEmpties A a remaining pos acc = .ok acc' → acc'.length ≤ acc.length + remaining := by
  induction remaining generalizing pos acc with
  | zero =>
    cases pos with
    | zero =>
      simp only [verifyEmpties]
      exact ⟨Safe.ok _, fun acc' h => by cases h; omega⟩
    | succ p =>
      simp only [verifyEmpties]
      exact ⟨fun e h => by cases h; exact outOfFuel_safe hB, fun _ h => by cases h⟩
  | succ remaining ih =>
    cases pos with
    | zero =>
      simp only [verifyEmpties]
      exact ⟨Safe.ok _, fun acc' h => by cases h; omega⟩
    | succ p =>
      simp only [verifyEmpties]
      cases h1 : readHeader a.file (p + 1) with
      | error e => exact ⟨Safe.of_err (readHeader_safe _ _) h1, fun _ h => by cases h⟩
      | ok h =>
        simp only
        obtain ⟨s1, s2⟩ := ih h.next ((p + 1, h.size) :: acc)
        refine ⟨s1, fun acc' hr => ?_⟩
        have := s2 acc' hr
        simp only [List.length_cons] at this
        omega

theorem verify_safe (A : ArchiveParams) (hB : A.boundWalks = true) (a : Opened) (hI : IndexOk a) :
    Safe (verify A a) ∧
    ∀ n m, verify A a = .ok (n, m) → n + m ≤ a.size / headerSize + 1 := by
  unfold verify
  obtain ⟨b1, b2⟩ := verifyBuckets_inv A hB a hI a.bucketCount 0 (walkFuel A a) [] (by omega)
  cases h1 : verifyBuckets A a a.bucketCount 0 (walkFuel A a) [] with
  | error e => exact ⟨Safe.of_err b1 h1, fun _ _ h => by cases h⟩
  | ok p =>
    obtain ⟨objs, remaining⟩ := p
    simp only
    have e1 := b2 objs remaining h1
    cases h2 : getEmptyIndex a with
    | error e =>
      exact ⟨Safe.of_err (getIndex_safe hI (Nat.le_refl _)) h2, fun _ _ h => by cases h⟩
    | ok start =>
      simp only
      obtain ⟨v1, v2⟩ := verifyEmpties_inv A hB a remaining start objs
      cases h3 : verifyEmpties A a remaining start objs with
      | error e => exact ⟨Safe.of_err v1 h3, fun _ _ h => by cases h⟩
      | ok all =>
        simp only
        have e2 := v2 all h3
        rw [hB]
        simp only [Bool.not_true, Bool.false_and, Bool.false_eq_true, ↓reduceIte]
        split
        · refine ⟨Safe.ok _, fun n m h => ?_⟩
          cases h
          rw [walkFuel_bound hB] at e1
          simp only [List.length_nil] at e1
          omega
        · exact ⟨Safe.corrupt, fun _ _ h => by cases h⟩

/-! ## `objects()` -/

theorem objectsLoop_safe (A : ArchiveParams) (hB : A.boundWalks = true) (a : Opened) (hI : IndexOk a)
    (fuel remaining pos bucket n bytes : Nat) (hb : bucket ≤ a.bucketCount)
    (hfuel : remaining + (a.bucketCount - bucket) + 1 ≤ fuel) :
    Safe (objectsLoop A a fuel remaining pos bucket n bytes).1 ∧
    (objectsLoop A a fuel remaining pos bucket n bytes).2 ≤ n + remaining := by
  induction fuel generalizing remaining pos bucket n bytes with
  | zero => omega
  | succ fuel ih =>
    simp only [objectsLoop]
    split
    · -- an object at `pos`
      cases remaining with
      | zero =>
        simp only
        exact ⟨fun e h => by cases h; exact outOfFuel_safe hB, by omega⟩
      | succ remaining =>
        simp only
        cases h1 : readHeaderName a.file pos with
        | error e => exact ⟨Safe.of_err (readHeaderName_safe _ _) h1, by simp only; omega⟩
        | ok hn =>
          obtain ⟨h, name⟩ := hn
          simp only
          cases h2 : readAt a.file (pos + headerSize + h.nameLen) metaLen with
          | error e => exact ⟨Safe.of_err (readAt_safe _ _ _) h2, by simp only; omega⟩
          | ok _ =>
            simp only
            cases h3 : readAt a.file (pos + headerSize + h.nameLen + metaLen) h.dataLen with
            | error e => exact ⟨Safe.of_err (readAt_safe _ _ _) h3, by simp only; omega⟩
            | ok _ =>
              simp only
              split
              · obtain ⟨s1, s2⟩ := ih remaining h.next bucket (n + 1) (bytes + h.dataLen) hb (by omega)
                exact ⟨s1, by omega⟩
              · obtain ⟨s1, s2⟩ := ih remaining h.next bucket n bytes hb (by omega)
                exact ⟨s1, by omega⟩
    · split
      · rename_i hlt
        cases h1 : getIndex a bucket with
        | error e => exact ⟨Safe.of_err (getIndex_safe hI hb) h1, by simp only; omega⟩
        | ok start =>
          simp only
          exact ih remaining start (bucket + 1) n bytes (by omega) (by omega)
      · exact ⟨Safe.ok _, by simp only; omega⟩

theorem objects_safe (A : ArchiveParams) (hB : A.boundWalks = true) (a : Opened) (hI : IndexOk a) :
    Safe (objects A a).1 ∧ (objects A a).2 ≤ a.size / headerSize + 1 := by
  unfold objects
  cases h1 : getIndex a 0 with
  | error e => exact ⟨Safe.of_err (getIndex_safe hI (Nat.zero_le _)) h1, Nat.zero_le _⟩
  | ok start =>
    simp only
    have hbc : a.bucketCount ≤ a.size + 1 := by
      have := hI.fits
      unfold indexStart magicSize metaSize at this
      omega
    have hmin : a.bucketCount.min (a.size + 1) = a.bucketCount := Nat.min_eq_left hbc
    rw [hmin]
    obtain ⟨s1, s2⟩ := objectsLoop_safe A hB a hI (walkFuel A a + a.bucketCount + 2) (walkFuel A a)
      start 1 0 0 hI.pos (by omega)
    refine ⟨s1, ?_⟩
    rw [walkFuel_bound hB] at s2 ⊢
    omega

end RoutinatorModel.Codec
