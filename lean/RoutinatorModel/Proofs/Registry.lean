import RoutinatorModel.Model.Registry
/-!
# C36 — list lemmas and the inductive invariant of the metrics registry
-/
namespace RoutinatorModel.Registry

/-- Strictly increasing addresses. -/
def SortedKeys (l : List (Addr × Entry)) : Prop := (l.map Prod.fst).Pairwise (· < ·)

theorem mem_ins {a : Addr} {e : Entry} {l : List (Addr × Entry)} {x : Addr × Entry} :
    x ∈ ins a e l ↔ x = (a, e) ∨ x ∈ l := by
  induction l with
  | nil => simp [ins]
  | cons hd tl ih =>
    obtain ⟨b, f⟩ := hd
    simp only [ins]
    split
    · simp only [List.mem_cons, ih]; grind
    · simp only [List.mem_cons]

theorem sorted_ins {a : Addr} {e : Entry} {l : List (Addr × Entry)} (hs : SortedKeys l)
    (ha : ∀ x ∈ l, x.1 ≠ a) : SortedKeys (ins a e l) := by
  induction l with
  | nil => simp [ins, SortedKeys]
  | cons hd tl ih =>
    obtain ⟨b, f⟩ := hd
    simp only [SortedKeys, List.map_cons, List.pairwise_cons] at hs
    simp only [ins]
    split
    · rename_i hlt
      have ih' := ih hs.2 (fun x hx => ha x (List.mem_cons_of_mem _ hx))
      simp only [SortedKeys, List.map_cons, List.pairwise_cons]
      refine ⟨?_, ih'⟩
      intro c hc
      simp only [List.mem_map] at hc
      obtain ⟨x, hx, rfl⟩ := hc
      rcases mem_ins.1 hx with rfl | hx
      · exact hlt
      · exact hs.1 x.1 (List.mem_map.2 ⟨x, hx, rfl⟩)
    · rename_i hnlt
      have hne : b ≠ a := ha (b, f) (List.mem_cons_self ..)
      have hab : a < b := Nat.lt_of_le_of_ne (Nat.le_of_not_lt hnlt) (Ne.symm hne)
      simp only [SortedKeys, List.map_cons, List.pairwise_cons]
      refine ⟨?_, hs⟩
      intro c hc
      simp only [List.mem_cons] at hc
      rcases hc with rfl | hc
      · exact hab
      · exact Nat.lt_trans hab (hs.1 c hc)

theorem lookup_some_mem {a : Addr} {e : Entry} {l : List (Addr × Entry)}
    (h : l.lookup a = some e) : (a, e) ∈ l := by
  induction l with
  | nil => simp [List.lookup] at h
  | cons hd tl ih =>
    obtain ⟨b, f⟩ := hd
    simp only [List.lookup] at h
    split at h
    · rename_i heq
      have : a = b := by simpa using heq
      injection h with h; subst h; subst this; exact List.mem_cons_self ..
    · exact List.mem_cons_of_mem _ (ih h)

theorem lookup_none_not_mem {a : Addr} {l : List (Addr × Entry)}
    (h : l.lookup a = none) : ∀ x ∈ l, x.1 ≠ a := by
  induction l with
  | nil => simp
  | cons hd tl ih =>
    obtain ⟨b, f⟩ := hd
    simp only [List.lookup] at h
    split at h
    · simp at h
    · rename_i hne
      intro x hx
      simp only [List.mem_cons] at hx
      rcases hx with rfl | hx
      · intro hba; simp at hba; subst hba; simp at hne
      · exact ih h x hx

/-- In a list with strictly increasing addresses an address has at most one entry. -/
theorem sorted_unique {l : List (Addr × Entry)} (hs : SortedKeys l) {a : Addr} {e e' : Entry}
    (h1 : (a, e) ∈ l) (h2 : (a, e') ∈ l) : e = e' := by
  induction l with
  | nil => simp at h1
  | cons hd tl ih =>
    simp only [SortedKeys, List.map_cons, List.pairwise_cons] at hs
    simp only [List.mem_cons] at h1 h2
    rcases h1 with h1 | h1 <;> rcases h2 with h2 | h2
    · rw [← h1] at h2; injection h2 with _ h; exact h.symm
    · have := hs.1 a (List.mem_map.2 ⟨(a, e'), h2, rfl⟩)
      rw [← h1] at this; simp at this
    · have := hs.1 a (List.mem_map.2 ⟨(a, e), h1, rfl⟩)
      rw [← h2] at this; simp at this
    · exact ih hs.2 h1 h2

theorem nodup_snd_ins {a : Addr} {e : Entry} {l : List (Addr × Entry)}
    (hn : (l.map Prod.snd).Nodup) (he : ∀ x ∈ l, x.2 ≠ e) : ((ins a e l).map Prod.snd).Nodup := by
  induction l with
  | nil => simp [ins]
  | cons hd tl ih =>
    obtain ⟨b, f⟩ := hd
    simp only [List.map_cons, List.nodup_cons] at hn
    simp only [ins]
    split
    · simp only [List.map_cons, List.nodup_cons]
      refine ⟨?_, ih hn.2 (fun x hx => he x (List.mem_cons_of_mem _ hx))⟩
      intro hmem
      simp only [List.mem_map] at hmem
      obtain ⟨x, hx, hxf⟩ := hmem
      rcases mem_ins.1 hx with rfl | hx
      · exact he (b, f) (List.mem_cons_self ..) hxf.symm
      · exact hn.1 (List.mem_map.2 ⟨x, hx, hxf⟩)
    · simp only [List.map_cons, List.nodup_cons]
      refine ⟨?_, hn⟩
      intro hmem
      simp only [List.mem_cons, List.mem_map] at hmem
      rcases hmem with h | ⟨x, hx, hxe⟩
      · exact he (b, f) (List.mem_cons_self ..) h.symm
      · exact he x (List.mem_cons_of_mem _ hx) hxe

/-- With pairwise distinct entries an entry belongs to at most one address. -/
theorem nodup_snd_unique {l : List (Addr × Entry)} (hn : (l.map Prod.snd).Nodup) {a a' : Addr}
    {e : Entry} (h1 : (a, e) ∈ l) (h2 : (a', e) ∈ l) : a = a' := by
  induction l with
  | nil => simp at h1
  | cons hd tl ih =>
    simp only [List.map_cons, List.nodup_cons] at hn
    simp only [List.mem_cons] at h1 h2
    rcases h1 with h1 | h1 <;> rcases h2 with h2 | h2
    · rw [← h1] at h2; injection h2 with h _; exact h.symm
    · exact absurd (List.mem_map.2 ⟨(a', e), h2, by rw [← h1]⟩) hn.1
    · exact absurd (List.mem_map.2 ⟨(a, e), h1, by rw [← h2]⟩) hn.1
    · exact ih hn.2 h1 h2

theorem length_filter_erase {α : Type} [BEq α] [LawfulBEq α] (p : α → Bool) {l : List α} {x : α}
    (hx : x ∈ l) :
    ((l.erase x).filter p).length + (if p x then 1 else 0) = (l.filter p).length := by
  induction l with
  | nil => simp at hx
  | cons hd tl ih =>
    by_cases h : hd = x
    · subst h
      simp only [List.erase_cons_head, List.filter_cons]
      split <;> simp
    · have hx' : x ∈ tl := by
        simp only [List.mem_cons] at hx
        rcases hx with rfl | hx
        · exact absurd rfl h
        · exact hx
      have hne : (hd == x) = false := by simpa using h
      have ih' := ih hx'
      rw [List.erase_cons, hne]
      simp only [Bool.false_eq_true, if_false, List.filter_cons]
      by_cases hp : p hd = true
      · simp only [hp, if_true, List.length_cons]; omega
      · simp only [hp]; exact ih'

/-! ### The invariant -/

/-- Positions at which the thread holds the `write` mutex. -/
def Pc.holds : Pc → Bool
  | .locked _ | .relret _ _ | .store _ _ _ | .stored _ _ => true
  | _ => false

/-- The entry a thread has obtained from `get` (or is about to return). -/
def Pc.has : Pc → Option (Addr × Entry)
  | .relret a e | .stored a e | .got a e | .incC a e | .open a e | .decC a e => some (a, e)
  | _ => none

/-- Counted in the global `current_connections`. -/
def Pc.inG : Pc → Bool
  | .incC _ _ | .open _ _ => true
  | _ => false

/-- Counted in the entry's `current_connections`. -/
def Pc.inC : Pc → Option (Addr × Entry)
  | .open a e | .decC a e => some (a, e)
  | _ => none

structure Inv (s : St) : Prop where
  sorted : SortedKeys s.cell
  entLt : ∀ x ∈ s.cell, x.2 < s.nextEntry
  entNodup : (s.cell.map Prod.snd).Nodup
  lockA : ∀ t, (s.pc t).holds = true → s.wlock = some t
  build : ∀ t a new e, s.pc t = .store a new e →
    new = ins a e s.cell ∧ (∀ x ∈ s.cell, x.1 ≠ a) ∧ e < s.nextEntry ∧ (∀ x ∈ s.cell, x.2 ≠ e)
  has : ∀ t a e, (s.pc t).has = some (a, e) → (a, e) ∈ s.cell
  gLen : s.global = (s.gOpen.length : Int)
  gNodup : s.gOpen.Nodup
  gMem : ∀ t, t ∈ s.gOpen ↔ (s.pc t).inG = true
  cCnt : ∀ e, s.cnt e = ((s.cOpen.filter (fun x => x.2.2 == e)).length : Int)
  cNodup : (s.cOpen.map (·.1)).Nodup
  cMem : ∀ t a e, (t, a, e) ∈ s.cOpen ↔ (s.pc t).inC = some (a, e)

theorem inv_init : Inv St.init := by
  constructor <;> simp [St.init, SortedKeys, Pc.holds, Pc.has, Pc.inG, Pc.inC]

macro "rclause" : tactic =>
  `(tactic| (intros; simp only [upd] at *; grind [Pc.holds, Pc.has, Pc.inG, Pc.inC]))

macro "reasy" h:ident : tactic =>
  `(tactic| (obtain ⟨h1, h2, h3, h4, h5, h6, h7, h8, h9, h10, h11, h12⟩ := $h; constructor <;> rclause))

theorem inv_connect {s : St} (h : Inv s) (t : Tid) (a : Addr) (hpc : s.pc t = .idle) :
    Inv { s with pc := upd s.pc t (.start a) } := by reasy h

theorem inv_start_found {s : St} (h : Inv s) (t : Tid) (a : Addr) (e : Entry)
    (hpc : s.pc t = .start a) (hl : s.cell.lookup a = some e) :
    Inv { s with pc := upd s.pc t (.got a e) } := by
  have hm := lookup_some_mem hl
  reasy h

theorem inv_start_miss {s : St} (h : Inv s) (t : Tid) (a : Addr)
    (hpc : s.pc t = .start a) : Inv { s with pc := upd s.pc t (.lockw a) } := by reasy h

theorem inv_lockw {s : St} (h : Inv s) (t : Tid) (a : Addr)
    (hpc : s.pc t = .lockw a) (hw : s.wlock = none) :
    Inv { s with wlock := some t, pc := upd s.pc t (.locked a) } := by reasy h

theorem inv_locked_found {s : St} (h : Inv s) (t : Tid) (a : Addr) (e : Entry)
    (hpc : s.pc t = .locked a) (hl : s.cell.lookup a = some e) :
    Inv { s with pc := upd s.pc t (.relret a e) } := by
  have hm := lookup_some_mem hl
  reasy h

theorem inv_relret {s : St} (h : Inv s) (t : Tid) (a : Addr) (e : Entry)
    (hpc : s.pc t = .relret a e) :
    Inv { s with wlock := none, pc := upd s.pc t (.got a e) } := by reasy h

theorem inv_stored {s : St} (h : Inv s) (t : Tid) (a : Addr) (e : Entry)
    (hpc : s.pc t = .stored a e) :
    Inv { s with wlock := none, pc := upd s.pc t (.got a e) } := by reasy h

theorem inv_locked_miss {s : St} (h : Inv s) (t : Tid) (a : Addr)
    (hpc : s.pc t = .locked a) (hl : s.cell.lookup a = none) :
    Inv { s with nextEntry := s.nextEntry + 1,
                 pc := upd s.pc t (.store a (ins a s.nextEntry s.cell) s.nextEntry) } := by
  have hm := lookup_none_not_mem hl
  have hw := h.lockA t (by rw [hpc]; rfl)
  obtain ⟨h1, h2, h3, h4, h5, h6, h7, h8, h9, h10, h11, h12⟩ := h
  have hfresh : ∀ x ∈ s.cell, x.2 ≠ s.nextEntry := fun x hx => Nat.ne_of_lt (h2 x hx)
  constructor
  · rclause
  · intro x hx; exact Nat.lt_succ_of_lt (h2 x hx)
  · rclause
  · rclause
  · intro t' a' new e' hp; simp only [upd] at hp
    by_cases ht : t' = t
    · subst ht; simp at hp; obtain ⟨rfl, rfl, rfl⟩ := hp
      exact ⟨rfl, hm, Nat.lt_succ_self _, hfresh⟩
    · simp only [ht, if_false] at hp
      have hh := h4 t' (by rw [hp]; rfl)
      rw [hw] at hh; injection hh with hh; exact absurd hh.symm ht
  · rclause
  · rclause
  · rclause
  · rclause
  · rclause
  · rclause
  · rclause

theorem inv_store {s : St} (h : Inv s) (t : Tid) (a : Addr) (new : List (Addr × Entry))
    (e : Entry) (hpc : s.pc t = .store a new e) :
    Inv { s with cell := new, pc := upd s.pc t (.stored a e) } := by
  have hw := h.lockA t (by rw [hpc]; rfl)
  obtain ⟨hnew, hna, helt, hne⟩ := h.build t a new e hpc
  obtain ⟨h1, h2, h3, h4, h5, h6, h7, h8, h9, h10, h11, h12⟩ := h
  subst hnew
  constructor
  · exact sorted_ins h1 hna
  · intro x hx; rcases mem_ins.1 hx with rfl | hx
    · exact helt
    · exact h2 x hx
  · exact nodup_snd_ins h3 hne
  · rclause
  · intro t' a' new' e' hp; simp only [upd] at hp
    by_cases ht : t' = t
    · subst ht; simp at hp
    · simp only [ht, if_false] at hp
      have hh := h4 t' (by rw [hp]; rfl)
      rw [hw] at hh; injection hh with hh; exact absurd hh.symm ht
  · intro t' a' e' hp; simp only [upd] at hp
    by_cases ht : t' = t
    · subst ht; simp [Pc.has] at hp; obtain ⟨rfl, rfl⟩ := hp
      exact mem_ins.2 (Or.inl rfl)
    · simp only [ht, if_false] at hp
      exact mem_ins.2 (Or.inr (h6 t' a' e' hp))
  · rclause
  · rclause
  · rclause
  · rclause
  · rclause
  · rclause

theorem inv_got {s : St} (h : Inv s) (t : Tid) (a : Addr) (e : Entry) (hpc : s.pc t = .got a e) :
    Inv { s with global := s.global + 1, gOpen := t :: s.gOpen, pc := upd s.pc t (.incC a e) } := by
  have hnot : t ∉ s.gOpen := by
    intro hm; have := (h.gMem t).1 hm; rw [hpc] at this; simp [Pc.inG] at this
  obtain ⟨h1, h2, h3, h4, h5, h6, h7, h8, h9, h10, h11, h12⟩ := h
  constructor
  · rclause
  · rclause
  · rclause
  · rclause
  · rclause
  · rclause
  · simp only [List.length_cons]; rw [h7]; simp
  · exact List.nodup_cons.2 ⟨hnot, h8⟩
  · intro t'; simp only [upd, List.mem_cons]
    by_cases ht : t' = t
    · subst ht; simp [Pc.inG]
    · simp only [ht, if_false, false_or]; exact h9 t'
  · rclause
  · rclause
  · rclause

theorem inv_incC {s : St} (h : Inv s) (t : Tid) (a : Addr) (e : Entry) (hpc : s.pc t = .incC a e) :
    Inv { s with cnt := upd s.cnt e (s.cnt e + 1), cOpen := (t, a, e) :: s.cOpen,
                 pc := upd s.pc t (.open a e) } := by
  have hnot : t ∉ s.cOpen.map (·.1) := by
    intro hm
    simp only [List.mem_map] at hm
    obtain ⟨⟨t', a', e'⟩, hx, rfl⟩ := hm
    have := (h.cMem t' a' e').1 hx; rw [hpc] at this; simp [Pc.inC] at this
  obtain ⟨h1, h2, h3, h4, h5, h6, h7, h8, h9, h10, h11, h12⟩ := h
  constructor
  · rclause
  · rclause
  · rclause
  · rclause
  · rclause
  · rclause
  · rclause
  · rclause
  · rclause
  · intro e'; simp only [upd, List.filter_cons]
    by_cases he : e' = e
    · subst he; simp [h10 e']
    · have : (e == e') = false := by simpa using (Ne.symm he)
      simp [he, this, h10 e']
  · simp only [List.map_cons]; exact List.nodup_cons.2 ⟨hnot, h11⟩
  · intro t' a' e'; simp only [upd, List.mem_cons]
    by_cases ht : t' = t
    · subst ht; simp only [if_true, Pc.inC]
      constructor
      · rintro (hx | hx)
        · injection hx with _ hx; rw [hx]
        · exact absurd (List.mem_map.2 ⟨_, hx, rfl⟩) hnot
      · intro hx; injection hx with hx; left; rw [hx]
    · simp only [ht, if_false]
      constructor
      · rintro (hx | hx)
        · injection hx with hx _; exact absurd hx ht
        · exact (h12 t' a' e').1 hx
      · intro hx; right; exact (h12 t' a' e').2 hx

theorem inv_open {s : St} (h : Inv s) (t : Tid) (a : Addr) (e : Entry) (hpc : s.pc t = .open a e) :
    Inv { s with global := s.global - 1, gOpen := s.gOpen.erase t, pc := upd s.pc t (.decC a e) } := by
  have hmem : t ∈ s.gOpen := (h.gMem t).2 (by rw [hpc]; rfl)
  obtain ⟨h1, h2, h3, h4, h5, h6, h7, h8, h9, h10, h11, h12⟩ := h
  constructor
  · rclause
  · rclause
  · rclause
  · rclause
  · rclause
  · rclause
  · show s.global - 1 = ((s.gOpen.erase t).length : Int)
    rw [List.length_erase_of_mem hmem, h7]
    have : 1 ≤ s.gOpen.length := List.length_pos_of_mem hmem
    omega
  · exact h8.erase t
  · intro t'; simp only [upd]
    rw [h8.mem_erase_iff]
    by_cases ht : t' = t
    · subst ht; simp [Pc.inG]
    · simp only [ht, if_false, ne_eq, not_false_eq_true, true_and]; exact h9 t'
  · rclause
  · rclause
  · intro t' a' e'; simp only [upd]
    by_cases ht : t' = t
    · subst ht; simp only [if_true, Pc.inC]
      have := h12 t' a' e'; rw [hpc] at this; simpa [Pc.inC] using this
    · simp only [ht, if_false]; exact h12 t' a' e'

theorem inv_decC {s : St} (h : Inv s) (t : Tid) (a : Addr) (e : Entry) (hpc : s.pc t = .decC a e) :
    Inv { s with cnt := upd s.cnt e (s.cnt e - 1), cOpen := s.cOpen.erase (t, a, e),
                 pc := upd s.pc t .idle } := by
  have hmem : (t, a, e) ∈ s.cOpen := (h.cMem t a e).2 (by rw [hpc]; rfl)
  have hnd : s.cOpen.Nodup :=
    List.Pairwise.of_map (fun x : Tid × Addr × Entry => x.1) (fun a b hab heq => hab (by rw [heq])) h.cNodup
  obtain ⟨h1, h2, h3, h4, h5, h6, h7, h8, h9, h10, h11, h12⟩ := h
  constructor
  · rclause
  · rclause
  · rclause
  · rclause
  · rclause
  · rclause
  · rclause
  · rclause
  · rclause
  · intro e'; simp only [upd]
    have hl : ((s.cOpen.erase (t, a, e)).filter (fun x => x.2.2 == e')).length
        + (if (e == e') = true then 1 else 0) = (s.cOpen.filter (fun x => x.2.2 == e')).length :=
      length_filter_erase (fun x : Tid × Addr × Entry => x.2.2 == e') hmem
    by_cases he : e' = e
    · subst he
      simp only [beq_self_eq_true, if_true] at hl
      simp only [if_true]; rw [h10 e']
      omega
    · have hb : (e == e') = false := by simpa using (Ne.symm he)
      simp only [hb, Bool.false_eq_true, if_false, Nat.add_zero] at hl
      simp only [he, if_false]; rw [h10 e', hl]
  · exact (List.Sublist.map _ (List.erase_sublist ..)).nodup h11
  · intro t' a' e'; simp only [upd]
    rw [hnd.mem_erase_iff]
    by_cases ht : t' = t
    · subst ht; simp only [if_true, Pc.inC]
      constructor
      · rintro ⟨hne, hx⟩
        have := (h12 t' a' e').1 hx; rw [hpc] at this; simp only [Pc.inC] at this
        injection this with this; injection this with ha he; subst ha; subst he
        exact absurd rfl hne
      · intro hx; cases hx
    · simp only [ht, if_false]
      constructor
      · rintro ⟨_, hx⟩; exact (h12 t' a' e').1 hx
      · intro hx; refine ⟨?_, (h12 t' a' e').2 hx⟩
        intro heq; injection heq with heq _; exact ht heq

/-- `Inv` is preserved by every step of every thread. -/
theorem inv_step (s : St) (l : Label) (s' : St) (h : Inv s) (hs : step s l = some s') : Inv s' := by
  obtain ⟨t, a⟩ := l
  cases a with
  | connect a =>
    simp only [step] at hs
    split at hs
    · rename_i hpc; injection hs with hs; subst hs; exact inv_connect h t a hpc
    · simp at hs
  | step =>
    simp only [step] at hs
    split at hs
    · simp at hs
    · rename_i a hpc
      split at hs <;> (injection hs with hs; subst hs)
      · rename_i e hl; exact inv_start_found h t a e hpc hl
      · exact inv_start_miss h t a hpc
    · rename_i a hpc
      split at hs
      · rename_i hw; injection hs with hs; subst hs; exact inv_lockw h t a hpc hw
      · simp at hs
    · rename_i a hpc
      split at hs <;> (injection hs with hs; subst hs)
      · rename_i e hl; exact inv_locked_found h t a e hpc hl
      · rename_i hl; exact inv_locked_miss h t a hpc hl
    · rename_i a e hpc; injection hs with hs; subst hs; exact inv_relret h t a e hpc
    · rename_i a new e hpc; injection hs with hs; subst hs; exact inv_store h t a new e hpc
    · rename_i a e hpc; injection hs with hs; subst hs; exact inv_stored h t a e hpc
    · rename_i a e hpc; injection hs with hs; subst hs; exact inv_got h t a e hpc
    · rename_i a e hpc; injection hs with hs; subst hs; exact inv_incC h t a e hpc
    · rename_i a e hpc; injection hs with hs; subst hs; exact inv_open h t a e hpc
    · rename_i a e hpc; injection hs with hs; subst hs; exact inv_decC h t a e hpc

/-- The invariant holds in every reachable state (all interleavings, any number of threads). -/
theorem inv_reach : ∀ s, Reach sys s → Inv s :=
  inv_of_inductive (S := sys) Inv inv_init (fun s l s' h hs => inv_step s l s' h hs)

end RoutinatorModel.Registry
