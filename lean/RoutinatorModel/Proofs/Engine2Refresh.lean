import RoutinatorModel.Proofs.Engine2Rule
/-!
# The refresh bookkeeping (C39)

`refresh` of every processor is at most every date on its chain (`dates`), at most the
notAfter of every object that contributed payload, and the snapshot's refresh time is at
most the `refresh` of every point that was pushed.
-/
namespace RoutinatorModel.Engine

/-- The certificate whose validity an object's payload depends on. -/
def certOf : Content → Option CertAttr
  | .roa c _ => some c
  | .asa c _ => some c
  | .router c _ => some c
  | _ => none

/-- Invariant of a CA task: its refresh is no later than any date on its chain. -/
def CaX.Ok (ca : CaX) : Prop := ∀ d ∈ ca.dates, ca.refresh ≤ d

/-- Invariant of the processor state while objects are walked. `pd`: chain dates including
this point's manifest and CRL. -/
structure Acc.Ok (pd : List Int) (a : Acc) : Prop where
  chain : ∀ d ∈ pd, a.refresh ≤ d
  objs : ∀ d ∈ a.objDates, a.refresh ≤ d
  kids : ∀ k ∈ a.kids, k.Ok

theorem Acc.addPayload_ok {pd : List Int} {a : Acc} (h : a.Ok pd) (items : List Item) (x : Int) :
    (a.addPayload items x).Ok pd := by
  unfold Acc.addPayload
  split
  · exact h
  · refine ⟨?_, ?_, h.kids⟩
    · intro d hd
      have := h.chain d hd
      simp only []
      omega
    · intro d hd
      simp only [List.mem_append, List.mem_singleton] at hd
      simp only []
      rcases hd with hd | rfl
      · have := h.objs d hd
        omega
      · omega

theorem Acc.addPayload_refresh_le (a : Acc) (items : List Item) (x : Int) :
    (a.addPayload items x).refresh ≤ a.refresh := by
  unfold Acc.addPayload
  split
  · exact Int.le_refl _
  · simp only []; omega

theorem processObjectX_ok (cfg : Cfg) (now : Int) (ca : CaCtx) (vm : ValidMft) (pd : List Int)
    (ext : Ext) (content : Content) {a : Acc} (h : a.Ok pd) :
    (processObjectX cfg now ca vm pd ext content a).Ok pd := by
  unfold processObjectX
  cases ext <;> cases content <;> simp only [] <;> try exact h
  case cer.ca c info =>
    repeat' split
    all_goals first | exact h | skip
    refine ⟨h.chain, h.objs, ?_⟩
    intro k hk
    simp only [List.mem_append, List.mem_singleton] at hk
    rcases hk with hk | rfl
    · exact h.kids k hk
    · intro d hd
      simp only [List.mem_append, List.mem_singleton] at hd
      simp only []
      rcases hd with hd | rfl
      · have := h.chain d hd
        omega
      · omega
  case cer.router c items => split <;> first | exact Acc.addPayload_ok h _ _ | exact h
  case roa.roa c items => split <;> first | exact Acc.addPayload_ok h _ _ | exact h
  case asa.asa c items => split <;> first | exact Acc.addPayload_ok h _ _ | exact h

theorem runStoredObjectsX_ok (cfg : Cfg) (now : Int) (ca : CaCtx) (vm : ValidMft) (pd : List Int)
    (l : List StoredObj) {a : Acc} (h : a.Ok pd) :
    (runStoredObjectsX cfg now ca vm pd l a).Ok pd := by
  induction l generalizing a with
  | nil => exact h
  | cons o rest ih =>
    unfold runStoredObjectsX
    exact ih (processObjectX_ok cfg now ca vm pd o.ext o.file.content h)

/-- `point_validity` lowers the refresh to the manifest's and CRL's dates. -/
theorem pointValidity_ok {ca : CaX} (h : ca.Ok) (vm : ValidMft) (crl : Content) :
    Acc.Ok (ca.dates ++ pointDates vm crl) ⟨[], [], pointValidity ca.refresh vm crl, []⟩ := by
  refine ⟨?_, by simp, by simp⟩
  intro d hd
  simp only [List.mem_append, pointDates, List.mem_cons, List.not_mem_nil, or_false] at hd
  simp only [pointValidity]
  rcases hd with hd | rfl | rfl | rfl
  · have := h d hd
    omega
  · omega
  · omega
  · omega

/-- **Invariant of one publication point.** -/
theorem PointFrom.refresh_ok {cfg : Cfg} {now : Int} {coll : Option Offer} {ca : CaX} {r : PointX}
    (h : PointFrom cfg now coll ca r) (hca : ca.Ok) :
    (∀ d ∈ r.dates, r.refresh ≤ d) ∧ (∀ k ∈ r.kids, k.Ok) ∧ (∀ d ∈ ca.dates, d ∈ r.dates) := by
  cases h with
  | none stored hstored => exact ⟨hca, by simp, fun d hd => hd⟩
  | used vm crl objs stored used hver hstored =>
    have hok := runStoredObjectsX_ok cfg now ca.ctx vm (ca.dates ++ pointDates vm crl) objs
      (pointValidity_ok hca vm crl)
    refine ⟨?_, hok.kids, ?_⟩
    · intro d hd
      simp only [List.mem_append] at hd
      rcases hd with hd | hd
      · exact hok.chain d (List.mem_append.mpr hd)
      · exact hok.objs d hd
    · intro d hd
      simp only [List.mem_append]
      exact Or.inl (Or.inl hd)

/-! ## What the dates are -/

theorem Acc.addPayload_objDates_mono (a : Acc) (items : List Item) (x : Int) :
    ∀ d ∈ a.objDates, d ∈ (a.addPayload items x).objDates := by
  intro d hd
  unfold Acc.addPayload
  split
  · exact hd
  · exact List.mem_append_left _ hd

theorem processObjectX_objDates_mono (cfg : Cfg) (now : Int) (ca : CaCtx) (vm : ValidMft)
    (pd : List Int) (ext : Ext) (content : Content) (a : Acc) :
    ∀ d ∈ a.objDates, d ∈ (processObjectX cfg now ca vm pd ext content a).objDates := by
  intro d hd
  unfold processObjectX
  cases ext <;> cases content <;> simp only [] <;> try exact hd
  case cer.ca c info => (repeat' split) <;> exact hd
  case cer.router c items => split <;> first | exact Acc.addPayload_objDates_mono _ _ _ d hd | exact hd
  case roa.roa c items => split <;> first | exact Acc.addPayload_objDates_mono _ _ _ d hd | exact hd
  case asa.asa c items => split <;> first | exact Acc.addPayload_objDates_mono _ _ _ d hd | exact hd

/-- An object that yields payload puts its certificate's notAfter among the dates. -/
theorem processObjectX_objDates (cfg : Cfg) (now : Int) (ca : CaCtx) (vm : ValidMft)
    (pd : List Int) (ext : Ext) (content : Content) (a : Acc) (i : Item)
    (hy : Yields cfg now vm ext content i) (c : CertAttr) (hc : certOf content = some c) :
    c.notAfter ∈ (processObjectX cfg now ca vm pd ext content a).objDates := by
  have hadd : ∀ (items : List Item), i ∈ items →
      c.notAfter ∈ (a.addPayload items c.notAfter).objDates := by
    intro items hi
    unfold Acc.addPayload
    have : items.isEmpty = false := by
      cases items with
      | nil => simp at hi
      | cons _ _ => rfl
    simp [this]
  unfold processObjectX
  cases hy with
  | roa c' items hext hcont hvalid hcrl hi =>
    subst hext; subst hcont
    simp only [certOf, Option.some.injEq] at hc
    subst hc
    simp only [hvalid, hcrl, Bool.and_self, ↓reduceIte]
    exact hadd items hi
  | asa c' items hext hcont hvalid hcrl hon hi =>
    subst hext; subst hcont
    simp only [certOf, Option.some.injEq] at hc
    subst hc
    simp only [hvalid, hcrl, hon, Bool.and_self, ↓reduceIte]
    exact hadd items hi
  | router c' items hext hcont hvalid hcrl hon hi =>
    subst hext; subst hcont
    simp only [certOf, Option.some.injEq] at hc
    subst hc
    simp only [hvalid, hcrl, hon, Bool.and_self, ↓reduceIte]
    exact hadd items hi

theorem runStoredObjectsX_objDates_mono (cfg : Cfg) (now : Int) (ca : CaCtx) (vm : ValidMft)
    (pd : List Int) (l : List StoredObj) (a : Acc) :
    ∀ d ∈ a.objDates, d ∈ (runStoredObjectsX cfg now ca vm pd l a).objDates := by
  induction l generalizing a with
  | nil => intro d hd; exact hd
  | cons o rest ih =>
    intro d hd
    unfold runStoredObjectsX
    exact ih _ d (processObjectX_objDates_mono _ _ _ _ _ _ _ _ d hd)

theorem runStoredObjectsX_objDates (cfg : Cfg) (now : Int) (ca : CaCtx) (vm : ValidMft)
    (pd : List Int) (l : List StoredObj) (a : Acc) (o : StoredObj) (ho : o ∈ l) (i : Item)
    (hy : Yields cfg now vm o.ext o.file.content i) (c : CertAttr)
    (hc : certOf o.file.content = some c) :
    c.notAfter ∈ (runStoredObjectsX cfg now ca vm pd l a).objDates := by
  induction l generalizing a with
  | nil => simp at ho
  | cons o' rest ih =>
    unfold runStoredObjectsX
    rcases List.mem_cons.mp ho with rfl | ho
    · exact runStoredObjectsX_objDates_mono _ _ _ _ _ _ _ _
        (processObjectX_objDates cfg now ca vm pd _ _ a i hy c hc)
    · exact ih _ ho

/-- An object without payload leaves the refresh time alone. -/
theorem processObjectX_silent (cfg : Cfg) (now : Int) (ca : CaCtx) (vm : ValidMft)
    (pd : List Int) (ext : Ext) (content : Content) (a : Acc)
    (h : (processObjectX cfg now ca vm pd ext content a).items = a.items) :
    (processObjectX cfg now ca vm pd ext content a).refresh = a.refresh := by
  have hadd : ∀ (items : List Item) (x : Int), (a.addPayload items x).items = a.items →
      (a.addPayload items x).refresh = a.refresh := by
    intro items x hx
    unfold Acc.addPayload at hx ⊢
    split
    · rfl
    · rename_i hne
      simp only [hne, Bool.false_eq_true, ↓reduceIte] at hx
      have : items = [] := by simpa using hx
      simp [this] at hne
  unfold processObjectX at h ⊢
  cases ext <;> cases content <;> simp only [] at h ⊢
  case cer.ca c info => (repeat' split) <;> rfl
  case cer.router c items =>
    split
    · rename_i hc; simp only [hc, ↓reduceIte] at h; exact hadd _ _ h
    · rfl
  case roa.roa c items =>
    split
    · rename_i hc; simp only [hc, ↓reduceIte] at h; exact hadd _ _ h
    · rfl
  case asa.asa c items =>
    split
    · rename_i hc; simp only [hc, ↓reduceIte] at h; exact hadd _ _ h
    · rfl

/-! ## The snapshot -/

theorem foldl_minOpt_le (l : List Visit) (init : Option Int) (r : Int)
    (h : l.foldl (fun acc v => minOpt acc v.point.refresh) init = some r) :
    (∀ x, init = some x → r ≤ x) ∧ ∀ v ∈ l, r ≤ v.point.refresh := by
  induction l generalizing init with
  | nil =>
    simp only [List.foldl_nil] at h
    subst h
    exact ⟨fun x hx => by cases hx; exact Int.le_refl _, by simp⟩
  | cons v rest ih =>
    simp only [List.foldl_cons] at h
    obtain ⟨h1, h2⟩ := ih _ h
    refine ⟨?_, ?_⟩
    · intro x hx
      subst hx
      have := h1 (min x v.point.refresh) rfl
      omega
    · intro v' hv'
      rcases List.mem_cons.mp hv' with rfl | hv'
      · cases init with
        | none => exact h1 _ rfl
        | some x =>
          have := h1 (min x v'.point.refresh) rfl
          omega
      · exact h2 v' hv'

theorem foldl_minOpt_some (l : List Visit) (init : Option Int)
    (h : init ≠ none ∨ l ≠ []) :
    ∃ r, l.foldl (fun acc v => minOpt acc v.point.refresh) init = some r := by
  induction l generalizing init with
  | nil =>
    cases init with
    | none => simp at h
    | some x => exact ⟨x, rfl⟩
  | cons v rest ih =>
    simp only [List.foldl_cons]
    apply ih
    left
    cases init <;> simp [minOpt]

/-- The snapshot's refresh time is at most that of every pushed point, and exists as soon
as one point was pushed. -/
theorem snapshotRefresh_le (visits : List Visit) :
    (∀ r, snapshotRefresh visits = some r →
      ∀ v ∈ visits, v.contributes = true → r ≤ v.point.refresh)
    ∧ ((∃ v ∈ visits, v.contributes = true) → ∃ r, snapshotRefresh visits = some r) := by
  unfold snapshotRefresh
  refine ⟨?_, ?_⟩
  · intro r hr v hv hc
    exact (foldl_minOpt_le _ none r hr).2 v (List.mem_filter.mpr ⟨hv, hc⟩)
  · rintro ⟨v, hv, hc⟩
    apply foldl_minOpt_some
    right
    intro he
    have : v ∈ visits.filter Visit.contributes := List.mem_filter.mpr ⟨hv, hc⟩
    rw [he] at this
    simp at this

end RoutinatorModel.Engine
