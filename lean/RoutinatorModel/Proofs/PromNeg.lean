import RoutinatorModel.Proofs.Prom
/-!
# A necessary condition for expositions (used for the negation witness)

No line of an exposition contains a raw line feed; a line either starts with `#` or ends with
the last character of a sample value, which is never `"`. Hence a text whose first line
(up to the first LF) starts with a letter and ends with `"` is not an exposition.
-/
namespace RoutinatorModel.Prom
open RoutinatorModel.Json (Text IsNumber isDigit number_plain isPlain)

def NoLf (s : Text) : Prop := ∀ c ∈ s, c ≠ 0x0A

theorem NoLf.append {a b : Text} (ha : NoLf a) (hb : NoLf b) : NoLf (a ++ b) := by
  intro c hc
  rcases List.mem_append.mp hc with h | h
  · exact ha c h
  · exact hb c h

theorem NoLf.cons {c : Nat} {s : Text} (hc : c ≠ 0x0A) (hs : NoLf s) : NoLf (c :: s) := by
  intro x hx
  cases hx with
  | head => exact hc
  | tail _ h => exact hs x h

theorem NoLf.nil : NoLf [] := by intro c h; cases h

theorem noLf_of_all {p : Nat → Bool} (hp : ∀ c, p c = true → c ≠ 0x0A) {s : Text}
    (h : s.all p = true) : NoLf s :=
  fun c hc => hp c (List.all_eq_true.mp h c hc)

theorem noLf_lit {s : Text} (h : s.all (fun c => c != 0x0A) = true) : NoLf s :=
  noLf_of_all (fun c hc => by simpa using hc) h

theorem noLf_metricName {n : Text} (h : isMetricNameB n = true) : NoLf n := by
  cases n with
  | nil => simp [isMetricNameB] at h
  | cons c r =>
    simp only [isMetricNameB, Bool.and_eq_true] at h
    refine NoLf.cons ?_ (noLf_of_all ?_ h.2)
    · intro hc; subst hc; simp [isLetter] at h
    · intro x hx hc; subst hc; simp [isLetter, isDigit] at hx

theorem noLf_labelName {n : Text} (h : isLabelNameB n = true) : NoLf n := by
  cases n with
  | nil => simp [isLabelNameB] at h
  | cons c r =>
    simp only [isLabelNameB, Bool.and_eq_true] at h
    refine NoLf.cons ?_ (noLf_of_all ?_ h.2)
    · intro hc; subst hc; simp [isLetter] at h
    · intro x hx hc; subst hc; simp [isLetter, isDigit] at hx

theorem noLf_blanks {s : Text} (h : IsBlanks s) : NoLf s := by
  intro c hc hlf
  have := h c hc
  subst hlf
  simp [isBlank] at this

theorem noLf_helpText {s : Text} (h : IsHelpText s) : NoLf s := by
  induction h with
  | nil => exact NoLf.nil
  | plain _ h2 _ ih => exact NoLf.cons h2 ih
  | esc hc _ ih =>
    refine NoLf.cons (by decide) (NoLf.cons ?_ ih)
    rcases hc with rfl | rfl <;> decide

theorem noLf_labelChars {s : Text} (h : IsLabelChars s) : NoLf s := by
  induction h with
  | nil => exact NoLf.nil
  | plain _ _ h3 _ ih => exact NoLf.cons h3 ih
  | esc hc _ ih =>
    refine NoLf.cons (by decide) (NoLf.cons ?_ ih)
    rcases hc with rfl | rfl | rfl <;> decide

theorem noLf_value {v : Text} (h : IsValue v) : NoLf v := by
  rcases h with h | rfl | rfl | rfl
  · intro c hc hlf
    have := number_plain h c hc
    subst hlf
    simp [isPlain] at this
  · exact noLf_lit (by decide)
  · exact noLf_lit (by decide)
  · exact noLf_lit (by decide)

theorem noLf_labels {l : Text} (h : IsLabels l) : NoLf l := by
  have pair : ∀ p, IsLabelPair p → NoLf p := by
    intro p hp
    obtain ⟨a, n, b, c, v, d, rfl, ha, hn, hb, hc, hv, hd⟩ := hp
    exact NoLf.append (noLf_blanks ha) (NoLf.append (noLf_labelName hn) (NoLf.append (noLf_blanks hb)
      (NoLf.cons (by decide) (NoLf.append (noLf_blanks hc) (NoLf.cons (by decide)
        (NoLf.append (noLf_labelChars hv) (NoLf.cons (by decide) (noLf_blanks hd))))))))
  induction h with
  | one hp => exact pair _ hp
  | cons hp _ ih => exact NoLf.append (pair _ hp) (NoLf.cons (by decide) ih)

theorem noLf_line {l : Text} (h : IsLine l) : NoLf l := by
  cases h with
  | help hn hh =>
    exact NoLf.append (noLf_lit (by decide)) (NoLf.append (noLf_metricName hn) (NoLf.cons (by decide) (noLf_helpText hh)))
  | type hn ht =>
    refine NoLf.append (noLf_lit (by decide)) (NoLf.append (noLf_metricName hn) (NoLf.cons (by decide) ?_))
    rcases ht with rfl | rfl <;> exact noLf_lit (by decide)
  | plain hn _ hb hv => exact NoLf.append (noLf_metricName hn) (NoLf.append (noLf_blanks hb) (noLf_value hv))
  | labelled hn hl hb hv =>
    exact NoLf.append (noLf_metricName hn) (NoLf.cons (by decide) (NoLf.append (noLf_labels hl)
      (NoLf.cons (by decide) (NoLf.append (noLf_blanks hb) (noLf_value hv)))))
  | labelled0 hn hl hb hv =>
    exact NoLf.append (noLf_metricName hn) (NoLf.cons (by decide) (NoLf.append (noLf_blanks hl)
      (NoLf.cons (by decide) (NoLf.append (noLf_blanks hb) (noLf_value hv)))))

/-- The text before the first LF is determined by the whole text. -/
theorem first_line_unique : ∀ {a a' b b' : Text}, NoLf a → NoLf a' →
    a ++ (0x0A :: b) = a' ++ (0x0A :: b') → a = a' := by
  intro a
  induction a with
  | nil =>
    intro a' b b' _ ha' h
    cases a' with
    | nil => rfl
    | cons c r =>
      simp at h
      exact absurd h.1.symm (ha' c List.mem_cons_self)
  | cons x r ih =>
    intro a' b b' ha ha' h
    cases a' with
    | nil =>
      simp at h
      exact absurd h.1 (ha x List.mem_cons_self)
    | cons c r' =>
      simp at h
      rw [h.1, ih (fun y hy => ha y (List.mem_cons_of_mem _ hy))
        (fun y hy => ha' y (List.mem_cons_of_mem _ hy)) h.2]

theorem getLast_value {v : Text} (h : IsValue v) : ∃ c, v.getLast? = some c ∧ c ≠ 0x22 := by
  rcases h with h | rfl | rfl | rfl
  · obtain ⟨m, i, f, e, rfl, _, hi, _, _⟩ := h
    have hne : m ++ i ++ f ++ e ≠ [] := by
      rcases hi with rfl | ⟨d, ds, rfl, _⟩ <;> simp
    obtain ⟨c, hc⟩ : ∃ c, (m ++ i ++ f ++ e).getLast? = some c := by
      cases hl : (m ++ i ++ f ++ e).getLast? with
      | none => exact absurd (List.getLast?_eq_none_iff.mp hl) hne
      | some c => exact ⟨c, rfl⟩
    refine ⟨c, hc, ?_⟩
    intro hq
    have hmem := List.mem_of_getLast? hc
    have := number_plain ⟨m, i, f, e, rfl, by assumption, hi, by assumption, by assumption⟩ c hmem
    subst hq
    simp [isPlain] at this
  · exact ⟨_, rfl, by decide⟩
  · exact ⟨_, rfl, by decide⟩
  · exact ⟨_, rfl, by decide⟩

/-- A line starts with `#` or does not end with a quotation mark. -/
theorem line_shape {l : Text} (h : IsLine l) :
    l.head? = some 0x23 ∨ ∃ c, l.getLast? = some c ∧ c ≠ 0x22 := by
  have last : ∀ (p v : Text), IsValue v → ∃ c, (p ++ v).getLast? = some c ∧ c ≠ 0x22 := by
    intro p v hv
    obtain ⟨c, hc, hq⟩ := getLast_value hv
    have hne : v ≠ [] := by intro h0; subst h0; simp at hc
    exact ⟨c, by rw [List.getLast?_append, hc]; rfl, hq⟩
  cases h with
  | help _ _ => exact Or.inl rfl
  | type _ _ => exact Or.inl rfl
  | @plain n b v _ _ _ hv =>
    right
    have := last (n ++ b) v hv
    simpa [List.append_assoc] using this
  | @labelled n l b v _ _ _ hv =>
    right
    have := last (n ++ (0x7B :: (l ++ (0x7D :: b)))) v hv
    simpa [List.append_assoc] using this
  | @labelled0 n l b v _ _ _ hv =>
    right
    have := last (n ++ (0x7B :: (l ++ (0x7D :: b)))) v hv
    simpa [List.append_assoc] using this

/-- A text whose first line neither starts with `#` nor ends with something else than `"`
is not an exposition. -/
theorem not_exposition_of_first_line {l r : Text} (hl : NoLf l) (hh : l.head? ≠ some 0x23)
    (hq : l.getLast? = some 0x22) : ¬ IsExposition (l ++ (0x0A :: r)) := by
  intro h
  generalize hs : l ++ (0x0A :: r) = s at h
  cases h with
  | nil => simp at hs
  | @line l' r' hline _ =>
    have := first_line_unique hl (noLf_line hline) hs
    subst this
    rcases line_shape hline with h1 | ⟨c, hc, hne⟩
    · exact hh h1
    · rw [hq] at hc
      injection hc with hc
      exact hne hc.symm

end RoutinatorModel.Prom
