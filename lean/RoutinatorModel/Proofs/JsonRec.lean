import RoutinatorModel.Model.JsonRec
import RoutinatorModel.Proofs.Json
/-!
# Soundness of the template recogniser

`pJson t = true → ∀ σ, HolesOk σ t → IsJson (inst σ t)`: if the recogniser accepts a
template, every instantiation of its holes with texts of the holes' categories is a JSON
text. In particular (`recognise_sound`) an accepted plain text is a JSON text.
-/
namespace RoutinatorModel.Json

/-- What may be put into a hole. -/
def HoleOk : HoleKind → Text → Prop
  | .chars, s => IsChars s
  | .num, s => IsNumber s
  | .nat, s => IsInt s
  | .elems, s => IsWs s ∨ J .elements s
  | .raw, _ => True

/-- Every hole of the template is filled with a text of its category. -/
def HolesOk (σ : Nat → Text) (t : Tmpl) : Prop := ∀ k id, Atom.hole k id ∈ t → HoleOk k (σ id)

theorem HolesOk.nil (σ : Nat → Text) : HolesOk σ [] := by intro k id h; cases h

theorem HolesOk.append_left {σ : Nat → Text} {a b : Tmpl} (h : HolesOk σ (a ++ b)) : HolesOk σ a :=
  fun k id hm => h k id (List.mem_append_left _ hm)

theorem HolesOk.append_right {σ : Nat → Text} {a b : Tmpl} (h : HolesOk σ (a ++ b)) : HolesOk σ b :=
  fun k id hm => h k id (List.mem_append_right _ hm)

theorem HolesOk.tail {σ : Nat → Text} {a : Atom} {t : Tmpl} (h : HolesOk σ (a :: t)) : HolesOk σ t :=
  fun k id hm => h k id (List.mem_cons_of_mem _ hm)

theorem HolesOk.head {σ : Nat → Text} {k : HoleKind} {id : Nat} {t : Tmpl}
    (h : HolesOk σ (.hole k id :: t)) : HoleOk k (σ id) := h k id List.mem_cons_self

@[simp] theorem inst_nil (σ : Nat → Text) : inst σ [] = [] := rfl

@[simp] theorem inst_ch (σ : Nat → Text) (c : Nat) (t : Tmpl) : inst σ (.ch c :: t) = c :: inst σ t := by
  simp [inst, instAtom]

@[simp] theorem inst_hole (σ : Nat → Text) (k : HoleKind) (id : Nat) (t : Tmpl) :
    inst σ (.hole k id :: t) = σ id ++ inst σ t := by
  simp [inst, instAtom]

@[simp] theorem inst_append (σ : Nat → Text) (a b : Tmpl) : inst σ (a ++ b) = inst σ a ++ inst σ b := by
  simp [inst]

@[simp] theorem inst_ofText (σ : Nat → Text) (s : Text) : inst σ (ofText s) = s := by
  induction s with
  | nil => rfl
  | cons c s ih => simpa [ofText] using ih

theorem holesOk_ofText (σ : Nat → Text) (s : Text) : HolesOk σ (ofText s) := by
  intro k id h
  simp [ofText] at h

/-! ## Decimal numerals -/

theorem isNumber_of_int {s : Text} (h : IsInt s) : IsNumber s :=
  ⟨[], s, [], [], by simp, Or.inl rfl, h, Or.inl rfl, Or.inl rfl⟩

theorem isChars_of_plain {s : Text} (h : ∀ c ∈ s, isPlain c = true ∧ c ≤ 0x10FFFF) : IsChars s := by
  induction s with
  | nil => exact IsChars.nil
  | cons c s ih =>
    have hc := h c List.mem_cons_self
    refine IsChars.plain ?_ (ih (fun x hx => h x (List.mem_cons_of_mem _ hx)))
    have := hc.1
    simp only [isPlain, Bool.and_eq_true, decide_eq_true_eq, bne_iff_ne, ne_eq] at this
    simp only [isUnescaped, Bool.and_eq_true, decide_eq_true_eq, bne_iff_ne, ne_eq]
    exact ⟨⟨⟨this.1.1, this.1.2⟩, this.2⟩, hc.2⟩

theorem isChars_of_int {s : Text} (h : IsInt s) : IsChars s := by
  apply isChars_of_plain
  intro c hc
  have hp := number_plain (isNumber_of_int h) c hc
  refine ⟨hp, ?_⟩
  rcases h with rfl | ⟨d, ds, rfl, h1, h2, h3⟩
  · simp at hc; omega
  · cases hc with
    | head => omega
    | tail _ hm =>
      have := h3 c hm
      simp only [isDigit, Bool.and_eq_true, decide_eq_true_eq] at this
      omega

/-! ## Pieces -/

theorem skipWs_spec (t : Tmpl) : ∃ w, t = ofText w ++ skipWs t ∧ IsWs w := by
  induction t with
  | nil => exact ⟨[], rfl, IsWs.nil⟩
  | cons a t ih =>
    cases a with
    | hole k id => exact ⟨[], rfl, IsWs.nil⟩
    | ch c =>
      unfold skipWs
      split
      · rename_i hc
        obtain ⟨w, hw, hws⟩ := ih
        refine ⟨c :: w, ?_, IsWs.cons hc hws⟩
        simp only [ofText, List.map_cons, List.cons_append]
        rw [← ofText, ← hw]
      · exact ⟨[], rfl, IsWs.nil⟩

theorem pLit_spec {lit : Text} {t r : Tmpl} (h : pLit lit t = some r) : t = ofText lit ++ r := by
  induction lit generalizing t with
  | nil =>
    simp only [pLit, Option.some.injEq] at h
    subst h; rfl
  | cons a lit ih =>
    cases t with
    | nil => simp [pLit] at h
    | cons b t =>
      cases b with
      | hole k id => simp [pLit] at h
      | ch b =>
        simp only [pLit] at h
        split at h
        · rename_i hab
          subst hab
          have := ih h
          simp [ofText] at this ⊢
          exact this
        · cases h

theorem takeNumChars_spec (t : Tmpl) : t = ofText (takeNumChars t).1 ++ (takeNumChars t).2 := by
  induction t with
  | nil => rfl
  | cons a t ih =>
    cases a with
    | hole k id => rfl
    | ch c =>
      unfold takeNumChars
      split
      · simp only [ofText, List.map_cons, List.cons_append]
        rw [← ofText, ← ih]
      · rfl

/-- String content up to the closing quotation mark. -/
theorem pChars_sound : ∀ (fuel : Nat) (t r : Tmpl), pChars fuel t = some r →
    ∃ pre, t = pre ++ (.ch 0x22 :: r) ∧ ∀ σ, HolesOk σ pre → IsChars (inst σ pre) := by
  intro fuel
  induction fuel with
  | zero => intro t r h; simp [pChars] at h
  | succ fuel ih =>
    intro t r h
    match t, h with
    | [], h => simp [pChars] at h
    | .hole k id :: rest, h =>
      cases k with
      | chars =>
        simp only [pChars] at h
        obtain ⟨pre, hpre, hok⟩ := ih _ _ h
        refine ⟨.hole .chars id :: pre, by rw [hpre]; rfl, ?_⟩
        intro σ hσ
        rw [inst_hole]
        exact IsChars.append (hσ.head) (hok σ hσ.tail)
      | nat =>
        simp only [pChars] at h
        obtain ⟨pre, hpre, hok⟩ := ih _ _ h
        refine ⟨.hole .nat id :: pre, by rw [hpre]; rfl, ?_⟩
        intro σ hσ
        rw [inst_hole]
        exact IsChars.append (isChars_of_int hσ.head) (hok σ hσ.tail)
      | num => simp [pChars] at h
      | elems => simp [pChars] at h
      | raw => simp [pChars] at h
    | .ch c :: rest, h =>
      simp only [pChars] at h
      split at h
      · -- closing quote
        rename_i hc
        injection h with h
        subst h hc
        exact ⟨[], rfl, fun σ _ => IsChars.nil⟩
      · split at h
        · -- backslash
          rename_i hq hb
          subst hb
          split at h
          · rename_i e r1
            split at h
            · rename_i he
              obtain ⟨pre, hpre, hok⟩ := ih _ _ h
              refine ⟨.ch 0x5C :: .ch e :: pre, by rw [hpre]; rfl, ?_⟩
              intro σ hσ
              simp only [inst_ch]
              exact IsChars.esc he (hok σ hσ.tail.tail)
            · split at h
              · rename_i he hu
                subst hu
                split at h
                · rename_i a b c' d r2
                  split at h
                  · rename_i hhex
                    simp only [Bool.and_eq_true] at hhex
                    obtain ⟨pre, hpre, hok⟩ := ih _ _ h
                    refine ⟨.ch 0x5C :: .ch 0x75 :: .ch a :: .ch b :: .ch c' :: .ch d :: pre,
                      by rw [hpre]; rfl, ?_⟩
                    intro σ hσ
                    simp only [inst_ch]
                    exact IsChars.uni hhex.1.1.1 hhex.1.1.2 hhex.1.2 hhex.2
                      (hok σ hσ.tail.tail.tail.tail.tail.tail)
                  · cases h
                · cases h
              · cases h
          · cases h
        · split at h
          · rename_i hq hb hu
            obtain ⟨pre, hpre, hok⟩ := ih _ _ h
            refine ⟨.ch c :: pre, by rw [hpre]; rfl, ?_⟩
            intro σ hσ
            simp only [inst_ch]
            exact IsChars.plain hu (hok σ hσ.tail)
          · cases h

theorem J.members_ws_left {m w : Text} (h : J .members m) (hw : IsWs w) : J .members (w ++ m) := by
  cases h with
  | mem1 hm =>
    cases hm with
    | member ha hk hb hc hv hd =>
      have := J.mem1 (J.member (IsWs.append hw ha) hk hb hc hv hd)
      simpa [List.append_assoc] using this
  | memS hm hr =>
    cases hm with
    | member ha hk hb hc hv hd =>
      have := J.memS (J.member (IsWs.append hw ha) hk hb hc hv hd) hr
      simpa [List.append_assoc] using this

theorem J.elements_ws_left {e w : Text} (h : J .elements e) (hw : IsWs w) : J .elements (w ++ e) := by
  cases h with
  | el1 he =>
    have := J.el1 (J.element_ws_left he hw)
    simpa [List.append_assoc] using this
  | elS he hr =>
    have := J.elS (J.element_ws_left he hw) hr
    simpa [List.append_assoc] using this

/-! ## The mutual recursion -/

def VSound (fuel : Nat) : Prop := ∀ t r, pValue fuel t = some r →
  ∃ pre, t = pre ++ r ∧ ∀ σ, HolesOk σ pre → J .value (inst σ pre)

def MSound (fuel : Nat) : Prop := ∀ t r, pMembers fuel t = some r →
  ∃ pre, t = pre ++ (.ch 0x7D :: r) ∧ ∀ σ, HolesOk σ pre → J .members (inst σ pre)

def ESound (fuel : Nat) : Prop := ∀ t r, pElements fuel t = some r →
  ∃ pre, t = pre ++ (.ch 0x5D :: r) ∧ ∀ σ, HolesOk σ pre → J .elements (inst σ pre)

/-- The holes of a part are holes of the whole. -/
theorem HolesOk.sub {σ : Nat → Text} {a b : Tmpl} (h : HolesOk σ b) (hs : ∀ x ∈ a, x ∈ b) :
    HolesOk σ a := fun k id hm => h k id (hs _ hm)

theorem vsound_step (fuel : Nat) (hm : MSound fuel) (he : ESound fuel) : VSound (fuel + 1) := by
  intro t r h
  match t, h with
  | [], h => simp [pValue] at h
  | .hole k id :: rest, h =>
    cases k with
    | num =>
      simp only [pValue, Option.some.injEq] at h
      subst h
      refine ⟨[.hole .num id], rfl, ?_⟩
      intro σ hσ
      have : IsNumber (σ id) := hσ.head
      simpa using J.num this
    | nat =>
      simp only [pValue, Option.some.injEq] at h
      subst h
      refine ⟨[.hole .nat id], rfl, ?_⟩
      intro σ hσ
      have : IsInt (σ id) := hσ.head
      simpa using J.num (isNumber_of_int this)
    | chars => simp [pValue] at h
    | elems => simp [pValue] at h
    | raw => simp [pValue] at h
  | .ch c :: rest, h =>
    simp only [pValue] at h
    split at h
    · -- string
      rename_i hc
      subst hc
      obtain ⟨pre, hpre, hok⟩ := pChars_sound _ _ _ h
      refine ⟨.ch 0x22 :: (pre ++ [.ch 0x22]), by rw [hpre]; simp, ?_⟩
      intro σ hσ
      have := J.str (hok σ (hσ.sub (by intro x hx; simp [hx])))
      simpa using this
    · split at h
      · -- object
        rename_i hq hc
        subst hc
        obtain ⟨w, hw, hws⟩ := skipWs_spec rest
        split at h
        · rename_i r1 heq
          simp only [Option.some.injEq] at h
          subst h
          refine ⟨.ch 0x7B :: (ofText w ++ [.ch 0x7D]), by rw [hw, heq]; simp, ?_⟩
          intro σ _
          have := J.objE hws
          simpa using this
        · obtain ⟨pre, hpre, hok⟩ := hm _ _ h
          refine ⟨.ch 0x7B :: (ofText w ++ (pre ++ [.ch 0x7D])), by rw [hw, hpre]; simp, ?_⟩
          intro σ hσ
          have := J.obj (J.members_ws_left (hok σ (hσ.sub (by intro x hx; simp [hx]))) hws)
          simpa using this
      · split at h
        · -- array
          rename_i hq hb hc
          subst hc
          obtain ⟨w, hw, hws⟩ := skipWs_spec rest
          split at h
          · rename_i r1 heq
            simp only [Option.some.injEq] at h
            subst h
            refine ⟨.ch 0x5B :: (ofText w ++ [.ch 0x5D]), by rw [hw, heq]; simp, ?_⟩
            intro σ _
            have := J.arrE hws
            simpa using this
          · rename_i id r1 heq
            obtain ⟨w2, hw2, hws2⟩ := skipWs_spec r1
            split at h
            · rename_i r2 heq2
              simp only [Option.some.injEq] at h
              subst h
              refine ⟨.ch 0x5B :: (ofText w ++ (.hole .elems id :: (ofText w2 ++ [.ch 0x5D]))),
                by rw [hw, heq, hw2, heq2]; simp, ?_⟩
              intro σ hσ
              have hh : HoleOk .elems (σ id) := hσ .elems id (by simp)
              rcases hh with hh | hh
              · have := J.arrE (IsWs.append hws (IsWs.append hh hws2))
                simpa using this
              · have := J.arr (J.elements_ws_left (J.elements_ws hh hws2) hws)
                simpa using this
            · cases h
          · obtain ⟨pre, hpre, hok⟩ := he _ _ h
            refine ⟨.ch 0x5B :: (ofText w ++ (pre ++ [.ch 0x5D])), by rw [hw, hpre]; simp, ?_⟩
            intro σ hσ
            have := J.arr (J.elements_ws_left (hok σ (hσ.sub (by intro x hx; simp [hx]))) hws)
            simpa using this
        · -- literals and numbers
          rename_i hq hb hk
          split at h
          · rename_i hc
            subst hc
            have := pLit_spec h
            refine ⟨ofText litNull, by rw [this]; rfl, ?_⟩
            intro σ _
            simpa using J.null
          · split at h
            · rename_i hc
              subst hc
              have := pLit_spec h
              refine ⟨ofText litTrue, by rw [this]; rfl, ?_⟩
              intro σ _
              simpa using J.true
            · split at h
              · rename_i hc
                subst hc
                have := pLit_spec h
                refine ⟨ofText litFalse, by rw [this]; rfl, ?_⟩
                intro σ _
                simpa using J.false
              · split at h
                · rename_i hnum
                  simp only [Option.some.injEq] at h
                  have hs := takeNumChars_spec (.ch c :: rest)
                  refine ⟨ofText (takeNumChars (.ch c :: rest)).1, by rw [← h]; exact hs, ?_⟩
                  intro σ _
                  simpa using J.num (isNumberB_sound hnum)
                · cases h


theorem msound_step (fuel : Nat) (hv : VSound fuel) (hm : MSound fuel) : MSound (fuel + 1) := by
  intro t r h
  match t, h with
  | [], h => simp [pMembers] at h
  | .hole k id :: rest, h => simp [pMembers] at h
  | .ch c :: rest, h =>
    by_cases hc : c = 0x22
    · subst hc
      simp only [pMembers] at h
      split at h
      · cases h
      · rename_i r1 hchars
        obtain ⟨k, hk, hkok⟩ := pChars_sound _ _ _ hchars
        obtain ⟨w1, hw1, hws1⟩ := skipWs_spec r1
        split at h
        · rename_i r2 heq1
          obtain ⟨w2, hw2, hws2⟩ := skipWs_spec r2
          split at h
          · cases h
          · rename_i r3 hval
            obtain ⟨v, hv', hvok⟩ := hv _ _ hval
            obtain ⟨w3, hw3, hws3⟩ := skipWs_spec r3
            split at h
            · -- another member follows
              rename_i r4 heq3
              obtain ⟨w4, hw4, hws4⟩ := skipWs_spec r4
              obtain ⟨pre, hpre, hok⟩ := hm _ _ h
              refine ⟨.ch 0x22 :: (k ++ (.ch 0x22 :: (ofText w1 ++ (.ch 0x3A :: (ofText w2 ++ (v ++
                (ofText w3 ++ (.ch 0x2C :: (ofText w4 ++ pre))))))))), ?_, ?_⟩
              · rw [hk, hw1, heq1, hw2, hv', hw3, heq3, hw4, hpre]; simp
              · intro σ hσ
                have hmem := J.member (a := []) IsWs.nil (hkok σ (hσ.sub (by intro x hx; simp [hx]))) hws1 hws2
                  (hvok σ (hσ.sub (by intro x hx; simp [hx]))) hws3
                have hrest := J.members_ws_left (hok σ (hσ.sub (by intro x hx; simp [hx]))) hws4
                have := J.memS hmem hrest
                simpa using this
            · -- closing brace
              rename_i r4 heq3
              simp only [Option.some.injEq] at h
              subst h
              refine ⟨.ch 0x22 :: (k ++ (.ch 0x22 :: (ofText w1 ++ (.ch 0x3A :: (ofText w2 ++ (v ++
                ofText w3)))))), ?_, ?_⟩
              · rw [hk, hw1, heq1, hw2, hv', hw3, heq3]; simp
              · intro σ hσ
                have hmem := J.member (a := []) IsWs.nil (hkok σ (hσ.sub (by intro x hx; simp [hx]))) hws1 hws2
                  (hvok σ (hσ.sub (by intro x hx; simp [hx]))) hws3
                have := J.mem1 hmem
                simpa using this
            · cases h
        · cases h
    · simp [pMembers, hc] at h

theorem esound_step (fuel : Nat) (hv : VSound fuel) (he : ESound fuel) : ESound (fuel + 1) := by
  intro t r h
  simp only [pElements] at h
  split at h
  · cases h
  · rename_i r1 hval
    obtain ⟨v, hv', hvok⟩ := hv _ _ hval
    obtain ⟨w1, hw1, hws1⟩ := skipWs_spec r1
    split at h
    · rename_i r2 heq1
      obtain ⟨w2, hw2, hws2⟩ := skipWs_spec r2
      obtain ⟨pre, hpre, hok⟩ := he _ _ h
      refine ⟨v ++ (ofText w1 ++ (.ch 0x2C :: (ofText w2 ++ pre))), ?_, ?_⟩
      · rw [hv', hw1, heq1, hw2, hpre]; simp
      · intro σ hσ
        have hel := J.element (a := []) IsWs.nil (hvok σ (hσ.sub (by intro x hx; simp [hx]))) hws1
        have hrest := J.elements_ws_left (hok σ (hσ.sub (by intro x hx; simp [hx]))) hws2
        have := J.elS hel hrest
        simpa using this
    · rename_i r2 heq1
      simp only [Option.some.injEq] at h
      subst h
      refine ⟨v ++ ofText w1, ?_, ?_⟩
      · rw [hv', hw1, heq1]; simp
      · intro σ hσ
        have hel := J.element (a := []) IsWs.nil (hvok σ (hσ.sub (by intro x hx; simp [hx]))) hws1
        have := J.el1 hel
        simpa using this
    · cases h

theorem all_sound : ∀ fuel, VSound fuel ∧ MSound fuel ∧ ESound fuel := by
  intro fuel
  induction fuel with
  | zero =>
    refine ⟨?_, ?_, ?_⟩
    · intro t r h; simp [pValue] at h
    · intro t r h; simp [pMembers] at h
    · intro t r h; simp [pElements] at h
  | succ fuel ih =>
    exact ⟨vsound_step fuel ih.2.1 ih.2.2, msound_step fuel ih.1 ih.2.1, esound_step fuel ih.1 ih.2.2⟩

/-- **Soundness of the template recogniser.** -/
theorem pJson_sound {t : Tmpl} (h : pJson t = true) (σ : Nat → Text) (hσ : HolesOk σ t) :
    IsJson (inst σ t) := by
  unfold pJson at h
  split at h
  · rename_i r hval
    obtain ⟨w1, hw1, hws1⟩ := skipWs_spec t
    obtain ⟨v, hv, hvok⟩ := (all_sound _).1 _ _ hval
    obtain ⟨w2, hw2, hws2⟩ := skipWs_spec r
    have hr : skipWs r = [] := by simpa using h
    have ht : t = ofText w1 ++ (v ++ ofText w2) := by
      rw [hw1, hv, hw2, hr]; simp
    have hσv : HolesOk σ v := hσ.sub (by intro x hx; rw [ht]; simp [hx])
    have := J.element hws1 (hvok σ hσv) hws2
    rw [ht]
    simpa [IsJson] using this
  · cases h

/-- A template that is a single value with nothing around it. -/
theorem pValueOnly_sound {t : Tmpl} (h : pValueOnly t = true) (σ : Nat → Text) (hσ : HolesOk σ t) :
    J .value (inst σ t) := by
  unfold pValueOnly at h
  split at h
  · rename_i r hval
    obtain ⟨v, hv, hvok⟩ := (all_sound _).1 _ _ hval
    have hr : r = [] := by simpa using h
    have ht : t = v := by rw [hv, hr]; simp
    rw [ht] at hσ ⊢
    exact hvok σ hσ
  · cases h

/-- The plain-text recogniser accepts only JSON texts. -/
theorem recognise_sound {s : Text} (h : recognise s = true) : IsJson s := by
  have := pJson_sound h (fun _ => []) (holesOk_ofText _ s)
  simpa using this


end RoutinatorModel.Json
