import RoutinatorModel.Model.Validity
import RoutinatorModel.Proofs.Prefix
/-! `RouteValidity::new` as three filters. -/
namespace RoutinatorModel
namespace RouteValidity

/-- The VRP covers the route's prefix. -/
def isCovering (pfx : Prefix) (v : Vrp) : Bool := v.pfx.covers pfx
/-- Covering and the route is longer than the max length. -/
def isBadLen (pfx : Prefix) (v : Vrp) : Bool :=
  v.pfx.covers pfx && decide (pfx.len > v.resolvedMaxLen)
/-- Covering, length fine, other AS. -/
def isBadAsn (pfx : Prefix) (asn : Nat) (v : Vrp) : Bool :=
  v.pfx.covers pfx && decide (pfx.len ≤ v.resolvedMaxLen) && decide (v.asn ≠ asn)
/-- Covering, length fine, same AS: the VRP matches the route. -/
def isMatch (pfx : Prefix) (asn : Nat) (v : Vrp) : Bool :=
  v.pfx.covers pfx && decide (pfx.len ≤ v.resolvedMaxLen) && decide (v.asn = asn)

theorem foldl_step (S : List Vrp) (r : RouteValidity) :
    S.foldl step r =
      { r with matched := r.matched ++ S.filter (isMatch r.pfx r.asn)
               badAsn := r.badAsn ++ S.filter (isBadAsn r.pfx r.asn)
               badLen := r.badLen ++ S.filter (isBadLen r.pfx) } := by
  induction S generalizing r with
  | nil => simp
  | cons v S ih =>
    rw [List.foldl_cons, ih]
    unfold step
    by_cases hc : v.pfx.covers r.pfx = true
    · by_cases hl : r.pfx.len > v.resolvedMaxLen
      · have hl' : ¬ r.pfx.len ≤ v.resolvedMaxLen := by omega
        simp [hc, hl, hl', isMatch, isBadAsn, isBadLen]
      · have hl' : r.pfx.len ≤ v.resolvedMaxLen := by omega
        by_cases ha : v.asn = r.asn
        · simp [hc, hl, hl', ha, isMatch, isBadAsn, isBadLen]
        · simp [hc, hl, hl', ha, isMatch, isBadAsn, isBadLen]
    · simp [hc, isMatch, isBadAsn, isBadLen]

theorem new_eq (pfx : Prefix) (asn : Nat) (S : List Vrp) :
    new pfx asn S = ⟨pfx, asn, S.filter (isMatch pfx asn), S.filter (isBadAsn pfx asn),
      S.filter (isBadLen pfx)⟩ := by
  unfold new
  rw [foldl_step]
  simp

/-- The three classes are exclusive and exhaust the covering VRPs. -/
theorem classes (pfx : Prefix) (asn : Nat) (v : Vrp) :
    (isCovering pfx v = true ↔
      (isMatch pfx asn v = true ∨ isBadAsn pfx asn v = true ∨ isBadLen pfx v = true)) ∧
    ¬ (isMatch pfx asn v = true ∧ isBadAsn pfx asn v = true) ∧
    ¬ (isMatch pfx asn v = true ∧ isBadLen pfx v = true) ∧
    ¬ (isBadAsn pfx asn v = true ∧ isBadLen pfx v = true) := by
  unfold isCovering isMatch isBadAsn isBadLen
  by_cases hc : v.pfx.covers pfx = true <;>
  by_cases hl : pfx.len ≤ v.resolvedMaxLen <;>
  by_cases ha : v.asn = asn <;> simp [hc, hl, ha] <;> omega

/-- A list splits (as a permutation) into three exclusive filter classes covering a
fourth filter. -/
theorem perm_three (S : List Vrp) (c f1 f2 f3 : Vrp → Bool)
    (hcov : ∀ v, c v = true ↔ (f1 v = true ∨ f2 v = true ∨ f3 v = true))
    (h12 : ∀ v, ¬ (f1 v = true ∧ f2 v = true))
    (h13 : ∀ v, ¬ (f1 v = true ∧ f3 v = true))
    (h23 : ∀ v, ¬ (f2 v = true ∧ f3 v = true)) :
    (S.filter f1 ++ S.filter f2 ++ S.filter f3).Perm (S.filter c) := by
  induction S with
  | nil => simp
  | cons v S ih =>
    have := hcov v; have := h12 v; have := h13 v; have := h23 v
    cases e1 : f1 v <;> cases e2 : f2 v <;> cases e3 : f3 v <;> cases ec : c v <;>
      simp_all
    · -- only f3
      refine List.Perm.trans ?_ (List.Perm.cons v ih)
      rw [← List.append_assoc, ← List.append_assoc]
      exact List.perm_middle
    · -- only f2
      refine List.Perm.trans ?_ (List.Perm.cons v ih)
      exact List.perm_middle

end RouteValidity
end RoutinatorModel
