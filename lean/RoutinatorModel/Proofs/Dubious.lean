import RoutinatorModel.Model.Dubious
import RoutinatorModel.Proofs.Paths
/-! Helper lemmas for C31. -/
namespace RoutinatorModel.Dubious
open RoutinatorModel.Paths

/-! ## splitAt -/
theorem splitAt_ne_nil (sep : Nat) (s : Str) : splitAt sep s ≠ [] := by
  cases s with
  | nil => simp [splitAt]
  | cons c cs =>
    simp only [splitAt]
    split
    · simp
    · split <;> simp

theorem splitAt_nosep {sep : Nat} {s : Str} (h : sep ∉ s) : splitAt sep s = [s] := by
  induction s with
  | nil => rfl
  | cons c cs ih =>
    have hc : c ≠ sep := fun e => h (by simp [e])
    have hcs : sep ∉ cs := fun e => h (by simp [e])
    simp [splitAt, hc, ih hcs]

theorem splitAt_append (sep : Nat) (a b : Str) :
    splitAt sep (a ++ sep :: b) = splitAt sep a ++ splitAt sep b := by
  induction a with
  | nil => simp [splitAt]
  | cons c cs ih =>
    by_cases hc : c = sep
    · simp [splitAt, hc, ih]
    · simp only [List.cons_append, splitAt, hc, if_false, ih]
      cases hs : splitAt sep cs with
      | nil => exact absurd hs (splitAt_ne_nil sep cs)
      | cons h t => simp

def joinSep (sep : Nat) : List Str → Str
  | [] => []
  | [s] => s
  | s :: t => s ++ sep :: joinSep sep t

theorem joinSep_cons (sep : Nat) (s : Str) {t : List Str} (ht : t ≠ []) :
    joinSep sep (s :: t) = s ++ sep :: joinSep sep t := by
  cases t with
  | nil => exact absurd rfl ht
  | cons a b => rfl

theorem joinSep_cons_cons (sep c : Nat) (h : Str) (t : List Str) :
    joinSep sep ((c :: h) :: t) = c :: joinSep sep (h :: t) := by
  cases t with
  | nil => rfl
  | cons a b => simp [joinSep]

theorem joinSep_splitAt (sep : Nat) (a : Str) : joinSep sep (splitAt sep a) = a := by
  induction a with
  | nil => rfl
  | cons c cs ih =>
    by_cases hc : c = sep
    · simp only [splitAt, hc, if_true]
      rw [joinSep_cons sep [] (splitAt_ne_nil sep cs), ih]; simp
    · simp only [splitAt, hc, if_false]
      cases hs : splitAt sep cs with
      | nil => exact absurd hs (splitAt_ne_nil sep cs)
      | cons h t =>
        simp only
        rw [joinSep_cons_cons, ← hs, ih]

/-! ## octets -/

/-- `n ≤ 999` in decimal without leading zeros. -/
def dec3 (n : Nat) : Str :=
  if n < 10 then [48 + n]
  else if n < 100 then [48 + n / 10, 48 + n % 10]
  else [48 + n / 100, 48 + n / 10 % 10, 48 + n % 10]

theorem octetOk_dec3 : ∀ n, n < 256 → octetOk (dec3 n) = true := by decide +kernel

theorem dot_not_mem_dec3 : ∀ n, n < 256 → 46 ∉ dec3 n := by decide +kernel

theorem isDigit_iff {b : Nat} : isDigit b = true ↔ 48 ≤ b ∧ b ≤ 57 := by
  simp [isDigit]

theorem octetOk_exists {s : Str} (h : octetOk s = true) : ∃ n, n < 256 ∧ s = dec3 n := by
  simp only [octetOk, Bool.and_eq_true, Bool.or_eq_true, decide_eq_true_eq, Bool.not_eq_true',
    bne_iff_ne, ne_eq] at h
  obtain ⟨⟨⟨⟨_, hlen⟩, hdig⟩, hlead⟩, hval⟩ := h
  match s, hlen, hdig, hlead, hval with
  | [a], _, hdig, _, hval =>
    simp only [List.all_cons, List.all_nil, Bool.and_true, isDigit_iff] at hdig
    simp only [decValue, List.foldl] at hval
    refine ⟨a - 48, by omega, ?_⟩
    simp only [dec3]
    have : a - 48 < 10 := by omega
    simp only [this, if_true]
    congr 1; omega
  | [a, b], _, hdig, hlead, hval =>
    simp only [List.all_cons, List.all_nil, Bool.and_true, Bool.and_eq_true, isDigit_iff] at hdig
    simp only [List.length_cons, List.length_nil, List.head?_cons, Option.some.injEq] at hlead
    have ha : a ≠ 48 := by
      rcases hlead with h | h
      · omega
      · exact h
    refine ⟨(a - 48) * 10 + (b - 48), by omega, ?_⟩
    simp only [dec3]
    have h1 : ¬ (a - 48) * 10 + (b - 48) < 10 := by omega
    have h2 : (a - 48) * 10 + (b - 48) < 100 := by omega
    simp only [h1, h2, if_true, if_false]
    congr 1
    · omega
    · congr 1; omega
  | [a, b, c], _, hdig, hlead, hval =>
    simp only [List.all_cons, List.all_nil, Bool.and_true, Bool.and_eq_true, isDigit_iff] at hdig
    simp only [List.length_cons, List.length_nil, List.head?_cons, Option.some.injEq] at hlead
    have ha : a ≠ 48 := by
      rcases hlead with h | h
      · omega
      · exact h
    simp only [decValue, List.foldl] at hval
    refine ⟨((a - 48) * 10 + (b - 48)) * 10 + (c - 48), by omega, ?_⟩
    simp only [dec3]
    have h1 : ¬ ((a - 48) * 10 + (b - 48)) * 10 + (c - 48) < 10 := by omega
    have h2 : ¬ ((a - 48) * 10 + (b - 48)) * 10 + (c - 48) < 100 := by omega
    simp only [h1, h2, if_false]
    congr 1
    · omega
    · congr 1
      · omega
      · congr 1; omega
  | [], _, _, _, _ => simp at *
  | _ :: _ :: _ :: _ :: _, hlen, _, _, _ => simp at hlen

/-- The dotted quad as a specification-level notion. -/
def IsIpv4Literal (a : Str) : Prop :=
  ∃ o1 o2 o3 o4, o1 < 256 ∧ o2 < 256 ∧ o3 < 256 ∧ o4 < 256 ∧
    a = dec3 o1 ++ 46 :: (dec3 o2 ++ 46 :: (dec3 o3 ++ 46 :: dec3 o4))

theorem isIpv4_iff (a : Str) : isIpv4 a = true ↔ IsIpv4Literal a := by
  constructor
  · intro h
    unfold isIpv4 at h
    split at h
    · rename_i p q r s hs
      simp only [Bool.and_eq_true] at h
      obtain ⟨⟨⟨hp, hq⟩, hr⟩, hs'⟩ := h
      obtain ⟨o1, b1, e1⟩ := octetOk_exists hp
      obtain ⟨o2, b2, e2⟩ := octetOk_exists hq
      obtain ⟨o3, b3, e3⟩ := octetOk_exists hr
      obtain ⟨o4, b4, e4⟩ := octetOk_exists hs'
      refine ⟨o1, o2, o3, o4, b1, b2, b3, b4, ?_⟩
      have := joinSep_splitAt 46 a
      rw [hs] at this
      simp only [joinSep] at this
      rw [← this, e1, e2, e3, e4]
    · simp at h
  · rintro ⟨o1, o2, o3, o4, b1, b2, b3, b4, rfl⟩
    unfold isIpv4
    rw [splitAt_append, splitAt_append, splitAt_append,
      splitAt_nosep (dot_not_mem_dec3 o1 b1), splitAt_nosep (dot_not_mem_dec3 o2 b2),
      splitAt_nosep (dot_not_mem_dec3 o3 b3), splitAt_nosep (dot_not_mem_dec3 o4 b4)]
    simp [octetOk_dec3 _ b1, octetOk_dec3 _ b2, octetOk_dec3 _ b3, octetOk_dec3 _ b4]

/-! ## lower-casing does not change the classification -/

theorem lower_lower (b : Nat) : lower (lower b) = lower b := by
  by_cases h : 65 ≤ b ∧ b ≤ 90
  · have : lower b = b + 32 := by simp [lower, h]
    rw [this]; unfold lower; split <;> omega
  · have : lower b = b := by simp [lower, h]
    rw [this, this]

theorem canon_canon (a : Str) : canon (canon a) = canon a := by
  simp [canon, lower_lower]

theorem contains_iff {a : Str} {b : Nat} : a.contains b = true ↔ b ∈ a := by
  simp

theorem colon_mem_canon {a : Str} : 58 ∈ canon a ↔ 58 ∈ a := by
  induction a with
  | nil => simp [canon]
  | cons b t ih =>
    simp only [canon, List.map_cons, List.mem_cons] at ih ⊢
    rw [ih]
    have : (58 = lower b) ↔ (58 = b) := by unfold lower; split <;> omega
    rw [this]

/-- Characters of a dotted quad: digits and dots, which `lower` leaves alone. -/
def plain (b : Nat) : Prop := b < 65 ∨ 90 < b

theorem plain_of_lower {b : Nat} (h : lower b < 65 ∨ (90 < lower b ∧ lower b < 97)) : lower b = b := by
  unfold lower at *; split at h <;> split <;> omega

theorem canon_eq_of_digits_dots {a : Str} (h : ∀ b ∈ canon a, b ≤ 57) : canon a = a := by
  induction a with
  | nil => rfl
  | cons b t ih =>
    simp only [canon, List.map_cons, List.mem_cons, forall_eq_or_imp] at h ⊢
    have hb : lower b = b := plain_of_lower (Or.inl (by omega))
    have := ih (by simpa [canon] using h.2)
    simp only [canon] at this
    rw [hb, this]

theorem dec3_le (n : Nat) (hn : n < 256) : ∀ b ∈ dec3 n, b ≤ 57 := by
  intro b hb
  unfold dec3 at hb
  split at hb
  · simp at hb; omega
  · split at hb
    · simp at hb; rcases hb with h | h <;> omega
    · simp at hb; rcases hb with h | h | h <;> omega

theorem ipv4_chars {a : Str} (h : IsIpv4Literal a) : ∀ b ∈ a, b ≤ 57 := by
  obtain ⟨o1, o2, o3, o4, b1, b2, b3, b4, rfl⟩ := h
  intro b hb
  simp only [List.mem_append, List.mem_cons] at hb
  rcases hb with h | h | h | h | h | h | h
  · exact dec3_le o1 b1 b h
  · omega
  · exact dec3_le o2 b2 b h
  · omega
  · exact dec3_le o3 b3 b h
  · omega
  · exact dec3_le o4 b4 b h

theorem isIpv4_canon (a : Str) : isIpv4 (canon a) = isIpv4 a := by
  by_cases h : isIpv4 (canon a) = true
  · have hc := canon_eq_of_digits_dots (ipv4_chars ((isIpv4_iff _).mp h))
    rw [hc]
  · by_cases h2 : isIpv4 a = true
    · have hc : canon a = a := by
        have hch := ipv4_chars ((isIpv4_iff _).mp h2)
        apply canon_eq_of_digits_dots
        intro b hb
        simp only [canon, List.mem_map] at hb
        obtain ⟨x, hx, rfl⟩ := hb
        have := hch x hx
        unfold lower; split <;> omega
      rw [hc] at h; exact absurd h2 h
    · simp only [Bool.not_eq_true] at h h2
      rw [h, h2]

theorem hasDubious_canon (a : Str) : hasDubiousAuthority (canon a) = hasDubiousAuthority a := by
  unfold hasDubiousAuthority
  rw [canon_canon, isIpv4_canon]
  congr 2
  rw [Bool.eq_iff_iff, contains_iff, contains_iff]
  exact colon_mem_canon

end RoutinatorModel.Dubious
