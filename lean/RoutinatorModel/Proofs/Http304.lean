import RoutinatorModel.Model.Http304
/-! Invariants of the conditional-request system (helper lemmas for `Props/C16.lean`). -/
namespace RoutinatorModel.Http304

/-- What is known about a validator set issued earlier, in the repaired variant. -/
def EntryOk (session : Nat) (s : State) (e : Issued) : Prop :=
  e.ver ≤ s.ver ∧ e.epoch ≤ s.epoch ∧ (e.epoch = s.epoch → e.ver = s.ver) ∧
  e.etag = (session, serialOf e.ver) ∧ s.active = true ∧
  ∃ c, s.created = some c ∧
    (e.epoch = s.epoch → e.lm = c / nanos) ∧ (e.epoch ≠ s.epoch → (e.lm + 1) * nanos ≤ c)

/-- Shape of a response: 503 only while nothing was ever issued; otherwise it carries the
validators of the version it serves. -/
def Shape (r : Resp) : Prop :=
  (r.status = 200 ∨ r.status = 304 ∨ (r.status = 503 ∧ r.issuedBefore = [])) ∧
  (r.status ≠ 503 → ∃ v, r.validators = some v ∧ v.ver = r.ver ∧ v.epoch = r.epoch)

/-- The property for one response. -/
def Cond (r : Resp) : Prop :=
  r.status = 304 → ∀ e ∈ r.issuedBefore, presents r.req e → r.ver < e.ver + serialMod →
    e.ver = r.ver

def Good (r : Resp) : Prop := Shape r ∧ Cond r

def Inv (session : Nat) (s : State) : Prop :=
  (∀ e ∈ s.issued, EntryOk session s e) ∧ (∀ r ∈ s.resps, Good r)

theorem bump_ge (c now : Nat) : c ≤ bump (some c) now ∧ (c / nanos + 1) * nanos ≤ bump (some c) now := by
  unfold bump nanos
  simp only
  split <;> omega

theorem entryOk_frame (session : Nat) (s s' : State) (e : Issued)
    (hv : s'.ver = s.ver) (he : s'.epoch = s.epoch) (hc : s'.created = s.created)
    (ha : s'.active = s.active)
    (h : EntryOk session s e) : EntryOk session s' e := by
  unfold EntryOk at *
  rw [hv, he, hc, ha]
  exact h

theorem entryOk_install (session : Nat) (s s' : State) (e : Issued)
    (hv : s.ver ≤ s'.ver) (he : s'.epoch = s.epoch + 1)
    (hc : s'.created = some (bump s.created s.now)) (ha : s'.active = true)
    (h : EntryOk session s e) : EntryOk session s' e := by
  obtain ⟨h1, h2, h3, h4, _, c, hcr, h5, h6⟩ := h
  have hb := bump_ge c s.now
  refine ⟨by omega, by omega, by intro hh; omega, h4, ha, bump (some c) s.now, by rw [hc, hcr],
    by intro hh; omega, ?_⟩
  intro _
  by_cases hep : e.epoch = s.epoch
  · have := h5 hep
    rw [this]
    exact hb.2
  · have := h6 hep
    omega

theorem cond_new (session : Nat) (s : State) (r : Request) (c : Nat)
    (hcr : s.created = some c) (hi : ∀ e ∈ s.issued, EntryOk session s e) :
    Cond { req := r, status := if notModified r (session, serialOf s.ver) c then 304 else 200,
           validators := some { etag := (session, serialOf s.ver), lm := c / nanos, ver := s.ver,
                                epoch := s.epoch },
           ver := s.ver, epoch := s.epoch, issuedBefore := s.issued } := by
  intro hst e he hp hw
  simp only at hst hp hw ⊢
  obtain ⟨h1, _, h3, h4, _, c', hcr', h5, h6⟩ := hi e he
  rw [hcr] at hcr'
  have hcc : c' = c := by injection hcr' with h; exact h.symm
  subst hcc
  obtain ⟨hstar, hinm, hims⟩ := hp
  have hnm : notModified r (session, serialOf s.ver) c' = true := by
    cases hn : notModified r (session, serialOf s.ver) c' with
    | true => rfl
    | false => simp [hn] at hst
  unfold notModified at hnm
  rw [hstar] at hnm
  simp only [Bool.false_eq_true, ↓reduceIte] at hnm
  split at hnm
  · -- an entity tag matched
    rename_i hany
    rw [List.any_eq_true] at hany
    obtain ⟨t, ht, hteq⟩ := hany
    have hte : t = e.etag := hinm t ht
    have : t = (session, serialOf s.ver) := by simpa using hteq
    rw [hte, h4] at this
    have hs : serialOf e.ver = serialOf s.ver := by injection this
    unfold serialOf serialMod at hs
    unfold serialMod at hw
    omega
  · -- If-Modified-Since
    split at hnm
    · rename_i d hd
      have hde : d = e.lm := hims d hd
      have hge : d * nanos ≥ c' := by simpa using hnm
      by_cases hep : e.epoch = s.epoch
      · exact h3 hep
      · have := h6 hep
        rw [hde] at hge
        unfold nanos at *
        omega
    · simp at hnm

theorem inv_init (session now : Nat) : Inv session (init now) := by
  constructor <;> intro x hx <;> simp [init] at hx

theorem inv_step (session : Nat) (s s' : State) (l : Label) (h : Inv session s)
    (hs : step .repaired session s l = some s') : Inv session s' := by
  obtain ⟨hi, hr⟩ := h
  cases l with
  | clock t =>
    simp only [step, Option.some.injEq] at hs; subst hs
    exact ⟨fun e he => entryOk_frame session s _ e rfl rfl rfl rfl (hi e he), hr⟩
  | u ch =>
    simp only [step, stepU] at hs
    split at hs
    · simp only [Option.some.injEq] at hs; subst hs
      exact ⟨fun e he => entryOk_frame session s _ e rfl rfl rfl rfl (hi e he), hr⟩
    · simp only [Option.some.injEq] at hs; subst hs
      exact ⟨fun e he => entryOk_frame session s _ e rfl rfl rfl rfl (hi e he), hr⟩
    · simp only [Option.some.injEq] at hs; subst hs
      exact ⟨fun e he => entryOk_frame session s _ e rfl rfl rfl rfl (hi e he), hr⟩
    · simp only [Option.some.injEq] at hs; subst hs
      refine ⟨fun e he => entryOk_install session s _ e ?_ ?_ ?_ ?_ (hi e he), ?_⟩
      · simp only; split <;> omega
      · rfl
      · rfl
      · rfl
      · exact hr
    · simp only [Option.some.injEq] at hs; subst hs
      exact ⟨fun e he => entryOk_frame session s _ e rfl rfl rfl rfl (hi e he), hr⟩
    · simp only [Option.some.injEq] at hs; subst hs
      exact ⟨fun e he => entryOk_frame session s _ e rfl rfl rfl rfl (hi e he), hr⟩
  | req r =>
    simp only [step, stepReq] at hs
    split at hs
    · rename_i c hact hcr
      simp only [Option.some.injEq] at hs; subst hs
      constructor
      · intro e he
        simp only [List.mem_cons] at he
        rcases he with rfl | he
        · exact ⟨Nat.le_refl _, Nat.le_refl _, fun _ => rfl, rfl, hact, c, hcr, fun _ => rfl,
            fun hne => absurd rfl hne⟩
        · exact entryOk_frame session s _ e rfl rfl rfl rfl (hi e he)
      · intro x hx
        simp only [List.mem_cons] at hx
        rcases hx with rfl | hx
        · refine ⟨⟨?_, fun _ => ⟨_, rfl, rfl, rfl⟩⟩, cond_new session s r c hcr hi⟩
          simp only
          split <;> simp
        · exact hr x hx
    · simp only [Option.some.injEq] at hs; subst hs
      constructor
      · intro e he
        exact entryOk_frame session s _ e rfl rfl rfl rfl (hi e he)
      · intro x hx
        simp only [List.mem_cons] at hx
        rcases hx with rfl | hx
        · rename_i hno
          refine ⟨⟨Or.inr (Or.inr ⟨rfl, ?_⟩), fun h => absurd rfl h⟩, fun hst => by simp at hst⟩
          -- nothing can have been issued: an issued entry needs `active` and `created`
          cases hiss : s.issued with
          | nil => rfl
          | cons e rest =>
            obtain ⟨_, _, _, _, hact, c, hcr, _⟩ := hi e (by simp [hiss])
            exact absurd hcr (hno c hact)
        · exact hr x hx

theorem inv_reach (session now : Nat) :
    ∀ s, Reach (sys .repaired session now) s → Inv session s :=
  inv_of_inductive (S := sys .repaired session now) (Inv session) (inv_init session now)
    (fun s l s' h hs => inv_step session s s' l h hs)

end RoutinatorModel.Http304
