import RoutinatorModel.Model.FsCrash
/-! Lemmas about operation prefixes of the store's file protocols. -/
namespace RoutinatorModel.FsCrash

theorem applyOps_append (fs : Fs) (a b : List FsOp) :
    applyOps fs (a ++ b) = applyOps (applyOps fs a) b := by
  simp [applyOps, List.foldl_append]

/-- Appending writes. -/
theorem applyOps_writes (fs : Fs) (p : Path) (chunks : List Bytes) (x : Path) :
    applyOps fs (chunks.map (.write p)) x
      = if x = p then (fs p).map (· ++ content chunks) else fs x := by
  induction chunks generalizing fs with
  | nil => by_cases h : x = p <;> simp [applyOps, content, h]
  | cons b rest ih =>
    simp only [List.map_cons, applyOps, List.foldl_cons]
    have := ih (FsOp.apply fs (.write p b))
    simp only [applyOps] at this
    rw [this]
    by_cases h : x = p
    · subst h
      simp only [↓reduceIte, FsOp.apply]
      cases fs x <;> simp [content, List.append_assoc]
    · simp [h, FsOp.apply]

theorem content_take_prefix (chunks : List Bytes) (n : Nat) :
    content (chunks.take n) <+: content chunks := by
  unfold content
  conv => rhs; rw [← List.take_append_drop n chunks]
  rw [List.flatten_append]
  exact List.prefix_append _ _

/-- The first `j` operations of a step. -/
theorem take_replace_ops (tmp p : Path) (chunks : List Bytes) (j : Nat)
    (hj : j < (Step.replace tmp p chunks).ops.length) :
    (Step.replace tmp p chunks).ops.take j = [] ∨
      ∃ n, (Step.replace tmp p chunks).ops.take j
        = .create tmp :: (chunks.take n).map (.write tmp) := by
  cases j with
  | zero => left; rfl
  | succ j =>
    right
    refine ⟨j, ?_⟩
    simp only [Step.ops, List.take_succ_cons, List.cons.injEq, true_and]
    simp only [Step.ops, List.length_cons, List.length_append, List.length_map,
      List.length_nil] at hj
    rw [List.take_append_of_le_length (by simp; omega), List.map_take]

theorem take_rewrite_ops (p : Path) (chunks : List Bytes) (j : Nat) :
    (Step.rewrite p chunks).ops.take j = [] ∨
      ∃ n, (Step.rewrite p chunks).ops.take j = .create p :: (chunks.take n).map (.write p) := by
  cases j with
  | zero => left; rfl
  | succ j =>
    right
    exact ⟨j, by simp [Step.ops, List.map_take]⟩

/-- A proper prefix of a `replace` touches nothing but its temporary file. -/
theorem replace_prefix_other (fs : Fs) (tmp p : Path) (chunks : List Bytes) (j : Nat)
    (hj : j < (Step.replace tmp p chunks).ops.length) (x : Path) (hx : x ≠ tmp) :
    applyOps fs ((Step.replace tmp p chunks).ops.take j) x = fs x := by
  rcases take_replace_ops tmp p chunks j hj with h | ⟨n, h⟩
  · rw [h]; rfl
  · rw [h]
    show applyOps (FsOp.apply fs (.create tmp)) _ x = fs x
    rw [applyOps_writes]
    simp [hx, FsOp.apply]

/-- A complete `replace`. -/
theorem replace_full (fs : Fs) (tmp p : Path) (chunks : List Bytes) (htp : tmp ≠ p) (x : Path) :
    applyOps fs (Step.replace tmp p chunks).ops x
      = if x = p then some (content chunks) else if x = tmp then none else fs x := by
  have hmid : ∀ y, applyOps (FsOp.apply fs (.create tmp)) (chunks.map (.write tmp)) y
      = if y = tmp then some (content chunks) else fs y := by
    intro y
    rw [applyOps_writes]
    by_cases hy : y = tmp <;> simp [hy, FsOp.apply]
  have hsplit : applyOps fs (Step.replace tmp p chunks).ops
      = FsOp.apply (applyOps (FsOp.apply fs (.create tmp)) (chunks.map (.write tmp)))
          (.rename tmp p) := by
    simp [Step.ops, applyOps, List.foldl_append]
  rw [hsplit]
  generalize applyOps (FsOp.apply fs (.create tmp)) (chunks.map (.write tmp)) = mid at hmid
  simp only [FsOp.apply]
  by_cases hxp : x = p
  · simp [hxp, hmid]
  · by_cases hxt : x = tmp
    · simp [hxp, hxt, htp]
    · simp [hxp, hxt, hmid]

/-- Any prefix of a `rewrite`: other files untouched, the file itself as before, or truncated
and refilled with a prefix of the new content. -/
theorem rewrite_prefix (fs : Fs) (p : Path) (chunks : List Bytes) (j : Nat) (x : Path) :
    (x ≠ p → applyOps fs ((Step.rewrite p chunks).ops.take j) x = fs x)
    ∧ (applyOps fs ((Step.rewrite p chunks).ops.take j) p = fs p
        ∨ ∃ n, applyOps fs ((Step.rewrite p chunks).ops.take j) p
            = some (content (chunks.take n))) := by
  rcases take_rewrite_ops p chunks j with h | ⟨n, h⟩
  · rw [h]; exact ⟨fun _ => rfl, Or.inl rfl⟩
  · rw [h]
    refine ⟨?_, Or.inr ⟨n, ?_⟩⟩
    · intro hx
      show applyOps (FsOp.apply fs (.create p)) _ x = fs x
      rw [applyOps_writes]
      simp [hx, FsOp.apply]
    · show applyOps (FsOp.apply fs (.create p)) _ p = _
      rw [applyOps_writes]
      simp [FsOp.apply]

theorem rewrite_full (fs : Fs) (p : Path) (chunks : List Bytes) (x : Path) :
    applyOps fs (Step.rewrite p chunks).ops x = if x = p then some (content chunks) else fs x := by
  simp only [Step.ops]
  show applyOps (FsOp.apply fs (.create p)) _ x = _
  rw [applyOps_writes]
  by_cases h : x = p <;> simp [h, FsOp.apply]

theorem remove_full (fs : Fs) (p : Path) (x : Path) :
    applyOps fs (Step.remove p).ops x = if x = p then none else fs x := by
  simp [Step.ops, applyOps, FsOp.apply]

/-- A prefix of a run is some complete steps followed by a proper prefix of the next step,
or the whole run. -/
theorem take_runOps (steps : List Step) (k : Nat) :
    (∃ done s rest j, steps = done ++ s :: rest ∧ j < s.ops.length
        ∧ (runOps steps).take k = runOps done ++ s.ops.take j)
    ∨ (runOps steps).take k = runOps steps := by
  induction steps generalizing k with
  | nil => right; simp [runOps]
  | cons s rest ih =>
    by_cases hk : k < s.ops.length
    · left
      refine ⟨[], s, rest, k, rfl, hk, ?_⟩
      simp only [runOps, List.flatMap_cons, List.flatMap_nil, List.nil_append]
      rw [List.take_append_of_le_length (Nat.le_of_lt hk)]
    · have hk' : s.ops.length ≤ k := Nat.le_of_not_lt hk
      have hsplit : (runOps (s :: rest)).take k = s.ops ++ (runOps rest).take (k - s.ops.length) := by
        simp only [runOps, List.flatMap_cons]
        rw [List.take_append, List.take_of_length_le hk']
      rcases ih (k - s.ops.length) with ⟨done, s', rest', j, hs, hj, ht⟩ | ht
      · left
        refine ⟨s :: done, s', rest', j, by rw [hs]; rfl, hj, ?_⟩
        rw [hsplit, ht]
        simp [runOps, List.append_assoc]
      · right
        rw [hsplit, ht]
        simp [runOps]

theorem applyOps_take_succ (fs : Fs) (done : List Step) (s : Step) (rest : List Step) :
    applyOps fs (runOps ((done ++ s :: rest).take (done.length + 1)))
      = applyOps (applyOps fs (runOps done)) s.ops := by
  have : (done ++ s :: rest).take (done.length + 1) = done ++ [s] := by
    rw [List.take_append, List.take_of_length_le (Nat.le_succ _)]; simp
  rw [this]
  simp [runOps, applyOps_append]

end RoutinatorModel.FsCrash
