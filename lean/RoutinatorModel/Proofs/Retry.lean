import RoutinatorModel.Model.Retry
/-! Helper lemmas for C32 (retry loops). -/
namespace RoutinatorModel

/-! ## The repaired `vrps` loop -/

/-- Once `once` is set, the loop performs exactly one more run. -/
theorem vrpsLoop_once (o : Nat → Outcome) (san : Nat → Bool) (fuel i : Nat) :
    vrpsLoop o san (fuel + 1) i true
      = ⟨i + 1, if o i = .ok then .success else .error⟩ := by
  unfold vrpsLoop
  cases o i <;> simp

/-- From a fresh start the loop needs at most two units of fuel. -/
theorem vrpsLoop_fresh (o : Nat → Outcome) (san : Nat → Bool) (fuel i : Nat) :
    vrpsLoop o san (fuel + 2) i false =
      match o i with
      | .ok => ⟨i + 1, .success⟩
      | .fatal => ⟨i + 1, .error⟩
      | .retry =>
        if san i then ⟨i + 2, if o (i + 1) = .ok then .success else .error⟩
        else ⟨i + 1, .error⟩ := by
  rw [vrpsLoop]
  cases h : o i <;> simp
  rw [vrpsLoop_once]

/-! ## The unrepaired `vrps` loop -/

theorem vrpsLoopOld_persistent (fuel i : Nat) (once : Bool) :
    vrpsLoopOld (fun _ => .retry) (fun _ => true) fuel i once = ⟨i + fuel, .running⟩ := by
  induction fuel generalizing i once with
  | zero => simp [vrpsLoopOld]
  | succ n ih =>
    simp only [vrpsLoopOld, if_true]
    rw [ih]
    congr 1
    omega

/-! ## The server loop -/

theorem srvStep_next_initial {s s' : SrvState} {oc : Outcome} {b r : Bool}
    (h : srvStep s oc b = .next s' r) : s'.initial = false := by
  unfold srvStep at h
  cases oc <;> simp at h
  · obtain ⟨rfl, _⟩ := h; rfl
  · split at h
    · simp at h; obtain ⟨rfl, _⟩ := h; rfl
    · split at h
      · split at h
        · simp at h; obtain ⟨rfl, _⟩ := h; rfl
        · simp at h
      · simp at h

theorem srvStep_next_canRetry {s s' : SrvState} {oc : Outcome} {b r : Bool}
    (h : srvStep s oc b = .next s' r) : s'.canRetry = true → s.canRetry = true := by
  unfold srvStep at h
  cases oc <;> simp at h
  · obtain ⟨rfl, _⟩ := h; exact id
  · split at h
    · simp at h; obtain ⟨rfl, _⟩ := h; exact id
    · split at h
      · split at h
        · simp at h; obtain ⟨rfl, _⟩ := h; simp
        · simp at h
      · simp at h

/-- A granted retry consumes `can_retry`. -/
theorem srvStep_retry_consumes {s s' : SrvState} {oc : Outcome} {b : Bool}
    (h : srvStep s oc b = .next s' true) :
    s.canRetry = true ∧ s'.canRetry = false ∧ s.initial = false ∧ oc = .retry := by
  unfold srvStep at h
  cases oc <;> simp at h
  split at h
  · simp at h
  · split at h
    · split at h
      · simp at h; subst h
        refine ⟨by assumption, rfl, ?_, rfl⟩
        cases hi : s.initial <;> simp_all
      · simp at h
    · simp at h

/-- A failed non-initial run either stops the server or consumes `can_retry`. -/
theorem srvStep_failed_noninitial {s s' : SrvState} {oc : Outcome} {b r : Bool}
    (hs : s.initial = false) (hoc : oc ≠ .ok) (h : srvStep s oc b = .next s' r) :
    s' = ⟨false, false⟩ := by
  unfold srvStep at h
  cases oc <;> simp [hs] at h hoc
  split at h
  · split at h
    · simp at h; exact h.1.symm
    · simp at h
  · simp at h

/-- A failed non-initial run is only followed by another run if `can_retry` is still set. -/
theorem srvStep_failed_noninitial_can {s s' : SrvState} {oc : Outcome} {b r : Bool}
    (hs : s.initial = false) (hoc : oc ≠ .ok) (h : srvStep s oc b = .next s' r) :
    s.canRetry = true := by
  unfold srvStep at h
  cases oc <;> simp [hs] at h hoc
  split at h
  · assumption
  · simp at h

/-- Without `can_retry`, any failed non-initial run stops the server. -/
theorem srvStep_exhausted (oc : Outcome) (b : Bool) (hoc : oc ≠ .ok) :
    srvStep ⟨false, false⟩ oc b = .stop := by
  cases oc <;> simp [srvStep] at hoc ⊢

theorem srvStep_fatal (s : SrvState) (b : Bool) : srvStep s .fatal b = .stop := rfl

theorem srvStep_ok (s : SrvState) (b : Bool) :
    srvStep s .ok b = .next ⟨false, s.canRetry⟩ false := rfl

/-- Unfolding of the loop on a `stop` step. -/
theorem srvLoop_stop {o : Nat → Outcome} {san : Nat → Bool} {fuel i : Nat} {s : SrvState}
    (h : srvStep s (o i) (san i) = .stop) :
    srvLoop o san (fuel + 1) i s = ⟨i + 1, true, 0, 1⟩ := by
  simp [srvLoop, h]

/-- Unfolding of the loop on a `next` step. -/
theorem srvLoop_next {o : Nat → Outcome} {san : Nat → Bool} {fuel i : Nat} {s s' : SrvState}
    {r : Bool} (h : srvStep s (o i) (san i) = .next s' r) :
    srvLoop o san (fuel + 1) i s =
      ⟨(srvLoop o san fuel (i + 1) s').runs, (srvLoop o san fuel (i + 1) s').stopped,
        (srvLoop o san fuel (i + 1) s').retries + (if r then 1 else 0),
        (srvLoop o san fuel (i + 1) s').failed + (if o i = .ok then 0 else 1)⟩ := by
  simp [srvLoop, h]

/-- The number of granted retries is bounded by what is left of `can_retry`. -/
theorem srvLoop_retries_le (o : Nat → Outcome) (san : Nat → Bool) (fuel i : Nat) (s : SrvState) :
    (srvLoop o san fuel i s).retries ≤ (if s.canRetry then 1 else 0) := by
  induction fuel generalizing i s with
  | zero => simp [srvLoop]
  | succ n ih =>
    cases h : srvStep s (o i) (san i) with
    | stop => rw [srvLoop_stop h]; simp
    | next s' r =>
      rw [srvLoop_next h]
      have := ih (i + 1) s'
      cases r with
      | false =>
        have hc := srvStep_next_canRetry h
        simp only [Bool.false_eq_true, if_false, Nat.add_zero]
        cases hs' : s'.canRetry <;> simp_all
      | true =>
        obtain ⟨h1, h2, _, _⟩ := srvStep_retry_consumes h
        simp_all

/-- Failed runs: at most one for the initial run, at most two afterwards (one if `can_retry`
is already used up). -/
theorem srvLoop_failed_le (o : Nat → Outcome) (san : Nat → Bool) (fuel i : Nat) (s : SrvState) :
    (srvLoop o san fuel i s).failed
      ≤ (if s.initial then 1 else 0) + (if s.canRetry then 2 else 1) := by
  induction fuel generalizing i s with
  | zero => simp [srvLoop]
  | succ n ih =>
    cases h : srvStep s (o i) (san i) with
    | stop =>
      rw [srvLoop_stop h]
      show 1 ≤ _
      cases s.initial <;> cases s.canRetry <;> simp
    | next s' r =>
      rw [srvLoop_next h]
      have hi := srvStep_next_initial h
      have hc := srvStep_next_canRetry h
      have ih' := ih (i + 1) s'
      simp only [hi, Bool.false_eq_true, if_false, Nat.zero_add] at ih'
      show (srvLoop o san n (i + 1) s').failed + _ ≤ _
      by_cases hok : o i = .ok
      · simp only [hok, if_true, Nat.add_zero]
        cases hs' : s'.canRetry <;> cases hs : s.canRetry <;> cases s.initial <;>
          simp_all <;> omega
      · simp only [hok, if_false]
        cases hin : s.initial with
        | true =>
          cases hs' : s'.canRetry <;> cases hs : s.canRetry <;> simp_all <;> omega
        | false =>
          have hcan := srvStep_failed_noninitial_can hin hok h
          have hs' := srvStep_failed_noninitial hin hok h
          subst hs'
          simp only [Bool.false_eq_true, if_false] at ih'
          simp only [hcan, if_true]
          omega

/-- The loop never reports fewer runs than it was started with, nor more than fuel allows. -/
theorem srvLoop_runs_bounds (o : Nat → Outcome) (san : Nat → Bool) (fuel i : Nat) (s : SrvState) :
    i ≤ (srvLoop o san fuel i s).runs ∧ (srvLoop o san fuel i s).runs ≤ i + fuel := by
  induction fuel generalizing i s with
  | zero => simp [srvLoop]
  | succ n ih =>
    cases h : srvStep s (o i) (san i) with
    | stop => rw [srvLoop_stop h]; simp
    | next s' r =>
      rw [srvLoop_next h]
      have := ih (i + 1) s'
      simp only
      omega

/-- If the fuel runs out the loop has not stopped and has used all its fuel. -/
theorem srvLoop_not_stopped (o : Nat → Outcome) (san : Nat → Bool) (fuel i : Nat) (s : SrvState) :
    (srvLoop o san fuel i s).stopped = false → (srvLoop o san fuel i s).runs = i + fuel := by
  induction fuel generalizing i s with
  | zero => simp [srvLoop]
  | succ n ih =>
    cases h : srvStep s (o i) (san i) with
    | stop => rw [srvLoop_stop h]; simp
    | next s' r =>
      rw [srvLoop_next h]
      intro hs
      have := ih (i + 1) s' hs
      simp only
      omega

/-- A fatal failure at run `k` stops the loop with run `k` at the latest. -/
theorem srvLoop_fatal (o : Nat → Outcome) (san : Nat → Bool) (fuel i k : Nat) (s : SrvState)
    (hk : o k = .fatal) (hik : i ≤ k) (hfuel : k < i + fuel) :
    (srvLoop o san fuel i s).stopped = true ∧ (srvLoop o san fuel i s).runs ≤ k + 1 := by
  induction fuel generalizing i s with
  | zero => omega
  | succ n ih =>
    cases h : srvStep s (o i) (san i) with
    | stop => rw [srvLoop_stop h]; simp; omega
    | next s' r =>
      rw [srvLoop_next h]
      by_cases hik' : i = k
      · subst hik'; rw [hk, srvStep_fatal] at h; cases h
      · exact ih (i + 1) s' (by omega) (by omega)

/-- With `can_retry` used up, a failure at run `k` stops the loop with run `k` at the latest. -/
theorem srvLoop_exhausted (o : Nat → Outcome) (san : Nat → Bool) (fuel i k : Nat)
    (hk : o k ≠ .ok) (hik : i ≤ k) (hfuel : k < i + fuel) :
    (srvLoop o san fuel i ⟨false, false⟩).stopped = true
      ∧ (srvLoop o san fuel i ⟨false, false⟩).runs ≤ k + 1 := by
  induction fuel generalizing i with
  | zero => omega
  | succ n ih =>
    cases h : srvStep ⟨false, false⟩ (o i) (san i) with
    | stop => rw [srvLoop_stop h]; simp; omega
    | next s' r =>
      rw [srvLoop_next h]
      by_cases hik' : i = k
      · subst hik'; rw [srvStep_exhausted _ _ hk] at h; cases h
      · have hs' : s' = ⟨false, false⟩ := by
          have h1 := srvStep_next_initial h
          have h2 := srvStep_next_canRetry h
          cases s' with
          | mk a b =>
            simp at h1 h2
            cases b <;> simp_all
        subst hs'
        exact ih (i + 1) (by omega) (by omega)

/-- After the initial run: two failed runs `j < k` stop the loop with run `k` at the latest. -/
theorem srvLoop_two_failures (o : Nat → Outcome) (san : Nat → Bool) (fuel i j k : Nat)
    (s : SrvState) (hs : s.initial = false) (hj : o j ≠ .ok) (hk : o k ≠ .ok)
    (hij : i ≤ j) (hjk : j < k) (hfuel : k < i + fuel) :
    (srvLoop o san fuel i s).stopped = true ∧ (srvLoop o san fuel i s).runs ≤ k + 1 := by
  induction fuel generalizing i s with
  | zero => omega
  | succ n ih =>
    cases h : srvStep s (o i) (san i) with
    | stop => rw [srvLoop_stop h]; simp; omega
    | next s' r =>
      rw [srvLoop_next h]
      by_cases hij' : i = j
      · subst hij'
        have := srvStep_failed_noninitial hs hj h
        subst this
        exact srvLoop_exhausted o san n (i + 1) k hk (by omega) (by omega)
      · exact ih (i + 1) s' (srvStep_next_initial h) (by omega) (by omega)

end RoutinatorModel
