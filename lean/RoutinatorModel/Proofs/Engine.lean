import RoutinatorModel.Model.Engine
/-! Helper lemmas about the engine model. -/
namespace RoutinatorModel.Engine

/-- The payload one object adds (independent of what was gathered before). -/
def objItems (cfg : Cfg) (now : Int) (ca : CaCtx) (vm : ValidMft) (ext : Ext) (content : Content) :
    List Item :=
  (processObject cfg now ca vm ext content [] []).1

/-- The child CAs one object adds. -/
def objKids (cfg : Cfg) (now : Int) (ca : CaCtx) (vm : ValidMft) (ext : Ext) (content : Content) :
    List CaCtx :=
  (processObject cfg now ca vm ext content [] []).2

theorem processObject_eq (cfg : Cfg) (now : Int) (ca : CaCtx) (vm : ValidMft) (ext : Ext)
    (content : Content) (acc : List Item) (kids : List CaCtx) :
    processObject cfg now ca vm ext content acc kids
      = (acc ++ objItems cfg now ca vm ext content, kids ++ objKids cfg now ca vm ext content) := by
  unfold objItems objKids processObject
  cases ext <;> cases content <;> simp <;> (repeat' split) <;> simp_all


/-- The listed file can be retrieved and has the listed hash. -/
def Entry.loads (files : List (Name × File)) (e : Entry) : Bool :=
  e.nameOk && (match lookup e.name files with
               | some f => f.hash == e.hash
               | none => false)

def entryItems (cfg : Cfg) (now : Int) (ca : CaCtx) (vm : ValidMft) (files : List (Name × File))
    (e : Entry) : List Item :=
  match lookup e.name files with
  | some f => objItems cfg now ca vm e.ext f.content
  | none => []

def entryKids (cfg : Cfg) (now : Int) (ca : CaCtx) (vm : ValidMft) (files : List (Name × File))
    (e : Entry) : List CaCtx :=
  match lookup e.name files with
  | some f => objKids cfg now ca vm e.ext f.content
  | none => []

def entryObj (files : List (Name × File)) (e : Entry) : List StoredObj :=
  match lookup e.name files with
  | some f => [⟨e.name, e.ext, f⟩]
  | none => []

theorem runEntries_complete (cfg : Cfg) (now : Int) (ca : CaCtx) (vm : ValidMft)
    (files : List (Name × File)) (l : List Entry) (acc : List Item) (kids : List CaCtx)
    (objs : List StoredObj) (h : ∀ e ∈ l, e.loads files = true) :
    runEntries cfg now ca vm files l acc kids objs
      = .complete (acc ++ l.flatMap (entryItems cfg now ca vm files))
          (kids ++ l.flatMap (entryKids cfg now ca vm files))
          (objs ++ l.flatMap (entryObj files)) := by
  induction l generalizing acc kids objs with
  | nil => simp [runEntries]
  | cons e rest ih =>
    have he := h e (by simp)
    have hrest : ∀ e' ∈ rest, e'.loads files = true := fun e' h' => h e' (by simp [h'])
    unfold Entry.loads at he
    unfold runEntries
    cases hl : lookup e.name files with
    | none => simp [hl] at he
    | some f =>
      simp only [hl, Bool.and_eq_true, beq_iff_eq] at he
      simp only [he.1, he.2, Bool.not_true, Bool.false_eq_true, ↓reduceIte, bne_self_eq_false]
      rw [processObject_eq, ih _ _ _ hrest]
      simp [entryItems, entryKids, entryObj, hl, List.append_assoc]

theorem runEntries_aborted (cfg : Cfg) (now : Int) (ca : CaCtx) (vm : ValidMft)
    (files : List (Name × File)) (l : List Entry) (acc : List Item) (kids : List CaCtx)
    (objs : List StoredObj) (h : ∃ e ∈ l, e.loads files = false) :
    ∃ acc', runEntries cfg now ca vm files l acc kids objs = .aborted acc' := by
  induction l generalizing acc kids objs with
  | nil => simp at h
  | cons e rest ih =>
    unfold runEntries
    by_cases hn : e.nameOk = true
    · cases hl : lookup e.name files with
      | none => simp [hn]
      | some f =>
        by_cases hh : f.hash = e.hash
        · have hrest : ∃ e' ∈ rest, e'.loads files = false := by
            obtain ⟨e', he', hb⟩ := h
            rcases List.mem_cons.mp he' with rfl | hmem
            · simp [Entry.loads, hn, hl, hh] at hb
            · exact ⟨e', hmem, hb⟩
          simp only [hn, hh, Bool.not_true, Bool.false_eq_true, ↓reduceIte, bne_self_eq_false]
          exact ih _ _ _ hrest
        · simp [hn, hh]
    · simp [hn]


/-- The payload of the fetched version: every manifest entry, in manifest order. -/
def fetchedItems (cfg : Cfg) (now : Int) (ca : CaCtx) (vm : ValidMft) (files : List (Name × File)) :
    List Item :=
  vm.mft.entries.flatMap (entryItems cfg now ca vm files)

def fetchedKids (cfg : Cfg) (now : Int) (ca : CaCtx) (vm : ValidMft) (files : List (Name × File)) :
    List CaCtx :=
  vm.mft.entries.flatMap (entryKids cfg now ca vm files)

def fetchedObjs (vm : ValidMft) (files : List (Name × File)) : List StoredObj :=
  vm.mft.entries.flatMap (entryObj files)

theorem collectedIsNewer_snd (m : Mft) (st : Option Stored) :
    (collectedIsNewer m st).2 = st ∨ (collectedIsNewer m st).2 = none := by
  unfold collectedIsNewer
  cases st with
  | none => simp
  | some s =>
    simp only
    split
    · simp
    · split
      · split <;> simp
      · simp

/-- The fetched version is valid, newer, and every listed file loads: it is used, whatever
the processing order. -/
theorem processCollectedWith_done (cfg : Cfg) (now : Int) (ca : CaCtx) (f : Fetched)
    (st : Option Stored) (reorder : List Entry → List Entry)
    (hperm : ∀ l, (reorder l).Perm l)
    {mf : MftFile} {vm : ValidMft} {crl : Content} {st' : Option Stored}
    (hmf : f.mft = some mf)
    (hsame : sameManifest st mf ca = false)
    (hv : validateCollected cfg now f mf = some (vm, crl))
    (hnew : collectedIsNewer vm.mft st = (true, st'))
    (hload : ∀ e ∈ vm.mft.entries, e.loads f.files = true) :
    ∃ items kids objs,
      processCollectedWith cfg now ca f st reorder
        = .done ⟨items, kids, true,
            some ⟨mf, vm.mft.number, vm.mft.thisUpdate, vm.mft.ee.notAfter, ca.info.repo, crl, objs⟩⟩
      ∧ items.Perm (fetchedItems cfg now ca vm f.files)
      ∧ kids.Perm (fetchedKids cfg now ca vm f.files)
      ∧ objs.Perm (fetchedObjs vm f.files) := by
  have hload' : ∀ e ∈ reorder vm.mft.entries, e.loads f.files = true :=
    fun e he => hload e ((hperm _).mem_iff.mp he)
  refine ⟨[] ++ (reorder vm.mft.entries).flatMap (entryItems cfg now ca vm f.files),
    [] ++ (reorder vm.mft.entries).flatMap (entryKids cfg now ca vm f.files),
    [] ++ (reorder vm.mft.entries).flatMap (entryObj f.files), ?_, ?_, ?_, ?_⟩
  · unfold processCollectedWith
    simp only [hmf, hsame, Bool.false_eq_true, ↓reduceIte, hv, hnew]
    rw [runEntries_complete _ _ _ _ _ _ _ _ _ hload']
  · simpa [fetchedItems] using (hperm vm.mft.entries).flatMap_right _
  · simpa [fetchedKids] using (hperm vm.mft.entries).flatMap_right _
  · simpa [fetchedObjs] using (hperm vm.mft.entries).flatMap_right _

/-- A listed file is missing or has the wrong hash: the update is abandoned and the store
is consulted, whatever the processing order. -/
theorem processCollectedWith_abandoned (cfg : Cfg) (now : Int) (ca : CaCtx) (f : Fetched)
    (st : Option Stored) (reorder : List Entry → List Entry)
    (hperm : ∀ l, (reorder l).Perm l)
    {mf : MftFile} {vm : ValidMft} {crl : Content} {st' : Option Stored}
    (hmf : f.mft = some mf)
    (hsame : sameManifest st mf ca = false)
    (hv : validateCollected cfg now f mf = some (vm, crl))
    (hnew : collectedIsNewer vm.mft st = (true, st'))
    (hbad : ∃ e ∈ vm.mft.entries, e.loads f.files = false) :
    ∃ acc, processCollectedWith cfg now ca f st reorder = .fallback acc st' := by
  have hbad' : ∃ e ∈ reorder vm.mft.entries, e.loads f.files = false := by
    obtain ⟨e, he, hb⟩ := hbad
    exact ⟨e, (hperm _).mem_iff.mpr he, hb⟩
  obtain ⟨acc, hacc⟩ := runEntries_aborted cfg now ca vm f.files _ [] [] [] hbad'
  refine ⟨acc, ?_⟩
  unfold processCollectedWith
  simp only [hmf, hsame, Bool.false_eq_true, ↓reduceIte, hv, hnew, hacc]

/-- Every fallback of `process_collected` hands over the stored version as it was, or
nothing if the stored copy was found inconsistent and discarded. -/
theorem processCollectedWith_fallback (cfg : Cfg) (now : Int) (ca : CaCtx) (f : Fetched)
    (st : Option Stored) (reorder : List Entry → List Entry) {acc : List Item}
    {st' : Option Stored}
    (h : processCollectedWith cfg now ca f st reorder = .fallback acc st') :
    st' = st ∨ st' = none := by
  unfold processCollectedWith at h
  cases hm : f.mft with
  | none =>
    rw [hm] at h
    simp only [Collected.fallback.injEq] at h
    exact Or.inl h.2.symm
  | some mf =>
    rw [hm] at h
    simp only at h
    split at h
    · simp only [Collected.fallback.injEq] at h
      exact Or.inl h.2.symm
    · cases hv : validateCollected cfg now f mf with
      | none =>
        rw [hv] at h
        simp only [Collected.fallback.injEq] at h
        exact Or.inl h.2.symm
      | some p =>
        obtain ⟨vm, crl⟩ := p
        rw [hv] at h
        simp only at h
        have hs := collectedIsNewer_snd vm.mft st
        cases hn : collectedIsNewer vm.mft st with
        | mk b st'' =>
          rw [hn] at h hs
          cases b with
          | false =>
            simp only [Collected.fallback.injEq] at h
            rw [← h.2]; exact hs
          | true =>
            simp only at h
            cases hr : runEntries cfg now ca vm f.files (reorder vm.mft.entries) [] [] [] with
            | complete a k o => rw [hr] at h; simp at h
            | aborted a =>
              rw [hr] at h
              simp only [Collected.fallback.injEq] at h
              rw [← h.2]; exact hs

theorem extract_perm {α : Type} {k : Nat} {l : List α} {b : α} {r : List α}
    (h : extract k l = some (b, r)) : l.Perm (b :: r) := by
  induction l generalizing k b r with
  | nil => simp [extract] at h
  | cons a l ih =>
    cases k with
    | zero =>
      simp only [extract, Option.some.injEq, Prod.mk.injEq] at h
      obtain ⟨rfl, rfl⟩ := h
      exact List.Perm.refl _
    | succ k =>
      simp only [extract] at h
      cases he : extract k l with
      | none => simp [he] at h
      | some p =>
        obtain ⟨b', r'⟩ := p
        simp only [he, Option.some.injEq, Prod.mk.injEq] at h
        obtain ⟨rfl, rfl⟩ := h
        exact ((ih he).cons a).trans (List.Perm.swap _ _ _)

theorem applyOrder_perm {α : Type} (order : List Nat) (l : List α) :
    (applyOrder order l).Perm l := by
  induction order generalizing l with
  | nil => exact List.Perm.refl _
  | cons k ks ih =>
    unfold applyOrder
    cases he : extract k l with
    | none => exact List.Perm.refl _
    | some p =>
      obtain ⟨b, r⟩ := p
      exact ((ih r).cons b).trans (extract_perm he).symm

theorem runStoredObjects_eq (cfg : Cfg) (now : Int) (ca : CaCtx) (vm : ValidMft)
    (l : List StoredObj) (acc : List Item) (kids : List CaCtx) :
    runStoredObjects cfg now ca vm l acc kids
      = (acc ++ l.flatMap (fun o => objItems cfg now ca vm o.ext o.file.content),
         kids ++ l.flatMap (fun o => objKids cfg now ca vm o.ext o.file.content)) := by
  induction l generalizing acc kids with
  | nil => simp [runStoredObjects]
  | cons o rest ih =>
    unfold runStoredObjects
    rw [processObject_eq, ih]
    simp [List.append_assoc]


/-- Which version a publication point uses; does not depend on the processing order. -/
inductive Decision
  | useFetched (mf : MftFile) (vm : ValidMft) (crl : Content)
  | useStored (st : Option Stored)

/-- The decision of `process_collected`, computed without walking the entries in order. -/
def pointDecision (cfg : Cfg) (now : Int) (ca : CaCtx) (f : Fetched) (st : Option Stored) :
    Decision :=
  match f.mft with
  | none => .useStored st
  | some mf =>
    if sameManifest st mf ca then .useStored st
    else match validateCollected cfg now f mf with
      | none => .useStored st
      | some (vm, crl) =>
        match collectedIsNewer vm.mft st with
        | (false, st') => .useStored st'
        | (true, st') =>
          if vm.mft.entries.all (fun e => e.loads f.files) then .useFetched mf vm crl
          else .useStored st'

theorem processCollectedWith_decision (cfg : Cfg) (now : Int) (ca : CaCtx) (f : Fetched)
    (st : Option Stored) (reorder : List Entry → List Entry)
    (hperm : ∀ l, (reorder l).Perm l) :
    match pointDecision cfg now ca f st with
    | .useFetched mf vm crl =>
      ∃ items kids objs,
        processCollectedWith cfg now ca f st reorder
          = .done ⟨items, kids, true,
              some ⟨mf, vm.mft.number, vm.mft.thisUpdate, vm.mft.ee.notAfter, ca.info.repo, crl, objs⟩⟩
        ∧ items.Perm (fetchedItems cfg now ca vm f.files)
        ∧ kids.Perm (fetchedKids cfg now ca vm f.files)
        ∧ objs.Perm (fetchedObjs vm f.files)
    | .useStored st' => ∃ acc, processCollectedWith cfg now ca f st reorder = .fallback acc st' := by
  unfold pointDecision
  cases hm : f.mft with
  | none => exact ⟨[], by simp [processCollectedWith, hm]⟩
  | some mf =>
    simp only
    cases hs : sameManifest st mf ca with
    | true => exact ⟨[], by simp [processCollectedWith, hm, hs]⟩
    | false =>
      simp only [Bool.false_eq_true, ↓reduceIte]
      cases hv : validateCollected cfg now f mf with
      | none => exact ⟨[], by simp [processCollectedWith, hm, hs, hv]⟩
      | some p =>
        obtain ⟨vm, crl⟩ := p
        simp only
        cases hn : collectedIsNewer vm.mft st with
        | mk b st' =>
          cases b with
          | false => exact ⟨[], by simp [processCollectedWith, hm, hs, hv, hn]⟩
          | true =>
            simp only
            by_cases hall : vm.mft.entries.all (fun e => e.loads f.files) = true
            · simp only [hall, ↓reduceIte]
              exact processCollectedWith_done cfg now ca f st reorder hperm hm hs hv hn
                (by simpa [List.all_eq_true] using hall)
            · simp only [hall, Bool.false_eq_true, ↓reduceIte]
              refine processCollectedWith_abandoned cfg now ca f st reorder hperm hm hs hv hn ?_
              simpa [List.all_eq_true] using hall


/-- What `validateCollected` returns carries the fetched manifest. -/
theorem validateCollected_mft {cfg : Cfg} {now : Int} {f : Fetched} {mf : MftFile}
    {vm : ValidMft} {crl : Content} (h : validateCollected cfg now f mf = some (vm, crl)) :
    mf.parsed = some vm.mft := by
  unfold validateCollected at h
  cases hm : mf.parsed with
  | none => simp [hm] at h
  | some m =>
    simp only [hm] at h
    repeat' (split at h)
    all_goals (cases h; try rfl)


/-! ## Store and trust anchor lemmas -/

theorem lookup_setKey_self {α : Type} (k : Nat) (v : α) (l : List (Nat × α)) :
    lookup k (setKey k (some v) l) = some v := by
  induction l with
  | nil => simp [setKey, lookup]
  | cons p rest ih =>
    obtain ⟨k', v'⟩ := p
    unfold setKey
    by_cases h : k' = k
    · simp [h, lookup]
    · simp [h, lookup, ih]

theorem lookup_setKey_other {α : Type} (k k' : Nat) (v : Option α) (l : List (Nat × α))
    (h : k' ≠ k) : lookup k' (setKey k v l) = lookup k' l := by
  induction l with
  | nil => cases v <;> simp [setKey, lookup, Ne.symm h]
  | cons p rest ih =>
    obtain ⟨k'', v''⟩ := p
    unfold setKey
    by_cases hk : k'' = k
    · subst hk
      cases v <;> simp [lookup, Ne.symm h]
    · by_cases hk' : k'' = k'
      · subst hk'
        simp [h, lookup]
      · simp [hk, hk', lookup, ih]

/-- The certificate `load_ta` comes up with. -/
def candidate (view : Option View) (store : Store) (uri : Uri) : Option TaCert :=
  (loadTa view store uri).1

/-- The download at `uri`, if any. -/
def download (view : Option View) (uri : Uri) : Option TaFile :=
  match view with
  | some v => lookup uri v.tas
  | none => none

def storedTaCert (store : Store) (uri : Uri) : Option TaCert :=
  match store.ta uri with
  | some f => f.cert
  | none => none

theorem loadTa_eq (view : Option View) (store : Store) (uri : Uri) :
    loadTa view store uri =
      match download view uri with
      | some file =>
        match file.cert with
        | some c => (some c, store.setTa uri file)
        | none => (storedTaCert store uri, store)
      | none => (storedTaCert store uri, store) := by
  unfold loadTa download storedTaCert
  cases view <;> rfl

end RoutinatorModel.Engine
