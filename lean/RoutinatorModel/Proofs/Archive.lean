import RoutinatorModel.Model.Archive
/-!
# Proofs about the archive model (C26)

`Inv` is the layout invariant; every public operation preserves it and refines the map
specification `mapStep` through the abstraction `abs`.
-/
namespace RoutinatorModel.Archive

/-! ## Tiling -/

/-- The blocks `bs` cover `[a, z)` contiguously, in order, each with a positive size that is
a multiple of the page size. -/
def Tiles : Nat → Nat → List Block → Prop
  | a, z, [] => a = z
  | a, z, b :: bs => b.pos = a ∧ 0 < b.size ∧ 256 ∣ b.size ∧ Tiles (a + b.size) z bs

theorem tiles_le {a z : Nat} {bs : List Block} (h : Tiles a z bs) : a ≤ z := by
  induction bs generalizing a with
  | nil => simp [Tiles] at h; omega
  | cons b bs ih =>
    simp only [Tiles] at h
    have := ih h.2.2.2
    omega

theorem tiles_bounds {a z : Nat} {bs : List Block} (h : Tiles a z bs) {b : Block} (hb : b ∈ bs) :
    a ≤ b.pos ∧ b.pos + b.size ≤ z ∧ 0 < b.size ∧ 256 ∣ b.size := by
  induction bs generalizing a with
  | nil => simp at hb
  | cons x bs ih =>
    simp only [Tiles] at h
    rcases List.mem_cons.mp hb with rfl | hb
    · have := tiles_le h.2.2.2
      refine ⟨by omega, by omega, h.2.1, h.2.2.1⟩
    · have := ih h.2.2.2 hb
      refine ⟨by omega, this.2.1, this.2.2.1, this.2.2.2⟩

/-- Two blocks of a tiling are equal or disjoint and ordered. -/
theorem tiles_order {a z : Nat} {bs : List Block} (h : Tiles a z bs) {x y : Block}
    (hx : x ∈ bs) (hy : y ∈ bs) :
    x = y ∨ x.pos + x.size ≤ y.pos ∨ y.pos + y.size ≤ x.pos := by
  induction bs generalizing a with
  | nil => simp at hx
  | cons b bs ih =>
    simp only [Tiles] at h
    rcases List.mem_cons.mp hx with hx1 | hx1 <;> rcases List.mem_cons.mp hy with hy1 | hy1
    · exact Or.inl (hx1.trans hy1.symm)
    · have := tiles_bounds h.2.2.2 hy1; subst hx1; right; left; omega
    · have := tiles_bounds h.2.2.2 hx1; subst hy1; right; right; omega
    · exact ih h.2.2.2 hx1 hy1

theorem tiles_pos_inj {a z : Nat} {bs : List Block} (h : Tiles a z bs) {x y : Block}
    (hx : x ∈ bs) (hy : y ∈ bs) (hp : x.pos = y.pos) : x = y := by
  have h1 := tiles_bounds h hx
  have h2 := tiles_bounds h hy
  rcases tiles_order h hx hy with h3 | h3 | h3
  · exact h3
  · omega
  · omega

theorem tiles_append {a m z : Nat} {xs ys : List Block} (h1 : Tiles a m xs) (h2 : Tiles m z ys) :
    Tiles a z (xs ++ ys) := by
  induction xs generalizing a with
  | nil => simp only [Tiles] at h1; subst h1; simpa using h2
  | cons b bs ih =>
    simp only [Tiles] at h1
    simp only [List.cons_append, Tiles]
    exact ⟨h1.1, h1.2.1, h1.2.2.1, ih h1.2.2.2⟩

theorem tiles_cover {a z : Nat} {bs : List Block} (h : Tiles a z bs) {q : Nat} (h1 : a ≤ q)
    (h2 : q < z) : ∃ b ∈ bs, b.pos ≤ q ∧ q < b.pos + b.size := by
  induction bs generalizing a with
  | nil => simp only [Tiles] at h; omega
  | cons b bs ih =>
    simp only [Tiles] at h
    by_cases hq : q < a + b.size
    · exact ⟨b, List.mem_cons_self, by omega, by omega⟩
    · obtain ⟨x, hx, hx2⟩ := ih h.2.2.2 (by omega)
      exact ⟨x, List.mem_cons_of_mem _ hx, hx2⟩

/-! ## replaceAt, blockAt -/

theorem mem_replaceAt {p : Nat} {new bs : List Block} {x : Block} :
    x ∈ replaceAt p new bs ↔ (x ∈ bs ∧ x.pos ≠ p) ∨ (x ∈ new ∧ ∃ b ∈ bs, b.pos = p) := by
  unfold replaceAt
  simp only [List.mem_flatMap]
  constructor
  · rintro ⟨b, hb, hx⟩
    by_cases hp : b.pos = p
    · simp only [hp, if_true] at hx; exact Or.inr ⟨hx, b, hb, hp⟩
    · simp only [hp, if_false, List.mem_singleton] at hx; subst hx; exact Or.inl ⟨hb, hp⟩
  · rintro (⟨hx, hp⟩ | ⟨hx, b, hb, hp⟩)
    · exact ⟨x, hx, by simp [hp]⟩
    · exact ⟨b, hb, by simp [hp, hx]⟩

theorem replaceAt_id {p : Nat} {new bs : List Block} (h : ∀ b ∈ bs, b.pos ≠ p) :
    replaceAt p new bs = bs := by
  unfold replaceAt
  induction bs with
  | nil => rfl
  | cons b bs ih =>
    simp only [List.flatMap_cons]
    rw [ih (fun x hx => h x (List.mem_cons_of_mem _ hx))]
    simp [h b (List.mem_cons_self)]

theorem replaceAt_cons {p : Nat} {new bs : List Block} {b : Block} :
    replaceAt p new (b :: bs) = (if b.pos = p then new else [b]) ++ replaceAt p new bs := by
  simp [replaceAt]

theorem tiles_replaceAt {a z p : Nat} {new bs : List Block} (h : Tiles a z bs)
    (hn : ∀ b ∈ bs, b.pos = p → Tiles b.pos (b.pos + b.size) new) :
    Tiles a z (replaceAt p new bs) := by
  induction bs generalizing a with
  | nil => simpa [replaceAt] using h
  | cons b bs ih =>
    rw [replaceAt_cons]
    simp only [Tiles] at h
    have ht := ih h.2.2.2 (fun x hx => hn x (List.mem_cons_of_mem _ hx))
    by_cases hp : b.pos = p
    · simp only [hp, if_true]
      have := hn b List.mem_cons_self hp
      rw [hp] at this
      have e : a = p := by omega
      subst e
      exact tiles_append this ht
    · simp only [hp, if_false, List.singleton_append, Tiles]
      exact ⟨h.1, h.2.1, h.2.2.1, ht⟩

theorem blockAt_some {bs : List Block} {p : Nat} {b : Block} (h : blockAt bs p = some b) :
    b ∈ bs ∧ b.pos = p := by
  unfold blockAt at h
  have h1 := List.mem_of_find?_eq_some h
  have h2 := List.find?_some h
  simp at h2
  exact ⟨h1, h2⟩

theorem blockAt_none {bs : List Block} {p : Nat} (h : blockAt bs p = none) :
    ∀ b ∈ bs, b.pos ≠ p := by
  unfold blockAt at h
  intro b hb
  have := List.find?_eq_none.mp h b hb
  simpa using this

theorem blockAt_of_mem {a z : Nat} {bs : List Block} (h : Tiles a z bs) {b : Block} (hb : b ∈ bs) :
    blockAt bs b.pos = some b := by
  cases hq : blockAt bs b.pos with
  | none => exact absurd rfl (blockAt_none hq b hb)
  | some x =>
    have := blockAt_some hq
    rw [tiles_pos_inj h this.1 hb this.2]

/-! ## bucket table -/

theorem find_filter_ne (bk : List (Nat × List Nat)) {k j : Nat} (h : j ≠ k) :
    (bk.filter (fun e => e.1 != k)).find? (fun e => e.1 == j) = bk.find? (fun e => e.1 == j) := by
  induction bk with
  | nil => rfl
  | cons e bk ih =>
    by_cases he : e.1 = k
    · have hkj : ¬ k = j := fun x => h x.symm
      simp [he, hkj, ih]
    · simp [he, List.find?_cons, ih]

theorem getB_setB (bk : List (Nat × List Nat)) (k j : Nat) (l : List Nat) :
    getB (setB bk k l) j = if j = k then l else getB bk j := by
  unfold getB setB
  by_cases h : j = k
  · subst h; simp
  · have h' : ¬ k = j := fun e => h e.symm
    simp only [List.find?_cons, h, if_false]
    have : (k == j) = false := by simp [h']
    simp only [this]
    rw [find_filter_ne bk h]

/-! ## more tiling: append, truncate, merge -/

theorem tiles_snoc {a z : Nat} {bs : List Block} (h : Tiles a z bs) {b : Block}
    (hp : b.pos = z) (hs : 0 < b.size) (hd : 256 ∣ b.size) : Tiles a (z + b.size) (bs ++ [b]) :=
  tiles_append h (by simp [Tiles, hp, hs, hd])

theorem filter_lt_nil {a z p : Nat} {bs : List Block} (h : Tiles a z bs) (hp : p ≤ a) :
    bs.filter (fun b => b.pos < p) = [] := by
  rw [List.filter_eq_nil_iff]
  intro b hb
  have := tiles_bounds h hb
  simp; omega

/-- `set_len(b.pos)`: the blocks before `b` tile `[a, b.pos)`. -/
theorem tiles_truncate {a z : Nat} {bs : List Block} (h : Tiles a z bs) {b : Block} (hb : b ∈ bs) :
    Tiles a b.pos (bs.filter (fun x => x.pos < b.pos)) := by
  induction bs generalizing a with
  | nil => simp at hb
  | cons x bs ih =>
    simp only [Tiles] at h
    rcases List.mem_cons.mp hb with hx | hb1
    · subst hx
      have : (b :: bs).filter (fun x => x.pos < b.pos) = [] := by
        rw [List.filter_cons]
        simp only [Nat.lt_irrefl, decide_false]
        exact filter_lt_nil h.2.2.2 (by omega)
      rw [this]; simp [Tiles, h.1]
    · have hb2 := tiles_bounds h.2.2.2 hb1
      have hlt : x.pos < b.pos := by omega
      rw [List.filter_cons]
      simp only [hlt, decide_true, if_true, Tiles]
      exact ⟨h.1, h.2.1, h.2.2.1, ih h.2.2.2 hb1⟩

/-- `create_empty` with coalescing: the block at `p` absorbs its successor at `p + s`. -/
theorem tiles_merge {a z p s s2 : Nat} {x y e : Body} {bs : List Block} (h : Tiles a z bs)
    (h1 : ⟨p, s, x⟩ ∈ bs) (h2 : ⟨p + s, s2, y⟩ ∈ bs) :
    Tiles a z (replaceAt (p + s) [] (replaceAt p [⟨p, s + s2, e⟩] bs)) := by
  induction bs generalizing a with
  | nil => simp at h1
  | cons b bs ih =>
    have hall := h
    simp only [Tiles] at h
    have hs : 0 < s := (tiles_bounds hall h1).2.2.1
    have hs2 := (tiles_bounds hall h2).2.2
    by_cases hp : b.pos = p
    · -- `b` is the block at `p`
      have hb : b = ⟨p, s, x⟩ := tiles_pos_inj hall List.mem_cons_self h1 hp
      subst hb
      have h2' : (⟨p + s, s2, y⟩ : Block) ∈ bs := by
        rcases List.mem_cons.mp h2 with e | e
        · injection e with e1; omega
        · exact e
      have hno : ∀ c ∈ bs, c.pos ≠ p := by
        intro c hc
        have := tiles_bounds h.2.2.2 hc
        simp at this; omega
      rw [replaceAt_cons, replaceAt_id hno]
      simp only [if_true, List.singleton_append, replaceAt_cons]
      have : ¬ p = p + s := by omega
      simp only [this, if_false, List.singleton_append]
      -- the tail starts with the block at `p + s`
      cases bs with
      | nil => simp at h2'
      | cons c bs =>
        have ht := h.2.2.2
        simp only [Tiles] at ht
        have hc : c = ⟨p + s, s2, y⟩ :=
          tiles_pos_inj h.2.2.2 List.mem_cons_self h2' (by simp; omega)
        subst hc
        dsimp only at ht h
        have hno2 : ∀ d ∈ bs, d.pos ≠ p + s := by
          intro d hd
          have := tiles_bounds ht.2.2.2 hd
          omega
        rw [replaceAt_cons, replaceAt_id hno2]
        simp only [if_true, List.nil_append, Tiles]
        refine ⟨h.1, by omega, ?_, ?_⟩
        · exact (Nat.dvd_add_right h.2.2.1).mpr hs2.2
        · have e : a + (s + s2) = a + s + s2 := by omega
          rw [e]; exact ht.2.2.2
    · have h1' : (⟨p, s, x⟩ : Block) ∈ bs := by
        rcases List.mem_cons.mp h1 with e | e
        · exact absurd (by rw [← e]) hp
        · exact e
      have h2' : (⟨p + s, s2, y⟩ : Block) ∈ bs := by
        rcases List.mem_cons.mp h2 with e | e
        · have hbp : b.pos = p + s := by rw [← e]
          have := tiles_bounds h.2.2.2 h1'
          simp at this; omega
        · exact e
      have hb1 := tiles_bounds h.2.2.2 h1'
      simp at hb1
      rw [replaceAt_cons]
      simp only [hp, if_false, List.singleton_append, replaceAt_cons]
      have : ¬ b.pos = p + s := by omega
      simp only [this, if_false, List.singleton_append, Tiles]
      exact ⟨h.1, h.2.1, h.2.2.1, ih h.2.2.2 h1' h2'⟩

end RoutinatorModel.Archive
