import RoutinatorModel.Model.Engine2
import RoutinatorModel.Proofs.Engine
/-! The walk with bookkeeping (`Model/Engine2.lean`) erases to the shared engine model. -/
namespace RoutinatorModel.Engine

def PointX.erase (r : PointX) : PointResult := ⟨r.items, r.kids.map (·.ctx), r.accepted, r.stored⟩

theorem processObjectX_erase (cfg : Cfg) (now : Int) (ca : CaCtx) (vm : ValidMft) (pd : List Int)
    (ext : Ext) (content : Content) (a : Acc) :
    processObject cfg now ca vm ext content a.items (a.kids.map (·.ctx))
      = ((processObjectX cfg now ca vm pd ext content a).items,
         (processObjectX cfg now ca vm pd ext content a).kids.map (·.ctx)) := by
  unfold processObject processObjectX Acc.addPayload
  cases ext <;> cases content <;> simp only [] <;> (repeat' split) <;>
    simp_all [List.isEmpty_iff]

theorem runEntriesX_erase (cfg : Cfg) (now : Int) (ca : CaCtx) (vm : ValidMft) (pd : List Int)
    (files : List (Name × File)) (l : List Entry) (a : Acc) (objs : List StoredObj) :
    match runEntriesX cfg now ca vm pd files l a objs with
    | .complete a' objs' =>
      runEntries cfg now ca vm files l a.items (a.kids.map (·.ctx)) objs
        = .complete a'.items (a'.kids.map (·.ctx)) objs'
    | .aborted =>
      ∃ acc, runEntries cfg now ca vm files l a.items (a.kids.map (·.ctx)) objs = .aborted acc := by
  induction l generalizing a objs with
  | nil => simp [runEntriesX, runEntries]
  | cons e rest ih =>
    unfold runEntriesX runEntries
    by_cases hn : e.nameOk = true
    · simp only [hn, Bool.not_true, Bool.false_eq_true, ↓reduceIte]
      cases hl : lookup e.name files with
      | none => exact ⟨_, rfl⟩
      | some file =>
        simp only []
        by_cases hh : (file.hash != e.hash) = true
        · simp only [hh, ↓reduceIte]; exact ⟨_, rfl⟩
        · simp only [hh, Bool.false_eq_true, ↓reduceIte]
          have he := processObjectX_erase cfg now ca vm pd e.ext file.content a
          have := ih (processObjectX cfg now ca vm pd e.ext file.content a)
            (objs ++ [⟨e.name, e.ext, file⟩])
          rw [he]
          exact this
    · simp only [hn, Bool.not_false, ↓reduceIte]; exact ⟨_, rfl⟩

theorem runStoredObjectsX_erase (cfg : Cfg) (now : Int) (ca : CaCtx) (vm : ValidMft)
    (pd : List Int) (l : List StoredObj) (a : Acc) :
    runStoredObjects cfg now ca vm l a.items (a.kids.map (·.ctx))
      = ((runStoredObjectsX cfg now ca vm pd l a).items,
         (runStoredObjectsX cfg now ca vm pd l a).kids.map (·.ctx)) := by
  induction l generalizing a with
  | nil => simp [runStoredObjects, runStoredObjectsX]
  | cons o rest ih =>
    unfold runStoredObjects runStoredObjectsX
    rw [processObjectX_erase cfg now ca vm pd]
    exact ih _

theorem processStoredX_erase (cfg : Cfg) (now : Int) (ca : CaX) (st : Option Stored) :
    processStored cfg now ca.ctx st [] = (processStoredX cfg now ca st).erase := by
  unfold processStored processStoredX
  cases st with
  | none => rfl
  | some s =>
    simp only []
    cases hv : validateStored cfg now s with
    | none => rfl
    | some vm =>
      simp only []
      have := runStoredObjectsX_erase cfg now ca.ctx vm (ca.dates ++ pointDates vm s.crl) s.objects
        ⟨[], [], pointValidity ca.refresh vm s.crl, []⟩
      simp only [List.map_nil] at this
      rw [this]
      rfl

/-- What `processCollectedX` is, in terms of the shared model. -/
theorem processCollectedX_erase (cfg : Cfg) (now : Int) (ca : CaX) (f : Fetched)
    (st : Option Stored) (reorder : List Entry → List Entry) :
    match processCollectedX cfg now ca f st reorder with
    | .done r => processCollectedWith cfg now ca.ctx f st reorder = .done r.erase
    | .fallback st' => ∃ acc, processCollectedWith cfg now ca.ctx f st reorder = .fallback acc st' := by
  unfold processCollectedX processCollectedWith
  cases hm : f.mft with
  | none => exact ⟨_, rfl⟩
  | some mf =>
    simp only []
    by_cases hs : sameManifest st mf ca.ctx = true
    · simp only [hs, ↓reduceIte]; exact ⟨_, rfl⟩
    · simp only [hs, Bool.false_eq_true, ↓reduceIte]
      cases hv : validateCollected cfg now f mf with
      | none => exact ⟨_, rfl⟩
      | some p =>
        obtain ⟨vm, crl⟩ := p
        simp only []
        cases hn : collectedIsNewer vm.mft st with
        | mk b st' =>
          cases b with
          | false => exact ⟨_, rfl⟩
          | true =>
            simp only []
            have := runEntriesX_erase cfg now ca.ctx vm (ca.dates ++ pointDates vm crl) f.files
              (reorder vm.mft.entries) ⟨[], [], pointValidity ca.refresh vm crl, []⟩ []
            cases hr : runEntriesX cfg now ca.ctx vm (ca.dates ++ pointDates vm crl) f.files
              (reorder vm.mft.entries) ⟨[], [], pointValidity ca.refresh vm crl, []⟩ [] with
            | complete a objs =>
              rw [hr] at this
              simp only [List.map_nil] at this
              simp only [this]
              rfl
            | aborted =>
              rw [hr] at this
              simp only [List.map_nil] at this
              obtain ⟨acc, hacc⟩ := this
              simp only [hacc]
              exact ⟨_, rfl⟩

theorem processPointXWith_erase (cfg : Cfg) (now : Int) (coll : Option Offer) (st : Option Stored)
    (ca : CaX) (reorder : List Entry → List Entry) :
    processPointWith true cfg now coll st ca.ctx reorder
      = (processPointXWith cfg now coll st ca reorder).erase := by
  unfold processPointWith processPointXWith
  cases coll with
  | none => exact processStoredX_erase cfg now ca st
  | some offer =>
    simp only []
    have := processCollectedX_erase cfg now ca (offer.get ca.ctx.info.mft) st reorder
    cases hc : processCollectedX cfg now ca (offer.get ca.ctx.info.mft) st reorder with
    | done r =>
      rw [hc] at this
      simp only [this]
    | fallback st' =>
      rw [hc] at this
      obtain ⟨acc, hacc⟩ := this
      simp only [hacc, ↓reduceIte]
      exact processStoredX_erase cfg now ca st'

theorem processPointX_erase (cfg : Cfg) (now : Int) (coll : Option Offer) (st : Option Stored)
    (ca : CaX) :
    processPoint true cfg now coll st ca.ctx = (processPointX cfg now coll st ca).erase := by
  unfold processPoint processPointX
  exact processPointXWith_erase cfg now coll st ca _

theorem payloadOf_append (a b : List Visit) : payloadOf (a ++ b) = payloadOf a ++ payloadOf b := by
  simp [payloadOf]

/-- The step function of `processCa`'s fold. -/
def caStep (cfg : Cfg) (now : Int) (coll : Option Offer) (fuel : Nat)
    (acc : List Item × Store) (kid : CaCtx) : List Item × Store :=
  let sub := processCa true cfg now coll fuel acc.2 kid
  (acc.1 ++ sub.1, sub.2)

/-- The step function of `processCaX`'s fold. -/
def caStepX (cfg : Cfg) (now : Int) (coll : Option Offer) (fuel : Nat)
    (acc : List Visit × Store) (kid : CaX) : List Visit × Store :=
  let sub := processCaX cfg now coll fuel acc.2 kid
  (acc.1 ++ sub.1, sub.2)

theorem processCa_succ (cfg : Cfg) (now : Int) (coll : Option Offer) (fuel : Nat) (store : Store)
    (ca : CaCtx) :
    processCa true cfg now coll (fuel + 1) store ca
      = (processPoint true cfg now coll (store.point ca.info.mft) ca).kids.foldl
          (caStep cfg now coll fuel)
          ((processPoint true cfg now coll (store.point ca.info.mft) ca).items,
            store.setPoint ca.info.mft
              (processPoint true cfg now coll (store.point ca.info.mft) ca).stored) := rfl

theorem processCaX_succ (cfg : Cfg) (now : Int) (coll : Option Offer) (fuel : Nat) (store : Store)
    (ca : CaX) :
    processCaX cfg now coll (fuel + 1) store ca
      = (processPointX cfg now coll (store.point ca.ctx.info.mft) ca).kids.foldl
          (caStepX cfg now coll fuel)
          ([⟨ca, store.point ca.ctx.info.mft,
              processPointX cfg now coll (store.point ca.ctx.info.mft) ca⟩],
            store.setPoint ca.ctx.info.mft
              (processPointX cfg now coll (store.point ca.ctx.info.mft) ca).stored) := rfl

theorem foldl_caStep_erase (cfg : Cfg) (now : Int) (coll : Option Offer) (fuel : Nat)
    (ih : ∀ store (ca : CaX), processCa true cfg now coll fuel store ca.ctx
      = (payloadOf (processCaX cfg now coll fuel store ca).1, (processCaX cfg now coll fuel store ca).2))
    (ks : List CaX) (vis : List Visit) (store : Store) :
    (ks.map (·.ctx)).foldl (caStep cfg now coll fuel) (payloadOf vis, store)
      = (payloadOf (ks.foldl (caStepX cfg now coll fuel) (vis, store)).1,
         (ks.foldl (caStepX cfg now coll fuel) (vis, store)).2) := by
  induction ks generalizing vis store with
  | nil => rfl
  | cons k rest ihk =>
    simp only [List.map_cons, List.foldl_cons]
    have h1 : caStep cfg now coll fuel (payloadOf vis, store) k.ctx
        = (payloadOf (caStepX cfg now coll fuel (vis, store) k).1,
           (caStepX cfg now coll fuel (vis, store) k).2) := by
      simp only [caStep, caStepX, ih, payloadOf_append]
    rw [h1]
    exact ihk _ _

/-- **Erasure.** Forgetting the bookkeeping of `processCaX` gives `processCa true`. -/
theorem processCaX_erase (cfg : Cfg) (now : Int) (coll : Option Offer) (fuel : Nat) (store : Store)
    (ca : CaX) :
    processCa true cfg now coll fuel store ca.ctx
      = (payloadOf (processCaX cfg now coll fuel store ca).1,
         (processCaX cfg now coll fuel store ca).2) := by
  induction fuel generalizing store ca with
  | zero => rfl
  | succ fuel ih =>
    rw [processCa_succ, processCaX_succ, processPointX_erase]
    have := foldl_caStep_erase cfg now coll fuel ih
      (processPointX cfg now coll (store.point ca.ctx.info.mft) ca).kids
      [⟨ca, store.point ca.ctx.info.mft, processPointX cfg now coll (store.point ca.ctx.info.mft) ca⟩]
      (store.setPoint ca.ctx.info.mft
        (processPointX cfg now coll (store.point ca.ctx.info.mft) ca).stored)
    simpa [payloadOf, PointX.erase] using this

theorem processTalX_erase (cfg : Cfg) (now : Int) (view : Option View) (tal : Tal) (store : Store) :
    processTal true cfg now view tal store
      = (payloadOf (processTalX cfg now view tal store).1, (processTalX cfg now view tal store).2) := by
  unfold processTal processTalX
  cases hs : selectTa now view tal tal.uris store with
  | mk c store' =>
    cases c with
    | none => rfl
    | some c =>
      simp only []
      exact processCaX_erase cfg now _ _ store' (CaX.root c)

/-- **Erasure.** The payload and store of `runOnceX` are those of `runOnce true`. -/
theorem runOnceX_erase (cfg : Cfg) (now : Int) (view : Option View) (tals : List Tal)
    (store : Store) :
    runOnce true cfg now view tals store
      = (payloadOf (runOnceX cfg now view tals store).1, (runOnceX cfg now view tals store).2) := by
  unfold runOnce runOnceX
  suffices h : ∀ (vis : List Visit) (store : Store),
      tals.foldl (fun (acc : List Item × Store) tal =>
          let r := processTal true cfg now view tal acc.2
          (acc.1 ++ r.1, r.2)) (payloadOf vis, store)
        = (payloadOf (tals.foldl (fun (acc : List Visit × Store) tal =>
              let r := processTalX cfg now view tal acc.2
              (acc.1 ++ r.1, r.2)) (vis, store)).1,
           (tals.foldl (fun (acc : List Visit × Store) tal =>
              let r := processTalX cfg now view tal acc.2
              (acc.1 ++ r.1, r.2)) (vis, store)).2) by
    simpa [payloadOf] using h [] store
  induction tals with
  | nil => intro vis store; rfl
  | cons tal rest ih =>
    intro vis store
    simp only [List.foldl_cons]
    rw [processTalX_erase, ← payloadOf_append]
    exact ih _ _

end RoutinatorModel.Engine
