import RoutinatorModel.Proofs.Engine2Sound
/-!
# Induction principles for the walk (`processCaX`, `runOnceX`) and trust anchor selection
-/
namespace RoutinatorModel.Engine

/-- **Invariant rule for `process_ca_task`.** `P` is an invariant of CA tasks, `S` of the
store, `Q` what is claimed of every visit. If one publication point preserves them, the
whole subtree walk does. -/
theorem processCaX_rule (cfg : Cfg) (now : Int) (coll : Option Offer)
    {P : CaX → Prop} {S : Store → Prop} {Q : Visit → Prop}
    (hpoint : ∀ ca store, P ca → S store →
      S (store.setPoint ca.ctx.info.mft
          (processPointX cfg now coll (store.point ca.ctx.info.mft) ca).stored)
      ∧ (∀ k ∈ (processPointX cfg now coll (store.point ca.ctx.info.mft) ca).kids, P k)
      ∧ Q ⟨ca, store.point ca.ctx.info.mft,
            processPointX cfg now coll (store.point ca.ctx.info.mft) ca⟩) :
    ∀ fuel store ca, P ca → S store →
      S (processCaX cfg now coll fuel store ca).2
      ∧ ∀ v ∈ (processCaX cfg now coll fuel store ca).1, Q v := by
  intro fuel
  induction fuel with
  | zero =>
    intro store ca _ hS
    exact ⟨hS, by simp [processCaX]⟩
  | succ fuel ih =>
    intro store ca hP hS
    rw [processCaX_succ]
    obtain ⟨hS', hkids, hQ⟩ := hpoint ca store hP hS
    -- the fold over the children
    have hfold : ∀ (ks : List CaX) (acc : List Visit × Store),
        (∀ k ∈ ks, P k) → S acc.2 → (∀ v ∈ acc.1, Q v) →
        S (ks.foldl (caStepX cfg now coll fuel) acc).2
        ∧ ∀ v ∈ (ks.foldl (caStepX cfg now coll fuel) acc).1, Q v := by
      intro ks
      induction ks with
      | nil => intro acc _ hs hq; exact ⟨hs, hq⟩
      | cons k rest ihk =>
        intro acc hk hs hq
        simp only [List.foldl_cons]
        obtain ⟨hs1, hq1⟩ := ih acc.2 k (hk k (by simp)) hs
        apply ihk
        · exact fun k' hk' => hk k' (by simp [hk'])
        · exact hs1
        · intro v hv
          simp only [caStepX, List.mem_append] at hv
          rcases hv with hv | hv
          · exact hq v hv
          · exact hq1 v hv
    apply hfold _ _ hkids hS'
    intro v hv
    simp only [List.mem_singleton] at hv
    subst hv
    exact hQ

/-! ## Trust anchors -/

/-- Where a trust anchor certificate for `uri` can come from in a run that started with
`store₀`: downloaded in this run, or held by the store. -/
def TaAvail (view : Option View) (store₀ : Store) (uri : Uri) (c : TaCert) : Prop :=
  (∃ file, download view uri = some file ∧ file.cert = some c)
  ∨ (∃ file, store₀.ta uri = some file ∧ file.cert = some c)

/-- Every stored trust anchor file was in `store₀` or has been downloaded in this run. -/
def TaInv (view : Option View) (store₀ store : Store) : Prop :=
  ∀ uri file, store.ta uri = some file →
    store₀.ta uri = some file ∨ download view uri = some file

theorem TaInv.refl (view : Option View) (store : Store) : TaInv view store store :=
  fun _ _ h => Or.inl h

theorem Store.ta_setPoint (s : Store) (u : Uri) (v : Option Stored) (uri : Uri) :
    (s.setPoint u v).ta uri = s.ta uri := rfl

theorem Store.points_setTa (s : Store) (u : Uri) (v : TaFile) :
    (s.setTa u v).points = s.points := rfl

theorem TaInv.setPoint {view : Option View} {store₀ store : Store}
    (h : TaInv view store₀ store) (u : Uri) (v : Option Stored) :
    TaInv view store₀ (store.setPoint u v) := h

theorem loadTa_spec (view : Option View) (store₀ store : Store) (uri : Uri)
    (hinv : TaInv view store₀ store) :
    TaInv view store₀ (loadTa view store uri).2
    ∧ (loadTa view store uri).2.points = store.points
    ∧ ∀ c, (loadTa view store uri).1 = some c → TaAvail view store₀ uri c := by
  rw [loadTa_eq]
  have hstored : ∀ c, storedTaCert store uri = some c → TaAvail view store₀ uri c := by
    intro c hc
    unfold storedTaCert at hc
    cases hf : store.ta uri with
    | none => simp [hf] at hc
    | some f =>
      simp only [hf] at hc
      rcases hinv uri f hf with h | h
      · exact Or.inr ⟨f, h, hc⟩
      · exact Or.inl ⟨f, h, hc⟩
  cases hd : download view uri with
  | none => exact ⟨hinv, rfl, hstored⟩
  | some file =>
    simp only []
    cases hc : file.cert with
    | none => exact ⟨hinv, rfl, hstored⟩
    | some c =>
      simp only []
      refine ⟨?_, rfl, ?_⟩
      · intro uri' f hf
        unfold Store.ta Store.setTa at hf
        simp only [] at hf
        by_cases hu : uri' = uri
        · subst hu
          rw [lookup_setKey_self] at hf
          cases hf
          exact Or.inr hd
        · rw [lookup_setKey_other _ _ _ _ hu] at hf
          exact hinv uri' f hf
      · intro c' hc'
        cases hc'
        exact Or.inl ⟨file, hd, hc⟩

theorem selectTa_spec (now : Int) (view : Option View) (tal : Tal) (store₀ : Store)
    (uris : List Uri) (store : Store) (hinv : TaInv view store₀ store) :
    TaInv view store₀ (selectTa now view tal uris store).2
    ∧ (selectTa now view tal uris store).2.points = store.points
    ∧ ∀ c, (selectTa now view tal uris store).1 = some c →
        ∃ uri ∈ uris, TaAvail view store₀ uri c ∧ c.key = tal.key ∧ c.valid now = true := by
  induction uris generalizing store with
  | nil => exact ⟨hinv, rfl, by simp [selectTa]⟩
  | cons uri rest ih =>
    unfold selectTa
    obtain ⟨h1, h2, h3⟩ := loadTa_spec view store₀ store uri hinv
    cases hl : loadTa view store uri with
    | mk oc store' =>
      rw [hl] at h1 h2 h3
      simp only [] at h1 h2 h3
      have hrest := ih store' h1
      have lift : ∀ c, (selectTa now view tal rest store').1 = some c →
          ∃ uri' ∈ uri :: rest, TaAvail view store₀ uri' c ∧ c.key = tal.key
            ∧ c.valid now = true := by
        intro c hc
        obtain ⟨u, hu, hr⟩ := hrest.2.2 c hc
        exact ⟨u, by simp [hu], hr⟩
      cases oc with
      | none => exact ⟨hrest.1, hrest.2.1.trans h2, lift⟩
      | some c =>
        simp only []
        by_cases hk : (c.key != tal.key) = true
        · simp only [hk, ↓reduceIte]
          exact ⟨hrest.1, hrest.2.1.trans h2, lift⟩
        · simp only [hk, Bool.false_eq_true, ↓reduceIte]
          by_cases hv : (!c.valid now) = true
          · simp only [hv, ↓reduceIte]
            exact ⟨hrest.1, hrest.2.1.trans h2, lift⟩
          · simp only [hv, Bool.false_eq_true, ↓reduceIte]
            refine ⟨h1, h2, ?_⟩
            intro c' hc'
            cases hc'
            refine ⟨uri, by simp, h3 c rfl, ?_, ?_⟩
            · simpa using hk
            · simpa using hv

/-- **Invariant rule for a whole run.** As `processCaX_rule`; `P` must hold of the task of
every trust anchor certificate that `selectTa` can come up with. The store invariant `S`
may only depend on the stored publication points. -/
theorem runOnceX_rule (cfg : Cfg) (now : Int) (view : Option View) (tals : List Tal)
    (store₀ : Store)
    {P : CaX → Prop} {S : Store → Prop} {Q : Visit → Prop}
    (hS : ∀ s s', s.points = s'.points → S s → S s')
    (hroot : ∀ tal ∈ tals, ∀ uri ∈ tal.uris, ∀ c, TaAvail view store₀ uri c →
      c.key = tal.key → c.valid now = true → P (CaX.root c))
    (hpoint : ∀ ca store, P ca → S store →
      S (store.setPoint ca.ctx.info.mft
          (processPointX cfg now (view.map (·.points)) (store.point ca.ctx.info.mft) ca).stored)
      ∧ (∀ k ∈ (processPointX cfg now (view.map (·.points))
            (store.point ca.ctx.info.mft) ca).kids, P k)
      ∧ Q ⟨ca, store.point ca.ctx.info.mft,
            processPointX cfg now (view.map (·.points)) (store.point ca.ctx.info.mft) ca⟩)
    (h0 : S store₀) :
    S (runOnceX cfg now view tals store₀).2
    ∧ ∀ v ∈ (runOnceX cfg now view tals store₀).1, Q v := by
  unfold runOnceX
  -- `processCaX` never touches the trust anchor part of the store
  have hta : ∀ fuel store ca,
      (processCaX cfg now (view.map (·.points)) fuel store ca).2.tas = store.tas := by
    intro fuel
    induction fuel with
    | zero => intro store ca; rfl
    | succ fuel ih =>
      intro store ca
      rw [processCaX_succ]
      have hfold : ∀ (ks : List CaX) (acc : List Visit × Store),
          (ks.foldl (caStepX cfg now (view.map (·.points)) fuel) acc).2.tas = acc.2.tas := by
        intro ks
        induction ks with
        | nil => intro acc; rfl
        | cons k rest ihk =>
          intro acc
          simp only [List.foldl_cons]
          rw [ihk]
          exact ih _ _
      rw [hfold]
      rfl
  have htainv : ∀ store store', store'.tas = store.tas → TaInv view store₀ store →
      TaInv view store₀ store' := by
    intro store store' he h uri file hf
    apply h uri file
    unfold Store.ta at hf ⊢
    rw [← he]; exact hf
  suffices h : ∀ (ts : List Tal) (acc : List Visit × Store),
      (∀ t ∈ ts, t ∈ tals) → S acc.2 → TaInv view store₀ acc.2 → (∀ v ∈ acc.1, Q v) →
      S (ts.foldl (fun (acc : List Visit × Store) tal =>
            let r := processTalX cfg now view tal acc.2
            (acc.1 ++ r.1, r.2)) acc).2
      ∧ ∀ v ∈ (ts.foldl (fun (acc : List Visit × Store) tal =>
            let r := processTalX cfg now view tal acc.2
            (acc.1 ++ r.1, r.2)) acc).1, Q v by
    exact h tals ([], store₀) (fun _ h => h) h0 (TaInv.refl _ _) (by simp)
  intro ts
  induction ts with
  | nil => intro acc _ hs _ hq; exact ⟨hs, hq⟩
  | cons tal rest ih =>
    intro acc hmem hs hinv hq
    simp only [List.foldl_cons]
    have htal : tal ∈ tals := hmem tal (by simp)
    obtain ⟨hi, hp, hc⟩ := selectTa_spec now view tal store₀ tal.uris acc.2 hinv
    have hstep : S (processTalX cfg now view tal acc.2).2
        ∧ TaInv view store₀ (processTalX cfg now view tal acc.2).2
        ∧ ∀ v ∈ (processTalX cfg now view tal acc.2).1, Q v := by
      unfold processTalX
      cases hsel : selectTa now view tal tal.uris acc.2 with
      | mk oc store' =>
        rw [hsel] at hi hp hc
        simp only [] at hi hp hc
        cases oc with
        | none => exact ⟨hS _ _ hp.symm hs, hi, by simp⟩
        | some c =>
          simp only []
          obtain ⟨uri, huri, hav, hkey, hval⟩ := hc c rfl
          have hP := hroot tal htal uri huri c hav hkey hval
          obtain ⟨h1, h2⟩ := processCaX_rule cfg now (view.map (·.points)) hpoint
            (cfg.maxDepth + 1) store' (CaX.root c) hP (hS _ _ hp.symm hs)
          exact ⟨h1, htainv _ _ (hta _ _ _) hi, h2⟩
    apply ih
    · exact fun t ht => hmem t (by simp [ht])
    · exact hstep.1
    · exact hstep.2.1
    · intro v hv
      simp only [List.mem_append] at hv
      rcases hv with hv | hv
      · exact hq v hv
      · exact hstep.2.2 v hv

end RoutinatorModel.Engine
