import RoutinatorModel.Model.Serial
/-! Arithmetic facts about `serialPcmp` / `serialAdd` (RFC 1982 over `Nat` modulo `2^32`). -/
namespace RoutinatorModel

/-- Comparing a serial with the serial `j` steps ahead of it (`j < 2^32`). -/
theorem serialPcmp_offset (a j : Nat) (hj : j < serialMod) :
    serialPcmp (a % serialMod) ((a + j) % serialMod) =
      if j = 0 then some .eq
      else if j < serialHalf then some .lt
      else if j = serialHalf then none
      else some .gt := by
  unfold serialPcmp serialMod serialHalf at *
  simp only []
  repeat' split
  all_goals first | rfl | omega

theorem serialAdd_lt (s n : Nat) : serialAdd s n < serialMod := by
  unfold serialAdd serialMod; omega

theorem serialLt_iff (a b : Nat) : serialLt a b = true ↔ serialPcmp a b = some .lt := by
  unfold serialLt; simp

end RoutinatorModel
