import RoutinatorModel.Model.Stream
import RoutinatorModel.Proofs.Template
/-! Chunking never changes the byte stream; the documents are JSON. -/
namespace RoutinatorModel.Stream
open RoutinatorModel.Json

/-! ## Flattening the chunks -/

@[simp] theorem vecText_cons (p : Text) (acc : List Text) : vecText (p :: acc) = vecText acc ++ p := by
  simp [vecText]

@[simp] theorem vecText_nil : vecText [] = [] := rfl

theorem wdLoop_flat (τ : Nat) (wd : List Item) : ∀ (first : Bool) (len : Nat) (acc : List Text),
    (wdLoop τ first len acc wd).flatten = vecText acc ++ (itemsText first wd ++ deltaFooter) := by
  induction wd with
  | nil =>
    intro first len acc
    simp only [wdLoop, itemsText]
    split <;> simp
  | cons it rest ih =>
    intro first len acc
    simp only [wdLoop, itemsText]
    split
    · simp [ih, List.append_assoc]
    · simp [ih, List.append_assoc]

theorem annLoop_flat (τ : Nat) (wd ann : List Item) : ∀ (first : Bool) (len : Nat) (acc : List Text),
    (annLoop τ wd first len acc ann).flatten =
      vecText acc ++ (itemsText first ann ++ (deltaSeparator ++ (itemsText true wd ++ deltaFooter))) := by
  induction ann with
  | nil =>
    intro first len acc
    simp only [annLoop, itemsText]
    split <;> simp [wdLoop_flat, List.append_assoc]
  | cons it rest ih =>
    intro first len acc
    simp only [annLoop, itemsText]
    split
    · simp [ih, List.append_assoc]
    · simp [ih, List.append_assoc]

theorem snapLoop_flat (τ : Nat) (items : List Item) : ∀ (first : Bool) (len : Nat) (acc : List Text),
    (snapLoop τ first len acc items).flatten =
      vecText acc ++ (itemsText (first && !decide (len > τ)) items ++ deltaFooter) := by
  induction items with
  | nil =>
    intro first len acc
    simp only [snapLoop, itemsText]
    split <;> simp
  | cons it rest ih =>
    intro first len acc
    simp only [snapLoop, itemsText]
    split
    · rename_i h
      simp [ih, h, List.append_assoc]
    · rename_i h
      simp [ih, h, List.append_assoc]

/-! ## Items joined by commas -/

theorem joinComma_cons (e : Text) (r : List Text) :
    joinComma (e :: r) = e ++ (r.flatMap fun x => 0x2C :: x) := by
  induction r generalizing e with
  | nil => simp [joinComma]
  | cons e2 r2 ih =>
    simp only [joinComma, List.flatMap_cons]
    rw [ih]
    simp

theorem itemsText_false (l : List Item) :
    itemsText false l = (l.map itemText).flatMap fun x => 0x2C :: x := by
  induction l with
  | nil => rfl
  | cons it rest ih => simp [itemsText, piece, itemComma, ih]

theorem itemsText_true (l : List Item) : itemsText true l = joinComma (l.map itemText) := by
  cases l with
  | nil => rfl
  | cons it rest =>
    simp only [itemsText, piece, List.map_cons, joinComma_cons, itemsText_false]
    simp

/-! ## Alphabets -/

theorem isChars_of_plainB {s : Text} (h : plainB s = true) : IsChars s := by
  apply isChars_of_plain
  intro c hc
  have := List.all_eq_true.mp h c hc
  simp only [Bool.and_eq_true, decide_eq_true_eq, bne_iff_ne, ne_eq] at this
  refine ⟨?_, this.2⟩
  simp only [isPlain, Bool.and_eq_true, decide_eq_true_eq, bne_iff_ne, ne_eq]
  exact ⟨⟨this.1.1.1, this.1.1.2⟩, this.1.2⟩

theorem isInt_of_intB {s : Text} (h : intB s = true) : IsInt s := by
  unfold intB at h
  split at h
  · cases h
  · exact Or.inl rfl
  · rename_i d ds _
    simp only [Bool.and_eq_true, decide_eq_true_eq, List.all_eq_true] at h
    exact Or.inr ⟨d, ds, rfl, h.1.1, h.1.2, h.2⟩

/-! ## Items are elements -/

theorem origin_ok : pJson (toTmpl itemOrigin) = true := by decide +kernel
theorem routerKey_ok : pJson (toTmpl itemRouterKey) = true := by decide +kernel

def aspaSegs : List Seg := itemAspaHead ++ [.hole .elems, .lit itemAspaTail]

theorem aspa_ok : pJson (toTmpl aspaSegs) = true := by decide +kernel

/-- A provider as the loop writes it, without the comma. -/
def providerElem (first : Bool) (p : Text) : Text :=
  (if first then [] else [0x20]) ++ (0x22 :: (p ++ [0x22]))

theorem providersText_false (ps : List Text) :
    providersText false ps = (ps.map (providerElem false)).flatMap fun x => 0x2C :: x := by
  induction ps with
  | nil => rfl
  | cons p rest ih =>
    simp [providersText, itemAspaNext, fillFrom, providerElem, ih]

theorem providersText_true (ps : List Text) :
    providersText true ps = joinComma (match ps with
      | [] => []
      | p :: rest => providerElem true p :: rest.map (providerElem false)) := by
  cases ps with
  | nil => rfl
  | cons p rest =>
    simp only [providersText, joinComma_cons, providersText_false]
    simp [itemAspaFirst, fillFrom, providerElem]

theorem providerElem_element (first : Bool) {p : Text} (hp : IsChars p) :
    J .element (providerElem first p) := by
  have hw : IsWs (if first then [] else [0x20]) := by
    cases first
    · exact IsWs.of_all (by decide)
    · exact IsWs.nil
  have := J.element hw (J.str hp) IsWs.nil
  simpa [providerElem] using this

theorem providers_holeOk {ps : List Text} (h : ps.all plainB = true) :
    HoleOk .elems (providersText true ps) := by
  rw [providersText_true]
  apply holeOk_join
  have hall : ∀ p ∈ ps, IsChars p := fun p hp => isChars_of_plainB (List.all_eq_true.mp h p hp)
  cases ps with
  | nil => intro e he; cases he
  | cons p rest =>
    intro e he
    simp only [List.mem_cons, List.mem_map] at he
    rcases he with rfl | ⟨q, hq, rfl⟩
    · exact providerElem_element true (hall p List.mem_cons_self)
    · exact providerElem_element false (hall q (List.mem_cons_of_mem _ hq))

/-- Every item with well-formed fields is rendered as `ws value ws`. -/
theorem item_element {it : Item} (h : itemOkB it = true) : J .element (itemText it) := by
  cases it with
  | origin asn addr len maxLen =>
    simp only [itemOkB, Bool.and_eq_true] at h
    exact fill_json origin_ok ⟨isChars_of_plainB h.1.1.1, isChars_of_plainB h.1.1.2,
      isInt_of_intB h.1.2, isInt_of_intB h.2, trivial⟩
  | routerKey keyId asn keyInfo =>
    simp only [itemOkB, Bool.and_eq_true] at h
    exact fill_json routerKey_ok ⟨isChars_of_plainB h.1.1, isChars_of_plainB h.1.2,
      isChars_of_plainB h.2, trivial⟩
  | aspa customer providers =>
    simp only [itemOkB, Bool.and_eq_true] at h
    have : itemText (.aspa customer providers) =
        fillFrom aspaSegs [customer, providersText true providers] := by
      simp [itemText, aspaSegs, itemAspaHead, fillFrom]
    rw [this]
    exact fill_json aspa_ok ⟨isChars_of_plainB h.1, providers_holeOk h.2, trivial⟩

theorem items_holeOk {l : List Item} (h : l.all itemOkB = true) :
    HoleOk .elems (itemsText true l) := by
  rw [itemsText_true]
  apply holeOk_join
  intro e he
  obtain ⟨it, hit, rfl⟩ := List.mem_map.mp he
  exact item_element (List.all_eq_true.mp h it hit)

/-! ## The documents -/

def deltaDocSegs : List Seg :=
  deltaHeader ++ [.hole .elems, .lit deltaSeparator, .hole .elems, .lit deltaFooter]

def snapshotDocSegs : List Seg := snapshotHeader ++ [.hole .elems, .lit deltaFooter]

theorem deltaDoc_ok : pJson (toTmpl deltaDocSegs) = true := by decide +kernel
theorem snapshotDoc_ok : pJson (toTmpl snapshotDocSegs) = true := by decide +kernel

theorem deltaDoc_fill (d : Delta) :
    deltaDoc d = fillFrom deltaDocSegs [d.session, d.toSerial, d.fromSerial, d.generated,
      d.generatedTime, itemsText true d.announced, itemsText true d.withdrawn] := by
  simp [deltaDoc, Delta.header, deltaDocSegs, deltaHeader, fillFrom, List.append_assoc]

theorem snapshotDoc_fill (s : Snapshot) :
    snapshotDoc s = fillFrom snapshotDocSegs [s.session, s.toSerial, s.generated,
      s.generatedTime, itemsText true s.items] := by
  simp [snapshotDoc, Snapshot.header, snapshotDocSegs, snapshotHeader, fillFrom, List.append_assoc]

theorem all_filter_map {l : List (Item × Bool)} {p : Item × Bool → Bool}
    (h : l.all (fun a => itemOkB a.1) = true) : ((l.filter p).map (·.1)).all itemOkB = true := by
  rw [List.all_eq_true] at h ⊢
  intro it hit
  obtain ⟨a, ha, rfl⟩ := List.mem_map.mp hit
  exact h a (List.mem_filter.mp ha).1

end RoutinatorModel.Stream
