import RoutinatorModel.Proofs.SnapshotList
import RoutinatorModel.Proofs.Prefix
/-! The snapshot builder as three independent lanes, and what each lane computes. -/
namespace RoutinatorModel

/-! ### The report -/

/-- The origins a publication point contributes (after `add_roa`'s length limit). -/
def rawOrigins (s : Settings) (r : RawPoint) : List Origin :=
  r.roas.flatMap (fun roa => (roa.filter (withinLimit s)).map Vrp.toOrigin)

theorem addRoa_eq (s : Settings) (acc : List Origin) (roa : List Vrp) :
    addRoa s acc roa = acc ++ (roa.filter (withinLimit s)).map Vrp.toOrigin := by
  unfold addRoa
  induction roa generalizing acc with
  | nil => simp
  | cons v roa ih =>
    rw [List.foldl_cons, ih]
    by_cases h : withinLimit s v = true
    · simp [h, List.filter_cons]
    · simp [h, List.filter_cons]

theorem foldl_addRoa (s : Settings) (acc : List Origin) (roas : List (List Vrp)) :
    roas.foldl (addRoa s) acc
      = acc ++ roas.flatMap (fun roa => (roa.filter (withinLimit s)).map Vrp.toOrigin) := by
  induction roas generalizing acc with
  | nil => simp
  | cons r roas ih => rw [List.foldl_cons, ih, addRoa_eq]; simp

theorem foldl_pushIf {α : Type} (c : Bool) (l acc : List α) :
    l.foldl (fun acc k => if c then acc ++ [k] else acc) acc = acc ++ (if c then l else []) := by
  induction l generalizing acc with
  | nil => cases c <;> simp
  | cons x l ih => rw [List.foldl_cons, ih]; cases c <;> simp

theorem processRaw_eq (s : Settings) (r : RawPoint) :
    processRaw s r = ⟨rawOrigins s r, if s.enableBgpsec then r.routerCerts else [],
      if s.enableAspa then r.aspas else []⟩ := by
  unfold processRaw rawOrigins
  rw [foldl_addRoa, foldl_pushIf, foldl_pushIf]
  simp

/-- The rejected blocks collected from the cancelled certificates. -/
def rejectedBlocks (certs : List CertResources) : List (Bool × IpBlock) :=
  certs.flatMap (fun c =>
    ((c.v4.filter (fun b => !b.isSlashZero)).map (fun b => (true, b)))
      ++ ((c.v6.filter (fun b => !b.isSlashZero)).map (fun b => (false, b))))

theorem foldl_cancel (certs : List CertResources) (r : Report) :
    certs.foldl Report.cancel r = ⟨r.pubPoints, r.rejected ++ rejectedBlocks certs⟩ := by
  induction certs generalizing r with
  | nil => simp [rejectedBlocks]
  | cons c certs ih =>
    rw [List.foldl_cons, ih]
    simp [Report.cancel, rejectedBlocks, List.append_assoc]

theorem foldl_commit (s : Settings) (points : List RawPoint) (r : Report) :
    points.foldl (fun r p => r.commit (processRaw s p)) r
      = ⟨r.pubPoints ++ (points.map (processRaw s)).filter (fun p => !p.isEmpty), r.rejected⟩ := by
  induction points generalizing r with
  | nil => simp
  | cons p points ih =>
    rw [List.foldl_cons, ih]
    unfold Report.commit
    by_cases h : (processRaw s p).isEmpty = true
    · simp [h, List.filter_cons]
    · simp [h, List.filter_cons]

theorem ofRun_eq (s : Settings) (points : List RawPoint) (certs : List CertResources) :
    Report.ofRun s points certs
      = ⟨(points.map (processRaw s)).filter (fun p => !p.isEmpty), rejectedBlocks certs⟩ := by
  unfold Report.ofRun
  simp only []
  rw [foldl_cancel, foldl_commit]
  simp

/-! ### The three lanes of the builder -/

/-- Whether `process_origin` inserts the origin. -/
def keepOrigin (rejected : List (Bool × IpBlock)) (policy : FilterPolicy) (e : Exceptions)
    (o : Origin) : Bool :=
  !(!(keepPrefix rejected o.pfx) && policy == .reject) && !(e.dropOrigin o)

def keepKey (e : Exceptions) (k : RouterKey) : Bool := !(e.dropRouterKey k)

/-- The router keys of a certificate. -/
def certKeys (c : PubRouterKey) : List RouterKey :=
  (iterAsns c.asns).map (fun a => ⟨c.keyId, a, c.info⟩)

def aspaStep (m : List (Nat × List Nat)) (a : PubAspa) : List (Nat × List Nat) :=
  match m.lookup a.customer with
  | none => m ++ [(a.customer, a.providers)]
  | some old => replaceKey m a.customer (asnUnion old a.providers)

theorem processOrigin_eq (rej : List (Bool × IpBlock)) (pol : FilterPolicy) (e : Exceptions)
    (b : Builder) (o : Origin) :
    b.processOrigin rej pol e o
      = ⟨insertIf (keepOrigin rej pol e) b.origins o, b.routerKeys, b.aspas⟩ := by
  unfold Builder.processOrigin insertIf keepOrigin
  by_cases h1 : (!(keepPrefix rej o.pfx) && pol == .reject) = true
  · simp [h1]
  · by_cases h2 : e.dropOrigin o = true
    · simp [h1, h2]
    · simp [h1, h2]

theorem foldl_processOrigin (rej : List (Bool × IpBlock)) (pol : FilterPolicy) (e : Exceptions)
    (l : List Origin) (b : Builder) :
    l.foldl (Builder.processOrigin rej pol e) b
      = ⟨l.foldl (insertIf (keepOrigin rej pol e)) b.origins, b.routerKeys, b.aspas⟩ := by
  induction l generalizing b with
  | nil => rfl
  | cons o l ih => rw [List.foldl_cons, ih, processOrigin_eq]; rfl

theorem processKey_eq (e : Exceptions) (b : Builder) (k : PubRouterKey) :
    b.processKey e k
      = ⟨b.origins, (certKeys k).foldl (insertIf (keepKey e)) b.routerKeys, b.aspas⟩ := by
  unfold Builder.processKey certKeys
  generalize iterAsns k.asns = asns
  induction asns generalizing b with
  | nil => rfl
  | cons a asns ih =>
    rw [List.foldl_cons, ih]
    simp only [List.map_cons, List.foldl_cons, insertIf, keepKey]
    by_cases h : e.dropRouterKey ⟨k.keyId, a, k.info⟩ = true
    · simp [h]
    · simp [h]

theorem foldl_processKey (e : Exceptions) (l : List PubRouterKey) (b : Builder) :
    l.foldl (Builder.processKey e) b
      = ⟨b.origins, (l.flatMap certKeys).foldl (insertIf (keepKey e)) b.routerKeys, b.aspas⟩ := by
  induction l generalizing b with
  | nil => rfl
  | cons k l ih =>
    rw [List.foldl_cons, ih, processKey_eq]
    simp [List.foldl_append]

theorem processAspa_eq (b : Builder) (a : PubAspa) :
    b.processAspa a = ⟨b.origins, b.routerKeys, aspaStep b.aspas a⟩ := by
  unfold Builder.processAspa aspaStep
  cases b.aspas.lookup a.customer <;> rfl

theorem foldl_processAspa (l : List PubAspa) (b : Builder) :
    l.foldl Builder.processAspa b = ⟨b.origins, b.routerKeys, l.foldl aspaStep b.aspas⟩ := by
  induction l generalizing b with
  | nil => rfl
  | cons a l ih => rw [List.foldl_cons, ih, processAspa_eq]; rfl

theorem processPubPoint_eq (rej : List (Bool × IpBlock)) (pol : FilterPolicy) (e : Exceptions)
    (b : Builder) (p : PubPoint) :
    b.processPubPoint rej pol e p
      = ⟨p.origins.foldl (insertIf (keepOrigin rej pol e)) b.origins,
         (p.routerKeys.flatMap certKeys).foldl (insertIf (keepKey e)) b.routerKeys,
         p.aspas.foldl aspaStep b.aspas⟩ := by
  unfold Builder.processPubPoint
  simp only []
  rw [foldl_processOrigin, foldl_processKey, foldl_processAspa]

theorem foldl_processPubPoint (rej : List (Bool × IpBlock)) (pol : FilterPolicy) (e : Exceptions)
    (ps : List PubPoint) (b : Builder) :
    ps.foldl (Builder.processPubPoint rej pol e) b
      = ⟨(ps.flatMap (·.origins)).foldl (insertIf (keepOrigin rej pol e)) b.origins,
         (ps.flatMap (fun p => p.routerKeys.flatMap certKeys)).foldl (insertIf (keepKey e)) b.routerKeys,
         (ps.flatMap (·.aspas)).foldl aspaStep b.aspas⟩ := by
  induction ps generalizing b with
  | nil => rfl
  | cons p ps ih =>
    rw [List.foldl_cons, ih, processPubPoint_eq]
    simp [List.foldl_append]

theorem insertAssertions_eq (e : Exceptions) (b : Builder) :
    b.insertAssertions e
      = ⟨e.originAssertions.foldl (insertIf (fun _ => true)) b.origins,
         e.routerKeyAssertions.foldl (insertIf (fun _ => true)) b.routerKeys, b.aspas⟩ := by
  unfold Builder.insertAssertions
  simp only []
  have h1 : ∀ (l : List Origin) (b : Builder),
      l.foldl (fun b o => { b with origins := insertNew b.origins o }) b
        = ⟨l.foldl (insertIf (fun _ => true)) b.origins, b.routerKeys, b.aspas⟩ := by
    intro l
    induction l with
    | nil => intro b; rfl
    | cons o l ih => intro b; rw [List.foldl_cons, ih]; simp [insertIf]
  have h2 : ∀ (l : List RouterKey) (b : Builder),
      l.foldl (fun b k => { b with routerKeys := insertNew b.routerKeys k }) b
        = ⟨b.origins, l.foldl (insertIf (fun _ => true)) b.routerKeys, b.aspas⟩ := by
    intro l
    induction l with
    | nil => intro b; rfl
    | cons o l ih => intro b; rw [List.foldl_cons, ih]; simp [insertIf]
  rw [h1, h2]

/-- The builder's content just before `into_snapshot`, lane by lane. -/
theorem builder_eq (pol : FilterPolicy) (r : Report) (e : Exceptions) :
    (r.pubPoints.foldl (Builder.processPubPoint r.rejected pol e) ⟨[], [], []⟩).insertAssertions e
      = ⟨e.originAssertions.foldl (insertIf (fun _ => true))
            ((r.pubPoints.flatMap (·.origins)).foldl (insertIf (keepOrigin r.rejected pol e)) []),
         e.routerKeyAssertions.foldl (insertIf (fun _ => true))
            ((r.pubPoints.flatMap (fun p => p.routerKeys.flatMap certKeys)).foldl
              (insertIf (keepKey e)) []),
         (r.pubPoints.flatMap (·.aspas)).foldl aspaStep []⟩ := by
  rw [foldl_processPubPoint, insertAssertions_eq]

end RoutinatorModel
