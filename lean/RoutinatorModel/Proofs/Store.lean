import RoutinatorModel.Model.Store
import RoutinatorModel.Props.C05
/-! Helper lemmas about the file-level store model. -/
namespace RoutinatorModel.StoreFile
open RoutinatorModel.Engine

theorem open_stored (now : Int) (file : PointFile) : (file.open now).1.stored = file.stored := by
  cases file <;> rfl

theorem touch_stored (now : Int) (file : PointFile) : (file.touch now).stored = file.stored :=
  open_stored now file

theorem touch_success (now t : Int) (s : Stored) :
    (PointFile.success t s).touch now = .success t s := rfl

theorem stored_eq_some {file : PointFile} {s : Stored} (h : file.stored = some s) :
    ∃ t, file = .success t s := by
  cases file <;> simp [PointFile.stored] at h
  exact ⟨_, by rw [h]⟩

/-- The walk over the entries in any order is decided by whether every entry loads. -/
theorem runEntries_perm (cfg : Cfg) (now : Int) (ca : CaCtx) (vm : ValidMft)
    (files : List (Name × File)) (reorder : List Entry → List Entry)
    (hperm : ∀ l, (reorder l).Perm l) :
    (vm.mft.entries.all (fun e => e.loads files) = true ∧
      ∃ acc kids objs,
        runEntries cfg now ca vm files (reorder vm.mft.entries) [] [] [] = .complete acc kids objs
        ∧ acc = (reorder vm.mft.entries).flatMap (entryItems cfg now ca vm files)
        ∧ kids = (reorder vm.mft.entries).flatMap (entryKids cfg now ca vm files)
        ∧ objs = (reorder vm.mft.entries).flatMap (entryObj files))
    ∨ (vm.mft.entries.all (fun e => e.loads files) = false ∧
      ∃ acc, runEntries cfg now ca vm files (reorder vm.mft.entries) [] [] [] = .aborted acc) := by
  by_cases hall : vm.mft.entries.all (fun e => e.loads files) = true
  · left
    refine ⟨hall, _, _, _, ?_, rfl, rfl, rfl⟩
    have hload : ∀ e ∈ reorder vm.mft.entries, e.loads files = true := by
      intro e he
      have := (hperm _).mem_iff.mp he
      exact (List.all_eq_true.mp hall) e this
    rw [runEntries_complete _ _ _ _ _ _ _ _ _ hload]
    simp
  · right
    have hall' : vm.mft.entries.all (fun e => e.loads files) = false := by
      simpa using hall
    refine ⟨hall', ?_⟩
    have hbad : ∃ e ∈ reorder vm.mft.entries, e.loads files = false := by
      have : ∃ e ∈ vm.mft.entries, e.loads files = false := by
        simpa [List.all_eq_true] using hall
      obtain ⟨e, he, hb⟩ := this
      exact ⟨e, (hperm _).mem_iff.mpr he, hb⟩
    exact runEntries_aborted cfg now ca vm files _ [] [] [] hbad

/-- The manifest and CRL that validated when collected validate again from the store
(same clock, same policy). -/
theorem validateStored_of_collected {cfg : Cfg} {now : Int} {f : Fetched} {mf : MftFile}
    {vm : ValidMft} {crl : Content} (h : validateCollected cfg now f mf = some (vm, crl))
    (number : Nat) (thisUpdate notAfter : Int) (repo : Uri) (objs : List StoredObj) :
    validateStored cfg now ⟨mf, number, thisUpdate, notAfter, repo, crl, objs⟩ = some vm := by
  unfold validateCollected at h
  unfold validateStored
  cases hm : mf.parsed with
  | none => simp [hm] at h
  | some m =>
    simp only [hm] at h ⊢
    split at h
    · cases h
    · rename_i hv
      split at h
      · cases h
      · split at h
        · cases h
        · rename_i hs
          split at h
          · rename_i crlUri crlName hu hn
            split at h
            · cases h
            · split at h
              · cases h
              · rename_i file hl
                split at h
                · cases h
                · split at h
                  · cases h
                  · rename_i revoked hr
                    simp only [Option.some.injEq, Prod.mk.injEq] at h
                    obtain ⟨rfl, rfl⟩ := h
                    simp only [hv, hs, Bool.false_eq_true, ↓reduceIte, hu, hr]
          · cases h

theorem flatMap_entryObj_items (cfg : Cfg) (now : Int) (ca : CaCtx) (vm : ValidMft)
    (files : List (Name × File)) (l : List Entry) :
    (l.flatMap (entryObj files)).flatMap (fun o => objItems cfg now ca vm o.ext o.file.content)
      = l.flatMap (entryItems cfg now ca vm files) := by
  induction l with
  | nil => rfl
  | cons e rest ih =>
    simp only [List.flatMap_cons, List.flatMap_append, ih]
    congr 1
    unfold entryObj entryItems
    cases lookup e.name files <;> simp

theorem flatMap_entryObj_kids (cfg : Cfg) (now : Int) (ca : CaCtx) (vm : ValidMft)
    (files : List (Name × File)) (l : List Entry) :
    (l.flatMap (entryObj files)).flatMap (fun o => objKids cfg now ca vm o.ext o.file.content)
      = l.flatMap (entryKids cfg now ca vm files) := by
  induction l with
  | nil => rfl
  | cons e rest ih =>
    simp only [List.flatMap_cons, List.flatMap_append, ih]
    congr 1
    unfold entryObj entryKids
    cases lookup e.name files <;> simp

/-- The stored objects written for entries that all load are exactly those entries:
name, extension and listed hash. -/
theorem entryObj_keys (files : List (Name × File)) (l : List Entry)
    (h : ∀ e ∈ l, e.loads files = true) :
    (l.flatMap (entryObj files)).map (fun o => (o.name, o.ext, o.file.hash))
      = l.map (fun e => (e.name, e.ext, e.hash)) := by
  induction l with
  | nil => rfl
  | cons e rest ih =>
    have he := h e (by simp)
    have hrest : ∀ e' ∈ rest, e'.loads files = true := fun e' h' => h e' (by simp [h'])
    simp only [List.flatMap_cons, List.map_append, List.map_cons, ih hrest]
    unfold Entry.loads at he
    unfold entryObj
    cases hl : lookup e.name files with
    | none => simp [hl] at he
    | some f =>
      simp only [hl, Bool.and_eq_true, beq_iff_eq] at he
      simp [he.2]

theorem mem_setKey {α : Type} {k : Nat} {v : α} {l : List (Nat × α)} {p : Nat × α}
    (h : p ∈ setKey k (some v) l) : p = (k, v) ∨ p ∈ l := by
  induction l with
  | nil => simp [setKey] at h; exact Or.inl h
  | cons q rest ih =>
    obtain ⟨k', v'⟩ := q
    unfold setKey at h
    by_cases hk : k' = k
    · simp only [hk, ↓reduceIte, List.mem_cons] at h
      rcases h with h | h
      · exact Or.inl h
      · exact Or.inr (List.mem_cons_of_mem _ h)
    · simp only [hk, ↓reduceIte, List.mem_cons] at h
      rcases h with h | h
      · exact Or.inr (by simp [h])
      · rcases ih h with h | h
        · exact Or.inl h
        · exact Or.inr (List.mem_cons_of_mem _ h)

theorem lookup_mem {α : Type} {k : Nat} {v : α} {l : List (Nat × α)} (h : lookup k l = some v) :
    (k, v) ∈ l := by
  induction l with
  | nil => simp [lookup] at h
  | cons q rest ih =>
    obtain ⟨k', v'⟩ := q
    unfold lookup at h
    by_cases hk : k' = k
    · simp only [hk, ↓reduceIte, Option.some.injEq] at h
      simp [hk, h]
    · simp only [hk, ↓reduceIte] at h
      exact List.mem_cons_of_mem _ (ih h)

end RoutinatorModel.StoreFile
