import RoutinatorModel.Model.Prefix
/-! Bit-level facts about `Prefix.covers` (the mask trick vs. "first `len` bits equal"). -/
namespace RoutinatorModel
namespace Prefix

theorem getMsbD_netMask (len i : Nat) :
    (netMask len).getMsbD i = (decide (i < 128) && decide (i < len)) := by
  unfold netMask
  rw [BitVec.getMsbD_not, BitVec.getMsbD_ushiftRight, BitVec.getMsbD_allOnes]
  by_cases h1 : i < 128 <;> by_cases h2 : i < len <;> simp [h1, h2]
  omega

/-- The masked comparison in `covers`, for a `self` whose host bits are zero. -/
theorem mask_eq_iff {p q : Prefix} (hz : ∀ i, p.len ≤ i → p.bit i = false) :
    p.bits = q.bits &&& netMask p.len ↔ ∀ i, i < p.len → q.bit i = p.bit i := by
  constructor
  · intro h i hi
    by_cases h128 : i < 128
    · have := congrArg (fun b => b.getMsbD i) h
      simp only [BitVec.getMsbD_and, getMsbD_netMask] at this
      simp [h128, hi] at this
      simp [bit, this]
    · simp [bit, BitVec.getMsbD, h128]
  · intro h
    apply BitVec.eq_of_getMsbD_eq
    intro i hi
    rw [BitVec.getMsbD_and, getMsbD_netMask]
    by_cases hl : i < p.len
    · have := h i hl
      simp [bit] at this
      simp [hi, hl, this]
    · have := hz i (by omega)
      simp [bit] at this
      simp [hl, this]

theorem bits_eq_iff (p q : Prefix) :
    p.bits = q.bits ↔ ∀ i, i < 128 → q.bit i = p.bit i := by
  constructor
  · intro h i _; simp [bit, h]
  · intro h
    apply BitVec.eq_of_getMsbD_eq
    intro i hi
    exact (h i hi).symm

theorem hostZeroB_iff (p : Prefix) :
    p.hostZeroB = true ↔ ∀ i, p.len ≤ i → p.bit i = false := by
  unfold hostZeroB
  rw [beq_iff_eq]
  constructor
  · intro h i hi
    by_cases h128 : i < 128
    · have := congrArg (fun b => b.getMsbD i) h
      simp only [BitVec.getMsbD_and, BitVec.getMsbD_ushiftRight, BitVec.getMsbD_allOnes] at this
      have h2 : ¬ i < p.len := by omega
      have h3 : i - p.len < 128 := by omega
      simp [h128, h2, h3] at this
      simpa [bit] using this
    · simp [bit, BitVec.getMsbD, h128]
  · intro h
    apply BitVec.eq_of_getMsbD_eq
    intro i hi
    rw [BitVec.getMsbD_and, BitVec.getMsbD_ushiftRight, BitVec.getMsbD_allOnes]
    by_cases hl : i < p.len
    · simp [hl]
    · have := h i (by omega)
      simp [bit] at this
      simp [this]

theorem wfB_iff (p : Prefix) : p.wfB = true ↔ p.WF := by
  unfold wfB
  rw [Bool.and_eq_true, decide_eq_true_iff, hostZeroB_iff]
  exact ⟨fun ⟨a, b⟩ => ⟨a, b⟩, fun ⟨a, b⟩ => ⟨a, b⟩⟩

/-- The mathematical notion (RFC 6811: "the VRP prefix length is less than or equal to the
route prefix length and the VRP prefix address and the route prefix address are identical for
all bits specified by the VRP prefix length"), within one address family. -/
def Covers (p q : Prefix) : Prop :=
  p.v4 = q.v4 ∧ p.len ≤ q.len ∧ ∀ i, i < p.len → q.bit i = p.bit i

/-- `Prefix::covers` decides the mathematical notion: same family, `self` not longer, and
the first `self.len` address bits agree. -/
theorem covers_iff {p q : Prefix} (hp : p.WF) (hq : q.WF) :
    p.covers q = true ↔ p.Covers q := by
  unfold Covers
  have hpl := hp.len_le
  have hql := hq.len_le
  unfold covers
  by_cases hv' : ¬ p.v4 = q.v4
  · simp [hv']
  have hv : p.v4 = q.v4 := Decidable.not_not.mp hv'
  by_cases hl' : ¬ p.len ≤ q.len
  · have : p.len > q.len := by omega
    simp [hv, this]
    intro; omega
  have hl : p.len ≤ q.len := Decidable.not_not.mp hl'
  have hng : ¬ p.len > q.len := by omega
  simp only [hv, bne_self_eq_false, Bool.false_eq_true, if_false, hng, true_and, hl]
  -- `self == other` on equal family and equal length
  have heq : ∀ n, p.len = n → q.len = n →
      ((p == q) = true ↔ p.bits = q.bits) := by
    intro n h1 h2
    rw [beq_iff_eq]
    constructor
    · intro h; rw [h]
    · intro h
      cases p; cases q; simp_all
  cases hq4 : q.v4
  · -- IPv6
    simp only [Bool.false_eq_true, if_false]
    by_cases h128 : p.len = 128 ∧ q.len = 128
    · obtain ⟨h1, h2⟩ := h128
      simp only [h1, h2, beq_self_eq_true, Bool.and_self, if_true]
      rw [heq 128 h1 h2, bits_eq_iff]
    · have : ¬ ((p.len == 128 && q.len == 128) = true) := by
        simpa [Bool.and_eq_true] using h128
      rw [if_neg this, beq_iff_eq]
      exact mask_eq_iff hp.host_zero
  · -- IPv4
    simp only [if_true]
    by_cases h32 : p.len = 32 ∧ q.len = 32
    · obtain ⟨h1, h2⟩ := h32
      simp only [h1, h2, beq_self_eq_true, Bool.and_self, if_true]
      rw [heq 32 h1 h2, bits_eq_iff]
      constructor
      · intro h i hi; exact h i (by omega)
      · intro h i hi
        by_cases h3 : i < 32
        · exact h i h3
        · rw [hp.host_zero i (by omega), hq.host_zero i (by omega)]
    · have : ¬ ((p.len == 32 && q.len == 32) = true) := by
        simpa [Bool.and_eq_true] using h32
      rw [if_neg this, beq_iff_eq]
      exact mask_eq_iff hp.host_zero

/-- A prefix covers itself. -/
theorem covers_refl {p : Prefix} (hp : p.WF) : p.covers p = true := by
  rw [covers_iff hp hp]; simp [Covers]

end Prefix
end RoutinatorModel
