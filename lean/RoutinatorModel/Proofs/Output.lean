import RoutinatorModel.Model.Output
import RoutinatorModel.Proofs.Template
/-! Listing and JSON well-formedness of the output formats. -/
namespace RoutinatorModel.Output
open RoutinatorModel.Json

/-! ## Selection -/

theorem anyLoop_eq {α : Type} (p : α → Bool) (l : List α) : anyLoop p l = l.any p := by
  induction l with
  | nil => rfl
  | cons x rest ih =>
    simp only [anyLoop, List.any_cons, ih]
    cases p x <;> simp

theorem inclOrigin_eq (out : Output) (o : OriginI) : inclOrigin out o = admitsOrigin out o := by
  unfold inclOrigin admitsOrigin
  cases out.selection with
  | none => rfl
  | some rs =>
    simp only [anyLoop_eq]
    congr 1

theorem inclKey_eq (out : Output) (k : KeyI) : inclKey out k = admitsKey out k := by
  unfold inclKey admitsKey
  cases out.selection with
  | none => rfl
  | some rs =>
    simp only [anyLoop_eq]
    congr 1

theorem inclAspa_eq (out : Output) (x : AspaI) : inclAspa out x = admitsAspa out x := by
  unfold inclAspa admitsAspa
  cases out.selection with
  | none => rfl
  | some rs =>
    simp only [anyLoop_eq]
    congr 1

/-! ## Listing -/

theorem map_snd_markFirst {α : Type} (l : List α) (b : Bool) : (markFirst b l).map (·.2) = l := by
  induction l generalizing b with
  | nil => rfl
  | cons x rest ih => simp [markFirst, ih]

/-- What the formats list, as the implementation computes it. -/
def listedSpec (fmt : Format) (out : Output) (d : Data) : List Item :=
  (if fmt.listsOrigins && out.routeOrigins then (d.origins.filter (inclOrigin out)).map .o else []) ++
  ((if fmt.listsKeys && out.routerKeys then (d.keys.filter (inclKey out)).map .k else []) ++
   (if fmt.listsAspas && out.aspas then (d.aspas.filter (inclAspa out)).map .a else []))

theorem items_origin (fl : Flow) (b : Bool) (l : List OriginI) :
    ((markFirst b l).map (fun p => Ev.origin p.1 p.2)).filterMap (evItem fl) =
      if fl.wO then l.map .o else [] := by
  induction l generalizing b with
  | nil => cases fl.wO <;> rfl
  | cons x rest ih =>
    have ih' := ih false
    cases h : fl.wO
    · rw [h] at ih'
      simp only [markFirst, List.map_cons, List.filterMap_cons, evItem, h]
      simpa using ih'
    · rw [h] at ih'
      simp only [markFirst, List.map_cons, List.filterMap_cons, evItem, h]
      simpa using ih'

theorem items_key (fl : Flow) (b : Bool) (l : List KeyI) :
    ((markFirst b l).map (fun p => Ev.key p.1 p.2)).filterMap (evItem fl) =
      if fl.wK then l.map .k else [] := by
  induction l generalizing b with
  | nil => cases fl.wK <;> rfl
  | cons x rest ih =>
    have ih' := ih false
    cases h : fl.wK
    · rw [h] at ih'
      simp only [markFirst, List.map_cons, List.filterMap_cons, evItem, h]
      simpa using ih'
    · rw [h] at ih'
      simp only [markFirst, List.map_cons, List.filterMap_cons, evItem, h]
      simpa using ih'

theorem items_aspa (fl : Flow) (b : Bool) (l : List AspaI) :
    ((markFirst b l).map (fun p => Ev.aspa p.1 p.2)).filterMap (evItem fl) =
      if fl.wA then l.map .a else [] := by
  induction l generalizing b with
  | nil => cases fl.wA <;> rfl
  | cons x rest ih =>
    have ih' := ih false
    cases h : fl.wA
    · rw [h] at ih'
      simp only [markFirst, List.map_cons, List.filterMap_cons, evItem, h]
      simpa using ih'
    · rw [h] at ih'
      simp only [markFirst, List.map_cons, List.filterMap_cons, evItem, h]
      simpa using ih'

set_option linter.unusedSimpArgs false in
/-- The state machine lists exactly the included items of the enabled types the format can
express, each once, in snapshot order. -/
theorem listed_eq (fmt : Format) (out : Output) (d : Data) :
    listed fmt out d = listedSpec fmt out d := by
  obtain ⟨sel, more, ro, rk, ra⟩ := out
  cases fmt <;> cases ro <;> cases rk <;> cases ra <;>
    simp only [listed, events, run, next, flowOf, flowOriginsOnly, flowJson, flowSlurm, flowSlurm2,
      flowSummary, flowNone, reduceCtorEq, ↓reduceIte, List.filterMap_append, List.filterMap_cons,
      List.filterMap_nil, evItem, items_origin, items_key, items_aspa, List.append_nil,
      List.nil_append, listedSpec, Format.listsOrigins, Format.listsKeys, Format.listsAspas,
      Bool.and_true, Bool.and_false, Bool.false_and, Bool.true_and, Bool.false_eq_true]

end RoutinatorModel.Output
