import RoutinatorModel.Proofs.ArchiveInv
/-!
# The archive operations preserve the invariant and refine the map (C26)
-/
namespace RoutinatorModel.Archive

theorem paged_pos (c : Cfg) (n d : Bytes) : 0 < paged c n d := by
  unfold paged minSize hdr; omega

theorem paged_dvd (c : Cfg) (n d : Bytes) : 256 ∣ paged c n d := by
  unfold paged; exact Nat.dvd_mul_left _ _

/-- `Has f n m d`: some object block of `f` carries name `n`, meta `m`, data `d`. -/
def Has (f : File) (n m d : Bytes) : Prop := ∃ p s, (⟨p, s, .obj n m d⟩ : Block) ∈ f.blocks

theorem abs_eq_of_has {c : Cfg} {f f' : File} (h : Inv c f) (h' : Inv c f') {n : Bytes}
    {v : Option (Bytes × Bytes)}
    (hh : ∀ x m d, Has f' x m d ↔ (x ≠ n ∧ Has f x m d) ∨ (x = n ∧ v = some (m, d))) :
    abs f' = (abs f).set n v := by
  funext x
  apply opt_ext
  rintro ⟨m, d⟩
  rw [abs_iff h']
  show Has f' x m d ↔ _
  rw [hh]
  unfold MapSt.set
  by_cases hx : x = n
  · simp [hx]
  · simp only [hx, if_false]
    rw [abs_iff h]
    simp [hx, Has]

/-! ## find_empty -/

theorem emptyHeaders_spec {a z : Nat} {bs : List Block} (ht : Tiles a z bs) {ps : List Nat}
    (hps : ∀ p ∈ ps, ∃ s, (⟨p, s, .empty⟩ : Block) ∈ bs) :
    ∃ hs, emptyHeaders bs ps = some hs ∧
      ∀ h ∈ hs, h.2 ∈ ps ∧ (⟨h.2, h.1, .empty⟩ : Block) ∈ bs := by
  induction ps with
  | nil => exact ⟨[], rfl, by simp⟩
  | cons q ps ih =>
    obtain ⟨hs, he, hh⟩ := ih (fun p hp => hps p (List.mem_cons_of_mem _ hp))
    obtain ⟨s, hq⟩ := hps q List.mem_cons_self
    have hb := blockAt_of_mem ht hq
    simp only at hb
    refine ⟨(s, q) :: hs, ?_, ?_⟩
    · simp [emptyHeaders, hb, he]
    · intro h hmem
      rcases List.mem_cons.mp hmem with e | hmem
      · subst e; exact ⟨List.mem_cons_self, hq⟩
      · exact ⟨List.mem_cons_of_mem _ (hh h hmem).1, (hh h hmem).2⟩

theorem pickSmallest_mem {l : List (Nat × Nat)} {x : Nat × Nat} (h : pickSmallest l = some x) :
    x ∈ l := by
  induction l generalizing x with
  | nil => simp [pickSmallest] at h
  | cons y ys ih =>
    unfold pickSmallest at h
    split at h
    · injection h with e; subst e; exact List.mem_cons_self
    · rename_i w hw
      split at h
      · injection h with e; subst e; exact List.mem_cons_of_mem _ (ih hw)
      · injection h with e; subst e; exact List.mem_cons_self

/-- `find_empty` on a consistent file: either nothing, or an empty block that fits. -/
theorem findEmpty_spec {c : Cfg} {f : File} (h : Inv c f) (size : Nat) :
    findEmpty f size = some none ∨
    ∃ es p, findEmpty f size = some (some (es, p)) ∧
      (⟨p, es, .empty⟩ : Block) ∈ f.blocks ∧ fits es size = true := by
  obtain ⟨hs, he, hh⟩ := emptyHeaders_spec h.tiles (fun p hp => (h.emptiesMem p).mp hp)
  unfold findEmpty
  rw [he]
  simp only
  cases hq : pickSmallest (hs.filter (fun h => fits h.1 size)) with
  | none => exact Or.inl rfl
  | some x =>
    right
    obtain ⟨es, p⟩ := x
    have := pickSmallest_mem hq
    rw [List.mem_filter] at this
    exact ⟨es, p, rfl, (hh _ this.1).2, this.2⟩

/-! ## publish_append -/

theorem publishAppend_inv {c : Cfg} {f : File} (h : Inv c f) {n m d : Bytes}
    (hn : ∀ p s m' d', (⟨p, s, .obj n m' d'⟩ : Block) ∉ f.blocks) :
    Inv c (publishAppend c f n m d) := by
  have hpos := paged_pos c n d
  have hdvd := paged_dvd c n d
  have hfresh : ∀ b ∈ f.blocks, b.pos ≠ f.size := by
    intro b hb
    have := tiles_bounds h.tiles hb
    omega
  unfold publishAppend
  constructor
  · exact tiles_snoc (b := ⟨f.size, paged c n d, .obj n m d⟩) h.tiles rfl hpos hdvd
  · exact h.emptiesNodup
  · intro p
    simp only [List.mem_append, List.mem_singleton]
    rw [h.emptiesMem]
    simp
  · intro k
    simp only [getB_setB]
    split
    · rename_i hk
      subst hk
      rw [List.nodup_cons]
      refine ⟨?_, h.bucketNodup _⟩
      intro hmem
      obtain ⟨s, n', m', d', hb, _⟩ := (h.bucketMem _ _).mp hmem
      exact hfresh _ hb rfl
    · exact h.bucketNodup _
  · intro k p
    simp only [getB_setB, List.mem_append, List.mem_singleton]
    split
    · rename_i hk
      subst hk
      rw [List.mem_cons, h.bucketMem]
      constructor
      · rintro (e | ⟨s, n', m', d', hb, hk⟩)
        · exact ⟨_, n, m, d, Or.inr (by rw [e]), rfl⟩
        · exact ⟨s, n', m', d', Or.inl hb, hk⟩
      · rintro ⟨s, n', m', d', hb | hb, hk⟩
        · exact Or.inr ⟨s, n', m', d', hb, hk⟩
        · injection hb with e; exact Or.inl e
    · rename_i hk
      rw [h.bucketMem]
      constructor
      · rintro ⟨s, n', m', d', hb, hk'⟩
        exact ⟨s, n', m', d', Or.inl hb, hk'⟩
      · rintro ⟨s, n', m', d', hb | hb, hk'⟩
        · exact ⟨s, n', m', d', hb, hk'⟩
        · injection hb with _ _ e3
          injection e3 with e4
          subst e4
          exact absurd hk'.symm hk
  · intro p1 s1 p2 s2 x m1 d1 m2 d2
    simp only [List.mem_append, List.mem_singleton]
    rintro (h1 | h1) (h2 | h2)
    · exact h.names _ _ _ _ _ _ _ _ _ h1 h2
    · injection h2 with _ _ e3; injection e3 with e4; subst e4
      exact absurd h1 (hn _ _ _ _)
    · injection h1 with _ _ e3; injection e3 with e4; subst e4
      exact absurd h2 (hn _ _ _ _)
    · injection h1 with e1; injection h2 with e2; exact e1.trans e2.symm
  · intro p s x m' d'
    simp only [List.mem_append, List.mem_singleton]
    rintro (h1 | h1)
    · exact h.sized _ _ _ _ _ h1
    · simp only [Block.mk.injEq, Body.obj.injEq] at h1
      obtain ⟨_, e2, e4, _, e6⟩ := h1
      rw [e2, e4, e6]

theorem publishAppend_has {c : Cfg} {f : File} {n m d : Bytes} (x m' d' : Bytes) :
    Has (publishAppend c f n m d) x m' d' ↔ Has f x m' d' ∨ (x = n ∧ m' = m ∧ d' = d) := by
  unfold Has publishAppend
  simp only [List.mem_append, List.mem_singleton]
  constructor
  · rintro ⟨p, s, hb | hb⟩
    · exact Or.inl ⟨p, s, hb⟩
    · injection hb with _ _ e3; injection e3 with e4 e5 e6; exact Or.inr ⟨e4, e5, e6⟩
  · rintro (⟨p, s, hb⟩ | ⟨e1, e2, e3⟩)
    · exact ⟨p, s, Or.inl hb⟩
    · subst e1 e2 e3; exact ⟨_, _, Or.inr rfl⟩

/-! ## publish_replace -/

theorem fits_cases {es os : Nat} (h : fits es os = true) (h1 : 256 ∣ es) (h2 : 256 ∣ os) :
    es = os ∨ (os < es ∧ 256 ∣ (es - os)) := by
  unfold fits hdr at h
  simp at h
  rcases h with h | h
  · exact Or.inl h
  · right
    refine ⟨by omega, Nat.dvd_sub h1 h2⟩

theorem mem_erase_nodup {l : List Nat} (h : l.Nodup) {a b : Nat} : a ∈ l.erase b ↔ a ≠ b ∧ a ∈ l :=
  h.mem_erase_iff

theorem publishReplace_inv {c : Cfg} {f : File} (h : Inv c f) {n m d : Bytes} {es p : Nat}
    (he : (⟨p, es, .empty⟩ : Block) ∈ f.blocks) (hfit : fits es (paged c n d) = true)
    (hn : ∀ p s m' d', (⟨p, s, .obj n m' d'⟩ : Block) ∉ f.blocks) :
    Inv c (publishReplace c f n m d es p) := by
  have hpos := paged_pos c n d
  have hdvd := paged_dvd c n d
  have hbe := tiles_bounds h.tiles he
  simp only at hbe
  have hex : ∃ b ∈ f.blocks, b.pos = p := ⟨_, he, rfl⟩
  have hat : ∀ b ∈ f.blocks, b.pos = p → b = ⟨p, es, .empty⟩ :=
    fun b hb hp => tiles_pos_inj h.tiles hb he hp
  have hpe : p ∈ f.empties := (h.emptiesMem p).mpr ⟨es, he⟩
  have hnb : ∀ k, p ∉ getB f.buckets k := by
    intro k hk
    obtain ⟨s, n', m', d', hb, _⟩ := (h.bucketMem k p).mp hk
    have := hat _ hb rfl
    simp at this
  unfold publishReplace
  simp only
  rcases fits_cases hfit hbe.2.2.2 hdvd with hc | hc
  · -- exact fit
    have : ¬ (p + es > p + paged c n d) := by omega
    simp only [this, if_false]
    have hmem : ∀ x, x ∈ replaceAt p [⟨p, paged c n d, .obj n m d⟩] f.blocks ↔
        (x ∈ f.blocks ∧ x.pos ≠ p) ∨ x = ⟨p, paged c n d, .obj n m d⟩ := by
      intro x; rw [mem_replaceAt]; simp [hex]
    constructor
    · refine tiles_replaceAt h.tiles (fun b hb hp => ?_)
      rw [hat b hb hp]
      simp [Tiles, hpos, hdvd, hc]
    · exact h.emptiesNodup.erase _
    · intro q
      simp only [hmem, mem_erase_nodup h.emptiesNodup, h.emptiesMem]
      grind
    · intro k
      simp only [getB_setB]
      split
      · rw [List.nodup_cons]; exact ⟨hnb _, h.bucketNodup _⟩
      · exact h.bucketNodup _
    · intro k q
      simp only [getB_setB, hmem]
      split
      · rw [List.mem_cons, h.bucketMem]; grind
      · rw [h.bucketMem]; grind
    · intro p1 s1 p2 s2 x m1 d1 m2 d2
      simp only [hmem]
      have := h.names
      grind
    · intro q s x m' d'
      simp only [hmem]
      have := h.sized
      grind
  · -- the object leaves a remainder, which becomes a new empty block
    have hgt : p + es > p + paged c n d := by omega
    simp only [hgt, if_true]
    have hrs : p + es - (p + paged c n d) = es - paged c n d := by omega
    rw [hrs]
    have hfresh : ∀ b ∈ f.blocks, b.pos ≠ p + paged c n d := by
      intro b hb
      have hb1 := tiles_bounds h.tiles hb
      rcases tiles_order h.tiles hb he with e | e | e
      · rw [e]; simp; omega
      · simp at e; omega
      · simp at e; omega
    have hmem : ∀ x, x ∈ replaceAt p [⟨p, paged c n d, .obj n m d⟩,
          ⟨p + paged c n d, es - paged c n d, .empty⟩] f.blocks ↔
        (x ∈ f.blocks ∧ x.pos ≠ p) ∨ x = ⟨p, paged c n d, .obj n m d⟩ ∨
          x = ⟨p + paged c n d, es - paged c n d, .empty⟩ := by
      intro x; rw [mem_replaceAt]; simp [hex]
    have hne : ¬ p + paged c n d ∈ f.empties := by
      intro hq
      obtain ⟨s, hb⟩ := (h.emptiesMem _).mp hq
      exact hfresh _ hb rfl
    constructor
    · refine tiles_replaceAt h.tiles (fun b hb hp => ?_)
      rw [hat b hb hp]
      simp only [Tiles]
      refine ⟨trivial, hpos, hdvd, trivial, by omega, hc.2, by omega⟩
    · rw [List.nodup_cons]
      exact ⟨fun hq => hne (List.mem_of_mem_erase hq), h.emptiesNodup.erase _⟩
    · intro q
      simp only [hmem, List.mem_cons, mem_erase_nodup h.emptiesNodup, h.emptiesMem]
      grind
    · intro k
      simp only [getB_setB]
      split
      · rw [List.nodup_cons]; exact ⟨hnb _, h.bucketNodup _⟩
      · exact h.bucketNodup _
    · intro k q
      simp only [getB_setB, hmem]
      split
      · rw [List.mem_cons, h.bucketMem]; grind
      · rw [h.bucketMem]; grind
    · intro p1 s1 p2 s2 x m1 d1 m2 d2
      simp only [hmem]
      have := h.names
      grind
    · intro q s x m' d'
      simp only [hmem]
      have := h.sized
      grind

theorem has_replaceAt {a z : Nat} {bs new : List Block} (ht : Tiles a z bs) {p es : Nat}
    (he : (⟨p, es, .empty⟩ : Block) ∈ bs) (x m' d' : Bytes) :
    (∃ q s, (⟨q, s, .obj x m' d'⟩ : Block) ∈ replaceAt p new bs) ↔
      (∃ q s, (⟨q, s, .obj x m' d'⟩ : Block) ∈ bs) ∨ (∃ q s, (⟨q, s, .obj x m' d'⟩ : Block) ∈ new) := by
  constructor
  · rintro ⟨q, s, hq⟩
    rcases mem_replaceAt.mp hq with ⟨hq, _⟩ | ⟨hq, _⟩
    · exact Or.inl ⟨q, s, hq⟩
    · exact Or.inr ⟨q, s, hq⟩
  · rintro (⟨q, s, hq⟩ | ⟨q, s, hq⟩)
    · refine ⟨q, s, mem_replaceAt.mpr (Or.inl ⟨hq, ?_⟩)⟩
      intro hp
      have := tiles_pos_inj ht hq he hp
      simp at this
    · exact ⟨q, s, mem_replaceAt.mpr (Or.inr ⟨hq, _, he, rfl⟩)⟩

theorem publishReplace_has {c : Cfg} {f : File} (h : Inv c f) {n m d : Bytes} {es p : Nat}
    (he : (⟨p, es, .empty⟩ : Block) ∈ f.blocks) (x m' d' : Bytes) :
    Has (publishReplace c f n m d es p) x m' d' ↔ Has f x m' d' ∨ (x = n ∧ m' = m ∧ d' = d) := by
  unfold Has publishReplace
  simp only
  split <;> rw [has_replaceAt h.tiles he] <;> simp <;> grind

/-- `publish_not_found` on a consistent file without the name: succeeds, keeps the invariant,
adds exactly the new object. -/
theorem publishNotFound_spec {c : Cfg} {f : File} (h : Inv c f) {n m d : Bytes}
    (hn : ∀ p s m' d', (⟨p, s, .obj n m' d'⟩ : Block) ∉ f.blocks) :
    ∃ f', publishNotFound c f n m d = some f' ∧ Inv c f' ∧
      ∀ x m' d', Has f' x m' d' ↔ Has f x m' d' ∨ (x = n ∧ m' = m ∧ d' = d) := by
  unfold publishNotFound
  rcases findEmpty_spec h (paged c n d) with he | ⟨es, p, he, hb, hfit⟩
  · rw [he]; exact ⟨_, rfl, publishAppend_inv h hn, publishAppend_has⟩
  · rw [he]; exact ⟨_, rfl, publishReplace_inv h hb hfit hn, publishReplace_has h hb⟩

/-! ## delete_found / create_empty -/

theorem tiles_next {a z : Nat} {bs : List Block} (h : Tiles a z bs) {b : Block} (hb : b ∈ bs) :
    b.pos + b.size = z ∨ ∃ b' ∈ bs, b'.pos = b.pos + b.size := by
  induction bs generalizing a with
  | nil => simp at hb
  | cons x bs ih =>
    simp only [Tiles] at h
    rcases List.mem_cons.mp hb with e | hb1
    · subst e
      cases bs with
      | nil => simp only [Tiles] at h; left; omega
      | cons y bs =>
        have := h.2.2.2
        simp only [Tiles] at this
        right
        exact ⟨y, by simp, by omega⟩
    · rcases ih h.2.2.2 hb1 with e | ⟨b', hb', e⟩
      · exact Or.inl e
      · exact Or.inr ⟨b', List.mem_cons_of_mem _ hb', e⟩

theorem has_of_mem {c : Cfg} {f : File} (h : Inv c f) {n m d : Bytes} {p s : Nat}
    (hb : (⟨p, s, .obj n m d⟩ : Block) ∈ f.blocks) {bs' : List Block}
    (hmem : ∀ q s' x m' d', (⟨q, s', .obj x m' d'⟩ : Block) ∈ bs' ↔
      (⟨q, s', .obj x m' d'⟩ : Block) ∈ f.blocks ∧ q ≠ p) (x m' d' : Bytes) :
    (∃ q s', (⟨q, s', .obj x m' d'⟩ : Block) ∈ bs') ↔ (x ≠ n ∧ Has f x m' d') := by
  unfold Has
  constructor
  · rintro ⟨q, s', hq⟩
    rw [hmem] at hq
    refine ⟨?_, q, s', hq.1⟩
    rintro rfl
    exact hq.2 (h.names _ _ _ _ _ _ _ _ _ hq.1 hb)
  · rintro ⟨hx, q, s', hq⟩
    refine ⟨q, s', (hmem _ _ _ _ _).mpr ⟨hq, ?_⟩⟩
    rintro rfl
    have := tiles_pos_inj h.tiles hq hb rfl
    simp at this
    exact hx this.2.1

theorem deleteFound_spec {c : Cfg} {f : File} (h : Inv c f) {n m d : Bytes} {p s : Nat}
    (hb : (⟨p, s, .obj n m d⟩ : Block) ∈ f.blocks) :
    ∃ f', deleteFound f (c.hash n) p s = some f' ∧ Inv c f' ∧
      ∀ x m' d', Has f' x m' d' ↔ (x ≠ n ∧ Has f x m' d') := by
  have hbb := tiles_bounds h.tiles hb
  simp only at hbb
  have hat : ∀ b ∈ f.blocks, b.pos = p → b = ⟨p, s, .obj n m d⟩ :=
    fun b hb' hp => tiles_pos_inj h.tiles hb' hb hp
  -- the new bucket table
  have hbk : ∀ j q, q ∈ getB (setB f.buckets (c.hash n) ((getB f.buckets (c.hash n)).erase p)) j ↔
      q ≠ p ∧ q ∈ getB f.buckets j := by
    intro j q
    rw [getB_setB]
    split
    · rename_i hj; subst hj
      exact mem_erase_nodup (h.bucketNodup _)
    · rename_i hj
      constructor
      · intro hq
        refine ⟨?_, hq⟩
        rintro rfl
        obtain ⟨s', n', m', d', hb', hk⟩ := (h.bucketMem _ _).mp hq
        have := hat _ hb' rfl
        simp at this
        rw [this.2.1] at hk
        exact hj hk.symm
      · exact fun hq => hq.2
  have hbn : ∀ j, (getB (setB f.buckets (c.hash n) ((getB f.buckets (c.hash n)).erase p)) j).Nodup := by
    intro j
    rw [getB_setB]
    split
    · exact (h.bucketNodup _).erase _
    · exact h.bucketNodup _
  have hpe : p ∉ f.empties := by
    intro hq
    obtain ⟨s', hb'⟩ := (h.emptiesMem _).mp hq
    have := hat _ hb' rfl
    simp at this
  unfold deleteFound createEmpty
  simp only
  split
  · -- last block: truncate
    rename_i hlast
    refine ⟨_, rfl, ?_, ?_⟩
    · have hmem : ∀ x, x ∈ f.blocks.filter (fun b => b.pos < p) ↔ x ∈ f.blocks ∧ x.pos ≠ p := by
        intro x
        rw [List.mem_filter]
        simp only [decide_eq_true_eq]
        constructor
        · exact fun ⟨h1, h2⟩ => ⟨h1, by omega⟩
        · rintro ⟨h1, h2⟩
          refine ⟨h1, ?_⟩
          have hx := tiles_bounds h.tiles h1
          rcases tiles_order h.tiles h1 hb with e | e | e
          · rw [e] at h2; simp at h2
          · simp at e; omega
          · simp at e; omega
      constructor
      · exact tiles_truncate h.tiles hb
      · exact h.emptiesNodup
      · intro q
        simp only [hmem, h.emptiesMem]
        grind
      · exact hbn
      · intro k q
        simp only [hbk, hmem, h.bucketMem]
        grind
      · intro p1 s1 p2 s2 x m1 d1 m2 d2
        simp only [hmem]
        have := h.names
        grind
      · intro q s' x m' d'
        simp only [hmem]
        have := h.sized
        grind
    · intro x m' d'
      refine has_of_mem h hb (fun q s' x m' d' => ?_) x m' d'
      rw [List.mem_filter]
      simp only [decide_eq_true_eq]
      constructor
      · exact fun ⟨h1, h2⟩ => ⟨h1, by omega⟩
      · rintro ⟨h1, h2⟩
        refine ⟨h1, ?_⟩
        have hx := tiles_bounds h.tiles h1
        rcases tiles_order h.tiles h1 hb with e | e | e
        · simp at e; omega
        · simp at e; simp at hx; omega
        · simp at e; simp at hx; omega
  · rename_i hlast
    have hnext : ∃ b' ∈ f.blocks, b'.pos = p + s := by
      rcases tiles_next h.tiles hb with e | e
      · exact absurd e hlast
      · exact e
    obtain ⟨b', hb', hp'⟩ := hnext
    have hat' := blockAt_of_mem h.tiles hb'
    rw [hp'] at hat'
    rw [hat']
    rcases b' with ⟨p', s2, body⟩
    simp only at hp'
    subst hp'
    have hex : ∃ b ∈ f.blocks, b.pos = p := ⟨_, hb, rfl⟩
    have hs2 := tiles_bounds h.tiles hb'
    simp only at hs2
    cases body with
    | empty =>
      simp only
      have hin : p + s ∈ f.empties := (h.emptiesMem _).mpr ⟨s2, hb'⟩
      simp only [hin, if_true]
      have hat2 : ∀ b ∈ f.blocks, b.pos = p + s → b = ⟨p + s, s2, .empty⟩ :=
        fun b hb'' hp => tiles_pos_inj h.tiles hb'' hb' hp
      have hmem : ∀ x, x ∈ replaceAt (p + s) [] (replaceAt p [⟨p, s + s2, .empty⟩] f.blocks) ↔
          (x ∈ f.blocks ∧ x.pos ≠ p ∧ x.pos ≠ p + s) ∨ x = ⟨p, s + s2, .empty⟩ := by
        intro x
        simp only [mem_replaceAt, hex, and_true, List.mem_singleton, List.not_mem_nil, false_and,
          or_false]
        constructor
        · rintro ⟨h1 | h1, h2⟩
          · exact Or.inl ⟨h1.1, h1.2, h2⟩
          · exact Or.inr h1
        · rintro (⟨h1, h2, h3⟩ | h1)
          · exact ⟨Or.inl ⟨h1, h2⟩, h3⟩
          · refine ⟨Or.inr h1, ?_⟩
            rw [h1]; simp; omega
      refine ⟨_, rfl, ?_, ?_⟩
      · constructor
        · exact tiles_merge h.tiles hb hb'
        · rw [List.nodup_cons]
          exact ⟨fun hq => hpe (List.mem_of_mem_erase hq), h.emptiesNodup.erase _⟩
        · intro q
          simp only [hmem, List.mem_cons, mem_erase_nodup h.emptiesNodup, h.emptiesMem]
          grind
        · exact hbn
        · intro k q
          simp only [hbk, hmem, h.bucketMem]
          grind
        · intro p1 s1 p2 s2 x m1 d1 m2 d2
          simp only [hmem]
          have := h.names
          grind
        · intro q s' x m' d'
          simp only [hmem]
          have := h.sized
          grind
      · intro x m' d'
        refine has_of_mem h hb (fun q s' x m' d' => ?_) x m' d'
        simp only [hmem]
        grind
    | obj n2 m2 d2 =>
      simp only
      have hmem : ∀ x, x ∈ replaceAt p [⟨p, s, .empty⟩] f.blocks ↔
          (x ∈ f.blocks ∧ x.pos ≠ p) ∨ x = ⟨p, s, .empty⟩ := by
        intro x; rw [mem_replaceAt]; simp [hex]
      refine ⟨_, rfl, ?_, ?_⟩
      · constructor
        · refine tiles_replaceAt h.tiles (fun b hb'' hp => ?_)
          rw [hat b hb'' hp]
          simp [Tiles, hbb.2.2.1, hbb.2.2.2]
        · rw [List.nodup_cons]
          exact ⟨hpe, h.emptiesNodup⟩
        · intro q
          simp only [hmem, List.mem_cons, h.emptiesMem]
          grind
        · exact hbn
        · intro k q
          simp only [hbk, hmem, h.bucketMem]
          grind
        · intro p1 s1 p2 s2 x m1 d1 m2 d2
          simp only [hmem]
          have := h.names
          grind
        · intro q s' x m' d'
          simp only [hmem]
          have := h.sized
          grind
      · intro x m' d'
        refine has_of_mem h hb (fun q s' x m' d' => ?_) x m' d'
        simp only [hmem]
        grind

/-! ## update in place -/

/-- In-place update (`write_object` over a block of the same paged size). -/
theorem inplace_spec {c : Cfg} {f : File} (h : Inv c f) {n m0 d0 m d : Bytes} {p s : Nat}
    (hb : (⟨p, s, .obj n m0 d0⟩ : Block) ∈ f.blocks) (hs : s = paged c n d) :
    Inv c { f with blocks := replaceAt p [⟨p, s, .obj n m d⟩] f.blocks } ∧
    ∀ x m' d', Has { f with blocks := replaceAt p [⟨p, s, .obj n m d⟩] f.blocks } x m' d' ↔
      (x ≠ n ∧ Has f x m' d') ∨ (x = n ∧ m' = m ∧ d' = d) := by
  have hbb := tiles_bounds h.tiles hb
  simp only at hbb
  have hat : ∀ b ∈ f.blocks, b.pos = p → b = ⟨p, s, .obj n m0 d0⟩ :=
    fun b hb' hp => tiles_pos_inj h.tiles hb' hb hp
  have hex : ∃ b ∈ f.blocks, b.pos = p := ⟨_, hb, rfl⟩
  have hmem : ∀ x, x ∈ replaceAt p [⟨p, s, .obj n m d⟩] f.blocks ↔
      (x ∈ f.blocks ∧ x.pos ≠ p) ∨ x = ⟨p, s, .obj n m d⟩ := by
    intro x; rw [mem_replaceAt]; simp [hex]
  constructor
  · constructor
    · refine tiles_replaceAt h.tiles (fun b hb'' hp => ?_)
      rw [hat b hb'' hp]
      simp [Tiles, hbb.2.2.1, hbb.2.2.2]
    · exact h.emptiesNodup
    · intro q
      simp only [hmem, h.emptiesMem]
      grind
    · exact h.bucketNodup
    · intro k q
      simp only [hmem, h.bucketMem]
      grind
    · intro p1 s1 p2 s2 x m1 d1 m2 d2
      simp only [hmem]
      have := h.names
      grind
    · intro q s' x m' d'
      simp only [hmem]
      have := h.sized
      grind
  · intro x m' d'
    unfold Has
    simp only [hmem]
    have := h.names
    grind

/-! ## the public operations -/

theorem abs_found {c : Cfg} {f : File} (h : Inv c f) {n m d : Bytes} {p s : Nat}
    (hb : (⟨p, s, .obj n m d⟩ : Block) ∈ f.blocks) : abs f n = some (m, d) :=
  (abs_iff h).mpr ⟨p, s, hb⟩

theorem abs_missing {c : Cfg} {f : File} (h : Inv c f) {n : Bytes}
    (hn : ∀ p s m d, (⟨p, s, .obj n m d⟩ : Block) ∉ f.blocks) : abs f n = none := by
  cases hq : abs f n with
  | none => rfl
  | some v =>
    obtain ⟨m, d⟩ := v
    obtain ⟨p, s, hb⟩ := (abs_iff h).mp hq
    exact absurd hb (hn p s m d)

/-- One operation on a consistent file: the invariant is kept, and state and output are those
of the map. -/
theorem step_spec {c : Cfg} {f : File} (h : Inv c f) (op : Op) :
    Inv c (step c f op).1 ∧ abs (step c f op).1 = (mapStep (abs f) op).1 ∧
      (step c f op).2 = (mapStep (abs f) op).2 := by
  cases op with
  | publish n m d =>
    simp only [step, mapStep]
    have hf := find_spec h n
    generalize find c f n = r at hf ⊢
    cases hf with
    | @found p s m0 d0 hb => simp only [abs_found h hb]; exact ⟨h, by trivial, by trivial⟩
    | missing hn =>
        obtain ⟨f', he, hinv, hhas⟩ := publishNotFound_spec (m := m) (d := d) h hn
        simp only [abs_missing h hn, he, orCorrupt]
        refine ⟨hinv, ?_, by trivial⟩
        refine abs_eq_of_has h hinv (fun x m' d' => ?_)
        rw [hhas]
        have : ∀ m' d', ¬ Has f n m' d' := fun m' d' ⟨p, s, hb⟩ => hn p s m' d' hb
        grind
  | update n m d check =>
    simp only [step, mapStep]
    have hf := find_spec h n
    generalize find c f n = r at hf ⊢
    cases hf with
    | missing hn => simp only [abs_missing h hn]; exact ⟨h, by trivial, by trivial⟩
    | @found p s m0 d0 hb =>
        simp only [abs_found h hb]
        by_cases hc : check m0 = true
        · simp only [hc, if_true]
          by_cases hs : s = paged c n d
          · simp only [hs, if_true]
            have := inplace_spec (m := m) (d := d) h hb hs
            rw [hs] at this
            refine ⟨this.1, ?_, by trivial⟩
            refine abs_eq_of_has h this.1 (fun x m' d' => ?_)
            rw [this.2]
            grind
          · simp only [hs, if_false]
            obtain ⟨f1, he1, hinv1, hhas1⟩ := deleteFound_spec h hb
            rw [he1]
            simp only
            have hn1 : ∀ p s m' d', (⟨p, s, .obj n m' d'⟩ : Block) ∉ f1.blocks := by
              intro p s m' d' hb'
              have := (hhas1 n m' d').mp ⟨p, s, hb'⟩
              exact this.1 rfl
            obtain ⟨f2, he2, hinv2, hhas2⟩ := publishNotFound_spec (m := m) (d := d) hinv1 hn1
            simp only [he2, orCorrupt]
            refine ⟨hinv2, ?_, by trivial⟩
            refine abs_eq_of_has h hinv2 (fun x m' d' => ?_)
            rw [hhas2, hhas1]
            grind
        · simp only [hc]
          exact ⟨h, by trivial, by trivial⟩
  | delete n check =>
    simp only [step, mapStep]
    have hf := find_spec h n
    generalize find c f n = r at hf ⊢
    cases hf with
    | missing hn => simp only [abs_missing h hn]; exact ⟨h, by trivial, by trivial⟩
    | @found p s m0 d0 hb =>
        simp only [abs_found h hb]
        by_cases hc : check m0 = true
        · simp only [hc, if_true]
          obtain ⟨f1, he1, hinv1, hhas1⟩ := deleteFound_spec h hb
          simp only [he1, orCorrupt]
          refine ⟨hinv1, ?_, by trivial⟩
          refine abs_eq_of_has h hinv1 (fun x m' d' => ?_)
          rw [hhas1]
          grind
        · simp only [hc]
          exact ⟨h, by trivial, by trivial⟩
  | fetch n =>
    simp only [step, mapStep]
    have hf := find_spec h n
    generalize find c f n = r at hf ⊢
    cases hf with
    | missing hn => simp only [abs_missing h hn]; exact ⟨h, by trivial, by trivial⟩
    | @found p s m0 d0 hb => simp only [abs_found h hb]; exact ⟨h, by trivial, by trivial⟩
  | fetchIf n check =>
    simp only [step, mapStep]
    have hf := find_spec h n
    generalize find c f n = r at hf ⊢
    cases hf with
    | missing hn => simp only [abs_missing h hn]; exact ⟨h, by trivial, by trivial⟩
    | @found p s m0 d0 hb =>
        simp only [abs_found h hb]
        by_cases hc : check m0 = true <;> simp only [hc] <;> exact ⟨h, by trivial, by trivial⟩
  | reopen => exact ⟨h, by trivial, by trivial⟩

/-! ## sequences, AppendArchive -/

/-- Operation sequences, by induction. -/
theorem run_spec {c : Cfg} {f : File} (h : Inv c f) (ops : List Op) :
    Inv c (run c f ops).1 ∧ abs (run c f ops).1 = (mapRun (abs f) ops).1 ∧
      (run c f ops).2 = (mapRun (abs f) ops).2 := by
  induction ops generalizing f with
  | nil => exact ⟨h, rfl, rfl⟩
  | cons op ops ih =>
    obtain ⟨h1, h2, h3⟩ := step_spec h op
    obtain ⟨i1, i2, i3⟩ := ih h1
    simp only [run, mapRun]
    rw [← h2, ← h3]
    exact ⟨i1, i2, by rw [i3]⟩

theorem any_name_iff {c : Cfg} {f : File} (h : Inv c f) (n : Bytes) :
    f.blocks.any (fun b => match b.body with | .obj n' _ _ => n' == n | .empty => false) = true ↔
      (abs f n).isSome = true := by
  rw [List.any_eq_true]
  constructor
  · rintro ⟨b, hb, hn⟩
    rcases b with ⟨p, s, body⟩
    cases body with
    | empty => simp at hn
    | obj n' m d =>
      simp at hn
      subst hn
      rw [abs_found h hb]; rfl
  · intro hs
    cases hq : abs f n with
    | none => rw [hq] at hs; cases hs
    | some v =>
      obtain ⟨m, d⟩ := v
      obtain ⟨p, s, hb⟩ := (abs_iff h).mp hq
      exact ⟨_, hb, by simp⟩

/-- `AppendArchive::publish` is the map's publish as well. -/
theorem appendStep_spec {c : Cfg} {f : File} (h : Inv c f) (n m d : Bytes) :
    Inv c (appendStep c f n m d).1 ∧
      abs (appendStep c f n m d).1 = (mapStep (abs f) (.publish n m d)).1 ∧
      (appendStep c f n m d).2 = (mapStep (abs f) (.publish n m d)).2 := by
  unfold appendStep
  simp only [mapStep]
  split
  · rename_i hany
    have := (any_name_iff h n).mp hany
    cases hq : abs f n with
    | none => rw [hq] at this; cases this
    | some v => exact ⟨h, by trivial, by trivial⟩
  · rename_i hany
    have hnone : abs f n = none := by
      cases hq : abs f n with
      | none => rfl
      | some v => exact absurd ((any_name_iff h n).mpr (by rw [hq]; rfl)) hany
    have hn : ∀ p s m' d', (⟨p, s, .obj n m' d'⟩ : Block) ∉ f.blocks := by
      intro p s m' d' hb
      rw [abs_found h hb] at hnone
      cases hnone
    have hinv := publishAppend_inv (m := m) (d := d) h hn
    simp only [hnone]
    refine ⟨hinv, ?_, by trivial⟩
    refine abs_eq_of_has h hinv (fun x m' d' => ?_)
    rw [publishAppend_has]
    have : ∀ m' d', ¬ Has f n m' d' := fun m' d' ⟨p, s, hb⟩ => hn p s m' d' hb
    grind

theorem appendRun_spec {c : Cfg} {f : File} (h : Inv c f) (ops : List (Bytes × Bytes × Bytes)) :
    Inv c (appendRun c f ops).1 ∧
      abs (appendRun c f ops).1 = (mapRun (abs f) (ops.map fun o => .publish o.1 o.2.1 o.2.2)).1 ∧
      (appendRun c f ops).2 = (mapRun (abs f) (ops.map fun o => .publish o.1 o.2.1 o.2.2)).2 := by
  induction ops generalizing f with
  | nil => exact ⟨h, rfl, rfl⟩
  | cons op ops ih =>
    obtain ⟨n, m, d⟩ := op
    obtain ⟨h1, h2, h3⟩ := appendStep_spec h n m d
    obtain ⟨i1, i2, i3⟩ := ih h1
    simp only [appendRun, mapRun, List.map_cons]
    rw [← h2, ← h3]
    exact ⟨i1, i2, by rw [i3]⟩

theorem abs_init : abs init = fun _ => none := by
  funext n; rfl

theorem mapStep_not_corrupt (m : MapSt) (op : Op) : (mapStep m op).2 ≠ .corrupt := by
  cases op <;> simp only [mapStep] <;> (repeat' split) <;> simp

/-! ## verify -/

theorem tiles_pairwise {a z : Nat} {bs : List Block} (h : Tiles a z bs) :
    bs.Pairwise (fun x y => x.pos < y.pos) := by
  induction bs generalizing a with
  | nil => exact List.Pairwise.nil
  | cons b bs ih =>
    simp only [Tiles] at h
    rw [List.pairwise_cons]
    refine ⟨fun y hy => ?_, ih h.2.2.2⟩
    have := tiles_bounds h.2.2.2 hy
    omega

theorem tiles_contiguous {a z : Nat} {bs : List Block} (h : Tiles a z bs) :
    contiguous (bs.map fun b => (b.pos, b.size)) = true := by
  induction bs generalizing a with
  | nil => rfl
  | cons b bs ih =>
    simp only [Tiles] at h
    cases bs with
    | nil => rfl
    | cons y bs =>
      have h2 := h.2.2.2
      simp only [Tiles] at h2
      simp only [List.map_cons, contiguous, Bool.and_eq_true, beq_iff_eq]
      refine ⟨by omega, ?_⟩
      have := ih h.2.2.2
      simpa using this

theorem verifyChain_spec {c : Cfg} {a z : Nat} {bs : List Block} (ht : Tiles a z bs) {k : Nat}
    {ps : List Nat}
    (hps : ∀ p ∈ ps, ∃ s n m d, (⟨p, s, .obj n m d⟩ : Block) ∈ bs ∧ c.hash n = k) :
    ∃ l, verifyChain c bs k ps = some l ∧ l.map Prod.fst = ps ∧
      ∀ e ∈ l, ∃ body, (⟨e.1, e.2, body⟩ : Block) ∈ bs := by
  induction ps with
  | nil => exact ⟨[], rfl, rfl, by simp⟩
  | cons q ps ih =>
    obtain ⟨l, hl, hm, he⟩ := ih (fun p hp => hps p (List.mem_cons_of_mem _ hp))
    obtain ⟨s, n, m, d, hq, hk⟩ := hps q List.mem_cons_self
    have hb := blockAt_of_mem ht hq
    simp only at hb
    refine ⟨(q, s) :: l, ?_, by simp [hm], ?_⟩
    · simp [verifyChain, hb, hl, hk]
    · intro e hmem
      rcases List.mem_cons.mp hmem with e1 | hmem
      · subst e1; exact ⟨_, hq⟩
      · exact he e hmem

theorem verifyEmpties_spec {a z : Nat} {bs : List Block} (ht : Tiles a z bs) {ps : List Nat}
    (hps : ∀ p ∈ ps, ∃ s, (⟨p, s, .empty⟩ : Block) ∈ bs) :
    ∃ l, verifyEmpties bs ps = some l ∧ l.map Prod.fst = ps ∧
      ∀ e ∈ l, ∃ body, (⟨e.1, e.2, body⟩ : Block) ∈ bs := by
  induction ps with
  | nil => exact ⟨[], rfl, rfl, by simp⟩
  | cons q ps ih =>
    obtain ⟨l, hl, hm, he⟩ := ih (fun p hp => hps p (List.mem_cons_of_mem _ hp))
    obtain ⟨s, hq⟩ := hps q List.mem_cons_self
    have hb := blockAt_of_mem ht hq
    simp only at hb
    refine ⟨(q, s) :: l, ?_, by simp [hm], ?_⟩
    · simp [verifyEmpties, hb, hl]
    · intro e hmem
      rcases List.mem_cons.mp hmem with e1 | hmem
      · subst e1; exact ⟨_, hq⟩
      · exact he e hmem

theorem verifyFold_spec {c : Cfg} {f : File} (h : Inv c f) (ks : List Nat) :
    ∃ os, verifyBuckets c f ks = some os ∧
      os.map Prod.fst = ks.flatMap (getB f.buckets) ∧
      ∀ e ∈ os, ∃ body, (⟨e.1, e.2, body⟩ : Block) ∈ f.blocks := by
  induction ks with
  | nil => exact ⟨[], rfl, rfl, by simp⟩
  | cons k ks ih =>
    obtain ⟨os, ho, hm, he⟩ := ih
    obtain ⟨l, hl, hlm, hle⟩ := verifyChain_spec (c := c) (k := k) h.tiles
      (ps := getB f.buckets k) (fun p hp => (h.bucketMem k p).mp hp)
    refine ⟨l ++ os, ?_, by simp [hlm, hm], ?_⟩
    · unfold verifyBuckets at ho ⊢
      simp only [List.foldr_cons, ho, hl]
    · intro e hmem
      rcases List.mem_append.mp hmem with h1 | h1
      · exact hle e h1
      · exact he e h1

theorem nodup_flatMap_buckets {c : Cfg} {f : File} (h : Inv c f) {ks : List Nat} (hk : ks.Nodup) :
    (ks.flatMap (getB f.buckets)).Nodup := by
  induction ks with
  | nil => simp
  | cons k ks ih =>
    rw [List.nodup_cons] at hk
    simp only [List.flatMap_cons]
    rw [List.nodup_append]
    refine ⟨h.bucketNodup k, ih hk.2, ?_⟩
    intro p hp q hq hpq
    subst hpq
    obtain ⟨j, hj, hpj⟩ := List.mem_flatMap.mp hq
    obtain ⟨s1, n1, m1, d1, hb1, hk1⟩ := (h.bucketMem _ _).mp hp
    obtain ⟨s2, n2, m2, d2, hb2, hk2⟩ := (h.bucketMem _ _).mp hpj
    have := tiles_pos_inj h.tiles hb1 hb2 rfl
    simp at this
    rw [this.2.1] at hk1
    rw [hk1] at hk2
    subst hk2
    exact hk.1 hj

/-- `verify()` succeeds on every consistent file (given that all names hash into the
`nb` buckets `verify` looks at). -/
theorem verify_of_inv {c : Cfg} {f : File} (h : Inv c f) (hh : ∀ n, c.hash n < c.nb) :
    verify c f = true := by
  obtain ⟨os, ho, hom, hoe⟩ := verifyFold_spec h (List.range c.nb)
  obtain ⟨es, he, hem, hee⟩ := verifyEmpties_spec h.tiles (ps := f.empties)
    (fun p hp => (h.emptiesMem p).mp hp)
  unfold verify
  simp only [ho, he]
  -- the collected list, up to order, is the block list
  have hLe : ∀ e ∈ os ++ es, ∃ body, (⟨e.1, e.2, body⟩ : Block) ∈ f.blocks := by
    intro e hmem
    rcases List.mem_append.mp hmem with h1 | h1
    · exact hoe e h1
    · exact hee e h1
  have hfst : (os ++ es).map Prod.fst = (List.range c.nb).flatMap (getB f.buckets) ++ f.empties := by
    simp [hom, hem]
  have hnd1 : ((os ++ es).map Prod.fst).Nodup := by
    rw [hfst, List.nodup_append]
    refine ⟨nodup_flatMap_buckets h List.nodup_range, h.emptiesNodup, ?_⟩
    intro p hp q hq hpq
    subst hpq
    obtain ⟨j, _, hpj⟩ := List.mem_flatMap.mp hp
    obtain ⟨s1, n1, m1, d1, hb1, _⟩ := (h.bucketMem _ _).mp hpj
    obtain ⟨s2, hb2⟩ := (h.emptiesMem _).mp hq
    have := tiles_pos_inj h.tiles hb1 hb2 rfl
    simp at this
  have hnd : (os ++ es).Nodup := by
    unfold List.Nodup at hnd1 ⊢
    rw [List.pairwise_map] at hnd1
    exact hnd1.imp (fun hab e => hab (by rw [e]))
  have hTp : (f.blocks.map fun b => (b.pos, b.size)).Pairwise (fun x y => x.1 < y.1) := by
    rw [List.pairwise_map]; exact tiles_pairwise h.tiles
  have hTnd : (f.blocks.map fun b => (b.pos, b.size)).Nodup := by
    refine hTp.imp ?_
    intro x y hxy e; rw [e] at hxy; exact Nat.lt_irrefl _ hxy
  have hmem : ∀ e, e ∈ os ++ es ↔ e ∈ f.blocks.map fun b => (b.pos, b.size) := by
    intro e
    rw [List.mem_map]
    constructor
    · intro hm
      obtain ⟨body, hb⟩ := hLe e hm
      exact ⟨_, hb, rfl⟩
    · rintro ⟨b, hb, rfl⟩
      have hp : b.pos ∈ (os ++ es).map Prod.fst := by
        rw [hfst, List.mem_append]
        rcases b with ⟨p, s, body⟩
        cases body with
        | empty => exact Or.inr ((h.emptiesMem p).mpr ⟨s, hb⟩)
        | obj n m d =>
          left
          rw [List.mem_flatMap]
          exact ⟨c.hash n, List.mem_range.mpr (hh n), (h.bucketMem _ _).mpr ⟨s, n, m, d, hb, rfl⟩⟩
      obtain ⟨e, hm, he1⟩ := List.mem_map.mp hp
      obtain ⟨body, hb'⟩ := hLe e hm
      have := tiles_pos_inj h.tiles hb' hb he1
      rw [← this]
      exact hm
  have hperm : (sortByPos (os ++ es)).Perm (f.blocks.map fun b => (b.pos, b.size)) :=
    (List.mergeSort_perm _ _).trans ((List.perm_ext_iff_of_nodup hnd hTnd).mpr hmem)
  have hsorted : (sortByPos (os ++ es)).Pairwise (fun a b => decide (a.1 ≤ b.1) = true) :=
    List.pairwise_mergeSort
      (fun a b c h1 h2 => by simp at *; omega) (fun a b => by simp; omega) _
  have heq : sortByPos (os ++ es) = f.blocks.map fun b => (b.pos, b.size) := by
    refine List.Perm.eq_of_pairwise ?_ hsorted (hTp.imp ?_) hperm
    · intro x y hx hy h1 h2
      have hx' := hperm.mem_iff.mp hx
      obtain ⟨b1, hb1, rfl⟩ := List.mem_map.mp hx'
      obtain ⟨b2, hb2, rfl⟩ := List.mem_map.mp hy
      simp at h1 h2
      have := tiles_pos_inj h.tiles hb1 hb2 (by omega)
      rw [this]
    · intro x y hxy; simp; omega
  rw [heq]
  exact tiles_contiguous h.tiles

/-! ## objects -/

/-- The (name, meta, data) of the object block at `p`. -/
def entryAt (bs : List Block) (p : Nat) : Bytes × Bytes × Bytes :=
  match blockAt bs p with
  | some ⟨_, _, .obj n m d⟩ => (n, m, d)
  | _ => ([], [], [])

theorem entryAt_of_mem {a z : Nat} {bs : List Block} (ht : Tiles a z bs) {p s : Nat} {n m d : Bytes}
    (hb : (⟨p, s, .obj n m d⟩ : Block) ∈ bs) : entryAt bs p = (n, m, d) := by
  have := blockAt_of_mem ht hb
  simp only at this
  simp [entryAt, this]

theorem chainObjects_spec {a z : Nat} {bs : List Block} (ht : Tiles a z bs) {ps : List Nat}
    (hps : ∀ p ∈ ps, ∃ s n m d, (⟨p, s, .obj n m d⟩ : Block) ∈ bs) :
    chainObjects bs ps = some (ps.map (entryAt bs)) := by
  induction ps with
  | nil => rfl
  | cons q ps ih =>
    obtain ⟨s, n, m, d, hq⟩ := hps q List.mem_cons_self
    have hb := blockAt_of_mem ht hq
    simp only at hb
    simp [chainObjects, hb, ih (fun p hp => hps p (List.mem_cons_of_mem _ hp)), entryAt]

theorem objectsOf_spec {c : Cfg} {f : File} (h : Inv c f) (ks : List Nat) :
    objectsOf f ks = some ((ks.flatMap (getB f.buckets)).map (entryAt f.blocks)) := by
  induction ks with
  | nil => rfl
  | cons k ks ih =>
    have := chainObjects_spec h.tiles (ps := getB f.buckets k) (fun p hp => by
      obtain ⟨s, n, m, d, hb, _⟩ := (h.bucketMem k p).mp hp
      exact ⟨s, n, m, d, hb⟩)
    unfold objectsOf at ih ⊢
    simp only [List.foldr_cons, ih, this, List.flatMap_cons, List.map_append]

theorem nodup_map_of_inj_on {α β : Type} {g : α → β} {l : List α} (hn : l.Nodup)
    (hi : ∀ x ∈ l, ∀ y ∈ l, g x = g y → x = y) : (l.map g).Nodup := by
  induction l with
  | nil => simp
  | cons x l ih =>
    rw [List.nodup_cons] at hn
    rw [List.map_cons, List.nodup_cons]
    refine ⟨?_, ih hn.2 (fun a ha b hb => hi a (List.mem_cons_of_mem _ ha) b (List.mem_cons_of_mem _ hb))⟩
    intro hm
    obtain ⟨y, hy, e⟩ := List.mem_map.mp hm
    have := hi y (List.mem_cons_of_mem _ hy) x List.mem_cons_self e
    subst this
    exact hn.1 hy

/-- `objects()` on a consistent file yields exactly the entries of the map, each name once. -/
theorem objects_spec {c : Cfg} {f : File} (h : Inv c f) (hh : ∀ n, c.hash n < c.nb) :
    ∃ l, objects c f = some l ∧ (∀ n m d, (n, m, d) ∈ l ↔ abs f n = some (m, d)) ∧
      (l.map (·.1)).Nodup := by
  refine ⟨_, objectsOf_spec h _, ?_, ?_⟩
  · intro n m d
    rw [abs_iff h, List.mem_map]
    constructor
    · rintro ⟨p, hp, he⟩
      obtain ⟨k, _, hpk⟩ := List.mem_flatMap.mp hp
      obtain ⟨s, n', m', d', hb, _⟩ := (h.bucketMem k p).mp hpk
      rw [entryAt_of_mem h.tiles hb] at he
      simp at he
      obtain ⟨e1, e2, e3⟩ := he
      subst e1 e2 e3
      exact ⟨p, s, hb⟩
    · rintro ⟨p, s, hb⟩
      refine ⟨p, ?_, entryAt_of_mem h.tiles hb⟩
      rw [List.mem_flatMap]
      exact ⟨c.hash n, List.mem_range.mpr (hh n), (h.bucketMem _ _).mpr ⟨s, n, m, d, hb, rfl⟩⟩
  · rw [List.map_map]
    refine nodup_map_of_inj_on (nodup_flatMap_buckets h List.nodup_range) ?_
    intro p hp q hq he
    obtain ⟨k1, _, hp1⟩ := List.mem_flatMap.mp hp
    obtain ⟨k2, _, hq1⟩ := List.mem_flatMap.mp hq
    obtain ⟨s1, n1, m1, d1, hb1, _⟩ := (h.bucketMem _ _).mp hp1
    obtain ⟨s2, n2, m2, d2, hb2, _⟩ := (h.bucketMem _ _).mp hq1
    simp only [Function.comp, entryAt_of_mem h.tiles hb1, entryAt_of_mem h.tiles hb2] at he
    subst he
    exact h.names _ _ _ _ _ _ _ _ _ hb1 hb2

/-! ## find_empty: smallest fit -/

theorem emptyHeaders_complete {a z : Nat} {bs : List Block} (ht : Tiles a z bs) {ps : List Nat}
    {hs : List (Nat × Nat)} (he : emptyHeaders bs ps = some hs) {p s : Nat} {body : Body}
    (hp : p ∈ ps) (hb : (⟨p, s, body⟩ : Block) ∈ bs) : (s, p) ∈ hs := by
  induction ps generalizing hs with
  | nil => simp at hp
  | cons q ps ih =>
    unfold emptyHeaders at he
    split at he
    · rename_i b r hq hr
      injection he with he
      subst he
      rcases List.mem_cons.mp hp with e | hp
      · subst e
        have := blockAt_of_mem ht hb
        simp only at this
        rw [this] at hq
        injection hq with hq
        subst hq
        exact List.mem_cons_self
      · exact List.mem_cons_of_mem _ (ih hr hp)
    · cases he

theorem pickSmallest_le {l : List (Nat × Nat)} {x : Nat × Nat} (h : pickSmallest l = some x) :
    ∀ y ∈ l, x.1 ≤ y.1 := by
  induction l generalizing x with
  | nil => simp
  | cons y ys ih =>
    unfold pickSmallest at h
    split at h
    · rename_i hw
      injection h with e; subst e
      intro w hw'
      rcases List.mem_cons.mp hw' with e | hw'
      · subst e; exact Nat.le_refl _
      · cases ys with
        | nil => simp at hw'
        | cons u us =>
          exfalso
          unfold pickSmallest at hw
          split at hw <;> (try split at hw) <;> cases hw
    · rename_i w hw
      split at h
      · rename_i hlt
        injection h with e; subst e
        intro v hv
        rcases List.mem_cons.mp hv with e | hv
        · subst e; omega
        · exact ih hw v hv
      · rename_i hlt
        injection h with e; subst e
        intro v hv
        rcases List.mem_cons.mp hv with e | hv
        · subst e; exact Nat.le_refl _
        · have := ih hw v hv; omega

theorem pickSmallest_none {l : List (Nat × Nat)} (h : pickSmallest l = none) : l = [] := by
  cases l with
  | nil => rfl
  | cons y ys =>
    unfold pickSmallest at h
    split at h <;> (try split at h) <;> cases h

/-- Free space is reused whenever possible, smallest fitting block first: `find_empty` returns
`None` only if no empty block fits, and otherwise a fitting empty block of minimal size. -/
theorem findEmpty_best {c : Cfg} {f : File} (h : Inv c f) (size : Nat) :
    (findEmpty f size = some none ∧ ∀ p s, (⟨p, s, .empty⟩ : Block) ∈ f.blocks → fits s size = false) ∨
    ∃ es p, findEmpty f size = some (some (es, p)) ∧
      (⟨p, es, .empty⟩ : Block) ∈ f.blocks ∧ fits es size = true ∧
      ∀ p' s', (⟨p', s', .empty⟩ : Block) ∈ f.blocks → fits s' size = true → es ≤ s' := by
  obtain ⟨hs, he, hh⟩ := emptyHeaders_spec h.tiles (fun p hp => (h.emptiesMem p).mp hp)
  have hall : ∀ p' s', (⟨p', s', .empty⟩ : Block) ∈ f.blocks → fits s' size = true →
      (s', p') ∈ hs.filter (fun h => fits h.1 size) := by
    intro p' s' hb hf
    rw [List.mem_filter]
    exact ⟨emptyHeaders_complete h.tiles he ((h.emptiesMem p').mpr ⟨s', hb⟩) hb, hf⟩
  unfold findEmpty
  rw [he]
  simp only
  cases hq : pickSmallest (hs.filter (fun h => fits h.1 size)) with
  | none =>
    left
    refine ⟨rfl, fun p s hb => ?_⟩
    cases hf : fits s size with
    | false => rfl
    | true =>
      have := hall p s hb hf
      rw [pickSmallest_none hq] at this
      simp at this
  | some x =>
    right
    obtain ⟨es, p⟩ := x
    have hm := pickSmallest_mem hq
    rw [List.mem_filter] at hm
    refine ⟨es, p, rfl, (hh _ hm.1).2, hm.2, fun p' s' hb hf => ?_⟩
    exact pickSmallest_le hq _ (hall p' s' hb hf)

end RoutinatorModel.Archive
