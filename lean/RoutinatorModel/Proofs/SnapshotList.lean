import RoutinatorModel.Model.Snapshot
/-! Generic list lemmas for the snapshot builder: insert-if-absent folds, sorting by a rank,
the sorted union of ASN sets. -/
namespace RoutinatorModel

section InsertNew
variable {α : Type} [DecidableEq α]

theorem mem_insertNew {m : List α} {x y : α} : y ∈ insertNew m x ↔ y ∈ m ∨ y = x := by
  unfold insertNew
  by_cases h : x ∈ m
  · simp only [h, if_true]
    constructor
    · exact Or.inl
    · rintro (h' | rfl)
      · exact h'
      · exact h
  · simp [h]

theorem nodup_insertNew {m : List α} {x : α} (h : m.Nodup) : (insertNew m x).Nodup := by
  unfold insertNew
  by_cases hx : x ∈ m
  · simp [hx, h]
  · simp only [hx, if_false]
    rw [List.nodup_append]
    refine ⟨h, by simp, ?_⟩
    intro a ha b hb
    simp at hb
    subst hb
    intro e; subst e; exact hx ha

/-- The shape of all three "insert unless filtered" loops. -/
def insertIf (keep : α → Bool) (acc : List α) (x : α) : List α :=
  if keep x then insertNew acc x else acc

theorem mem_foldl_insertIf (keep : α → Bool) (l acc : List α) (y : α) :
    y ∈ l.foldl (insertIf keep) acc ↔ y ∈ acc ∨ (y ∈ l ∧ keep y = true) := by
  induction l generalizing acc with
  | nil => simp
  | cons x l ih =>
    rw [List.foldl_cons, ih]
    unfold insertIf
    by_cases hk : keep x = true
    · simp only [hk, if_true, mem_insertNew, List.mem_cons]
      constructor
      · rintro ((h | rfl) | ⟨h, h'⟩)
        · exact Or.inl h
        · exact Or.inr ⟨Or.inl rfl, hk⟩
        · exact Or.inr ⟨Or.inr h, h'⟩
      · rintro (h | ⟨rfl | h, h'⟩)
        · exact Or.inl (Or.inl h)
        · exact Or.inl (Or.inr rfl)
        · exact Or.inr ⟨h, h'⟩
    · simp only [hk, List.mem_cons]
      constructor
      · rintro (h | ⟨h, h'⟩)
        · exact Or.inl h
        · exact Or.inr ⟨Or.inr h, h'⟩
      · rintro (h | ⟨rfl | h, h'⟩)
        · exact Or.inl h
        · exact absurd h' hk
        · exact Or.inr ⟨h, h'⟩

theorem nodup_foldl_insertIf (keep : α → Bool) (l acc : List α) (h : acc.Nodup) :
    (l.foldl (insertIf keep) acc).Nodup := by
  induction l generalizing acc with
  | nil => simpa
  | cons x l ih =>
    rw [List.foldl_cons]
    apply ih
    unfold insertIf
    split
    · exact nodup_insertNew h
    · exact h

end InsertNew

/-! ### `sortBy` -/

section SortBy
variable {α : Type}

theorem mem_insertBy (κ : α → Nat) (x y : α) (l : List α) :
    y ∈ insertBy κ x l ↔ y = x ∨ y ∈ l := by
  induction l with
  | nil => simp [insertBy]
  | cons z l ih =>
    unfold insertBy
    split
    · simp
    · simp only [List.mem_cons, ih]
      constructor
      · rintro (h | h | h)
        · exact Or.inr (Or.inl h)
        · exact Or.inl h
        · exact Or.inr (Or.inr h)
      · rintro (h | h | h)
        · exact Or.inr (Or.inl h)
        · exact Or.inl h
        · exact Or.inr (Or.inr h)

theorem perm_insertBy (κ : α → Nat) (x : α) (l : List α) : (insertBy κ x l).Perm (x :: l) := by
  induction l with
  | nil => simp [insertBy]
  | cons z l ih =>
    unfold insertBy
    split
    · exact List.Perm.refl _
    · exact (List.Perm.cons z ih).trans (List.Perm.swap x z l)

theorem perm_sortBy (κ : α → Nat) (l : List α) : (sortBy κ l).Perm l := by
  induction l with
  | nil => simp [sortBy]
  | cons x l ih =>
    show (insertBy κ x (sortBy κ l)).Perm (x :: l)
    exact (perm_insertBy κ x _).trans (List.Perm.cons x ih)

theorem mem_sortBy (κ : α → Nat) (l : List α) (y : α) : y ∈ sortBy κ l ↔ y ∈ l :=
  (perm_sortBy κ l).mem_iff

theorem sorted_insertBy (κ : α → Nat) (x : α) (l : List α)
    (h : l.Pairwise (fun a b => κ a ≤ κ b)) :
    (insertBy κ x l).Pairwise (fun a b => κ a ≤ κ b) := by
  induction l with
  | nil => simp [insertBy]
  | cons z l ih =>
    rw [List.pairwise_cons] at h
    unfold insertBy
    split
    · rename_i hle
      rw [List.pairwise_cons]
      refine ⟨?_, List.pairwise_cons.2 h⟩
      intro a ha
      rcases List.mem_cons.1 ha with rfl | ha
      · exact hle
      · exact Nat.le_trans hle (h.1 a ha)
    · rename_i hle
      rw [List.pairwise_cons]
      refine ⟨?_, ih h.2⟩
      intro a ha
      rcases (mem_insertBy κ x a l).1 ha with rfl | ha
      · omega
      · exact h.1 a ha

theorem sorted_sortBy (κ : α → Nat) (l : List α) :
    (sortBy κ l).Pairwise (fun a b => κ a ≤ κ b) := by
  induction l with
  | nil => simp [sortBy]
  | cons x l ih => exact sorted_insertBy κ x _ ih

/-- Injectivity of the rank on the items that occur. -/
def InjOn (κ : α → Nat) (l : List α) : Prop := ∀ a ∈ l, ∀ b ∈ l, κ a = κ b → a = b

theorem strict_of_le_nodup (κ : α → Nat) (l : List α)
    (hs : l.Pairwise (fun a b => κ a ≤ κ b)) (hn : l.Nodup) (hi : InjOn κ l) :
    l.Pairwise (fun a b => κ a < κ b) := by
  induction l with
  | nil => simp
  | cons x l ih =>
    rw [List.pairwise_cons] at hs ⊢
    rw [List.nodup_cons] at hn
    refine ⟨?_, ih hs.2 hn.2 (fun a ha b hb => hi a (List.mem_cons_of_mem _ ha) b (List.mem_cons_of_mem _ hb))⟩
    intro a ha
    have := hs.1 a ha
    have hne : κ x ≠ κ a := by
      intro e
      have := hi x List.mem_cons_self a (List.mem_cons_of_mem _ ha) e
      subst this
      exact hn.1 ha
    omega

theorem strict_sortBy (κ : α → Nat) (l : List α) (hn : l.Nodup) (hi : InjOn κ l) :
    (sortBy κ l).Pairwise (fun a b => κ a < κ b) := by
  apply strict_of_le_nodup κ _ (sorted_sortBy κ l) ((perm_sortBy κ l).nodup_iff.2 hn)
  intro a ha b hb
  exact hi a ((mem_sortBy κ l a).1 ha) b ((mem_sortBy κ l b).1 hb)

theorem nodup_sortBy (κ : α → Nat) (l : List α) (hn : l.Nodup) : (sortBy κ l).Nodup :=
  (perm_sortBy κ l).nodup_iff.2 hn

/-- Two lists strictly sorted by the same rank with the same members are equal. -/
theorem eq_of_strict_of_mem_iff (κ : α → Nat) :
    ∀ (l₁ l₂ : List α), l₁.Pairwise (fun a b => κ a < κ b) → l₂.Pairwise (fun a b => κ a < κ b) →
      (∀ x, x ∈ l₁ ↔ x ∈ l₂) → l₁ = l₂
  | [], [], _, _, _ => rfl
  | [], b :: l₂, _, _, h => by have := (h b).2 List.mem_cons_self; cases this
  | a :: l₁, [], _, _, h => by have := (h a).1 List.mem_cons_self; cases this
  | a :: l₁, b :: l₂, h₁, h₂, h => by
    rw [List.pairwise_cons] at h₁ h₂
    have hab : a = b := by
      have h1 := (h a).1 List.mem_cons_self
      have h2 := (h b).2 List.mem_cons_self
      rcases List.mem_cons.1 h1 with e | h1
      · exact e
      · rcases List.mem_cons.1 h2 with e | h2
        · exact e.symm
        · have := h₂.1 a h1
          have := h₁.1 b h2
          omega
    subst hab
    congr 1
    apply eq_of_strict_of_mem_iff κ l₁ l₂ h₁.2 h₂.2
    intro x
    constructor
    · intro hx
      rcases List.mem_cons.1 ((h x).1 (List.mem_cons_of_mem _ hx)) with e | hx'
      · subst e; have := h₁.1 x hx; omega
      · exact hx'
    · intro hx
      rcases List.mem_cons.1 ((h x).2 (List.mem_cons_of_mem _ hx)) with e | hx'
      · subst e; have := h₂.1 x hx; omega
      · exact hx'

/-- Sorting lists with the same members (no duplicates, injective rank) gives the same list. -/
theorem sortBy_congr (κ : α → Nat) (l₁ l₂ : List α) (hn₁ : l₁.Nodup) (hn₂ : l₂.Nodup)
    (hi : InjOn κ l₁) (hm : ∀ x, x ∈ l₁ ↔ x ∈ l₂) : sortBy κ l₁ = sortBy κ l₂ := by
  apply eq_of_strict_of_mem_iff κ _ _ (strict_sortBy κ l₁ hn₁ hi)
  · apply strict_sortBy κ l₂ hn₂
    intro a ha b hb
    exact hi a ((hm a).2 ha) b ((hm b).2 hb)
  · intro x; rw [mem_sortBy, mem_sortBy, hm]

end SortBy

/-! ### `asnUnion` -/

/-- Ascending without duplicates (`SmallAsnSet`, `ProviderAsSet`). -/
def Ascending (l : List Nat) : Prop := l.Pairwise (· < ·)

theorem mem_asnUnion (l r : List Nat) (x : Nat) : x ∈ asnUnion l r ↔ x ∈ l ∨ x ∈ r := by
  fun_induction asnUnion l r with
  | case1 r => simp
  | case2 l hne => simp
  | case3 a l b r hlt ih =>
    simp only [List.mem_cons, ih]
    constructor
    · rintro (h | (h | h | h))
      · exact Or.inl (Or.inl h)
      · exact Or.inl (Or.inr h)
      · exact Or.inr (Or.inl h)
      · exact Or.inr (Or.inr h)
    · rintro ((h | h) | h | h)
      · exact Or.inl h
      · exact Or.inr (Or.inl h)
      · exact Or.inr (Or.inr (Or.inl h))
      · exact Or.inr (Or.inr (Or.inr h))
  | case4 a l r hnlt ih =>
    simp only [List.mem_cons, ih]
    constructor
    · rintro (h | h | h)
      · exact Or.inl (Or.inl h)
      · exact Or.inl (Or.inr h)
      · exact Or.inr (Or.inr h)
    · rintro ((h | h) | h | h)
      · exact Or.inl h
      · exact Or.inr (Or.inl h)
      · exact Or.inl h
      · exact Or.inr (Or.inr h)
  | case5 a l b r hnlt hne ih =>
    simp only [List.mem_cons, ih]
    constructor
    · rintro (h | (h | h) | h)
      · exact Or.inr (Or.inl h)
      · exact Or.inl (Or.inl h)
      · exact Or.inl (Or.inr h)
      · exact Or.inr (Or.inr h)
    · rintro ((h | h) | h | h)
      · exact Or.inr (Or.inl (Or.inl h))
      · exact Or.inr (Or.inl (Or.inr h))
      · exact Or.inl h
      · exact Or.inr (Or.inr h)

theorem ascending_asnUnion (l r : List Nat) (hl : Ascending l) (hr : Ascending r) :
    Ascending (asnUnion l r) := by
  unfold Ascending at *
  fun_induction asnUnion l r with
  | case1 r => exact hr
  | case2 l hne => exact hl
  | case3 a l b r hlt ih =>
    rw [List.pairwise_cons] at hl
    rw [List.pairwise_cons]
    refine ⟨?_, ih hl.2 hr⟩
    intro y hy
    rcases (mem_asnUnion _ _ y).1 hy with h | h
    · exact hl.1 y h
    · rcases List.mem_cons.1 h with rfl | h
      · exact hlt
      · have := (List.pairwise_cons.1 hr).1 y h; omega
  | case4 a l r hnlt ih =>
    rw [List.pairwise_cons] at hl hr
    rw [List.pairwise_cons]
    refine ⟨?_, ih hl.2 hr.2⟩
    intro y hy
    rcases (mem_asnUnion _ _ y).1 hy with h | h
    · exact hl.1 y h
    · exact hr.1 y h
  | case5 a l b r hnlt hne ih =>
    rw [List.pairwise_cons] at hr
    rw [List.pairwise_cons]
    refine ⟨?_, ih hl hr.2⟩
    intro y hy
    rcases (mem_asnUnion _ _ y).1 hy with h | h
    · rcases List.mem_cons.1 h with rfl | h
      · omega
      · have := (List.pairwise_cons.1 hl).1 y h; omega
    · exact hr.1 y h

/-- Ascending lists with the same members are equal. -/
theorem ascending_ext (l₁ l₂ : List Nat) (h₁ : Ascending l₁) (h₂ : Ascending l₂)
    (h : ∀ x, x ∈ l₁ ↔ x ∈ l₂) : l₁ = l₂ :=
  eq_of_strict_of_mem_iff id l₁ l₂ h₁ h₂ h

end RoutinatorModel
