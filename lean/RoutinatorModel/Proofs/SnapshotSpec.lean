import RoutinatorModel.Proofs.SnapshotAspa
/-! What `served` contains, in terms of the run's inputs. -/
namespace RoutinatorModel

/-! ### Specification vocabulary -/

/-- All route origins of validated ROAs that pass the length limits. -/
def validatedOrigins (s : Settings) (points : List RawPoint) : List Origin :=
  points.flatMap (rawOrigins s)

/-- All router keys of validated router certificates (empty when BGPsec is disabled). -/
def validatedKeys (s : Settings) (points : List RawPoint) : List RouterKey :=
  if s.enableBgpsec then points.flatMap (fun p => p.routerCerts.flatMap certKeys) else []

/-- All validated ASPA objects (none when ASPA is disabled). -/
def validatedAspas (s : Settings) (points : List RawPoint) : List PubAspa :=
  if s.enableAspa then points.flatMap (·.aspas) else []

/-- The prefix overlaps an address block, other than a whole-family (`/0`) block, of a CA
certificate whose publication point was rejected. -/
def Unsafe (certs : List CertResources) (p : Prefix) : Prop :=
  ∃ c ∈ certs, ∃ b ∈ (if p.v4 then c.v4 else c.v6),
    b.isSlashZero = false ∧ b.intersectsPrefix p = true

/-! ### Small facts -/

theorem mem_iterAsns (blocks : List (Nat × Nat)) (a : Nat) :
    a ∈ iterAsns blocks ↔ ∃ b ∈ blocks, b.1 ≤ a ∧ a ≤ b.2 := by
  unfold iterAsns
  simp only [List.mem_flatMap, List.mem_map, List.mem_range]
  constructor
  · rintro ⟨⟨lo, hi⟩, hb, i, hi', rfl⟩
    exact ⟨(lo, hi), hb, by simp, by simp; omega⟩
  · rintro ⟨⟨lo, hi⟩, hb, h1, h2⟩
    simp only at h1 h2
    exact ⟨(lo, hi), hb, a - lo, by omega, by omega⟩

theorem mem_certKeys (c : PubRouterKey) (k : RouterKey) :
    k ∈ certKeys c ↔ k.keyId = c.keyId ∧ k.info = c.info ∧ ∃ b ∈ c.asns, b.1 ≤ k.asn ∧ k.asn ≤ b.2 := by
  unfold certKeys
  simp only [List.mem_map, mem_iterAsns]
  constructor
  · rintro ⟨a, ha, rfl⟩; exact ⟨rfl, rfl, ha⟩
  · rintro ⟨h1, h2, h3⟩
    refine ⟨k.asn, h3, ?_⟩
    cases k; simp_all

theorem mem_rejectedBlocks (certs : List CertResources) (v4 : Bool) (b : IpBlock) :
    (v4, b) ∈ rejectedBlocks certs ↔
      ∃ c ∈ certs, b ∈ (if v4 then c.v4 else c.v6) ∧ b.isSlashZero = false := by
  unfold rejectedBlocks
  simp only [List.mem_flatMap, List.mem_append, List.mem_map, List.mem_filter, Prod.mk.injEq]
  constructor
  · rintro ⟨c, hc, (⟨b', ⟨hb, hz⟩, rfl, rfl⟩ | ⟨b', ⟨hb, hz⟩, rfl, rfl⟩)⟩
    · exact ⟨c, hc, by simpa using hb, by simpa using hz⟩
    · exact ⟨c, hc, by simpa using hb, by simpa using hz⟩
  · rintro ⟨c, hc, hb, hz⟩
    refine ⟨c, hc, ?_⟩
    cases v4
    · right; exact ⟨b, ⟨by simpa using hb, by simpa using hz⟩, rfl, rfl⟩
    · left; exact ⟨b, ⟨by simpa using hb, by simpa using hz⟩, rfl, rfl⟩

theorem keepPrefix_false_iff (certs : List CertResources) (p : Prefix) :
    keepPrefix (rejectedBlocks certs) p = false ↔ Unsafe certs p := by
  unfold keepPrefix Unsafe
  simp only [Bool.not_eq_false', List.any_eq_true, Bool.and_eq_true, beq_iff_eq, Prod.exists]
  constructor
  · rintro ⟨v4, b, hm, rfl, hi⟩
    obtain ⟨c, hc, hb, hz⟩ := (mem_rejectedBlocks certs _ b).1 hm
    exact ⟨c, hc, b, hb, hz, hi⟩
  · rintro ⟨c, hc, b, hb, hz, hi⟩
    exact ⟨p.v4, b, (mem_rejectedBlocks certs _ b).2 ⟨c, hc, hb, hz⟩, rfl, hi⟩

theorem keepOrigin_iff (certs : List CertResources) (pol : FilterPolicy) (e : Exceptions)
    (o : Origin) :
    keepOrigin (rejectedBlocks certs) pol e o = true ↔
      ¬ (pol = .reject ∧ Unsafe certs o.pfx) ∧ e.dropOrigin o = false := by
  unfold keepOrigin
  rw [← keepPrefix_false_iff]
  cases h1 : keepPrefix (rejectedBlocks certs) o.pfx <;> cases h2 : e.dropOrigin o <;>
    cases pol <;> simp

/-! ### The committed points -/

theorem pubPoints_origins (s : Settings) (points : List RawPoint) (o : Origin) :
    o ∈ ((points.map (processRaw s)).filter (fun p => !p.isEmpty)).flatMap (·.origins)
      ↔ o ∈ validatedOrigins s points := by
  unfold validatedOrigins
  simp only [List.mem_flatMap, List.mem_filter, List.mem_map]
  constructor
  · rintro ⟨p, ⟨⟨r, hr, rfl⟩, _⟩, ho⟩
    rw [processRaw_eq] at ho
    exact ⟨r, hr, ho⟩
  · rintro ⟨r, hr, ho⟩
    refine ⟨processRaw s r, ⟨⟨r, hr, rfl⟩, ?_⟩, by rw [processRaw_eq]; exact ho⟩
    rw [processRaw_eq]
    unfold PubPoint.isEmpty
    cases h : rawOrigins s r with
    | nil => rw [h] at ho; cases ho
    | cons a l => simp

theorem pubPoints_keys (s : Settings) (points : List RawPoint) (k : RouterKey) :
    k ∈ ((points.map (processRaw s)).filter (fun p => !p.isEmpty)).flatMap
        (fun p => p.routerKeys.flatMap certKeys)
      ↔ k ∈ validatedKeys s points := by
  unfold validatedKeys
  simp only [List.mem_flatMap, List.mem_filter, List.mem_map]
  constructor
  · rintro ⟨p, ⟨⟨r, hr, rfl⟩, _⟩, c, hc, hk⟩
    rw [processRaw_eq] at hc
    cases hb : s.enableBgpsec
    · simp [hb] at hc
    · simp only [hb, if_true] at hc ⊢
      exact List.mem_flatMap.2 ⟨r, hr, List.mem_flatMap.2 ⟨c, hc, hk⟩⟩
  · intro hk
    cases hb : s.enableBgpsec
    · simp [hb] at hk
    · simp only [hb, if_true, List.mem_flatMap] at hk
      obtain ⟨r, hr, c, hc, hk⟩ := hk
      refine ⟨processRaw s r, ⟨⟨r, hr, rfl⟩, ?_⟩, c, by rw [processRaw_eq]; simp [hb, hc], hk⟩
      rw [processRaw_eq]
      unfold PubPoint.isEmpty
      simp only [hb, if_true]
      cases h : r.routerCerts with
      | nil => rw [h] at hc; cases hc
      | cons a l => simp

/-- The committed ASPAs are the validated ones, in order (empty points contribute none). -/
theorem pubPoints_aspas (s : Settings) (points : List RawPoint) :
    ((points.map (processRaw s)).filter (fun p => !p.isEmpty)).flatMap (·.aspas)
      = validatedAspas s points := by
  unfold validatedAspas
  induction points with
  | nil => cases s.enableAspa <;> rfl
  | cons r points ih =>
    simp only [List.map_cons, List.filter_cons]
    by_cases he : (processRaw s r).isEmpty = true
    · simp only [he, Bool.not_true, Bool.false_eq_true, if_false, ih]
      have : (processRaw s r).aspas = [] := by
        unfold PubPoint.isEmpty at he
        simp only [Bool.and_eq_true, List.isEmpty_iff] at he
        exact he.2
      rw [processRaw_eq] at this
      simp only at this
      cases ha : s.enableAspa
      · simp
      · simp only [ha, if_true] at this
        simp [this]
    · simp only [he, Bool.not_false, if_true, List.flatMap_cons, ih]
      rw [processRaw_eq]
      cases ha : s.enableAspa <;> simp

/-! ### `served`, lane by lane -/

/-- The origin lane before sorting. -/
def originLane (s : Settings) (points : List RawPoint) (certs : List CertResources)
    (e : Exceptions) : List Origin :=
  e.originAssertions.foldl (insertIf (fun _ => true))
    ((((points.map (processRaw s)).filter (fun p => !p.isEmpty)).flatMap (·.origins)).foldl
      (insertIf (keepOrigin (rejectedBlocks certs) s.unsafeVrps e)) [])

def keyLane (s : Settings) (points : List RawPoint) (e : Exceptions) : List RouterKey :=
  e.routerKeyAssertions.foldl (insertIf (fun _ => true))
    ((((points.map (processRaw s)).filter (fun p => !p.isEmpty)).flatMap
      (fun p => p.routerKeys.flatMap certKeys)).foldl (insertIf (keepKey e)) [])

def aspaLane (s : Settings) (points : List RawPoint) : List (Nat × List Nat) :=
  (validatedAspas s points).foldl aspaStep []

theorem served_eq (s : Settings) (κo : Origin → Nat) (κk : RouterKey → Nat)
    (points : List RawPoint) (certs : List CertResources) (e : Exceptions) :
    served s κo κk points certs e
      = ⟨sortBy κo (originLane s points certs e), sortBy κk (keyLane s points e),
         sortBy (fun x => x.1)
           ((aspaLane s points).filter (fun x => decide (x.2.length ≤ maxProviders)))⟩ := by
  unfold served Report.intoSnapshot
  simp only []
  rw [builder_eq, ofRun_eq]
  unfold Builder.intoSnapshot originLane keyLane aspaLane
  simp only [pubPoints_aspas]

theorem mem_originLane (s : Settings) (points : List RawPoint) (certs : List CertResources)
    (e : Exceptions) (o : Origin) :
    o ∈ originLane s points certs e ↔
      (o ∈ validatedOrigins s points ∧ ¬ (s.unsafeVrps = .reject ∧ Unsafe certs o.pfx)
        ∧ e.dropOrigin o = false) ∨ o ∈ e.originAssertions := by
  unfold originLane
  rw [mem_foldl_insertIf, mem_foldl_insertIf, pubPoints_origins, keepOrigin_iff]
  simp

theorem nodup_originLane (s : Settings) (points : List RawPoint) (certs : List CertResources)
    (e : Exceptions) : (originLane s points certs e).Nodup := by
  unfold originLane
  exact nodup_foldl_insertIf _ _ _ (nodup_foldl_insertIf _ _ _ List.nodup_nil)

theorem mem_keyLane (s : Settings) (points : List RawPoint) (e : Exceptions) (k : RouterKey) :
    k ∈ keyLane s points e ↔
      (k ∈ validatedKeys s points ∧ e.dropRouterKey k = false) ∨ k ∈ e.routerKeyAssertions := by
  unfold keyLane
  rw [mem_foldl_insertIf, mem_foldl_insertIf, pubPoints_keys]
  simp [keepKey]

theorem nodup_keyLane (s : Settings) (points : List RawPoint) (e : Exceptions) :
    (keyLane s points e).Nodup := by
  unfold keyLane
  exact nodup_foldl_insertIf _ _ _ (nodup_foldl_insertIf _ _ _ List.nodup_nil)

end RoutinatorModel
