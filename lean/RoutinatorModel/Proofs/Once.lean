import RoutinatorModel.Model.Once
/-!
# C37 — the inductive invariant of the once-per-run protocol (insert-first order)

`Inv` is preserved by every step of every thread when `updated.insert` precedes
`running.remove` (`Variant.insertFirst = true`: RRDP and the repaired rsync code), for both
settings of `recheckRemoves`.
-/
namespace RoutinatorModel.Once

/-- The mutex a thread at this position holds. -/
def Pc.mx : Pc → Option Mx
  | .locked _ m | .hit _ m | .ret2 _ m | .fetch _ m | .fetching _ m | .fetched _ m
  | .between _ m | .done _ m => some m
  | _ => none

/-- Positions that use mutex `m` for key `k` before `k` is (seen) updated. -/
def Pc.pre : Pc → Option (Key × Mx)
  | .lock k m | .locked k m | .fetch k m | .fetching k m | .fetched k m => some (k, m)
  | _ => none

/-- Positions between the failed re-check and the first map update. -/
def Pc.inFetch : Pc → Option Key
  | .fetch k _ | .fetching k _ | .fetched k _ => some k
  | _ => none

/-- Positions reached only after `k` was seen or made updated under the mutex. -/
def Pc.post : Pc → Option Key
  | .hit k _ | .ret2 k _ | .between k _ | .done k _ => some k
  | _ => none

/-- Positions at which a fetch of `k` has been started by this thread and `k` not yet inserted. -/
def Pc.fetchBusy : Pc → Option Key
  | .fetching k _ | .fetched k _ => some k
  | _ => none

theorem inFetch_pre_mx {p : Pc} {k : Key} (h : p.inFetch = some k) :
    ∃ m, p.pre = some (k, m) ∧ p.mx = some m := by
  cases p <;> simp [Pc.inFetch] at h <;> simp [Pc.pre, Pc.mx, h]

theorem fetchBusy_inFetch {p : Pc} {k : Key} (h : p.fetchBusy = some k) : p.inFetch = some k := by
  cases p <;> simp [Pc.fetchBusy] at h <;> simp [Pc.inFetch, h]

structure Inv (s : St) : Prop where
  hold : ∀ t m, (s.pc t).mx = some m → s.holder m = some t
  same : ∀ t k m, s.updated k = false → (s.pc t).pre = some (k, m) → s.running k = some m
  noFetch : ∀ t k, s.updated k = true → (s.pc t).inFetch ≠ some k
  post : ∀ t k, (s.pc t).post = some k → s.updated k = true
  cnt : ∀ k, s.started k ≤ 1
  cntW : ∀ k, s.started k = 1 → s.updated k = true ∨ ∃ t, (s.pc t).fetchBusy = some k
  comp : ∀ k, s.completed k ≤ s.started k
  compW : ∀ k, s.updated k = true → 1 ≤ s.completed k
  compF : ∀ t k m, s.pc t = .fetched k m → 1 ≤ s.completed k

theorem inv_init : Inv St.init := by
  constructor <;> simp [St.init, Pc.mx, Pc.pre, Pc.inFetch, Pc.post, Pc.fetchBusy]

/-- While `k` is not updated, at most one thread is between re-check and first map update. -/
theorem Inv.uniq {s : St} (h : Inv s) {t t' : Tid} {k : Key} (hu : s.updated k = false)
    (h1 : (s.pc t).inFetch = some k) (h2 : (s.pc t').inFetch = some k) : t' = t := by
  obtain ⟨m, hp, hm⟩ := inFetch_pre_mx h1
  obtain ⟨m', hp', hm'⟩ := inFetch_pre_mx h2
  have e1 := h.same t k m hu hp
  have e2 := h.same t' k m' hu hp'
  have : m' = m := by rw [e1] at e2; injection e2 with e2; exact e2.symm
  subst this
  have a := h.hold t _ hm
  have b := h.hold t' _ hm'
  rw [a] at b; injection b with b; exact b.symm

end RoutinatorModel.Once
