import RoutinatorModel.Model.Once
/-!
# C37 — the inductive invariant of the once-per-run protocol (insert-first order)

`Inv` is preserved by every step of every thread when `updated.insert` precedes
`running.remove` (`Variant.insertFirst = true`: RRDP and the repaired rsync code), for both
settings of `recheckRemoves`.
-/
namespace RoutinatorModel.Once

/-- The mutex a thread at this position holds. -/
def Pc.mx : Pc → Option Mx
  | .locked _ m | .hit _ m | .ret2 _ m | .fetch _ m | .fetching _ m | .fetched _ m
  | .between _ m | .done _ m => some m
  | _ => none

/-- Positions that use mutex `m` for key `k` before `k` is (seen) updated. -/
def Pc.pre : Pc → Option (Key × Mx)
  | .lock k m | .locked k m | .fetch k m | .fetching k m | .fetched k m => some (k, m)
  | _ => none

/-- Positions between the failed re-check and the first map update. -/
def Pc.inFetch : Pc → Option Key
  | .fetch k _ | .fetching k _ | .fetched k _ => some k
  | _ => none

/-- Positions reached only after `k` was seen or made updated under the mutex. -/
def Pc.post : Pc → Option Key
  | .hit k _ | .ret2 k _ | .between k _ | .done k _ => some k
  | _ => none

/-- Positions at which a fetch of `k` has been started by this thread and `k` not yet inserted. -/
def Pc.fetchBusy : Pc → Option Key
  | .fetching k _ | .fetched k _ => some k
  | _ => none

theorem inFetch_pre_mx {p : Pc} {k : Key} (h : p.inFetch = some k) :
    ∃ m, p.pre = some (k, m) ∧ p.mx = some m := by
  cases p <;> simp [Pc.inFetch] at h <;> simp [Pc.pre, Pc.mx, h]

theorem fetchBusy_inFetch {p : Pc} {k : Key} (h : p.fetchBusy = some k) : p.inFetch = some k := by
  cases p <;> simp [Pc.fetchBusy] at h <;> simp [Pc.inFetch, h]

structure Inv (s : St) : Prop where
  hold : ∀ t m, (s.pc t).mx = some m → s.holder m = some t
  same : ∀ t k m, s.updated k = false → (s.pc t).pre = some (k, m) → s.running k = some m
  noFetch : ∀ t k, s.updated k = true → (s.pc t).inFetch ≠ some k
  post : ∀ t k, (s.pc t).post = some k → s.updated k = true
  cnt : ∀ k, s.started k ≤ 1
  cntW : ∀ k, s.started k = 1 → s.updated k = true ∨ ∃ t, (s.pc t).fetchBusy = some k
  comp : ∀ k, s.completed k ≤ s.started k
  compW : ∀ k, s.updated k = true → 1 ≤ s.completed k
  compF : ∀ t k m, s.pc t = .fetched k m → 1 ≤ s.completed k
  busyC : ∀ t k m, s.pc t = .fetching k m → s.completed k < s.started k

theorem inv_init : Inv St.init := by
  constructor <;> simp [St.init, Pc.mx, Pc.pre, Pc.inFetch, Pc.post, Pc.fetchBusy]

/-- While `k` is not updated, at most one thread is between re-check and first map update. -/
theorem Inv.uniq {s : St} (h : Inv s) {t t' : Tid} {k : Key} (hu : s.updated k = false)
    (h1 : (s.pc t).inFetch = some k) (h2 : (s.pc t').inFetch = some k) : t' = t := by
  obtain ⟨m, hp, hm⟩ := inFetch_pre_mx h1
  obtain ⟨m', hp', hm'⟩ := inFetch_pre_mx h2
  have e1 := h.same t k m hu hp
  have e2 := h.same t' k m' hu hp'
  have : m' = m := by rw [e1] at e2; injection e2 with e2; exact e2.symm
  subst this
  have a := h.hold t _ hm
  have b := h.hold t' _ hm'
  rw [a] at b; injection b with b; exact b.symm

/-- Facts about a thread between re-check and first map update. -/
theorem Inv.inFetch_facts {s : St} (h : Inv s) {t : Tid} {k : Key}
    (hin : (s.pc t).inFetch = some k) :
    s.updated k = false ∧ (∀ w, (s.pc w).inFetch = some k → w = t) := by
  have hu : s.updated k = false := by
    cases hh : s.updated k with
    | false => rfl
    | true => exact absurd hin (h.noFetch t k hh)
  exact ⟨hu, fun w hw => h.uniq hu hin hw⟩

macro "clause" : tactic =>
  `(tactic| (intros; simp only [upd] at *; grind [Pc.mx, Pc.pre, Pc.inFetch, Pc.post, Pc.fetchBusy]))

macro "easy_case" h:ident : tactic =>
  `(tactic| (obtain ⟨h1, h2, h3, h4, h5, h6, h7, h8, h9, h10⟩ := $h; constructor <;> clause))

/-! One lemma per program position (kept separate so that each proof stays small). -/

theorem inv_call {s : St} (h : Inv s) (t : Tid) (k : Key) (hpc : s.pc t = .idle) :
    Inv { s with pc := upd s.pc t (.check k) } := by easy_case h

theorem inv_check_hit {s : St} (h : Inv s) (t : Tid) (k : Key) (hpc : s.pc t = .check k) :
    Inv { s with pc := upd s.pc t .idle } := by easy_case h

theorem inv_check_miss {s : St} (h : Inv s) (t : Tid) (k : Key) (hpc : s.pc t = .check k) :
    Inv { s with pc := upd s.pc t (.getm k) } := by easy_case h

theorem inv_getm_some {s : St} (h : Inv s) (t : Tid) (k : Key) (m : Mx) (hpc : s.pc t = .getm k)
    (hr : s.running k = some m) : Inv { s with pc := upd s.pc t (.lock k m) } := by easy_case h

theorem inv_getm_none {s : St} (h : Inv s) (t : Tid) (k : Key) (hpc : s.pc t = .getm k)
    (hr : s.running k = none) :
    Inv { s with running := upd s.running k (some s.next), next := s.next + 1,
                 pc := upd s.pc t (.lock k s.next) } := by easy_case h

theorem inv_lock {s : St} (h : Inv s) (t : Tid) (k : Key) (m : Mx) (hpc : s.pc t = .lock k m)
    (hh : s.holder m = none) :
    Inv { s with holder := upd s.holder m (some t), pc := upd s.pc t (.locked k m) } := by
  easy_case h

theorem inv_locked_hit {s : St} (h : Inv s) (t : Tid) (k : Key) (m : Mx)
    (hpc : s.pc t = .locked k m) (hu : s.updated k = true) :
    Inv { s with pc := upd s.pc t (.hit k m) } := by easy_case h

theorem inv_locked_ret {s : St} (h : Inv s) (t : Tid) (k : Key) (m : Mx)
    (hpc : s.pc t = .locked k m) (hu : s.updated k = true) :
    Inv { s with pc := upd s.pc t (.ret2 k m) } := by easy_case h

theorem inv_locked_miss {s : St} (h : Inv s) (t : Tid) (k : Key) (m : Mx)
    (hpc : s.pc t = .locked k m) (hu : s.updated k = false) :
    Inv { s with pc := upd s.pc t (.fetch k m) } := by easy_case h

theorem inv_hit {s : St} (h : Inv s) (t : Tid) (k : Key) (m : Mx) (hpc : s.pc t = .hit k m) :
    Inv { s with running := upd s.running k none, pc := upd s.pc t (.ret2 k m) } := by easy_case h

theorem inv_ret2 {s : St} (h : Inv s) (t : Tid) (k : Key) (m : Mx) (hpc : s.pc t = .ret2 k m) :
    Inv { s with holder := upd s.holder m none, pc := upd s.pc t .idle } := by easy_case h

theorem inv_fetch {s : St} (h : Inv s) (t : Tid) (k : Key) (m : Mx) (hpc : s.pc t = .fetch k m) :
    Inv { s with started := upd s.started k (s.started k + 1),
                 pc := upd s.pc t (.fetching k m) } := by
  have hin : (s.pc t).inFetch = some k := by rw [hpc]; rfl
  obtain ⟨hu, hoth⟩ := h.inFetch_facts hin
  obtain ⟨h1, h2, h3, h4, h5, h6, h7, h8, h9, h10⟩ := h
  have hst : s.started k = 0 := by
    have := h5 k
    have h61 := h6 k
    cases hc : s.started k with
    | zero => rfl
    | succ n =>
      have : n = 0 := by omega
      subst this
      rcases h61 hc with hx | ⟨w, hw⟩
      · rw [hu] at hx; cases hx
      · have := hoth w (fetchBusy_inFetch hw)
        subst this; rw [hpc] at hw; simp [Pc.fetchBusy] at hw
  constructor
  · clause
  · clause
  · clause
  · clause
  · clause
  · intro k' hk'; simp only [upd] at *
    by_cases e : k' = k
    · subst e; right; exact ⟨t, by simp [Pc.fetchBusy]⟩
    · simp only [e, if_false] at hk'
      rcases h6 k' hk' with hx | ⟨w, hw⟩
      · left; exact hx
      · right; refine ⟨w, ?_⟩
        by_cases ew : w = t
        · subst ew; rw [hpc] at hw; simp [Pc.fetchBusy] at hw
        · simp [ew, hw]
  · clause
  · clause
  · clause
  · clause

theorem inv_fetching {s : St} (h : Inv s) (t : Tid) (k : Key) (m : Mx)
    (hpc : s.pc t = .fetching k m) :
    Inv { s with completed := upd s.completed k (s.completed k + 1),
                 pc := upd s.pc t (.fetched k m) } := by
  have hin : (s.pc t).inFetch = some k := by rw [hpc]; rfl
  obtain ⟨hu, hoth⟩ := h.inFetch_facts hin
  obtain ⟨h1, h2, h3, h4, h5, h6, h7, h8, h9, h10⟩ := h
  have hb := h10 t k m hpc
  constructor
  · clause
  · clause
  · clause
  · clause
  · clause
  · intro k' hk'; simp only [upd] at *
    rcases h6 k' hk' with hx | ⟨w, hw⟩
    · left; exact hx
    · right
      by_cases ew : w = t
      · subst ew; rw [hpc] at hw; simp [Pc.fetchBusy] at hw; subst hw
        exact ⟨w, by simp [Pc.fetchBusy]⟩
      · exact ⟨w, by simp [ew, hw]⟩
  · clause
  · clause
  · clause
  · intro w k' m' hw; simp only [upd] at *
    by_cases ew : w = t
    · simp [ew] at hw
    · simp only [ew, if_false] at hw
      have := h10 w k' m' hw
      by_cases e : k' = k
      · subst e; exact absurd (hoth w (by rw [hw]; rfl)) ew
      · simp [e]; exact this

theorem inv_fetched {s : St} (h : Inv s) (t : Tid) (k : Key) (m : Mx)
    (hpc : s.pc t = .fetched k m) :
    Inv { s with updated := upd s.updated k true, pc := upd s.pc t (.between k m) } := by
  have hin : (s.pc t).inFetch = some k := by rw [hpc]; rfl
  obtain ⟨hu, hoth⟩ := h.inFetch_facts hin
  obtain ⟨h1, h2, h3, h4, h5, h6, h7, h8, h9, h10⟩ := h
  have hc := h9 t k m hpc
  constructor
  · clause
  · clause
  · intro w k' hk'; simp only [upd] at *
    by_cases ew : w = t
    · simp [ew, Pc.inFetch]
    · simp only [ew, if_false]
      by_cases e : k' = k
      · subst e; intro hw; exact ew (hoth w hw)
      · simp only [e, if_false] at hk'; exact h3 w k' hk'
  · clause
  · clause
  · intro k' hk'; simp only [upd] at *
    by_cases e : k' = k
    · left; simp [e]
    · rcases h6 k' hk' with hx | ⟨w, hw⟩
      · left; simp [e, hx]
      · right
        by_cases ew : w = t
        · subst ew; rw [hpc] at hw; simp [Pc.fetchBusy] at hw; exact absurd hw.symm e
        · exact ⟨w, by simp [ew, hw]⟩
  · clause
  · clause
  · clause
  · clause

theorem inv_between {s : St} (h : Inv s) (t : Tid) (k : Key) (m : Mx)
    (hpc : s.pc t = .between k m) :
    Inv { s with running := upd s.running k none, pc := upd s.pc t (.done k m) } := by
  easy_case h

theorem inv_done {s : St} (h : Inv s) (t : Tid) (k : Key) (m : Mx) (hpc : s.pc t = .done k m) :
    Inv { s with holder := upd s.holder m none, pc := upd s.pc t .idle } := by easy_case h

/-- `Inv` is inductive for every variant that inserts into `updated` first. -/
theorem inv_step (v : Variant) (hv : v.insertFirst = true) (s : St) (l : Label) (s' : St)
    (h : Inv s) (hs : step v s l = some s') : Inv s' := by
  obtain ⟨t, a⟩ := l
  cases a with
  | call k =>
    simp only [step] at hs
    split at hs
    · rename_i hpc; injection hs with hs; subst hs; exact inv_call h t k hpc
    · simp at hs
  | step =>
    simp only [step, hv] at hs
    split at hs
    · simp at hs
    · rename_i k hpc
      split at hs <;> (injection hs with hs; subst hs)
      · exact inv_check_hit h t k hpc
      · exact inv_check_miss h t k hpc
    · rename_i k hpc
      split at hs <;> (injection hs with hs; subst hs)
      · rename_i m hr; exact inv_getm_some h t k m hpc hr
      · rename_i hr; exact inv_getm_none h t k hpc hr
    · rename_i k m hpc
      split at hs
      · rename_i hh; injection hs with hs; subst hs; exact inv_lock h t k m hpc hh
      · simp at hs
    · rename_i k m hpc
      split at hs
      · rename_i hu
        split at hs <;> (injection hs with hs; subst hs)
        · exact inv_locked_hit h t k m hpc hu
        · exact inv_locked_ret h t k m hpc hu
      · rename_i hu; injection hs with hs; subst hs
        exact inv_locked_miss h t k m hpc (by simpa using hu)
    · rename_i k m hpc; injection hs with hs; subst hs; exact inv_hit h t k m hpc
    · rename_i k m hpc; injection hs with hs; subst hs; exact inv_ret2 h t k m hpc
    · rename_i k m hpc; injection hs with hs; subst hs; exact inv_fetch h t k m hpc
    · rename_i k m hpc; injection hs with hs; subst hs; exact inv_fetching h t k m hpc
    · rename_i k m hpc
      simp only [if_true] at hs
      injection hs with hs; subst hs; exact inv_fetched h t k m hpc
    · rename_i k m hpc
      simp only [if_true] at hs
      injection hs with hs; subst hs; exact inv_between h t k m hpc
    · rename_i k m hpc; injection hs with hs; subst hs; exact inv_done h t k m hpc

/-- The invariant holds in every reachable state (all interleavings, any number of threads). -/
theorem inv_reach (v : Variant) (hv : v.insertFirst = true) :
    ∀ s, Reach (sys v) s → Inv s :=
  inv_of_inductive (S := sys v) Inv inv_init (fun s l s' h hs => inv_step v hv s l s' h hs)

end RoutinatorModel.Once
