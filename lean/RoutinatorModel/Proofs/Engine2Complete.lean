import RoutinatorModel.Proofs.Engine2Checks
/-!
# Completeness of the walk (C02)

Nothing is lost between an accepted object and the payload of the run: every object of the
version a publication point uses contributes all it `Yields` (whatever its siblings do),
every certified child CA is visited, every TAL with an available valid TA certificate is
processed, and every item of every visit is in the payload.
-/
namespace RoutinatorModel.Engine

/-! ## Objects -/

theorem Yields.mem_objItems {cfg : Cfg} {now : Int} {vm : ValidMft} {ext : Ext}
    {content : Content} {i : Item} (ca : CaCtx) (h : Yields cfg now vm ext content i) :
    i ∈ objItems cfg now ca vm ext content := by
  unfold objItems processObject
  cases h with
  | roa c items hext hc hvalid hcrl hi => subst hext; subst hc; simp [hvalid, hcrl, hi]
  | asa c items hext hc hvalid hcrl hon hi => subst hext; subst hc; simp [hvalid, hcrl, hon, hi]
  | router c items hext hc hvalid hcrl hon hi => subst hext; subst hc; simp [hvalid, hcrl, hon, hi]

theorem Issues.mem_objKids {cfg : Cfg} {now : Int} {ca : CaCtx} {vm : ValidMft} {ext : Ext}
    {content : Content} {c : CertAttr} {info : CaInfo}
    (h : Issues cfg now ca vm ext content c info) :
    ca.child info ∈ objKids cfg now ca vm ext content := by
  unfold objKids processObject
  obtain ⟨hext, hc, h1, h2, h3, h4⟩ := h
  subst hext; subst hc
  have h4' : ¬ (ca.chainLen + 1 > cfg.maxDepth) := by omega
  have h1' : info.key ∉ ca.chain := by simpa using h1
  simp [h1', h2, h3, h4']

/-- The payload gathered from a list of objects is the concatenation of what each object
yields on its own: no object influences what another contributes. -/
theorem runStoredObjectsX_items_eq (cfg : Cfg) (now : Int) (ca : CaCtx) (vm : ValidMft)
    (pd : List Int) (l : List StoredObj) (a : Acc) :
    (runStoredObjectsX cfg now ca vm pd l a).items
      = a.items ++ l.flatMap (fun o => objItems cfg now ca vm o.ext o.file.content)
    ∧ (runStoredObjectsX cfg now ca vm pd l a).kids.map (·.ctx)
      = a.kids.map (·.ctx) ++ l.flatMap (fun o => objKids cfg now ca vm o.ext o.file.content) := by
  have h := runStoredObjectsX_erase cfg now ca vm pd l a
  rw [runStoredObjects_eq] at h
  simp only [Prod.mk.injEq] at h
  exact ⟨h.1.symm, h.2.symm⟩

/-! ## Publication points -/

/-- The payload of a publication point is exactly what the objects of the version it uses
yield, object by object. -/
theorem PointFrom.items_eq {cfg : Cfg} {now : Int} {coll : Option Offer} {ca : CaX} {r : PointX}
    (h : PointFrom cfg now coll ca r) :
    (r.accepted = false ∧ r.items = [] ∧ r.kids = [])
    ∨ ∃ vm crl objs, ValidVersion cfg now coll ca.ctx vm crl objs ∧ r.accepted = true
        ∧ r.items = objs.flatMap (fun o => objItems cfg now ca.ctx vm o.ext o.file.content)
        ∧ r.kids.map (·.ctx)
            = objs.flatMap (fun o => objKids cfg now ca.ctx vm o.ext o.file.content) := by
  cases h with
  | none stored hstored => exact Or.inl ⟨rfl, rfl, rfl⟩
  | used vm crl objs stored used hver hstored =>
    refine Or.inr ⟨vm, crl, objs, hver, rfl, ?_, ?_⟩
    · have h1 := (runStoredObjectsX_items_eq cfg now ca.ctx vm (ca.dates ++ pointDates vm crl) objs
        ⟨[], [], pointValidity ca.refresh vm crl, []⟩).1
      simp only [List.nil_append] at h1
      exact h1
    · have h2 := (runStoredObjectsX_items_eq cfg now ca.ctx vm (ca.dates ++ pointDates vm crl) objs
        ⟨[], [], pointValidity ca.refresh vm crl, []⟩).2
      simp only [List.map_nil, List.nil_append] at h2
      exact h2

/-- Children of a publication point sit one level deeper, within the depth limit. -/
theorem PointFrom.kids_depth {cfg : Cfg} {now : Int} {coll : Option Offer} {ca : CaX} {r : PointX}
    (h : PointFrom cfg now coll ca r) :
    ∀ k ∈ r.kids, k.ctx.chainLen = ca.ctx.chainLen + 1 ∧ k.ctx.chainLen ≤ cfg.maxDepth := by
  cases h with
  | none stored hstored => simp
  | used vm crl objs stored used hver hstored =>
    intro k hk
    rcases runStoredObjectsX_kids _ _ _ _ _ _ _ _ hk with hk | ⟨o, ho, c, info, r, hiss, rfl⟩
    · simp at hk
    · exact ⟨rfl, by simpa [CaCtx.child] using hiss.depth⟩

/-- **The version a publication point uses.** If the collector offers a manifest that
differs from the stored one, validates, is newer than the stored one and all of whose files
were retrieved with the listed hash, then that version is used (whatever the order). -/
theorem processCollectedX_uses_fetched (cfg : Cfg) (now : Int) (ca : CaX) (f : Fetched)
    (st : Option Stored) (reorder : List Entry → List Entry) (hperm : ∀ l, (reorder l).Perm l)
    {mf : MftFile} {vm : ValidMft} {crl : Content}
    (hmf : f.mft = some mf) (hsame : sameManifest st mf ca.ctx = false)
    (hv : validateCollected cfg now f mf = some (vm, crl))
    (hnew : (collectedIsNewer vm.mft st).1 = true)
    (hload : ∀ e ∈ vm.mft.entries, e.loads f.files = true) :
    ∃ r, processCollectedX cfg now ca f st reorder = .done r ∧ r.used = .fetched vm crl
      ∧ r.accepted = true := by
  have hload' : ∀ e ∈ reorder vm.mft.entries, e.loads f.files = true :=
    fun e he => hload e ((hperm _).mem_iff.mp he)
  unfold processCollectedX
  simp only [hmf, hsame, Bool.false_eq_true, ↓reduceIte, hv]
  cases hn : collectedIsNewer vm.mft st with
  | mk b st' =>
    rw [hn] at hnew
    simp only [] at hnew
    subst hnew
    simp only []
    rw [runEntriesX_complete _ _ _ _ _ _ _ _ _ hload']
    exact ⟨_, rfl, rfl, rfl⟩

/-! ## The walk -/

/-- Every child task of every visit in `l` is itself visited in `l`. -/
def KidsVisited (l : List Visit) : Prop :=
  ∀ v ∈ l, ∀ k ∈ v.point.kids, ∃ v' ∈ l, v'.ca = k

/-- Every visit records what `processPointX` returned for the store entry found. -/
def VisitsAreResults (cfg : Cfg) (now : Int) (coll : Option Offer) (l : List Visit) : Prop :=
  ∀ v ∈ l, v.point = processPointX cfg now coll v.before v.ca

theorem processCaX_complete (cfg : Cfg) (now : Int) (coll : Option Offer) :
    ∀ fuel store ca, StoreWf store → cfg.maxDepth + 1 ≤ fuel + ca.ctx.chainLen →
      ca.ctx.chainLen ≤ cfg.maxDepth →
      StoreWf (processCaX cfg now coll fuel store ca).2
      ∧ (∃ v ∈ (processCaX cfg now coll fuel store ca).1, v.ca = ca)
      ∧ KidsVisited (processCaX cfg now coll fuel store ca).1
      ∧ VisitsAreResults cfg now coll (processCaX cfg now coll fuel store ca).1 := by
  intro fuel
  induction fuel with
  | zero => intro store ca _ hf hd; exfalso; omega
  | succ fuel ih =>
    intro store ca hwf hf hd
    rw [processCaX_succ]
    have pf := processPointX_from cfg now coll (store.point ca.ctx.info.mft) ca
      (fun s hs => hwf.point hs)
    have hdepth := pf.kids_depth
    have hstoredwf : ∀ s, (processPointX cfg now coll (store.point ca.ctx.info.mft) ca).stored
        = some s → StoredWf s := by
      generalize processPointX cfg now coll (store.point ca.ctx.info.mft) ca = r at pf
      cases pf with
      | none stored hstored => exact hstored
      | used vm crl objs stored used hver hstored => exact hstored
    -- the fold over the children
    have hfold : ∀ (ks : List CaX) (acc : List Visit × Store),
        (∀ k ∈ ks, k.ctx.chainLen = ca.ctx.chainLen + 1 ∧ k.ctx.chainLen ≤ cfg.maxDepth) →
        StoreWf acc.2 →
        StoreWf (ks.foldl (caStepX cfg now coll fuel) acc).2
        ∧ (∀ v ∈ acc.1, v ∈ (ks.foldl (caStepX cfg now coll fuel) acc).1)
        ∧ (∀ k ∈ ks, ∃ v ∈ (ks.foldl (caStepX cfg now coll fuel) acc).1, v.ca = k)
        ∧ (∀ v ∈ (ks.foldl (caStepX cfg now coll fuel) acc).1, v ∈ acc.1
            ∨ ((∀ k ∈ v.point.kids,
                  ∃ v' ∈ (ks.foldl (caStepX cfg now coll fuel) acc).1, v'.ca = k)
                ∧ v.point = processPointX cfg now coll v.before v.ca)) := by
      intro ks
      induction ks with
      | nil =>
        intro acc _ hs
        exact ⟨hs, fun v hv => hv, by simp, fun v hv => Or.inl hv⟩
      | cons k rest ihk =>
        intro acc hk hs
        simp only [List.foldl_cons]
        obtain ⟨hkd1, hkd2⟩ := hk k (by simp)
        obtain ⟨h1, ⟨vk, hvk, hvk'⟩, h3, h4⟩ := ih acc.2 k hs (by omega) hkd2
        obtain ⟨g1, g2, g3, g4⟩ := ihk (caStepX cfg now coll fuel acc k)
          (fun k' hk' => hk k' (by simp [hk'])) h1
        refine ⟨g1, ?_, ?_, ?_⟩
        · intro v hv
          exact g2 v (by simp [caStepX, hv])
        · intro k' hk'
          rcases List.mem_cons.mp hk' with rfl | hk'
          · exact ⟨vk, g2 vk (by simp [caStepX, hvk]), hvk'⟩
          · exact g3 k' hk'
        · intro v hv
          rcases g4 v hv with hv' | hv'
          · simp only [caStepX, List.mem_append] at hv'
            rcases hv' with hv' | hv'
            · exact Or.inl hv'
            · refine Or.inr ⟨?_, h4 v hv'⟩
              intro k' hk'
              obtain ⟨v', hv'', he⟩ := h3 v hv' k' hk'
              exact ⟨v', g2 v' (by simp [caStepX, hv'']), he⟩
          · exact Or.inr hv'
    obtain ⟨f1, f2, f3, f4⟩ := hfold
      (processPointX cfg now coll (store.point ca.ctx.info.mft) ca).kids
      ([⟨ca, store.point ca.ctx.info.mft,
          processPointX cfg now coll (store.point ca.ctx.info.mft) ca⟩],
        store.setPoint ca.ctx.info.mft
          (processPointX cfg now coll (store.point ca.ctx.info.mft) ca).stored)
      hdepth (hwf.setPoint _ _ hstoredwf)
    refine ⟨f1, ⟨⟨ca, store.point ca.ctx.info.mft,
      processPointX cfg now coll (store.point ca.ctx.info.mft) ca⟩, f2 _ (by simp), rfl⟩, ?_, ?_⟩
    · intro v hv
      rcases f4 v hv with hv' | hv'
      · have hv'' : v = ⟨ca, store.point ca.ctx.info.mft,
            processPointX cfg now coll (store.point ca.ctx.info.mft) ca⟩ := by simpa using hv'
        subst hv''
        exact f3
      · exact hv'.1
    · intro v hv
      rcases f4 v hv with hv' | hv'
      · have hv'' : v = ⟨ca, store.point ca.ctx.info.mft,
            processPointX cfg now coll (store.point ca.ctx.info.mft) ca⟩ := by simpa using hv'
        subst hv''
        rfl
      · exact hv'.2

/-- A TAL for which some URI's download decodes to a certificate with the TAL's key that is
valid now gets a trust anchor selected. -/
theorem selectTa_complete (now : Int) (view : Option View) (tal : Tal) (uris : List Uri)
    (store : Store)
    (h : ∃ uri ∈ uris, ∃ file c, download view uri = some file ∧ file.cert = some c
      ∧ c.key = tal.key ∧ c.valid now = true) :
    ∃ c, (selectTa now view tal uris store).1 = some c := by
  induction uris generalizing store with
  | nil => simp at h
  | cons uri rest ih =>
    unfold selectTa
    cases hl : loadTa view store uri with
    | mk oc store' =>
      have hrest : (∃ file c, download view uri = some file ∧ file.cert = some c
          ∧ c.key = tal.key ∧ c.valid now = true) ∨
          ∃ uri' ∈ rest, ∃ file c, download view uri' = some file ∧ file.cert = some c
            ∧ c.key = tal.key ∧ c.valid now = true := by
        obtain ⟨u, hu, hx⟩ := h
        rcases List.mem_cons.mp hu with rfl | hu
        · exact Or.inl hx
        · exact Or.inr ⟨u, hu, hx⟩
      rcases hrest with ⟨file, c, hd, hc, hk, hv⟩ | hrest
      · rw [loadTa_eq, hd] at hl
        simp only [hc, Prod.mk.injEq] at hl
        obtain ⟨rfl, rfl⟩ := hl
        simp [hk, hv]
      · cases oc with
        | none => exact ih store' hrest
        | some c =>
          simp only []
          split
          · exact ih store' hrest
          · split
            · exact ih store' hrest
            · exact ⟨c, rfl⟩

end RoutinatorModel.Engine
