import RoutinatorModel.Proofs.Paths
/-! C30: resolved form of every path function, kind classification, injectivity. -/
namespace RoutinatorModel.Paths

/-- Long names: hex digests (with or without extension). All literal directory names are short. -/
def Long (s : Str) : Prop := 10 ≤ s.length

theorem Long.ne {s t : Str} (hs : Long s) (ht : t.length < 10) : s ≠ t := by
  intro e; subst e; unfold Long at hs; omega

theorem okSeg_of_long {s : Str} (hl : Long s) (hs : 47 ∉ s) : okSeg s := by
  unfold Long at hl
  refine ⟨?_, hs, ?_, ?_⟩ <;> (intro e; subst e; simp at hl)

section
variable {sha : Str → List Nat}

theorem long_hex_ext (hlen : ∀ x, (sha x).length = 32) (x ext : Str) :
    Long (hex (sha x) ++ ext) := by
  simp [Long, hex_length, hlen]; omega

theorem long_hex (hlen : ∀ x, (sha x).length = 32) (x : Str) : Long (hex (sha x)) := by
  simp [Long, hex_length, hlen]

theorem okSeg_hex_ext (hlen : ∀ x, (sha x).length = 32) (x : Str) {ext : Str} (he : 47 ∉ ext) :
    okSeg (hex (sha x) ++ ext) :=
  okSeg_of_long (long_hex_ext hlen x ext) (by simp [slash_not_mem_hex, he])

end

/-! ## step on a stack with a known top -/

/-- What `step` leaves of the top element `l` plus the new component. -/
def tailOf (l a : Str) : List Str :=
  if a = [] ∨ a = [46] then [l] else if a = [46, 46] then [] else [l, a]

theorem step_snoc (q : List Str) (l a : Str) : step (q ++ [l]) a = q ++ tailOf l a := by
  unfold step tailOf
  split
  · rfl
  · split <;> simp

theorem step_singleton (l a : Str) : step [l] a = tailOf l a := by
  simpa using step_snoc [] l a

theorem step_pair (k l a : Str) : step [k, l] a = k :: tailOf l a := by
  simpa using step_snoc [k] l a

theorem step_triple (j k l a : Str) : step [j, k, l] a = j :: k :: tailOf l a := by
  simpa using step_snoc [j, k] l a

theorem step_append_singleton (b : List Str) (l a : Str) : step (b ++ [l]) a = b ++ step [l] a := by
  rw [step_snoc, step_singleton]

theorem step_append_pair (b : List Str) (k l a : Str) :
    step (b ++ [k, l]) a = b ++ step [k, l] a := by
  have : b ++ [k, l] = (b ++ [k]) ++ [l] := by simp
  rw [this, step_snoc, step_pair]; simp

theorem step_append_triple (b : List Str) (j k l a : Str) :
    step (b ++ [j, k, l]) a = b ++ step [j, k, l] a := by
  have : b ++ [j, k, l] = (b ++ [j, k]) ++ [l] := by simp
  rw [this, step_snoc, step_triple]; simp

theorem tailOf_okSeg {l a : Str} (h : okSeg a) : tailOf l a = [l, a] := by
  obtain ⟨h1, _, h3, h4⟩ := h
  simp [tailOf, h1, h3, h4]

theorem tailOf_skip {l a : Str} (h : a = [] ∨ a = [46]) : tailOf l a = [l] := by
  simp [tailOf, h]
theorem tailOf_up {l a : Str} (h : a = [46, 46]) : tailOf l a = [] := by
  subst h; simp [tailOf]
theorem tailOf_norm {l a : Str} (h1 : ¬ (a = [] ∨ a = [46])) (h2 : a ≠ [46, 46]) :
    tailOf l a = [l, a] := by
  simp [tailOf, h1, h2]

theorem tailOf_cases (l a : Str) :
    tailOf l a = [l] ∨ tailOf l a = [] ∨ tailOf l a = [l, a] := by
  by_cases h1 : a = [] ∨ a = [46]
  · exact Or.inl (tailOf_skip h1)
  · by_cases h2 : a = [46, 46]
    · exact Or.inr (Or.inl (tailOf_up h2))
    · exact Or.inr (Or.inr (tailOf_norm h1 h2))

/-- The hashed component after a `step` determines itself and what follows. -/
theorem tailOf_hash_inj {l a1 a2 H1 H2 : Str} {r1 r2 : List Str}
    (hl : ¬ Long l) (h1 : Long H1) (h2 : Long H2)
    (hr1 : ∀ x, r1.head? = some x → ¬ Long x) (hr2 : ∀ x, r2.head? = some x → ¬ Long x)
    (h : tailOf l a1 ++ H1 :: r1 = tailOf l a2 ++ H2 :: r2) : H1 = H2 ∧ r1 = r2 := by
  rcases tailOf_cases l a1 with c1 | c1 | c1 <;> rcases tailOf_cases l a2 with c2 | c2 | c2 <;>
    rw [c1, c2] at h <;>
    simp only [List.cons_append, List.nil_append, List.cons.injEq, true_and] at h
  · exact h
  · exact absurd (h.1 ▸ h2) hl
  · obtain ⟨e1, e2⟩ := h
    exact absurd h2 (hr1 H2 (by rw [e2]; rfl))
  · exact absurd (h.1 ▸ h1) hl
  · exact h
  · exact absurd (h.1 ▸ h1) hl
  · obtain ⟨e1, e2⟩ := h
    exact absurd h1 (hr2 H1 (by rw [← e2]; rfl))
  · exact absurd (h.1 ▸ h2) hl
  · exact ⟨h.2.1, h.2.2⟩

/-! ## Resolved form of the path functions -/

theorem okSeg_sStored : okSeg sStored := by decide
theorem okSeg_sStore : okSeg sStore := by decide
theorem okSeg_sTa : okSeg sTa := by decide
theorem okSeg_sRsync : okSeg sRsync := by decide
theorem okSeg_sHttps : okSeg sHttps := by decide
theorem okSeg_sRrdp : okSeg sRrdp := by decide

theorem head_okSeg {s : Str} (h : okSeg s) : s.head? ≠ some 47 :=
  head_ne_slash_of_not_mem h.2.1

theorem resolve_push_okSeg (buf : Str) {s : Str} (h : okSeg s) :
    resolve (push buf s) = resolve buf ++ [s] := by
  rw [resolve_push (head_okSeg h), resolveFrom_okSeg h]

theorem resolve_storeDir (cache : Str) : resolve (storeDir cache) = resolve cache ++ [sStored] :=
  resolve_push_okSeg cache okSeg_sStored

theorem uniquePath_head {pre ext a : Str} {d : List Nat} (hpre : okSeg pre ∨ ∃ x y, okSeg x ∧ pre = x ++ 47 :: y) :
    (uniquePath pre ext a d).head? ≠ some 47 := by
  unfold uniquePath
  rcases hpre with h | ⟨x, y, hx, rfl⟩
  · simp only [h.1, if_false]
    rw [List.append_assoc, head_append_of_ne_nil h.1]
    exact head_okSeg h
  · have : x ++ 47 :: y ≠ [] := by simp
    simp only [this, if_false]
    rw [List.append_assoc, List.append_assoc, head_append_of_ne_nil hx.1]
    exact head_okSeg hx

theorem resolveFrom_uniquePath {pre ext a : Str} {d : List Nat} (st : List Str)
    (hpre : pre ≠ []) (ha : 47 ∉ a) (hx : okSeg (hex d ++ ext)) :
    resolveFrom st (uniquePath pre ext a d) = step (resolveFrom st pre) a ++ [hex d ++ ext] := by
  unfold uniquePath
  simp only [hpre, if_false]
  rw [List.append_assoc]
  show resolveFrom st (pre ++ 47 :: (a ++ 47 :: (hex d ++ ext))) = _
  rw [resolveFrom_append_slash, resolveFrom_append_slash, resolveFrom_noslash ha,
    resolveFrom_okSeg hx]

theorem resolveFrom_sTaRsync (st : List Str) : resolveFrom st sTaRsync = st ++ [sTa, sRsync] := by
  unfold sTaRsync
  rw [resolveFrom_append_slash, resolveFrom_okSeg okSeg_sTa, resolveFrom_okSeg okSeg_sRsync]
  simp

theorem resolveFrom_sTaHttps (st : List Str) : resolveFrom st sTaHttps = st ++ [sTa, sHttps] := by
  unfold sTaHttps
  rw [resolveFrom_append_slash, resolveFrom_okSeg okSeg_sTa, resolveFrom_okSeg okSeg_sHttps]
  simp

theorem canon_noslash {a : Str} (h : 47 ∉ a) : 47 ∉ canon a := fun e => h (slash_mem_canon.mp e)

theorem not_mem_sCer : 47 ∉ sCer := by decide
theorem not_mem_sBin : 47 ∉ sBin := by decide

section
variable (sha : Str → List Nat) (hlen : ∀ x, (sha x).length = 32)
include hlen

theorem resolve_taRsyncPath (cache : Str) {u : Rsync} (hu : u.WF) :
    resolve (taRsyncPath sha cache u) = resolve cache ++ relOf sha (.taRsync u) := by
  unfold taRsyncPath
  rw [resolve_push (uniquePath_head (pre := sTaRsync) (Or.inr ⟨sTa, sRsync, okSeg_sTa, rfl⟩)), resolve_storeDir,
    resolveFrom_uniquePath _ (by decide) (okSeg_canon hu.auth).2.1
      (okSeg_hex_ext hlen _ not_mem_sCer),
    resolveFrom_sTaRsync, step_okSeg (okSeg_canon hu.auth)]
  simp [relOf]

theorem resolve_taHttpsPath (cache : Str) {n : Https} (hn : n.WF) :
    resolve (taHttpsPath sha cache n) = resolve cache ++ relOf sha (.taHttps n) := by
  unfold taHttpsPath
  rw [resolve_push (uniquePath_head (pre := sTaHttps) (Or.inr ⟨sTa, sHttps, okSeg_sTa, rfl⟩)), resolve_storeDir,
    resolveFrom_uniquePath _ (by decide) (canon_noslash hn.auth)
      (okSeg_hex_ext hlen _ not_mem_sCer),
    resolveFrom_sTaHttps]
  have : resolve cache ++ [sStored] ++ [sTa, sHttps] = resolve cache ++ [sStored, sTa, sHttps] := by
    simp
  rw [this, step_append_triple]
  simp [relOf]

omit hlen in
theorem resolve_storeRepoPath_none (cache : Str) :
    resolve (storeRepoPath sha cache none) = resolve cache ++ [sStored, sRsync] := by
  unfold storeRepoPath
  rw [resolve_push_okSeg _ okSeg_sRsync, resolve_storeDir]; simp

theorem resolve_storeRepoPath_some (cache : Str) {n : Https} (hn : n.WF) :
    resolve (storeRepoPath sha cache (some n)) =
      resolve cache ++ (step [sStored, sRrdp] (canon n.auth) ++ [hex (sha (httpsHashInput n))]) := by
  unfold storeRepoPath
  have hx : okSeg (hex (sha (httpsHashInput n)) ++ []) := okSeg_hex_ext hlen _ (by simp)
  rw [resolve_push (uniquePath_head (Or.inl okSeg_sRrdp)), resolve_storeDir,
    resolveFrom_uniquePath _ (by decide) (canon_noslash hn.auth) hx,
    resolveFrom_okSeg okSeg_sRrdp]
  have : resolve cache ++ [sStored] ++ [sRrdp] = resolve cache ++ [sStored, sRrdp] := by simp
  rw [this, step_append_pair]
  simp

omit hlen in
theorem pointRel_head (m : Rsync) : (pointRel m).head? ≠ some 47 := by
  unfold pointRel
  rw [head_append_of_ne_nil (by decide)]
  decide

omit hlen in
theorem resolveFrom_pointRel (st : List Str) {m : Rsync} (hm : m.WF) :
    resolveFrom st (pointRel m) = st ++ [sRsync, canon m.auth, m.module] ++ m.segs := by
  unfold pointRel
  rw [resolveFrom_append_slash, resolveFrom_append_slash, resolveFrom_append_slash,
    resolveFrom_okSeg okSeg_sRsync, resolveFrom_okSeg (okSeg_canon hm.auth),
    resolveFrom_okSeg hm.module, resolveFrom_path hm]
  simp

omit hlen in
theorem resolve_pointPath_none (cache : Str) {m : Rsync} (hm : m.WF) :
    resolve (pointPath sha cache none m) = resolve cache ++ relOf sha (.point none m) := by
  unfold pointPath
  rw [resolve_push (pointRel_head m), resolve_storeRepoPath_none sha, resolveFrom_pointRel _ hm]
  simp [relOf]

theorem resolve_pointPath_some (cache : Str) {n : Https} {m : Rsync} (hn : n.WF) (hm : m.WF) :
    resolve (pointPath sha cache (some n) m) = resolve cache ++ relOf sha (.point (some n) m) := by
  unfold pointPath
  rw [resolve_push (pointRel_head m), resolve_storeRepoPath_some sha hlen cache hn,
    resolveFrom_pointRel _ hm]
  simp [relOf]

omit hlen in
theorem resolve_rsyncUriPath (cache : Str) {u : Rsync} (hu : u.WF) :
    resolve (rsyncUriPath cache u) = resolve cache ++ relOf sha (.rsyncFile u) := by
  unfold rsyncUriPath
  rw [resolve_push (path_head hu), resolve_push_okSeg _ hu.module,
    resolve_push_okSeg _ (okSeg_canon hu.auth), resolve_push_okSeg _ okSeg_sRsync,
    resolveFrom_path hu]
  simp [relOf]

omit hlen in
/-- `module_path` is `uri_path` of the module's own URI (empty path). -/
theorem resolve_rsyncModulePath (cache : Str) {u : Rsync} (hu : u.WF) :
    resolve (rsyncModulePath cache u) = resolve cache ++ [sRsync, canon u.auth, u.module] := by
  unfold rsyncModulePath
  have hc := okSeg_canon hu.auth
  have hh : (canon u.auth ++ 47 :: (u.module ++ [47])).head? ≠ some 47 := by
    rw [head_append_of_ne_nil hc.1]; exact head_okSeg hc
  rw [resolve_push hh, resolve_push_okSeg _ okSeg_sRsync, resolveFrom_append_slash,
    resolveFrom_trailing_slash, resolveFrom_okSeg hc, resolveFrom_okSeg hu.module]
  simp

theorem resolve_rrdpArchivePath (cache : Str) {n : Https} (hn : n.WF) :
    resolve (rrdpArchivePath sha cache n) = resolve cache ++ relOf sha (.rrdpArchive n) := by
  unfold rrdpArchivePath
  have hx := okSeg_hex_ext hlen n.raw not_mem_sBin
  have ha := canon_noslash hn.auth
  rw [resolve_push (head_okSeg hx), resolve_push (head_ne_slash_of_not_mem ha),
    resolve_push_okSeg _ okSeg_sRrdp, resolveFrom_okSeg hx, resolveFrom_noslash ha,
    step_append_singleton]
  simp [relOf]

theorem resolve_pathOf (cache : Str) {k : Key} (hk : k.WF) :
    resolve (pathOf sha cache k) = resolve cache ++ relOf sha k := by
  cases k with
  | taRsync u => exact resolve_taRsyncPath sha hlen cache hk
  | taHttps n => exact resolve_taHttpsPath sha hlen cache hk
  | point n m =>
    cases n with
    | none => exact resolve_pointPath_none sha cache hk
    | some n => exact resolve_pointPath_some sha hlen cache hk.1 hk.2
  | rsyncFile u => exact resolve_rsyncUriPath sha cache hk
  | rrdpArchive n => exact resolve_rrdpArchivePath sha hlen cache hk

end

/-! ## Kind classification of a resolved relative path -/

/-- 1 rsync file, 2 rsync TA, 3 https TA, 4 point in the rsync repository, 5 point in an RRDP
repository, 6 RRDP archive. -/
def kindOf : List Str → Nat
  | a :: rest =>
    if a = sRsync then 1
    else if a = sStored then
      match rest with
      | b :: rest2 =>
        if b = sTa then
          match rest2 with
          | c :: _ => if c = sRsync then 2 else 3
          | [] => 0
        else if b = sRsync then 4 else 5
      | [] => 0
    else 6
  | [] => 0

def Key.kind : Key → Nat
  | .rsyncFile _ => 1
  | .taRsync _ => 2
  | .taHttps _ => 3
  | .point none _ => 4
  | .point (some _) _ => 5
  | .rrdpArchive _ => 6

theorem lit_ne : sStored ≠ sRsync ∧ sRrdp ≠ sTa ∧ sRrdp ≠ sRsync ∧ sRrdp ≠ sStored ∧ sTa ≠ sRsync
    ∧ sHttps ≠ sRsync ∧ sRsync ≠ sTa ∧ sRsync ≠ sStored := by decide

theorem kindOf_relOf {sha : Str → List Nat} (hlen : ∀ x, (sha x).length = 32) (k : Key) :
    kindOf (relOf sha k) = k.kind := by
  obtain ⟨n1, n2, n3, n4, n5, n6, n7, n8⟩ := lit_ne
  cases k with
  | taRsync u => simp [relOf, kindOf, Key.kind, n1]
  | taHttps n =>
    have hL := long_hex_ext hlen (httpsHashInput n) sCer
    have e1 : hex (sha (httpsHashInput n)) ++ sCer ≠ sRsync := hL.ne (by decide)
    rcases tailOf_cases sHttps (canon n.auth) with c | c | c <;>
      simp [relOf, step_triple, c, kindOf, Key.kind, n1, n6, e1]
  | point n m =>
    cases n with
    | none => simp [relOf, kindOf, Key.kind, n1, n7]
    | some n =>
      have hL := long_hex hlen (httpsHashInput n)
      have e1 : hex (sha (httpsHashInput n)) ≠ sRsync := hL.ne (by decide)
      have e2 : hex (sha (httpsHashInput n)) ≠ sTa := hL.ne (by decide)
      rcases tailOf_cases sRrdp (canon n.auth) with c | c | c <;>
        simp [relOf, step_pair, c, kindOf, Key.kind, n1, n2, n3, e1, e2]
  | rsyncFile u => simp [relOf, kindOf, Key.kind]
  | rrdpArchive n =>
    have hL := long_hex_ext hlen n.raw sBin
    have e1 : hex (sha n.raw) ++ sBin ≠ sRsync := hL.ne (by decide)
    have e2 : hex (sha n.raw) ++ sBin ≠ sStored := hL.ne (by decide)
    rcases tailOf_cases sRrdp (canon n.auth) with c | c | c <;>
      simp [relOf, step_singleton, c, kindOf, Key.kind, n3, n4, e1, e2]

/-! ## Equivalences are equivalences -/
theorem Rsync.equiv_refl (u : Rsync) : u.equiv u := ⟨rfl, rfl, rfl⟩
theorem Https.equiv_symm {m n : Https} (h : m.equiv n) : n.equiv m := ⟨h.1.symm, h.2.symm⟩
theorem Https.equiv_trans {l m n : Https} (h1 : l.equiv m) (h2 : m.equiv n) : l.equiv n :=
  ⟨h1.1.trans h2.1, h1.2.trans h2.2⟩

end RoutinatorModel.Paths
