import RoutinatorModel.Model.Keyed
/-! Helper lemmas about `mergeH`, `KSorted` and `List.lookup`. -/
namespace RoutinatorModel

variable {A B C V : Type}

theorem mem_consOpt {k : Nat} {o : Option C} {l : List (Nat × C)} {p : Nat × C}
    (h : p ∈ consOpt k o l) : p.1 = k ∨ p ∈ l := by
  unfold consOpt at h
  split at h
  · simp at h; rcases h with h | h
    · left; simp [h]
    · right; exact h
  · right; exact h

theorem key_mem_mergeH (fo : A → Option C) (fn : B → Option C) (f : A → B → Option C)
    (os : List (Nat × A)) (ns : List (Nat × B)) (p : Nat × C)
    (h : p ∈ mergeH fo fn f os ns) : p.1 ∈ os.map Prod.fst ∨ p.1 ∈ ns.map Prod.fst := by
  fun_induction mergeH fo fn f os ns with
  | case1 => simp at h
  | case2 k b ns ih =>
    rcases mem_consOpt h with h | h
    · right; simp [h]
    · rcases ih h with h | h
      · simp at h
      · right; simp at h ⊢; right; exact h
  | case3 k a os ih =>
    rcases mem_consOpt h with h | h
    · left; simp [h]
    · rcases ih h with h | h
      · left; simp at h ⊢; right; exact h
      · simp at h
  | case4 ko a os kn b ns hlt ih =>
    rcases mem_consOpt h with h | h
    · left; simp [h]
    · rcases ih h with h | h
      · left; simp at h ⊢; right; exact h
      · right; exact h
  | case5 ko a os kn b ns hlt hgt ih =>
    rcases mem_consOpt h with h | h
    · right; simp [h]
    · rcases ih h with h | h
      · left; exact h
      · right; simp at h ⊢; right; exact h
  | case6 ko a os kn b ns hlt hgt ih =>
    rcases mem_consOpt h with h | h
    · right; simp [h]
    · rcases ih h with h | h
      · left; simp at h ⊢; right; exact h
      · right; simp at h ⊢; right; exact h

theorem KSorted.tail {x : Nat × V} {l : List (Nat × V)} (h : KSorted (x :: l)) : KSorted l := by
  unfold KSorted at *; simp at h; exact h.2

theorem KSorted.head_lt {x : Nat × V} {l : List (Nat × V)} (h : KSorted (x :: l)) :
    ∀ p ∈ l, x.1 < p.1 := by
  unfold KSorted at h; simp at h
  intro p hp; exact h.1 p.1 p.2 hp

theorem ksorted_cons {x : Nat × V} {l : List (Nat × V)} (h1 : ∀ p ∈ l, x.1 < p.1)
    (h2 : KSorted l) : KSorted (x :: l) := by
  unfold KSorted at *; simp
  exact ⟨fun a b hab => h1 (a, b) hab, h2⟩

theorem ksorted_consOpt {k : Nat} {o : Option C} {l : List (Nat × C)}
    (h1 : ∀ p ∈ l, k < p.1) (h2 : KSorted l) : KSorted (consOpt k o l) := by
  unfold consOpt; split
  · exact ksorted_cons h1 h2
  · exact h2

theorem key_lt_of_mem_map {x : Nat × V} {l : List (Nat × V)} (h : KSorted (x :: l)) {k : Nat}
    (hk : k ∈ l.map Prod.fst) : x.1 < k := by
  simp at hk; obtain ⟨v, hv⟩ := hk
  exact h.head_lt (k, v) hv

theorem ksorted_mergeH (fo : A → Option C) (fn : B → Option C) (f : A → B → Option C)
    (os : List (Nat × A)) (ns : List (Nat × B)) (ho : KSorted os) (hn : KSorted ns) :
    KSorted (mergeH fo fn f os ns) := by
  fun_induction mergeH fo fn f os ns with
  | case1 => simp [KSorted]
  | case2 k b ns ih =>
    apply ksorted_consOpt _ (ih ho hn.tail)
    intro p hp
    rcases key_mem_mergeH _ _ _ _ _ p hp with h | h
    · simp at h
    · exact key_lt_of_mem_map hn h
  | case3 k a os ih =>
    apply ksorted_consOpt _ (ih ho.tail hn)
    intro p hp
    rcases key_mem_mergeH _ _ _ _ _ p hp with h | h
    · exact key_lt_of_mem_map ho h
    · simp at h
  | case4 ko a os kn b ns hlt ih =>
    apply ksorted_consOpt _ (ih ho.tail hn)
    intro p hp
    rcases key_mem_mergeH _ _ _ _ _ p hp with h | h
    · exact key_lt_of_mem_map ho h
    · simp at h; rcases h with h | h
      · omega
      · obtain ⟨v, hv⟩ := h; have := hn.head_lt (p.1, v) hv; simp at this; omega
  | case5 ko a os kn b ns hlt hgt ih =>
    apply ksorted_consOpt _ (ih ho hn.tail)
    intro p hp
    rcases key_mem_mergeH _ _ _ _ _ p hp with h | h
    · simp at h; rcases h with h | h
      · omega
      · obtain ⟨v, hv⟩ := h; have := ho.head_lt (p.1, v) hv; simp at this; omega
    · exact key_lt_of_mem_map hn h
  | case6 ko a os kn b ns hlt hgt ih =>
    have hk : ko = kn := by omega
    subst hk
    apply ksorted_consOpt _ (ih ho.tail hn.tail)
    intro p hp
    rcases key_mem_mergeH _ _ _ _ _ p hp with h | h
    · exact key_lt_of_mem_map ho h
    · exact key_lt_of_mem_map hn h

theorem lookup_none_of_lt {l : List (Nat × V)} {k : Nat} (h : ∀ p ∈ l, k < p.1) :
    l.lookup k = none := by
  induction l with
  | nil => simp [List.lookup]
  | cons x l ih =>
    obtain ⟨a, v⟩ := x
    have h1 := h (a, v) (by simp)
    simp at h1
    have : (k == a) = false := by simp; omega
    simp only [List.lookup, this]
    exact ih (fun p hp => h p (by simp [hp]))

theorem lookup_cons_ksorted {x : Nat × V} {l : List (Nat × V)} (h : KSorted (x :: l)) (k : Nat) :
    (x :: l).lookup k = if k = x.1 then some x.2 else if k < x.1 then none else l.lookup k := by
  obtain ⟨a, v⟩ := x
  by_cases hk : k = a
  · simp [List.lookup, hk]
  · have : (k == a) = false := by simp [hk]
    simp only [List.lookup, this, hk, if_false]
    split
    · exact lookup_none_of_lt (fun p hp => by have := h.head_lt p hp; simp at this; omega)
    · rfl

theorem lookup_consOpt {k k' : Nat} {o : Option C} {l : List (Nat × C)}
    (h : ∀ p ∈ l, k' < p.1) :
    (consOpt k' o l).lookup k = if k = k' then o else l.lookup k := by
  unfold consOpt
  split
  · by_cases hk : k = k'
    · simp [List.lookup, hk]
    · have : (k == k') = false := by simp [hk]
      simp [List.lookup, this, hk]
  · by_cases hk : k = k'
    · subst hk; simp only [if_true]; exact lookup_none_of_lt h
    · simp only [hk, if_false]

theorem lookup_mergeH (fo : A → Option C) (fn : B → Option C) (f : A → B → Option C)
    (os : List (Nat × A)) (ns : List (Nat × B)) (ho : KSorted os) (hn : KSorted ns) (k : Nat) :
    (mergeH fo fn f os ns).lookup k = combH fo fn f (os.lookup k) (ns.lookup k) := by
  fun_induction mergeH fo fn f os ns with
  | case1 => simp [List.lookup, combH]
  | case2 k' b ns ih =>
    rw [lookup_consOpt, lookup_cons_ksorted hn, ih ho hn.tail]
    · by_cases hk : k = k'
      · simp [hk, List.lookup, combH]
      · simp [hk]
        by_cases hlt : k < k'
        · simp [hlt, List.lookup, combH]
          rw [lookup_none_of_lt (fun p hp => by have := hn.head_lt p hp; simp at this; omega)]
        · simp [hlt]
    · intro p hp
      rcases key_mem_mergeH _ _ _ _ _ p hp with h | h
      · simp at h
      · exact key_lt_of_mem_map hn h
  | case3 k' a os ih =>
    rw [lookup_consOpt, lookup_cons_ksorted ho, ih ho.tail hn]
    · by_cases hk : k = k'
      · simp [hk, List.lookup, combH]
      · simp [hk]
        by_cases hlt : k < k'
        · simp [hlt, List.lookup, combH]
          rw [lookup_none_of_lt (fun p hp => by have := ho.head_lt p hp; simp at this; omega)]
        · simp [hlt]
    · intro p hp
      rcases key_mem_mergeH _ _ _ _ _ p hp with h | h
      · exact key_lt_of_mem_map ho h
      · simp at h
  | case4 ko a os kn b ns hlt ih =>
    rw [lookup_consOpt, lookup_cons_ksorted ho, ih ho.tail hn]
    · by_cases hk : k = ko
      · subst hk
        have : ((kn, b) :: ns).lookup k = none :=
          lookup_none_of_lt (fun p hp => by
            simp at hp; rcases hp with hp | hp
            · simp [hp]; exact hlt
            · have := hn.head_lt p hp; simp at this; omega)
        simp [this, combH]
      · simp [hk]
        by_cases hl : k < ko
        · simp [hl]
          rw [lookup_none_of_lt (l := os) (fun p hp => by have := ho.head_lt p hp; simp at this; omega)]
        · simp [hl]
    · intro p hp
      rcases key_mem_mergeH _ _ _ _ _ p hp with h | h
      · exact key_lt_of_mem_map ho h
      · simp at h; rcases h with h | h
        · omega
        · obtain ⟨v, hv⟩ := h; have := hn.head_lt (p.1, v) hv; simp at this; omega
  | case5 ko a os kn b ns hlt hgt ih =>
    rw [lookup_consOpt, lookup_cons_ksorted hn, ih ho hn.tail]
    · by_cases hk : k = kn
      · subst hk
        have : ((ko, a) :: os).lookup k = none :=
          lookup_none_of_lt (fun p hp => by
            simp at hp; rcases hp with hp | hp
            · simp [hp]; exact hgt
            · have := ho.head_lt p hp; simp at this; omega)
        simp [this, combH]
      · simp [hk]
        by_cases hl : k < kn
        · simp [hl]
          rw [lookup_none_of_lt (l := ns) (fun p hp => by have := hn.head_lt p hp; simp at this; omega)]
        · simp [hl]
    · intro p hp
      rcases key_mem_mergeH _ _ _ _ _ p hp with h | h
      · simp at h; rcases h with h | h
        · omega
        · obtain ⟨v, hv⟩ := h; have := ho.head_lt (p.1, v) hv; simp at this; omega
      · exact key_lt_of_mem_map hn h
  | case6 ko a os kn b ns hlt hgt ih =>
    have hk : ko = kn := by omega
    subst hk
    rw [lookup_consOpt, lookup_cons_ksorted ho, lookup_cons_ksorted hn, ih ho.tail hn.tail]
    · by_cases hk : k = ko
      · simp [hk, combH]
      · simp [hk]
        by_cases hl : k < ko
        · simp [hl]
          rw [lookup_none_of_lt (l := os) (fun p hp => by have := ho.head_lt p hp; simp at this; omega),
              lookup_none_of_lt (l := ns) (fun p hp => by have := hn.head_lt p hp; simp at this; omega)]
        · simp [hl]
    · intro p hp
      rcases key_mem_mergeH _ _ _ _ _ p hp with h | h
      · exact key_lt_of_mem_map ho h
      · exact key_lt_of_mem_map hn h

/-- Two key-sorted lists with the same lookup function are equal. -/
theorem ksorted_ext : ∀ (l₁ l₂ : List (Nat × V)), KSorted l₁ → KSorted l₂ →
    (∀ k, l₁.lookup k = l₂.lookup k) → l₁ = l₂
  | [], [], _, _, _ => rfl
  | [], (k, v) :: l, _, _, h => by
    have := h k; simp [List.lookup] at this
  | (k, v) :: l, [], _, _, h => by
    have := h k; simp [List.lookup] at this
  | (k₁, v₁) :: l₁, (k₂, v₂) :: l₂, h₁, h₂, h => by
    have e1 := h k₁
    have e2 := h k₂
    rw [lookup_cons_ksorted h₁, lookup_cons_ksorted h₂] at e1 e2
    simp at e1 e2
    have hk : k₁ = k₂ := by
      by_cases c1 : k₁ = k₂
      · exact c1
      · have c2 : ¬ k₂ = k₁ := fun h => c1 h.symm
        by_cases c3 : k₁ < k₂
        · simp [c3] at e1; exact e1.1
        · have c4 : k₂ < k₁ := by omega
          simp [c4] at e2; exact e2.1.symm
    subst hk
    simp at e1
    subst e1
    congr 1
    apply ksorted_ext l₁ l₂ h₁.tail h₂.tail
    intro k
    have e := h k
    rw [lookup_cons_ksorted h₁, lookup_cons_ksorted h₂] at e
    simp at e
    by_cases c1 : k = k₁
    · subst c1
      rw [lookup_none_of_lt (fun p hp => h₁.head_lt p hp), lookup_none_of_lt (fun p hp => h₂.head_lt p hp)]
    · simp [c1] at e
      by_cases c2 : k < k₁
      · rw [lookup_none_of_lt (fun p hp => by have := h₁.head_lt p hp; simp at this; omega),
            lookup_none_of_lt (fun p hp => by have := h₂.head_lt p hp; simp at this; omega)]
      · simp [c2] at e; exact e

/-- A key-sorted list all of whose lookups are `none` is empty. -/
theorem eq_nil_of_lookup_none (l : List (Nat × V)) (h : ∀ k, l.lookup k = none) : l = [] := by
  cases l with
  | nil => rfl
  | cons x l => have := h x.1; simp [List.lookup] at this

end RoutinatorModel
