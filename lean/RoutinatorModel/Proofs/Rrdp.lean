import RoutinatorModel.Model.Rrdp
/-! Lemmas about the RRDP update model (C25 / C24). -/
namespace RoutinatorModel.Rrdp

/-! ## Object maps -/

theorem get_erase (o : Objs) (u v : Uri) :
    Objs.get (Objs.erase o u) v = if v = u then none else Objs.get o v := by
  induction o with
  | nil => simp [Objs.erase, Objs.get, List.lookup]
  | cons p r ih =>
    obtain ⟨k, c⟩ := p
    simp only [Objs.erase, Objs.get] at ih ⊢
    by_cases hk : k = u
    · subst hk
      simp only [List.filter, bne_self_eq_false]
      rw [ih]
      by_cases hv : v = k
      · simp [hv]
      · have : (v == k) = false := by simp [hv]
        simp [hv, List.lookup, this]
    · have hne : (k != u) = true := by simp [hk]
      simp only [List.filter, hne]
      by_cases hv : v = u
      · subst hv
        have : (v == k) = false := by
          simp; intro h; exact hk h.symm
        simp [List.lookup, this, ih]
      · simp only [List.lookup]
        cases hvk : (v == k) with
        | true => simp [hv]
        | false => simp [ih, hv]

theorem get_set (o : Objs) (u v : Uri) (c : Content) :
    Objs.get (Objs.set o u c) v = if v = u then some c else Objs.get o v := by
  simp only [Objs.set, Objs.get, List.lookup]
  by_cases hv : v = u
  · simp [hv]
  · have : (v == u) = false := by simp [hv]
    have h := get_erase o u v
    simp only [Objs.get] at h
    simp [this, hv, h]

/-! ## Element application -/

/-- A successful element sets its URI to its value, leaves every other URI alone and records
the URI as seen. -/
theorem applyElem_some {o : Objs} {seen : List Uri} {e : Elem} {o' : Objs} {seen' : List Uri}
    (h : applyElem (o, seen) e = some (o', seen')) :
    e.uri ∉ seen ∧ seen' = e.uri :: seen ∧ Objs.get o' e.uri = e.value ∧
      ∀ v, v ≠ e.uri → Objs.get o' v = Objs.get o v := by
  unfold applyElem at h
  by_cases hns : e.uri ∈ seen
  · have hs : seen.contains e.uri = true := by simp [hns]
    rw [if_pos hs] at h
    exact absurd h (by simp)
  · have hs : ¬ (seen.contains e.uri = true) := by simp [hns]
    rw [if_neg hs] at h
    cases e with
    | publish u c =>
      simp only [Elem.uri] at *
      cases hg : Objs.get o u with
      | some c' => simp [hg] at h
      | none =>
        simp [hg] at h
        obtain ⟨h1, h2⟩ := h
        subst h1; subst h2
        refine ⟨hns, rfl, ?_, ?_⟩
        · simp [get_set, Elem.value]
        · intro v hv; simp [get_set, hv]
    | update u hh c =>
      simp only [Elem.uri] at *
      cases hg : Objs.get o u with
      | none => simp [hg] at h
      | some c' =>
        by_cases hc : c' = hh
        · simp [hg, hc] at h
          obtain ⟨h1, h2⟩ := h
          subst h1; subst h2
          refine ⟨hns, rfl, ?_, ?_⟩
          · simp [get_set, Elem.value]
          · intro v hv; simp [get_set, hv]
        · simp [hg, hc] at h
    | withdraw u hh =>
      simp only [Elem.uri] at *
      cases hg : Objs.get o u with
      | none => simp [hg] at h
      | some c' =>
        by_cases hc : c' = hh
        · simp [hg, hc] at h
          obtain ⟨h1, h2⟩ := h
          subst h1; subst h2
          refine ⟨hns, rfl, ?_, ?_⟩
          · simp [get_erase, Elem.value]
          · intro v hv; simp [get_erase, hv]
        · simp [hg, hc] at h

/-- If all elements applied, every element's URI holds the element's value, was not seen
before, and URIs no element mentions are unchanged. -/
theorem applyElems_ok (es : List Elem) : ∀ (o : Objs) (seen : List Uri) (o' : Objs),
    applyElems (o, seen) es = (o', true) →
    (∀ e ∈ es, e.uri ∉ seen ∧ Objs.get o' e.uri = e.value) ∧
    (∀ v, (∀ e ∈ es, e.uri ≠ v) → Objs.get o' v = Objs.get o v) := by
  induction es with
  | nil =>
    intro o seen o' h
    simp [applyElems] at h
    subst h
    simp
  | cons e r ih =>
    intro o seen o' h
    simp only [applyElems] at h
    cases ha : applyElem (o, seen) e with
    | none => simp [ha] at h
    | some st =>
      obtain ⟨o1, seen1⟩ := st
      simp only [ha] at h
      obtain ⟨hns, hseen, hval, hother⟩ := applyElem_some ha
      obtain ⟨ih1, ih2⟩ := ih o1 seen1 o' h
      subst hseen
      constructor
      · intro x hx
        rcases List.mem_cons.mp hx with rfl | hx
        · refine ⟨hns, ?_⟩
          rw [ih2 x.uri ?_, hval]
          intro y hy hxy
          have := (ih1 y hy).1
          apply this
          simp [hxy]
        · obtain ⟨hy1, hy2⟩ := ih1 x hx
          refine ⟨?_, hy2⟩
          intro hmem
          exact hy1 (List.mem_cons_of_mem _ hmem)
      · intro v hv
        rw [ih2 v (fun x hx => hv x (List.mem_cons_of_mem _ hx))]
        exact hother v (fun hve => hv e (List.mem_cons_self) hve.symm)

/-! ## The server's truth and honest views -/

/-- One genuine server version. -/
structure Version where
  session : Nat
  serial : Nat
  objs : Objs

/-- The server history: every version it ever published. -/
abbrev History := List Version

/-- The server's snapshot at `(session, serial)`. -/
def History.at (h : History) (s n : Nat) : Option Objs :=
  (h.find? (fun v => v.session == s && v.serial == n)).map (·.objs)

/-- The document is the genuine snapshot file of the version it names. -/
def GenuineSnapshot (h : History) (d : Doc) : Prop :=
  ∃ x o, History.at h d.session d.serial = some x ∧ snapshotObjs [] d.elems = some o ∧ Same o x

/-- The document is the genuine delta file of the version it names: it leads from the
snapshot at `serial - 1` to the snapshot at `serial` of its session. -/
def GenuineDelta (h : History) (d : Doc) : Prop :=
  ∃ k prev cur, d.serial = k + 1 ∧ History.at h d.session k = some prev ∧
    History.at h d.session (k + 1) = some cur ∧
    (∀ e ∈ d.elems, Objs.get cur e.uri = e.value) ∧
    (∀ u, (∀ e ∈ d.elems, e.uri ≠ u) → Objs.get cur u = Objs.get prev u)

/-- Hashes do not lie: a served file whose hash equals the hash the notification lists for it is
the genuine file of the version it names. (Everything else may be wrong: the notification's
session, serial and delta list, the files behind the URLs, their status, their content.) -/
def Honest (h : History) (n : Notif) (fs : Files) : Prop :=
  (∀ d, fs.fetch n.snapFile = some d → d.hash = n.snapHash → GenuineSnapshot h d) ∧
  (∀ e ∈ n.deltas, ∀ d, fs.fetch e.file = some d → d.hash = e.hash → GenuineDelta h d)

/-- The local copy equals the server's snapshot at the serial its state names. -/
def Clean (h : History) (l : Local) : Prop :=
  ∃ x, History.at h l.state.session l.state.serial = some x ∧ Same l.objs x

/-- Serials `a+1, a+2, …`. -/
def ChainFrom : Nat → List DeltaEntry → Prop
  | _, [] => True
  | a, e :: r => e.serial = a + 1 ∧ ChainFrom (a + 1) r

/-- Some element of some delta file of the list mentions the URI. -/
def TouchedBy (fs : Files) (es : List DeltaEntry) (u : Uri) : Prop :=
  ∃ e ∈ es, ∃ d, fs.fetch e.file = some d ∧ ∃ el ∈ d.elems, el.uri = u

theorem applyDelta_ok {o o' : Objs} {s : Nat} {e : DeltaEntry} {fs : Files}
    (h : applyDelta o s e fs = (o', true)) :
    ∃ d, fs.fetch e.file = some d ∧ d.isSnapshot = false ∧ d.session = s ∧
      d.serial = e.serial ∧ applyElems (o, []) d.elems = (o', true) ∧ d.endOk = true ∧
      d.hash = e.hash := by
  unfold applyDelta at h
  cases hf : fs.fetch e.file with
  | none => simp [hf] at h
  | some d =>
    simp only [hf] at h
    by_cases h1 : d.isSnapshot = true
    · simp [h1] at h
    · by_cases h2 : (d.session != s || d.serial != e.serial) = true
      · simp [h1, h2] at h
      · simp only [h1, h2] at h
        cases hr : applyElems (o, []) d.elems with
        | mk o1 ok =>
          simp only [hr] at h
          cases ok with
          | false => simp at h
          | true =>
            by_cases h3 : d.endOk = true
            · simp [h3] at h
              obtain ⟨h4, h5⟩ := h
              subst h4
              refine ⟨d, rfl, by simpa using h1, ?_, ?_, hr, h3, h5⟩
              · simp at h2; exact h2.1
              · simp at h2; exact h2.2
            · simp [h3] at h

/-- **Chain lemma.** If a contiguous chain of deltas applies completely, every file's hash
matches and hashes do not lie, and the local objects agree with the server's snapshot at the
starting serial *on every URI the chain does not touch*, then the result is the server's
snapshot at the final serial. (No precondition of any element is used.) -/
theorem runDeltas_genuine (h : History) (s : Nat) (fs : Files) :
    ∀ (es : List DeltaEntry) (o : Objs) (a : Nat) (x o' : Objs) (tr : List Nat),
    History.at h s a = some x → ChainFrom a es →
    (∀ e ∈ es, ∀ d, fs.fetch e.file = some d → d.hash = e.hash → GenuineDelta h d) →
    (∀ u, ¬ TouchedBy fs es u → Objs.get o u = Objs.get x u) →
    runDeltas o s fs es = (o', true, tr) →
    ∃ x', History.at h s (a + es.length) = some x' ∧ Same o' x' := by
  intro es
  induction es with
  | nil =>
    intro o a x o' tr hx _ _ hag hrun
    simp [runDeltas] at hrun
    obtain ⟨rfl, _⟩ := hrun
    refine ⟨x, by simpa using hx, ?_⟩
    intro u
    apply hag u
    rintro ⟨e, he, _⟩
    cases he
  | cons e r ih =>
    intro o a x o' tr hx hchain hgen hag hrun
    obtain ⟨hser, hchain'⟩ := hchain
    simp only [runDeltas] at hrun
    cases had : applyDelta o s e fs with
    | mk o1 ok =>
      simp only [had] at hrun
      cases ok with
      | false => simp at hrun
      | true =>
        simp only [if_true] at hrun
        obtain ⟨d, hf, _, hds, hdser, hel, _, hhash⟩ := applyDelta_ok had
        obtain ⟨k, prev, cur, hk, hprev, hcur, hval, hunt⟩ :=
          hgen e (List.mem_cons_self) d hf hhash
        have hka : k = a := by omega
        subst hka
        rw [hds] at hprev hcur
        have hpx : prev = x := by
          rw [hx] at hprev; exact (Option.some.inj hprev).symm
        subst hpx
        obtain ⟨hel1, hel2⟩ := applyElems_ok d.elems o [] o1 hel
        cases hrr : runDeltas o1 s fs r with
        | mk o2 rest =>
          obtain ⟨ok2, tr2⟩ := rest
          simp only [hrr] at hrun
          have hok2 : ok2 = true := by
            have := congrArg (fun p => p.2.1) hrun
            simpa using this
          have ho2 : o2 = o' := by
            have := congrArg (fun p => p.1) hrun
            simpa using this
          subst hok2; subst ho2
          have := ih o1 (k + 1) cur o2 tr2 hcur hchain'
            (fun e' he' => hgen e' (List.mem_cons_of_mem _ he'))
            (by
              intro u hnt
              by_cases ht : ∃ el ∈ d.elems, el.uri = u
              · obtain ⟨el, hel', rfl⟩ := ht
                rw [(hel1 el hel').2, hval el hel']
              · have hnt' : ∀ el ∈ d.elems, el.uri ≠ u := by
                  intro el hel' heq; exact ht ⟨el, hel', heq⟩
                rw [hel2 u hnt', hunt u hnt']
                apply hag u
                rintro ⟨e', he', d', hf', el, hel', heq⟩
                rcases List.mem_cons.mp he' with rfl | he'
                · rw [hf] at hf'
                  cases hf'
                  exact ht ⟨el, hel', heq⟩
                · exact hnt ⟨e', he', d', hf', el, hel', heq⟩)
            hrr
          obtain ⟨x', hx', hsame⟩ := this
          refine ⟨x', ?_, hsame⟩
          have : k + (e :: r).length = k + 1 + r.length := by simp; omega
          rw [this]; exact hx'

/-! ## Delta selection -/

theorem mem_insertEntry {e x : DeltaEntry} {l : List DeltaEntry} :
    x ∈ insertEntry e l → x = e ∨ x ∈ l := by
  induction l with
  | nil => simp [insertEntry]
  | cons y r ih =>
    simp only [insertEntry]
    split
    · intro h
      rcases List.mem_cons.mp h with h | h
      · exact Or.inl h
      · exact Or.inr h
    · intro h
      rcases List.mem_cons.mp h with h | h
      · exact Or.inr (h ▸ List.mem_cons_self)
      · rcases ih h with h | h
        · exact Or.inl h
        · exact Or.inr (List.mem_cons_of_mem _ h)

theorem mem_sortEntries {x : DeltaEntry} {l : List DeltaEntry} :
    x ∈ sortEntries l → x ∈ l := by
  induction l with
  | nil => simp [sortEntries]
  | cons y r ih =>
    simp only [sortEntries]
    intro h
    rcases mem_insertEntry h with h | h
    · exact h ▸ List.mem_cons_self
    · exact List.mem_cons_of_mem _ (ih h)

theorem mem_effDeltas {cfg : Cfg} {n : Notif} {x : DeltaEntry} :
    x ∈ effDeltas cfg n → x ∈ n.deltas := by
  unfold effDeltas
  split
  · simp
  · exact mem_sortEntries

theorem dropOlder_some {t : Nat} {l r : List DeltaEntry} (h : dropOlder t l = some r) :
    (∀ e ∈ r, e ∈ l) ∧ (∃ e r', r = e :: r' ∧ e.serial = t) ∧ r.getLast? = l.getLast? := by
  induction l with
  | nil => simp [dropOlder] at h
  | cons y l' ih =>
    simp only [dropOlder] at h
    by_cases h1 : y.serial > t
    · simp [h1] at h
    · by_cases h2 : y.serial = t
      · simp [h1, h2] at h
        subst h
        exact ⟨fun e he => he, ⟨y, l', rfl, h2⟩, rfl⟩
      · simp only [h1, h2, if_false] at h
        obtain ⟨i1, i2, i3⟩ := ih h
        refine ⟨fun e he => List.mem_cons_of_mem _ (i1 e he), i2, ?_⟩
        rw [i3]
        obtain ⟨e, r', hr, _⟩ := i2
        have hne : l' ≠ [] := by
          intro hl; subst hl; simp [dropOlder] at h
        cases l' with
        | nil => exact absurd rfl hne
        | cons z zs => simp [List.getLast?_cons_cons]

theorem chain_of_contiguous : ∀ (r : List DeltaEntry) (a : Nat),
    (∃ e r', r = e :: r' ∧ e.serial = a + 1) → contiguous r = true → ChainFrom a r := by
  intro r
  induction r with
  | nil => intro a h; obtain ⟨e, r', h, _⟩ := h; cases h
  | cons e r' ih =>
    intro a h hc
    obtain ⟨e0, r0, h0, hs⟩ := h
    cases h0
    refine ⟨hs, ?_⟩
    cases r' with
    | nil => trivial
    | cons e2 r2 =>
      simp only [contiguous, Bool.and_eq_true, beq_iff_eq] at hc
      apply ih (a + 1) ⟨e2, r2, rfl, ?_⟩ hc.2
      omega

theorem chain_last : ∀ (r : List DeltaEntry) (a : Nat), ChainFrom a r → r ≠ [] →
    r.getLast?.map (·.serial) = some (a + r.length) := by
  intro r
  induction r with
  | nil => intro a _ h; exact absurd rfl h
  | cons e r' ih =>
    intro a hc _
    obtain ⟨hs, hc'⟩ := hc
    cases r' with
    | nil => simp [hs]
    | cons e2 r2 =>
      have := ih (a + 1) hc' (by simp)
      rw [List.getLast?_cons_cons]
      rw [this]
      simp; omega

/-- Every entry `dropOlder` skips or returns has a serial ≤ the last one's: if all serials are
below the target, nothing is left. -/
theorem dropOlder_none_of_all_lt {t : Nat} : ∀ (l : List DeltaEntry),
    (∀ e ∈ l, e.serial < t) → dropOlder t l = none := by
  intro l
  induction l with
  | nil => intro _; rfl
  | cons e r ih =>
    intro h
    have he := h e List.mem_cons_self
    simp only [dropOlder]
    have h1 : ¬ e.serial > t := by omega
    have h2 : ¬ e.serial = t := by omega
    simp only [h1, h2, if_false]
    exact ih (fun x hx => h x (List.mem_cons_of_mem _ hx))

/-- **The server goes backwards**: a notified serial below the local one never selects deltas
(not even the empty list): `calc_deltas` demands a snapshot. (The "nothing to do" shortcut is for
*equal* serials only.) -/
theorem calcDeltas_lower_serial {cfg : Cfg} {serial : Nat} {ds : List DeltaEntry} {st : RState}
    (h : serial < st.serial) : calcDeltas cfg serial ds st ≠ some [] ∧
    ((∀ e ∈ ds, e.serial ≤ serial) → calcDeltas cfg serial ds st = none) := by
  have hne : ¬ serial = st.serial := by omega
  constructor
  · unfold calcDeltas
    simp only [hne, if_false]
    split
    · simp
    · cases hd : dropOlder (st.serial + 1) ds with
      | none => simp
      | some r =>
        obtain ⟨_, ⟨e, r', hr, _⟩, _⟩ := dropOlder_some hd
        simp only
        split
        · simp
        · split
          · simp
          · rw [hr]; simp
  · intro hall
    unfold calcDeltas
    simp only [hne, if_false]
    split
    · rfl
    · rw [dropOlder_none_of_all_lt ds (fun e he => by have := hall e he; omega)]

/-- With the contiguity check, `calc_deltas` yields either nothing to do (equal serials) or a
chain `serial+1 … notified serial` of listed deltas. -/
theorem calcDeltas_some {cfg : Cfg} {serial : Nat} {ds r : List DeltaEntry} {st : RState}
    (hgap : cfg.gapCheck = true) (h : calcDeltas cfg serial ds st = some r) :
    (∀ e ∈ r, e ∈ ds) ∧ ChainFrom st.serial r ∧ st.serial + r.length = serial := by
  unfold calcDeltas at h
  by_cases h1 : serial = st.serial
  · simp [h1] at h
    subst h
    exact ⟨by simp, trivial, by simp [h1]⟩
  · simp only [h1, if_false] at h
    by_cases h2 : (ds.getLast?.map (·.serial) != some serial) = true
    · simp [h2] at h
    · simp only [h2] at h
      cases hd : dropOlder (st.serial + 1) ds with
      | none => simp [hd] at h
      | some r0 =>
        simp only [hd, hgap, Bool.true_and] at h
        by_cases h3 : contiguous r0 = true
        · simp only [h3] at h
          by_cases h4 : r0.length > cfg.maxDeltaCount
          · simp [h4] at h
          · simp [h4] at h
            subst h
            obtain ⟨d1, d2, d3⟩ := dropOlder_some hd
            have hch := chain_of_contiguous r0 st.serial d2 h3
            refine ⟨d1, hch, ?_⟩
            have hne : r0 ≠ [] := by
              obtain ⟨e, r', hr, _⟩ := d2; rw [hr]; simp
            have hl := chain_last r0 st.serial hch hne
            rw [d3] at hl
            simp at h2
            obtain ⟨a, ha1, ha2⟩ := h2
            rw [ha1] at hl
            simp at hl
            omega
        · simp [h3] at h

/-- `check_deltas` looks at **every** listed delta whose serial the state remembers, wherever it
stands in the list: the guard fires iff some listed entry's hash differs from the remembered one. -/
theorem deltaMutation_iff (ds : List DeltaEntry) (st : RState) :
    deltaMutation ds st = true ↔
      ∃ e ∈ ds, ∃ h, List.lookup e.serial st.deltaState = some h ∧ h ≠ e.hash := by
  unfold deltaMutation
  rw [List.any_eq_true]
  constructor
  · rintro ⟨e, he, hm⟩
    cases hl : List.lookup e.serial st.deltaState with
    | none => simp [hl] at hm
    | some h =>
      simp only [hl, bne_iff_ne, ne_eq] at hm
      exact ⟨e, he, h, hl, hm⟩
  · rintro ⟨e, he, h, hl, hne⟩
    exact ⟨e, he, by simp [hl, hne]⟩

/-- What a completed delta update did. -/
theorem deltaUpdate_done {cfg : Cfg} {now draw : Nat} {etag lm : Option Nat} {n : Notif}
    {fs : Files} {l l' : Local} {tr : List Nat}
    (hd : deltaUpdate cfg now draw etag lm n fs l = .done l' tr) :
    ∃ ds, calcDeltas cfg n.serial (effDeltas cfg n) l.state = some ds ∧
      n.session = l.state.session ∧
      runDeltas l.objs n.session fs ds = (l'.objs, true, tr) ∧
      l'.state = newState cfg now draw etag lm n ∧
      deltaMutation (effDeltas cfg n) l.state = false := by
  unfold deltaUpdate at hd
  by_cases h1 : oversized cfg n = true
  · simp [h1] at hd
  · simp only [h1] at hd
    by_cases h2 : deltaMutation (effDeltas cfg n) l.state = true
    · simp [h2] at hd
    · simp only [h2] at hd
      by_cases h3 : (n.session != l.state.session) = true
      · simp [h3] at hd
      · simp only [h3] at hd
        cases hc : calcDeltas cfg n.serial (effDeltas cfg n) l.state with
        | none => simp [hc] at hd
        | some ds =>
          simp only [hc] at hd
          cases hr : runDeltas l.objs n.session fs ds with
          | mk o1 rest =>
            obtain ⟨ok, tr1⟩ := rest
            simp only [hr] at hd
            cases ok with
            | false => simp at hd
            | true =>
              simp at hd
              obtain ⟨hl, htr⟩ := hd
              subst hl; subst htr
              refine ⟨ds, rfl, ?_, hr, rfl, by simpa using h2⟩
              simpa using h3

/-! ## Snapshot and the update as a whole -/

theorem fetchSnapshot_genuine {h : History} {n : Notif} {fs : Files} {o : Objs}
    (hh : Honest h n fs) (hf : fetchSnapshot n fs = some o) :
    ∃ x, History.at h n.session n.serial = some x ∧ Same o x := by
  unfold fetchSnapshot at hf
  cases hd : fs.fetch n.snapFile with
  | none => simp [hd] at hf
  | some d =>
    simp only [hd] at hf
    by_cases h1 : (!d.isSnapshot) = true
    · simp [h1] at hf
    · simp only [h1] at hf
      by_cases h2 : (d.session != n.session || d.serial != n.serial) = true
      · simp [h2] at hf
      · simp only [h2] at hf
        cases hs : snapshotObjs [] d.elems with
        | none => simp [hs] at hf
        | some o1 =>
          simp only [hs] at hf
          by_cases h3 : (d.endOk && d.hash == n.snapHash) = true
          · simp only [h3, if_true] at hf
            cases hf
            simp at h3
            obtain ⟨x, o2, hx, ho2, hsame⟩ := hh.1 d hd h3.2
            simp at h2
            rw [h2.1, h2.2] at hx
            rw [hs] at ho2
            cases ho2
            exact ⟨x, hx, hsame⟩
          · simp [h3] at hf

theorem snapshotStep_updated {cfg : Cfg} {now draw : Nat} {etag lm : Option Nat} {n : Notif}
    {fs : Files} {loc : Option Local} {objs : Option Objs} {tr : List Nat} {att : Bool}
    (h2 : (snapshotStep cfg now draw etag lm n fs loc objs tr att).2.1 = true) :
    ∃ o, fetchSnapshot n fs = some o ∧
      (snapshotStep cfg now draw etag lm n fs loc objs tr att).1 =
        some { objs := o, state := newState cfg now draw etag lm n } := by
  unfold snapshotStep at h2 ⊢
  cases hs : fetchSnapshot n fs with
  | none => simp [hs] at h2
  | some o => exact ⟨o, rfl, by simp⟩

theorem snapshotStep_failed {cfg : Cfg} {now draw : Nat} {etag lm : Option Nat} {n : Notif}
    {fs : Files} {l : Local} {objs : Objs} {tr : List Nat} {att : Bool}
    (h2 : (snapshotStep cfg now draw etag lm n fs (some l) (some objs) tr att).2.1 = false) :
    (snapshotStep cfg now draw etag lm n fs (some l) (some objs) tr att).1 =
        some { l with objs := objs } ∧
    (snapshotStep cfg now draw etag lm n fs (some l) (some objs) tr att).2.2.1 = att := by
  unfold snapshotStep at h2 ⊢
  cases hs : fetchSnapshot n fs with
  | none => simp
  | some o => simp [hs] at h2

theorem snapshotStep_failed_none {cfg : Cfg} {now draw : Nat} {etag lm : Option Nat} {n : Notif}
    {fs : Files} {tr : List Nat} {att : Bool}
    (h2 : (snapshotStep cfg now draw etag lm n fs none none tr att).2.1 = false) :
    (snapshotStep cfg now draw etag lm n fs none none tr att).1 = none := by
  unfold snapshotStep at h2 ⊢
  cases hs : fetchSnapshot n fs with
  | none => simp
  | some o => simp [hs] at h2

/-- How `update` can come to report success with a local copy. -/
theorem updateCore_updated {cfg : Cfg} {now draw : Nat} {loc : Option Local} {resp : NResp}
    {fs : Files} {l' : Local}
    (h1 : (updateCore cfg now draw loc resp fs).1 = some l')
    (h2 : (updateCore cfg now draw loc resp fs).2.1 = true) :
    (∃ l, loc = some l ∧ l' = touch now draw l) ∨
    (∃ etag lm cond n, resp = .ok etag lm cond (some n) ∧
      ((∃ l tr, loc = some l ∧ deltaUpdate cfg now draw etag lm n fs l = .done l' tr) ∨
       (∃ o, fetchSnapshot n fs = some o ∧
          l' = { objs := o, state := newState cfg now draw etag lm n }))) := by
  unfold updateCore at h1 h2
  cases resp with
  | fail => simp at h2
  | force304 =>
    left
    cases loc with
    | none => simp at h1
    | some l => simp at h1; exact ⟨l, rfl, h1.symm⟩
  | ok etag lm cond content =>
    simp only at h1 h2
    by_cases hnm : serverNotModified loc etag lm cond = true
    · left
      simp only [hnm, if_true] at h1
      cases loc with
      | none => simp at h1
      | some l => simp at h1; exact ⟨l, rfl, h1.symm⟩
    · simp only [hnm] at h1 h2
      cases content with
      | none => simp at h2
      | some n =>
        right
        refine ⟨etag, lm, cond, n, rfl, ?_⟩
        simp only [Bool.false_eq_true, if_false] at h1 h2
        unfold notifStep at h1 h2
        by_cases ho : (!originsOk cfg n) = true
        · simp [ho] at h2
        · simp only [ho, Bool.false_eq_true, if_false] at h1 h2
          cases loc with
          | none =>
            right
            simp only at h1 h2
            obtain ⟨o, ho1, ho2⟩ := snapshotStep_updated h2
            rw [ho2] at h1
            exact ⟨o, ho1, (Option.some.inj h1).symm⟩
          | some l =>
            simp only at h1 h2
            cases hd : deltaUpdate cfg now draw etag lm n fs l with
            | done l2 tr =>
              left
              simp [hd] at h1
              exact ⟨l, tr, rfl, by rw [h1] at hd; exact hd⟩
            | snapshot objs tr att =>
              right
              simp only [hd] at h1 h2
              obtain ⟨o, ho1, ho2⟩ := snapshotStep_updated h2
              rw [ho2] at h1
              exact ⟨o, ho1, (Option.some.inj h1).symm⟩

/-- A completed delta update of a clean copy under honest hashes gives the notified version. -/
theorem deltaUpdate_clean {h : History} {cfg : Cfg} (hgap : cfg.gapCheck = true)
    {now draw : Nat} {etag lm : Option Nat} {n : Notif} {fs : Files} {l l' : Local}
    {tr : List Nat} (hc : Clean h l) (hh : Honest h n fs)
    (hd : deltaUpdate cfg now draw etag lm n fs l = .done l' tr) :
    Clean h l' ∧ l'.state.session = n.session ∧ l'.state.serial = n.serial := by
  obtain ⟨ds, hcalc, hsess, hrun, hst, _⟩ := deltaUpdate_done hd
  obtain ⟨hmem, hchain, hlen⟩ := calcDeltas_some hgap hcalc
  obtain ⟨x, hx, hsame⟩ := hc
  rw [← hsess] at hx
  obtain ⟨x', hx', hsame'⟩ := runDeltas_genuine h n.session fs ds l.objs l.state.serial x l'.objs tr
    hx hchain (fun e he => hh.2 e (mem_effDeltas (hmem e he))) (fun u _ => hsame u) hrun
  rw [hlen] at hx'
  refine ⟨⟨x', ?_, hsame'⟩, ?_, ?_⟩
  · rw [hst]; exact hx'
  · rw [hst]; rfl
  · rw [hst]; rfl

/-- A delta update that was not attempted (no delta file processed) leaves the objects. -/
theorem deltaUpdate_not_attempted {cfg : Cfg} {now draw : Nat} {etag lm : Option Nat} {n : Notif}
    {fs : Files} {l : Local} {objs : Objs} {tr : List Nat}
    (hd : deltaUpdate cfg now draw etag lm n fs l = .snapshot objs tr false) : objs = l.objs := by
  unfold deltaUpdate at hd
  by_cases g1 : oversized cfg n = true
  · simp [g1] at hd; exact hd.1.symm
  · simp only [g1] at hd
    by_cases g2 : deltaMutation (effDeltas cfg n) l.state = true
    · simp [g2] at hd; exact hd.1.symm
    · simp only [g2] at hd
      by_cases g3 : (n.session != l.state.session) = true
      · simp [g3] at hd; exact hd.1.symm
      · simp only [g3] at hd
        cases hc : calcDeltas cfg n.serial (effDeltas cfg n) l.state with
        | none => simp [hc] at hd; exact hd.1.symm
        | some ds =>
          simp only [hc] at hd
          by_cases hr : (runDeltas l.objs n.session fs ds).2.1 = true
          · simp [hr] at hd
          · simp [hr] at hd

/-- A failed update never moves the state; unless it is "dirty" (a delta was applied in place
and failed, and the fallback snapshot failed as well) it leaves the local copy untouched. -/
theorem updateCore_failed {cfg : Cfg} {now draw : Nat} {loc : Option Local} {resp : NResp}
    {fs : Files} (h2 : (updateCore cfg now draw loc resp fs).2.1 = false) :
    (updateCore cfg now draw loc resp fs).1.map (·.state) = loc.map (·.state) ∧
    ((updateCore cfg now draw loc resp fs).2.2.1 = false →
      (updateCore cfg now draw loc resp fs).1 = loc) := by
  unfold updateCore at h2 ⊢
  cases resp with
  | fail => simp
  | force304 => simp at h2
  | ok etag lm cond content =>
    simp only at h2 ⊢
    by_cases hnm : serverNotModified loc etag lm cond = true
    · simp [hnm] at h2
    · simp only [hnm, Bool.false_eq_true, if_false] at h2 ⊢
      cases content with
      | none => simp
      | some n =>
        simp only at h2 ⊢
        unfold notifStep at h2 ⊢
        by_cases ho : (!originsOk cfg n) = true
        · simp [ho]
        · simp only [ho, Bool.false_eq_true, if_false] at h2 ⊢
          cases loc with
          | none =>
            simp only at h2 ⊢
            rw [snapshotStep_failed_none h2]
            simp
          | some l =>
            simp only at h2 ⊢
            cases hd : deltaUpdate cfg now draw etag lm n fs l with
            | done l2 tr => simp [hd] at h2
            | snapshot objs tr att =>
              simp only [hd] at h2 ⊢
              obtain ⟨f1, f2⟩ := snapshotStep_failed h2
              rw [f1, f2]
              refine ⟨by simp, ?_⟩
              intro hatt
              subst hatt
              rw [deltaUpdate_not_attempted hd]

/-- How `notifStep` can report success from an existing copy. -/
theorem notifStep_updated {cfg : Cfg} {now draw : Nat} {etag lm : Option Nat} {n : Notif}
    {fs : Files} {l l' : Local}
    (h1 : (notifStep cfg now draw etag lm n fs (some l)).1 = some l')
    (h2 : (notifStep cfg now draw etag lm n fs (some l)).2.1 = true) :
    (∃ tr, deltaUpdate cfg now draw etag lm n fs l = .done l' tr) ∨
    (∃ o, fetchSnapshot n fs = some o ∧
        l' = { objs := o, state := newState cfg now draw etag lm n }) := by
  unfold notifStep at h1 h2
  by_cases ho : (!originsOk cfg n) = true
  · simp [ho] at h2
  · simp only [ho, Bool.false_eq_true, if_false] at h1 h2
    cases hd : deltaUpdate cfg now draw etag lm n fs l with
    | done l2 tr =>
      left
      simp [hd] at h1
      exact ⟨tr, by rw [h1]⟩
    | snapshot objs tr att =>
      right
      simp only [hd] at h1 h2
      obtain ⟨o, ho1, ho2⟩ := snapshotStep_updated h2
      rw [ho2] at h1
      exact ⟨o, ho1, (Option.some.inj h1).symm⟩

/-! ## Crash traces (C24) -/

/-- The object maps after each successfully applied element. -/
def elemTrace : Objs × List Uri → List Elem → List Objs
  | _, [] => []
  | st, e :: es =>
    match applyElem st e with
    | none => []
    | some st' => st'.1 :: elemTrace st' es

theorem getLast_cons_getD {α : Type} (a d : α) (l : List α) :
    (a :: l).getLast?.getD d = l.getLast?.getD a := by
  cases l with
  | nil => simp
  | cons b r =>
    rw [List.getLast?_cons_cons]
    cases h : (b :: r).getLast? with
    | none => simp at h
    | some x => simp

theorem getLast_append_getD {α : Type} (d : α) (a b : List α) :
    (a ++ b).getLast?.getD d = b.getLast?.getD (a.getLast?.getD d) := by
  induction a generalizing d with
  | nil => simp
  | cons x r ih =>
    rw [List.cons_append, getLast_cons_getD, getLast_cons_getD, ih]

theorem applyElems_fst (es : List Elem) : ∀ st : Objs × List Uri,
    (applyElems st es).1 = (elemTrace st es).getLast?.getD st.1 := by
  induction es with
  | nil => intro st; simp [applyElems, elemTrace]
  | cons e r ih =>
    intro st
    simp only [applyElems, elemTrace]
    cases ha : applyElem st e with
    | none => simp
    | some st' =>
      simp only
      rw [ih st', getLast_cons_getD]

/-- Every intermediate object map differs from the start only on URIs the elements mention. -/
theorem elemTrace_agree (es : List Elem) : ∀ (o : Objs) (seen : List Uri) (o' : Objs),
    o' ∈ elemTrace (o, seen) es → ∀ v, (∀ e ∈ es, e.uri ≠ v) → Objs.get o' v = Objs.get o v := by
  induction es with
  | nil => intro o seen o' h; simp [elemTrace] at h
  | cons e r ih =>
    intro o seen o' h v hv
    simp only [elemTrace] at h
    cases ha : applyElem (o, seen) e with
    | none => simp [ha] at h
    | some st =>
      obtain ⟨o1, seen1⟩ := st
      simp only [ha] at h
      obtain ⟨_, _, _, hother⟩ := applyElem_some ha
      have h1 : Objs.get o1 v = Objs.get o v :=
        hother v (fun hve => hv e (List.mem_cons_self) hve.symm)
      rcases List.mem_cons.mp h with rfl | h
      · exact h1
      · rw [ih o1 seen1 o' h v (fun x hx => hv x (List.mem_cons_of_mem _ hx)), h1]

/-- The intermediate object maps of one delta file. -/
def deltaTrace (o : Objs) (session : Nat) (e : DeltaEntry) (fs : Files) : List Objs :=
  match fs.fetch e.file with
  | none => []
  | some d =>
    if d.isSnapshot then []
    else if d.session != session || d.serial != e.serial then []
    else elemTrace (o, []) d.elems

theorem applyDelta_fst (o : Objs) (s : Nat) (e : DeltaEntry) (fs : Files) :
    (applyDelta o s e fs).1 = (deltaTrace o s e fs).getLast?.getD o := by
  unfold applyDelta deltaTrace
  cases hf : fs.fetch e.file with
  | none => simp
  | some d =>
    simp only
    by_cases h1 : d.isSnapshot = true
    · simp [h1]
    · by_cases h2 : (d.session != s || d.serial != e.serial) = true
      · simp [h1, h2]
      · simp only [h1, h2, Bool.false_eq_true, if_false]
        have := applyElems_fst d.elems (o, [])
        simp only at this
        split <;> (try split) <;> exact this

/-- The intermediate object maps of the whole delta loop. -/
def runTrace (o : Objs) (session : Nat) (fs : Files) : List DeltaEntry → List Objs
  | [] => []
  | e :: es =>
    deltaTrace o session e fs ++
      (if (applyDelta o session e fs).2 then runTrace (applyDelta o session e fs).1 session fs es
       else [])

theorem runDeltas_fst (s : Nat) (fs : Files) : ∀ (es : List DeltaEntry) (o : Objs),
    (runDeltas o s fs es).1 = (runTrace o s fs es).getLast?.getD o := by
  intro es
  induction es with
  | nil => intro o; simp [runDeltas, runTrace]
  | cons e r ih =>
    intro o
    simp only [runDeltas, runTrace]
    rw [getLast_append_getD, ← applyDelta_fst]
    by_cases h : (applyDelta o s e fs).2 = true
    · simp only [h, if_true]
      exact ih _
    · simp [h]

theorem deltaTrace_agree {o : Objs} {s : Nat} {e : DeltaEntry} {fs : Files} {o' : Objs}
    (h : o' ∈ deltaTrace o s e fs) (v : Uri)
    (hv : ∀ d, fs.fetch e.file = some d → ∀ el ∈ d.elems, el.uri ≠ v) :
    Objs.get o' v = Objs.get o v := by
  unfold deltaTrace at h
  cases hf : fs.fetch e.file with
  | none => simp [hf] at h
  | some d =>
    simp only [hf] at h
    by_cases h1 : d.isSnapshot = true
    · simp [h1] at h
    · by_cases h2 : (d.session != s || d.serial != e.serial) = true
      · simp [h1, h2] at h
      · simp only [h1, h2, Bool.false_eq_true, if_false] at h
        exact elemTrace_agree d.elems o [] o' h v (hv d hf)

/-- **Crash prefixes of the delta loop**: every intermediate object map agrees with the start
outside the URIs the chain touches. -/
theorem runTrace_agree (s : Nat) (fs : Files) : ∀ (es : List DeltaEntry) (o o' : Objs),
    o' ∈ runTrace o s fs es → ∀ v, ¬ TouchedBy fs es v → Objs.get o' v = Objs.get o v := by
  intro es
  induction es with
  | nil => intro o o' h; simp [runTrace] at h
  | cons e r ih =>
    intro o o' h v hv
    simp only [runTrace] at h
    have hve : ∀ d, fs.fetch e.file = some d → ∀ el ∈ d.elems, el.uri ≠ v := by
      intro d hd el hel heq
      exact hv ⟨e, List.mem_cons_self, d, hd, el, hel, heq⟩
    have hvr : ¬ TouchedBy fs r v := by
      rintro ⟨e', he', rest⟩
      exact hv ⟨e', List.mem_cons_of_mem _ he', rest⟩
    rcases List.mem_append.mp h with h | h
    · exact deltaTrace_agree h v hve
    · by_cases hok : (applyDelta o s e fs).2 = true
      · simp only [hok, if_true] at h
        rw [ih _ o' h v hvr, applyDelta_fst]
        -- the last state of this delta's trace (or `o`)
        cases hl : (deltaTrace o s e fs).getLast? with
        | none => simp
        | some x =>
          simp only [Option.getD_some]
          exact deltaTrace_agree (List.mem_of_getLast? hl) v hve
      · simp [hok] at h

/-- A completed delta update of a copy that agrees with the snapshot at its serial outside the
URIs the applied chain touches gives the notified version (generalises `deltaUpdate_clean`). -/
theorem deltaUpdate_dirty {h : History} {cfg : Cfg} (hgap : cfg.gapCheck = true)
    {now draw : Nat} {etag lm : Option Nat} {n : Notif} {fs : Files} {l l' : Local}
    {tr : List Nat} (x : Objs)
    (hx : History.at h l.state.session l.state.serial = some x)
    (hag : ∀ ds, calcDeltas cfg n.serial (effDeltas cfg n) l.state = some ds →
      ∀ u, ¬ TouchedBy fs ds u → Objs.get l.objs u = Objs.get x u)
    (hh : Honest h n fs)
    (hd : deltaUpdate cfg now draw etag lm n fs l = .done l' tr) :
    Clean h l' ∧ l'.state.session = n.session ∧ l'.state.serial = n.serial := by
  obtain ⟨ds, hcalc, hsess, hrun, hst, _⟩ := deltaUpdate_done hd
  obtain ⟨hmem, hchain, hlen⟩ := calcDeltas_some hgap hcalc
  rw [← hsess] at hx
  obtain ⟨x', hx', hsame'⟩ := runDeltas_genuine h n.session fs ds l.objs l.state.serial x l'.objs tr
    hx hchain (fun e he => hh.2 e (mem_effDeltas (hmem e he))) (hag ds hcalc) hrun
  rw [hlen] at hx'
  refine ⟨⟨x', ?_, hsame'⟩, ?_, ?_⟩
  · rw [hst]; exact hx'
  · rw [hst]; rfl
  · rw [hst]; rfl

end RoutinatorModel.Rrdp
