import RoutinatorModel.Model.JsonBuilder
import RoutinatorModel.Proofs.Json
/-! Every well-typed tree of `JsonBuilder` calls renders to a JSON text. -/
namespace RoutinatorModel.Json

theorem isWs_indent (n : Nat) : IsWs (appendIndent n) := by
  induction n with
  | zero => exact IsWs.nil
  | succ n ih => exact IsWs.append (IsWs.of_all (by decide)) ih

theorem isWs_nl : IsWs litNl := IsWs.of_all (by decide)

/-- With the `empty` flag cleared a non-empty call sequence starts with the separator
`,` LF and then continues exactly as with the flag set. -/
theorem render_false (indent : Nat) (cs : Calls) (h : cs ≠ .done) :
    render jsonStr indent false cs = 0x2C :: (litNl ++ render jsonStr indent true cs) := by
  cases cs <;> first | exact absurd rfl h | rfl

/-- A raw value that passes `rawOkB` is written unchanged and is a JSON value. -/
theorem raw_value {v : Text} (h : rawOkB v = true) : jsonStr v = v ∧ J .value v := by
  simp only [rawOkB, Bool.or_eq_true, beq_iff_eq] at h
  rcases h with ((h | h) | h) | h
  · have hn := isNumberB_sound h
    exact ⟨jsonStr_plain (number_plain hn), J.num hn⟩
  · subst h; exact ⟨by decide, J.null⟩
  · subst h; exact ⟨by decide, J.true⟩
  · subst h; exact ⟨by decide, J.false⟩

/-- The value a scope renders to, given what its body renders to. -/
theorem obj_value {body : Calls} {indent : Nat}
    (h : body ≠ .done → J .members (litNl ++ render jsonStr (indent + 1) true body)) :
    J .value (litObjOpen ++ (render jsonStr (indent + 1) true body ++ (litNl ++ (appendIndent indent ++ litObjClose)))) := by
  by_cases hb : body = .done
  · subst hb
    have : IsWs (litNl ++ (litNl ++ appendIndent indent)) :=
      IsWs.append isWs_nl (IsWs.append isWs_nl (isWs_indent indent))
    have := J.objE this
    simpa [litObjOpen, litObjClose, litNl, render, List.append_assoc] using this
  · have := J.obj (J.members_ws (h hb) (IsWs.append isWs_nl (isWs_indent indent)))
    simpa [litObjOpen, litObjClose, litNl, List.append_assoc] using this

theorem arr_value {body : Calls} {indent : Nat}
    (h : body ≠ .done → J .elements (litNl ++ render jsonStr (indent + 1) true body)) :
    J .value (litArrOpen ++ (render jsonStr (indent + 1) true body ++ (litNl ++ (appendIndent indent ++ litArrClose)))) := by
  by_cases hb : body = .done
  · subst hb
    have : IsWs (litNl ++ (litNl ++ appendIndent indent)) :=
      IsWs.append isWs_nl (IsWs.append isWs_nl (isWs_indent indent))
    have := J.arrE this
    simpa [litArrOpen, litArrClose, litNl, render, List.append_assoc] using this
  · have := J.arr (J.elements_ws (h hb) (IsWs.append isWs_nl (isWs_indent indent)))
    simpa [litArrOpen, litArrClose, litNl, List.append_assoc] using this

/-- One member followed by the rest of its scope. -/
theorem members_step {w key v : Text} {indent : Nat} {rest : Calls}
    (hw : IsWs w) (hk : Scalar key) (hv : J .value v)
    (ih : rest ≠ .done → J .members (litNl ++ render jsonStr indent true rest)) :
    J .members (w ++ (appendKey jsonStr indent true key ++ (v ++ render jsonStr indent false rest))) := by
  have hm : ∀ d, IsWs d → J .member (w ++ (appendKey jsonStr indent true key ++ (v ++ d))) := by
    intro d hd
    have := J.member (IsWs.append hw (isWs_indent indent)) (isChars_jsonStr hk) IsWs.nil
      (IsWs.of_all (s := [0x20]) (by decide)) hv hd
    simpa [appendKey, appendArrayHead, litQuote, litKeySep, List.append_assoc] using this
  by_cases hr : rest = .done
  · subst hr
    have := J.mem1 (hm [] IsWs.nil)
    simpa [render] using this
  · rw [render_false indent rest hr]
    have := J.memS (hm [] IsWs.nil) (ih hr)
    simpa [List.append_assoc] using this

/-- One element followed by the rest of its scope. -/
theorem elements_step {w v : Text} {indent : Nat} {rest : Calls}
    (hw : IsWs w) (hv : J .value v)
    (ih : rest ≠ .done → J .elements (litNl ++ render jsonStr indent true rest)) :
    J .elements (w ++ (appendArrayHead true ++ (appendIndent indent ++ (v ++ render jsonStr indent false rest)))) := by
  have hm : J .element (w ++ (appendArrayHead true ++ (appendIndent indent ++ v))) := by
    have := J.element (IsWs.append hw (isWs_indent indent)) hv IsWs.nil
    simpa [appendArrayHead, List.append_assoc] using this
  by_cases hr : rest = .done
  · subst hr
    have := J.el1 hm
    simpa [render, List.append_assoc] using this
  · rw [render_false indent rest hr]
    have := J.elS hm (ih hr)
    simpa [List.append_assoc] using this

theorem str_value {v : Text} (hv : Scalar v) : J .value (litQuote ++ (jsonStr v ++ litQuote)) := by
  have := J.str (isChars_jsonStr hv)
  simpa [litQuote] using this

/-- The scope lemma: a non-empty well-typed object scope renders to `members`, a non-empty
well-typed array scope to `elements`, whatever whitespace precedes it. -/
theorem scope_render (cs : Calls) :
    (cs ≠ .done → wtB .obj cs = true → ∀ indent w, IsWs w → J .members (w ++ render jsonStr indent true cs)) ∧
    (cs ≠ .done → wtB .arr cs = true → ∀ indent w, IsWs w → J .elements (w ++ render jsonStr indent true cs)) := by
  induction cs with
  | done => exact ⟨fun h => absurd rfl h, fun h => absurd rfl h⟩
  | memberObject key body rest ihb ihr =>
    refine ⟨?_, fun _ h => by simp [wtB] at h⟩
    intro _ hwt indent w hw
    simp only [wtB, Bool.and_eq_true] at hwt
    have hv := obj_value (indent := indent) (fun hb => ihb.1 hb hwt.1.2 (indent + 1) litNl isWs_nl)
    have := members_step hw (scalar_of_scalarB hwt.1.1) hv
      (fun hr => ihr.1 hr hwt.2 indent litNl isWs_nl)
    simpa [render, List.append_assoc] using this
  | memberArray key body rest ihb ihr =>
    refine ⟨?_, fun _ h => by simp [wtB] at h⟩
    intro _ hwt indent w hw
    simp only [wtB, Bool.and_eq_true] at hwt
    have hv := arr_value (indent := indent) (fun hb => ihb.2 hb hwt.1.2 (indent + 1) litNl isWs_nl)
    have := members_step hw (scalar_of_scalarB hwt.1.1) hv
      (fun hr => ihr.1 hr hwt.2 indent litNl isWs_nl)
    simpa [render, List.append_assoc] using this
  | memberStr key val rest ihr =>
    refine ⟨?_, fun _ h => by simp [wtB] at h⟩
    intro _ hwt indent w hw
    simp only [wtB, Bool.and_eq_true] at hwt
    have := members_step hw (scalar_of_scalarB hwt.1.1) (str_value (scalar_of_scalarB hwt.1.2))
      (fun hr => ihr.1 hr hwt.2 indent litNl isWs_nl)
    simpa [render, List.append_assoc] using this
  | memberRaw key val rest ihr =>
    refine ⟨?_, fun _ h => by simp [wtB] at h⟩
    intro _ hwt indent w hw
    simp only [wtB, Bool.and_eq_true] at hwt
    have hraw := raw_value hwt.1.2
    have := members_step hw (scalar_of_scalarB hwt.1.1) hraw.2
      (fun hr => ihr.1 hr hwt.2 indent litNl isWs_nl)
    simpa [render, hraw.1, List.append_assoc] using this
  | arrayObject body rest ihb ihr =>
    refine ⟨fun _ h => by simp [wtB] at h, ?_⟩
    intro _ hwt indent w hw
    simp only [wtB, Bool.and_eq_true] at hwt
    have hv := obj_value (indent := indent) (fun hb => ihb.1 hb hwt.1 (indent + 1) litNl isWs_nl)
    have := elements_step hw hv (fun hr => ihr.2 hr hwt.2 indent litNl isWs_nl)
    simpa [render, List.append_assoc] using this
  | arrayArray body rest ihb ihr =>
    refine ⟨fun _ h => by simp [wtB] at h, ?_⟩
    intro _ hwt indent w hw
    simp only [wtB, Bool.and_eq_true] at hwt
    have hv := arr_value (indent := indent) (fun hb => ihb.2 hb hwt.1 (indent + 1) litNl isWs_nl)
    have := elements_step hw hv (fun hr => ihr.2 hr hwt.2 indent litNl isWs_nl)
    simpa [render, List.append_assoc] using this
  | arrayStr val rest ihr =>
    refine ⟨fun _ h => by simp [wtB] at h, ?_⟩
    intro _ hwt indent w hw
    simp only [wtB, Bool.and_eq_true] at hwt
    have := elements_step hw (str_value (scalar_of_scalarB hwt.1))
      (fun hr => ihr.2 hr hwt.2 indent litNl isWs_nl)
    simpa [render, List.append_assoc] using this
  | arrayRaw val rest ihr =>
    refine ⟨fun _ h => by simp [wtB] at h, ?_⟩
    intro _ hwt indent w hw
    simp only [wtB, Bool.and_eq_true] at hwt
    have hraw := raw_value hwt.1
    have := elements_step hw hraw.2 (fun hr => ihr.2 hr hwt.2 indent litNl isWs_nl)
    simpa [render, hraw.1, List.append_assoc] using this

/-- `JsonBuilder::build` with a well-typed object scope yields a JSON value. -/
theorem build_value {body : Calls} (h : wtB .obj body = true) : J .value (build body) := by
  have := obj_value (indent := 0) (fun hb => (scope_render body).1 hb h 1 litNl isWs_nl)
  simpa [build, buildWith, render, appendArrayHead, appendIndent] using this

end RoutinatorModel.Json
