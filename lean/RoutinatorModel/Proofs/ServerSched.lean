import RoutinatorModel.Model.ServerSched
/-! Invariants of the server schedule system (helper lemmas for `Props/C15.lean`). -/
namespace RoutinatorModel.ServerSched

/-! ### The log -/

/-- All serials in the log are at most `k`. -/
def LogLe (log : List (Nat × Nat)) (k : Nat) : Prop := ∀ v ∈ log, v.1 ≤ k

theorem dataAt_cons_ne (log : List (Nat × Nat)) (k d q : Nat) (h : q ≠ k) :
    dataAt ((k, d) :: log) q = dataAt log q := by
  unfold dataAt
  have : ((k, d).1 == q) = false := by simp; omega
  simp [List.find?, this]

theorem dataAt_cons_eq (log : List (Nat × Nat)) (k d : Nat) :
    dataAt ((k, d) :: log) k = some d := by
  simp [dataAt, List.find?]

theorem dataAt_le (log : List (Nat × Nat)) (k q d : Nat) (hl : LogLe log k)
    (h : dataAt log q = some d) : q ≤ k := by
  unfold dataAt at h
  cases hf : log.find? (fun v => v.1 == q) with
  | none => simp [hf] at h
  | some v =>
    have hm := List.mem_of_find?_eq_some hf
    have hp := List.find?_some hf
    have : v.1 = q := by simpa using hp
    have := hl v hm
    omega

/-- Pushing a newer version does not change what older serials denote. -/
theorem dataAt_push (log : List (Nat × Nat)) (k d q x : Nat) (hl : LogLe log k)
    (h : dataAt log q = some x) : dataAt ((k + 1, d) :: log) q = some x := by
  have := dataAt_le log k q x hl h
  rw [dataAt_cons_ne _ _ _ _ (by omega)]
  exact h

/-! ### Retained deltas, oldest first -/

/-- `l` (oldest first) are the deltas to the serials `lo+1 … hi`, each from the data of its
predecessor serial to the data of its own. -/
def AscOk (log : List (Nat × Nat)) : Nat → List Delta → Nat → Prop
  | lo, [], hi => lo = hi
  | lo, d :: rest, hi =>
    d.target = lo + 1 ∧ dataAt log lo = some d.fromD ∧ dataAt log (lo + 1) = some d.toD ∧
    AscOk log (lo + 1) rest hi

theorem ascOk_le (log : List (Nat × Nat)) : ∀ (l : List Delta) (lo hi : Nat),
    AscOk log lo l hi → lo + l.length = hi := by
  intro l
  induction l with
  | nil => intro lo hi h; simpa [AscOk] using h
  | cons d rest ih =>
    intro lo hi h
    have := ih (lo + 1) hi h.2.2.2
    simp only [List.length_cons]
    omega

theorem ascOk_snoc (log : List (Nat × Nat)) : ∀ (l : List Delta) (lo hi : Nat) (d : Delta),
    AscOk log lo l hi → d.target = hi + 1 → dataAt log hi = some d.fromD →
    dataAt log (hi + 1) = some d.toD → AscOk log lo (l ++ [d]) (hi + 1) := by
  intro l
  induction l with
  | nil =>
    intro lo hi d h h1 h2 h3
    have : lo = hi := by simpa [AscOk] using h
    subst this
    exact ⟨h1, h2, h3, rfl⟩
  | cons x rest ih =>
    intro lo hi d h h1 h2 h3
    exact ⟨h.1, h.2.1, h.2.2.1, ih (lo + 1) hi d h.2.2.2 h1 h2 h3⟩

theorem ascOk_tail (log : List (Nat × Nat)) (d : Delta) (rest : List Delta) (lo hi : Nat)
    (h : AscOk log lo (d :: rest) hi) : AscOk log (lo + 1) rest hi := h.2.2.2

theorem ascOk_push (log : List (Nat × Nat)) (k x : Nat) (hl : LogLe log k) :
    ∀ (l : List Delta) (lo hi : Nat), AscOk log lo l hi → AscOk ((k + 1, x) :: log) lo l hi := by
  intro l
  induction l with
  | nil => intro lo hi h; exact h
  | cons d rest ih =>
    intro lo hi h
    exact ⟨h.1, dataAt_push log k x lo _ hl h.2.1, dataAt_push log k x (lo + 1) _ hl h.2.2.1,
      ih (lo + 1) hi h.2.2.2⟩

/-- The last delta of a non-empty run ends at the data of `hi`. -/
theorem ascOk_last (log : List (Nat × Nat)) : ∀ (l : List Delta) (lo hi : Nat) (d : Delta),
    AscOk log lo (d :: l) hi → dataAt log hi = some ((lastD d l).toD) := by
  intro l
  induction l with
  | nil =>
    intro lo hi d h
    have : lo + 1 = hi := by simpa [AscOk] using h.2.2.2
    subst this
    simpa [lastD] using h.2.2.1
  | cons x rest ih =>
    intro lo hi d h
    simpa [lastD] using ih (lo + 1) hi x h.2.2.2

/-- The newest delta of a non-empty run. -/
theorem ascOk_newest (log : List (Nat × Nat)) (d : Delta) : ∀ (l : List Delta) (lo hi : Nat),
    AscOk log lo (l ++ [d]) hi →
      d.target = hi ∧ dataAt log (hi - 1) = some d.fromD ∧ dataAt log hi = some d.toD := by
  intro l
  induction l with
  | nil =>
    intro lo hi hh
    obtain ⟨h1, h2, h3, h4⟩ := hh
    have : lo + 1 = hi := by simpa [AscOk] using h4
    subst this
    exact ⟨h1, by simpa using h2, h3⟩
  | cons x xs ih => intro lo hi hh; exact ih (lo + 1) hi hh.2.2.2

/-- What the scan of `delta_since` does on a well-formed run. -/
theorem skipTo_asc (log : List (Nat × Nat)) (c : Nat) : ∀ (l : List Delta) (lo hi : Nat),
    AscOk log lo l hi →
      (c ≤ lo → l ≠ [] → skipTo c l = none) ∧
      (lo < c → c ≤ hi → ∃ rest, skipTo c l = some rest ∧ AscOk log c rest hi) := by
  intro l
  induction l with
  | nil =>
    intro lo hi h
    have : lo = hi := by simpa [AscOk] using h
    subst this
    exact ⟨fun _ hne => absurd rfl hne, fun h1 h2 => by omega⟩
  | cons d rest ih =>
    intro lo hi h
    obtain ⟨ht, _, _, hrest⟩ := h
    have ihr := ih (lo + 1) hi hrest
    constructor
    · intro hc _
      simp only [skipTo]
      rw [if_pos (by omega)]
    · intro hlo hhi
      simp only [skipTo]
      rw [if_neg (by omega)]
      by_cases heq : d.target = c
      · rw [if_pos heq]
        have : lo + 1 = c := by omega
        subst this
        exact ⟨rest, rfl, hrest⟩
      · rw [if_neg heq]
        exact ihr.2 (by omega) hhi

/-- The deltas `delta_since` merges: all of them if the client has the version the oldest one was
made from, otherwise what the scan leaves. On a well-formed run and for a client more than one
version behind, the selection (if any) is the non-empty run from the client's serial. -/
theorem select_ok (log : List (Nat × Nat)) (c : Nat) (l : List Delta) (lo hi : Nat)
    (h : AscOk log lo l hi) (hne : l ≠ []) (hc : c + 1 < hi) (r : List Delta)
    (hr : (if (l.head?.map (·.target)) == some (c + 1) then some l else skipTo c l) = some r) :
    ∃ x xs, r = x :: xs ∧ AscOk log c (x :: xs) hi := by
  have nonempty : ∀ (rest : List Delta), AscOk log c rest hi → ∃ x xs, rest = x :: xs := by
    intro rest hra
    cases rest with
    | nil => have : c = hi := by simpa [AscOk] using hra
             omega
    | cons x xs => exact ⟨x, xs, rfl⟩
  split at hr
  · rename_i hcond
    simp only [Option.some.injEq] at hr
    subst hr
    cases l with
    | nil => simp at hcond
    | cons x xs =>
      have hx : x.target = c + 1 := by simpa using hcond
      have : lo = c := by have := h.1; omega
      subst this
      exact ⟨x, xs, rfl, h⟩
  · have hsk := skipTo_asc log c l lo hi h
    by_cases hlo : c ≤ lo
    · cases l with
      | nil => exact absurd rfl hne
      | cons x xs =>
        rw [hsk.1 hlo (by simp)] at hr
        simp at hr
    · obtain ⟨rest, hrest, hra⟩ := hsk.2 (by omega) (by omega)
      rw [hrest] at hr
      simp only [Option.some.injEq] at hr
      subst hr
      obtain ⟨x, xs, rfl⟩ := nonempty rest hra
      exact ⟨x, xs, rfl, hra⟩

/-! ### The state invariant -/

structure WF (s : State) : Prop where
  inactive : s.active = false → s.log = [] ∧ s.deltas = [] ∧ s.serial = 0
  head : s.active = true → s.log.head? = some (s.serial, s.cur)
  le : LogLe s.log s.serial
  asc : AscOk s.log (s.serial - s.deltas.length) s.deltas.reverse s.serial
  len : s.deltas.length ≤ s.serial
  nonempty : s.deltas = [] → s.serial = 0

theorem dataAt_head (log : List (Nat × Nat)) (k d : Nat) (h : log.head? = some (k, d)) :
    dataAt log k = some d := by
  cases log with
  | nil => simp at h
  | cons v rest =>
    simp only [List.head?_cons, Option.some.injEq] at h
    subst h
    exact dataAt_cons_eq rest k d

theorem wf_init (keep : Nat) : WF (init keep) := by
  refine ⟨fun _ => ⟨rfl, rfl, rfl⟩, fun h => by simp [init] at h, ?_, ?_, ?_, fun _ => rfl⟩
  · intro v hv; simp [init] at hv
  · simp [init, AscOk]
  · simp [init]

theorem dropLast_reverse_tail (l : List Delta) : l.dropLast.reverse = l.reverse.tail :=
  List.tail_reverse.symm

theorem wf_install (s : State) (d : Nat) (h : WF s) (ha : s.active = true) (hd : ¬ d = s.cur) :
    WF { s with upc := .mark, serial := s.serial + 1, cur := d,
                deltas := pushDelta s.keep s.deltas ⟨s.serial + 1, s.cur, d⟩,
                log := (s.serial + 1, d) :: s.log } := by
  have hcur : dataAt s.log s.serial = some s.cur := dataAt_head _ _ _ (h.head ha)
  -- the retained run, re-read against the extended log, extended by the new delta
  have hpush := ascOk_push s.log s.serial d h.le _ _ _ h.asc
  have hsnoc := ascOk_snoc ((s.serial + 1, d) :: s.log) _ _ _ ⟨s.serial + 1, s.cur, d⟩ hpush rfl
    (dataAt_push s.log s.serial d s.serial s.cur h.le hcur) (dataAt_cons_eq s.log (s.serial + 1) d)
  refine ⟨fun hf => by simp [ha] at hf, fun _ => rfl, ?_, ?_, ?_, fun hf => by simp [pushDelta] at hf⟩
  · intro v hv
    simp only [List.mem_cons] at hv
    rcases hv with rfl | hv
    · exact Nat.le_refl _
    · exact Nat.le_succ_of_le (h.le v hv)
  · simp only [pushDelta]
    split
    · -- the oldest delta is dropped
      rename_i hk
      simp only [List.reverse_cons, List.length_cons, List.length_dropLast]
      rw [dropLast_reverse_tail]
      cases hrev : s.deltas.reverse with
      | nil =>
        -- impossible: at least `max keep 1 ≥ 1` deltas are retained when one is dropped
        have : s.deltas = [] := by simpa using hrev
        rw [this] at hk
        have : 1 ≤ max s.keep 1 := Nat.le_max_right _ _
        simp only [List.length_nil] at hk
        omega
      | cons x xs =>
        rw [hrev] at hsnoc
        have hlen : s.deltas.length = xs.length + 1 := by
          have := congrArg List.length hrev
          simpa using this
        have hle := h.len
        have := ascOk_tail _ x (xs ++ [⟨s.serial + 1, s.cur, d⟩]) _ _ hsnoc
        simp only [List.tail_cons]
        have he : s.serial + 1 - (s.deltas.length - 1 + 1) = s.serial - s.deltas.length + 1 := by
          omega
        rw [he]
        exact this
    · simp only [List.reverse_cons, List.length_cons]
      have hle := h.len
      have he : s.serial + 1 - (s.deltas.length + 1) = s.serial - s.deltas.length := by omega
      rw [he]
      exact hsnoc
  · simp only [pushDelta]
    have := h.len
    split <;> simp <;> omega

theorem wf_step (s s' : State) (l : Label) (h : WF s) (hs : step s l = some s') : WF s' := by
  cases l with
  | req k =>
    simp only [step, Option.some.injEq] at hs; subst hs
    exact ⟨h.inactive, h.head, h.le, h.asc, h.len, h.nonempty⟩
  | u d =>
    simp only [step, stepU] at hs
    split at hs
    · simp only [Option.some.injEq] at hs; subst hs
      exact ⟨h.inactive, h.head, h.le, h.asc, h.len, h.nonempty⟩
    · simp only [Option.some.injEq] at hs; subst hs
      exact ⟨h.inactive, h.head, h.le, h.asc, h.len, h.nonempty⟩
    · simp only [Option.some.injEq] at hs; subst hs
      exact ⟨h.inactive, h.head, h.le, h.asc, h.len, h.nonempty⟩
    · split at hs
      · -- first install
        rename_i hna
        have hna : s.active = false := by simpa using hna
        obtain ⟨hl, hd, hz⟩ := h.inactive hna
        simp only [Option.some.injEq] at hs; subst hs
        refine ⟨fun hf => by simp at hf, fun _ => rfl, ?_, ?_, ?_, fun _ => hz⟩
        · intro v hv; simp at hv; subst hv; exact Nat.le_refl _
        · simp [hd, AscOk]
        · simp [hd]
      · split at hs
        · simp only [Option.some.injEq] at hs; subst hs
          exact ⟨h.inactive, h.head, h.le, h.asc, h.len, h.nonempty⟩
        · rename_i hact hne
          simp only [Option.some.injEq] at hs; subst hs
          exact wf_install s d h (by simpa using hact) hne
    · simp only [Option.some.injEq] at hs; subst hs
      exact ⟨h.inactive, h.head, h.le, h.asc, h.len, h.nonempty⟩
    · simp only [Option.some.injEq] at hs; subst hs
      exact ⟨h.inactive, h.head, h.le, h.asc, h.len, h.nonempty⟩

/-! ### `delta_since` on a well-formed state -/

theorem deltaSince_ok (s : State) (c : Nat) (h : WF s) (ha : s.active = true) :
    (∀ f t, deltaSince s c = some (some (f, t)) →
      dataAt s.log c = some f ∧ t = s.cur ∧ c < s.serial) ∧
    (deltaSince s c = some none → c = s.serial) := by
  have hcur : dataAt s.log s.serial = some s.cur := dataAt_head _ _ _ (h.head ha)
  cases hd : s.deltas with
  | nil =>
    have hz := h.nonempty hd
    simp only [deltaSince, hd]
    constructor
    · intro f t hh; split at hh <;> simp at hh
    · intro hh; split at hh
      · omega
      · simp at hh
  | cons d rest =>
    have hasc := h.asc
    have hlen := h.len
    rw [hd] at hasc hlen
    simp only [List.length_cons] at hasc hlen
    have hnew := ascOk_newest s.log d rest.reverse _ _ (by simpa using hasc)
    obtain ⟨ht, hfrom, hto⟩ := hnew
    have htoc : d.toD = s.cur := by rw [hcur] at hto; injection hto with h'; exact h'.symm
    have hsel := select_ok s.log c (d :: rest).reverse _ _ hasc (by simp)
    have hhead : (d :: rest).reverse.head? = (d :: rest).getLast? := List.head?_reverse
    simp only [deltaSince, hd]
    rw [← hhead]
    constructor
    · intro f t hh
      split at hh
      · simp at hh
      · split at hh
        · simp at hh
        · split at hh
          · simp only [Option.some.injEq, Prod.mk.injEq] at hh
            obtain ⟨hf, htt⟩ := hh
            subst hf; subst htt
            have : s.serial - 1 = c := by omega
            rw [this] at hfrom
            exact ⟨hfrom, htoc, by omega⟩
          · split at hh
            · simp at hh
            · rename_i r hr
              obtain ⟨x, xs, rfl, hra⟩ := hsel (by omega) r hr
              simp only [mergeRun, Option.some.injEq, Prod.mk.injEq] at hh
              obtain ⟨hf, htt⟩ := hh
              subst hf; subst htt
              have hlast := ascOk_last s.log xs c s.serial x hra
              rw [hcur] at hlast
              injection hlast with hl'
              exact ⟨hra.2.1, hl'.symm, by omega⟩
    · intro hh
      split at hh
      · simp at hh
      · split at hh
        · omega
        · split at hh
          · simp at hh
          · split at hh
            · simp at hh
            · rename_i r hr
              obtain ⟨x, xs, rfl, _⟩ := hsel (by omega) r hr
              simp [mergeRun] at hh

end RoutinatorModel.ServerSched
