import RoutinatorModel.Model.Binio
/-! Lemmas about the primitive codecs (C28 round trips, C27 allocation bounds). -/
namespace RoutinatorModel.Codec

/-! ## Monad plumbing -/

theorem bind_res {α β : Type} (m : Dec α) (f : α → Dec β) (s : Bytes) :
    ((m >>= f) s).res =
      match (m s).res with
      | .error e => .error e
      | .ok (a, s') => (f a s').res := by
  show (Dec.bind m f s).res = _
  unfold Dec.bind
  rcases h : m s with ⟨r, al⟩
  rcases r with e | ⟨a, s'⟩ <;> simp

theorem bind_allocs {α β : Type} (m : Dec α) (f : α → Dec β) (s : Bytes) :
    ((m >>= f) s).allocs =
      (m s).allocs ++
      match (m s).res with
      | .error _ => []
      | .ok (a, s') => (f a s').allocs := by
  show (Dec.bind m f s).allocs = _
  unfold Dec.bind
  rcases h : m s with ⟨r, al⟩
  rcases r with e | ⟨a, s'⟩ <;> simp

theorem bind_res_ok {α β : Type} {m : Dec α} {f : α → Dec β} {s s' : Bytes} {a : α}
    (h : (m s).res = .ok (a, s')) : ((m >>= f) s).res = (f a s').res := by
  rw [bind_res, h]

theorem bind_res_err {α β : Type} {m : Dec α} {f : α → Dec β} {s : Bytes} {e : DErr}
    (h : (m s).res = .error e) : ((m >>= f) s).res = .error e := by
  rw [bind_res, h]

@[simp] theorem pure_res {α : Type} (a : α) (s : Bytes) : ((pure a : Dec α) s).res = .ok (a, s) := rfl
@[simp] theorem pure_allocs {α : Type} (a : α) (s : Bytes) : ((pure a : Dec α) s).allocs = [] := rfl
@[simp] theorem fail_res {α : Type} (e : DErr) (s : Bytes) : ((fail e : Dec α) s).res = .error e := rfl
@[simp] theorem fail_allocs {α : Type} (e : DErr) (s : Bytes) : ((fail e : Dec α) s).allocs = [] := rfl
@[simp] theorem alloc_res (n : Nat) (s : Bytes) : (alloc n s).res = .ok ((), s) := rfl
@[simp] theorem alloc_allocs (n : Nat) (s : Bytes) : (alloc n s).allocs = [n] := rfl

/-! ## Big-endian integers -/

theorem beBytes_length (k n : Nat) : (beBytes k n).length = k := by
  induction k with
  | zero => rfl
  | succ k ih => simp [beBytes, ih]

theorem foldl_beBytes (k n acc : Nat) :
    (beBytes k n).foldl (fun acc b => acc * 256 + b.toNat) acc = acc * 256 ^ k + n % 256 ^ k := by
  induction k generalizing acc with
  | zero => simp [beBytes, Nat.mod_one]
  | succ k ih =>
    simp only [beBytes, List.foldl_cons, ih, UInt8.toNat_ofNat']
    rw [Nat.mod_pow_succ (x := n) (b := 256) (k := k)]
    have h256 : (2 : Nat) ^ 8 = 256 := by decide
    rw [h256, Nat.add_mul, Nat.pow_succ, Nat.mul_assoc, Nat.mul_comm 256 (256 ^ k),
      Nat.mul_comm (n / 256 ^ k % 256) (256 ^ k)]
    omega

theorem beVal_beBytes (k n : Nat) : beVal (beBytes k n) = n % 256 ^ k := by
  simp [beVal, foldl_beBytes]

theorem beVal_beBytes_of_lt {k n : Nat} (h : n < 256 ^ k) : beVal (beBytes k n) = n := by
  rw [beVal_beBytes, Nat.mod_eq_of_lt h]

theorem u64ToI64_i64ToU64 {i : Int} (h : inI64 i = true) : u64ToI64 (i64ToU64 i) = i := by
  simp only [inI64, Bool.and_eq_true, decide_eq_true_eq] at h
  unfold u64ToI64 i64ToU64
  have hpos : (0 : Int) ≤ i % 2 ^ 64 := Int.emod_nonneg _ (by decide)
  have hcast : ((i % 2 ^ 64).toNat : Int) = i % 2 ^ 64 := Int.toNat_of_nonneg hpos
  by_cases hi : 0 ≤ i
  · have hm : i % 2 ^ 64 = i := Int.emod_eq_of_lt hi (by omega)
    have : (i % 2 ^ 64).toNat < 2 ^ 63 := by omega
    rw [if_pos this, hcast, hm]
  · have hm : i % 2 ^ 64 = i + 2 ^ 64 := by
      have : (i + 2 ^ 64) % 2 ^ 64 = i + 2 ^ 64 := Int.emod_eq_of_lt (by omega) (by omega)
      rw [← this, Int.add_emod_right]
    have : ¬ (i % 2 ^ 64).toNat < 2 ^ 63 := by omega
    rw [if_neg this, hcast, hm]
    omega

theorem i64ToU64_lt (i : Int) : i64ToU64 i < 256 ^ 8 := by
  unfold i64ToU64
  have hpos : (0 : Int) ≤ i % 2 ^ 64 := Int.emod_nonneg _ (by decide)
  have hlt : i % 2 ^ 64 < 2 ^ 64 := Int.emod_lt_of_pos _ (by decide)
  have : (256 : Nat) ^ 8 = 2 ^ 64 := by decide
  omega

/-! ## Reading -/

theorem readExact_append (a rest : Bytes) :
    readExact a.length (a ++ rest) = ⟨.ok (a, rest), []⟩ := by
  unfold readExact
  simp

theorem readExact_append' {n : Nat} (a rest : Bytes) (h : a.length = n) :
    readExact n (a ++ rest) = ⟨.ok (a, rest), []⟩ := by
  subst h; exact readExact_append a rest

theorem readExact_allocs (n : Nat) (s : Bytes) : (readExact n s).allocs = [] := by
  unfold readExact; split <;> rfl

theorem readExact_ok_length {n : Nat} {s a s' : Bytes} (h : (readExact n s).res = .ok (a, s')) :
    s'.length ≤ s.length ∧ a.length = n ∧ s = a ++ s' := by
  unfold readExact at h
  split at h
  · simp only [Except.ok.injEq, Prod.mk.injEq] at h
    obtain ⟨rfl, rfl⟩ := h
    simp [List.length_take]
    omega
  · cases h

theorem readBE_enc {k n : Nat} (h : n < 256 ^ k) (rest : Bytes) :
    (readBE k (beBytes k n ++ rest)).res = .ok (n, rest) := by
  unfold readBE
  rw [bind_res, readExact_append' _ _ (beBytes_length k n)]
  simp [beVal_beBytes_of_lt h]

theorem readBE_allocs (k : Nat) (s : Bytes) : (readBE k s).allocs = [] := by
  unfold readBE
  rw [bind_allocs, readExact_allocs]
  cases (readExact k s).res with
  | error e => rfl
  | ok p => rfl

theorem readBE_ok_length {k n : Nat} {s s' : Bytes} (h : (readBE k s).res = .ok (n, s')) :
    s'.length + k ≤ s.length := by
  unfold readBE at h
  rw [bind_res] at h
  cases h1 : (readExact k s).res with
  | error e => rw [h1] at h; cases h
  | ok p =>
    obtain ⟨a, s''⟩ := p
    rw [h1] at h
    simp only [pure_res, Except.ok.injEq, Prod.mk.injEq] at h
    obtain ⟨_, rfl⟩ := h
    have := readExact_ok_length h1
    obtain ⟨_, h2, h3⟩ := this
    rw [h3, List.length_append]; omega

theorem readI64_enc {i : Int} (h : inI64 i = true) (rest : Bytes) :
    (readI64 (beBytes 8 (i64ToU64 i) ++ rest)).res = .ok (i, rest) := by
  unfold readI64
  rw [bind_res_ok (readBE_enc (i64ToU64_lt i) rest)]
  simp [u64ToI64_i64ToU64 h]

theorem readI64_allocs (s : Bytes) : (readI64 s).allocs = [] := by
  unfold readI64
  rw [bind_allocs, readBE_allocs]
  cases (readBE 8 s).res with
  | error e => rfl
  | ok p => rfl

theorem readI64_ok_length {i : Int} {s s' : Bytes} (h : (readI64 s).res = .ok (i, s')) :
    s'.length + 8 ≤ s.length := by
  unfold readI64 at h
  rw [bind_res] at h
  cases h1 : (readBE 8 s).res with
  | error e => rw [h1] at h; cases h
  | ok p =>
    obtain ⟨a, s''⟩ := p
    rw [h1] at h
    simp only [pure_res, Except.ok.injEq, Prod.mk.injEq] at h
    obtain ⟨_, rfl⟩ := h
    exact readBE_ok_length h1

theorem readVec_append (P : Params) (a rest : Bytes) :
    (readVec P a.length (a ++ rest)).res = .ok (a, rest) := by
  unfold readVec
  simp [readExact_append]

theorem readVec_res (P : Params) (n : Nat) (s : Bytes) : (readVec P n s).res = (readExact n s).res := rfl


/-! ## Field round trips (C28) -/

structure ParamsOk (P : Params) : Prop where
  i64None : P.optI64NoneW = P.optI64NoneR
  i64Some : P.optI64SomeW = P.optI64SomeR
  i64Ne : P.optI64NoneR ≠ P.optI64SomeR
  i64NoneLt : P.optI64NoneW < 256
  i64SomeLt : P.optI64SomeW < 256
  https : P.optHttpsNoneW = P.optHttpsNoneR
  httpsLt : P.optHttpsNoneW < 2 ^ 32
  bytes : P.optBytesNoneW = P.optBytesNoneR
  bytesLt : P.optBytesNoneW < 2 ^ 64
  time : P.optTimeNoneW = P.optTimeNoneR
  timeIn : inI64 P.optTimeNoneW = true
  stS : P.stSuccessW = P.stSuccessR
  stA : P.stAttemptW = P.stAttemptR
  stNe : P.stSuccessR ≠ P.stAttemptR
  stSLt : P.stSuccessW < 256
  stALt : P.stAttemptW < 256
  ohN : P.objHashNoneW = P.objHashNoneR
  ohS : P.objHashSomeW = P.objHashSomeR
  ohNe : P.objHashNoneR ≠ P.objHashSomeR
  ohNLt : P.objHashNoneW < 256
  ohSLt : P.objHashSomeW < 256
  loopAll : P.mapLoopCap = none

theorem paramsOk_iff (P : Params) : paramsOk P = true ↔ ParamsOk P := by
  constructor
  · intro h
    simp only [paramsOk, Bool.and_eq_true, decide_eq_true_eq] at h
    obtain ⟨⟨⟨⟨⟨⟨⟨⟨⟨⟨⟨⟨⟨⟨⟨⟨⟨⟨⟨⟨⟨h1, h2⟩, h3⟩, h4⟩, h5⟩, h6⟩, h7⟩, h8⟩, h9⟩, h10⟩, h11⟩, h12⟩, h13⟩, h14⟩,
      h15⟩, h16⟩, h17⟩, h18⟩, h19⟩, h20⟩, h21⟩, h22⟩ := h
    exact ⟨h1, h2, h3, h4, h5, h6, h7, h8, h9, h10, h11, h12, h13, h14, h15, h16, h17, h18, h19, h20, h21,
      Option.isNone_iff_eq_none.mp h22⟩
  · intro h
    simp only [paramsOk, Bool.and_eq_true, decide_eq_true_eq]
    exact ⟨⟨⟨⟨⟨⟨⟨⟨⟨⟨⟨⟨⟨⟨⟨⟨⟨⟨⟨⟨⟨h.i64None, h.i64Some⟩, h.i64Ne⟩, h.i64NoneLt⟩, h.i64SomeLt⟩, h.https⟩,
      h.httpsLt⟩, h.bytes⟩, h.bytesLt⟩, h.time⟩, h.timeIn⟩, h.stS⟩, h.stA⟩, h.stNe⟩, h.stSLt⟩, h.stALt⟩,
      h.ohN⟩, h.ohS⟩, h.ohNe⟩, h.ohNLt⟩, h.ohSLt⟩, Option.isNone_iff_eq_none.mpr h.loopAll⟩

theorem pow_256_1 : (256 : Nat) ^ 1 = 2 ^ 8 := by decide
theorem pow_256_4 : (256 : Nat) ^ 4 = 2 ^ 32 := by decide
theorem pow_256_8 : (256 : Nat) ^ 8 = 2 ^ 64 := by decide

theorem tag_roundtrip {t : Nat} (h : t < 256) (rest : Bytes) :
    (readBE 1 (UInt8.ofNat t :: rest)).res = .ok (t, rest) := by
  have := readBE_enc (k := 1) (n := t) (by simpa using h) rest
  simpa [beBytes] using this

theorem decTime_enc {secs : Int} (hv : timeValid secs = true) (hi : inI64 secs = true) (rest : Bytes) :
    (decTime (beBytes 8 (i64ToU64 secs) ++ rest)).res = .ok ((secs, 0), rest) := by
  unfold decTime
  rw [bind_res_ok (readI64_enc hi rest)]
  simp [hv]

theorem timeValid_inI64 {secs : Int} (h : timeValid secs = true) : inI64 secs = true := by
  unfold timeValid tsMin tsMax at h
  rw [Bool.and_eq_true] at h
  have h1 := of_decide_eq_true h.1
  have h2 := of_decide_eq_true h.2
  unfold inI64
  rw [Bool.and_eq_true]
  exact ⟨decide_eq_true (by omega), decide_eq_true (by omega)⟩

theorem decUri_append (P : Params) (valid : Bytes → Bool) (u rest : Bytes) (h : valid u = true) :
    (decUri P valid u.length (u ++ rest)).res = .ok (u, rest) := by
  unfold decUri
  rw [bind_res_ok (readVec_append P u rest)]
  simp [h]

/-- Encoded pairs of the map, decoded by the loop with an accumulator of already seen keys. -/
theorem decMapLoop_enc (l : List (Nat × Bytes)) (acc : List (Nat × Bytes)) (rest : Bytes)
    (hwf : wfPairs l = true) (hdis : ∀ e ∈ l, acc.any (fun a => a.1 == e.1) = false) :
    ∃ bs, encPairs l = some bs ∧
      (decMapLoop l.length acc (bs ++ rest)).res = .ok (acc.reverse ++ l, rest) := by
  induction l generalizing acc with
  | nil => exact ⟨[], rfl, by simp [decMapLoop]⟩
  | cons e l ih =>
    obtain ⟨k, h⟩ := e
    simp only [wfPairs, Bool.and_eq_true, decide_eq_true_eq, Bool.not_eq_true', beq_iff_eq] at hwf
    obtain ⟨⟨⟨hk, hh⟩, hnot⟩, hrest⟩ := hwf
    have hdis' : ∀ e ∈ l, ((k, h) :: acc).any (fun a => a.1 == e.1) = false := by
      intro e he
      have h1 := hdis e (List.mem_cons_of_mem _ he)
      simp only [List.any_cons, Bool.or_eq_false_iff]
      refine ⟨?_, h1⟩
      have : l.any (fun e => e.1 == k) = false := hnot
      rw [List.any_eq_false] at this
      have h2 := this e he
      simp only [beq_iff_eq] at h2
      exact beq_eq_false_iff_ne.mpr (fun hc => h2 (Eq.symm hc))
    obtain ⟨bs, hbs, hdec⟩ := ih ((k, h) :: acc) hrest hdis'
    refine ⟨beBytes 8 k ++ h ++ bs, ?_, ?_⟩
    · simp [encPairs, encLen, pow_256_8, hk, hbs]
    · have hk' : k < 256 ^ 8 := by rw [pow_256_8]; exact hk
      have hfirst := hdis (k, h) (List.mem_cons_self)
      simp only [List.length_cons, decMapLoop]
      rw [List.append_assoc, List.append_assoc, bind_res_ok (readBE_enc hk' _),
        bind_res_ok (by rw [readExact_append' h _ hh])]
      simp only at hfirst
      rw [hfirst]
      simp only [Bool.false_eq_true, ↓reduceIte]
      rw [hdec]
      simp

theorem field_roundtrip (P : Params) (hP : paramsOk P = true) (ty : FT) (v : Val)
    (h : wfv P ty v = true) :
    ∃ bs, enc P ty v = some bs ∧ ∀ rest, (dec P ty (bs ++ rest)).res = .ok (v, rest) := by
  have ok := (paramsOk_iff P).mp hP
  cases ty <;> cases v <;> simp only [wfv, Bool.false_eq_true] at h
  -- u8
  case u8.n v =>
    simp only [decide_eq_true_eq] at h
    refine ⟨beBytes 1 v, by simp [enc, encLen, pow_256_1, h], fun rest => ?_⟩
    simp only [dec]
    rw [bind_res_ok (readBE_enc (by rw [pow_256_1]; exact h) rest)]; rfl
  case u32.n v =>
    simp only [decide_eq_true_eq] at h
    refine ⟨beBytes 4 v, by simp [enc, encLen, pow_256_4, h], fun rest => ?_⟩
    simp only [dec]
    rw [bind_res_ok (readBE_enc (by rw [pow_256_4]; exact h) rest)]; rfl
  case u64.n v =>
    simp only [decide_eq_true_eq] at h
    refine ⟨beBytes 8 v, by simp [enc, encLen, pow_256_8, h], fun rest => ?_⟩
    simp only [dec]
    rw [bind_res_ok (readBE_enc (by rw [pow_256_8]; exact h) rest)]; rfl
  case i64.i v =>
    refine ⟨beBytes 8 (i64ToU64 v), by simp [enc, encI64, h], fun rest => ?_⟩
    simp only [dec]
    rw [bind_res_ok (readI64_enc h rest)]; rfl
  case optI64.oi o =>
    cases o with
    | none =>
      refine ⟨[UInt8.ofNat P.optI64NoneW], by simp [enc, encTag, ok.i64NoneLt], fun rest => ?_⟩
      simp only [dec, List.cons_append, List.nil_append]
      rw [bind_res_ok (tag_roundtrip ok.i64NoneLt rest)]
      simp [ok.i64None]
    | some i =>
      simp only [wfv] at h
      refine ⟨UInt8.ofNat P.optI64SomeW :: beBytes 8 (i64ToU64 i),
        by simp [enc, encTag, encI64, ok.i64SomeLt, h], fun rest => ?_⟩
      simp only [dec, List.cons_append]
      rw [bind_res_ok (tag_roundtrip ok.i64SomeLt _)]
      have hne : P.optI64SomeR ≠ P.optI64NoneR := fun hc => ok.i64Ne (Eq.symm hc)
      simp only [ok.i64Some, hne, ↓reduceIte]
      rw [bind_res_ok (readI64_enc h rest)]; rfl
  case rsync.b u =>
    simp only [Bool.and_eq_true, decide_eq_true_eq] at h
    refine ⟨beBytes 4 u.length ++ u, by simp [enc, encLen, pow_256_4, h.1], fun rest => ?_⟩
    simp only [dec]
    rw [List.append_assoc, bind_res_ok (readBE_enc (by rw [pow_256_4]; exact h.1) _),
      bind_res_ok (decUri_append P validRsync u rest h.2)]; rfl
  case https.b u =>
    simp only [Bool.and_eq_true, decide_eq_true_eq] at h
    refine ⟨beBytes 4 u.length ++ u, by simp [enc, encLen, pow_256_4, h.1], fun rest => ?_⟩
    simp only [dec]
    rw [List.append_assoc, bind_res_ok (readBE_enc (by rw [pow_256_4]; exact h.1) _),
      bind_res_ok (decUri_append P validHttps u rest h.2)]; rfl
  case optHttps.ob o =>
    cases o with
    | none =>
      refine ⟨beBytes 4 P.optHttpsNoneW, by simp [enc, encLen, pow_256_4, ok.httpsLt], fun rest => ?_⟩
      simp only [dec]
      rw [bind_res_ok (readBE_enc (by rw [pow_256_4]; exact ok.httpsLt) rest)]
      simp [ok.https]
    | some u =>
      simp only [wfv, Bool.and_eq_true, decide_eq_true_eq] at h
      obtain ⟨⟨h1, h2⟩, h3⟩ := h
      refine ⟨beBytes 4 u.length ++ u, by simp [enc, encLen, pow_256_4, h1], fun rest => ?_⟩
      simp only [dec]
      rw [List.append_assoc, bind_res_ok (readBE_enc (by rw [pow_256_4]; exact h1) _)]
      simp only [h3, ↓reduceIte]
      rw [bind_res_ok (decUri_append P validHttps u rest h2)]; rfl
  case bytes.b d =>
    simp only [decide_eq_true_eq] at h
    refine ⟨beBytes 8 d.length ++ d, by simp [enc, encLen, pow_256_8, h], fun rest => ?_⟩
    simp only [dec]
    rw [List.append_assoc, bind_res_ok (readBE_enc (by rw [pow_256_8]; exact h) _),
      bind_res_ok (readVec_append P d rest)]; rfl
  case optBytes.ob o =>
    cases o with
    | none =>
      refine ⟨beBytes 8 P.optBytesNoneW, by simp [enc, encLen, pow_256_8, ok.bytesLt], fun rest => ?_⟩
      simp only [dec]
      rw [bind_res_ok (readBE_enc (by rw [pow_256_8]; exact ok.bytesLt) rest)]
      simp [ok.bytes]
    | some d =>
      simp only [wfv, Bool.and_eq_true, decide_eq_true_eq] at h
      obtain ⟨h1, h3⟩ := h
      refine ⟨beBytes 8 d.length ++ d, by simp [enc, encLen, pow_256_8, h1], fun rest => ?_⟩
      simp only [dec]
      rw [List.append_assoc, bind_res_ok (readBE_enc (by rw [pow_256_8]; exact h1) _)]
      simp only [h3, ↓reduceIte]
      rw [bind_res_ok (readVec_append P d rest)]; rfl
  case uuid.b d =>
    simp only [beq_iff_eq] at h
    refine ⟨d, rfl, fun rest => ?_⟩
    simp only [dec]
    rw [bind_res_ok (by rw [readExact_append' d rest h])]; rfl
  case hash.b d =>
    simp only [beq_iff_eq] at h
    refine ⟨d, rfl, fun rest => ?_⟩
    simp only [dec]
    rw [bind_res_ok (by rw [readExact_append' d rest h])]; rfl
  case serial.b d =>
    simp only [Bool.and_eq_true, beq_iff_eq, decide_eq_true_eq] at h
    refine ⟨d, rfl, fun rest => ?_⟩
    simp only [dec]
    rw [bind_res_ok (by rw [readExact_append' d rest h.1]), if_pos h.2]; rfl
  case time.t secs nanos =>
    simp only [Bool.and_eq_true, beq_iff_eq] at h
    obtain ⟨hv, rfl⟩ := h
    have hi := timeValid_inI64 hv
    refine ⟨beBytes 8 (i64ToU64 secs), by simp [enc, encI64, hi], fun rest => ?_⟩
    simp only [dec]
    rw [bind_res_ok (decTime_enc hv hi rest)]; rfl
  case optTime.ot o =>
    cases o with
    | none =>
      refine ⟨beBytes 8 (i64ToU64 P.optTimeNoneW), by simp [enc, encI64, ok.timeIn], fun rest => ?_⟩
      simp only [dec]
      rw [bind_res_ok (readI64_enc ok.timeIn rest)]
      simp [ok.time]
    | some p =>
      obtain ⟨secs, nanos⟩ := p
      simp only [wfv, Bool.and_eq_true, beq_iff_eq, decide_eq_true_eq] at h
      obtain ⟨⟨hv, rfl⟩, hne⟩ := h
      have hi := timeValid_inI64 hv
      refine ⟨beBytes 8 (i64ToU64 secs), by simp [enc, encI64, hi], fun rest => ?_⟩
      simp only [dec]
      rw [bind_res_ok (readI64_enc hi rest)]
      simp [hne, hv]
  case mapU64Hash.m l =>
    simp only [Bool.and_eq_true, decide_eq_true_eq] at h
    obtain ⟨bs, hbs, _⟩ := decMapLoop_enc l [] [] h.2 (by simp)
    refine ⟨beBytes 8 l.length ++ bs, by simp [enc, encLen, pow_256_8, h.1, hbs], fun rest => ?_⟩
    obtain ⟨bs', hbs', hdec⟩ := decMapLoop_enc l [] rest h.2 (by simp)
    rw [hbs] at hbs'
    cases hbs'
    have hcount : mapLoopCount P l.length = l.length := by
      unfold mapLoopCount; rw [ok.loopAll]
    simp only [dec]
    rw [List.append_assoc, bind_res_ok (readBE_enc (by rw [pow_256_8]; exact h.1) _),
      bind_res_ok (alloc_res _ _), hcount, bind_res_ok hdec]
    simp
  case updStatus.st s secs nanos =>
    simp only [Bool.and_eq_true, beq_iff_eq] at h
    obtain ⟨hv, rfl⟩ := h
    have hi := timeValid_inI64 hv
    cases s with
    | true =>
      refine ⟨UInt8.ofNat P.stSuccessW :: beBytes 8 (i64ToU64 secs),
        by simp [enc, encTag, encI64, ok.stSLt, hi], fun rest => ?_⟩
      simp only [dec, List.cons_append]
      rw [bind_res_ok (tag_roundtrip ok.stSLt _)]
      simp only [ok.stS, ↓reduceIte]
      rw [bind_res_ok (decTime_enc hv hi rest)]; rfl
    | false =>
      refine ⟨UInt8.ofNat P.stAttemptW :: beBytes 8 (i64ToU64 secs),
        by simp [enc, encTag, encI64, ok.stALt, hi], fun rest => ?_⟩
      simp only [dec, List.cons_append]
      rw [bind_res_ok (tag_roundtrip ok.stALt _)]
      have hne : P.stAttemptR ≠ P.stSuccessR := fun hc => ok.stNe (Eq.symm hc)
      simp only [ok.stA, hne, ↓reduceIte]
      rw [bind_res_ok (decTime_enc hv hi rest)]; rfl
  case optMftHash.ob o =>
    cases o with
    | none =>
      refine ⟨[UInt8.ofNat P.objHashNoneW], by simp [enc, encTag, ok.ohNLt], fun rest => ?_⟩
      simp only [dec, List.cons_append, List.nil_append]
      rw [bind_res_ok (tag_roundtrip ok.ohNLt rest)]
      simp [ok.ohN]
    | some hsh =>
      simp only [wfv, beq_iff_eq] at h
      refine ⟨UInt8.ofNat P.objHashSomeW :: hsh, by simp [enc, encTag, ok.ohSLt], fun rest => ?_⟩
      simp only [dec, List.cons_append]
      rw [bind_res_ok (tag_roundtrip ok.ohSLt _)]
      have hne : P.objHashSomeR ≠ P.objHashNoneR := fun hc => ok.ohNe (Eq.symm hc)
      simp only [ok.ohS, hne, ↓reduceIte]
      rw [bind_res_ok (alloc_res _ _), bind_res_ok (by rw [readExact_append' hsh rest h])]; rfl

end RoutinatorModel.Codec
