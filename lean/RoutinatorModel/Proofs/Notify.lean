import RoutinatorModel.Model.Notify
/-! Invariants of the notify long-poll system (helper lemmas for `Props/C17.lean`). -/
namespace RoutinatorModel.Notify

theorem needWait_iff (p : Params) (s : State) : needWait p s = true ↔ current p s := by
  unfold needWait current
  exact beq_iff_eq

/-- The subscription position never exceeds the number of sends (both orders). -/
def SubLe (s : State) : Prop := s.subAt ≤ s.sends

theorem subLe_core (p : Params) (s s' : State) (l : Label) (h : SubLe s)
    (hs : stepCore p s l = some s') : SubLe s' := by
  unfold SubLe at *
  cases l with
  | u ch =>
    simp only [stepCore, stepU] at hs
    split at hs <;> (try split at hs) <;> (try split at hs) <;>
      simp only [Option.some.injEq] at hs <;> subst hs <;> simp <;> (try split) <;> omega
  | h =>
    simp only [stepCore, stepH, afterArrival] at hs
    split at hs
    · split at hs <;> (try split at hs) <;> simp only [Option.some.injEq] at hs <;> subst hs <;>
        simp <;> omega
    · split at hs <;> simp only [Option.some.injEq] at hs <;> subst hs <;> simp <;> omega
    · simp only [Option.some.injEq] at hs; subst hs; simpa using h
    · split at hs
      · simp only [Option.some.injEq] at hs; subst hs; simpa using h
      · split at hs
        · split at hs <;> simp only [Option.some.injEq] at hs <;> subst hs <;> simpa using h
        · simp only [Option.some.injEq] at hs; subst hs; simp
    · simp at hs
    · simp only [Option.some.injEq] at hs; subst hs; simpa using h
    · simp at hs
  | wake =>
    simp only [stepCore, stepWake] at hs
    split at hs
    · simp only [Option.some.injEq] at hs; subst hs; simpa using h
    · simp at hs

/-- The main invariant of the repaired order: a waiting handler whose presented version is not the
served one has a notification pending or owed by the update in progress. -/
def Inv (p : Params) (s : State) : Prop :=
  SubLe s ∧ (waiting s → ¬ current p s → s.sends > s.subAt ∨ owed s)

theorem inv_init (p : Params) (a : Bool) (n : Nat) : Inv p (init a n) := by
  refine ⟨by simp [SubLe, init], ?_⟩
  intro hw
  simp [waiting, init] at hw

theorem inv_core (p : Params) (hp : p.order = .subscribeFirst) (s s' : State) (l : Label)
    (h : Inv p s) (hs : stepCore p s l = some s') : Inv p s' := by
  refine ⟨subLe_core p s s' l h.1 hs, ?_⟩
  obtain ⟨hle, hj⟩ := h
  unfold SubLe at hle
  cases l with
  | u ch =>
    simp only [stepCore, stepU] at hs
    split at hs
    all_goals (try split at hs)
    all_goals (try split at hs)
    all_goals
      simp only [Option.some.injEq] at hs
      subst hs
      simp only [waiting, current, owed] at hj ⊢
      intro hw hc
      have := hj hw
      simp_all
    all_goals (try omega)
    all_goals (split <;> omega)
  | h =>
    simp only [stepCore, stepH, afterArrival, hp] at hs
    split at hs
    · simp only [Option.some.injEq] at hs; subst hs
      intro hw; simp [waiting] at hw
    · split at hs <;> simp only [Option.some.injEq] at hs <;> subst hs <;>
        intro hw <;> simp [waiting] at hw
    · simp only [Option.some.injEq] at hs; subst hs
      intro hw hc
      simp only [waiting] at hw
      rcases hw with hw | ⟨_, hw⟩
      · simp at hw
      · exact absurd ((needWait_iff p s).1 hw) (by simpa [current] using hc)
    · rename_i hpc
      split at hs
      · simp only [Option.some.injEq] at hs; subst hs
        intro hw; simp [waiting] at hw
      · rename_i hwait
        split at hs
        · simp only [Option.some.injEq] at hs; subst hs
          intro hw; simp [waiting] at hw
        · rename_i hns
          simp only [Option.some.injEq] at hs; subst hs
          intro _ hc
          have hw : waiting s := Or.inr ⟨hpc, by simpa using hwait⟩
          have := hj hw (by simpa [current] using hc)
          simpa [owed] using this
    · simp at hs
    · simp only [Option.some.injEq] at hs; subst hs
      intro hw; simp [waiting] at hw
    · simp at hs
  | wake =>
    simp only [stepCore, stepWake] at hs
    split at hs
    · simp only [Option.some.injEq] at hs; subst hs
      intro hw; simp [waiting] at hw
    · simp at hs

/-! ### Lifting from the code's step to the step with ghost bookkeeping -/

theorem step_eq (p : Params) (s s' : State) (l : Label) (hs : step p s l = some s') :
    ∃ t, stepCore p s l = some t ∧ s' = observe p t := by
  unfold step at hs
  cases h : stepCore p s l with
  | none => simp [h] at hs
  | some t => simp [h] at hs; exact ⟨t, rfl, hs.symm⟩

theorem inv_observe (p : Params) (t : State) (h : Inv p t) : Inv p (observe p t) := h

theorem inv_step (p : Params) (hp : p.order = .subscribeFirst) (s s' : State) (l : Label)
    (h : Inv p s) (hs : step p s l = some s') : Inv p s' := by
  obtain ⟨t, ht, rfl⟩ := step_eq p s s' l hs
  exact inv_observe p t (inv_core p hp s t l h ht)

/-- Before the request arrives nothing has been observed. -/
def NewClean (s : State) : Prop := s.hpc = .new → s.differed = false

theorem core_differed (p : Params) (s t : State) (l : Label) (hs : stepCore p s l = some t) :
    t.differed = s.differed := by
  cases l with
  | u ch =>
    simp only [stepCore, stepU] at hs
    split at hs <;> (try split at hs) <;> (try split at hs) <;>
      simp only [Option.some.injEq] at hs <;> subst hs <;> rfl
  | h =>
    simp only [stepCore, stepH, afterArrival] at hs
    split at hs
    all_goals (try split at hs)
    all_goals (try split at hs)
    all_goals (try split at hs)
    all_goals (first | (simp at hs; done) | (simp only [Option.some.injEq] at hs; subst hs; rfl))
  | wake =>
    simp only [stepCore, stepWake] at hs
    split at hs
    · simp only [Option.some.injEq] at hs; subst hs; rfl
    · simp at hs

/-- A core step that leaves the handler at `new` started there (only updater steps do). -/
theorem core_new (p : Params) (s t : State) (l : Label) (hs : stepCore p s l = some t)
    (hn : t.hpc = .new) : s.hpc = .new := by
  cases l with
  | u ch =>
    simp only [stepCore, stepU] at hs
    split at hs <;> (try split at hs) <;> (try split at hs) <;>
      simp only [Option.some.injEq] at hs <;> subst hs <;> exact hn
  | h =>
    simp only [stepCore, stepH, afterArrival] at hs
    split at hs
    all_goals (try split at hs)
    all_goals (try split at hs)
    all_goals (try split at hs)
    all_goals (first | (simp at hs; done) | (simp only [Option.some.injEq] at hs; subst hs; simp at hn))
  | wake =>
    simp only [stepCore, stepWake] at hs
    split at hs
    · simp only [Option.some.injEq] at hs; subst hs; simp at hn
    · simp at hs

theorem newClean_step (p : Params) (s s' : State) (l : Label) (h : NewClean s)
    (hs : step p s l = some s') : NewClean s' := by
  obtain ⟨t, ht, rfl⟩ := step_eq p s s' l hs
  intro hn
  have hn' : t.hpc = .new := hn
  have := h (core_new p s t l ht hn')
  simp [observe, core_differed p s t l ht, this, hn']

/-- The handler has arrived and not yet been released from its wait. -/
def attending (s : State) : Prop :=
  s.hpc = .subscribed ∨ s.hpc = .reading ∨ s.hpc = .checked ∨ s.hpc = .blocked

/-- Second invariant of the repaired order: if the served version *is* the presented one now but
was not at some moment since the request arrived (so a data change happened after the
subscription), the notification of that change is pending or owed. -/
def Inv2 (p : Params) (s : State) : Prop :=
  attending s → s.differed = true → current p s → s.sends > s.subAt ∨ owed s

theorem inv2_core (p : Params) (hp : p.order = .subscribeFirst) (s t : State) (l : Label)
    (hle : SubLe s) (hnew : NewClean s) (h : Inv2 p s) (hs : stepCore p s l = some t) :
    attending t → s.differed = true → current p t → t.sends > t.subAt ∨ owed t := by
  unfold SubLe at hle
  cases l with
  | u ch =>
    simp only [stepCore, stepU] at hs
    split at hs
    all_goals (try split at hs)
    all_goals (try split at hs)
    all_goals
      simp only [Option.some.injEq] at hs
      subst hs
      simp only [Inv2, attending, current, owed] at h ⊢
      intro ha hd hc
    -- idle, start, read: nothing changes but upc; owed was false
    · have := h ha hd hc; simp_all
    · have := h ha hd hc; simp_all
    · have := h ha hd hc; simp_all
    -- install, first ever: owed now
    · simp
    -- install, changed: owed now
    · simp
    -- install, unchanged: serial as before, owed was false (upc = install)
    · have := h ha hd hc; simp_all
    -- mark
    · have := h ha hd hc; simp_all
    -- notify (message sent / not sent)
    all_goals (have := h ha hd hc; simp_all)
    all_goals omega
  | h =>
    simp only [stepCore, stepH, afterArrival, hp] at hs
    split at hs
    · -- arrival: nothing observed yet
      rename_i hn
      simp only [Option.some.injEq] at hs; subst hs
      intro _ hd; rw [hnew hn] at hd; simp at hd
    · rename_i hsub
      split at hs <;> simp only [Option.some.injEq] at hs <;> subst hs <;>
        intro _ hd hc <;> exact h (Or.inl hsub) hd hc
    · rename_i hrd
      simp only [Option.some.injEq] at hs; subst hs
      intro _ hd hc; exact h (Or.inr (Or.inl hrd)) hd hc
    · rename_i hck
      split at hs
      · simp only [Option.some.injEq] at hs; subst hs
        intro ha; simp [attending] at ha
      · split at hs
        · simp only [Option.some.injEq] at hs; subst hs
          intro ha; simp [attending] at ha
        · simp only [Option.some.injEq] at hs; subst hs
          intro _ hd hc; exact h (Or.inr (Or.inr (Or.inl hck))) hd hc
    · simp at hs
    · simp only [Option.some.injEq] at hs; subst hs
      intro ha; simp [attending] at ha
    · simp at hs
  | wake =>
    simp only [stepCore, stepWake] at hs
    split at hs
    · simp only [Option.some.injEq] at hs; subst hs
      intro ha; simp [attending] at ha
    · simp at hs

theorem inv2_step (p : Params) (hp : p.order = .subscribeFirst) (s s' : State) (l : Label)
    (hle : SubLe s) (hnew : NewClean s) (h : Inv2 p s) (hs : step p s l = some s') : Inv2 p s' := by
  obtain ⟨t, ht, rfl⟩ := step_eq p s s' l hs
  intro ha hd hc
  have hc' : current p t := hc
  have hnw : needWait p t = true := (needWait_iff p t).2 hc'
  have hd' : s.differed = true := by
    simp only [observe, hnw, Bool.not_true, Bool.and_false, Bool.or_false] at hd
    rw [core_differed p s t l ht] at hd
    exact hd
  exact inv2_core p hp s t l hle hnew h ht ha hd' hc'

/-- All invariants of the repaired order together. -/
def InvAll (p : Params) (s : State) : Prop := Inv p s ∧ NewClean s ∧ Inv2 p s

theorem invAll_reach (p : Params) (hp : p.order = .subscribeFirst) (a : Bool) (n : Nat) :
    ∀ s, Reach (sys p a n) s → InvAll p s := by
  apply inv_of_inductive (S := sys p a n) (InvAll p)
  · refine ⟨inv_init p a n, by intro _; rfl, ?_⟩
    intro ha; simp [attending, sys, init] at ha
  · intro s l s' h hs
    exact ⟨inv_step p hp s s' l h.1 hs, newClean_step p s s' l h.2.1 hs,
      inv2_step p hp s s' l h.1.1 h.2.1 h.2.2 hs⟩

theorem inv_reach (p : Params) (hp : p.order = .subscribeFirst) (a : Bool) (n : Nat) :
    ∀ s, Reach (sys p a n) s → Inv p s := fun s h => (invAll_reach p hp a n s h).1

/-- The literal form: waiting although the served version was not the presented one at some
moment since arrival ⇒ a notification is pending or owed. -/
theorem differed_waiting (p : Params) (hp : p.order = .subscribeFirst) (a : Bool) (n : Nat)
    (s : State) (hr : Reach (sys p a n) s) (hw : waiting s) (hd : s.differed = true) :
    s.sends > s.subAt ∨ owed s := by
  obtain ⟨h1, _, h3⟩ := invAll_reach p hp a n s hr
  by_cases hc : current p s
  · refine h3 ?_ hd hc
    rcases hw with hb | ⟨hck, _⟩
    · exact Or.inr (Or.inr (Or.inr hb))
    · exact Or.inr (Or.inr (Or.inl hck))
  · exact h1.2 hw hc

/-- Every state after the arrival records a difference that exists now. -/
theorem observed_now (p : Params) (a : Bool) (n : Nat) :
    ∀ s, Reach (sys p a n) s → s.hpc ≠ .new → ¬ current p s → s.differed = true := by
  intro s hr
  cases hr with
  | init => intro h; simp [sys, init] at h
  | step _ hs =>
    obtain ⟨t, _, rfl⟩ := step_eq p _ _ _ hs
    intro hn hc
    have hn' : t.hpc ≠ .new := hn
    have : needWait p t = false := by
      cases hnw : needWait p t with
      | false => rfl
      | true => exact absurd ((needWait_iff p t).1 hnw) hc
    simp [observe, this, hn']

/-! ### The order as found: a state from which only a further update helps -/

theorem installs_mono_core (p : Params) (s s' : State) (l : Label) (hs : stepCore p s l = some s') :
    s.installs ≤ s'.installs := by
  cases l with
  | u ch =>
    simp only [stepCore, stepU] at hs
    split at hs <;> (try split at hs) <;> (try split at hs) <;>
      simp only [Option.some.injEq] at hs <;> subst hs <;> simp
  | h =>
    simp only [stepCore, stepH, afterArrival] at hs
    split at hs
    all_goals (try split at hs)
    all_goals (try split at hs)
    all_goals (try split at hs)
    all_goals (first | (simp at hs; done) | (simp only [Option.some.injEq] at hs; subst hs; simp))
  | wake =>
    simp only [stepCore, stepWake] at hs
    split at hs
    · simp only [Option.some.injEq] at hs; subst hs; simp
    · simp at hs

theorem installs_mono (p : Params) (s s' : State) (l : Label) (hs : step p s l = some s') :
    s.installs ≤ s'.installs := by
  obtain ⟨t, ht, rfl⟩ := step_eq p s s' l hs
  exact installs_mono_core p s t l ht

theorem installs_mono_run (p : Params) (a : Bool) (n : Nat) (ls : List Label) :
    ∀ (s s' : State), (sys p a n).run s ls = some s' → s.installs ≤ s'.installs := by
  induction ls with
  | nil => intro s s' h; simp only [Sys.run] at h; cases h; exact Nat.le_refl _
  | cons l ls ih =>
    intro s s' h
    simp only [Sys.run] at h
    cases hl : (sys p a n).step s l with
    | none => simp [hl] at h
    | some t =>
      rw [hl] at h
      exact Nat.le_trans (installs_mono p s t l hl) (ih t s' h)

/-- Blocked, nothing pending, and the updater has not installed in its current run. -/
def Lost (s : State) : Prop :=
  s.hpc = .blocked ∧ s.sends = s.subAt ∧ (s.upc = .start ∨ s.upc = .read ∨ s.upc = .install)

theorem lost_core (p : Params) (s s' : State) (l : Label) (h : Lost s)
    (hs : stepCore p s l = some s') (hi : s'.installs = s.installs) : Lost s' := by
  obtain ⟨hb, he, hu⟩ := h
  cases l with
  | u ch =>
    simp only [stepCore, stepU] at hs
    rcases hu with hu | hu | hu <;> simp only [hu] at hs
    · simp only [Option.some.injEq] at hs; subst hs; exact ⟨hb, he, Or.inr (Or.inl rfl)⟩
    · simp only [Option.some.injEq] at hs; subst hs; exact ⟨hb, he, Or.inr (Or.inr rfl)⟩
    · split at hs <;> (try split at hs) <;> simp only [Option.some.injEq] at hs <;> subst hs <;>
        simp at hi
  | h => simp [stepCore, stepH, hb] at hs
  | wake =>
    simp only [stepCore, stepWake] at hs
    split at hs
    · rename_i hc; omega
    · simp at hs

theorem lost_step (p : Params) (s s' : State) (l : Label) (h : Lost s)
    (hs : step p s l = some s') (hi : s'.installs = s.installs) : Lost s' := by
  obtain ⟨t, ht, rfl⟩ := step_eq p s s' l hs
  exact lost_core p s t l h ht hi

theorem lost_run (p : Params) (a : Bool) (n : Nat) (ls : List Label) :
    ∀ (s s' : State), Lost s → (sys p a n).run s ls = some s' → s'.installs = s.installs →
      Lost s' := by
  induction ls with
  | nil => intro s s' h hr _; simp only [Sys.run] at hr; cases hr; exact h
  | cons l ls ih =>
    intro s s' h hr hi
    simp only [Sys.run] at hr
    cases hl : (sys p a n).step s l with
    | none => simp [hl] at hr
    | some t =>
      rw [hl] at hr
      have h1 := installs_mono p s t l hl
      have h2 := installs_mono_run p a n ls t s' hr
      have ht : t.installs = s.installs := by omega
      exact ih t s' (lost_step p s t l h hl ht) hr (by omega)

end RoutinatorModel.Notify
