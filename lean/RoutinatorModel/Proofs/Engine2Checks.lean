import RoutinatorModel.Proofs.Engine2Rule
/-!
# What a usable version has passed, spelled out

`ManifestChecks` lists the checks behind `validateCollected` / `validateStored`, so that the
meaning of `ValidVersion` (and with it `Justified`, C01) does not hide in those functions.
-/
namespace RoutinatorModel.Engine

/-- The checks on manifest and CRL common to the collected and the stored path. -/
structure ManifestChecks (cfg : Cfg) (now : Int) (vm : ValidMft) (crl : Content) : Prop where
  /-- the manifest's EE certificate: the crate's verdict (signature by the CA, resources) and
  the validity period -/
  eeValid : vm.mft.ee.valid now = true
  /-- a stale manifest is only used if the policy is not `reject` -/
  mftCurrent : isStale vm.mft.nextUpdate now = true → cfg.stale ≠ .reject
  /-- the CRL consulted is the one named by the manifest's EE certificate -/
  crlUri : vm.mft.ee.crlUri = some vm.crlUri
  /-- the CRL's signature verifies under the CA's key; `vm.revoked` are its entries -/
  crlSigned : ∃ next, crl = .crl true next vm.revoked
      ∧ (isStale next now = true → cfg.stale ≠ .reject)
  /-- the manifest's EE certificate is not revoked -/
  eeNotRevoked : vm.mft.ee.serial ∉ vm.revoked

theorem crlAccepted_checks {cfg : Cfg} {now : Int} {ee : CertAttr} {crl : Content}
    {revoked : List Nat} (h : crlAccepted cfg now ee crl = some revoked) :
    (∃ next, crl = .crl true next revoked ∧ (isStale next now = true → cfg.stale ≠ .reject))
    ∧ ee.serial ∉ revoked := by
  unfold crlAccepted at h
  cases crl with
  | crl sigOk next rev =>
    simp only [] at h
    split at h
    · cases h
    · rename_i h1
      split at h
      · cases h
      · rename_i h2
        split at h
        · cases h
        · rename_i h3
          cases h
          refine ⟨⟨next, ?_, ?_⟩, ?_⟩
          · simp at h1; simp [h1]
          · intro hs hr
            apply h2
            simp [hs, hr]
          · simpa using h3
  | _ => simp at h

theorem validateStored_checks {cfg : Cfg} {now : Int} {s : Stored} {vm : ValidMft}
    (h : validateStored cfg now s = some vm) : ManifestChecks cfg now vm s.crl := by
  unfold validateStored at h
  cases hm : s.mft.parsed with
  | none => simp [hm] at h
  | some m =>
    simp only [hm] at h
    split at h
    · cases h
    · rename_i h1
      split at h
      · cases h
      · rename_i h2
        cases hu : m.ee.crlUri with
        | none => simp [hu] at h
        | some u =>
          simp only [hu] at h
          cases hc : crlAccepted cfg now m.ee s.crl with
          | none => simp [hc] at h
          | some revoked =>
            simp only [hc, Option.some.injEq] at h
            subst h
            obtain ⟨hc1, hc2⟩ := crlAccepted_checks hc
            exact ⟨by simpa using h1, fun hs hr => h2 (by simp [hs, hr]), hu, hc1, hc2⟩

/-- The additional checks of the collected path: not premature; the CRL named by the EE
certificate lies in the CA's directory, is listed on the manifest and was retrieved with the
listed hash. -/
structure CollectedChecks (now : Int) (f : Fetched) (vm : ValidMft) (crl : Content) : Prop where
  notPremature : vm.mft.thisUpdate ≤ now
  crlListed : ∃ name file, vm.mft.crlName = some name ∧ lookup name f.files = some file
      ∧ file.content = crl ∧ (∃ e ∈ vm.mft.entries, e.name = name)
      ∧ ∀ e ∈ vm.mft.entries, e.name = name → e.hash = file.hash

theorem validateCollected_checks {cfg : Cfg} {now : Int} {f : Fetched} {mf : MftFile}
    {vm : ValidMft} {crl : Content} (h : validateCollected cfg now f mf = some (vm, crl)) :
    mf.parsed = some vm.mft ∧ ManifestChecks cfg now vm crl ∧ CollectedChecks now f vm crl := by
  unfold validateCollected at h
  cases hm : mf.parsed with
  | none => simp [hm] at h
  | some m =>
    simp only [hm] at h
    split at h
    · cases h
    · rename_i h1
      split at h
      · cases h
      · rename_i h2
        split at h
        · cases h
        · rename_i h3
          cases hu : m.ee.crlUri with
          | none => simp [hu] at h
          | some u =>
            cases hn : m.crlName with
            | none => simp [hu, hn] at h
            | some name =>
              simp only [hu, hn] at h
              split at h
              · cases h
              · rename_i h4
                cases hl : lookup name f.files with
                | none => simp [hl] at h
                | some file =>
                  simp only [hl] at h
                  split at h
                  · cases h
                  · rename_i h5
                    cases hc : crlAccepted cfg now m.ee file.content with
                    | none => simp [hc] at h
                    | some revoked =>
                      simp only [hc, Option.some.injEq, Prod.mk.injEq] at h
                      obtain ⟨rfl, rfl⟩ := h
                      obtain ⟨hc1, hc2⟩ := crlAccepted_checks hc
                      refine ⟨rfl, ⟨by simpa using h1, fun hs hr => h3 (by simp [hs, hr]), hu,
                        hc1, hc2⟩, ⟨?_, name, file, hn, hl, rfl, ?_, ?_⟩⟩
                      · simpa using h2
                      · simp only [List.isEmpty_iff] at h4
                        obtain ⟨e, he⟩ := List.exists_mem_of_ne_nil _ h4
                        simp only [List.mem_filter, beq_iff_eq] at he
                        exact ⟨e, he.1, he.2⟩
                      · intro e he hen
                        have h5' : ((m.entries.filter (fun e => e.name == name)).all
                            fun e => e.hash == file.hash) = true := by
                          cases hb : ((m.entries.filter (fun e => e.name == name)).all
                            fun e => e.hash == file.hash) with
                          | true => rfl
                          | false => exact absurd (by simp [hb]) h5
                        have := (List.all_eq_true.mp h5') e
                          (List.mem_filter.mpr ⟨he, by simp [hen]⟩)
                        simpa using this

/-- **What a usable version has passed.** Its manifest and CRL pass `ManifestChecks` now,
and every one of its objects is listed on that manifest under its name with its hash. -/
theorem ValidVersion.checks {cfg : Cfg} {now : Int} {coll : Option Offer} {ca : CaCtx}
    {vm : ValidMft} {crl : Content} {objs : List StoredObj}
    (h : ValidVersion cfg now coll ca vm crl objs) :
    ManifestChecks cfg now vm crl
    ∧ ∀ o ∈ objs, ∃ e ∈ vm.mft.entries, e.name = o.name ∧ e.ext = o.ext ∧ e.hash = o.file.hash := by
  refine ⟨?_, h.listed⟩
  cases h with
  | fetched offer mf _ _ _ hcoll hmf hvalid hloads hobjs => exact (validateCollected_checks hvalid).2.1
  | stored s _ hwf hvalid => exact validateStored_checks hvalid

end RoutinatorModel.Engine
