/-!
# The object archive of `src/utils/archive.rs` — layout-level model

The real archive is one file: magic (6) + archive meta (16 byte hash key + 8 byte bucket
count) + index (1024 bucket heads + 1 head of the empties chain, 8 bytes each), followed by
*blocks*. Every block starts with a 33 byte header (`size`, `next`, `is_empty`, `name_len`,
`data_len`); an object block continues with name, fixed-size meta data, data, zero padding
up to a multiple of 256.  A block is linked (through `next`) either into the chain of the
hash bucket of its name or into the chain of empty blocks.

The model keeps exactly this layout, with the byte level abstracted:

* `File.size`     — the file length,
* `File.blocks`   — the block headers (position, size, body) in file order; positions are
                    explicit, so "blocks tile `[idxEnd, size)`" is an invariant to *prove*,
* `File.buckets`  — bucket ↦ chain of object positions, head first, as an association list
                    read with `getB` (absent = empty chain; the `next` pointers of a chain
                    become a list; `set_index`/`update_next` become cons/erase),
* `File.empties`  — the chain of empty-block positions, head first.

Every function below transcribes the Rust function of the same name; reads through a
position go through `blockAt` (= `ObjectHeader::read` at that position) and fail
(`none` / `Out.corrupt`) when there is no block there, as the real code fails or
misbehaves on a corrupt file.  The hash is an arbitrary function `Cfg.hash` (the harness
supplies the real bucket of every name), `Cfg.msz` is `Meta::SIZE`.
-/
namespace RoutinatorModel.Archive

abbrev Bytes := List Nat

/-- What follows a block header. -/
inductive Body
  | obj (name mta data : Bytes)
  | empty
deriving DecidableEq, Repr

structure Block where
  pos : Nat
  size : Nat
  body : Body
deriving DecidableEq, Repr

structure File where
  size : Nat
  blocks : List Block
  buckets : List (Nat × List Nat)
  empties : List Nat

/-- Per-archive constants: the (keyed) hash reduced to a bucket number, `Meta::SIZE`, and the
bucket count (only used by `objects` / `verify`, which iterate over all buckets). -/
structure Cfg where
  hash : Bytes → Nat
  msz : Nat
  nb : Nat := 1024

/-- `ObjectHeader::SIZE` = 8 + 8 + 1 + 8 + 8. -/
def hdr : Nat := 33
/-- `PAGE_SIZE`. -/
def page : Nat := 256
/-- End of magic + archive meta + index: 6 + 24 + 8 * (1024 + 1). -/
def idxEnd : Nat := 8230

/-- `Archive::min_object_size`. -/
def minSize (c : Cfg) (name data : Bytes) : Nat := hdr + name.length + c.msz + data.length

/-- `Archive::page_object_size`: `min_object_size(..).next_multiple_of(256)`. -/
def paged (c : Cfg) (name data : Bytes) : Nat := (minSize c name data + 255) / 256 * 256

/-- `Archive::fits`. -/
def fits (emptySize objectSize : Nat) : Bool :=
  emptySize == objectSize || decide (emptySize ≥ objectSize + hdr)

/-- `Archive::create`: header and index only. -/
def init : File := { size := idxEnd, blocks := [], buckets := [], empties := [] }

/-- `ObjectHeader::read(storage, p)` — the block starting at `p`. -/
def blockAt (bs : List Block) (p : Nat) : Option Block := bs.find? (fun b => b.pos == p)

/-- `get_index(k)` and the chain hanging off it. -/
def getB (bk : List (Nat × List Nat)) (k : Nat) : List Nat :=
  match bk.find? (fun e => e.1 == k) with
  | some e => e.2
  | none => []

/-- Replace the chain of bucket `k`. -/
def setB (bk : List (Nat × List Nat)) (k : Nat) (l : List Nat) : List (Nat × List Nat) :=
  (k, l) :: bk.filter (fun e => e.1 != k)

/-- Overwrite the block starting at `p` by the blocks `new` (a header write at `p`, plus
possibly a second header write inside the old block). -/
def replaceAt (p : Nat) (new : List Block) (bs : List Block) : List Block :=
  bs.flatMap (fun b => if b.pos = p then new else [b])

/-! ## find -/

inductive Find
  | found (pos size : Nat) (mta data : Bytes)
  | missing
  | corrupt
deriving DecidableEq, Repr

/-- `Archive::find`: walk the bucket chain comparing names. -/
def findIn (bs : List Block) (name : Bytes) : List Nat → Find
  | [] => .missing
  | p :: ps =>
    match blockAt bs p with
    | some ⟨_, s, .obj n m d⟩ => if n = name then .found p s m d else findIn bs name ps
    | _ => .corrupt

def find (c : Cfg) (f : File) (name : Bytes) : Find :=
  findIn f.blocks name (getB f.buckets (c.hash name))

/-! ## find_empty -/

/-- The headers of the empties chain: `(size, pos)` for every chain element. -/
def emptyHeaders (bs : List Block) : List Nat → Option (List (Nat × Nat))
  | [] => some []
  | p :: ps =>
    match blockAt bs p, emptyHeaders bs ps with
    | some b, some r => some ((b.size, p) :: r)
    | _, _ => none

/-- First element of minimal size (`sort_by_key` is stable, then `first()`). -/
def pickSmallest : List (Nat × Nat) → Option (Nat × Nat)
  | [] => none
  | x :: xs =>
    match pickSmallest xs with
    | none => some x
    | some y => if y.1 < x.1 then some y else some x

/-- `Archive::find_empty`: `none` = corrupt, `some none` = nothing fits,
`some (some (size, pos))` = the chosen empty block. -/
def findEmpty (f : File) (size : Nat) : Option (Option (Nat × Nat)) :=
  match emptyHeaders f.blocks f.empties with
  | none => none
  | some hs => some (pickSmallest (hs.filter (fun h => fits h.1 size)))

/-! ## publish -/

/-- `Archive::publish_replace`. -/
def publishReplace (c : Cfg) (f : File) (name mta data : Bytes) (es p : Nat) : File :=
  let k := c.hash name
  let os := paged c name data
  let o : Block := ⟨p, os, .obj name mta data⟩
  if p + es > p + os then
    { f with
      blocks := replaceAt p [o, ⟨p + os, (p + es) - (p + os), .empty⟩] f.blocks
      buckets := setB f.buckets k (p :: getB f.buckets k)
      empties := (p + os) :: f.empties.erase p }
  else
    { f with
      blocks := replaceAt p [o] f.blocks
      buckets := setB f.buckets k (p :: getB f.buckets k)
      empties := f.empties.erase p }

/-- `Archive::publish_append`. -/
def publishAppend (c : Cfg) (f : File) (name mta data : Bytes) : File :=
  let k := c.hash name
  let os := paged c name data
  { size := f.size + os
    blocks := f.blocks ++ [⟨f.size, os, .obj name mta data⟩]
    buckets := setB f.buckets k (f.size :: getB f.buckets k)
    empties := f.empties }

/-- `Archive::publish_not_found`. -/
def publishNotFound (c : Cfg) (f : File) (name mta data : Bytes) : Option File :=
  match findEmpty f (paged c name data) with
  | none => none
  | some (some (es, p)) => some (publishReplace c f name mta data es p)
  | some none => some (publishAppend c f name mta data)

/-! ## delete -/

/-- `Archive::create_empty`. -/
def createEmpty (f : File) (p s : Nat) : Option File :=
  if p + s = f.size then
    -- `set_len(start)`: everything from `p` on is gone
    some { f with size := p, blocks := f.blocks.filter (fun b => b.pos < p) }
  else
    match blockAt f.blocks (p + s) with
    | none => none
    | some ⟨_, s2, .empty⟩ =>
      if p + s ∈ f.empties then
        some { f with
          blocks := replaceAt (p + s) [] (replaceAt p [⟨p, s + s2, .empty⟩] f.blocks)
          empties := p :: f.empties.erase (p + s) }
      else none
    | some ⟨_, _, .obj _ _ _⟩ =>
      some { f with
        blocks := replaceAt p [⟨p, s, .empty⟩] f.blocks
        empties := p :: f.empties }

/-- `Archive::delete_found`. -/
def deleteFound (f : File) (k p s : Nat) : Option File :=
  createEmpty { f with buckets := setB f.buckets k ((getB f.buckets k).erase p) } p s

/-! ## operations -/

/-- The operation alphabet (that of `fuzz/fuzz_targets/archive.rs` plus fetch, fetch_if and
reopening). `check` is the consistency closure applied to the stored meta data. -/
inductive Op
  | publish (name mta data : Bytes)
  | update (name mta data : Bytes) (check : Bytes → Bool)
  | delete (name : Bytes) (check : Bytes → Bool)
  | fetch (name : Bytes)
  | fetchIf (name : Bytes) (check : Bytes → Bool)
  | reopen

inductive Out
  | ok
  | data (d : Bytes)
  | alreadyExists
  | notFound
  | inconsistent
  | corrupt
deriving DecidableEq, Repr

def orCorrupt (f : File) : Option File → File × Out
  | some f' => (f', .ok)
  | none => (f, .corrupt)

/-- One public operation of `Archive<Meta>`. -/
def step (c : Cfg) (f : File) : Op → File × Out
  | .publish name mta data =>
    match find c f name with
    | .corrupt => (f, .corrupt)
    | .found .. => (f, .alreadyExists)
    | .missing => orCorrupt f (publishNotFound c f name mta data)
  | .update name mta data check =>
    match find c f name with
    | .corrupt => (f, .corrupt)
    | .missing => (f, .notFound)
    | .found p s m0 _ =>
      if check m0 then
        if s = paged c name data then
          -- in place: same header (size, next), new data_len, mta, data
          ({ f with blocks := replaceAt p [⟨p, s, .obj name mta data⟩] f.blocks }, .ok)
        else
          match deleteFound f (c.hash name) p s with
          | none => (f, .corrupt)
          | some f1 => orCorrupt f (publishNotFound c f1 name mta data)
      else (f, .inconsistent)
  | .delete name check =>
    match find c f name with
    | .corrupt => (f, .corrupt)
    | .missing => (f, .notFound)
    | .found p s m0 _ =>
      if check m0 then orCorrupt f (deleteFound f (c.hash name) p s)
      else (f, .inconsistent)
  | .fetch name =>
    match find c f name with
    | .corrupt => (f, .corrupt)
    | .missing => (f, .notFound)
    | .found _ _ _ d => (f, .data d)
  | .fetchIf name check =>
    match find c f name with
    | .corrupt => (f, .corrupt)
    | .missing => (f, .notFound)
    | .found _ _ m0 d => if check m0 then (f, .data d) else (f, .inconsistent)
  | .reopen => (f, .ok)   -- drop + `Archive::open`: all state is in the file

/-- Run a sequence of operations, collecting the outputs. -/
def run (c : Cfg) (f : File) : List Op → File × List Out
  | [] => (f, [])
  | op :: ops =>
    let r := step c f op
    let rs := run c r.1 ops
    (rs.1, r.2 :: rs.2)

/-! ## AppendArchive -/

/-- `AppendArchive::publish`: duplicate detection through the in-memory name set (= the
names of the blocks written so far), otherwise append; the index lives in memory until
`finalize` writes it out, which is the identity on the model's file. -/
def appendStep (c : Cfg) (f : File) (name mta data : Bytes) : File × Out :=
  if f.blocks.any (fun b => match b.body with | .obj n _ _ => n == name | .empty => false) then
    (f, .alreadyExists)
  else (publishAppend c f name mta data, .ok)

def appendRun (c : Cfg) (f : File) : List (Bytes × Bytes × Bytes) → File × List Out
  | [] => (f, [])
  | (n, m, d) :: ops =>
    let r := appendStep c f n m d
    let rs := appendRun c r.1 ops
    (rs.1, r.2 :: rs.2)

/-! ## iteration and verification -/

/-- The objects of one chain as `ObjectsIter` yields them. -/
def chainObjects (bs : List Block) : List Nat → Option (List (Bytes × Bytes × Bytes))
  | [] => some []
  | p :: ps =>
    match blockAt bs p, chainObjects bs ps with
    | some ⟨_, _, .obj n m d⟩, some r => some ((n, m, d) :: r)
    | _, _ => none

/-- `ObjectsIter` over the buckets `ks`, collected: each chain head first. -/
def objectsOf (f : File) (ks : List Nat) : Option (List (Bytes × Bytes × Bytes)) :=
  ks.foldr (fun k acc =>
    match chainObjects f.blocks (getB f.buckets k), acc with
    | some l, some r => some (l ++ r)
    | _, _ => none) (some [])

/-- `Archive::objects`, collected: buckets in order. -/
def objects (c : Cfg) (f : File) : Option (List (Bytes × Bytes × Bytes)) :=
  objectsOf f (List.range c.nb)

structure Stats where
  objectCount : Nat := 0
  objectSize : Nat := 0
  paddingSize : Nat := 0
  emptyCount : Nat := 0
  emptySize : Nat := 0
  emptyMin : Nat := 0
  emptyMax : Nat := 0
deriving DecidableEq, Repr

/-- Step 1 of `verify` for one bucket: every chain element is an object hashing to the
bucket; collect `(pos, size)`. -/
def verifyChain (c : Cfg) (bs : List Block) (k : Nat) :
    List Nat → Option (List (Nat × Nat))
  | [] => some []
  | p :: ps =>
    match blockAt bs p, verifyChain c bs k ps with
    | some ⟨_, s, .obj n _ _⟩, some r => if c.hash n = k then some ((p, s) :: r) else none
    | _, _ => none

/-- Step 2 of `verify`: the empties chain (the real code does not look at `is_empty`). -/
def verifyEmpties (bs : List Block) : List Nat → Option (List (Nat × Nat))
  | [] => some []
  | p :: ps =>
    match blockAt bs p, verifyEmpties bs ps with
    | some b, some r => some ((p, b.size) :: r)
    | _, _ => none

/-- `window[1].0 == window[0].0 + window[0].1` for all windows. -/
def contiguous : List (Nat × Nat) → Bool
  | [] => true
  | [_] => true
  | x :: y :: r => (y.1 == x.1 + x.2) && contiguous (y :: r)

/-- `objects.sort_by_key(|obj| obj.0)` (a stable sort, like core's `mergeSort`). -/
def sortByPos (l : List (Nat × Nat)) : List (Nat × Nat) :=
  l.mergeSort (fun a b => decide (a.1 ≤ b.1))

/-- Step 1 of `verify` over the buckets `ks`. -/
def verifyBuckets (c : Cfg) (f : File) (ks : List Nat) : Option (List (Nat × Nat)) :=
  ks.foldr (fun k acc =>
    match verifyChain c f.blocks k (getB f.buckets k), acc with
    | some l, some r => some (l ++ r)
    | _, _ => none) (some [])

/-- `Archive::verify` (without the statistics): `true` = `Ok`. -/
def verify (c : Cfg) (f : File) : Bool :=
  match verifyBuckets c f (List.range c.nb), verifyEmpties f.blocks f.empties with
  | some os, some es => contiguous (sortByPos (os ++ es))
  | _, _ => false

/-- The statistics `verify` returns, computed from the block list. -/
def stats (c : Cfg) (f : File) : Stats :=
  f.blocks.foldl (fun st b =>
    match b.body with
    | .obj n _ d =>
      { st with objectCount := st.objectCount + 1, objectSize := st.objectSize + b.size,
                paddingSize := st.paddingSize + (b.size - minSize c n d) }
    | .empty =>
      { st with emptyCount := st.emptyCount + 1, emptySize := st.emptySize + b.size,
                emptyMin := if st.emptyMin = 0 then b.size else min st.emptyMin b.size,
                emptyMax := max st.emptyMax b.size }) {}

/-! ## the specification: a map from names to (mta, data) -/

abbrev MapSt := Bytes → Option (Bytes × Bytes)

def MapSt.set (m : MapSt) (n : Bytes) (v : Option (Bytes × Bytes)) : MapSt :=
  fun x => if x = n then v else m x

/-- What a map with metadata checks answers. -/
def mapStep (m : MapSt) : Op → MapSt × Out
  | .publish n me d =>
    match m n with
    | some _ => (m, .alreadyExists)
    | none => (m.set n (some (me, d)), .ok)
  | .update n me d check =>
    match m n with
    | none => (m, .notFound)
    | some (m0, _) => if check m0 then (m.set n (some (me, d)), .ok) else (m, .inconsistent)
  | .delete n check =>
    match m n with
    | none => (m, .notFound)
    | some (m0, _) => if check m0 then (m.set n none, .ok) else (m, .inconsistent)
  | .fetch n =>
    match m n with
    | none => (m, .notFound)
    | some (_, d) => (m, .data d)
  | .fetchIf n check =>
    match m n with
    | none => (m, .notFound)
    | some (m0, d) => if check m0 then (m, .data d) else (m, .inconsistent)
  | .reopen => (m, .ok)

def mapRun (m : MapSt) : List Op → MapSt × List Out
  | [] => (m, [])
  | op :: ops =>
    let r := mapStep m op
    let rs := mapRun r.1 ops
    (rs.1, r.2 :: rs.2)

/-- The abstraction function: the objects physically present in the block list (independent
of the index chains). -/
def absBlocks (bs : List Block) (n : Bytes) : Option (Bytes × Bytes) :=
  bs.findSome? (fun b => match b.body with
    | .obj n' m d => if n' = n then some (m, d) else none
    | .empty => none)

def abs (f : File) : MapSt := absBlocks f.blocks

end RoutinatorModel.Archive
