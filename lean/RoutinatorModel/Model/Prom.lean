import RoutinatorModel.Model.Template
/-!
# The Prometheus text exposition format (version 0.0.4) and routinator's writer

Grammar (`IsExposition`): a sequence of LF-terminated lines, each a `# HELP` line, a
`# TYPE` line or a sample `name [ "{" labels "}" ] value`; label values are quoted and
may contain any character except that `\`, `"` and LF must be written `\\`, `\"`, `\n`.
Blanks (space, tab) are allowed where the reference parser (`expfmt.TextParser`) skips
them. Values are restricted to what JSON calls a number plus `NaN`, `+Inf`, `-Inf`
(a subset of what `strconv.ParseFloat` accepts).

Writer (`renderEntry`): `Metric::header`, `Metric::single`, `LabelValue::{new,label,value}`
of `src/http/metrics.rs`, statement by statement. `escLabel` is the label escaping of the
repaired tree; `renderEntryOld` writes label values verbatim like the pinned tree.
-/
namespace RoutinatorModel.Prom
open RoutinatorModel.Json (Text IsNumber isNumberB isDigit Seg)

def isLetter (c : Nat) : Bool :=
  (decide (0x41 ≤ c) && decide (c ≤ 0x5A)) || (decide (0x61 ≤ c) && decide (c ≤ 0x7A))

/-- `[a-zA-Z_:][a-zA-Z0-9_:]*` -/
def isMetricNameB : Text → Bool
  | [] => false
  | c :: r => (isLetter c || c == 0x5F || c == 0x3A) &&
      r.all fun x => isLetter x || isDigit x || x == 0x5F || x == 0x3A

/-- `[a-zA-Z_][a-zA-Z0-9_]*` -/
def isLabelNameB : Text → Bool
  | [] => false
  | c :: r => (isLetter c || c == 0x5F) && r.all fun x => isLetter x || isDigit x || x == 0x5F

def isBlank (c : Nat) : Bool := c == 0x20 || c == 0x09

def IsBlanks (s : Text) : Prop := ∀ c ∈ s, isBlank c = true

/-- The characters between the quotes of a label value. -/
inductive IsLabelChars : Text → Prop
  | nil : IsLabelChars []
  | plain {c : Nat} {s : Text} : c ≠ 0x22 → c ≠ 0x5C → c ≠ 0x0A → IsLabelChars s → IsLabelChars (c :: s)
  | esc {c : Nat} {s : Text} : c = 0x5C ∨ c = 0x22 ∨ c = 0x6E → IsLabelChars s →
      IsLabelChars (0x5C :: c :: s)

/-- `blanks name blanks "=" blanks '"' value '"' blanks` -/
def IsLabelPair (s : Text) : Prop :=
  ∃ a n b c v d, s = a ++ (n ++ (b ++ (0x3D :: (c ++ (0x22 :: (v ++ (0x22 :: d))))))) ∧
    IsBlanks a ∧ isLabelNameB n = true ∧ IsBlanks b ∧ IsBlanks c ∧ IsLabelChars v ∧ IsBlanks d

/-- A non-empty comma-separated list of label pairs. -/
inductive IsLabels : Text → Prop
  | one {p : Text} : IsLabelPair p → IsLabels p
  | cons {p r : Text} : IsLabelPair p → IsLabels r → IsLabels (p ++ (0x2C :: r))

def litNaN : Text := [0x4E, 0x61, 0x4E]
def litPInf : Text := [0x2B, 0x49, 0x6E, 0x66]
def litMInf : Text := [0x2D, 0x49, 0x6E, 0x66]

def IsValue (v : Text) : Prop := IsNumber v ∨ v = litNaN ∨ v = litPInf ∨ v = litMInf

def isValueB (v : Text) : Bool := isNumberB v || v == litNaN || v == litPInf || v == litMInf

/-- HELP text: anything up to the end of the line, `\` only as `\\` or `\n`. -/
inductive IsHelpText : Text → Prop
  | nil : IsHelpText []
  | plain {c : Nat} {s : Text} : c ≠ 0x5C → c ≠ 0x0A → IsHelpText s → IsHelpText (c :: s)
  | esc {c : Nat} {s : Text} : c = 0x5C ∨ c = 0x6E → IsHelpText s → IsHelpText (0x5C :: c :: s)

def isHelpTextB : Text → Bool
  | [] => true
  | 0x5C :: c :: s => (c == 0x5C || c == 0x6E) && isHelpTextB s
  | c :: s => c != 0x5C && c != 0x0A && isHelpTextB s

def litHelp : Text := [0x23, 0x20, 0x48, 0x45, 0x4C, 0x50, 0x20]   -- "# HELP "
def litType : Text := [0x23, 0x20, 0x54, 0x59, 0x50, 0x45, 0x20]   -- "# TYPE "
def litCounter : Text := [0x63, 0x6F, 0x75, 0x6E, 0x74, 0x65, 0x72]
def litGauge : Text := [0x67, 0x61, 0x75, 0x67, 0x65]

/-- One line, without its terminating LF. -/
inductive IsLine : Text → Prop
  | help {n h : Text} : isMetricNameB n = true → IsHelpText h → IsLine (litHelp ++ (n ++ (0x20 :: h)))
  | type {n t : Text} : isMetricNameB n = true → (t = litCounter ∨ t = litGauge) →
      IsLine (litType ++ (n ++ (0x20 :: t)))
  | plain {n b v : Text} : isMetricNameB n = true → b ≠ [] → IsBlanks b → IsValue v →
      IsLine (n ++ (b ++ v))
  | labelled {n l b v : Text} : isMetricNameB n = true → IsLabels l → IsBlanks b → IsValue v →
      IsLine (n ++ (0x7B :: (l ++ (0x7D :: (b ++ v)))))
  | labelled0 {n l b v : Text} : isMetricNameB n = true → IsBlanks l → IsBlanks b → IsValue v →
      IsLine (n ++ (0x7B :: (l ++ (0x7D :: (b ++ v)))))

/-- A sequence of LF-terminated lines. -/
inductive IsExposition : Text → Prop
  | nil : IsExposition []
  | line {l r : Text} : IsLine l → IsExposition r → IsExposition (l ++ (0x0A :: r))

/-! ## The writer -/

/-- Label value escaping (repaired tree): `\` → `\\`, `"` → `\"`, LF → `\n`. -/
def escLabelChar (c : Nat) : Text :=
  if c = 0x5C then [0x5C, 0x5C] else if c = 0x22 then [0x5C, 0x22]
  else if c = 0x0A then [0x5C, 0x6E] else [c]

def escLabel (s : Text) : Text := s.flatMap escLabelChar

def litRoutinator : Text := [0x72, 0x6F, 0x75, 0x74, 0x69, 0x6E, 0x61, 0x74, 0x6F, 0x72]

/-- `routinator{prefix}_{name}` -/
def metricName (pfx name : Text) : Text := litRoutinator ++ (pfx ++ (0x5F :: name))

/-- What the writer is asked to write. -/
inductive Entry
  | header (pfx name help0 help1 mtype : Text)
  | single (pfx name value : Text)
  | multi (pfx name : Text) (labels : List (Text × Text)) (value : Text)
  deriving Repr

/-- `LabelValue::label` calls: `first` is the flag of the same name. `esc` is the escaping
applied to the value. -/
def renderLabels (esc : Text → Text) : Bool → List (Text × Text) → Text
  | _, [] => []
  | first, (n, v) :: rest =>
    (if first then [] else [0x2C, 0x20]) ++ (n ++ (0x3D :: 0x22 :: (esc v ++ (0x22 :: renderLabels esc false rest))))

def renderEntryWith (esc : Text → Text) : Entry → Text
  | .header pfx name help0 help1 mtype =>
    litHelp ++ (metricName pfx name ++ (0x20 :: (help0 ++ (help1 ++ (0x0A ::
      (litType ++ (metricName pfx name ++ (0x20 :: (mtype ++ [0x0A])))))))))
  | .single pfx name value => metricName pfx name ++ (0x20 :: (value ++ [0x0A]))
  | .multi pfx name labels value =>
    metricName pfx name ++ (0x7B :: (renderLabels esc true labels ++ (0x7D :: 0x20 :: (value ++ [0x0A]))))

def renderEntry : Entry → Text := renderEntryWith escLabel

/-- The pinned tree: label values verbatim. -/
def renderEntryOld : Entry → Text := renderEntryWith id

def render (es : List Entry) : Text := es.flatMap renderEntry

/-- The static parts of an entry are well-formed; label *values* are unconstrained. -/
def entryOkB : Entry → Bool
  | .header pfx name help0 help1 mtype =>
    isMetricNameB (metricName pfx name) && isHelpTextB (help0 ++ help1) &&
      (mtype == litCounter || mtype == litGauge)
  | .single pfx name value => isMetricNameB (metricName pfx name) && isValueB value
  | .multi pfx name labels value =>
    isMetricNameB (metricName pfx name) && isValueB value && labels.all fun l => isLabelNameB l.1

/-! ## An executable recogniser for whole documents (used by the driver on real output) -/

def splitLines : Text → List Text × Text
  | [] => ([], [])
  | c :: s =>
    let (ls, last) := splitLines s
    if c = 0x0A then ([] :: ls, last)
    else match ls with
      | [] => ([], c :: last)
      | l :: ls' => ((c :: l) :: ls', last)

def dropBlanks : Text → Text
  | c :: s => if isBlank c then dropBlanks s else c :: s
  | [] => []

def takeWhileP (p : Nat → Bool) : Text → Text × Text
  | [] => ([], [])
  | c :: s => if p c then ((c :: (takeWhileP p s).1), (takeWhileP p s).2) else ([], c :: s)

/-- After the opening quote: consume label characters up to and including the closing quote. -/
def labelValueRest : Text → Option Text
  | [] => none
  | 0x22 :: r => some r
  | 0x5C :: c :: r => if c == 0x5C || c == 0x22 || c == 0x6E then labelValueRest r else none
  | 0x5C :: [] => none
  | c :: r => if c == 0x0A then none else labelValueRest r

/-- After `{` (or after a comma): label pairs up to and including `}`. -/
def labelsRest (fuel : Nat) (s : Text) : Option Text :=
  match fuel with
  | 0 => none
  | fuel + 1 =>
    let s := dropBlanks s
    let (n, r) := takeWhileP (fun x => isLetter x || isDigit x || x == 0x5F) s
    if !isLabelNameB n then none else
    match dropBlanks r with
    | 0x3D :: r =>
      match dropBlanks r with
      | 0x22 :: r =>
        match labelValueRest r with
        | none => none
        | some r =>
          match dropBlanks r with
          | 0x2C :: r => labelsRest fuel r
          | 0x7D :: r => some r
          | _ => none
      | _ => none
    | _ => none

def startsWith (p s : Text) : Option Text :=
  match p, s with
  | [], s => some s
  | a :: p, b :: s => if a = b then startsWith p s else none
  | _ :: _, [] => none

def isLineB (l : Text) : Bool :=
  match startsWith litHelp l with
  | some r =>
    let (n, r) := takeWhileP (fun x => x != 0x20) r
    isMetricNameB n && (match r with | 0x20 :: h => isHelpTextB h | _ => false)
  | none =>
    match startsWith litType l with
    | some r =>
      let (n, r) := takeWhileP (fun x => x != 0x20) r
      isMetricNameB n && (match r with | 0x20 :: t => t == litCounter || t == litGauge | _ => false)
    | none =>
      let (n, r) := takeWhileP (fun x => isLetter x || isDigit x || x == 0x5F || x == 0x3A) l
      isMetricNameB n &&
      (match r with
       | 0x7B :: r =>
         (match dropBlanks r with
          | 0x7D :: r => isValueB (dropBlanks r)
          | _ => match labelsRest (r.length + 1) r with
                 | some r => isValueB (dropBlanks r)
                 | none => false)
       | c :: r => isBlank c && isValueB (dropBlanks r)
       | [] => false)

def isExpositionB (s : Text) : Bool :=
  let (ls, last) := splitLines s
  last.isEmpty && ls.all isLineB

/-! ## What the source must look like (compared with `Generated/Templates.lean`) -/

/-- The format strings of `Metric::header`, `Metric::single`, `LabelValue::new`,
`LabelValue::label` (with its separator) and `LabelValue::value`; the label value goes
through `label_str`. `renderEntryWith` above is these, instantiated. -/
def promTemplates : List (Text × List Seg) := [
  ([0x68, 0x65, 0x61, 0x64, 0x65, 0x72],
    [.lit (litHelp ++ litRoutinator), .hole .raw, .lit [0x5F], .hole .raw, .lit [0x20], .hole .raw,
     .hole .raw, .lit (0x0A :: (litType ++ litRoutinator)), .hole .raw, .lit [0x5F], .hole .raw,
     .lit [0x20], .hole .raw, .lit [0x0A]]),
  ([0x73, 0x69, 0x6E, 0x67, 0x6C, 0x65],
    [.lit litRoutinator, .hole .raw, .lit [0x5F], .hole .raw, .lit [0x20], .hole .raw, .lit [0x0A]]),
  ([0x6E, 0x65, 0x77], [.lit litRoutinator, .hole .raw, .lit [0x5F], .hole .raw, .lit [0x7B]]),
  ([0x6C, 0x61, 0x62, 0x65, 0x6C], [.hole .raw, .lit [0x3D, 0x22], .hole .labelStr, .lit [0x22]]),
  ([0x76, 0x61, 0x6C, 0x75, 0x65], [.lit [0x7D, 0x20], .hole .raw, .lit [0x0A]]),
  ([0x6C, 0x61, 0x62, 0x65, 0x6C, 0x73, 0x65, 0x70], [.lit [0x2C, 0x20]])]

/-- `label_str`: the three replacements of `escLabelChar`. -/
def labelStrRules : List (Nat × Text) :=
  [(0x5C, [0x5C, 0x5C]), (0x22, [0x5C, 0x22]), (0x0A, [0x5C, 0x6E])]

/-- The static strings of `metrics.rs` by kind: metric name parts, help text parts, label
names, literal sample values, metric types. -/
def staticOkB (p : Nat × Text) : Bool :=
  match p.1 with
  | 0 => p.2.all fun x => isLetter x || isDigit x || x == 0x5F
  | 1 => isHelpTextB p.2
  | 2 => isLabelNameB p.2
  | 3 => isValueB p.2
  | 4 => p.2 == litCounter || p.2 == litGauge
  | _ => false

end RoutinatorModel.Prom
