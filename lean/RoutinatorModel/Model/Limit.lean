/-!
# C38 — the object size limit

* `readLoop` / `readAll`: `LimitedDataRead::read` driven by `read_to_end` (`read_all`): the wrapped
  reader delivers the body in arbitrary chunks (`Ev.data`), may fail (`Ev.fail`), and ends with a
  zero-length read; `left` is decremented per chunk, a chunk larger than what is left is an error
  and its bytes are not handed on.
* `loadTa`: `rrdp::Run::load_ta` — the `Content-Length` pre-check (repaired: only when a limit is
  set), then streaming through `LimitedDataRead`; on a streaming error the bytes read so far are
  still returned (`Some(Bytes::from(bytes))`).
* `configLimit`: `max-object-size` from config file and command line, `0` meaning "no limit".
-/
namespace RoutinatorModel.Limit

abbrev Bytes := List Nat

/-- What the wrapped reader does on successive `read` calls (EOF after the list). -/
inductive Ev
  | data (c : Bytes)
  | fail
deriving Repr, DecidableEq

inductive Res
  /-- `read_to_end` finished: the content. -/
  | ok (content : Bytes)
  /-- `LimitedDataReadError::LargeObject`, with what had been buffered. -/
  | tooLarge (buffered : Bytes)
  /-- `LimitedDataReadError::Read`, with what had been buffered. -/
  | readError (buffered : Bytes)
deriving Repr, DecidableEq

def Res.buffered : Res → Bytes
  | .ok b => b
  | .tooLarge b => b
  | .readError b => b

def Res.isOk : Res → Bool
  | .ok _ => true
  | _ => false

def readLoop : Option Nat → Bytes → List Ev → Res
  | _, acc, [] => .ok acc
  | _, acc, .fail :: _ => .readError acc
  | none, acc, .data c :: rest => readLoop none (acc ++ c) rest
  | some l, acc, .data c :: rest =>
    if c.length > l then .tooLarge acc else readLoop (some (l - c.length)) (acc ++ c) rest

/-- `LimitedDataRead::new(reader, uri, limit).read_all()`. -/
def readAll (limit : Option Nat) (evs : List Ev) : Res := readLoop limit [] evs

/-- The body a chunking delivers. -/
def chunked (chunks : List Bytes) : List Ev := chunks.map Ev.data

/-- Rust's `Option<u64>` ordering: `None < Some(_)`. -/
def optGt : Option Nat → Option Nat → Bool
  | some a, some b => decide (a > b)
  | some _, none => true
  | none, _ => false

/-- The pre-check of `load_ta` (repaired): refuse by `Content-Length` only if there is a limit. -/
def clExceeds (contentLength limit : Option Nat) : Bool :=
  limit.isSome && optGt contentLength limit

/-- The unrepaired pre-check: `response.content_length() > max_object_size`. -/
def clExceedsOld (contentLength limit : Option Nat) : Bool := optGt contentLength limit

/-- `rrdp::Run::load_ta`: `none` = refused up front; otherwise whatever was read. -/
def loadTa (limit contentLength : Option Nat) (evs : List Ev) : Option Bytes :=
  if clExceeds contentLength limit then none else some (readAll limit evs).buffered

def loadTaOld (limit contentLength : Option Nat) (evs : List Ev) : Option Bytes :=
  if clExceedsOld contentLength limit then none else some (readAll limit evs).buffered

/-- `DEFAULT_MAX_OBJECT_SIZE`. -/
def defaultLimit : Nat := 20000000

/-- `0` means "no limit". -/
def limitOfValue (v : Nat) : Option Nat := if v = 0 then none else some v

/-- `max-object-size`: the command line overrides the config file, which overrides the default. -/
def configLimit (file cli : Option Nat) : Option Nat :=
  match cli with
  | some v => limitOfValue v
  | none =>
    match file with
    | some v => limitOfValue v
    | none => some defaultLimit

/-- The argument added to the rsync command line (`RsyncCommand::new`, default arguments). -/
def rsyncMaxSizeArg (limit : Option Nat) : Option Nat := limit

end RoutinatorModel.Limit
