import RoutinatorModel.Model.Sys
/-!
# C16 — conditional requests against the server's update sequence

Shared state of `SharedHistory` as far as the HTTP payload endpoints see it (session, serial,
`created`, "is there a snapshot"), the updater's atomic steps (`Server::process_once`: the write
sections of `mark_update_start`, `update`, `mark_update_done`, then `notify`), an arbitrary wall
clock (label `clock`: any value at any time — the code must not rely on monotonic time), and one
atomic step per request: `payload::State::handle_get_or_head` takes session, serial, `created`,
snapshot and metrics under ONE read lock and computes the whole response from these copies
(`Response::maybe_not_modified`, src/http/response.rs).

Times are nanoseconds since the epoch; HTTP dates are whole seconds (`format_http_date` truncates,
`parse_http_date` yields zero nanoseconds).

`Variant.found`: `created` is bumped in `mark_update_done` (the pinned tree).
`Variant.repaired`: `created` is bumped in the write-lock section of `update`, together with the
data (fixes/C16-created-with-data.patch).

Ghost state: the data version (`ver`, number of data changes; the serial is `ver mod 2^32`), the
install epoch, the validators issued so far and the responses given.
-/
namespace RoutinatorModel.Http304

inductive Variant
  | found
  | repaired
  deriving DecidableEq, Repr

def nanos : Nat := 1000000000
def serialMod : Nat := 4294967296

/-- `mark_update_done`'s rule for `created`: never two data sets within the same second. -/
def bump (created : Option Nat) (now : Nat) : Nat :=
  match created with
  | none => now
  | some c => if now / nanos ≤ c / nanos then c + nanos else now

/-- Where the updater is parked: before the named action. -/
inductive UPc
  | idle | start | read | install | mark | notify
  deriving DecidableEq, Repr

/-- Validators handed out with a response, and (ghost) what was served then. -/
structure Issued where
  etag : Nat × Nat      -- (session, serial)
  lm : Nat              -- Last-Modified, whole seconds
  ver : Nat             -- ghost: data version served
  epoch : Nat           -- ghost: install epoch served
  deriving DecidableEq, Repr

structure Request where
  /-- entity tags in `If-None-Match` (any syntactically valid tags) -/
  inm : List (Nat × Nat)
  /-- `If-None-Match: *` -/
  star : Bool
  /-- `If-Modified-Since`, parsed, whole seconds -/
  ims : Option Nat
  deriving DecidableEq, Repr

structure Resp where
  req : Request
  status : Nat                 -- 200, 304, 503
  validators : Option Issued   -- ETag / Last-Modified of the response (none for 503)
  ver : Nat                    -- ghost: data version served at the read
  epoch : Nat
  issuedBefore : List Issued   -- ghost: everything issued before this response
  deriving DecidableEq, Repr

structure State where
  now : Nat
  active : Bool
  ver : Nat
  epoch : Nat
  created : Option Nat
  upc : UPc
  issued : List Issued
  resps : List Resp
  deriving DecidableEq, Repr

inductive Label
  | clock (t : Nat)
  | u (changed : Bool)
  | req (r : Request)
  deriving DecidableEq, Repr

def serialOf (ver : Nat) : Nat := ver % serialMod

def stepU (v : Variant) (s : State) (changed : Bool) : Option State :=
  match s.upc with
  | .idle => some { s with upc := .start }
  | .start => some { s with upc := .read }
  | .read => some { s with upc := .install }
  | .install =>
    -- first install: serial stays 0; later installs: a changed data set pushes a delta
    let s2 : State := { s with active := true, upc := .mark, epoch := s.epoch + 1,
                               ver := if s.active && changed then s.ver + 1 else s.ver }
    match v with
    | .found => some s2
    | .repaired => some { s2 with created := some (bump s.created s.now) }
  | .mark =>
    match v with
    | .found => some { s with upc := .notify, created := some (bump s.created s.now) }
    | .repaired => some { s with upc := .notify }
  | .notify => some { s with upc := .start }

/-- `Response::maybe_not_modified(req, etag, done)`. -/
def notModified (r : Request) (etag : Nat × Nat) (created : Nat) : Bool :=
  if r.star then true
  else if r.inm.any (fun t => t == etag) then true
  else match r.ims with
    | some d => decide (d * nanos ≥ created)
    | none => false

/-- `payload::State::handle_get_or_head` after its single read-lock section. -/
def stepReq (session : Nat) (s : State) (r : Request) : Option State :=
  match s.active, s.created with
  | true, some c =>
    let v : Issued := { etag := (session, serialOf s.ver), lm := c / nanos, ver := s.ver,
                        epoch := s.epoch }
    let status := if notModified r v.etag c then 304 else 200
    some { s with
      issued := v :: s.issued
      resps := { req := r, status := status, validators := some v, ver := s.ver, epoch := s.epoch,
                 issuedBefore := s.issued } :: s.resps }
  | _, _ =>
    some { s with
      resps := { req := r, status := 503, validators := none, ver := s.ver, epoch := s.epoch,
                 issuedBefore := s.issued } :: s.resps }

def step (v : Variant) (session : Nat) (s : State) : Label → Option State
  | .clock t => some { s with now := t }
  | .u ch => stepU v s ch
  | .req r => stepReq session s r

def init (now : Nat) : State :=
  { now := now, active := false, ver := 0, epoch := 0, created := none, upc := .idle,
    issued := [], resps := [] }

def sys (v : Variant) (session now : Nat) : Sys :=
  { State := State, Label := Label, step := step v session, init := init now }

/-- The request presents exactly (a subset of) the validators of the earlier response `e`. -/
def presents (r : Request) (e : Issued) : Prop :=
  r.star = false ∧ (∀ t ∈ r.inm, t = e.etag) ∧ (∀ d, r.ims = some d → d = e.lm)

end RoutinatorModel.Http304
