import RoutinatorModel.Model.Paths
/-!
# C31 — dubious authorities and the two fetch gates

`hasDubiousAuthority` transcribes `utils::uri::UriExt::has_dubious_authority` (repaired: the
`localhost` comparison ignores ASCII case): the authority is `localhost`, contains a colon (explicit
port, or an IPv6 literal), or parses as an IP address (`IpAddr::from_str`; without a colon that can
only be the strict dotted quad of `Ipv4Addr::from_str`: four decimal groups of 1–3 digits, no
leading zero, value ≤ 255).

The gates: `collector::rsync::Run::load_module` and `collector::rrdp::Run::load_repository` as
functions from the run state and a request to the fetches started and the new state.
-/
namespace RoutinatorModel.Dubious
open RoutinatorModel.Paths

def sLocalhost : Str := [108,111,99,97,108,104,111,115,116]   -- "localhost"

/-- Split at `sep` (always at least one piece). -/
def splitAt (sep : Nat) : Str → List Str
  | [] => [[]]
  | c :: cs =>
    if c = sep then [] :: splitAt sep cs
    else match splitAt sep cs with
      | [] => [[c]]
      | h :: t => (c :: h) :: t

def isDigit (b : Nat) : Bool := decide (48 ≤ b ∧ b ≤ 57)

def decValue (s : Str) : Nat := s.foldl (fun acc b => acc * 10 + (b - 48)) 0

/-- One group of `Ipv4Addr::from_str`: `read_number(10, Some(3), allow_zero_prefix = false)` into a `u8`. -/
def octetOk (s : Str) : Bool :=
  !s.isEmpty && decide (s.length ≤ 3) && s.all isDigit
    && (decide (s.length = 1) || s.head? != some 48) && decide (decValue s ≤ 255)

def isIpv4 (a : Str) : Bool :=
  match splitAt 46 a with
  | [p, q, r, s] => octetOk p && octetOk q && octetOk r && octetOk s
  | _ => false

/-- `has_dubious_authority` on the raw authority string. -/
def hasDubiousAuthority (a : Str) : Bool :=
  (canon a == sLocalhost) || a.contains 58 || isIpv4 a

/-- The unrepaired comparison (`authority == "localhost"`), kept for the negation witness. -/
def hasDubiousAuthorityOld (a : Str) : Bool :=
  (a == sLocalhost) || a.contains 58 || isIpv4 a

/-! ## The gates -/

/-- A fetch that was started. -/
inductive Fetch
  /-- `rsync … rsync://<authority>/<module>/ <dir>` (authority lower-cased by `Module::from_uri`). -/
  | rsync (auth module : Str)
  /-- an RRDP update (`RepositoryUpdate::try_update`) of the repository with this rpkiNotify URI. -/
  | rrdp (auth path : Str)
deriving Repr, DecidableEq

def Fetch.auth : Fetch → Str
  | .rsync a _ => a
  | .rrdp a _ => a

/-- The four results of an RRDP load. -/
inductive Load | unavailable | stale | current | updated
deriving Repr, DecidableEq

/-- State of one collector run. -/
structure Run where
  /-- rsync `updated`: modules (canonical authority, module) already handled. -/
  modules : List (Str × Str)
  /-- RRDP `updated`: (canonical authority, path) ↦ result. -/
  repos : List ((Str × Str) × Load)
deriving Repr

def Run.empty : Run := ⟨[], []⟩

/-- `rsync::Run::load_module(uri)`. `hasCommand = false` models `command: None`. -/
def loadModule (filter hasCommand : Bool) (r : Run) (auth module : Str) : List Fetch × Run :=
  if !hasCommand then ([], r)
  else
    let key := (canon auth, module)
    if key ∈ r.modules then ([], r)
    else
      let fetches := if filter && hasDubiousAuthority auth then [] else [Fetch.rsync (canon auth) module]
      (fetches, { r with modules := key :: r.modules })

def lookupRepo (repos : List ((Str × Str) × Load)) (key : Str × Str) : Option Load :=
  match repos.find? (fun e => e.1 == key) with
  | some e => some e.2
  | none => none

/-- `rrdp::Run::load_repository(rpki_notify)`; `net` is what an update attempt would yield. -/
def loadRepository (filter : Bool) (net : Str × Str → Load) (r : Run) (auth path : Str) :
    List Fetch × Load × Run :=
  let key := (canon auth, path)
  match lookupRepo r.repos key with
  | some res => ([], res, r)
  | none =>
    if filter && hasDubiousAuthority auth then
      ([], .unavailable, { r with repos := (key, .unavailable) :: r.repos })
    else
      let res := net key
      ([Fetch.rrdp auth path], res, { r with repos := (key, res) :: r.repos })

/-- A request made of the collector during a run. -/
inductive Req
  | module (auth module : Str)
  | repository (auth path : Str)
deriving Repr

def stepReq (filter hasCommand : Bool) (net : Str × Str → Load) (r : Run) : Req → List Fetch × Run
  | .module a m => loadModule filter hasCommand r a m
  | .repository a p =>
    let (f, _, r') := loadRepository filter net r a p
    (f, r')

/-- All fetches started by a sequence of requests. -/
def runReqs (filter hasCommand : Bool) (net : Str × Str → Load) : Run → List Req → List Fetch
  | _, [] => []
  | r, q :: qs =>
    let (f, r') := stepReq filter hasCommand net r q
    f ++ runReqs filter hasCommand net r' qs

end RoutinatorModel.Dubious
