/-!
# Model of `src/utils/binio.rs` (Compose / Parse primitives) — C27, C28

Byte-level encoders (`enc`) and decoders (`dec`) for every type that has a `Compose`/`Parse`
implementation in `binio.rs`, plus the two hand-written sum encodings of `src/store.rs`
(`UpdateStatus`, the optional manifest hash of `StoredObject`).

* Bytes are `List UInt8`; fixed-width integers are `Nat`/`Int` with explicit range conditions.
* A decoder is a function `Bytes → DOut α`: the outcome (`ok (value, rest)`, `eof`, `format` — the
  three classes `ParseError` distinguishes via `is_eof`/`is_fatal`; real I/O errors are not
  modelled) **and** the list of buffer sizes (in bytes) requested from the allocator on the way,
  in particular those requested *before* the corresponding input has been seen
  (`vec![0u8; len]`, `HashMap::with_capacity`). C28 uses `.res`, C27 uses `.allocs`.
* Everything that is a constant in the Rust source and that one side could change without the
  other (option markers, enum tags, the pre-allocation policy) is a field of `Params`; the actual
  values are extracted from the source into `Generated/RecordLayouts.lean`. Theorems are proved for
  every `Params` satisfying the decidable `paramsOk` / `allocOk`.

No Mathlib; everything is executable (the driver `drv-codec` runs these definitions).
-/
namespace RoutinatorModel.Codec

abbrev Bytes := List UInt8

/-! ## Parameters taken from the source text -/

structure Params where
  /-- `Option<i64>`: octet written for `None` / `Some`, octet accepted as `None` / `Some`. -/
  optI64NoneW : Nat
  optI64SomeW : Nat
  optI64NoneR : Nat
  optI64SomeR : Nat
  /-- `Option<uri::Https>`: value of the u32 length field that stands for `None`. -/
  optHttpsNoneW : Nat
  optHttpsNoneR : Nat
  /-- `Option<Bytes>`: value of the u64 length field that stands for `None` (`u64::MAX`). -/
  optBytesNoneW : Nat
  optBytesNoneR : Nat
  /-- `Option<Time>`: timestamp that stands for `None` (`i64::MIN`). -/
  optTimeNoneW : Int
  optTimeNoneR : Int
  /-- `UpdateStatus` tags (`store.rs`). -/
  stSuccessW : Nat
  stAttemptW : Nat
  stSuccessR : Nat
  stAttemptR : Nat
  /-- `StoredObject` hash-type octet (`store.rs`): 0 = none, 1 = SHA-256. -/
  objHashNoneW : Nat
  objHashSomeW : Nat
  objHashNoneR : Nat
  objHashSomeR : Nat
  /-- C27: length-prefixed bodies are read without allocating the *declared* length up front
  (`take(len).read_to_end`) — `false` models `vec![0u8; len]; read_exact`. -/
  readChecked : Bool
  /-- C27: the map decoder pre-allocates `min(len, mapCap)` entries (`true`) or `max(len, mapCap)`. -/
  mapCapMin : Bool
  mapCap : Nat
  /-- The number of entries the map decoder *reads*: the count found in the input (`none`), or
  that count capped (`some c`: `for _ in 0..min(len, c)`) — which silently drops entries. Kept
  apart from the pre-allocation policy above on purpose. -/
  mapLoopCap : Option Nat
  deriving DecidableEq, Repr

/-! ## Big-endian integers -/

/-- The `k` low-order octets of `n`, most significant first (`to_be_bytes`). -/
def beBytes : Nat → Nat → Bytes
  | 0, _ => []
  | k+1, n => UInt8.ofNat (n / 256 ^ k) :: beBytes k n

/-- `from_be_bytes`. -/
def beVal (bs : Bytes) : Nat := bs.foldl (fun acc b => acc * 256 + b.toNat) 0

/-- Two's complement. -/
def i64ToU64 (i : Int) : Nat := (i % 2 ^ 64).toNat
def u64ToI64 (n : Nat) : Int := if n < 2 ^ 63 then (n : Int) else (n : Int) - 2 ^ 64

def i64Min : Int := -(2 ^ 63)
def inI64 (i : Int) : Bool := decide (-(2 ^ 63) ≤ i) && decide (i < 2 ^ 63)

/-! ## Decoder plumbing -/

inductive DErr
  | eof
  | format
  deriving DecidableEq, Repr

instance {ε α : Type} [DecidableEq ε] [DecidableEq α] : DecidableEq (Except ε α) := fun a b =>
  match a, b with
  | .ok x, .ok y => if h : x = y then isTrue (by rw [h]) else isFalse (fun hc => by cases hc; exact h rfl)
  | .error x, .error y =>
    if h : x = y then isTrue (by rw [h]) else isFalse (fun hc => by cases hc; exact h rfl)
  | .ok _, .error _ => isFalse (fun hc => by cases hc)
  | .error _, .ok _ => isFalse (fun hc => by cases hc)

structure DOut (α : Type) where
  res : Except DErr (α × Bytes)
  allocs : List Nat

abbrev Dec (α : Type) := Bytes → DOut α

def Dec.pure {α : Type} (a : α) : Dec α := fun s => ⟨.ok (a, s), []⟩

def Dec.bind {α β : Type} (m : Dec α) (f : α → Dec β) : Dec β := fun s =>
  match m s with
  | ⟨.error e, al⟩ => ⟨.error e, al⟩
  | ⟨.ok (a, s'), al⟩ => ⟨(f a s').res, al ++ (f a s').allocs⟩

instance : Monad Dec where
  pure := Dec.pure
  bind := Dec.bind

def fail {α : Type} (e : DErr) : Dec α := fun _ => ⟨.error e, []⟩

/-- `read_exact` into a buffer that already exists (stack array): no allocation. -/
def readExact (n : Nat) : Dec Bytes := fun s =>
  if n ≤ s.length then ⟨.ok (s.take n, s.drop n), []⟩ else ⟨.error .eof, []⟩

/-- Records an allocation request of `n` bytes. -/
def alloc (n : Nat) : Dec Unit := fun s => ⟨.ok ((), s), [n]⟩

/-- Reads a body whose length `n` was announced by an (untrusted) length field.

* unrepaired code: `let mut bits = vec![0u8; n]; source.read_exact(&mut bits)?` — one request of
  exactly `n` bytes before any input is looked at;
* repaired code: `source.take(n).read_to_end(&mut bits)` followed by a length check — the vector
  grows with the data that actually arrives; `Vec`'s amortised doubling (and `read_to_end`'s
  32-byte probe) keep every request below `2 * min n available + 32`. The model records that
  bound as the request. -/
def readVec (P : Params) (n : Nat) : Dec Bytes := fun s =>
  let req := if P.readChecked then 2 * min n s.length + 32 else n
  ⟨(readExact n s).res, [req]⟩

def readBE (k : Nat) : Dec Nat := do
  let bs ← readExact k
  pure (beVal bs)

def readI64 : Dec Int := do
  let n ← readBE 8
  pure (u64ToI64 n)

/-! ## URI validation (`rpki::uri`, transcribed) -/

def c (ch : Char) : UInt8 := UInt8.ofNat ch.toNat

/-- `is_u8_uri_ascii`: `!` | `$`..=`;` | `=` | `A`..=`Z` | `_` | `a`..=`z` | `~`. -/
def isUriAscii (b : UInt8) : Bool :=
  let n := b.toNat
  n == 0x21 || (0x24 ≤ n && n ≤ 0x3b) || n == 0x3d || (0x41 ≤ n && n ≤ 0x5a) || n == 0x5f
    || (0x61 ≤ n && n ≤ 0x7a) || n == 0x7e

def toLowerAscii (b : UInt8) : UInt8 :=
  if 0x41 ≤ b.toNat && b.toNat ≤ 0x5a then UInt8.ofNat (b.toNat + 32) else b

/-- `starts_with_ignore_case(s, expected)` for a lower-case `expected`. -/
def startsWithIgnoreCase (s expected : Bytes) : Bool :=
  expected.length ≤ s.length && (s.take expected.length).map toLowerAscii == expected

def rsyncScheme : Bytes := "rsync://".toList.map c
def httpsScheme : Bytes := "https://".toList.map c

/-- Splits at every `/` (like `slice::split`): always at least one item. -/
def splitSlash : Bytes → List Bytes
  | [] => [[]]
  | b :: rest =>
    match splitSlash rest with
    | [] => [[]]            -- unreachable
    | seg :: segs => if b == 0x2f then [] :: seg :: segs else (b :: seg) :: segs

/-- `Rsync::check_path`: no `.`/`..` segment before the first empty segment; an empty segment
only as the very last one. -/
def checkPathSegs : List Bytes → Bool
  | [] => true
  | seg :: rest =>
    if seg.isEmpty then rest.isEmpty
    else if seg == [0x2e, 0x2e] || seg == [0x2e] then false
    else checkPathSegs rest

/-- `uri::Rsync::from_bytes` succeeds. -/
def validRsync (u : Bytes) : Bool :=
  u.all isUriAscii && startsWithIgnoreCase u rsyncScheme &&
  (let segs := splitSlash (u.drop 8)
   checkPathSegs segs &&
   -- `splitn(3, '/')`: non-empty authority, non-empty module, and a third part exists
   match segs with
   | a :: m :: _ :: _ => !a.isEmpty && !m.isEmpty
   | _ => false)

/-- `uri::Https::from_bytes` succeeds. -/
def validHttps (u : Bytes) : Bool :=
  u.all isUriAscii && startsWithIgnoreCase u httpsScheme

/-! ## Time -/

/-- The timestamps `Utc.timestamp_opt(secs, 0).single()` accepts (chrono 0.4: years −262143 ..= 262142). -/
def tsMin : Int := -8334601228800
def tsMax : Int := 8210266876799
def timeValid (secs : Int) : Bool := decide (tsMin ≤ secs) && decide (secs ≤ tsMax)

/-! ## HashMap pre-allocation -/

/-- Smallest power of two `≥ n` (fuel-bounded doubling; `fuel ≥ log2 n` suffices). -/
def nextPow2Aux : Nat → Nat → Nat → Nat
  | 0, p, _ => p
  | fuel+1, p, n => if n ≤ p then p else nextPow2Aux fuel (2 * p) n

def nextPow2 (n : Nat) : Nat := nextPow2Aux 64 1 n

/-- hashbrown's `capacity_to_buckets`. -/
def hmBuckets (cap : Nat) : Nat :=
  if cap < 4 then 4 else if cap < 8 then 8 else nextPow2 (cap * 8 / 7)

/-- Bytes requested by `HashMap::<u64, rrdp::Hash>::with_capacity(cap)` (hashbrown, 40-byte
entries, 16-byte control groups); nothing is allocated for capacity 0. -/
def hmBytes (cap : Nat) : Nat :=
  if cap = 0 then 0
  else
    let b := hmBuckets cap
    (b * 40 + 15) / 16 * 16 + b + 16

def mapPrealloc (P : Params) (len : Nat) : Nat :=
  hmBytes (if P.mapCapMin then min len P.mapCap else max len P.mapCap)

/-! ## Values and field types -/

inductive Val
  | n (v : Nat)
  | i (v : Int)
  | oi (v : Option Int)
  | b (v : Bytes)
  | ob (v : Option Bytes)
  | t (secs : Int) (nanos : Nat)
  | ot (v : Option (Int × Nat))
  | m (v : List (Nat × Bytes))
  | st (success : Bool) (secs : Int) (nanos : Nat)
  deriving DecidableEq, Repr

inductive FT
  | u8 | u32 | u64 | i64 | optI64
  | rsync | https | optHttps
  | bytes | optBytes
  | uuid | hash | serial
  | time | optTime
  | mapU64Hash
  | updStatus
  | optMftHash
  deriving DecidableEq, Repr

/-- A length prefix of `k` octets; `None` when `uN::try_from(len)` fails. -/
def encLen (k n : Nat) : Option Bytes := if n < 256 ^ k then some (beBytes k n) else none

def encI64 (i : Int) : Option Bytes := if inI64 i then some (beBytes 8 (i64ToU64 i)) else none

def encTag (t : Nat) : Option Bytes := if t < 256 then some [UInt8.ofNat t] else none

def encPairs : List (Nat × Bytes) → Option Bytes
  | [] => some []
  | (k, h) :: rest => do
    let kb ← encLen 8 k
    let rb ← encPairs rest
    pure (kb ++ h ++ rb)

/-- `compose`: `none` when the Rust function returns an error (length does not fit) or when the
value is not of the field's type. -/
def enc (P : Params) : FT → Val → Option Bytes
  | .u8, .n v => encLen 1 v
  | .u32, .n v => encLen 4 v
  | .u64, .n v => encLen 8 v
  | .i64, .i v => encI64 v
  | .optI64, .oi none => encTag P.optI64NoneW
  | .optI64, .oi (some v) => do pure ((← encTag P.optI64SomeW) ++ (← encI64 v))
  | .rsync, .b u => do pure ((← encLen 4 u.length) ++ u)
  | .https, .b u => do pure ((← encLen 4 u.length) ++ u)
  | .optHttps, .ob none => encLen 4 P.optHttpsNoneW
  | .optHttps, .ob (some u) => do pure ((← encLen 4 u.length) ++ u)
  | .bytes, .b d => do pure ((← encLen 8 d.length) ++ d)
  | .optBytes, .ob none => encLen 8 P.optBytesNoneW
  | .optBytes, .ob (some d) => do pure ((← encLen 8 d.length) ++ d)
  | .uuid, .b d => some d
  | .hash, .b d => some d
  | .serial, .b d => some d
  | .time, .t secs _ => encI64 secs
  | .optTime, .ot none => encI64 P.optTimeNoneW
  | .optTime, .ot (some (secs, _)) => encI64 secs
  | .mapU64Hash, .m l => do pure ((← encLen 8 l.length) ++ (← encPairs l))
  | .updStatus, .st success secs _ =>
    do pure ((← encTag (if success then P.stSuccessW else P.stAttemptW)) ++ (← encI64 secs))
  | .optMftHash, .ob none => encTag P.objHashNoneW
  | .optMftHash, .ob (some h) => do pure ((← encTag P.objHashSomeW) ++ h)
  | _, _ => none

def decUri (P : Params) (valid : Bytes → Bool) (len : Nat) : Dec Bytes := do
  let body ← readVec P len
  if valid body then pure body else fail .format

def decTime : Dec (Int × Nat) := do
  let secs ← readI64
  if timeValid secs then pure (secs, 0) else fail .format

/-- `for _ in 0..len { res.insert(K::parse()?, V::parse()?) … "duplicate keys" }`. -/
def decMapLoop : Nat → List (Nat × Bytes) → Dec (List (Nat × Bytes))
  | 0, acc => pure acc.reverse
  | n+1, acc => do
    let k ← readBE 8
    let h ← readExact 32
    if acc.any (fun e => e.1 == k) then fail .format else decMapLoop n ((k, h) :: acc)

/-- How many entries the map decoder reads for an announced count of `len`. -/
def mapLoopCount (P : Params) (len : Nat) : Nat :=
  match P.mapLoopCap with
  | none => len
  | some c => min len c

/-- `parse`. -/
def dec (P : Params) : FT → Dec Val
  | .u8 => do pure (.n (← readBE 1))
  | .u32 => do pure (.n (← readBE 4))
  | .u64 => do pure (.n (← readBE 8))
  | .i64 => do pure (.i (← readI64))
  | .optI64 => do
    let tag ← readBE 1
    if tag = P.optI64NoneR then pure (.oi none)
    else if tag = P.optI64SomeR then do pure (.oi (some (← readI64)))
    else fail .format
  | .rsync => do
    let len ← readBE 4
    pure (.b (← decUri P validRsync len))
  | .https => do
    let len ← readBE 4
    pure (.b (← decUri P validHttps len))
  | .optHttps => do
    let len ← readBE 4
    if len = P.optHttpsNoneR then pure (.ob none)
    else do pure (.ob (some (← decUri P validHttps len)))
  | .bytes => do
    let len ← readBE 8
    pure (.b (← readVec P len))
  | .optBytes => do
    let len ← readBE 8
    if len = P.optBytesNoneR then pure (.ob none)
    else do pure (.ob (some (← readVec P len)))
  | .uuid => do pure (.b (← readExact 16))
  | .hash => do pure (.b (← readExact 32))
  | .serial => do
    let d ← readExact 20
    -- `Serial::from_array`: the left-most bit must be 0
    if (d.headD 0).toNat < 128 then pure (.b d) else fail .format
  | .time => do
    let (secs, nanos) ← decTime
    pure (.t secs nanos)
  | .optTime => do
    let secs ← readI64
    if secs = P.optTimeNoneR then pure (.ot none)
    else if timeValid secs then pure (.ot (some (secs, 0)))
    else fail .format
  | .mapU64Hash => do
    let len ← readBE 8
    alloc (mapPrealloc P len)
    pure (.m (← decMapLoop (mapLoopCount P len) []))
  | .updStatus => do
    let tag ← readBE 1
    if tag = P.stSuccessR then do
      let (secs, nanos) ← decTime
      pure (.st true secs nanos)
    else if tag = P.stAttemptR then do
      let (secs, nanos) ← decTime
      pure (.st false secs nanos)
    else fail .format
  | .optMftHash => do
    let tag ← readBE 1
    if tag = P.objHashNoneR then pure (.ob none)
    else if tag = P.objHashSomeR then do
      alloc 32                                    -- `vec![0u8; algorithm.digest_len()]`
      pure (.ob (some (← readExact 32)))
    else fail .format

/-! ## Well-formed values (the values the Rust types can hold and `compose` accepts) -/

def wfPairs : List (Nat × Bytes) → Bool
  | [] => true
  | (k, h) :: rest =>
    decide (k < 2 ^ 64) && h.length == 32 && !(rest.any (fun e => e.1 == k)) && wfPairs rest

def wfv (P : Params) : FT → Val → Bool
  | .u8, .n v => decide (v < 2 ^ 8)
  | .u32, .n v => decide (v < 2 ^ 32)
  | .u64, .n v => decide (v < 2 ^ 64)
  | .i64, .i v => inI64 v
  | .optI64, .oi none => true
  | .optI64, .oi (some v) => inI64 v
  | .rsync, .b u => decide (u.length < 2 ^ 32) && validRsync u
  | .https, .b u => decide (u.length < 2 ^ 32) && validHttps u
  | .optHttps, .ob none => true
  | .optHttps, .ob (some u) =>
    decide (u.length < 2 ^ 32) && validHttps u && decide (u.length ≠ P.optHttpsNoneR)
  | .bytes, .b d => decide (d.length < 2 ^ 64)
  | .optBytes, .ob none => true
  | .optBytes, .ob (some d) => decide (d.length < 2 ^ 64) && decide (d.length ≠ P.optBytesNoneR)
  | .uuid, .b d => d.length == 16
  | .hash, .b d => d.length == 32
  | .serial, .b d => d.length == 20 && decide ((d.headD 0).toNat < 128)
  | .time, .t secs nanos => timeValid secs && nanos == 0
  | .optTime, .ot none => true
  | .optTime, .ot (some (secs, nanos)) =>
    timeValid secs && nanos == 0 && decide (secs ≠ P.optTimeNoneR)
  | .mapU64Hash, .m l => decide (l.length < 2 ^ 64) && wfPairs l
  | .updStatus, .st _ secs nanos => timeValid secs && nanos == 0
  | .optMftHash, .ob none => true
  | .optMftHash, .ob (some h) => h.length == 32
  | _, _ => false

/-- Writer and reader agree on every marker and tag, and the markers are representable. -/
def paramsOk (P : Params) : Bool :=
  decide (P.optI64NoneW = P.optI64NoneR) && decide (P.optI64SomeW = P.optI64SomeR) &&
  decide (P.optI64NoneR ≠ P.optI64SomeR) && decide (P.optI64NoneW < 256) &&
  decide (P.optI64SomeW < 256) &&
  decide (P.optHttpsNoneW = P.optHttpsNoneR) && decide (P.optHttpsNoneW < 2 ^ 32) &&
  decide (P.optBytesNoneW = P.optBytesNoneR) && decide (P.optBytesNoneW < 2 ^ 64) &&
  decide (P.optTimeNoneW = P.optTimeNoneR) && inI64 P.optTimeNoneW &&
  decide (P.stSuccessW = P.stSuccessR) && decide (P.stAttemptW = P.stAttemptR) &&
  decide (P.stSuccessR ≠ P.stAttemptR) && decide (P.stSuccessW < 256) &&
  decide (P.stAttemptW < 256) &&
  decide (P.objHashNoneW = P.objHashNoneR) && decide (P.objHashSomeW = P.objHashSomeR) &&
  decide (P.objHashNoneR ≠ P.objHashSomeR) && decide (P.objHashNoneW < 256) &&
  decide (P.objHashSomeW < 256) && P.mapLoopCap.isNone

/-- The two C27 repairs are in place. -/
def allocOk (P : Params) : Bool := P.readChecked && P.mapCapMin

/-- What a written value reads back as when it is *not* whole-second: the formats store
`timestamp()` only. -/
def truncVal : Val → Val
  | .t secs _ => .t secs 0
  | .ot (some (secs, _)) => .ot (some (secs, 0))
  | .st s secs _ => .st s secs 0
  | v => v

end RoutinatorModel.Codec
