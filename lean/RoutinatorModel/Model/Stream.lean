import RoutinatorModel.Model.Template
/-!
# `/json-delta`: `DeltaStream` and `SnapshotStream` (src/http/delta.rs)

Items arrive with their fields already formatted by `Display` (`AS64496`, `10.0.0.0`, `24`,
hex key identifier, base64 key info): the formatting of numbers, addresses and keys by the
`rpki` crate and `std` is not modelled, only its alphabet is assumed (`itemOkB`).

* `itemText` — `DeltaStream::append_payload` without the leading comma.
* `deltaChunks τ` / `snapshotChunks τ` — the `Bytes` the two iterators yield, loop iteration
  by loop iteration: the length test comes first, then one piece is appended (an item with
  its comma, the separator, the footer). `τ` is the 64 000 of the source.
* `deltaDoc` / `snapshotDoc` — the document: header, comma-separated items, footer.
-/
namespace RoutinatorModel.Stream
open RoutinatorModel.Json

/-! ## The format strings of `delta.rs` (compared with `Generated.deltaTemplates`) -/

def deltaHeader : List Seg :=
  [.lit (cp!"{\n  \"reset\": false,\n  \"session\": \""),
   .hole .nat,
   .lit (cp!"\",\n  \"serial\": "),
   .hole .nat,
   .lit (cp!",\n  \"fromSerial\": "),
   .hole .nat,
   .lit (cp!",\n  \"generated\": "),
   .hole .int,
   .lit (cp!",\n  \"generatedTime\": \""),
   .hole .date,
   .lit (cp!"\",\n  \"announced\": [")]

def deltaSeparator : Text := cp!"\n  ],\n  \"withdrawn\": ["

def itemComma : Text := cp!","

def itemOrigin : List Seg :=
  [.lit (cp!"\n    {\n        \"type\": \"routeOrigin\",\n        \"asn\": \""),
   .hole .asn,
   .lit (cp!"\",\n        \"prefix\": \""),
   .hole .addr,
   .lit (cp!"/"),
   .hole .nat,
   .lit (cp!"\",\n        \"maxLength\": "),
   .hole .nat,
   .lit (cp!"\n    }")]

def itemRouterKey : List Seg :=
  [.lit (cp!"\n    {\n        \"type\": \"routerKey\",\n        \"keyIdentifier\": \""),
   .hole .hex,
   .lit (cp!"\",\n        \"asn\": \""),
   .hole .asn,
   .lit (cp!"\",\n        \"keyInfo\": \""),
   .hole .base64,
   .lit (cp!"\"\n                    \n    }")]

def itemAspaHead : List Seg :=
  [.lit (cp!"\n  {\n      \"type\": \"aspa\",\n                    \n      \"customerAsn\": \""),
   .hole .asn,
   .lit (cp!"\",\n      \"providerAsns\": [")]

def itemAspaFirst : List Seg := [.lit (cp!"\""), .hole .asn, .lit (cp!"\"")]

def itemAspaNext : List Seg := [.lit (cp!", \""), .hole .asn, .lit (cp!"\"")]

def itemAspaTail : Text := cp!"]\n\n    }"

def deltaFooter : Text := cp!"\n  ]\n}\n"

def snapshotHeader : List Seg :=
  [.lit (cp!"{\n  \"reset\": true,\n  \"session\": \""),
   .hole .nat,
   .lit (cp!"\",\n  \"serial\": "),
   .hole .nat,
   .lit (cp!",\n  \"generated\": "),
   .hole .int,
   .lit (cp!",\n  \"generatedTime\": \""),
   .hole .date,
   .lit (cp!"\",\n  \"announced\": [")]

/-- What `Generated.deltaTemplates` must be. -/
def deltaTemplates : List (Text × List Seg) := [
  (cp!"delta_header", deltaHeader),
  (cp!"delta_separator", [.lit deltaSeparator]),
  (cp!"item_comma", [.lit itemComma]),
  (cp!"item_origin", itemOrigin),
  (cp!"item_router_key", itemRouterKey),
  (cp!"item_aspa_head", itemAspaHead),
  (cp!"item_aspa_first", itemAspaFirst),
  (cp!"item_aspa_next", itemAspaNext),
  (cp!"item_aspa_tail", [.lit itemAspaTail]),
  (cp!"delta_footer", [.lit deltaFooter]),
  (cp!"snapshot_header", snapshotHeader)]

/-- Both iterators test `len > 64000`. -/
def streamThresholds : List (Nat × Nat) := [(0, 64000), (0, 64000)]

def threshold : Nat := 64000

/-! ## Items -/

/-- A payload item with its fields formatted. -/
inductive Item
  | origin (asn addr len maxLen : Text)
  | routerKey (keyId asn keyInfo : Text)
  | aspa (customer : Text) (providers : List Text)
  deriving Repr, DecidableEq

/-- The provider loop of the ASPA arm: `first` is the local flag of the same name. -/
def providersText : Bool → List Text → Text
  | _, [] => []
  | first, p :: rest =>
    fillFrom (if first then itemAspaFirst else itemAspaNext) [p] ++ providersText false rest

/-- `DeltaStream::append_payload` after the comma. -/
def itemText : Item → Text
  | .origin asn addr len maxLen => fillFrom itemOrigin [asn, addr, len, maxLen]
  | .routerKey keyId asn keyInfo => fillFrom itemRouterKey [keyId, asn, keyInfo]
  | .aspa customer providers =>
    fillFrom itemAspaHead [customer] ++ (providersText true providers ++ itemAspaTail)

/-- `append_payload(vec, payload, first)`. -/
def piece (first : Bool) (it : Item) : Text := (if first then [] else itemComma) ++ itemText it

/-- Items as the streams write them one after the other. -/
def itemsText : Bool → List Item → Text
  | _, [] => []
  | first, it :: rest => piece first it ++ itemsText false rest

/-! ## The delta stream -/

/-- Session, serials and creation time as formatted, and the delta's actions in delta
order (`true` = announce). -/
structure Delta where
  session : Text
  toSerial : Text
  fromSerial : Text
  generated : Text
  generatedTime : Text
  actions : List (Item × Bool)
  deriving Repr

def Delta.announced (d : Delta) : List Item := (d.actions.filter (·.2)).map (·.1)
def Delta.withdrawn (d : Delta) : List Item := (d.actions.filter (!·.2)).map (·.1)

def Delta.header (d : Delta) : Text :=
  fillFrom deltaHeader [d.session, d.toSerial, d.fromSerial, d.generated, d.generatedTime]

/-- The chunk being filled (`vec`) is kept as the list of the pieces appended so far, last
piece first, together with its length `len` = `vec.len()`. -/
def vecText (acc : List Text) : Text := acc.reverse.flatten

/-- `next_withdraw` iterations until the iterator is exhausted; `first` is the field of the
same name. Returns this and all later chunks. -/
def wdLoop (τ : Nat) : Bool → Nat → List Text → List Item → List Text
  | first, len, acc, it :: rest =>
    if len > τ then vecText acc :: wdLoop τ false (piece first it).length [piece first it] rest
    else wdLoop τ false (len + (piece first it).length) (piece first it :: acc) rest
  | _, len, acc, [] =>
    if len > τ then [vecText acc, deltaFooter] else [vecText (deltaFooter :: acc)]

/-- `next_announce` iterations, then the separator (which sets `first` again), then the
withdrawals. -/
def annLoop (τ : Nat) (wd : List Item) : Bool → Nat → List Text → List Item → List Text
  | first, len, acc, it :: rest =>
    if len > τ then vecText acc :: annLoop τ wd false (piece first it).length [piece first it] rest
    else annLoop τ wd false (len + (piece first it).length) (piece first it :: acc) rest
  | _, len, acc, [] =>
    if len > τ then vecText acc :: wdLoop τ true deltaSeparator.length [deltaSeparator] wd
    else wdLoop τ true (len + deltaSeparator.length) (deltaSeparator :: acc) wd

/-- All chunks of `DeltaStream` with chunk size `τ`. -/
def deltaChunks (τ : Nat) (d : Delta) : List Text :=
  annLoop τ d.withdrawn true d.header.length [d.header] d.announced

/-- The document a delta response is meant to be. -/
def deltaDoc (d : Delta) : Text :=
  d.header ++ (itemsText true d.announced ++ (deltaSeparator ++ (itemsText true d.withdrawn ++ deltaFooter)))

/-! ## The snapshot stream -/

structure Snapshot where
  session : Text
  toSerial : Text
  generated : Text
  generatedTime : Text
  items : List Item
  deriving Repr

def Snapshot.header (s : Snapshot) : Text :=
  fillFrom snapshotHeader [s.session, s.toSerial, s.generated, s.generatedTime]

/-- `SnapshotStream::next`: `first` is a *local* of each call, initialised with
`self.header.is_some()`; so after a chunk has been returned the next item gets a comma
whether or not an item has been written before. -/
def snapLoop (τ : Nat) : Bool → Nat → List Text → List Item → List Text
  | first, len, acc, it :: rest =>
    if len > τ then vecText acc :: snapLoop τ false (piece false it).length [piece false it] rest
    else snapLoop τ false (len + (piece first it).length) (piece first it :: acc) rest
  | _, len, acc, [] =>
    if len > τ then [vecText acc, deltaFooter] else [vecText (deltaFooter :: acc)]

def snapshotChunks (τ : Nat) (s : Snapshot) : List Text :=
  snapLoop τ true s.header.length [s.header] s.items

def snapshotDoc (s : Snapshot) : Text := s.header ++ (itemsText true s.items ++ deltaFooter)

/-! ## Field alphabets -/

/-- Characters `json_str` would leave alone, below 0x110000. -/
def plainB (s : Text) : Bool :=
  s.all fun c => decide (0x20 ≤ c) && c != 0x22 && c != 0x5C && decide (c ≤ 0x10FFFF)

/-- `0` or a decimal numeral without leading zero. -/
def intB : Text → Bool
  | [] => false
  | [0x30] => true
  | d :: ds => decide (0x31 ≤ d) && decide (d ≤ 0x39) && ds.all isDigit

def itemOkB : Item → Bool
  | .origin asn addr len maxLen => plainB asn && plainB addr && intB len && intB maxLen
  | .routerKey keyId asn keyInfo => plainB keyId && plainB asn && plainB keyInfo
  | .aspa customer providers => plainB customer && providers.all plainB

def Delta.okB (d : Delta) : Bool :=
  intB d.session && intB d.toSerial && intB d.fromSerial && isNumberB d.generated &&
    plainB d.generatedTime && d.actions.all fun a => itemOkB a.1

def Snapshot.okB (s : Snapshot) : Bool :=
  intB s.session && intB s.toSerial && isNumberB s.generated && plainB s.generatedTime &&
    s.items.all itemOkB

end RoutinatorModel.Stream
