import RoutinatorModel.Model.Keyed
/-!
# Model of `src/payload/delta.rs`

* a data set of route origins or router keys is a strictly increasing `List Nat`
  (ranks in Rust's `Ord`, as found in a `PayloadSnapshot`);
* the ASPA data set is a list of `(customer, providers)` with strictly increasing
  customers (`Aspa::key()`);
* `StandardDelta` / `AspaDelta` are key-sorted action lists plus the two counters
  maintained by `push`.

Each Rust loop is an instance of `mergeH`; the comments name the Rust arm.
-/
namespace RoutinatorModel

/-- `rpki::rtr::Action` -/
inductive Action | announce | withdraw
  deriving DecidableEq, Repr, Inhabited

/-- `AspaAction` of delta.rs: the action plus the providers *before* the change. -/
inductive AspaAction
  | announce
  | update (old : List Nat)
  | withdraw (old : List Nat)
  deriving DecidableEq, Repr, Inhabited

/-- `From<&AspaAction> for Action` -/
def AspaAction.toAction : AspaAction → Action
  | .announce => .announce
  | .update _ => .announce
  | .withdraw _ => .withdraw

/-- A standard data set as a keyed list. -/
def keyed (s : List Nat) : List (Nat × Unit) := s.map (fun k => (k, ()))

/-! ## StandardDelta -/

/-- `StandardDelta::construct`: only-old ⇒ Withdraw, only-new ⇒ Announce, both ⇒ nothing. -/
def stdConstruct (old new : List Nat) : List (Nat × Action) :=
  mergeH (fun _ => some Action.withdraw) (fun _ => some Action.announce) (fun _ _ => none)
    (keyed old) (keyed new)

/-- The action table of `StandardDelta::merge` for a key present in both deltas. -/
def stdMergeAct : Action → Action → Option Action
  | .announce, .announce => some .announce
  | .announce, .withdraw => none
  | .withdraw, .announce => none
  | .withdraw, .withdraw => some .withdraw

/-- `StandardDelta::merge` -/
def stdMerge (old new : List (Nat × Action)) : List (Nat × Action) :=
  mergeH some some stdMergeAct old new

/-- What a client does with a standard delta: announce inserts, withdraw removes. -/
def stdApplyAct : Action → Option Unit
  | .announce => some ()
  | .withdraw => none

def stdApply (s : List Nat) (d : List (Nat × Action)) : List Nat :=
  (mergeH some stdApplyAct (fun _ a => stdApplyAct a) (keyed s) d).map Prod.fst

/-! ## AspaDelta — values are `(providers of the item, AspaAction)` -/

abbrev AspaSet := List (Nat × List Nat)
abbrev AspaItems := List (Nat × (List Nat × AspaAction))

/-- `AspaDelta::construct`. Only-old ⇒ `AspaAction::withdraw` (item with empty providers,
remembering the old ones); only-new ⇒ Announce; both ⇒ Update iff providers differ. -/
def aspaConstruct (old new : AspaSet) : AspaItems :=
  mergeH (fun p => some ([], AspaAction.withdraw p)) (fun q => some (q, AspaAction.announce))
    (fun p q => if p ≠ q then some (q, AspaAction.update p) else none) old new

/-- The nine-arm table of `AspaDelta::merge`; `np` are the providers of the new item. -/
def aspaMergeTable (np : List Nat) : AspaAction → AspaAction → Option AspaAction
  | .announce, .announce => some .announce
  | .announce, .update _ => some .announce
  | .announce, .withdraw _ => none
  | .update p, .announce => some (.update p)
  | .update p, .update _ => if p = np then none else some (.update p)
  | .update p, .withdraw _ => some (.withdraw p)
  | .withdraw p, .announce => if p = np then none else some (.update p)
  | .withdraw p, .update _ => if p = np then none else some (.update p)
  | .withdraw p, .withdraw _ => some (.withdraw p)

def aspaMergeAct (o n : List Nat × AspaAction) : Option (List Nat × AspaAction) :=
  (aspaMergeTable n.1 o.2 n.2).map (fun a => (n.1, a))

/-- `AspaDelta::merge` -/
def aspaMerge (old new : AspaItems) : AspaItems :=
  mergeH some some aspaMergeAct old new

def aspaApplyAct : List Nat × AspaAction → Option (List Nat)
  | (_, .withdraw _) => none
  | (p, _) => some p

/-- What a client does with an ASPA delta: announce replaces the entry for the
customer, withdraw removes it. -/
def aspaApply (s : AspaSet) (d : AspaItems) : AspaSet :=
  mergeH some aspaApplyAct (fun _ x => aspaApplyAct x) s d

/-! ## Counters (`push`) -/

structure Counted (V : Type) where
  items : List (Nat × V)
  announceLen : Nat
  withdrawLen : Nat

def Counted.push {V : Type} (isAnn : V → Bool) (d : Counted V) (x : Nat × V) : Counted V :=
  if isAnn x.2 then { d with items := d.items ++ [x], announceLen := d.announceLen + 1 }
  else { d with items := d.items ++ [x], withdrawLen := d.withdrawLen + 1 }

/-- `Self::default()` followed by `push` of every item in order. -/
def Counted.ofItems {V : Type} (isAnn : V → Bool) (l : List (Nat × V)) : Counted V :=
  l.foldl (Counted.push isAnn) ⟨[], 0, 0⟩

def Action.isAnn : Action → Bool
  | .announce => true
  | .withdraw => false

def aspaIsAnn (x : List Nat × AspaAction) : Bool := x.2.toAction.isAnn

/-! ## PayloadSnapshot / PayloadDelta -/

structure Snapshot where
  origins : List Nat
  routerKeys : List Nat
  aspas : AspaSet
  deriving DecidableEq, Repr, Inhabited

structure PayloadDelta where
  serial : Nat          -- a `Serial`, kept `< 2^32`
  origins : List (Nat × Action)
  routerKeys : List (Nat × Action)
  aspas : AspaItems
  deriving DecidableEq, Repr, Inhabited

def serialMod : Nat := 4294967296

/-- `Serial::add` -/
def serialAdd (s n : Nat) : Nat := (s + n) % serialMod

def PayloadDelta.empty (serial : Nat) : PayloadDelta := ⟨serial, [], [], []⟩

def PayloadDelta.isEmpty (d : PayloadDelta) : Bool :=
  d.origins.isEmpty && d.routerKeys.isEmpty && d.aspas.isEmpty

/-- `PayloadDelta::construct` -/
def PayloadDelta.construct (old new : Snapshot) (serial : Nat) : Option PayloadDelta :=
  let res : PayloadDelta :=
    { serial := serialAdd serial 1
      origins := stdConstruct old.origins new.origins
      routerKeys := stdConstruct old.routerKeys new.routerKeys
      aspas := aspaConstruct old.aspas new.aspas }
  if res.isEmpty then none else some res

/-- `PayloadDelta::merge` -/
def PayloadDelta.merge (self new : PayloadDelta) : PayloadDelta :=
  { serial := new.serial
    origins := stdMerge self.origins new.origins
    routerKeys := stdMerge self.routerKeys new.routerKeys
    aspas := aspaMerge self.aspas new.aspas }

def PayloadDelta.announceLen (d : PayloadDelta) : Nat :=
  (Counted.ofItems Action.isAnn d.origins).announceLen
  + (Counted.ofItems Action.isAnn d.routerKeys).announceLen
  + (Counted.ofItems aspaIsAnn d.aspas).announceLen

def PayloadDelta.withdrawLen (d : PayloadDelta) : Nat :=
  (Counted.ofItems Action.isAnn d.origins).withdrawLen
  + (Counted.ofItems Action.isAnn d.routerKeys).withdrawLen
  + (Counted.ofItems aspaIsAnn d.aspas).withdrawLen

/-- Applying a delta to a snapshot, type by type. -/
def PayloadDelta.apply (d : PayloadDelta) (s : Snapshot) : Snapshot :=
  { origins := stdApply s.origins d.origins
    routerKeys := stdApply s.routerKeys d.routerKeys
    aspas := aspaApply s.aspas d.aspas }

end RoutinatorModel
