import RoutinatorModel.Model.Binio
/-!
# Record layouts of the persisted records — C27, C28

A record type (`StoredPointHeader`, `StoredManifest`, `StoredObject`, `StoredStatus`,
`RepositoryState`) is described by *two* item lists: what `write`/`compose` emits, in order, and
what `read`/`parse` consumes, in order. Both lists are extracted from the Rust source
(`extract/layouts.py` → `Generated/RecordLayouts.lean`). The encoder looks fields up by name — as
the Rust code does (`self.not_after.compose(..)`) — so a field swapped on one side only yields a
layout whose two sides differ, and `layoutOk` turns false.

Also: the file-level protocols built from the records (`StoredPoint` file = header, manifest,
objects until EOF; `status.bin`) with the outcome classes of `StoredPoint::open`,
`StoredPoint::load_quietly`, `Store::status`.
-/
namespace RoutinatorModel.Codec

inductive Item
  /-- A constant octet: `Self::VERSION.compose(..)` / read and compare. -/
  | const (v : Nat)
  | field (name : String) (ty : FT)
  deriving DecidableEq, Repr

structure RecLayout where
  name : String
  write : List Item
  read : List Item
  deriving DecidableEq, Repr

abbrev Record := List (String × Val)

def Item.names : List Item → List String
  | [] => []
  | .const _ :: rest => Item.names rest
  | .field n _ :: rest => n :: Item.names rest

def constsOk : List Item → Bool
  | [] => true
  | .const v :: rest => decide (v < 256) && constsOk rest
  | .field _ _ :: rest => constsOk rest

/-- Both sides list the same items in the same order, field names are distinct. -/
def layoutOk (L : RecLayout) : Bool :=
  L.write == L.read && decide (Item.names L.read).Nodup && constsOk L.read

def encodeItems (P : Params) : List Item → Record → Option Bytes
  | [], _ => some []
  | .const v :: rest, r => do pure ((← encTag v) ++ (← encodeItems P rest r))
  | .field n ty :: rest, r => do
    let v ← r.lookup n
    pure ((← enc P ty v) ++ (← encodeItems P rest r))

def decodeItems (P : Params) : List Item → Dec Record
  | [] => pure []
  | .const v :: rest => do
    let b ← readBE 1
    if b = v then decodeItems P rest else fail .format
  | .field n ty :: rest => do
    let v ← dec P ty
    let r ← decodeItems P rest
    pure ((n, v) :: r)

def encodeRec (P : Params) (L : RecLayout) (r : Record) : Option Bytes := encodeItems P L.write r
def decodeRec (P : Params) (L : RecLayout) : Dec Record := decodeItems P L.read

/-- The record has exactly the layout's fields, in order, each well-formed for its type. -/
def wfItems (P : Params) : List Item → Record → Bool
  | [], [] => true
  | .const _ :: rest, r => wfItems P rest r
  | .field n ty :: rest, (n', v) :: r => n == n' && wfv P ty v && wfItems P rest r
  | _, _ => false

def wfRec (P : Params) (L : RecLayout) (r : Record) : Bool := wfItems P L.read r

def truncRec (r : Record) : Record := r.map (fun e => (e.1, truncVal e.2))

/-! ## `StoredObject::read`: an EOF while reading the first field means "no more objects" -/

/-- `StoredObject::read`: `Ok(None)` iff reading the leading URI hits EOF (anywhere inside it). -/
def decodeObjOpt (P : Params) (L : RecLayout) : Dec (Option Record) := fun s =>
  match L.read with
  | .field n ty :: rest =>
    let first := dec P ty s
    match first.res with
    | .error .eof => ⟨.ok (none, []), first.allocs⟩
    | .error e => ⟨.error e, first.allocs⟩
    | .ok (v, s') =>
      let more := decodeItems P rest s'
      match more.res with
      | .error e => ⟨.error e, first.allocs ++ more.allocs⟩
      | .ok (r, s'') => ⟨.ok (some ((n, v) :: r), s''), first.allocs ++ more.allocs⟩
  | _ => ⟨.error .format, []⟩

/-- Iterating a `StoredPoint` until `None` or the first error. -/
def decodeObjects (P : Params) (L : RecLayout) : Nat → Dec (List Record)
  | 0 => pure []
  | fuel+1 => fun s =>
    let one := decodeObjOpt P L s
    match one.res with
    | .error e => ⟨.error e, one.allocs⟩
    | .ok (none, s') => ⟨.ok ([], s'), one.allocs⟩
    | .ok (some r, s') =>
      let more := decodeObjects P L fuel s'
      match more.res with
      | .error e => ⟨.error e, one.allocs ++ more.allocs⟩
      | .ok (rs, s'') => ⟨.ok (r :: rs, s''), one.allocs ++ more.allocs⟩

def encodeObjects (P : Params) (L : RecLayout) : List Record → Option Bytes
  | [] => some []
  | r :: rs => do pure ((← encodeRec P L r) ++ (← encodeObjects P L rs))

/-! ## The stored-point file and `status.bin` -/

structure PointLayouts where
  header : RecLayout
  manifest : RecLayout
  object : RecLayout

/-- Whether the decoded header says `UpdateStatus::LastAttempt`. -/
def headerIsAttempt (h : Record) : Bool :=
  match h.lookup "update_status" with
  | some (.st false _ _) => true
  | _ => false

inductive OpenOutcome
  /-- header and manifest read; `objBytes` follow (positioned at the first object). -/
  | loaded (h m : Record) (objBytes : Bytes)
  /-- `LastAttempt` header: the file is rewritten with the attempt time set to now. -/
  | attempt (h : Record)
  /-- header unreadable (EOF or bad format, wrong version): discarded, fresh file created. -/
  | recreated
  /-- manifest unreadable: `Err(Failed)` with a logged error. -/
  | failed
  deriving DecidableEq, Repr

/-- `StoredPoint::open` on an existing file with the given content. -/
def openPoint (P : Params) (L : PointLayouts) (file : Bytes) : OpenOutcome × List Nat :=
  let h := decodeRec P L.header file
  match h.res with
  | .error _ => (.recreated, h.allocs)
  | .ok (hr, s) =>
    if headerIsAttempt hr then (.attempt hr, h.allocs)
    else
      let m := decodeRec P L.manifest s
      match m.res with
      | .error _ => (.failed, h.allocs ++ m.allocs)
      | .ok (mr, s') => (.loaded hr mr s', h.allocs ++ m.allocs)

/-- `StoredPoint::load_quietly`: `none` on any failure. -/
def loadQuietly (P : Params) (L : PointLayouts) (file : Bytes) :
    Option (Record × Option Record × Bytes) × List Nat :=
  let h := decodeRec P L.header file
  match h.res with
  | .error _ => (none, h.allocs)
  | .ok (hr, s) =>
    if headerIsAttempt hr then (some (hr, none, s), h.allocs)
    else
      let m := decodeRec P L.manifest s
      match m.res with
      | .error _ => (none, h.allocs ++ m.allocs)
      | .ok (mr, s') => (some (hr, some mr, s'), h.allocs ++ m.allocs)

/-- `Store::status` on an existing `status.bin` with the given content. -/
inductive StatusOutcome
  | ok (r : Record)
  /-- treated like a missing file (`Ok(None)`): rewritten at the end of the next run -/
  | missing
  /-- `Err(Failed)` with a logged error -/
  | failed
  deriving DecidableEq, Repr

/-- `unreadableIsNone`: whether the source maps an EOF / format error of `StoredStatus::read` to
`Ok(None)` (extracted; the pinned tree reported `Err(Failed)`, the C23 repair ignores the file). -/
def readStatus (P : Params) (L : RecLayout) (unreadableIsNone : Bool) (file : Bytes) :
    StatusOutcome × List Nat :=
  let d := decodeRec P L file
  match d.res with
  | .ok (r, _) => (.ok r, d.allocs)
  | .error _ => (if unreadableIsNone then .missing else .failed, d.allocs)

/-- What `StoredPoint::_update` writes: header, manifest, objects. -/
def encodePointFile (P : Params) (L : PointLayouts) (h m : Record) (objs : List Record) :
    Option Bytes := do
  pure ((← encodeRec P L.header h) ++ (← encodeRec P L.manifest m) ++ (← encodeObjects P L.object objs))

/-- Reading the whole file back: `open`, then iterate the objects to the end. -/
def decodePointFile (P : Params) (L : PointLayouts) (file : Bytes) :
    Except DErr (Record × Record × List Record) :=
  match (decodeRec P L.header file).res with
  | .error e => .error e
  | .ok (hr, s) =>
    match (decodeRec P L.manifest s).res with
    | .error e => .error e
    | .ok (mr, s') =>
      match (decodeObjects P L.object (s'.length + 1) s').res with
      | .error e => .error e
      | .ok (objs, _) => .ok (hr, mr, objs)

end RoutinatorModel.Codec
