import RoutinatorModel.Model.Records
/-!
# Reading a (possibly corrupt) archive file — C27

Model of the *reading* side of `src/utils/archive.rs` as far as `RrdpArchive::verify`,
`open` + `load_state`, `objects()` and `load_object` use it: the file header (magic, hash key,
bucket count), the index, object headers, the bucket / empty chains, SipHash-2-4 of object names.
(The archive's behaviour as a map under publish/update/delete is C26, not this file.)

The file is a `ByteArray`; positions are `Nat`. Every read is bounds-checked like the
memory-mapped `StorageRead` (`start > size`, `start + len > size` or an overflow ⇒ unexpected
EOF ⇒ `ArchiveError::Io`). Outcomes: a value, `io`, `corrupt`, and — for the unrepaired code —
`panic` (remainder by a zero bucket count) and `hang` (a chain walk that never ends; in the model:
runs out of the fuel `hangFuel`).

Two switches are extracted from the source (`ArchiveParams`): whether `open` validates the bucket
count against the file size, and whether chain walks are bounded by `size / 33 + 1` steps.
Native byte order and pointer width are fixed to the platform the harness runs on (little-endian,
64 bit — the file magic ends in `'C'`).
-/
namespace RoutinatorModel.Codec

structure ArchiveParams where
  /-- `Archive::open` rejects a bucket count of 0 or an index that does not fit the file. -/
  checkIndex : Bool
  /-- `find`, `verify`, `objects` give up after `size / ObjectHeader::SIZE + 1` steps. -/
  boundWalks : Bool
  deriving DecidableEq, Repr

inductive AErr
  | io
  | corrupt
  | panic
  | hang
  deriving DecidableEq, Repr

abbrev AResult (α : Type) := Except AErr α

/-! ## Primitive reads -/

def leVal (bs : List UInt8) : Nat := bs.foldr (fun b acc => b.toNat + 256 * acc) 0

/-- `len` bytes at `pos`, or EOF. -/
def readAt (file : ByteArray) (pos len : Nat) : AResult (List UInt8) :=
  if pos + len ≤ file.size then .ok (file.extract pos (pos + len)).toList else .error .io

def readU64 (file : ByteArray) (pos : Nat) : AResult Nat :=
  match readAt file pos 8 with
  | .error e => .error e
  | .ok bs => .ok (leVal bs)

def magicSize : Nat := 6
def metaSize : Nat := 24
def indexStart : Nat := magicSize + metaSize
def headerSize : Nat := 33
def metaLen : Nat := 32          -- `RrdpObjectMeta::SIZE`

def fileMagic : List UInt8 := [0x52, 0x54, 0x4e, 0x52, 1, 0x43]   -- "RTNR", version 1, 'C'

/-! ## SipHash-2-4 (`siphasher::sip::SipHasher24::new_with_key`, `write(name)`, `finish`) -/

def rotl (x : UInt64) (b : UInt64) : UInt64 := (x <<< b) ||| (x >>> (64 - b))

structure SipState where
  v0 : UInt64
  v1 : UInt64
  v2 : UInt64
  v3 : UInt64

def sipRound (s : SipState) : SipState :=
  let v0 := s.v0 + s.v1
  let v1 := rotl s.v1 13
  let v1 := v1 ^^^ v0
  let v0 := rotl v0 32
  let v2 := s.v2 + s.v3
  let v3 := rotl s.v3 16
  let v3 := v3 ^^^ v2
  let v0 := v0 + v3
  let v3 := rotl v3 21
  let v3 := v3 ^^^ v0
  let v2 := v2 + v1
  let v1 := rotl v1 17
  let v1 := v1 ^^^ v2
  let v2 := rotl v2 32
  ⟨v0, v1, v2, v3⟩

def leU64 (bs : List UInt8) : UInt64 := UInt64.ofNat (leVal bs)

def sipCompress (s : SipState) (m : UInt64) : SipState :=
  let s := { s with v3 := s.v3 ^^^ m }
  let s := sipRound (sipRound s)
  { s with v0 := s.v0 ^^^ m }

/-- Full 8-byte words, then the tail. `fuel` = number of bytes (structural). -/
def sipWords : Nat → SipState → List UInt8 → SipState × List UInt8
  | 0, s, rest => (s, rest)
  | fuel+1, s, rest =>
    if rest.length < 8 then (s, rest)
    else sipWords fuel (sipCompress s (leU64 (rest.take 8))) (rest.drop 8)

def sipHash24 (key : List UInt8) (msg : List UInt8) : UInt64 :=
  let k0 := leU64 (key.take 8)
  let k1 := leU64 ((key.drop 8).take 8)
  let s : SipState := ⟨k0 ^^^ 0x736f6d6570736575, k1 ^^^ 0x646f72616e646f6d,
                        k0 ^^^ 0x6c7967656e657261, k1 ^^^ 0x7465646279746573⟩
  let (s, tail) := sipWords msg.length s msg
  let b : UInt64 := (UInt64.ofNat (msg.length % 256) <<< 56) ||| leU64 tail
  let s := sipCompress s b
  let s := { s with v2 := s.v2 ^^^ 0xff }
  let s := sipRound (sipRound (sipRound (sipRound s)))
  s.v0 ^^^ s.v1 ^^^ s.v2 ^^^ s.v3

/-! ## The opened archive -/

structure Opened where
  file : ByteArray
  key : List UInt8
  bucketCount : Nat

def Opened.size (a : Opened) : Nat := a.file.size

/-- `Archive::open` (read-only). -/
def openArchive (A : ArchiveParams) (file : ByteArray) : AResult Opened :=
  match readAt file 0 magicSize with
  | .error e => .error e
  | .ok magic =>
    if magic ≠ fileMagic then .error .corrupt else
    match readAt file magicSize 16 with
    | .error e => .error e
    | .ok key =>
      match readU64 file (magicSize + 16) with
      | .error e => .error e
      | .ok bc =>
        -- `check_index`: checked arithmetic in `usize`/`u64`, then `end <= size`
        if A.checkIndex ∧ (bc = 0 ∨ indexStart + (bc + 1) * 8 ≥ 2 ^ 64 ∨ indexStart + (bc + 1) * 8 > file.size)
        then .error .corrupt
        else .ok ⟨file, key, bc⟩

/-- `ArchiveMeta::hash_name`: panics (remainder by zero) for a zero bucket count. -/
def hashName (a : Opened) (name : List UInt8) : AResult Nat :=
  if a.bucketCount = 0 then .error .panic
  else .ok ((sipHash24 a.key name).toNat % a.bucketCount)

/-- `index_pos` is computed in `u64` (wraps in release builds; the harness build checks
overflow, hence `panic`). With `checkIndex` neither happens. -/
def indexPos (idx : Nat) : AResult Nat :=
  if idx * 8 ≥ 2 ^ 64 ∨ indexStart + idx * 8 ≥ 2 ^ 64 then .error .panic else .ok (indexStart + idx * 8)

def getIndex (a : Opened) (idx : Nat) : AResult Nat :=
  match indexPos idx with
  | .error e => .error e
  | .ok pos => readU64 a.file pos

def getEmptyIndex (a : Opened) : AResult Nat := getIndex a a.bucketCount

structure ObjHeader where
  size : Nat
  next : Nat
  isEmpty : Bool
  nameLen : Nat
  dataLen : Nat
  deriving DecidableEq, Repr

/-- `ObjectHeader::read_from`: field by field, so a bad bool is reported before a later EOF. -/
def parseBool : List UInt8 → AResult Bool
  | [0] => .ok false
  | [1] => .ok true
  | _ => .error .corrupt

def readHeader (file : ByteArray) (pos : Nat) : AResult ObjHeader :=
  if pos > file.size then .error .io else          -- `StorageRead::new`
  match readU64 file pos with
  | .error e => .error e
  | .ok size =>
  match readU64 file (pos + 8) with
  | .error e => .error e
  | .ok next =>
  match readAt file (pos + 16) 1 with
  | .error e => .error e
  | .ok flag =>
  match parseBool flag with
  | .error e => .error e
  | .ok isEmpty =>
  match readU64 file (pos + 17) with
  | .error e => .error e
  | .ok nameLen =>
  match readU64 file (pos + 25) with
  | .error e => .error e
  | .ok dataLen => .ok ⟨size, next, isEmpty, nameLen, dataLen⟩

def readHeaderName (file : ByteArray) (pos : Nat) : AResult (ObjHeader × List UInt8) :=
  match readHeader file pos with
  | .error e => .error e
  | .ok h =>
    match readAt file (pos + headerSize) h.nameLen with
    | .error e => .error e
    | .ok name => .ok (h, name)

/-- The step budget of a chain walk and what running out of it means. -/
def hangFuel : Nat := 200000

def walkFuel (A : ArchiveParams) (a : Opened) : Nat :=
  if A.boundWalks then a.size / headerSize + 1 else hangFuel

def outOfFuel (A : ArchiveParams) : AErr := if A.boundWalks then .corrupt else .hang

/-! ## `find` / `fetch` -/

/-- `Archive::find`: returns the position and header of the object called `name`, and the number
of object headers read. -/
def findLoop (A : ArchiveParams) (a : Opened) (name : List UInt8) :
    Nat → Nat → Nat → AResult (Option (Nat × ObjHeader)) × Nat
  | _, 0, steps => (.ok none, steps)
  | 0, _, steps => (.error (outOfFuel A), steps)
  | fuel+1, pos, steps =>
    match readHeaderName a.file pos with
    | .error e => (.error e, steps + 1)
    | .ok (h, n) =>
      if n = name then (.ok (some (pos, h)), steps + 1)
      else findLoop A a name fuel h.next (steps + 1)

def find (A : ArchiveParams) (a : Opened) (name : List UInt8) :
    AResult (Option (Nat × ObjHeader)) × Nat :=
  match hashName a name with
  | .error e => (.error e, 0)
  | .ok hash =>
    match getIndex a hash with
    | .error e => (.error e, 0)
    | .ok start => findLoop A a name (walkFuel A a) start 0

/-- `Archive::fetch`: `none` = not found. -/
def fetch (A : ArchiveParams) (a : Opened) (name : List UInt8) : AResult (Option (List UInt8)) :=
  match (find A a name).1 with
  | .error e => .error e
  | .ok none => .ok none
  | .ok (some (pos, h)) =>
    match readAt a.file (pos + headerSize + metaLen + h.nameLen) h.dataLen with
    | .error e => .error e
    | .ok d => .ok (some d)

/-! ## `verify` -/

/-- One bucket chain of `verify`: checks the name hash, collects `(pos, size)`. `remaining` is the
global budget shared by all chains. -/
def verifyChain (A : ArchiveParams) (a : Opened) (idx : Nat) :
    Nat → Nat → List (Nat × Nat) → AResult (List (Nat × Nat) × Nat)
  | remaining, 0, acc => .ok (acc, remaining)
  | 0, _, _ => .error (outOfFuel A)
  | remaining+1, pos, acc =>
    match readHeaderName a.file pos with
    | .error e => .error e
    | .ok (h, n) =>
      match hashName a n with
      | .error e => .error e
      | .ok hash =>
        if hash ≠ idx then .error .corrupt
        else verifyChain A a idx remaining h.next ((pos, h.size) :: acc)

def verifyBuckets (A : ArchiveParams) (a : Opened) :
    Nat → Nat → Nat → List (Nat × Nat) → AResult (List (Nat × Nat) × Nat)
  | 0, _, remaining, acc => .ok (acc, remaining)
  | todo+1, idx, remaining, acc =>
    match getIndex a idx with
    | .error e => .error e
    | .ok start =>
      match verifyChain A a idx remaining start acc with
      | .error e => .error e
      | .ok (acc, remaining) => verifyBuckets A a todo (idx + 1) remaining acc

def verifyEmpties (A : ArchiveParams) (a : Opened) :
    Nat → Nat → List (Nat × Nat) → AResult (List (Nat × Nat))
  | _, 0, acc => .ok acc
  | 0, _, _ => .error (outOfFuel A)
  | remaining+1, pos, acc =>
    match readHeader a.file pos with
    | .error e => .error e
    | .ok h => verifyEmpties A a remaining h.next ((pos, h.size) :: acc)

def consecutive : List (Nat × Nat) → Bool
  | (p1, s1) :: (p2, s2) :: rest => decide (p2 = p1 + s1 ∧ p1 + s1 < 2 ^ 64) && consecutive ((p2, s2) :: rest)
  | _ => true

/-- `window[0].0 + window[0].1` overflows `u64` somewhere (a panic in builds with overflow checks
before the repair; the repaired code uses `checked_add`). -/
def sumOverflows : List (Nat × Nat) → Bool
  | (p1, s1) :: (p2, s2) :: rest => decide (p1 + s1 ≥ 2 ^ 64) || sumOverflows ((p2, s2) :: rest)
  | _ => false

/-- `Archive::verify`: `(object count, empty count)`. -/
def verify (A : ArchiveParams) (a : Opened) : AResult (Nat × Nat) :=
  match verifyBuckets A a a.bucketCount 0 (walkFuel A a) [] with
  | .error e => .error e
  | .ok (objs, remaining) =>
    match getEmptyIndex a with
    | .error e => .error e
    | .ok start =>
      match verifyEmpties A a remaining start objs with
      | .error e => .error e
      | .ok all =>
        -- the Rust vector is in visiting order; `sort_by_key` is stable
        let sorted := all.reverse.mergeSort (fun x y => x.1 ≤ y.1)
        if !A.boundWalks && sumOverflows sorted then .error .panic
        else if consecutive sorted then .ok (objs.length, all.length - objs.length)
        else .error .corrupt

/-! ## `objects()` -/

/-- `ObjectsIter` driven to its end or first error; counts the items whose name is a valid rsync
URI (the others are skipped by `RrdpArchive::objects`) and the bytes of their content. -/
def objectsLoop (A : ArchiveParams) (a : Opened) :
    Nat → Nat → Nat → Nat → Nat → Nat → AResult (Nat × Nat) × Nat
  -- fuel for bucket advances, remaining objects, next position, next bucket, count, bytes
  | 0, _, _, _, n, _ => (.error .hang, n)
  | fuel+1, remaining, pos, bucket, n, bytes =>
    if pos ≠ 0 then
      match remaining with
      | 0 => (.error (outOfFuel A), n)
      | remaining+1 =>
        match readHeaderName a.file pos with
        | .error e => (.error e, n)
        | .ok (h, name) =>
          match readAt a.file (pos + headerSize + h.nameLen) metaLen with
          | .error e => (.error e, n)
          | .ok _ =>
            match readAt a.file (pos + headerSize + h.nameLen + metaLen) h.dataLen with
            | .error e => (.error e, n)
            | .ok _ =>
              if validRsync name then objectsLoop A a fuel remaining h.next bucket (n + 1) (bytes + h.dataLen)
              else objectsLoop A a fuel remaining h.next bucket n bytes
    else if bucket < a.bucketCount then
      match getIndex a bucket with
      | .error e => (.error e, n)
      | .ok start => objectsLoop A a fuel remaining start (bucket + 1) n bytes
    else (.ok (n, bytes), n)

def objects (A : ArchiveParams) (a : Opened) : AResult (Nat × Nat) × Nat :=
  match getIndex a 0 with
  | .error e => (.error e, 0)
  | .ok start =>
    objectsLoop A a (walkFuel A a + a.bucketCount.min (a.size + 1) + 2) (walkFuel A a) start 1 0 0

/-! ## The `RrdpArchive` layer -/

def stateName : List UInt8 := "state".toList.map c

/-- `RrdpArchive::load_state`: a missing or unparsable state object is `Corrupt`. -/
def loadState (A : ArchiveParams) (P : Params) (L : RecLayout) (a : Opened) : AResult Record :=
  match fetch A a stateName with
  | .error e => .error e
  | .ok none => .error .corrupt
  | .ok (some d) =>
    match (decodeRec P L d).res with
    | .ok (r, _) => .ok r
    | .error _ => .error .corrupt

end RoutinatorModel.Codec
