import RoutinatorModel.Model.Prefix
/-!
# Route origin validation (`src/validity.rs`)

`RouteValidity::new`, `state`, `reason`, `description` transcribed. A VRP is a
`rpki::rtr::payload::RouteOrigin`: a prefix, an optional max length and an AS number.
-/
namespace RoutinatorModel

/-- `RouteOrigin { prefix: MaxLenPrefix { prefix, max_len }, asn }`. -/
structure Vrp where
  pfx : Prefix
  maxLen : Option Nat
  asn : Nat
deriving DecidableEq, Repr, Inhabited

namespace Vrp
/-- `MaxLenPrefix::resolved_max_len`: `self.max_len.unwrap_or_else(|| self.prefix.len())`. -/
def resolvedMaxLen (v : Vrp) : Nat := v.maxLen.getD v.pfx.len
end Vrp

/-- `RouteState`. -/
inductive RouteState | valid | invalid | notFound
deriving DecidableEq, Repr

/-- `RouteValidity` (the `PayloadInfo` references are irrelevant to the classification). -/
structure RouteValidity where
  pfx : Prefix
  asn : Nat
  matched : List Vrp
  badAsn : List Vrp
  badLen : List Vrp
deriving Repr

namespace RouteValidity

/-- One iteration of the loop in `RouteValidity::new`:
```
if item.0.prefix.prefix().covers(prefix) {
    if prefix.len() > item.0.prefix.resolved_max_len() { bad_len.push(item) }
    else if item.0.asn != asn { bad_asn.push(item) }
    else { matched.push(item) }
}
```
-/
def step (r : RouteValidity) (item : Vrp) : RouteValidity :=
  if item.pfx.covers r.pfx then
    if r.pfx.len > item.resolvedMaxLen then { r with badLen := r.badLen ++ [item] }
    else if item.asn != r.asn then { r with badAsn := r.badAsn ++ [item] }
    else { r with matched := r.matched ++ [item] }
  else r

/-- `RouteValidity::new(prefix, asn, snapshot)` over `snapshot.origins()`. -/
def new (pfx : Prefix) (asn : Nat) (origins : List Vrp) : RouteValidity :=
  origins.foldl step ⟨pfx, asn, [], [], []⟩

/-- `RouteValidity::state`. -/
def state (r : RouteValidity) : RouteState :=
  if r.matched.isEmpty then
    if r.badAsn.isEmpty && r.badLen.isEmpty then .notFound else .invalid
  else .valid

/-- `RouteValidity::reason`. -/
def reason (r : RouteValidity) : Option String :=
  if r.matched.isEmpty then
    if !r.badAsn.isEmpty then some "as"
    else if !r.badLen.isEmpty then some "length"
    else none
  else none

/-- Which of the four description texts `RouteValidity::description` selects. -/
inductive Description | valid | badAsn | badLen | notFound
deriving DecidableEq, Repr

def description (r : RouteValidity) : Description :=
  if r.matched.isEmpty then
    if !r.badAsn.isEmpty then .badAsn
    else if !r.badLen.isEmpty then .badLen
    else .notFound
  else .valid

end RouteValidity
end RoutinatorModel
