/-!
# A file system under process kills, and the store's file protocols on it (C23)

The file system is a map from paths to byte strings. A process performs primitive operations
one after the other; a kill leaves the file system after some prefix of them (kernel
semantics: each primitive is atomic with respect to a process kill; what has been written
stays written — this models `SIGKILL`, not power loss).

* `FsOp`, `FsOp.apply`, `applyOps` — `open(O_CREAT|O_TRUNC)`, `write` (append), `rename`, `unlink`
* `Step`, `Step.ops`, `runOps`    — the store's three protocols:
  `replace tmp p chunks` = temp file + `persist` (`StoredPoint::update`; after the repair also
  the trust anchor certificate), `rewrite p chunks` = `File::create(p)` + writes
  (`StoredPoint::open` header touch, `create`, `reject`; `Run::done` status file), `remove p`
  (`cleanup`)
* `Codec`, `PointRead`, `readPointAt` — what `StoredPoint::open` / `load_quietly` make of a
  file: the laws say that a *proper prefix* of a `LastAttempt` header does not parse (and is
  recreated) — the real decoder reports `UnexpectedEof`, which `open` treats as non-fatal
* `statusRepaired` / `statusAsFound` — `Store::status` with and without the repair
* `traceState`, `recognise`  — executable: the file sizes after a prefix of an observed
  operation trace, and the protocol steps an observed trace consists of
-/
namespace RoutinatorModel.FsCrash

abbrev Path := Nat
abbrev Bytes := List Nat
abbrev Fs := Path → Option Bytes

inductive FsOp
  /-- `open(p, O_WRONLY|O_CREAT|O_TRUNC)` -/
  | create (p : Path)
  /-- `write` on a descriptor for `p` (append) -/
  | write (p : Path) (bs : Bytes)
  /-- `rename(p, q)` -/
  | rename (p q : Path)
  /-- `unlink(p)` -/
  | unlink (p : Path)
  deriving DecidableEq, Repr, Inhabited

def FsOp.apply (fs : Fs) : FsOp → Fs
  | .create p => fun x => if x = p then some [] else fs x
  | .write p bs => fun x =>
    if x = p then (match fs p with
      | some old => some (old ++ bs)
      | none => none)
    else fs x
  | .rename p q => fun x => if x = q then fs p else if x = p then none else fs x
  | .unlink p => fun x => if x = p then none else fs x

def applyOps (fs : Fs) (ops : List FsOp) : Fs := ops.foldl FsOp.apply fs

/-- The bytes a list of `write`s adds up to. -/
def content (chunks : List Bytes) : Bytes := chunks.flatten

/-- A high-level file operation of the store. -/
inductive Step
  /-- temp file, writes, rename over the target -/
  | replace (tmp p : Path) (chunks : List Bytes)
  /-- truncate in place, writes -/
  | rewrite (p : Path) (chunks : List Bytes)
  | remove (p : Path)
  deriving DecidableEq, Repr, Inhabited

def Step.ops : Step → List FsOp
  | .replace tmp p chunks => .create tmp :: (chunks.map (.write tmp) ++ [.rename tmp p])
  | .rewrite p chunks => .create p :: chunks.map (.write p)
  | .remove p => [.unlink p]

def runOps (steps : List Step) : List FsOp := steps.flatMap Step.ops

/-! ## Reading a stored point, the status file -/

/-- What `StoredPoint::open` finds in an existing file. -/
inductive PointRead
  /-- header unreadable (`UnexpectedEof`, wrong version): the point is recreated -/
  | recreate
  | attempt (t : Nat)
  /-- `Success` header and a readable manifest: stored version `v` -/
  | success (t v : Nat)
  /-- `Success` header but the rest cannot be read: `open` fails, the run is fatal -/
  | fatal
  deriving DecidableEq, Repr, Inhabited

/-- The encoding of stored point files as far as crash safety depends on it. -/
structure Codec where
  encAttempt : Nat → Bytes
  encSuccess : Nat → Nat → Bytes
  readPoint : Bytes → PointRead
  read_attempt : ∀ t, readPoint (encAttempt t) = .attempt t
  read_success : ∀ t v, readPoint (encSuccess t v) = .success t v
  /-- a truncated `LastAttempt` header is an unexpected end of file -/
  read_torn : ∀ t bs, bs <+: encAttempt t → bs ≠ encAttempt t → readPoint bs = .recreate
  encStatus : Nat → Bytes
  /-- `StoredStatus::read`: `none` = parse error -/
  readStatus : Bytes → Option Nat
  read_status : ∀ t, readStatus (encStatus t) = some t
  read_status_torn : ∀ t bs, bs <+: encStatus t → bs ≠ encStatus t → readStatus bs = none

/-- Result of `Store::status`: `none` = `Err(Failed)`, `some none` = no status file. -/
abbrev StatusResult := Option (Option Nat)

/-- `StoredPoint::open` on path `p`: a missing file is created like an unreadable one. -/
def Codec.readPointAt (c : Codec) (fs : Fs) (p : Path) : PointRead :=
  match fs p with
  | none => .recreate
  | some bs => c.readPoint bs

/-- `Store::status` after the repair: a status file that does not parse counts as absent. -/
def Codec.statusRepaired (c : Codec) (fs : Fs) (p : Path) : StatusResult :=
  match fs p with
  | none => some none
  | some bs => some (c.readStatus bs)

/-- `Store::status` as found: a status file that does not parse is an error
(`store_status()?` makes `vrps --update-after` fail). -/
def Codec.statusAsFound (c : Codec) (fs : Fs) (p : Path) : StatusResult :=
  match fs p with
  | none => some none
  | some bs =>
    match c.readStatus bs with
    | some t => some (some t)
    | none => none

/-! ## Executable: observed traces -/

/-- An observed operation: like `FsOp`, with byte counts instead of bytes. -/
inductive TOp
  | create (p : Path)
  | write (p : Path) (n : Nat)
  | rename (p q : Path)
  | unlink (p : Path)
  deriving DecidableEq, Repr, Inhabited

/-- File sizes (`none`: no file) under the operations. -/
abbrev Sizes := List (Path × Option Nat)

def sizeOf (s : Sizes) (p : Path) : Option Nat :=
  match s with
  | [] => none
  | (q, v) :: rest => if q = p then v else sizeOf rest p

def setSize (s : Sizes) (p : Path) (v : Option Nat) : Sizes :=
  match s with
  | [] => [(p, v)]
  | (q, w) :: rest => if q = p then (q, v) :: rest else (q, w) :: setSize rest p v

def TOp.apply (s : Sizes) : TOp → Sizes
  | .create p => setSize s p (some 0)
  | .write p n =>
    match sizeOf s p with
    | some old => setSize s p (some (old + n))
    | none => s
  | .rename p q => setSize (setSize s q (sizeOf s p)) p none
  | .unlink p => setSize s p none

/-- Sizes after the first `k` operations of a trace. -/
def traceState (init : Sizes) (ops : List TOp) (k : Nat) : Sizes :=
  (ops.take k).foldl TOp.apply init

/-- A protocol step recognised in a trace. -/
inductive Shape
  | replace (tmp p : Path)
  | rewrite (p : Path)
  | remove (p : Path)
  /-- an operation that belongs to none of the protocols -/
  | stray (op : TOp)
  deriving DecidableEq, Repr, Inhabited

/-- Splits a trace into protocol steps, in the order in which the steps end. Files under
construction (`opened`) are the created paths that have not been renamed away yet; operations
on different files may interleave. A created file that is renamed is a `replace`; a created
file that is not renamed is a `rewrite`, which ends when the file is created (truncated)
again, when another file is renamed over it, or with the trace; `unlink` of a file that is
not under construction is a `remove`; a `write` to a file that was not created in the trace,
or a `rename` of one, is a stray operation. -/
def recognise : List TOp → List Path → List Shape
  | [], opened => opened.reverse.map .rewrite
  | .create p :: rest, opened =>
    if opened.contains p then .rewrite p :: recognise rest opened
    else recognise rest (p :: opened)
  | .write p n :: rest, opened =>
    if opened.contains p then recognise rest opened else .stray (.write p n) :: recognise rest opened
  | .rename p q :: rest, opened =>
    if opened.contains p then
      (if opened.contains q then [.rewrite q] else []) ++
        .replace p q :: recognise rest (opened.filter (fun x => x != p && x != q))
    else .stray (.rename p q) :: recognise rest opened
  | .unlink p :: rest, opened =>
    if opened.contains p then .stray (.unlink p) :: recognise rest (opened.filter (· != p))
    else .remove p :: recognise rest opened

/-- The path a protocol step leaves its data in. -/
def Shape.target : Shape → Option Path
  | .replace _ p => some p
  | .rewrite p => some p
  | .remove p => some p
  | .stray _ => none

/-- Protocol deviations: paths (of those in `versions`, the files that hold a complete stored
version after the run) whose last step is a `rewrite` — a version written in place instead of
through a temporary file. -/
def inPlaceVersions (shapes : List Shape) (versions : List Path) : List Path :=
  versions.filter fun p =>
    match (shapes.filter (fun s => s.target == some p)).getLast? with
    | some (.rewrite _) => true
    | _ => false

end RoutinatorModel.FsCrash
