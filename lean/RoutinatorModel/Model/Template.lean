import RoutinatorModel.Model.JsonRec
/-!
# Source templates

The shapes `extract/templates.py` turns routinator's JSON/Prometheus-writing code into.
`Generated/Templates.lean` contains the extracted values; the models define what they
expect; `Props/C*.lean` prove the two equal (`decide`), so a changed literal, a dropped
`json_str(..)` or a reordered statement re-opens the obligation.
-/
namespace RoutinatorModel.Json

/-- How a format argument reaches the output. The classification is done by the extractor
from the argument *expression* (see `ARG_KINDS` in `extract/templates.py`). -/
inductive ArgKind
  | jsonStr    -- `json_str(..)`
  | labelStr   -- `label_str(..)`
  | nat        -- unsigned integer (`u8`, `u32`, `u64`, `Serial`)
  | int        -- signed integer (`i64` timestamp)
  | asn        -- `Asn` (`AS` + decimal)
  | addr       -- `IpAddr`
  | hex        -- `KeyIdentifier` (hex digits)
  | base64     -- `RouterKeyInfo` / `base64::Slurm` output
  | date       -- `format_iso_date(..)`
  | lit        -- a string literal argument
  | uri        -- `uri::Rsync` (URI characters only)
  | word       -- a `&str` parameter all of whose call sites pass a literal word
  | elems      -- (model only) the comma-separated elements of an array
  | raw        -- anything else: written as it is
  deriving DecidableEq, Repr

/-- A format string, decoded: literal pieces and typed holes. -/
inductive Seg
  | lit (s : Text)
  | hole (k : ArgKind)
  deriving DecidableEq, Repr

/-- One statement of a `JsonBuilder` method. -/
inductive BOp
  | lit (s : Text)            -- `self.target.push_str(..)` / `push(..)`
  | call (name : Text)        -- `self.<name>(..)`
  | esc                       -- `write!(self.target, "{}", json_str(<arg>))`
  | raw                       -- `write!(self.target, "{}", <arg>)`
  | scope                     -- `op(&mut JsonBuilder { indent: self.indent + 1, empty: true, .. })`
  | unlessFirst (s : Text)    -- `if self.empty { self.empty = false } else { push_str(s) }`
  | perIndent (s : Text)      -- `for _ in 0..self.indent { push_str(s) }`
  deriving DecidableEq, Repr

/-- Where an argument of a kind may stand in a JSON template. Arguments written as they
are (`raw`, `labelStr`) are accepted nowhere. -/
def holeKindOf : ArgKind → HoleKind
  | .jsonStr => .chars
  | .asn => .chars
  | .addr => .chars
  | .hex => .chars
  | .base64 => .chars
  | .date => .chars
  | .lit => .chars
  | .uri => .chars
  | .word => .chars
  | .nat => .nat
  | .int => .num
  | .elems => .elems
  | .labelStr => .raw
  | .raw => .raw

/-- A decoded format string as a template; holes are numbered from `n` in source order. -/
def toTmplFrom : Nat → List Seg → Tmpl
  | _, [] => []
  | n, .lit s :: r => ofText s ++ toTmplFrom n r
  | n, .hole k :: r => .hole (holeKindOf k) n :: toTmplFrom (n + 1) r

def toTmpl (segs : List Seg) : Tmpl := toTmplFrom 0 segs

/-- `format!`: the i-th hole is replaced by the i-th argument. -/
def fillFrom : List Seg → List Text → Text
  | [], _ => []
  | .lit s :: r, args => s ++ fillFrom r args
  | .hole _ :: r, a :: args => a ++ fillFrom r args
  | .hole _ :: r, [] => fillFrom r []

/-- `e₁ , e₂ , … , eₙ` -/
def joinComma : List Text → Text
  | [] => []
  | [e] => e
  | e :: r => e ++ (0x2C :: joinComma r)

/-- Looks a template up by name (empty if absent). -/
def findTemplate (name : Text) (l : List (Text × List Seg)) : List Seg :=
  match l.find? (fun p => p.1 == name) with
  | some p => p.2
  | none => []

end RoutinatorModel.Json
