/-!
# C29 — RRDP-to-rsync fallback: `collector::Run::repository`

The decision which transport serves a CA's objects, as a function of the configuration
(fallback policy, RRDP / rsync enabled), of the CA (rpkiNotify present or not) and of what the
RRDP update attempt reported (`rrdp::LoadResult`, classified by `RepositoryUpdate::try_update`:
`updated` – the update succeeded; `current` – it failed and the local copy's best-before time has
not passed; `stale` – it failed and the copy is past it; `unavailable` – it failed and there is no
copy).
-/
namespace RoutinatorModel.Collector

/-- `config::FallbackPolicy`. -/
inductive Policy | never | stale | new
deriving Repr, DecidableEq

/-- `rrdp::LoadResult`. -/
inductive Outcome | updated | current | stale | unavailable
deriving Repr, DecidableEq

/-- What `Run::repository` hands back: an RRDP repository, the rsync repository, or nothing
(`Ok(None)`: the engine falls back to the stored data). -/
inductive Transport | rrdp | rsync | none
deriving Repr, DecidableEq

/-- `RepositoryUpdate::try_update`'s classification of a failed or successful update. -/
def classify (updateOk hasCopy expired : Bool) : Outcome :=
  if updateOk then .updated
  else if hasCopy && !expired then .current
  else if hasCopy then .stale
  else .unavailable

/-- `collector::Run::repository`, statement by statement. `outcome` is what
`rrdp.load_repository` returns; it is only consulted if the CA has an rpkiNotify URI and RRDP is
enabled. -/
def repository (policy : Policy) (rrdpEnabled rsyncEnabled hasNotify : Bool) (outcome : Outcome) :
    Transport :=
  let viaRsync : Transport := if rsyncEnabled then .rsync else .none
  if hasNotify && rrdpEnabled then
    match outcome with
    | .unavailable => if policy = .never then .none else viaRsync
    | .stale => if policy ≠ .stale then .none else viaRsync
    | .current => .none
    | .updated => .rrdp
  else viaRsync

/-- The configuration in effect for the run that classifies (all of it that could conceivably
matter: `refresh` and `rrdp-fallback-time`, from which `FallbackTime` is built). -/
structure RunConfig where
  refresh : Nat
  fallbackTime : Nat
deriving Repr, DecidableEq

/-- `RepositoryUpdate::try_update`, from what it reads: whether the update succeeded, the
best-before time **stored** in the local copy's state (`none` = no local copy; the time was picked
by whichever configuration was in effect when the copy was last updated) and the clock now
(seconds). `RepositoryState::is_expired` is `Utc::now() > best_before`: the copy is current up to
and including its best-before second. The running configuration is an argument because the code
has access to it — and the function does not use it. -/
def tryUpdateOutcome (_cfg : RunConfig) (updateOk : Bool) (storedBestBefore : Option Nat)
    (now : Nat) : Outcome :=
  if updateOk then .updated
  else match storedBestBefore with
    | none => .unavailable
    | some bb => if now ≤ bb then .current else .stale

/-- `rrdp::Run::load_repository` for a repository not yet handled in this run: an rpkiNotify URI
rejected as dubious (filtering on, authority `localhost` / IP literal / explicit port) is reported
as `Unavailable` without any request; otherwise `try_update` classifies. The CA still *announces*
RRDP: the result goes through the policy table like any other `Unavailable`. -/
def loadOutcome (cfg : RunConfig) (rejected updateOk : Bool) (storedBestBefore : Option Nat)
    (now : Nat) : Outcome :=
  if rejected then .unavailable else tryUpdateOutcome cfg updateOk storedBestBefore now

/-- Whether an RRDP update is attempted at all. -/
def asksRrdp (rrdpEnabled hasNotify : Bool) : Bool := hasNotify && rrdpEnabled

end RoutinatorModel.Collector
