/-!
# C30 — model of routinator's local path functions

Strings are lists of byte values (`List Nat`); URIs are ASCII, so this is exact.
`47 = '/'`, `46 = '.'`, `45 = '-'`.

Modelled code (routinator):
* `PathBuf::push` / `Path::join` on strings                      → `push`
* `rpki::uri::Rsync` / `Https` as parsed values                  → `Rsync`, `Https` (+ `WF` = what
  `Rsync::from_bytes` (`check_path`) / `Https::from_bytes` guarantee)
* `utils::uri::UriExt::unique_components/unique_path`            → `rsyncHashInput`, `httpsHashInput`, `uniquePath`
* `store::Store::{ta_path, rrdp_repository_path, rsync_repository_path}`, `Repository::point_path`
* `collector::rsync::WorkingDir::{module_path, uri_path}`
* `collector::rrdp::Collector::repository_path`
* `store::Store::dump_object`, `collector::rrdp::Collector::dump_repository`, `utils::dump::DumpRegistry`

The file system's view of a path string is `resolve`: split at `/`, drop empty and `.` components,
let `..` remove the previous component (lexical normalisation; the cache contains no symlinks).
SHA-256 is a parameter `sha : Str → List Nat` (digest bytes) of every hashed path function.
-/
namespace RoutinatorModel.Paths

abbrev Str := List Nat

/-! ## Literals (ASCII codes) -/
def sStored : Str := [115,116,111,114,101,100]      -- "stored"
def sStore  : Str := [115,116,111,114,101]          -- "store"
def sTa     : Str := [116,97]                       -- "ta"
def sRsync  : Str := [114,115,121,110,99]           -- "rsync"
def sHttps  : Str := [104,116,116,112,115]          -- "https"
def sRrdp   : Str := [114,114,100,112]              -- "rrdp"
def sCer    : Str := [46,99,101,114]                -- ".cer"
def sBin    : Str := [46,98,105,110]                -- ".bin"
def sRsyncScheme : Str := [114,115,121,110,99,58,47,47]   -- "rsync://"
def sHttpsScheme : Str := [104,116,116,112,115,58,47,47]  -- "https://"
/-- `"ta/rsync"` -/
def sTaRsync : Str := sTa ++ 47 :: sRsync
/-- `"ta/https"` -/
def sTaHttps : Str := sTa ++ 47 :: sHttps

/-! ## ASCII lower-casing (`to_ascii_lowercase`) -/
def lower (b : Nat) : Nat := if 65 ≤ b ∧ b ≤ 90 then b + 32 else b
def canon (s : Str) : Str := s.map lower
def hasUpper (s : Str) : Bool := s.any fun b => decide (65 ≤ b ∧ b ≤ 90)

/-! ## Paths as the file system sees them -/

/-- Split at `/` (like `str::split('/')`: always at least one piece). -/
def split : Str → List Str
  | [] => [[]]
  | c :: cs =>
    if c = 47 then [] :: split cs
    else match split cs with
      | [] => [[c]]
      | h :: t => (c :: h) :: t

/-- One path component applied to the stack of directories walked so far. -/
def step (st : List Str) (c : Str) : List Str :=
  if c = [] ∨ c = [46] then st
  else if c = [46, 46] then st.dropLast
  else st ++ [c]

def resolveFrom (st : List Str) (s : Str) : List Str := (split s).foldl step st

/-- Lexical normalisation of a path string to its list of real components. -/
def resolve (s : Str) : List Str := resolveFrom [] s

/-- `PathBuf::push` (Unix): an absolute argument replaces, otherwise append with exactly one
separator unless the buffer is empty or already ends in one. -/
def push (buf p : Str) : Str :=
  if p.head? = some 47 then p
  else if buf = [] ∨ buf.getLast? = some 47 then buf ++ p
  else buf ++ 47 :: p

/-! ## Hex (`utils::str::append_hex`, lower case) -/
def hexDigit (n : Nat) : Nat := if n < 10 then 48 + n else 87 + n
def hexByte (b : Nat) : Str := [hexDigit (b / 16), hexDigit (b % 16)]
def hex : List Nat → Str
  | [] => []
  | b :: bs => hexByte b ++ hex bs

/-! ## Parsed URIs -/

/-- `rsync://authority/module/seg/…/seg[/]`; `scheme` is the raw 8-byte prefix as written. -/
structure Rsync where
  scheme : Str
  auth : Str
  module : Str
  segs : List Str
  dir : Bool
deriving Repr, DecidableEq

/-- `https://authority[/path]`; `path` is empty or starts with `/` (rpki's `Https::path()`). -/
structure Https where
  scheme : Str
  auth : Str
  path : Str
deriving Repr, DecidableEq

/-- A path segment accepted by rpki's `check_path`: non-empty, no `/`, not `.` or `..`. -/
def okSeg (s : Str) : Prop := s ≠ [] ∧ 47 ∉ s ∧ s ≠ [46] ∧ s ≠ [46, 46]

instance (s : Str) : Decidable (okSeg s) := by unfold okSeg; exact inferInstance

structure Rsync.WF (u : Rsync) : Prop where
  scheme : u.scheme.length = 8
  auth : okSeg u.auth
  module : okSeg u.module
  segs : ∀ s ∈ u.segs, okSeg s
  dir : u.dir = true → u.segs ≠ []

structure Https.WF (n : Https) : Prop where
  scheme : n.scheme.length = 8
  auth : 47 ∉ n.auth
  path : n.path = [] ∨ n.path.head? = some 47

def joinSegs : List Str → Str
  | [] => []
  | [s] => s
  | s :: t => s ++ 47 :: joinSegs t

/-- `Rsync::path()`: no leading slash, trailing slash iff `dir`. -/
def Rsync.path (u : Rsync) : Str := joinSegs u.segs ++ (if u.dir then [47] else [])

/-- The URI as written. -/
def Rsync.raw (u : Rsync) : Str := u.scheme ++ (u.auth ++ 47 :: (u.module ++ 47 :: u.path))
def Https.raw (n : Https) : Str := n.scheme ++ (n.auth ++ n.path)

/-- URI equivalence used by C30: host names are case-insensitive (and so is the scheme); for rsync
URIs a trailing slash does not name a different file-system object. -/
def Rsync.equiv (u v : Rsync) : Prop :=
  canon u.auth = canon v.auth ∧ u.module = v.module ∧ u.segs = v.segs
/-- `impl PartialEq for Https`. -/
def Https.equiv (m n : Https) : Prop := canon m.auth = canon n.auth ∧ m.path = n.path

instance (u v : Rsync) : Decidable (u.equiv v) := by unfold Rsync.equiv; exact inferInstance
instance (m n : Https) : Decidable (m.equiv n) := by unfold Https.equiv; exact inferInstance

/-! ## `UriExt::unique_components` / `unique_path` -/
def rsyncHashInput (u : Rsync) : Str :=
  sRsyncScheme ++ (canon u.auth ++ 47 :: (u.module ++ 47 :: u.path))
def httpsHashInput (n : Https) : Str :=
  sHttpsScheme ++ (canon n.auth ++ 47 :: n.path)

def uniquePath (pre ext auth : Str) (digest : List Nat) : Str :=
  (if pre = [] then [] else pre ++ [47]) ++ (auth ++ 47 :: (hex digest ++ ext))

/-! ## Cache paths -/
section
variable (sha : Str → List Nat)

/-- `Store::path = cache_dir.join("stored")`. -/
def storeDir (cache : Str) : Str := push cache sStored

def taRsyncPath (cache : Str) (u : Rsync) : Str :=
  push (storeDir cache) (uniquePath sTaRsync sCer (canon u.auth) (sha (rsyncHashInput u)))
def taHttpsPath (cache : Str) (n : Https) : Str :=
  push (storeDir cache) (uniquePath sTaHttps sCer (canon n.auth) (sha (httpsHashInput n)))

/-- `Store::rrdp_repository_path` / `rsync_repository_path`. -/
def storeRepoPath (cache : Str) : Option Https → Str
  | none => push (storeDir cache) sRsync
  | some n => push (storeDir cache) (uniquePath sRrdp [] (canon n.auth) (sha (httpsHashInput n)))

/-- `format!("rsync/{}/{}/{}", canonical_authority, module_name, path)`. -/
def pointRel (m : Rsync) : Str :=
  sRsync ++ 47 :: (canon m.auth ++ 47 :: (m.module ++ 47 :: m.path))
/-- `Repository::point_path`. -/
def pointPath (cache : Str) (n : Option Https) (m : Rsync) : Str :=
  push (storeRepoPath sha cache n) (pointRel m)

/-- `WorkingDir::uri_path` with `base = cache_dir.join("rsync")`. -/
def rsyncUriPath (cache : Str) (u : Rsync) : Str :=
  push (push (push (push cache sRsync) (canon u.auth)) u.module) u.path
/-- `WorkingDir::module_path`: pushes `canonical_module()[8..]`. -/
def rsyncModulePath (cache : Str) (u : Rsync) : Str :=
  push (push cache sRsync) (canon u.auth ++ 47 :: (u.module ++ [47]))

/-- `rrdp::Collector::repository_path`: `cache/rrdp/<canonical authority>/<hex sha256(raw uri)>.bin`. -/
def rrdpArchivePath (cache : Str) (n : Https) : Str :=
  push (push (push cache sRrdp) (canon n.auth)) (hex (sha n.raw) ++ sBin)

/-- Everything stored in the cache on behalf of a URI. -/
inductive Key
  | taRsync (u : Rsync)
  | taHttps (n : Https)
  | point (n : Option Https) (m : Rsync)
  | rsyncFile (u : Rsync)
  | rrdpArchive (n : Https)

def pathOf (cache : Str) : Key → Str
  | .taRsync u => taRsyncPath sha cache u
  | .taHttps n => taHttpsPath sha cache n
  | .point n m => pointPath sha cache n m
  | .rsyncFile u => rsyncUriPath cache u
  | .rrdpArchive n => rrdpArchivePath sha cache n

def Key.WF : Key → Prop
  | .taRsync u => u.WF
  | .taHttps n => n.WF
  | .point none m => m.WF
  | .point (some n) m => n.WF ∧ m.WF
  | .rsyncFile u => u.WF
  | .rrdpArchive n => n.WF

/-- Two keys denote the same thing: same kind, equivalent URIs. -/
def Key.equiv : Key → Key → Prop
  | .taRsync u, .taRsync v => u.equiv v
  | .taHttps m, .taHttps n => m.equiv n
  | .point none u, .point none v => u.equiv v
  | .point (some m) u, .point (some n) v => m.equiv n ∧ u.equiv v
  | .rsyncFile u, .rsyncFile v => u.equiv v
  | .rrdpArchive m, .rrdpArchive n => m.equiv n
  | _, _ => False

/-- The resolved location of a key below the cache directory (what `resolve (pathOf …)` is proved
to be, relative to `resolve cache`). -/
def relOf : Key → List Str
  | .taRsync u => [sStored, sTa, sRsync, canon u.auth, hex (sha (rsyncHashInput u)) ++ sCer]
  | .taHttps n => step [sStored, sTa, sHttps] (canon n.auth) ++ [hex (sha (httpsHashInput n)) ++ sCer]
  | .point none m => [sStored, sRsync, sRsync, canon m.auth, m.module] ++ m.segs
  | .point (some n) m =>
      step [sStored, sRrdp] (canon n.auth)
        ++ [hex (sha (httpsHashInput n)), sRsync, canon m.auth, m.module] ++ m.segs
  | .rsyncFile u => [sRsync, canon u.auth, u.module] ++ u.segs
  | .rrdpArchive n => step [sRrdp] (canon n.auth) ++ [hex (sha n.raw) ++ sBin]

end

/-! ## Dump paths -/

/-- `Rsync::canonical_module()`: borrowed (raw scheme kept) unless the authority has upper case. -/
def canonicalModule (u : Rsync) : Str :=
  if hasUpper u.auth then sRsyncScheme ++ (canon u.auth ++ 47 :: (u.module ++ [47]))
  else u.scheme ++ (u.auth ++ 47 :: (u.module ++ [47]))

inductive DumpKey
  /-- `Store::dump_object`: `<dump>/store/<repo dir>/<authority>/<module>/<path>`. -/
  | storeObj (reg : Str) (u : Rsync)
  /-- `rrdp::Collector::dump_repository`: `<dump>/rrdp/<repo dir>/rsync/<canonical module>/<path>`. -/
  | rrdpObj (reg : Str) (u : Rsync)

def dumpPathOf (dump : Str) : DumpKey → Str
  | .storeObj reg u =>
      push (push (push dump sStore) reg) (canon u.auth ++ 47 :: (u.module ++ 47 :: u.path))
  | .rrdpObj reg u =>
      push (push (push (push (push dump sRrdp) reg) sRsync) (canonicalModule u)) u.path

/-- First component of the canonical module as a directory name: the scheme without `//`. -/
def schemeDir (u : Rsync) : Str :=
  if hasUpper u.auth then sRsyncScheme.take 6 else u.scheme.take 6

def dumpRelOf : DumpKey → List Str
  | .storeObj reg u => step [sStore] reg ++ [canon u.auth, u.module] ++ u.segs
  | .rrdpObj reg u => step [sRrdp] reg ++ [sRsync, schemeDir u, canon u.auth, u.module] ++ u.segs

/-! ### `DumpRegistry` -/

structure Registry where
  /-- `rrdp_uris` (keyed by `Https` equality). -/
  uris : List (Https × Str)
  /-- `rrdp_dirs`. -/
  dirs : List Str
deriving Repr

/-- `DumpRegistry::new`: the name `rsync` belongs to the rsync repository. -/
def Registry.new : Registry := ⟨[], [sRsync]⟩

def Registry.lookup (r : Registry) (n : Https) : Option Str :=
  match r.uris.find? (fun e => decide (e.1.equiv n)) with
  | some e => some e.2
  | none => none

def decimal (i : Nat) : Str := (Nat.repr i).toList.map Char.toNat

/-- The loop of `make_path`: first `authority-i`, `i ≥ start`, not in use (`fuel` bounds the search;
`dirs.length + 1` candidates always suffice). -/
def findFree (dirs : List Str) (a : Str) : Nat → Nat → Option Str
  | 0, _ => none
  | fuel + 1, i =>
    let name := a ++ 45 :: decimal i
    if name ∈ dirs then findFree dirs a fuel (i + 1) else some name

/-- `DumpRegistry::make_path`'s choice of a directory name. -/
def freshName (dirs : List Str) (a : Str) : Option Str :=
  if a ∈ dirs then findFree dirs a (dirs.length + 1) 1 else some a

/-- `DumpRegistry::get_repo_path(Some(uri))`: the directory name and the new registry. -/
def Registry.get (r : Registry) (n : Https) : Option (Str × Registry) :=
  match r.lookup n with
  | some name => some (name, r)
  | none =>
    match freshName r.dirs (canon n.auth) with
    | some name => some (name, ⟨(n, name) :: r.uris, name :: r.dirs⟩)
    | none => none

/-- A run of `get_repo_path` calls. -/
def Registry.run (r : Registry) : List Https → Option (List Str × Registry)
  | [] => some ([], r)
  | n :: ns =>
    match r.get n with
    | none => none
    | some (name, r') =>
      match r'.run ns with
      | none => none
      | some (names, r'') => some (name :: names, r'')

end RoutinatorModel.Paths
