import RoutinatorModel.Model.Retry
/-!
# Model of the server's per-run step (`Server::process_once`, `SharedHistory`)

```text
fn process_once(config, engine, history, notify, exceptions, initial) -> Result<(), RunFailed> {
    history.mark_update_start();
    let (report, metrics) = ValidationReport::process(engine, config, initial)?;   // early return
    let must_notify = history.update(report, exceptions, metrics);
    history.mark_update_done();
    if must_notify { notify.notify(); }
    Ok(())
}
```

The validation run itself (`ValidationReport::process`) is given the engine and the
configuration only — it has no access to the history or the notify sender — so wherever inside
the run a failure happens, its only effect on the served state is the early return.

Data sets are lists of item identifiers (strictly sorted, as `PayloadSnapshot` keeps them);
times are `(seconds, nanoseconds)` pairs.
-/
namespace RoutinatorModel

/-- A point in time: seconds and nanoseconds. -/
structure Time where
  secs : Nat
  nanos : Nat
  deriving DecidableEq, Repr

/-- The parts of `PayloadHistory` plus the notify channel that `process_once` reads or
writes. -/
structure Hist where
  /-- `current`: the served data set, `none` before the first successful run. -/
  current : Option (List Nat)
  /-- Target serials of the retained deltas, newest first (`deltas`); the served serial is the
  newest one, or 0. -/
  deltas : List Nat
  /-- `keep` (`history-size`). -/
  keep : Nat
  session : Nat
  /-- `created`: feeds `Last-Modified` / `If-Modified-Since`. -/
  created : Option Time
  /-- Generation of the `metrics` object (replaced by every successful run). -/
  metricsGen : Nat
  lastUpdateStart : Time
  lastUpdateDone : Option Time
  /-- Number of notifications sent through the `NotifySender` so far. -/
  notified : Nat
  deriving DecidableEq, Repr

/-- `PayloadHistory::serial`. -/
def Hist.serial (h : Hist) : Nat := h.deltas.headD 0

/-- What clients can observe: data set, serial and session (RTR state, the ETag
`"{session:x}-{serial}"`), `created` (`Last-Modified`), the retained deltas, the metrics object
and the notifications sent. Not part of it: `last_update_start`. -/
structure Served where
  current : Option (List Nat)
  serial : Nat
  session : Nat
  created : Option Time
  deltas : List Nat
  metricsGen : Nat
  lastUpdateDone : Option Time
  notified : Nat
  deriving DecidableEq, Repr

def Hist.served (h : Hist) : Served :=
  ⟨h.current, h.serial, h.session, h.created, h.deltas, h.metricsGen, h.lastUpdateDone,
    h.notified⟩

/-- A fresh history (`PayloadHistory::from_config`) created at `now`. -/
def Hist.new (keep : Nat) (now : Time) : Hist :=
  ⟨none, [], keep, now.secs, none, 0, now, none, 0⟩

/-- `mark_update_start`. -/
def Hist.markUpdateStart (h : Hist) (now : Time) : Hist :=
  { h with lastUpdateStart := now }

/-- `push_delta`: drop the oldest delta when `keep` deltas are retained, then `push_front`.
(For `keep ≥ 1` the pinned commit's test `len == keep` and the C14 repair `len >= max(keep, 1)`
coincide; `history-size 0` is C14's subject and is not exercised by this property's check.) -/
def Hist.pushDelta (h : Hist) (serial : Nat) : Hist :=
  { h with deltas :=
      serial :: (if h.deltas.length ≥ max h.keep 1 then h.deltas.dropLast else h.deltas) }

/-- The `created` bump: `now`, or one second past the previous value if `now` is not in a
later second. -/
def bumpCreated (created : Option Time) (now : Time) : Option Time :=
  match created with
  | some c => if now.secs ≤ c.secs then some ⟨c.secs + 1, c.nanos⟩ else some now
  | none => some now

/-- `SharedHistory::update`: returns the new history and `must_notify`. The new serial is
`serial + 1` (mod 2³²) when the data changed. In the working tree (C16 repair) the `created`
bump sits at the end of `update`'s write-lock section; on the pinned commit the same block sits
in `mark_update_done`, which `process_once` calls right after `update` — for `process_once` the
two placements are indistinguishable (both only on the success path, same clock reading in the
model). -/
def Hist.update (h : Hist) (new : List Nat) (now : Time) : Hist × Bool :=
  let h := { h with metricsGen := h.metricsGen + 1, created := bumpCreated h.created now }
  match h.current with
  | none => ({ h with current := some new }, true)
  | some cur =>
    if cur = new then ({ h with current := some new }, false)
    else ({ h.pushDelta ((h.serial + 1) % 4294967296) with current := some new }, true)

/-- `mark_update_done` (scheduling fields other than `last_update_done` belong to C34). -/
def Hist.markUpdateDone (h : Hist) (now : Time) : Hist :=
  { h with lastUpdateDone := some now }

/-- `NotifySender::notify`. -/
def Hist.notify (h : Hist) : Hist := { h with notified := h.notified + 1 }

/-- `Server::process_once` for a run with outcome `oc` that (if it succeeds) yields the data
set `new`; the clock reads `now` throughout. Returns the history and whether the step
returned `Ok`. -/
def processOnce (h : Hist) (oc : Outcome) (new : List Nat) (now : Time) : Hist × Bool :=
  let h := h.markUpdateStart now
  match oc with
  | .ok =>
    let (h, mustNotify) := h.update new now
    let h := h.markUpdateDone now
    (if mustNotify then h.notify else h, true)
  | _ => (h, false)    -- the `?`

/-- One step of a history: outcome, data set the run would produce, time of the run. -/
structure RunStep where
  outcome : Outcome
  data : List Nat
  now : Time
  deriving DecidableEq, Repr

/-- A whole history of runs. -/
def runAll (h : Hist) : List RunStep → Hist
  | [] => h
  | s :: rest => runAll (processOnce h s.outcome s.data s.now).1 rest

end RoutinatorModel
