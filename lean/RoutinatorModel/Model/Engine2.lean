import RoutinatorModel.Model.Engine
/-!
# The engine model with its bookkeeping made visible (C01, C02, C39, C41)

`Model/Engine.lean` returns the payload of a run as one flat list. The properties about
*where payload comes from* (C01, C02), *which publication points a fault can reach* (C41)
and the *refresh deadline* (C39, `src/payload/validation.rs`: `PubPoint::new_ta`, `new_ca`,
`point_validity`, `update_refresh`, `restart`, `SnapshotBuilder::update_refresh`) need the
walk itself: which CA was processed with which store entry, what its publication point
yielded, and the `refresh` value its `PubPointProcessor` carried.

This file repeats the walk of `Model/Engine.lean` for the repaired code (`fix = true`) with
that bookkeeping attached. `Proofs/Engine2.lean` proves that forgetting the bookkeeping
gives exactly `processPointWith true`, `processCa true`, `processTal true`, `runOnce true`
(`…_erase` theorems), so everything proved here is a statement about the shared model.

* `CaX`               — a CA task: `CaCtx` + the `orig_refresh` of its processor + the list of
                         dates on its chain (ghost: never read by the computation)
* `processObjectX`    — `process_object` + `update_refresh`
* `pointValidity`     — `ValidPointManifest::point_validity` + `PubPointProcessor::point_validity`
* `processPointX`     — `PubPoint::process` (with `restart()` on the fallback path)
* `processCaX`        — `process_ca_task`; returns the list of `Visit`s in processing order
* `runOnceX`          — all TALs
* `Visit.contributes`, `snapshotRefresh` — `PubPointProcessor::commit` (only non-empty
                         points are pushed) and `SnapshotBuilder::update_refresh`
* `servedItems`       — `SnapshotBuilder::process_origin` for `unsafe-vrps = reject`, over an
                         abstract overlap relation between items and rejected CAs
-/
namespace RoutinatorModel.Engine

/-- A CA processing task together with the state of its `PubPointProcessor`. -/
structure CaX where
  ctx : CaCtx
  /-- `PubPoint::orig_refresh` (`new_ta`: notAfter of the TA certificate; `new_ca`:
  `min(parent.refresh, cert.notAfter)` at the moment the CA certificate is processed) -/
  refresh : Int
  /-- Ghost: every notAfter / nextUpdate on the chain down to and including this CA's
  certificate (TA certificate; per ancestor: manifest EE notAfter, manifest nextUpdate,
  CRL nextUpdate of the version used; CA certificates). Not read by the computation. -/
  dates : List Int
  deriving DecidableEq, Repr, Inhabited

/-- The nextUpdate of a CRL (`0` for anything else; only used on validated CRLs). -/
def crlNextUpdate : Content → Int
  | .crl _ nextUpdate _ => nextUpdate
  | _ => 0

/-- The dates a validated manifest/CRL pair puts on the chain. -/
def pointDates (vm : ValidMft) (crl : Content) : List Int :=
  [vm.mft.ee.notAfter, vm.mft.nextUpdate, crlNextUpdate crl]

/-- `point_validity`: `refresh := min(refresh, min(ee.notAfter, min(mft.nextUpdate, crl.nextUpdate)))`. -/
def pointValidity (r : Int) (vm : ValidMft) (crl : Content) : Int :=
  min r (min vm.mft.ee.notAfter (min vm.mft.nextUpdate (crlNextUpdate crl)))

/-- State of the processor while the objects of a version are walked. -/
structure Acc where
  items : List Item
  kids : List CaX
  /-- `PubPoint.refresh` -/
  refresh : Int
  /-- Ghost: notAfter of every object that contributed payload so far. -/
  objDates : List Int
  deriving DecidableEq, Repr, Inhabited

/-- `update_refresh` + `add_*`: an object that adds payload lowers `refresh` to its
certificate's notAfter; one that adds nothing (a ROA all of whose prefixes are filtered, a
router certificate without AS resources) leaves it alone. -/
def Acc.addPayload (a : Acc) (items : List Item) (notAfter : Int) : Acc :=
  if items.isEmpty then a
  else { a with items := a.items ++ items, refresh := min a.refresh notAfter,
                objDates := a.objDates ++ [notAfter] }

/-- `process_object` with the refresh bookkeeping: a ROA lowers `refresh` only if it added an
origin (`add_roa` returned true), an ASPA / router certificate only if the feature is
enabled; a CA certificate starts a child processor with `min(refresh, notAfter)`.
`pd` are the chain dates including this point's manifest and CRL. -/
def processObjectX (cfg : Cfg) (now : Int) (ca : CaCtx) (vm : ValidMft) (pd : List Int)
    (ext : Ext) (content : Content) (a : Acc) : Acc :=
  match ext, content with
  | .cer, .ca c info =>
    if ca.chain.contains info.key then a
    else if !c.valid now then a
    else if !vm.checkCrl c then a
    else if ca.chainLen + 1 > cfg.maxDepth then a
    else { a with kids := a.kids ++ [⟨ca.child info, min a.refresh c.notAfter, pd ++ [c.notAfter]⟩] }
  | .cer, .router c items =>
    if c.valid now && vm.checkCrl c && cfg.bgpsec then a.addPayload items c.notAfter else a
  | .roa, .roa c items =>
    if c.valid now && vm.checkCrl c then a.addPayload items c.notAfter else a
  | .asa, .asa c items =>
    if c.valid now && vm.checkCrl c && cfg.aspa then a.addPayload items c.notAfter else a
  | _, _ => a

/-- Outcome of walking the manifest entries (after `UpdateError::Abort` the processor is
restarted, so nothing of it survives). -/
inductive WalkX
  | complete (a : Acc) (objs : List StoredObj)
  | aborted
  deriving DecidableEq, Repr, Inhabited

def runEntriesX (cfg : Cfg) (now : Int) (ca : CaCtx) (vm : ValidMft) (pd : List Int)
    (files : List (Name × File)) : List Entry → Acc → List StoredObj → WalkX
  | [], a, objs => .complete a objs
  | e :: rest, a, objs =>
    if !e.nameOk then .aborted
    else match lookup e.name files with
      | none => .aborted
      | some file =>
        if file.hash != e.hash then .aborted
        else
          runEntriesX cfg now ca vm pd files rest
            (processObjectX cfg now ca vm pd e.ext file.content a)
            (objs ++ [⟨e.name, e.ext, file⟩])

def runStoredObjectsX (cfg : Cfg) (now : Int) (ca : CaCtx) (vm : ValidMft) (pd : List Int) :
    List StoredObj → Acc → Acc
  | [], a => a
  | o :: rest, a =>
    runStoredObjectsX cfg now ca vm pd rest (processObjectX cfg now ca vm pd o.ext o.file.content a)

/-- Which version of the publication point was used. -/
inductive Used
  /-- the version offered by the collector -/
  | fetched (vm : ValidMft) (crl : Content)
  /-- the version held by the store -/
  | stored (vm : ValidMft) (crl : Content)
  /-- none: the point is rejected -/
  | none
  deriving DecidableEq, Repr, Inhabited

/-- Result of a publication point with bookkeeping. -/
structure PointX where
  items : List Item
  kids : List CaX
  accepted : Bool
  stored : Option Stored
  /-- `PubPoint.refresh` when the point is committed (or cancelled) -/
  refresh : Int
  used : Used
  /-- Ghost: chain dates, this point's manifest/CRL dates, notAfter of contributing objects -/
  dates : List Int
  deriving DecidableEq, Repr, Inhabited

inductive CollectedX
  | done (r : PointX)
  | fallback (stored : Option Stored)
  deriving DecidableEq, Repr, Inhabited

def processCollectedX (cfg : Cfg) (now : Int) (ca : CaX) (f : Fetched) (st : Option Stored)
    (reorder : List Entry → List Entry) : CollectedX :=
  match f.mft with
  | none => .fallback st
  | some mf =>
    if sameManifest st mf ca.ctx then .fallback st
    else match validateCollected cfg now f mf with
      | none => .fallback st
      | some (vm, crl) =>
        match collectedIsNewer vm.mft st with
        | (false, st') => .fallback st'
        | (true, st') =>
          let pd := ca.dates ++ pointDates vm crl
          match runEntriesX cfg now ca.ctx vm pd f.files (reorder vm.mft.entries)
              ⟨[], [], pointValidity ca.refresh vm crl, []⟩ [] with
          | .complete a objs =>
            .done ⟨a.items, a.kids, true,
              some ⟨mf, vm.mft.number, vm.mft.thisUpdate, vm.mft.ee.notAfter, ca.ctx.info.repo, crl, objs⟩,
              a.refresh, .fetched vm crl, pd ++ a.objDates⟩
          | .aborted => .fallback st'

/-- `process_stored` on a freshly restarted processor (`refresh = orig_refresh`). -/
def processStoredX (cfg : Cfg) (now : Int) (ca : CaX) (st : Option Stored) : PointX :=
  match st with
  | none => ⟨[], [], false, st, ca.refresh, .none, ca.dates⟩
  | some s =>
    match validateStored cfg now s with
    | none => ⟨[], [], false, st, ca.refresh, .none, ca.dates⟩
    | some vm =>
      let pd := ca.dates ++ pointDates vm s.crl
      let a := runStoredObjectsX cfg now ca.ctx vm pd s.objects
        ⟨[], [], pointValidity ca.refresh vm s.crl, []⟩
      ⟨a.items, a.kids, true, st, a.refresh, .stored vm s.crl, pd ++ a.objDates⟩

/-- `PubPoint::process` (repaired code). -/
def processPointXWith (cfg : Cfg) (now : Int) (coll : Option Offer) (st : Option Stored) (ca : CaX)
    (reorder : List Entry → List Entry) : PointX :=
  match coll with
  | none => processStoredX cfg now ca st
  | some offer =>
    match processCollectedX cfg now ca (offer.get ca.ctx.info.mft) st reorder with
    | .done r => r
    | .fallback st' => processStoredX cfg now ca st'

def processPointX (cfg : Cfg) (now : Int) (coll : Option Offer) (st : Option Stored) (ca : CaX) :
    PointX :=
  processPointXWith cfg now coll st ca
    (applyOrder (match coll with
                 | some offer => (offer.get ca.ctx.info.mft).order
                 | none => []))

/-- One processed CA: the task, the store entry found, the result. -/
structure Visit where
  ca : CaX
  before : Option Stored
  point : PointX
  deriving DecidableEq, Repr, Inhabited

/-- `process_ca_task`: the visits of the whole subtree in processing order, and the store. -/
def processCaX (cfg : Cfg) (now : Int) (coll : Option Offer) :
    Nat → Store → CaX → List Visit × Store
  | 0, store, _ => ([], store)
  | fuel + 1, store, ca =>
    let before := store.point ca.ctx.info.mft
    let r := processPointX cfg now coll before ca
    let store := store.setPoint ca.ctx.info.mft r.stored
    r.kids.foldl
      (fun (acc : List Visit × Store) kid =>
        let sub := processCaX cfg now coll fuel acc.2 kid
        (acc.1 ++ sub.1, sub.2))
      ([⟨ca, before, r⟩], store)

/-- The task of a trust anchor: `PubPoint::new_ta`. -/
def CaX.root (c : TaCert) : CaX := ⟨CaCtx.root c.info, c.notAfter, [c.notAfter]⟩

def processTalX (cfg : Cfg) (now : Int) (view : Option View) (tal : Tal) (store : Store) :
    List Visit × Store :=
  match selectTa now view tal tal.uris store with
  | (none, store) => ([], store)
  | (some c, store) =>
    processCaX cfg now (view.map (·.points)) (cfg.maxDepth + 1) store (CaX.root c)

def runOnceX (cfg : Cfg) (now : Int) (view : Option View) (tals : List Tal) (store : Store) :
    List Visit × Store :=
  tals.foldl
    (fun (acc : List Visit × Store) tal =>
      let r := processTalX cfg now view tal acc.2
      (acc.1 ++ r.1, r.2))
    ([], store)

/-- The payload of a run. -/
def payloadOf (visits : List Visit) : List Item := visits.flatMap (·.point.items)

/-- `commit` pushes the point's data only if it carries payload. -/
def Visit.contributes (v : Visit) : Bool := v.point.accepted && !v.point.items.isEmpty

def minOpt : Option Int → Int → Option Int
  | none, x => some x
  | some y, x => some (min y x)

/-- `SnapshotBuilder::update_refresh` over the pushed points: the snapshot's refresh time. -/
def snapshotRefresh (visits : List Visit) : Option Int :=
  (visits.filter Visit.contributes).foldl (fun acc v => minOpt acc v.point.refresh) none

/-- The CAs whose publication point was rejected (`cancel`: their resources become unsafe). -/
def rejectedCas (visits : List Visit) : List CaX :=
  (visits.filter (fun v => !v.point.accepted)).map (·.ca)

/-- What is served under `unsafe-vrps = reject`: items overlapping (`ov`) the resources of a
rejected CA are dropped. `ov` is abstract (the model does not know prefixes). -/
def servedItems (ov : Item → CaX → Bool) (visits : List Visit) : List Item :=
  (payloadOf visits).filter (fun i => !(rejectedCas visits).any (ov i))

/-- A complete run (`ValidationReport::process`): validation, then cleanup. -/
def runFullX (cfg : Cfg) (tals : List Tal) (r : Run) (store : Store) : List Visit × Store :=
  let out := runOnceX cfg r.now r.view tals store
  (out.1, if r.cleanup then out.2.cleanup r.now else out.2)

end RoutinatorModel.Engine
