import RoutinatorModel.Model.Sys
/-!
# C15 — responses pair each serial with its own data

Shared state of `SharedHistory` (src/payload/history.rs): whether there is a snapshot, the serial,
the current data set, the retained deltas (newest first, at most `keep`), and a ghost log of every
version that was ever current. Atomic steps:

* the updater (`Server::process_once`): parked before each lock acquisition; the only step that
  changes the served data is the write-lock section of `update` (`install`): it pushes the delta
  (dropping the oldest if `max keep 1` are retained) *and* replaces the snapshot in one critical section;
* one atomic read step per request kind, each a single read-lock section in the code:
  HTTP data (`payload::handle_get_or_head`), HTTP delta (`delta::handle_get_or_head` incl.
  `delta_since`), HTTP notify answer (`session_and_serial`), RTR `ready`, `full`, `diff`, `notify`
  (`impl PayloadSource for SharedHistory`).

Data sets are abstract identifiers (`Nat`); a delta is `(target serial, from data, to data)` and
merging consecutive deltas yields `(first.from, last.to)` — that the real `PayloadDelta::merge`
does this is C12, that `delta_since` is correct on wrapped serials is C13; here serials are natural
numbers and `delta_since` is transcribed statement by statement (front checks, the "client has the version
the oldest delta was made from" shortcut of the C13 repair, then the scan from the oldest delta).
-/
namespace RoutinatorModel.ServerSched

structure Delta where
  target : Nat
  fromD : Nat
  toD : Nat
  deriving DecidableEq, Repr

inductive UPc
  | idle | start | read | install | mark | notify
  deriving DecidableEq, Repr

/-- What a response carries. -/
inductive Payload
  /-- no data (503 / "not ready") -/
  | none
  /-- a full data set for `serial` -/
  | full (serial data : Nat)
  /-- a change set from `fromSerial` to `serial`: applying it to `fromD` gives `toD` -/
  | delta (fromSerial serial fromD toD : Nat)
  /-- an empty change set for a client at `client`: it is at `serial` already -/
  | same (client serial : Nat)
  /-- just the version -/
  | version (serial : Nat)
  /-- `diff` refused (the RTR server then sends Cache Reset) -/
  | refused
  deriving DecidableEq, Repr

inductive Kind
  | httpData
  | httpDelta (sameSession : Bool) (client : Nat)
  | httpDeltaNoVersion
  | httpNotifyAnswer
  | rtrReady
  | rtrFull
  | rtrDiff (sameSession : Bool) (client : Nat)
  | rtrNotify
  deriving DecidableEq, Repr

structure Resp where
  kind : Kind
  payload : Payload
  /-- ghost: was there a snapshot when the response was computed -/
  active : Bool
  deriving DecidableEq, Repr

structure State where
  keep : Nat
  active : Bool
  serial : Nat
  cur : Nat
  /-- retained deltas, newest first -/
  deltas : List Delta
  /-- ghost: (serial, data) of every version ever installed, newest first -/
  log : List (Nat × Nat)
  upc : UPc
  resps : List Resp
  deriving DecidableEq, Repr

inductive Label
  /-- the updater runs to its next lock; `d` = the data set produced by this run (used at install) -/
  | u (d : Nat)
  | req (k : Kind)
  deriving DecidableEq, Repr

/-- `push_delta` (as repaired for C14, /repo 3a526b9):
`if self.deltas.len() >= cmp::max(self.keep, 1) { pop_back }; push_front`.
Same rule as `History.pushDelta` of `Model/History.lean` (C13/C14), here over abstract deltas;
`C15_pushDelta_agrees_with_history_model` relates the two definitions. -/
def pushDelta (keep : Nat) (deltas : List Delta) (d : Delta) : List Delta :=
  d :: (if deltas.length ≥ max keep 1 then deltas.dropLast else deltas)

def stepU (s : State) (d : Nat) : Option State :=
  match s.upc with
  | .idle => some { s with upc := .start }
  | .start => some { s with upc := .read }
  | .read => some { s with upc := .install }
  | .install =>
    if !s.active then
      -- first snapshot ever: no delta, serial stays 0
      some { s with upc := .mark, active := true, cur := d, log := [(s.serial, d)] }
    else if d = s.cur then
      some { s with upc := .mark }
    else
      some { s with upc := .mark, serial := s.serial + 1, cur := d,
                    deltas := pushDelta s.keep s.deltas ⟨s.serial + 1, s.cur, d⟩,
                    log := (s.serial + 1, d) :: s.log }
  | .mark => some { s with upc := .notify }
  | .notify => some { s with upc := .start }

/-- The scan of `delta_since` over the deltas from the oldest: skip those older than the client,
refuse if the first one not older is newer than the client's serial, otherwise (it is the delta
*to* the client's serial) return the deltas after it. -/
def skipTo (c : Nat) : List Delta → Option (List Delta)
  | [] => some []
  | d :: rest =>
    if d.target > c then none
    else if d.target = c then some rest
    else skipTo c rest

/-- The last element of `d :: rest`. -/
def lastD : Delta → List Delta → Delta
  | d, [] => d
  | _, x :: xs => lastD x xs

/-- Merge of a non-empty run of consecutive deltas, oldest first. -/
def mergeRun : List Delta → Option (Nat × Nat)
  | [] => none
  | d :: rest => some (d.fromD, (lastD d rest).toD)

/-- `PayloadHistory::delta_since`. `none` = refused; `some none` = empty delta. -/
def deltaSince (s : State) (c : Nat) : Option (Option (Nat × Nat)) :=
  match s.deltas with
  | [] => if c = 0 then some none else none
  | d :: _ =>
    if d.target < c then none
    else if d.target = c then some none
    else if d.target = c + 1 then some (some (d.fromD, d.toD))
    else
      -- the client has the version the oldest retained delta was made from: nothing to skip
      let fromOldest := (s.deltas.getLast?.map (·.target)) == some (c + 1)
      match (if fromOldest then some s.deltas.reverse else skipTo c s.deltas.reverse) with
      | none => none
      | some rest =>
        match mergeRun rest with
        | none => some none
        | some m => some (some m)

def respond (s : State) (k : Kind) : Payload :=
  match k with
  | .httpData => if s.active then .full s.serial s.cur else .none
  | .httpDelta same c =>
    if !s.active then .none
    else if same then
      match deltaSince s c with
      | some (some (f, t)) => .delta c s.serial f t
      | some none => .same c s.serial
      | none => .full s.serial s.cur
    else .full s.serial s.cur
  | .httpDeltaNoVersion => if s.active then .full s.serial s.cur else .none
  | .httpNotifyAnswer => .version s.serial
  | .rtrReady => if s.active then .version s.serial else .none
  -- the RTR server (rpki crate) asks `ready()` first and answers "no data" itself
  | .rtrFull => if s.active then .full s.serial s.cur else .none
  | .rtrDiff same c =>
    -- the RTR server (rpki crate) asks `ready()` first and answers "no data" itself
    if !s.active then .none
    else if same then
      match deltaSince s c with
      | some (some (f, t)) => .delta c s.serial f t
      | some none => .same c s.serial
      | none => .refused
    else .refused
  | .rtrNotify => .version s.serial

def step (s : State) : Label → Option State
  | .u d => stepU s d
  | .req k => some { s with resps := ⟨k, respond s k, s.active⟩ :: s.resps }

def init (keep : Nat) : State :=
  { keep := keep, active := false, serial := 0, cur := 0, deltas := [], log := [], upc := .idle,
    resps := [] }

def sys (keep : Nat) : Sys :=
  { State := State, Label := Label, step := step, init := init keep }

/-- The data set that was installed with a serial (ghost log lookup). -/
def dataAt (log : List (Nat × Nat)) (serial : Nat) : Option Nat :=
  (log.find? (fun v => v.1 == serial)).map (·.2)

/-- What the property demands of a response, relative to the log of versions at that moment. -/
def Payload.Ok (log : List (Nat × Nat)) : Payload → Prop
  | .none => True
  | .full serial data => dataAt log serial = some data
  | .delta fromSerial serial fromD toD =>
      dataAt log fromSerial = some fromD ∧ dataAt log serial = some toD
  | .same client serial => client = serial ∧ (dataAt log serial).isSome
  | .version serial => True
  | .refused => True

/-- The response carries data (a set or a change set). -/
def Payload.carriesData : Payload → Bool
  | .full _ _ => true
  | .delta _ _ _ _ => true
  | .same _ _ => true
  | _ => false

end RoutinatorModel.ServerSched
