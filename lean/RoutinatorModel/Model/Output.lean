import RoutinatorModel.Model.OutputTemplates
/-!
# `Output`, `Selection` and `OutputStream` (src/output.rs)

* `inclOrigin` / `inclKey` / `inclAspa` — `Output::include_*`: no selection admits
  everything, otherwise the loop over the selection's resources.
* `events fmt out d` — `OutputStream::write_next` run to completion: which `Formatter` hooks
  are called with which arguments, in order, for each of the 13 formatters (`flowOf` = what
  their `header` / `before_*` / `after_*` hooks return).
* `listed` — the items for which the formatter writes an entry.
* `render` — the text of the four JSON formats (`json`, `jsonext`, `slurm`, `slurm2`).

Items carry what selection looks at (ASN, prefix) as numbers and everything that is
printed as formatted text (`Display` of the rpki types is not modelled).
-/
namespace RoutinatorModel.Output
open RoutinatorModel.Json

/-! ## Selection -/

/-- A prefix: family, the address as a number (host bits zero), the length. -/
structure Pfx where
  v4 : Bool
  bits : Nat
  len : Nat
  deriving DecidableEq, Repr

def Pfx.width (p : Pfx) : Nat := if p.v4 then 32 else 128

/-- `Prefix::covers`: same family, not longer, and `other` starts with the bits of `self`. -/
def Pfx.covers (a b : Pfx) : Bool :=
  a.v4 == b.v4 && decide (a.len ≤ b.len) &&
    (b.bits / 2 ^ (a.width - a.len) * 2 ^ (a.width - a.len) == a.bits)

inductive Sel
  | asn (a : Nat)
  | prefix (p : Pfx)
  deriving DecidableEq, Repr

/-- `Output`: `selection` is `Some` only if the query had resources; `more` =
`more_specifics`. -/
structure Output where
  selection : Option (List Sel)
  more : Bool
  routeOrigins : Bool
  routerKeys : Bool
  aspas : Bool
  deriving Repr

inductive Info
  | pub (uri : Option Text) (tal notBefore notAfter chainNotBefore chainNotAfter stale : Text)
  | exc (path comment : Option Text)
  deriving Repr, DecidableEq

structure OriginI where
  asn : Nat
  pfx : Pfx
  asnT : Text          -- `AS64496`
  asnNumT : Text       -- `64496`
  addrT : Text
  lenT : Text
  maxT : Text          -- resolved max length
  maxLenT : Option Text
  ta : Option Text     -- `info.tal_name()`
  infos : List Info
  deriving Repr, DecidableEq

structure KeyI where
  asn : Nat
  asnT : Text
  asnNumT : Text
  skiHex : Text
  infoB64 : Text
  skiSlurm : Text
  infoSlurm : Text
  ta : Option Text
  infos : List Info
  deriving Repr, DecidableEq

structure AspaI where
  customer : Nat
  custT : Text
  custNumT : Text
  provT : List Text
  provNumT : List Text
  ta : Option Text
  infos : List Info
  deriving Repr, DecidableEq

structure Data where
  generated : Text
  generatedTime : Text
  origins : List OriginI
  keys : List KeyI
  aspas : List AspaI
  deriving Repr

/-- `SelectResource::include_origin`. -/
def Sel.inclOrigin (more : Bool) (o : OriginI) : Sel → Bool
  | .asn a => o.asn == a
  | .prefix p => o.pfx.covers p || (more && p.covers o.pfx)

def Sel.inclKey (k : KeyI) : Sel → Bool
  | .asn a => k.asn == a
  | .prefix _ => false

def Sel.inclAspa (x : AspaI) : Sel → Bool
  | .asn a => x.customer == a
  | .prefix _ => false

/-- `for select in &self.resources { if select.include(..) { return true } } false` -/
def anyLoop {α : Type} (p : α → Bool) : List α → Bool
  | [] => false
  | x :: rest => if p x then true else anyLoop p rest

/-- `Output::include_origin` etc. -/
def inclOrigin (out : Output) (o : OriginI) : Bool :=
  match out.selection with
  | some rs => anyLoop (Sel.inclOrigin out.more o) rs
  | none => true

def inclKey (out : Output) (k : KeyI) : Bool :=
  match out.selection with
  | some rs => anyLoop (Sel.inclKey k) rs
  | none => true

def inclAspa (out : Output) (x : AspaI) : Bool :=
  match out.selection with
  | some rs => anyLoop (Sel.inclAspa x) rs
  | none => true

/-! ## The documented selection (specification side) -/

/-- A route origin is admitted if no resources are selected, or some selected ASN is its
origin AS, or its prefix covers a selected prefix, or — with `more-specifics` — is covered
by one. Router keys and ASPAs are matched by ASN / customer ASN only. -/
def admitsOrigin (out : Output) (o : OriginI) : Bool :=
  match out.selection with
  | none => true
  | some rs => rs.any fun
    | .asn a => o.asn == a
    | .prefix p => o.pfx.covers p || (out.more && p.covers o.pfx)

def admitsKey (out : Output) (k : KeyI) : Bool :=
  match out.selection with
  | none => true
  | some rs => rs.any fun
    | .asn a => k.asn == a
    | .prefix _ => false

def admitsAspa (out : Output) (x : AspaI) : Bool :=
  match out.selection with
  | none => true
  | some rs => rs.any fun
    | .asn a => x.customer == a
    | .prefix _ => false

/-- Which payload types a format can express at all. -/
def Format.listsOrigins : Format → Bool
  | .summary | .none => false
  | _ => true

def Format.listsKeys : Format → Bool
  | .json | .jsonext | .slurm | .slurm2 => true
  | _ => false

def Format.listsAspas : Format → Bool
  | .json | .jsonext | .slurm2 => true
  | _ => false

/-! ## The stream state machine -/

inductive St
  | header | originBefore | origin | originAfter | keyBefore | key | keyAfter
  | aspaBefore | aspa | aspaAfter | done
  deriving DecidableEq, Repr

def St.toNat : St → Nat
  | .header => 0 | .originBefore => 1 | .origin => 2 | .originAfter => 3 | .keyBefore => 4
  | .key => 5 | .keyAfter => 6 | .aspaBefore => 7 | .aspa => 8 | .aspaAfter => 9 | .done => 10

/-- What the hooks of a formatter return (`b*` get the type's flag) and whether its item
hooks write anything. -/
structure Flow where
  hdr : St
  bO : Bool → St
  aO : St
  bK : Bool → St
  aK : St
  bA : Bool → St
  aA : St
  wO : Bool
  wK : Bool
  wA : Bool

/-- Origins only, skipped when excluded (csv, csvcompat, csvext, openbgpd, bird1, bird2, rpsl). -/
def flowOriginsOnly : Flow :=
  { hdr := .originBefore, bO := fun f => if f then .origin else .originAfter, aO := .keyBefore,
    bK := fun _ => .key, aK := .aspaBefore, bA := fun _ => .aspa, aA := .done,
    wO := true, wK := false, wA := false }

def flowJson : Flow :=
  { hdr := .originBefore, bO := fun f => if f then .origin else .keyBefore, aO := .keyBefore,
    bK := fun f => if f then .key else .aspaBefore, aK := .aspaBefore,
    bA := fun f => if f then .aspa else .done, aA := .done, wO := true, wK := true, wA := true }

def flowSlurm : Flow :=
  { hdr := .originBefore, bO := fun f => if f then .origin else .originAfter, aO := .keyBefore,
    bK := fun f => if f then .key else .keyAfter, aK := .done,
    bA := fun _ => .aspa, aA := .done, wO := true, wK := true, wA := false }

def flowSlurm2 : Flow :=
  { hdr := .originBefore, bO := fun f => if f then .origin else .originAfter, aO := .keyBefore,
    bK := fun f => if f then .key else .keyAfter, aK := .aspaBefore,
    bA := fun f => if f then .aspa else .aspaAfter, aA := .done, wO := true, wK := true, wA := true }

def flowSummary : Flow :=
  { hdr := .done, bO := fun _ => .origin, aO := .keyBefore, bK := fun _ => .key, aK := .aspaBefore,
    bA := fun _ => .aspa, aA := .done, wO := false, wK := false, wA := false }

def flowNone : Flow :=
  { hdr := .originBefore, bO := fun _ => .origin, aO := .keyBefore, bK := fun _ => .key,
    aK := .aspaBefore, bA := fun _ => .aspa, aA := .done, wO := false, wK := false, wA := false }

def flowOf : Format → Flow
  | .json | .jsonext => flowJson
  | .slurm => flowSlurm
  | .slurm2 => flowSlurm2
  | .summary => flowSummary
  | .none => flowNone
  | _ => flowOriginsOnly

def b2n (b : Bool) : Nat := if b then 1 else 0

/-- A flow as `Generated.outputFlows` writes it. -/
def Flow.row (f : Flow) : List Nat :=
  [f.hdr.toNat, f.hdr.toNat, (f.bO true).toNat, (f.bO false).toNat, f.aO.toNat, f.aO.toNat,
   (f.bK true).toNat, (f.bK false).toNat, f.aK.toNat, f.aK.toNat,
   (f.bA true).toNat, (f.bA false).toNat, f.aA.toNat, f.aA.toNat, b2n f.wO, b2n f.wK, b2n f.wA]

def outputFlows : List (Text × List Nat) := [
  (cp!"Csv", (flowOf .csv).row), (cp!"CompatCsv", (flowOf .csvcompat).row),
  (cp!"ExtendedCsv", (flowOf .csvext).row), (cp!"Json", (flowOf .json).row),
  (cp!"ExtendedJson", (flowOf .jsonext).row), (cp!"Slurm", (flowOf .slurm).row),
  (cp!"Slurm2", (flowOf .slurm2).row), (cp!"Openbgpd", (flowOf .openbgpd).row),
  (cp!"Bird1", (flowOf .bird1).row), (cp!"Bird2", (flowOf .bird2).row),
  (cp!"Rpsl", (flowOf .rpsl).row), (cp!"Summary", (flowOf .summary).row),
  (cp!"NoOutput", (flowOf .none).row)]

/-- The hook calls of a run. `first` = the loop's local of the same name (no delimiter
before the item). -/
inductive Ev
  | header
  | beforeO (flag : Bool)
  | origin (first : Bool) (o : OriginI)
  | afterO
  | beforeK (flag : Bool)
  | key (first : Bool) (k : KeyI)
  | afterK
  | beforeA (flag : Bool)
  | aspa (first : Bool) (a : AspaI)
  | afterA
  | footer
  deriving Repr

/-- The item loop: `first` is true for the first *included* item. -/
def markFirst {α : Type} : Bool → List α → List (Bool × α)
  | _, [] => []
  | first, x :: rest => (first, x) :: markFirst false rest

/-- One call of `write_next` in a state other than `Done`: the hook calls and the next state. -/
def next (fl : Flow) (out : Output) (d : Data) : St → List Ev × St
  | .header => ([.header], fl.hdr)
  | .originBefore => ([.beforeO out.routeOrigins], fl.bO out.routeOrigins)
  | .origin => ((markFirst true (d.origins.filter (inclOrigin out))).map (fun p => .origin p.1 p.2), .originAfter)
  | .originAfter => ([.afterO], fl.aO)
  | .keyBefore => ([.beforeK out.routerKeys], fl.bK out.routerKeys)
  | .key => ((markFirst true (d.keys.filter (inclKey out))).map (fun p => .key p.1 p.2), .keyAfter)
  | .keyAfter => ([.afterK], fl.aK)
  | .aspaBefore => ([.beforeA out.aspas], fl.bA out.aspas)
  | .aspa => ((markFirst true (d.aspas.filter (inclAspa out))).map (fun p => .aspa p.1 p.2), .aspaAfter)
  | .aspaAfter => ([.afterA], fl.aA)
  | .done => ([], .done)

/-- `while stream.write_next(target)? { }`: the footer is written by the call that moves to
`Done`. -/
def run (fl : Flow) (out : Output) (d : Data) : Nat → St → List Ev
  | 0, _ => []
  | _ + 1, .done => []
  | n + 1, st =>
    (next fl out d st).1 ++ ((if (next fl out d st).2 = .done then [.footer] else []) ++
      run fl out d n (next fl out d st).2)

def events (fmt : Format) (out : Output) (d : Data) : List Ev := run (flowOf fmt) out d 12 .header

inductive Item
  | o (x : OriginI)
  | k (x : KeyI)
  | a (x : AspaI)
  deriving Repr, DecidableEq

/-- The item a hook call writes an entry for, if any. -/
def evItem (fl : Flow) : Ev → Option Item
  | .origin _ o => if fl.wO then some (.o o) else none
  | .key _ k => if fl.wK then some (.k k) else none
  | .aspa _ a => if fl.wA then some (.a a) else none
  | _ => none

/-- The items the formatter writes an entry for, in output order. -/
def listed (fmt : Format) (out : Output) (d : Data) : List Item :=
  (events fmt out d).filterMap (evItem (flowOf fmt))

/-! ## The text of the JSON formats -/

/-- The literal of a hook that writes a constant. -/
def lit (t : List Seg) : Text := fillFrom t []

def litNA : Text := cp!"N/A"

/-- `json_str(info.tal_name().unwrap_or("N/A"))` -/
def taText (ta : Option Text) : Text := jsonStr (ta.getD litNA)

/-- A loop with a local `first` flag: `sep` before every item but the first. -/
def loopText {α : Type} (sep : Text) (f : α → Text) : Bool → List α → Text
  | _, [] => []
  | first, x :: rest => (if first then [] else sep) ++ (f x ++ loopText sep f false rest)

/-- One entry of `ExtendedJson::payload_info` (after the separator); `kind` = `rpki_type`. -/
def infoText (kind : Text) : Info → Text
  | .pub uri tal nb na cnb cna stale =>
    fillFrom t_ExtendedJson_info_pub_head [kind] ++
    ((match uri with
      | some u => fillFrom t_ExtendedJson_info_pub_uri [u]
      | none => lit t_ExtendedJson_info_pub_nouri) ++
    fillFrom t_ExtendedJson_info_pub_rest [jsonStr tal, nb, na, cnb, cna, stale])
  | .exc path comment =>
    lit t_ExtendedJson_info_exc_head ++
    ((match path with
      | some p => fillFrom t_ExtendedJson_info_exc_path [jsonStr p]
      | none => lit t_ExtendedJson_info_exc_nopath) ++
    ((match comment with
      | some c => fillFrom t_ExtendedJson_info_exc_comment [jsonStr c]
      | none => []) ++
    lit t_ExtendedJson_info_exc_tail))

/-- `ExtendedJson::payload_info`. -/
def infosText (kind : Text) (infos : List Info) : Text :=
  loopText (lit t_ExtendedJson_info_sep) (infoText kind) true infos

/-- The provider loop of the `aspa` hooks: the first provider is written with the `first`
template, the others with the `next` template (which starts with the separator). -/
def provText (fmt : Format) : Bool → List Text → Text
  | _, [] => []
  | first, p :: rest =>
    fillFrom (if first then h_aspa_first fmt else h_aspa_next fmt) [p] ++ provText fmt false rest

def originText (fmt : Format) (o : OriginI) : Text :=
  match fmt with
  | .json => fillFrom (h_origin fmt) [o.asnT, o.addrT, o.lenT, o.maxT, taText o.ta]
  | .jsonext => fillFrom (h_origin fmt) [o.asnT, o.addrT, o.lenT, o.maxT, infosText (cp!"roa") o.infos]
  | .slurm | .slurm2 =>
    fillFrom (h_origin_head fmt) [o.asnNumT, o.addrT, o.lenT] ++
    ((match o.maxLenT with
      | some m => fillFrom (h_origin_maxlen fmt) [m]
      | none => []) ++
    fillFrom (h_origin_tail fmt) [taText o.ta])
  | _ => []

def keyText (fmt : Format) (k : KeyI) : Text :=
  match fmt with
  | .json => fillFrom (h_router_key fmt) [k.asnT, k.skiHex, k.infoB64, taText k.ta]
  | .jsonext => fillFrom (h_router_key fmt) [k.asnT, k.skiHex, k.infoB64, infosText (cp!"cer") k.infos]
  | .slurm | .slurm2 => fillFrom (h_router_key fmt) [k.asnNumT, k.skiSlurm, k.infoSlurm, taText k.ta]
  | _ => []

def aspaText (fmt : Format) (x : AspaI) : Text :=
  match fmt with
  | .json =>
    fillFrom (h_aspa_head fmt) [x.custT] ++ (provText fmt true x.provT ++
      fillFrom (h_aspa_tail fmt) [taText x.ta])
  | .jsonext =>
    fillFrom (h_aspa_head fmt) [x.custT] ++ (provText fmt true x.provT ++
      fillFrom (h_aspa_tail fmt) [infosText (cp!"aspa") x.infos])
  | .slurm2 =>
    fillFrom (h_aspa_head fmt) [x.custNumT] ++ (provText fmt true x.provNumT ++
      fillFrom (h_aspa_tail fmt) [taText x.ta])
  | _ => []

/-- `json` / `jsonext` write the opening of a section only if the type is enabled, the SLURM
formats always. -/
def Format.sectionsAlways : Format → Bool
  | .slurm | .slurm2 => true
  | _ => false

def beforeText (fmt : Format) (t : List Seg) (flag : Bool) : Text :=
  if fmt.sectionsAlways || flag then lit t else []

/-- What a hook call writes. -/
def evText (fmt : Format) (d : Data) : Ev → Text
  | .header => fillFrom (h_header fmt) [d.generated, d.generatedTime]
  | .beforeO flag => beforeText fmt (h_before_origins fmt) flag
  | .origin first o => (if first then [] else lit (h_origin_delimiter fmt)) ++ originText fmt o
  | .afterO => lit (h_after_origins fmt)
  | .beforeK flag => beforeText fmt (h_before_router_keys fmt) flag
  | .key first k => (if first then [] else lit (h_router_key_delimiter fmt)) ++ keyText fmt k
  | .afterK => lit (h_after_router_keys fmt)
  | .beforeA flag => beforeText fmt (h_before_aspas fmt) flag
  | .aspa first a => (if first then [] else lit (h_aspa_delimiter fmt)) ++ aspaText fmt a
  | .afterA => lit (h_after_aspas fmt)
  | .footer => lit (h_footer fmt)

/-- `Output::write` for one of the four JSON formats. -/
def render (fmt : Format) (out : Output) (d : Data) : Text := (events fmt out d).flatMap (evText fmt d)

def Format.isJson : Format → Bool
  | .json | .jsonext | .slurm | .slurm2 => true
  | _ => false

/-! ## Field alphabets (what the driver checks of its input) -/

def plainB (s : Text) : Bool :=
  s.all fun c => decide (0x20 ≤ c) && c != 0x22 && c != 0x5C && decide (c ≤ 0x10FFFF)

def intB : Text → Bool
  | [] => false
  | [0x30] => true
  | d :: ds => decide (0x31 ≤ d) && decide (d ≤ 0x39) && ds.all isDigit

def optB (p : Text → Bool) : Option Text → Bool
  | some s => p s
  | none => true

def infoOkB : Info → Bool
  | .pub uri tal nb na cnb cna stale =>
    optB plainB uri && scalarB tal && plainB nb && plainB na && plainB cnb && plainB cna && plainB stale
  | .exc path comment => optB scalarB path && optB scalarB comment

def originOkB (o : OriginI) : Bool :=
  plainB o.asnT && intB o.asnNumT && plainB o.addrT && intB o.lenT && intB o.maxT &&
    optB intB o.maxLenT && optB scalarB o.ta && o.infos.all infoOkB

def keyOkB (k : KeyI) : Bool :=
  plainB k.asnT && intB k.asnNumT && plainB k.skiHex && plainB k.infoB64 && plainB k.skiSlurm &&
    plainB k.infoSlurm && optB scalarB k.ta && k.infos.all infoOkB

def aspaOkB (x : AspaI) : Bool :=
  plainB x.custT && intB x.custNumT && x.provT.all plainB && x.provNumT.all intB &&
    optB scalarB x.ta && x.infos.all infoOkB

def Data.okB (d : Data) : Bool :=
  isNumberB d.generated && plainB d.generatedTime && d.origins.all originOkB &&
    d.keys.all keyOkB && d.aspas.all aspaOkB

end RoutinatorModel.Output
