import RoutinatorModel.Model.Sys
/-!
# C37 — the once-per-run fetch protocol of `collector::rsync::Run::load_module` and
`collector::rrdp::Run::load_repository`

Shared state: `updated` (set of keys already fetched in this run), `running` (map key ↦ mutex),
the mutexes themselves (`holder`), and per thread a program counter. One label = one atomic
step of one thread; the program counters are the hook points `rsync.*` / `rrdp.*` placed in the
real code plus a few finer intermediate positions (`fetching`, `hit`, `ret2`) that the real
replay passes through inside one segment.

```
load(k):                                  pc
  if k ∈ updated { return }               check k
  m := running.entry(k).or_default()      getm k
  lock m                                  lock k m     (enabled iff m is free)
  if k ∈ updated {                        locked k m
     [rrdp] running.remove(k)             hit k m
     return (unlock) }                    ret2 k m
  fetch k                                 fetch k m → fetching k m → fetched k m
  first map update                        fetched k m
  second map update                       between k m
  return (unlock)                         done k m
```

`Variant.insertFirst`: the first map update is `updated.insert(k)` and the second is
`running.remove(k)` (RRDP; rsync after the repair). `insertFirst = false` is the order of the
unrepaired rsync code (remove, then insert). `Variant.recheckRemoves`: the RRDP code also removes
`k` from `running` when the re-check under the mutex finds `k` updated.

Any number of threads (`Tid = Nat`), any keys, any number of calls per thread.
-/
namespace RoutinatorModel.Once

abbrev Key := Nat
abbrev Tid := Nat
abbrev Mx := Nat

structure Variant where
  insertFirst : Bool
  recheckRemoves : Bool
  deriving DecidableEq, Repr

/-- rsync `load_module` after the repair (fixes/C37-rsync-order.patch). -/
def rsyncFixed : Variant := ⟨true, false⟩
/-- rsync `load_module` as found at the pinned commit. -/
def rsyncOld : Variant := ⟨false, false⟩
/-- RRDP `load_repository`. -/
def rrdp : Variant := ⟨true, true⟩

inductive Pc where
  | idle
  | check (k : Key)
  | getm (k : Key)
  | lock (k : Key) (m : Mx)
  | locked (k : Key) (m : Mx)
  | hit (k : Key) (m : Mx)
  | ret2 (k : Key) (m : Mx)
  | fetch (k : Key) (m : Mx)
  | fetching (k : Key) (m : Mx)
  | fetched (k : Key) (m : Mx)
  | between (k : Key) (m : Mx)
  | done (k : Key) (m : Mx)
  deriving DecidableEq, Repr

/-- The key of the call a thread is in. -/
def Pc.key : Pc → Option Key
  | .idle => none
  | .check k | .getm k => some k
  | .lock k _ | .locked k _ | .hit k _ | .ret2 k _ | .fetch k _ | .fetching k _
  | .fetched k _ | .between k _ | .done k _ => some k

structure St where
  updated : Key → Bool
  running : Key → Option Mx
  holder : Mx → Option Tid
  next : Mx
  pc : Tid → Pc
  /-- ghost: number of fetches of `k` started. -/
  started : Key → Nat
  /-- ghost: number of fetches of `k` finished. -/
  completed : Key → Nat

def St.init : St :=
  { updated := fun _ => false, running := fun _ => none, holder := fun _ => none, next := 0,
    pc := fun _ => .idle, started := fun _ => 0, completed := fun _ => 0 }

/-- Function update. -/
def upd {β : Type} (f : Nat → β) (a : Nat) (b : β) : Nat → β := fun x => if x = a then b else f x

@[simp] theorem upd_same {β : Type} (f : Nat → β) (a : Nat) (b : β) : upd f a b a = b := by
  simp [upd]

theorem upd_other {β : Type} (f : Nat → β) (a : Nat) (b : β) (x : Nat) (h : x ≠ a) :
    upd f a b x = f x := by simp [upd, h]

inductive Act where
  | call (k : Key)
  | step
  deriving DecidableEq, Repr

abbrev Label := Tid × Act

def step (v : Variant) (s : St) : Label → Option St
  | (t, .call k) =>
    match s.pc t with
    | .idle => some { s with pc := upd s.pc t (.check k) }
    | _ => none
  | (t, .step) =>
    match s.pc t with
    | .idle => none
    | .check k =>
      if s.updated k then some { s with pc := upd s.pc t .idle }
      else some { s with pc := upd s.pc t (.getm k) }
    | .getm k =>
      match s.running k with
      | some m => some { s with pc := upd s.pc t (.lock k m) }
      | none => some { s with running := upd s.running k (some s.next), next := s.next + 1,
                              pc := upd s.pc t (.lock k s.next) }
    | .lock k m =>
      match s.holder m with
      | none => some { s with holder := upd s.holder m (some t), pc := upd s.pc t (.locked k m) }
      | some _ => none
    | .locked k m =>
      if s.updated k then
        if v.recheckRemoves then some { s with pc := upd s.pc t (.hit k m) }
        else some { s with pc := upd s.pc t (.ret2 k m) }
      else some { s with pc := upd s.pc t (.fetch k m) }
    | .hit k m => some { s with running := upd s.running k none, pc := upd s.pc t (.ret2 k m) }
    | .ret2 _ m => some { s with holder := upd s.holder m none, pc := upd s.pc t .idle }
    | .fetch k m =>
      some { s with started := upd s.started k (s.started k + 1), pc := upd s.pc t (.fetching k m) }
    | .fetching k m =>
      some { s with completed := upd s.completed k (s.completed k + 1),
                    pc := upd s.pc t (.fetched k m) }
    | .fetched k m =>
      if v.insertFirst then
        some { s with updated := upd s.updated k true, pc := upd s.pc t (.between k m) }
      else
        some { s with running := upd s.running k none, pc := upd s.pc t (.between k m) }
    | .between k m =>
      if v.insertFirst then
        some { s with running := upd s.running k none, pc := upd s.pc t (.done k m) }
      else
        some { s with updated := upd s.updated k true, pc := upd s.pc t (.done k m) }
    | .done _ m => some { s with holder := upd s.holder m none, pc := upd s.pc t .idle }

/-- The transition system: every interleaving of any number of threads. -/
def sys (v : Variant) : Sys := { State := St, Label := Label, step := step v, init := St.init }

/-! ### Replay granularity

The real replay parks threads at the hook points only; `hit`, `ret2` and `fetching` have no hook
point (they lie inside one real segment). A macro step of thread `t` runs micro steps of `t`
until `t` is at a hook point again or has returned. -/

def Pc.visible : Pc → Bool
  | .hit .. | .ret2 .. | .fetching .. => false
  | _ => true

/-- Finish the invisible micro steps of thread `t` (at most two in a row). -/
def settle (v : Variant) (t : Tid) : Nat → St → Option St
  | 0, s => some s
  | n + 1, s =>
    if (s.pc t).visible then some s
    else match step v s (t, .step) with
      | none => none
      | some s' => settle v t n s'

/-- One replayed segment of thread `t`: one micro step and then the invisible ones. -/
def macroStep (v : Variant) (s : St) (l : Label) : Option St :=
  match step v s l with
  | none => none
  | some s' => settle v l.1 3 s'

end RoutinatorModel.Once
