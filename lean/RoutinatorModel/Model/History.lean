import RoutinatorModel.Model.Serial
/-!
# Model of `src/payload/history.rs` (`PayloadHistory` / `SharedHistory`)

Statement for statement: `push_delta`, `update`, `serial`, `delta_since`, the session
checks of `PayloadSource::diff` and of `http::delta::handle_get_or_head`, and the
scheduling arithmetic of `mark_update_done` / `refresh_wait`.

The model is of the **repaired** code (see `fixes/C13-*.patch` — two repairs —, `fixes/C14-*.patch`);
the unrepaired arms are kept as `skipToOrig` / `deltaSinceOrig` / `pushDeltaOrig` for the
negation witnesses in `Props/C13.lean`, `Props/C14.lean`.

Ghost state: `log` records every version ever installed as `(data set, serial)`, newest
first. No code path reads it; theorems relate answers to it.
-/
namespace RoutinatorModel

structure History where
  /-- `current: Option<Arc<PayloadSnapshot>>` -/
  current : Option Snapshot
  /-- `deltas: VecDeque<Arc<PayloadDelta>>`, newest at the front -/
  deltas : List PayloadDelta
  /-- `keep: usize` = `config.history_size` -/
  keep : Nat
  /-- `session: u64` (Unix seconds at creation) -/
  session : Nat
  /-- ghost: every installed version `(data, serial)`, newest first -/
  log : List (Snapshot × Nat)
  deriving Repr, Inhabited

/-- `PayloadHistory::from_config` -/
def History.init (keep session : Nat) : History :=
  { current := none, deltas := [], keep := keep, session := session, log := [] }

/-- `PayloadHistory::serial`: the front delta's serial, or 0. -/
def History.serial (h : History) : Nat :=
  match h.deltas with
  | [] => 0
  | d :: _ => d.serial

/-- `push_delta` as repaired: `if self.deltas.len() >= cmp::max(self.keep, 1) { pop_back }`,
then `push_front`. -/
def History.pushDelta (h : History) (d : PayloadDelta) : History :=
  { h with deltas := d :: (if h.deltas.length ≥ max h.keep 1 then h.deltas.dropLast else h.deltas) }

/-- `push_delta` on the pinned tree: `if self.deltas.len() == self.keep`. -/
def History.pushDeltaOrig (h : History) (d : PayloadDelta) : History :=
  { h with deltas := d :: (if h.deltas.length = h.keep then h.deltas.dropLast else h.deltas) }

/-- `SharedHistory::update` with the snapshot already built: returns the new history and
the "a new version was added" flag. -/
def History.update (h : History) (s : Snapshot) : History × Bool :=
  match h.current with
  | none =>
    -- "This is the first snapshot ever."
    ({ h with current := some s, log := (s, h.serial) :: h.log }, true)
  | some cur =>
    match PayloadDelta.construct cur s h.serial with
    | some d =>
      -- "Data has changed."
      ({ (h.pushDelta d) with current := some s, log := (s, d.serial) :: h.log }, true)
    | none =>
      -- "Nothing has changed." (the snapshot is still replaced)
      ({ h with current := some s }, false)

/-- Same with the unrepaired `push_delta`. -/
def History.updateOrig (h : History) (s : Snapshot) : History × Bool :=
  match h.current with
  | none => ({ h with current := some s, log := (s, h.serial) :: h.log }, true)
  | some cur =>
    match PayloadDelta.construct cur s h.serial with
    | some d => ({ (h.pushDeltaOrig d) with current := some s, log := (s, d.serial) :: h.log }, true)
    | none => ({ h with current := some s }, false)

/-- The harness hook `verif_seed_serial`: on an active history, drop all deltas and push
an empty delta with the chosen serial (so the next change gets `serial + 1`). The empty
delta says that version `serial - 1` had the same data, which is what the ghost log records. -/
def History.seed (h : History) (x : Nat) : History × Bool :=
  match h.current with
  | none => (h, false)
  | some cur =>
    ({ ({ h with deltas := [] }.pushDelta (PayloadDelta.empty x)) with
        log := [(cur, x), (cur, (x + serialMod - 1) % serialMod)] }, true)

/-- Result of the first loop of `delta_since` over the deltas, oldest first. -/
inductive Skip
  | refuse
  | rest (l : List PayloadDelta)
  deriving Repr

/-- The first loop of `delta_since` as repaired (`for delta in &mut iter { match
delta.serial().partial_cmp(&serial) … }`): `Greater` and *incomparable* refuse, `Equal`
stops, `Less` continues; `rest` is what the iterator still holds afterwards. -/
def skipTo (c : Nat) : List PayloadDelta → Skip
  | [] => .rest []
  | d :: ds =>
    match serialPcmp d.serial c with
    | some .gt => .refuse
    | some .eq => .rest ds
    | some .lt => skipTo c ds
    | none => .refuse

/-- The loop on the pinned tree: `_ => continue` also swallows the incomparable case. -/
def skipToOrig (c : Nat) : List PayloadDelta → Skip
  | [] => .rest []
  | d :: ds =>
    match serialPcmp d.serial c with
    | some .gt => .refuse
    | some .eq => .rest ds
    | _ => skipToOrig c ds

/-- `delta_since` parametrised by the skipping loop and by whether the "client has the
version the oldest retained delta was made from" test (`from_oldest`, second repair) is
present. -/
def History.deltaSinceWith (skip : Nat → List PayloadDelta → Skip) (fromOldest : Bool)
    (h : History) (c : Nat) : Option PayloadDelta :=
  match h.deltas with
  | [] =>
    -- "We don't have deltas yet, so we are on serial 0, too."
    if c = 0 then some (PayloadDelta.empty c) else none
  | d :: _ =>
    if serialLt d.serial c then none                       -- future serial
    else if d.serial = c then some (PayloadDelta.empty c)  -- current version
    else if d.serial = serialAdd c 1 then some d           -- one behind
    else
      -- `iter = self.deltas.iter().rev()`; `from_oldest` leaves it untouched
      let r := h.deltas.reverse
      let start :=
        if fromOldest && (r.head?.map (·.serial) == some (serialAdd c 1)) then Skip.rest r
        else skip c r
      match start with
      | .refuse => none
      | .rest [] => some (PayloadDelta.empty c)            -- `iter.next() == None`
      | .rest (x :: xs) => some (xs.foldl PayloadDelta.merge x)

/-- `PayloadHistory::delta_since` (repaired: incomparable serials refused, base version of
the oldest retained delta answered). -/
def History.deltaSince (h : History) (c : Nat) : Option PayloadDelta :=
  h.deltaSinceWith skipTo true c

/-- `delta_since` with the first repair only (no `from_oldest` test): refuses the version
the oldest retained delta starts from. -/
def History.deltaSinceNoBase (h : History) (c : Nat) : Option PayloadDelta :=
  h.deltaSinceWith skipTo false c

/-- `PayloadHistory::delta_since` on the pinned tree. -/
def History.deltaSinceOrig (h : History) (c : Nat) : Option PayloadDelta :=
  h.deltaSinceWith skipToOrig false c

/-- `rtr_session`: `self.session as u16`. -/
def History.rtrSession (h : History) : Nat := h.session % 65536

/-- `PayloadSource::diff`: `(session, serial)` of the answer and the delta, or `None`. -/
def History.rtrDiff (h : History) (sess c : Nat) : Option (Nat × Nat × PayloadDelta) :=
  if h.rtrSession ≠ sess then none
  else (h.deltaSince c).map fun d => (h.rtrSession, h.serial, d)

/-- The three answers of `GET /json-delta`. -/
inductive HttpAnswer
  | initial
  | reset (session serial : Nat) (data : Snapshot)
  | delta (session fromSerial toSerial : Nat) (d : PayloadDelta)
  deriving Repr

/-- `http::delta::handle_get_or_head` for a GET with a well-formed query: `v` is the
result of `version_from_query`. -/
def History.httpDelta (h : History) (v : Option (Nat × Nat)) : HttpAnswer :=
  match h.current with
  | none => .initial
  | some cur =>
    match v with
    | some (sess, c) =>
      if sess = h.session then
        match h.deltaSince c with
        | some d => .delta sess c h.serial d
        | none => .reset h.session h.serial cur
      else .reset h.session h.serial cur
    | none => .reset h.session h.serial cur

/-! ## Scheduling (`mark_update_done`, `refresh_wait`) — times and durations in nanoseconds -/

/-- `next_update_start` as set by `mark_update_done` at time `now`: `now + refresh`,
brought forward to the snapshot's refresh time if that is earlier. -/
def nextUpdateStart (now refresh : Nat) (expiry : Option Nat) : Nat :=
  let next := now + refresh
  match expiry with
  | some e => if e < next then e else next
  | none => next

/-- `refresh_wait` evaluated at time `now`:
`max(next_update_start.duration_since(now).unwrap_or(0), min_refresh.unwrap_or(refresh))`. -/
def refreshWait (next now refresh : Nat) (minRefresh : Option Nat) : Nat :=
  let waitTime := match minRefresh with
    | none => refresh
    | some m => m
  max (next - now) waitTime

/-- One successful regular run of the server loop (`operation.rs`, `Server::run`): it takes
`dur` from its start to `mark_update_done`, the data set it produced expires at `expiry`,
and `refresh_wait` is evaluated `lag` later (the clock does not step backwards). -/
structure SchedRun where
  dur : Nat
  lag : Nat
  expiry : Option Nat
  deriving Repr

/-- The waits the server loop obtains from `refresh_wait` over a sequence of successful
regular runs, the first starting at `t`; each next run starts when its wait has elapsed
(`deadline = Instant::now() + timeout`). -/
def schedWaits (refresh : Nat) (minRefresh : Option Nat) : Nat → List SchedRun → List Nat
  | _, [] => []
  | t, x :: xs =>
    let fin := t + x.dur
    let now1 := fin + x.lag
    let w := refreshWait (nextUpdateStart fin refresh x.expiry) now1 refresh minRefresh
    w :: schedWaits refresh minRefresh (now1 + w) xs

/-- Start times of the runs of the same sequence (the first is `t`). -/
def schedStarts (refresh : Nat) (minRefresh : Option Nat) : Nat → List SchedRun → List Nat
  | t, [] => [t]
  | t, x :: xs =>
    let fin := t + x.dur
    let now1 := fin + x.lag
    let w := refreshWait (nextUpdateStart fin refresh x.expiry) now1 refresh minRefresh
    t :: schedStarts refresh minRefresh (now1 + w) xs

end RoutinatorModel
