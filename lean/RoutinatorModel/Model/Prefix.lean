/-!
# IP prefixes (`rpki::resources::addr::Prefix`)

Transcription of the parts of `rpki-0.19.3/src/resources/addr.rs` that route validity (C20),
SLURM prefix filters (C09) and the unsafe-VRP filter (C08) depend on.

`Bits(u128)`: the address as a 128 bit integer, IPv6 in all bits, IPv4 in the upper four
bytes, right-padded with zeros — "this makes it possible to count prefix lengths the same way
for both addresses, i.e., starting from the top of the raw integer".
`FamilyAndLen`: modelled as the pair `(v4, len)`.
-/
namespace RoutinatorModel

structure Prefix where
  /-- `is_v4()` -/
  v4 : Bool
  /-- `len()` -/
  len : Nat
  /-- `bits.into_int()` -/
  bits : BitVec 128
deriving DecidableEq, Repr, Inhabited

namespace Prefix

/-- Largest prefix length of the family (`FamilyAndLen::new_v4/new_v6` reject larger ones). -/
def famLen (v4 : Bool) : Nat := if v4 then 32 else 128

/-- The `i`-th bit of the address counted from the top (bit 0 = most significant). -/
def bit (p : Prefix) (i : Nat) : Bool := p.bits.getMsbD i

/-- `!(u128::MAX >> len)`: the network mask of a prefix of length `len`. -/
def netMask (len : Nat) : BitVec 128 := ~~~(BitVec.allOnes 128 >>> len)

/-- `Bits::is_host_zero(len)` as a computation: no bit set outside the network mask. -/
def hostZeroB (p : Prefix) : Bool := p.bits &&& (BitVec.allOnes 128 >>> p.len) == 0#128

/-- Executable well-formedness (what `Prefix::new` guarantees): length within the family,
host bits zero. For IPv4 this implies the lower 96 bits are zero. -/
def wfB (p : Prefix) : Bool := decide (p.len ≤ famLen p.v4) && p.hostZeroB

/-- Well-formedness, stated on bits. -/
structure WF (p : Prefix) : Prop where
  len_le : p.len ≤ famLen p.v4
  host_zero : ∀ i, p.len ≤ i → p.bit i = false

/-- `Prefix::covers(self, other)`, line by line:
```
if self.is_v4() != other.is_v4() { return false }
if self.len() > other.len() { return false }
if self.is_v4() { if self.len() == 32 && other.len() == 32 { return self == other } }
else if self.len() == 128 && other.len() == 128 { return self == other }
self.bits.into_int() == other.bits.into_int() & !(u128::MAX >> self.len())
```
(`u128::MAX >> 128` would overflow in Rust; it is unreachable because a `/128` can only be
asked to cover another `/128`, which the special case answers. In the model `>>> 128` is `0`.) -/
def covers (self other : Prefix) : Bool :=
  if self.v4 != other.v4 then false
  else if self.len > other.len then false
  else if self.v4 then
    if self.len == 32 && other.len == 32 then self == other
    else self.bits == other.bits &&& netMask self.len
  else if self.len == 128 && other.len == 128 then self == other
  else self.bits == other.bits &&& netMask self.len

end Prefix
end RoutinatorModel
