import RoutinatorModel.Model.Template
/-!
# The format strings of the four JSON output formats (src/output.rs)

`json`, `jsonext`, `slurm`, `slurm2`: one constant per `Formatter` hook that writes something
(ASPA hooks split at the provider loop, SLURM origins at the optional `maxPrefixLength`),
plus the pieces of `ExtendedJson::payload_info`. `outputTemplates` is the table compared
with `Generated.outputTemplates` by `C21_templates_current`.
-/
namespace RoutinatorModel.Output
open RoutinatorModel.Json

inductive Format
  | csv | csvcompat | csvext | json | jsonext | slurm | slurm2
  | openbgpd | bird1 | bird2 | rpsl | summary | none
  deriving DecidableEq, Repr

def t_Json_header : List Seg :=
  [.lit (cp!"{\n  \"metadata\": {\n    \"generated\": "),
   .hole .int,
   .lit (cp!",\n    \"generatedTime\": \""),
   .hole .date,
   .lit (cp!"\"\n  }")]

def t_Json_before_origins : List Seg :=
  [.lit (cp!",\n  \"roas\": [\n")]

def t_Json_origin : List Seg :=
  [.lit (cp!"    { \"asn\": \""),
   .hole .asn,
   .lit (cp!"\", \"prefix\": \""),
   .hole .addr,
   .lit (cp!"/"),
   .hole .nat,
   .lit (cp!"\", \"maxLength\": "),
   .hole .nat,
   .lit (cp!", \"ta\": \""),
   .hole .jsonStr,
   .lit (cp!"\" }")]

def t_Json_origin_delimiter : List Seg :=
  [.lit (cp!",\n")]

def t_Json_after_origins : List Seg :=
  [.lit (cp!"\n  ]")]

def t_Json_before_router_keys : List Seg :=
  [.lit (cp!",\n  \"routerKeys\": [\n")]

def t_Json_router_key : List Seg :=
  [.lit (cp!"    { \"asn\": \""),
   .hole .asn,
   .lit (cp!"\", \"SKI\": \""),
   .hole .hex,
   .lit (cp!"\", \"routerPublicKey\": \""),
   .hole .base64,
   .lit (cp!"\", \"ta\": \""),
   .hole .jsonStr,
   .lit (cp!"\" }")]

def t_Json_router_key_delimiter : List Seg :=
  [.lit (cp!",\n")]

def t_Json_after_router_keys : List Seg :=
  [.lit (cp!"\n  ]")]

def t_Json_before_aspas : List Seg :=
  [.lit (cp!",\n  \"aspas\": [\n")]

def t_Json_aspa_head : List Seg :=
  [.lit (cp!"    { \"customer\": \""),
   .hole .asn,
   .lit (cp!"\", \"providers\": [")]

def t_Json_aspa_first : List Seg :=
  [.lit (cp!"\""),
   .hole .asn,
   .lit (cp!"\"")]

def t_Json_aspa_next : List Seg :=
  [.lit (cp!", \""),
   .hole .asn,
   .lit (cp!"\"")]

def t_Json_aspa_tail : List Seg :=
  [.lit (cp!"], \"ta\": \""),
   .hole .jsonStr,
   .lit (cp!"\" }")]

def t_Json_aspa_delimiter : List Seg :=
  [.lit (cp!",\n")]

def t_Json_after_aspas : List Seg :=
  [.lit (cp!"\n  ]")]

def t_Json_footer : List Seg :=
  [.lit (cp!"\n}\n")]

def t_ExtendedJson_header : List Seg :=
  [.lit (cp!"{\n  \"metadata\": {\n    \"generated\": "),
   .hole .int,
   .lit (cp!",\n    \"generatedTime\": \""),
   .hole .date,
   .lit (cp!"\"\n  }")]

def t_ExtendedJson_before_origins : List Seg :=
  [.lit (cp!",\n  \"roas\": [\n")]

def t_ExtendedJson_origin : List Seg :=
  [.lit (cp!"    { \"asn\": \""),
   .hole .asn,
   .lit (cp!"\", \"prefix\": \""),
   .hole .addr,
   .lit (cp!"/"),
   .hole .nat,
   .lit (cp!"\", \"maxLength\": "),
   .hole .nat,
   .lit (cp!", \"source\": ["),
   .hole .elems,
   .lit (cp!"] }")]

def t_ExtendedJson_origin_delimiter : List Seg :=
  [.lit (cp!",\n")]

def t_ExtendedJson_after_origins : List Seg :=
  [.lit (cp!"\n  ]")]

def t_ExtendedJson_before_router_keys : List Seg :=
  [.lit (cp!",\n  \"routerKeys\": [\n")]

def t_ExtendedJson_router_key : List Seg :=
  [.lit (cp!"    { \"asn\": \""),
   .hole .asn,
   .lit (cp!"\", \"SKI\": \""),
   .hole .hex,
   .lit (cp!"\", \"routerPublicKey\": \""),
   .hole .base64,
   .lit (cp!"\", \"source\": ["),
   .hole .elems,
   .lit (cp!"] }")]

def t_ExtendedJson_router_key_delimiter : List Seg :=
  [.lit (cp!",\n")]

def t_ExtendedJson_after_router_keys : List Seg :=
  [.lit (cp!"\n  ]")]

def t_ExtendedJson_before_aspas : List Seg :=
  [.lit (cp!",\n  \"aspas\": [\n")]

def t_ExtendedJson_aspa_head : List Seg :=
  [.lit (cp!"    { \"customer\": \""),
   .hole .asn,
   .lit (cp!"\", \"providers\": [")]

def t_ExtendedJson_aspa_first : List Seg :=
  [.lit (cp!"\""),
   .hole .asn,
   .lit (cp!"\"")]

def t_ExtendedJson_aspa_next : List Seg :=
  [.lit (cp!", \""),
   .hole .asn,
   .lit (cp!"\"")]

def t_ExtendedJson_aspa_tail : List Seg :=
  [.lit (cp!"], \"source\": ["),
   .hole .elems,
   .lit (cp!"] }")]

def t_ExtendedJson_aspa_delimiter : List Seg :=
  [.lit (cp!",\n")]

def t_ExtendedJson_after_aspas : List Seg :=
  [.lit (cp!"\n  ]")]

def t_ExtendedJson_footer : List Seg :=
  [.lit (cp!"\n}\n")]

def t_Slurm_header : List Seg :=
  [.lit (cp!"{\n  \"slurmVersion\": 1,\n  \"validationOutputFilters\": {\n    \"prefixFilters\": [ ],\n    \"bgpsecFilters\": [ ]\n  },\n  \"locallyAddedAssertions\": {\n")]

def t_Slurm_before_origins : List Seg :=
  [.lit (cp!"    \"prefixAssertions\": [\n")]

def t_Slurm_origin_head : List Seg :=
  [.lit (cp!"      {\n        \"asn\": "),
   .hole .nat,
   .lit (cp!",\n        \"prefix\": \""),
   .hole .addr,
   .lit (cp!"/"),
   .hole .nat,
   .lit (cp!"\",\n")]

def t_Slurm_origin_maxlen : List Seg :=
  [.lit (cp!"        \"maxPrefixLength\": "),
   .hole .nat,
   .lit (cp!",\n")]

def t_Slurm_origin_tail : List Seg :=
  [.lit (cp!"        \"comment\": \""),
   .hole .jsonStr,
   .lit (cp!"\"\n      }")]

def t_Slurm_origin_delimiter : List Seg :=
  [.lit (cp!",\n")]

def t_Slurm_after_origins : List Seg :=
  [.lit (cp!"\n    ],\n")]

def t_Slurm_before_router_keys : List Seg :=
  [.lit (cp!"    \"bgpsecAssertions\": [\n")]

def t_Slurm_router_key : List Seg :=
  [.lit (cp!"      {\n        \"asn\": "),
   .hole .nat,
   .lit (cp!",\n        \"SKI\": \""),
   .hole .base64,
   .lit (cp!"\",\n        \"routerPublicKey\": \""),
   .hole .base64,
   .lit (cp!"\",\n        \"comment\": \""),
   .hole .jsonStr,
   .lit (cp!"\"\n      }")]

def t_Slurm_router_key_delimiter : List Seg :=
  [.lit (cp!",\n")]

def t_Slurm_after_router_keys : List Seg :=
  [.lit (cp!"\n    ]\n")]

def t_Slurm_footer : List Seg :=
  [.lit (cp!"  }\n}\n")]

def t_Slurm2_header : List Seg :=
  [.lit (cp!"{\n  \"slurmVersion\": 2,\n  \"validationOutputFilters\": {\n    \"prefixFilters\": [ ],\n    \"bgpsecFilters\": [ ],\n    \"aspaFilters\": [ ]\n  },\n  \"locallyAddedAssertions\": {\n")]

def t_Slurm2_before_origins : List Seg :=
  [.lit (cp!"    \"prefixAssertions\": [\n")]

def t_Slurm2_origin_head : List Seg :=
  [.lit (cp!"      {\n        \"asn\": "),
   .hole .nat,
   .lit (cp!",\n        \"prefix\": \""),
   .hole .addr,
   .lit (cp!"/"),
   .hole .nat,
   .lit (cp!"\",\n")]

def t_Slurm2_origin_maxlen : List Seg :=
  [.lit (cp!"        \"maxPrefixLength\": "),
   .hole .nat,
   .lit (cp!",\n")]

def t_Slurm2_origin_tail : List Seg :=
  [.lit (cp!"        \"comment\": \""),
   .hole .jsonStr,
   .lit (cp!"\"\n      }")]

def t_Slurm2_origin_delimiter : List Seg :=
  [.lit (cp!",\n")]

def t_Slurm2_after_origins : List Seg :=
  [.lit (cp!"\n    ],\n")]

def t_Slurm2_before_router_keys : List Seg :=
  [.lit (cp!"    \"bgpsecAssertions\": [\n")]

def t_Slurm2_router_key : List Seg :=
  [.lit (cp!"      {\n        \"asn\": "),
   .hole .nat,
   .lit (cp!",\n        \"SKI\": \""),
   .hole .base64,
   .lit (cp!"\",\n        \"routerPublicKey\": \""),
   .hole .base64,
   .lit (cp!"\",\n        \"comment\": \""),
   .hole .jsonStr,
   .lit (cp!"\"\n      }")]

def t_Slurm2_router_key_delimiter : List Seg :=
  [.lit (cp!",\n")]

def t_Slurm2_after_router_keys : List Seg :=
  [.lit (cp!"\n    ],\n")]

def t_Slurm2_before_aspas : List Seg :=
  [.lit (cp!"    \"aspaAssertions\": [\n")]

def t_Slurm2_aspa_head : List Seg :=
  [.lit (cp!"      { \n        \"customerAsn\": "),
   .hole .nat,
   .lit (cp!", \n        \"providerAsns\": [")]

def t_Slurm2_aspa_first : List Seg :=
  [.lit (cp!"\n          "),
   .hole .nat]

def t_Slurm2_aspa_next : List Seg :=
  [.lit (cp!", \n          "),
   .hole .nat]

def t_Slurm2_aspa_tail : List Seg :=
  [.lit (cp!"\n        ],\n        \"comment\": \""),
   .hole .jsonStr,
   .lit (cp!"\"\n      }")]

def t_Slurm2_aspa_delimiter : List Seg :=
  [.lit (cp!",\n")]

def t_Slurm2_after_aspas : List Seg :=
  [.lit (cp!"\n    ]\n")]

def t_Slurm2_footer : List Seg :=
  [.lit (cp!"  }\n}\n")]

def t_ExtendedJson_info_sep : List Seg :=
  [.lit (cp!", ")]

def t_ExtendedJson_info_pub_head : List Seg :=
  [.lit (cp!" { \"type\": \""),
   .hole .word,
   .lit (cp!"\", \"uri\": ")]

def t_ExtendedJson_info_pub_uri : List Seg :=
  [.lit (cp!"\""),
   .hole .uri,
   .lit (cp!"\"")]

def t_ExtendedJson_info_pub_nouri : List Seg :=
  [.lit (cp!"null")]

def t_ExtendedJson_info_pub_rest : List Seg :=
  [.lit (cp!", \"tal\": \""),
   .hole .jsonStr,
   .lit (cp!"\", \"validity\": { \"notBefore\": \""),
   .hole .date,
   .lit (cp!"\", \"notAfter\": \""),
   .hole .date,
   .lit (cp!"\" }, \"chainValidity\": { \"notBefore\": \""),
   .hole .date,
   .lit (cp!"\", \"notAfter\": \""),
   .hole .date,
   .lit (cp!"\" }, \"stale\": \""),
   .hole .date,
   .lit (cp!"\" }")]

def t_ExtendedJson_info_exc_head : List Seg :=
  [.lit (cp!" { \"type\": \"exception\", \"path\": ")]

def t_ExtendedJson_info_exc_path : List Seg :=
  [.lit (cp!"\""),
   .hole .jsonStr,
   .lit (cp!"\"")]

def t_ExtendedJson_info_exc_nopath : List Seg :=
  [.lit (cp!"null")]

def t_ExtendedJson_info_exc_comment : List Seg :=
  [.lit (cp!", \"comment\": \""),
   .hole .jsonStr,
   .lit (cp!"\"")]

def t_ExtendedJson_info_exc_tail : List Seg :=
  [.lit (cp!" }")]

def t_ExtendedJson_info_kinds : List Seg :=
  [.lit (cp!"aspa cer roa")]

def outputTemplates : List (Text × List Seg) := [
  (cp!"Json.header", t_Json_header),
  (cp!"Json.before_origins", t_Json_before_origins),
  (cp!"Json.origin", t_Json_origin),
  (cp!"Json.origin_delimiter", t_Json_origin_delimiter),
  (cp!"Json.after_origins", t_Json_after_origins),
  (cp!"Json.before_router_keys", t_Json_before_router_keys),
  (cp!"Json.router_key", t_Json_router_key),
  (cp!"Json.router_key_delimiter", t_Json_router_key_delimiter),
  (cp!"Json.after_router_keys", t_Json_after_router_keys),
  (cp!"Json.before_aspas", t_Json_before_aspas),
  (cp!"Json.aspa.head", t_Json_aspa_head),
  (cp!"Json.aspa.first", t_Json_aspa_first),
  (cp!"Json.aspa.next", t_Json_aspa_next),
  (cp!"Json.aspa.tail", t_Json_aspa_tail),
  (cp!"Json.aspa_delimiter", t_Json_aspa_delimiter),
  (cp!"Json.after_aspas", t_Json_after_aspas),
  (cp!"Json.footer", t_Json_footer),
  (cp!"ExtendedJson.header", t_ExtendedJson_header),
  (cp!"ExtendedJson.before_origins", t_ExtendedJson_before_origins),
  (cp!"ExtendedJson.origin", t_ExtendedJson_origin),
  (cp!"ExtendedJson.origin_delimiter", t_ExtendedJson_origin_delimiter),
  (cp!"ExtendedJson.after_origins", t_ExtendedJson_after_origins),
  (cp!"ExtendedJson.before_router_keys", t_ExtendedJson_before_router_keys),
  (cp!"ExtendedJson.router_key", t_ExtendedJson_router_key),
  (cp!"ExtendedJson.router_key_delimiter", t_ExtendedJson_router_key_delimiter),
  (cp!"ExtendedJson.after_router_keys", t_ExtendedJson_after_router_keys),
  (cp!"ExtendedJson.before_aspas", t_ExtendedJson_before_aspas),
  (cp!"ExtendedJson.aspa.head", t_ExtendedJson_aspa_head),
  (cp!"ExtendedJson.aspa.first", t_ExtendedJson_aspa_first),
  (cp!"ExtendedJson.aspa.next", t_ExtendedJson_aspa_next),
  (cp!"ExtendedJson.aspa.tail", t_ExtendedJson_aspa_tail),
  (cp!"ExtendedJson.aspa_delimiter", t_ExtendedJson_aspa_delimiter),
  (cp!"ExtendedJson.after_aspas", t_ExtendedJson_after_aspas),
  (cp!"ExtendedJson.footer", t_ExtendedJson_footer),
  (cp!"Slurm.header", t_Slurm_header),
  (cp!"Slurm.before_origins", t_Slurm_before_origins),
  (cp!"Slurm.origin.head", t_Slurm_origin_head),
  (cp!"Slurm.origin.maxlen", t_Slurm_origin_maxlen),
  (cp!"Slurm.origin.tail", t_Slurm_origin_tail),
  (cp!"Slurm.origin_delimiter", t_Slurm_origin_delimiter),
  (cp!"Slurm.after_origins", t_Slurm_after_origins),
  (cp!"Slurm.before_router_keys", t_Slurm_before_router_keys),
  (cp!"Slurm.router_key", t_Slurm_router_key),
  (cp!"Slurm.router_key_delimiter", t_Slurm_router_key_delimiter),
  (cp!"Slurm.after_router_keys", t_Slurm_after_router_keys),
  (cp!"Slurm.footer", t_Slurm_footer),
  (cp!"Slurm2.header", t_Slurm2_header),
  (cp!"Slurm2.before_origins", t_Slurm2_before_origins),
  (cp!"Slurm2.origin.head", t_Slurm2_origin_head),
  (cp!"Slurm2.origin.maxlen", t_Slurm2_origin_maxlen),
  (cp!"Slurm2.origin.tail", t_Slurm2_origin_tail),
  (cp!"Slurm2.origin_delimiter", t_Slurm2_origin_delimiter),
  (cp!"Slurm2.after_origins", t_Slurm2_after_origins),
  (cp!"Slurm2.before_router_keys", t_Slurm2_before_router_keys),
  (cp!"Slurm2.router_key", t_Slurm2_router_key),
  (cp!"Slurm2.router_key_delimiter", t_Slurm2_router_key_delimiter),
  (cp!"Slurm2.after_router_keys", t_Slurm2_after_router_keys),
  (cp!"Slurm2.before_aspas", t_Slurm2_before_aspas),
  (cp!"Slurm2.aspa.head", t_Slurm2_aspa_head),
  (cp!"Slurm2.aspa.first", t_Slurm2_aspa_first),
  (cp!"Slurm2.aspa.next", t_Slurm2_aspa_next),
  (cp!"Slurm2.aspa.tail", t_Slurm2_aspa_tail),
  (cp!"Slurm2.aspa_delimiter", t_Slurm2_aspa_delimiter),
  (cp!"Slurm2.after_aspas", t_Slurm2_after_aspas),
  (cp!"Slurm2.footer", t_Slurm2_footer),
  (cp!"ExtendedJson.info.sep", t_ExtendedJson_info_sep),
  (cp!"ExtendedJson.info.pub.head", t_ExtendedJson_info_pub_head),
  (cp!"ExtendedJson.info.pub.uri", t_ExtendedJson_info_pub_uri),
  (cp!"ExtendedJson.info.pub.nouri", t_ExtendedJson_info_pub_nouri),
  (cp!"ExtendedJson.info.pub.rest", t_ExtendedJson_info_pub_rest),
  (cp!"ExtendedJson.info.exc.head", t_ExtendedJson_info_exc_head),
  (cp!"ExtendedJson.info.exc.path", t_ExtendedJson_info_exc_path),
  (cp!"ExtendedJson.info.exc.nopath", t_ExtendedJson_info_exc_nopath),
  (cp!"ExtendedJson.info.exc.comment", t_ExtendedJson_info_exc_comment),
  (cp!"ExtendedJson.info.exc.tail", t_ExtendedJson_info_exc_tail),
  (cp!"ExtendedJson.info.kinds", t_ExtendedJson_info_kinds)]

/-! Per hook: the template of each format (empty if the formatter does not have the hook). -/

def h_after_aspas : Format → List Seg
  | .json => t_Json_after_aspas
  | .jsonext => t_ExtendedJson_after_aspas
  | .slurm2 => t_Slurm2_after_aspas
  | _ => []

def h_after_origins : Format → List Seg
  | .json => t_Json_after_origins
  | .jsonext => t_ExtendedJson_after_origins
  | .slurm => t_Slurm_after_origins
  | .slurm2 => t_Slurm2_after_origins
  | _ => []

def h_after_router_keys : Format → List Seg
  | .json => t_Json_after_router_keys
  | .jsonext => t_ExtendedJson_after_router_keys
  | .slurm => t_Slurm_after_router_keys
  | .slurm2 => t_Slurm2_after_router_keys
  | _ => []

def h_aspa_first : Format → List Seg
  | .json => t_Json_aspa_first
  | .jsonext => t_ExtendedJson_aspa_first
  | .slurm2 => t_Slurm2_aspa_first
  | _ => []

def h_aspa_head : Format → List Seg
  | .json => t_Json_aspa_head
  | .jsonext => t_ExtendedJson_aspa_head
  | .slurm2 => t_Slurm2_aspa_head
  | _ => []

def h_aspa_next : Format → List Seg
  | .json => t_Json_aspa_next
  | .jsonext => t_ExtendedJson_aspa_next
  | .slurm2 => t_Slurm2_aspa_next
  | _ => []

def h_aspa_tail : Format → List Seg
  | .json => t_Json_aspa_tail
  | .jsonext => t_ExtendedJson_aspa_tail
  | .slurm2 => t_Slurm2_aspa_tail
  | _ => []

def h_aspa_delimiter : Format → List Seg
  | .json => t_Json_aspa_delimiter
  | .jsonext => t_ExtendedJson_aspa_delimiter
  | .slurm2 => t_Slurm2_aspa_delimiter
  | _ => []

def h_before_aspas : Format → List Seg
  | .json => t_Json_before_aspas
  | .jsonext => t_ExtendedJson_before_aspas
  | .slurm2 => t_Slurm2_before_aspas
  | _ => []

def h_before_origins : Format → List Seg
  | .json => t_Json_before_origins
  | .jsonext => t_ExtendedJson_before_origins
  | .slurm => t_Slurm_before_origins
  | .slurm2 => t_Slurm2_before_origins
  | _ => []

def h_before_router_keys : Format → List Seg
  | .json => t_Json_before_router_keys
  | .jsonext => t_ExtendedJson_before_router_keys
  | .slurm => t_Slurm_before_router_keys
  | .slurm2 => t_Slurm2_before_router_keys
  | _ => []

def h_footer : Format → List Seg
  | .json => t_Json_footer
  | .jsonext => t_ExtendedJson_footer
  | .slurm => t_Slurm_footer
  | .slurm2 => t_Slurm2_footer
  | _ => []

def h_header : Format → List Seg
  | .json => t_Json_header
  | .jsonext => t_ExtendedJson_header
  | .slurm => t_Slurm_header
  | .slurm2 => t_Slurm2_header
  | _ => []

def h_origin : Format → List Seg
  | .json => t_Json_origin
  | .jsonext => t_ExtendedJson_origin
  | _ => []

def h_origin_head : Format → List Seg
  | .slurm => t_Slurm_origin_head
  | .slurm2 => t_Slurm2_origin_head
  | _ => []

def h_origin_maxlen : Format → List Seg
  | .slurm => t_Slurm_origin_maxlen
  | .slurm2 => t_Slurm2_origin_maxlen
  | _ => []

def h_origin_tail : Format → List Seg
  | .slurm => t_Slurm_origin_tail
  | .slurm2 => t_Slurm2_origin_tail
  | _ => []

def h_origin_delimiter : Format → List Seg
  | .json => t_Json_origin_delimiter
  | .jsonext => t_ExtendedJson_origin_delimiter
  | .slurm => t_Slurm_origin_delimiter
  | .slurm2 => t_Slurm2_origin_delimiter
  | _ => []

def h_router_key : Format → List Seg
  | .json => t_Json_router_key
  | .jsonext => t_ExtendedJson_router_key
  | .slurm => t_Slurm_router_key
  | .slurm2 => t_Slurm2_router_key
  | _ => []

def h_router_key_delimiter : Format → List Seg
  | .json => t_Json_router_key_delimiter
  | .jsonext => t_ExtendedJson_router_key_delimiter
  | .slurm => t_Slurm_router_key_delimiter
  | .slurm2 => t_Slurm2_router_key_delimiter
  | _ => []

end RoutinatorModel.Output
