import RoutinatorModel.Model.Json
/-!
# A JSON recogniser over texts with typed holes

A *template* is a list of atoms: literal code points and typed holes. The recogniser
`pJson` is a recursive-descent parser for the grammar `J` that treats a hole as an
opaque piece of the right syntactic category:

* `chars` — string content (allowed only between quotation marks),
* `num`   — a complete number (allowed only where a value is expected),
* `nat`   — a decimal numeral without sign (allowed as a value and inside strings),
* `elems` — the content of an array: whitespace or `elements` (allowed only directly
  between `[` and `]`, surrounded by optional literal whitespace),
* `raw`   — arbitrary text (never accepted).

Soundness (`Proofs/JsonRec.lean`): if `pJson t = true` then every instantiation of the
holes with texts of their categories is a JSON text. On a template without holes this is
a plain JSON recogniser.
-/
namespace RoutinatorModel.Json

inductive HoleKind
  | chars
  | num
  | nat
  | elems
  | raw
  deriving DecidableEq, Repr

inductive Atom
  | ch (c : Nat)
  | hole (k : HoleKind) (id : Nat)
  deriving DecidableEq, Repr

abbrev Tmpl := List Atom

def ofText (s : Text) : Tmpl := s.map Atom.ch

/-- Instantiation of a template. -/
def instAtom (σ : Nat → Text) : Atom → Text
  | .ch c => [c]
  | .hole _ id => σ id

def inst (σ : Nat → Text) (t : Tmpl) : Text := t.flatMap (instAtom σ)

def skipWs : Tmpl → Tmpl
  | .ch c :: r => if isWsChar c then skipWs r else .ch c :: r
  | t => t

/-- After the opening quotation mark: string content up to and including the closing
quotation mark. -/
def pChars : Nat → Tmpl → Option Tmpl
  | 0, _ => none
  | _ + 1, [] => none
  | fuel + 1, .hole .chars _ :: r => pChars fuel r
  | fuel + 1, .hole .nat _ :: r => pChars fuel r
  | _ + 1, .hole _ _ :: _ => none
  | fuel + 1, .ch c :: r =>
    if c = 0x22 then some r
    else if c = 0x5C then
      match r with
      | .ch e :: r1 =>
        if isSimpleEscape e then pChars fuel r1
        else if e = 0x75 then
          match r1 with
          | .ch a :: .ch b :: .ch c' :: .ch d :: r2 =>
            if isHex a && isHex b && isHex c' && isHex d then pChars fuel r2 else none
          | _ => none
        else none
      | _ => none
    else if isUnescaped c then pChars fuel r
    else none

def isNumChar (c : Nat) : Bool :=
  isDigit c || c == 0x2D || c == 0x2B || c == 0x2E || c == 0x65 || c == 0x45

/-- The longest prefix of literal number characters. -/
def takeNumChars : Tmpl → Text × Tmpl
  | .ch c :: r => if isNumChar c then ((c :: (takeNumChars r).1), (takeNumChars r).2) else ([], .ch c :: r)
  | t => ([], t)

def pLit (lit : Text) (t : Tmpl) : Option Tmpl :=
  match lit, t with
  | [], t => some t
  | a :: lit, .ch b :: t => if a = b then pLit lit t else none
  | _ :: _, _ => none

mutual
  /-- A value; the input starts at its first character. -/
  def pValue : Nat → Tmpl → Option Tmpl
    | 0, _ => none
    | _ + 1, [] => none
    | _ + 1, .hole .num _ :: r => some r
    | _ + 1, .hole .nat _ :: r => some r
    | _ + 1, .hole _ _ :: _ => none
    | fuel + 1, .ch c :: r =>
      if c = 0x22 then pChars fuel r
      else if c = 0x7B then
        match skipWs r with
        | .ch 0x7D :: r1 => some r1
        | r1 => pMembers fuel r1
      else if c = 0x5B then
        match skipWs r with
        | .ch 0x5D :: r1 => some r1
        | .hole .elems _ :: r1 =>
          (match skipWs r1 with
           | .ch 0x5D :: r2 => some r2
           | _ => none)
        | r1 => pElements fuel r1
      else if c = 0x6E then pLit [0x75, 0x6C, 0x6C] r
      else if c = 0x74 then pLit [0x72, 0x75, 0x65] r
      else if c = 0x66 then pLit [0x61, 0x6C, 0x73, 0x65] r
      else
        let n := takeNumChars (.ch c :: r)
        if isNumberB n.1 then some n.2 else none

  /-- Members; the input starts at the quotation mark of the first name. Consumes the
  closing brace. -/
  def pMembers : Nat → Tmpl → Option Tmpl
    | 0, _ => none
    | fuel + 1, .ch 0x22 :: r =>
      match pChars fuel r with
      | none => none
      | some r1 =>
        match skipWs r1 with
        | .ch 0x3A :: r2 =>
          (match pValue fuel (skipWs r2) with
           | none => none
           | some r3 =>
             match skipWs r3 with
             | .ch 0x2C :: r4 => pMembers fuel (skipWs r4)
             | .ch 0x7D :: r4 => some r4
             | _ => none)
        | _ => none
    | _ + 1, _ => none

  /-- Elements; the input starts at the first character of the first value. Consumes the
  closing bracket. -/
  def pElements : Nat → Tmpl → Option Tmpl
    | 0, _ => none
    | fuel + 1, t =>
      match pValue fuel t with
      | none => none
      | some r1 =>
        match skipWs r1 with
        | .ch 0x2C :: r2 => pElements fuel (skipWs r2)
        | .ch 0x5D :: r2 => some r2
        | _ => none
end

/-- `ws value ws`, nothing left over. -/
def pJson (t : Tmpl) : Bool :=
  match pValue (t.length + 1) (skipWs t) with
  | some r => (skipWs r).isEmpty
  | none => false

/-- A value followed by nothing (used for item templates). -/
def pValueOnly (t : Tmpl) : Bool :=
  match pValue (t.length + 1) t with
  | some r => r.isEmpty
  | none => false

/-- Plain-text recogniser. -/
def recognise (s : Text) : Bool := pJson (ofText s)

end RoutinatorModel.Json
