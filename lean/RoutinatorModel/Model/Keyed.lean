/-!
# Key-sorted association lists and the generic merge-join

All four merge-join loops of `src/payload/delta.rs` (`StandardDelta::construct`,
`StandardDelta::merge`, `AspaDelta::construct`, `AspaDelta::merge`) have the same
shape: walk two key-sorted sequences in parallel, compare the head keys, emit
something for a key that is only on the left, only on the right, or on both.
`mergeH` is that loop once and for all; the four Rust loops are instances
(`Model/Delta.lean`). Keys are natural numbers: the harness sends the rank of
each item in Rust's `Ord`, so the order relation itself is a checked input.
-/
namespace RoutinatorModel

/-- Prepend `(k, c)` if there is a `c`. -/
def consOpt {C : Type} (k : Nat) (o : Option C) (l : List (Nat × C)) : List (Nat × C) :=
  match o with
  | some c => (k, c) :: l
  | none => l

/-- The generic merge-join over two key-sorted lists. `fo` handles keys only in
the old (left) list, `fn` keys only in the new (right) list, `f` keys in both. -/
def mergeH {A B C : Type} (fo : A → Option C) (fn : B → Option C) (f : A → B → Option C) :
    List (Nat × A) → List (Nat × B) → List (Nat × C)
  | [], [] => []
  | [], (k, b) :: ns => consOpt k (fn b) (mergeH fo fn f [] ns)
  | (k, a) :: os, [] => consOpt k (fo a) (mergeH fo fn f os [])
  | (ko, a) :: os, (kn, b) :: ns =>
    if ko < kn then consOpt ko (fo a) (mergeH fo fn f os ((kn, b) :: ns))
    else if kn < ko then consOpt kn (fn b) (mergeH fo fn f ((ko, a) :: os) ns)
    else consOpt kn (f a b) (mergeH fo fn f os ns)
termination_by os ns => os.length + ns.length

/-- Keys strictly increasing. -/
def KSorted {V : Type} (l : List (Nat × V)) : Prop := (l.map Prod.fst).Pairwise (· < ·)

/-- The pointwise meaning of `mergeH`. -/
def combH {A B C : Type} (fo : A → Option C) (fn : B → Option C) (f : A → B → Option C) :
    Option A → Option B → Option C
  | none, none => none
  | some a, none => fo a
  | none, some b => fn b
  | some a, some b => f a b

end RoutinatorModel
